"""Shared 2D evolve case format, implementation runner and independent torus reference (C02/C04/C05/C06/C09/C11).

case = dict(kind='ev2', hist=[grid,…] (scaled ints), dtype, scale, r, nb='moore'|'vn'|'unknown', rule='hash:…',
            T=… | pred=…, memo=…)
"""
import numpy as np

from . import fmt
from .dsl import Rule, Pred
from .ev1 import memo_value, mode_of, strip_calls, shaped, np_scalar  # noqa: F401

NB = {"moore": "Moore", "vn": "von Neumann", "unknown": "hexagonal"}


def line(c, with_mode=None):
    s = "evolve2d hist=%s r=%d nb=%s mode=%s rule=%s" % (fmt.hist(c["hist"]), c["r"], c["nb"],
                                                          with_mode or mode_of(c["memo"]), c["rule"])
    if "T" in c:
        s += " T=%d" % c["T"]
    else:
        s += " pred=%s fuel=%d" % (c["pred"], c.get("fuel", 400))
    return s


def make_ca(c):
    from .ev1 import with_layout
    a = np.array(c["hist"], dtype=object if c["dtype"] == "uint64" else np.int64)
    if c.get("scale", 1) != 1:
        a = (a.astype(np.float64) / c["scale"]).astype(c["dtype"])
    else:
        a = a.astype(c["dtype"])
    return with_layout(a, c.get("layout"))


def scaled(arr, c):
    from .dsl import exact_rows
    return exact_rows(arr, c.get("scale", 1))


def calls_str(log):
    if not log:
        return "_"
    out = []
    for (vals, shape, cc, t) in log:
        rows = [vals[i * shape[1]:(i + 1) * shape[1]] for i in range(shape[0])]
        out.append("%s@%d,%d@%d" % (fmt.omat(rows), cc[0], cc[1], t))
    return "/".join(out)


class Run:
    pass


def run_impl(c, memo=None, rule=None, pred_cls=Pred):
    import cellpylib as cpl
    ca = make_ca(c)
    snapshot = ca.tobytes()
    from .ev1 import nested_of
    rule = rule or Rule(c["rule"], c.get("scale", 1), clobber=bool(c.get("clobber")), mixret=c.get("mixret") or False,
                        nested=nested_of(c, ca, memo))
    pred = None
    if "T" in c:
        ts = c["T"]
    else:
        pred = pred_cls(c["pred"], c.get("scale", 1))
        ts = shaped(pred, c.get("callform"), 2)
    out = Run()
    out.rule, out.pred, out.ca = rule, pred, ca
    out.exc = None
    out.res = None
    import contextlib
    import warnings
    strict = contextlib.ExitStack()
    if c.get("strict"):
        strict.enter_context(np.errstate(all="raise"))
        strict.enter_context(warnings.catch_warnings())
        warnings.simplefilter("error")
    if c.get("prelude"):
        from . import prelude
        from .ev1 import memo_value as _mv
        prelude.run2d(c, ca, _mv(memo if memo is not None else c["memo"]), NB[c["nb"]],
                      rule=rule if getattr(rule, "name", "") in ("hash", "probe", "nks", "total") and not getattr(rule, "nested", None) else None)
    try:
      with strict:
        out.res = cpl.evolve2d(ca, timesteps=np_scalar(ts, c.get("npform")) if "T" in c else ts,
                               apply_rule=shaped(rule, c.get("callform")), r=np_scalar(c["r"], c.get("npform")), neighbourhood=NB[c["nb"]],
                               memoize=memo_value(memo if memo is not None else c["memo"]))
    except Exception as e:  # noqa
        out.exc = e
    out.input_intact = (ca.tobytes() == snapshot and ca.dtype == np.dtype(c["dtype"]))
    return out


def answer(c, run, with_calls=True):
    if run.exc is not None:
        return fmt.err(run.exc)
    s = "ok grids=" + fmt.hist(scaled(run.res, c))
    if with_calls:
        s += " calls=" + calls_str(run.rule.log)
    return s


def ref_nbhd(g, r, vn, row, col):
    R, C = len(g), len(g[0])
    n = []
    for a in range(2 * r + 1):
        rowv = []
        for b in range(2 * r + 1):
            if vn and abs(a - r) + abs(b - r) > r:
                rowv.append(None)
            else:
                rowv.append(g[(row - r + a) % R][(col - r + b) % C])
        n.append(rowv)
    return n


def _as_array(n):
    flat = [x for row in n for x in row]
    big = any(x is not None and abs(x) >= 2 ** 53 for x in flat)       # keep such values exact (no float64 promotion)
    if any(x is None for x in flat):
        data = np.array([[0 if x is None else x for x in row] for row in n], dtype=object if big else None)
        mask = np.array([[x is None for x in row] for row in n])
        return np.ma.masked_array(data, mask)
    return np.array(n, dtype=object if big else None)


def ref_evolve(c, steps):
    """Torus reference: row-major, once per cell, with (n, (row, col), t)."""
    rule = Rule(c["rule"], 1)
    g = [list(r) for r in c["hist"][-1]]
    R, C = len(g), len(g[0])
    vn = c["nb"] == "vn"
    grids = [[list(r) for r in gg] for gg in c["hist"]]
    for t in range(1, steps + 1):
        nxt = [[0] * C for _ in range(R)]
        for row in range(R):
            for col in range(C):
                n = ref_nbhd(g, c["r"], vn, row, col)
                rule(_as_array(n), (row, col), t)
                nxt[row][col] = int(rule.stored())
        grids.append(nxt)
        g = nxt
    return grids, rule.log
