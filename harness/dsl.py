"""Python twin of lean/Cpl/Model/Dsl.lean: rule and predicate DSL, with call recording."""
import numpy as np


def exact(x, scale):
    """A cell value as a scaled integer; exact for integer states of any magnitude (no detour through float64)."""
    if scale == 1 and isinstance(x, (int, np.integer, bool, np.bool_)):
        return int(x)
    return int(round(float(x) * scale))


def exact_rows(arr, scale):
    a = np.asarray(arr)
    if scale == 1 and a.dtype.kind in "iub":
        return a.astype(object).tolist() if a.dtype.kind == "u" and a.dtype.itemsize == 8 else a.tolist()
    return np.rint(a.astype(np.float64) * scale).astype(np.int64).tolist()


def _cells(n, scale):
    """Neighbourhood -> (values as scaled ints in row-major order, None for masked cells)."""
    if isinstance(n, np.ma.MaskedArray):
        data = np.ma.getdata(n)
        mask = np.ma.getmaskarray(n)
        flat = []
        for x, m in zip(data.ravel().tolist(), mask.ravel().tolist()):
            flat.append(None if m else exact(x, scale))
        return flat, n.shape
    a = np.asarray(n)
    return [exact(x, scale) for x in a.ravel().tolist()], a.shape


def poly_hash(a, b, vals):
    acc = 0
    i = 0
    for x in vals:
        if x is None:
            continue
        acc += (a ** i) * x
        i += 1
    return b + acc


class Rule:
    """rule := hash:k:a:b:off | probe:k:a:b:off | counter:k:off | nks:R | total:k:R"""

    def __init__(self, spec, scale=1, clobber=False, mixret=False, nested=None):
        self.nested = nested        # dict(dim, shape, dtype, r, T, nb): every few calls the rule runs another evolution of the library itself
        self.depth = 0
        self.spec = spec
        self.scale = scale
        self.clobber = clobber      # overwrite the neighbourhood array after reading it (a rule may do that)
        self.mixret = mixret        # return NumPy scalars of the automaton's dtype and plain Python ints alternately
        p = spec.split(":")
        self.name = p[0]
        self.args = [int(x) for x in p[1:]]
        self.count = 0
        self.log = []

    def reenter(self):
        """A user's rule may itself use the library (a coupled second automaton, a look-ahead): a nested evolution of the same
        or of another shape must not disturb the one in progress."""
        import cellpylib as cpl
        nd = self.nested
        self.depth += 1
        try:
            variant = (len(self.log) // 3) % 2
            if nd["dim"] == 1:
                N = nd["shape"][0] if variant == 0 else nd["shape"][0] + 1
                r = nd["r"] if variant == 0 else 1
                ca = (np.arange(N).reshape(1, N) % 2).astype(nd["dtype"])
                T = nd["T"] if variant == 0 else 3
                ts = T if not nd.get("dyn") else (lambda a, tt: tt < T)
                cpl.evolve(ca, timesteps=ts, apply_rule=lambda nn, cc, tt: nn[0], r=min(r, N), memoize=nd.get("memo", False))
            else:
                R, C = nd["shape"] if variant == 0 else (nd["shape"][0] + 1, nd["shape"][1])
                r = nd["r"] if variant == 0 else min(nd["r"] + 1, R, C)
                ca = (np.arange(R * C).reshape(1, R, C) % 2).astype(nd["dtype"])
                T = nd["T"] if variant == 0 else 3
                ts = T if not nd.get("dyn") else (lambda a, tt: tt < T)
                cpl.evolve2d(ca, timesteps=ts, apply_rule=lambda nn, cc, tt: int(np.ma.getdata(nn).ravel()[0]), r=r,
                             neighbourhood=nd["nb"] if variant == 0 else "von Neumann", memoize=nd.get("memo", False))
        finally:
            self.depth -= 1

    def __call__(self, n, c, t):
        if self.nested and self.depth == 0 and len(self.log) % 3 == 1:
            self.reenter()
        vals, shape = _cells(n, self.scale)
        cc = tuple(int(x) for x in c) if isinstance(c, (tuple, list, np.void, np.ndarray)) else int(c)
        self.log.append((vals, shape, cc, int(t)))
        if self.name == "shiftc":
            # arithmetic on the cell index AS HANDED OVER: exact for Python ints, wraps for fixed-width NumPy integers
            self.raw_shift = (1 << c) if not isinstance(c, (tuple, list, np.void, np.ndarray)) else (1 << c[0]) + (1 << c[1])
        out = self.value(vals, shape, cc, int(t))
        self.last_out = out
        if self.name == "half":
            # not representable in an integer dtype: the library's assignment has to cast it
            ret = out / self.scale + 0.5
            if self.clobber:
                try:
                    np.ma.getdata(n)[...] = 3
                except (ValueError, TypeError):
                    pass
            return ret
        if self.clobber:
            try:
                np.ma.getdata(n)[...] = 3        # the block handed to the rule is the rule's to scribble on
            except (ValueError, TypeError):
                pass                              # read-only view: nothing to clobber
        if self.mixret == "zerod":
            # what `np.where(cond, a, b)` or `np.sum(..., keepdims=False)` on scalars hands back: a 0-d ndarray
            dt = np.ma.getdata(n).dtype
            val = out / self.scale if self.scale != 1 else out
            try:
                return np.array(val, dtype=dt if self.name != "half" else None)
            except (OverflowError, ValueError):
                return np.array(val)
        if self.mixret and self.scale == 1 and len(self.log) % 2:
            dt = np.ma.getdata(n).dtype
            if dt.kind in "iu":
                return dt.type(out)
        return out / self.scale if self.scale != 1 else out

    def value(self, vals, shape, cc, t):
        nm, a = self.name, self.args
        if nm == "hash":
            k, aa, b, off = a
            return poly_hash(aa, b, vals) % k + off
        if nm == "probe":
            k, aa, b, off = a
            code = cc if isinstance(cc, int) else 31 * cc[0] + cc[1]
            return (poly_hash(aa, b, vals) + 7 * code + 13 * t) % k + off
        if nm == "counter":
            k, off = a
            if len(shape) == 1:
                centre = vals[len(vals) // 2]
            else:
                centre = vals[(shape[0] // 2) * shape[1] + shape[1] // 2]
            out = (self.count + centre) % k + off
            self.count += 1
            return out
        if nm == "nks":
            (R,) = a
            v = 0
            for x in vals:
                v = 2 * v + (1 if x else 0)
            return (R >> v) & 1
        if nm == "total":
            k, R = a
            s = sum(x for x in vals if x is not None)
            return (R // (k ** s)) % k
        if nm == "half":
            k, aa, b, off, s2 = a
            return poly_hash(aa, b, vals) % k + off      # the extra 1/2 is added in __call__ (unscaled units)
        if nm == "shiftc":
            k, off = a
            if len(shape) == 1:
                centre = vals[len(vals) // 2]
            else:
                centre = vals[(shape[0] // 2) * shape[1] + shape[1] // 2]
            return (int(self.raw_shift) % 1000003 + centre) % k + off
        if nm == "pulse":
            k, t0, off = a
            if len(shape) == 1:
                centre = vals[len(vals) // 2]
            else:
                centre = vals[(shape[0] // 2) * shape[1] + shape[1] // 2]
            return (centre + 1) % k + off if t == t0 else centre
        raise ValueError("unknown rule " + self.spec)

    def stored(self):
        """What the automaton holds after the last call, in scaled units (reference semantics of the dtype cast)."""
        out = self.last_out
        if self.name == "half":
            s2 = self.args[4]
            return (out if out >= 0 else out + 1) if s2 == 0 else out + s2
        return out

    def fresh(self):
        return Rule(self.spec, self.scale, clobber=self.clobber, mixret=self.mixret, nested=self.nested)


class Pred:
    """pred := steps:K | never | fixedpoint | sumlt:K | lenle:K  — records its arguments."""

    def __init__(self, spec, scale=1, use_library_fixed_point=True):
        self.spec = spec
        self.scale = scale
        self.calls = []
        p = spec.split(":")
        self.name = p[0]
        self.args = [int(x) for x in p[1:]]
        self._ufp = None
        if self.name == "fixedpoint" and use_library_fixed_point:
            import cellpylib as cpl
            self._ufp = cpl.until_fixed_point()

    def __call__(self, ca, t):
        arr = np.asarray(ca)
        rows = exact_rows(arr, self.scale)
        self.calls.append((rows, int(t)))
        nm = self.name
        if nm == "steps":
            return t <= self.args[0]
        if nm == "never":
            return False
        if nm == "fixedpoint":
            if self._ufp is not None:
                return self._ufp(ca, t)
            return not (len(arr) > 1 and (arr[-2] == arr[-1]).all())
        if nm == "sumlt":
            return sum(exact(x, self.scale) for x in np.asarray(arr[-1]).ravel().tolist()) < self.args[0]
        if nm == "lenle":
            return len(arr) <= self.args[0]
        raise ValueError(self.spec)
