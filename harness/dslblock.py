"""Python twin of lean/Cpl/Model/DslBlock.lean: block rules for evolve_block / evolve2d_block."""
import numpy as np


def rotl(l, k):
    if not l:
        return l
    k %= len(l)
    return l[k:] + l[:k]


class BRule:
    """rev | rot | swapif | sumrot | probe:k | counter:k | short"""

    def __init__(self, spec, inplace=False, nested=None):
        self.nested = nested        # dict(shape, dtype, b): every few calls the block rule runs a block evolution of its own (same shape)
        self.depth = 0
        self.inplace = inplace      # a 2-D block rule may update the block it was handed in place and return it
        self.spec = spec
        p = spec.split(":")
        self.name = p[0]
        self.args = [int(x) for x in p[1:]]
        self.count = 0
        self.log = []

    def flat(self, blk, t):
        nm = self.name
        if nm == "rev":
            return blk[::-1]
        if nm == "rot":
            return rotl(blk, 1)
        if nm == "swapif":
            return blk[::-1] if t % 2 == 1 else list(blk)
        if nm == "sumrot":
            return rotl(blk, sum(blk) % len(blk))
        if nm == "probe":
            return [(x + t + i) % self.args[0] for i, x in enumerate(blk)]
        if nm == "counter":
            out = [(x + self.count) % self.args[0] for x in blk]
            self.count += 1
            return out
        if nm == "short":
            return blk[:-1]
        raise ValueError(self.spec)

    def reenter(self):
        import cellpylib as cpl
        nd = self.nested
        self.depth += 1
        try:
            ca = (np.arange(int(np.prod(nd["shape"]))).reshape((1,) + tuple(nd["shape"])) % 3).astype(nd["dtype"])
            if len(nd["shape"]) == 1:
                cpl.evolve_block(ca, block_size=nd["b"], timesteps=3, apply_rule=lambda blk, tt: tuple(blk[::-1]))
            else:
                cpl.evolve2d_block(ca, block_size=tuple(nd["b"]), timesteps=3, apply_rule=lambda blk, tt: blk[::-1, ::-1].copy())
        finally:
            self.depth -= 1

    def __call__(self, n, t):
        if self.nested and self.depth == 0 and len(self.log) % 3 == 1:
            self.reenter()
        if isinstance(n, tuple):          # evolve_block hands a tuple of cell states
            blk = [int(x) for x in n]
            self.log.append((blk, int(t)))
            return tuple(self.flat(blk, int(t)))
        a = np.asarray(n)
        blk = [int(x) for x in a.ravel().tolist()]
        self.log.append((blk, int(t)))
        out = self.flat(blk, int(t))
        if self.inplace and isinstance(n, np.ndarray) and len(out) == a.size:
            try:
                n[...] = np.array(out).reshape(a.shape)
                return n
            except (ValueError, TypeError):
                pass
        return np.array(out).reshape(a.shape)
