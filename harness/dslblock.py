"""Python twin of lean/Cpl/Model/DslBlock.lean: block rules for evolve_block / evolve2d_block."""
import numpy as np


def rotl(l, k):
    if not l:
        return l
    k %= len(l)
    return l[k:] + l[:k]


class BRule:
    """rev | rot | swapif | sumrot | probe:k | counter:k | short"""

    def __init__(self, spec, inplace=False):
        self.inplace = inplace      # a 2-D block rule may update the block it was handed in place and return it
        self.spec = spec
        p = spec.split(":")
        self.name = p[0]
        self.args = [int(x) for x in p[1:]]
        self.count = 0
        self.log = []

    def flat(self, blk, t):
        nm = self.name
        if nm == "rev":
            return blk[::-1]
        if nm == "rot":
            return rotl(blk, 1)
        if nm == "swapif":
            return blk[::-1] if t % 2 == 1 else list(blk)
        if nm == "sumrot":
            return rotl(blk, sum(blk) % len(blk))
        if nm == "probe":
            return [(x + t + i) % self.args[0] for i, x in enumerate(blk)]
        if nm == "counter":
            out = [(x + self.count) % self.args[0] for x in blk]
            self.count += 1
            return out
        if nm == "short":
            return blk[:-1]
        raise ValueError(self.spec)

    def __call__(self, n, t):
        if isinstance(n, tuple):          # evolve_block hands a tuple of cell states
            blk = [int(x) for x in n]
            self.log.append((blk, int(t)))
            return tuple(self.flat(blk, int(t)))
        a = np.asarray(n)
        blk = [int(x) for x in a.ravel().tolist()]
        self.log.append((blk, int(t)))
        out = self.flat(blk, int(t))
        if self.inplace and isinstance(n, np.ndarray) and len(out) == a.size:
            try:
                n[...] = np.array(out).reshape(a.shape)
                return n
            except (ValueError, TypeError):
                pass
        return np.array(out).reshape(a.shape)
