import argparse
import os
import sys
import traceback

from . import core


def main():
    ap = argparse.ArgumentParser()
    ap.add_argument("prop")
    ap.add_argument("--tier", default=os.environ.get("VERIF_TIER", "quick"), choices=["quick", "thorough"])
    ap.add_argument("--replay", default=None)
    ap.add_argument("--seed", type=int, default=None)
    a = ap.parse_args()
    seed = a.seed if a.seed is not None else int(os.environ.get("VERIF_SEED", "0") or 0)
    try:
        rc = core.run_property(a.prop.upper(), a.tier, seed, replay=a.replay)
    except Exception:
        traceback.print_exc()
        print("INFRASTRUCTURE-ERROR (exit 2): the check itself failed; this is not a verdict")
        sys.exit(2)
    sys.exit(rc)


if __name__ == "__main__":
    main()
