"""C06 — callable timesteps gate every step; until_fixed_point halts at the first fixed point (1D and 2D)."""
import numpy as np

from .. import ev1
from . import c03
from ..dsl import Pred, Rule

def ev1_nested(c, ca):
    from ..ev1 import nested_of
    return nested_of(c, ca)


PROP = "C06"
RULE = ("cases: predicates steps:K (K>=0), never, until_fixed_point(), state-dependent sum(last)<K, history-length "
        "dependent len(ca)<=K; including ones false at t=1; 1D (and 2D) automata, histories of 1..3 rows, all three "
        "memoize modes, rules that do and do not reach a fixed point (fuel-capped runs are compared as out-of-fuel). "
        "Non-trivial: the run terminated and either took >=1 step or declined at once on a history of >=1 rows.")
TRUSTED = c03.TRUSTED + ["non-termination cannot be exhibited: predicate twins stop after `fuel` consultations"]
ASSUMPTIONS = ["predicates are pure functions of (rows so far, t) in the model; the recorder checks what the implementation passes"]

FUEL = 60


class FuelExhausted(BaseException):
    pass


class CappedPred(Pred):
    fuel = FUEL

    def __call__(self, ca, t):
        if len(self.calls) >= self.fuel:
            raise FuelExhausted()
        return super().__call__(ca, t)


def rand_case(rng):
    c = c03.rand_case(rng, memos=["False", "True", "recursive_lit"], maxN=17)
    c.pop("T", None)
    which = rng.random()
    if which < 0.3:
        c["pred"] = "steps:%d" % rng.choice([0, 0, 1, 2, 3, 5])
    elif which < 0.4:
        c["pred"] = "never"
    elif which < 0.7:
        c["pred"] = "fixedpoint"
        # rules that tend to settle
        if rng.random() < 0.7:
            c["rule"] = rng.choice(["nks:0", "nks:4", "nks:128", "nks:254", "nks:204", "nks:12", "nks:36", "nks:232",
                                    "hash:1:2:0:0", "nks:250", "nks:50", "nks:108"])
            c["r"] = 1
            c["hist"] = [[abs(x) % 2 for x in row] for row in c["hist"]]
            if len(c["hist"][-1]) < 1:
                c["hist"] = [[0, 1, 0]]
    elif which < 0.85:
        c["pred"] = "sumlt:%d" % rng.randint(-2, 12)
    else:
        c["pred"] = "lenle:%d" % rng.randint(0, 4)
    c["fuel"] = FUEL
    return c


def gen(ctx):
    rng = ctx.rng
    # corpus: D3 zero-step (declines at once) with and without prior history
    yield dict(kind="ev1", hist=[[0, 1, 0]], dtype="int32", scale=1, r=1, rule="nks:30", memo="False", pred="never", fuel=FUEL)
    yield dict(kind="ev1", hist=[[1, 1, 0], [0, 1, 0]], dtype="int32", scale=1, r=1, rule="nks:30", memo="recursive_lit", pred="steps:0", fuel=FUEL)
    yield dict(kind="ev1", hist=[[0, 0, 0, 0, 1, 0, 0, 0]], dtype="int32", scale=1, r=1, rule="nks:4", memo="True", pred="fixedpoint", fuel=FUEL)
    for _ in range(ctx.n(500, 5000)):
        yield rand_case(rng)
    # long runs (buffer growth thresholds 32 / 64 / 128 / 256 states) with and without a prior history, every mode
    for K in ([33, 66, 130] if ctx.tier == "quick" else [31, 32, 33, 63, 64, 65, 66, 127, 128, 129, 130, 257]):
        for H in (1, 2, 3):
            N = rng.randint(3, 7)
            hist = [[rng.randrange(2) for _ in range(N)] for _ in range(H)]
            yield dict(kind="ev1", hist=hist, dtype="int32", scale=1, r=1, rule=rng.choice(["nks:30", "nks:110", "hash:3:2:1:0"]),
                       memo=rng.choice(["False", "True", "recursive_lit"]), pred="steps:%d" % K, fuel=K + 5)
            yield dict(kind="ev1", hist=hist, dtype="int32", scale=1, r=1, rule="nks:30", memo="False", pred="lenle:%d" % K, fuel=K + 5)
    for _ in range(ctx.n(30, 300)):
        yield dict(kind="nf", dim=rng.choice([1, 1, 2]), N=rng.randint(3, 8), K=rng.randint(1, 5), memo=rng.choice(["False", "True", "recursive_lit"]),
                   dtype=rng.choice(["float64", "float32"]), seed=rng.randrange(10 ** 6))
    for _ in range(ctx.n(30, 300)):
        yield dict(kind="ufp2", dim=rng.choice([1, 1, 2]), N=rng.randint(3, 9), R=rng.choice([0, 4, 12, 128, 204, 254]),       # rules that settle from every state
                   memo=rng.choice(["False", "True", "recursive_lit"]), seed=rng.randrange(10 ** 6))
    # the rule's arguments are the same kind of values on the callable-timesteps path as on the fixed path
    for N in ([70] if ctx.tier == "quick" else [64, 70, 96]):
        for memo in ("False", "True", "recursive_lit"):
            yield dict(kind="ev1", hist=[[rng.randrange(3) for _ in range(N)]], dtype="int32", scale=1, r=1, rule="shiftc:3:0",
                       memo=memo, pred="steps:%d" % rng.randint(1, 3), fuel=8)
    # a resting state that a time-dependent (or stateful) rule later perturbs, under a predicate that keeps going:
    # every granted step must consult the rule, whether or not the state has stopped changing
    for _ in range(ctx.n(40, 400)):
        N = rng.randint(2, 8)
        k = rng.randint(2, 4)
        K = rng.randint(4, 12)
        H = rng.randint(1, 3)
        row = [rng.randrange(k) for _ in range(N)]
        yield dict(kind="ev1", hist=[list(row) for _ in range(H)], dtype=rng.choice(["int32", "int64", "float64"]), scale=1, r=rng.choice([1, 1, 2]),
                   rule="pulse:%d:%d:0" % (k, rng.randint(2, K)), memo=rng.choice(["False", "False", "True", "recursive_lit"]),
                   pred=rng.choice(["steps:%d" % K, "lenle:%d" % (K + H - 1)]), fuel=K + 5)
    # states of large magnitude that keep moving by a few units per step: "unchanged" must mean equal, not close
    for _ in range(ctx.n(60, 600)):
        N = rng.randint(2, 9)
        k = rng.randint(2, 4)
        base = rng.choice([10 ** 5, 10 ** 6, 3 * 10 ** 7, 10 ** 9])
        dtype = rng.choice(["int64", "int64", "float64"])
        c = dict(kind="ev1", hist=[[base + rng.randrange(k) for _ in range(N)]], dtype=dtype, scale=1, r=1,
                 rule=rng.choice(["hash:%d:3:1:%d" % (k, base), "probe:%d:2:1:%d" % (k, base), "counter:%d:%d" % (k, base)]),
                 memo="False", pred="fixedpoint", fuel=FUEL)
        if c["rule"].startswith("hash"):
            c["memo"] = rng.choice(["False", "True", "recursive_lit"])
        yield c
    # slowly converging float automata (oracle only: inexact arithmetic)
    for _ in range(ctx.n(20, 200)):
        yield dict(kind="slow", dim=rng.choice([1, 2]), N=rng.randint(2, 6), dtype=rng.choice(["float64", "float32"]),
                   memo=rng.choice(["False", "True", "recursive_lit"]), seed=rng.randrange(10 ** 6))
    try:
        from . import c06_2d
        yield from c06_2d.gen(ctx)
    except ImportError:
        pass


def _mod(c):
    if c["kind"] == "ev2":
        from . import c06_2d
        return c06_2d
    return None


def line(c):
    if c["kind"] in ("slow", "ufp2", "nf"):
        return None
    m = _mod(c)
    return (m.line(c) if m else ev1.line(c)) + " consults=1"


def run_capped(c):
    import cellpylib as cpl
    ca = ev1.make_ca(c)
    rule = Rule(c["rule"], c.get("scale", 1), clobber=bool(c.get("clobber")), mixret=c.get("mixret") or False, nested=ev1_nested(c, ev1.make_ca(c)))
    pred = CappedPred(c["pred"], c.get("scale", 1))
    pred.fuel = c.get("fuel", FUEL)
    try:
        res = cpl.evolve(ca, timesteps=pred, apply_rule=rule, r=c["r"], memoize=ev1.memo_value(c["memo"]))
    except FuelExhausted:
        return ca, rule, pred, None, "fuel"
    except Exception as e:  # noqa
        return ca, rule, pred, None, e
    return ca, rule, pred, res, None


def run_slow(c):
    """A float automaton that halves towards zero: it reaches an exact fixed point only after many tiny steps."""
    import cellpylib as cpl
    rng = np.random.RandomState(c["seed"])
    memo = ev1.memo_value(c["memo"])
    rule = lambda n, cc, t: float(np.asarray(n).ravel()[np.asarray(n).size // 2]) / 2.0        # noqa: E731
    if c["dim"] == 1:
        ca = (rng.random_sample((1, c["N"])) + 0.5).astype(c["dtype"])
        return ca, cpl.evolve(ca, timesteps=cpl.until_fixed_point(), apply_rule=rule, r=1, memoize=memo)
    ca = (rng.random_sample((1, c["N"], c["N"])) + 0.5).astype(c["dtype"])
    return ca, cpl.evolve2d(ca, timesteps=cpl.until_fixed_point(), apply_rule=rule, r=1, memoize=memo)


def impl(c):
    if c["kind"] in ("slow", "ufp2", "nf"):
        return "n/a"
    m = _mod(c)
    if m:
        return m.impl(c)
    ca, rule, pred, res, exc = run_capped(c)
    if exc == "fuel":
        return "out-of-fuel"
    if exc is not None:
        from .. import fmt
        return fmt.err(exc)
    from .. import fmt
    return "ok rows=" + fmt.mat(ev1.scaled_rows(res, c)) + " consults=" + "/".join("%s@%d" % (fmt.mat(rows), t) for rows, t in pred.calls)


def strip_calls_keep_consults(ans):
    """Drop the rule-call trace (not part of this property's tie), keep rows and the predicate's consultation trace."""
    i = ans.find(" calls=")
    if i < 0:
        return ans
    j = ans.find(" consults=")
    return ans[:i] + (ans[j:] if j >= 0 else "")


def compare(c, a, b):
    return strip_calls_keep_consults(a) == strip_calls_keep_consults(b)


def oracle_ufp2(c):
    """ONE until_fixed_point() object used for several evolutions: every call is judged on the states of that call."""
    import cellpylib as cpl
    rng = np.random.RandomState(c["seed"])
    memo = ev1.memo_value(c["memo"])
    ufp = cpl.until_fixed_point()
    if c["dim"] == 1:
        rule = lambda n, cc, t: cpl.nks_rule(n, c["R"])                                           # noqa: E731
        ev = lambda a: cpl.evolve(a, timesteps=ufp, apply_rule=rule, r=1, memoize=memo)              # noqa: E731
        ca = rng.randint(0, 2, size=(1, c["N"])).astype(np.int32)
    else:
        rule = (lambda n, cc, t: int(np.sum(n) >= 1)) if c["R"] % 8 else (lambda n, cc, t: int(np.sum(n) == n.size))   # monotone: settles  # noqa: E731
        ev = lambda a: cpl.evolve2d(a, timesteps=ufp, apply_rule=rule, r=1, memoize=memo)            # noqa: E731
        ca = rng.randint(0, 2, size=(1, 3, c["N"])).astype(np.int32)
    first = ev(ca)
    if len(first) < 2 or first[-1].tobytes() != first[-2].tobytes():
        return None if len(first) >= 2 else "until_fixed_point declined at once"     # (rules that do not settle within the cap are not generated)
    # continue from where the first evolution ended: at least one step is taken, and it ends at once (the state rests)
    second = ev(first)
    if len(second) != len(first) + 1:
        return "a reused until_fixed_point() took %d steps when continuing a settled %dD evolution (one step reaches the verdict)" % (
            len(second) - len(first), c["dim"])
    # and a fresh automaton evolved with the same object behaves as with a new one
    other = rng.randint(0, 2, size=ca.shape).astype(np.int32)
    a = ev(other)
    b = (cpl.evolve(other, timesteps=cpl.until_fixed_point(), apply_rule=rule, r=1, memoize=memo) if c["dim"] == 1 else
         cpl.evolve2d(other, timesteps=cpl.until_fixed_point(), apply_rule=rule, r=1, memoize=memo))
    if a.shape != b.shape or a.tobytes() != b.tobytes():
        return "a reused until_fixed_point() object gives a different evolution than a fresh one"
    return None


def oracle_nf(c):
    """The states a callable-timesteps evolution goes through are those of the fixed-count evolution, NaN and inf included."""
    ca = ev1.nf_automaton(c)
    K = c["K"]
    try:
        dyn = ev1.nf_evolve(c, ca, lambda a, t: t <= K, c["memo"])
        fix = ev1.nf_evolve(c, ca.copy(), K + 1, c["memo"])
    except Exception as e:
        return "a float automaton producing NaN / inf raised %s: %s" % (type(e).__name__, str(e)[:70])
    if dyn.shape != fix.shape or dyn.dtype != fix.dtype or dyn.tobytes() != fix.tobytes():
        return "callable timesteps (%d steps) differs from the fixed-count evolution on a float automaton with NaN / inf states" % K
    return None


def oracle(c):
    if c["kind"] == "nf":
        return oracle_nf(c)
    if c["kind"] == "ufp2":
        return oracle_ufp2(c)
    if c["kind"] == "slow":
        ca, res = run_slow(c)
        rows = [r.tobytes() for r in res]
        if len(rows) < 2:
            return "until_fixed_point declined at once"
        if rows[-1] != rows[-2]:
            return "until_fixed_point stopped after %d steps although the last two states still differ (%s, %dD)" % (len(rows) - 1, c["dtype"], c["dim"])
        for i in range(1, len(rows) - 1):
            if rows[i] == rows[i - 1]:
                return "until_fixed_point ran past the first unchanged step"
        return None
    m = _mod(c)
    if m:
        return m.oracle(c)
    ca, rule, pred, res, exc = run_capped(c)
    if exc == "fuel":
        return None
    if exc is not None:
        return "evolve with a callable timesteps raised %s: %s" % (type(exc).__name__, str(exc)[:80])
    H = len(c["hist"])
    rows = ev1.scaled_rows(res, c)
    if rows[:H] != c["hist"]:
        return "given history not returned as a prefix"
    if isinstance(res, np.ndarray) and np.shares_memory(res, ca):
        # also when the predicate declines at once: the result is a new array, never the caller's own
        return "the returned evolution shares memory with the array that was passed in (%d steps taken)" % (len(rows) - H)
    k = len(rows) - H            # steps performed
    # the predicate was consulted with (rows of this call so far, t = their number), t = 1..k+1
    this_call = [c["hist"][-1]] + rows[H:]
    want = [(this_call[:i], i) for i in range(1, k + 2)]
    if pred.calls != want:
        return "predicate consulted with %s, expected (rows so far, t) for t=1..%d" % (str(pred.calls)[:200], k + 1)
    # a step is performed exactly when it returns true
    chk = Pred(c["pred"], 1, use_library_fixed_point=False)
    for i in range(1, k + 2):
        if bool(chk(np.array(this_call[:i]), i)) != (i <= k):
            return "step %d performed although predicate was %s" % (i, i > k)
    # equals the fixed-count evolution of the same length
    fx = dict(c)
    fx.pop("pred")
    fx["T"] = k + 1
    fr = ev1.run_impl(fx)
    if fr.exc is not None:
        return "fixed-count evolution raised %s" % type(fr.exc).__name__
    if ev1.scaled_rows(fr.res, fx) != rows or fr.res.dtype != res.dtype:
        return "result differs from the fixed-count evolution of the same length"
    if c["pred"] == "fixedpoint":
        if k >= 1:
            if this_call[-1] != this_call[-2]:
                return "until_fixed_point stopped although the last two rows differ"
            for i in range(1, len(this_call) - 1):
                if this_call[i] == this_call[i - 1]:
                    return "until_fixed_point ran past the first fixed point (rows %d,%d equal)" % (i - 1, i)
        else:
            return "until_fixed_point declined at once"
    return None


def nontrivial(c, ans):
    return c["kind"] == "slow" or ans.startswith("ok")


shrink = c03.shrink
