"""2D part of C09: call counts under memoize=True / 'recursive' in evolve2d."""
from .. import ev2
from ..dsl import Rule
from . import c04


def gen(ctx):
    rng = ctx.rng
    yield dict(kind="ev2", hist=[[[0, 1, 0, 1], [1, 0, 1, 0], [0, 1, 0, 1]]], dtype="int32", scale=1, r=1, nb="vn",
               rule="hash:2:3:1:0", T=3, memo="True")
    for _ in range(ctx.n(300, 3000)):
        c = c04.rand_case(rng, memos=["True", "recursive_lit"], maxdim=7)
        yield c
    # large radii: a single (2r+1)^2 block of several KiB (size thresholds of a cache)
    for (R, C, r, dt) in ([(24, 23, 11, "int64"), (34, 33, 16, "int32")] if ctx.tier == "quick" else [(24, 23, 11, "int64"), (34, 33, 16, "int32"), (24, 24, 11, "float64"), (48, 47, 23, "int16")]):
        g = [[0] * C for _ in range(R)]
        g[R // 2][C // 2] = 1
        g[1][2] = 1
        for memo in ("recursive_lit", "True"):
            yield dict(kind="ev2", big=1, hist=[g], dtype=dt, scale=1, r=r, nb="moore", rule="hash:2:3:1:0", T=3, memo=memo)
    for _ in range(ctx.n(80, 800)):
        # float states incl. negatives under the von Neumann mask: the key must not see the masked corners (not even their sign)
        c = c04.rand_case(rng, memos=["True"], maxdim=6)
        c["nb"] = "vn"
        c["dtype"], c["scale"] = rng.choice(["float64", "float32"]), 4
        k = rng.randint(2, 3)
        c["rule"] = "hash:%d:%d:%d:-1" % (k, rng.choice([2, 3]), rng.randint(0, 2))
        R, C = len(c["hist"][-1]), len(c["hist"][-1][0])
        c["hist"] = [[[rng.choice([-1, -1, 0, 1]) for _ in range(C)] for _ in range(R)]]
        c["r"] = min(max(1, c["r"]), R, C)
        c.pop("pred", None)
        c["T"] = rng.randint(2, 4)
        yield c


def line(c):
    return None if c.get("big") else ev2.line(c)


def impl(c):
    if c.get("big"):
        run = ev2.run_impl(c)
        return "ok big calls=%d" % len(run.rule.log)
    return ev2.answer(c, ev2.run_impl(c))


class RawRule(Rule):
    """Also records the full (unmasked) data block the rule was handed."""

    def __call__(self, n, cc, t):
        import numpy as np
        if not hasattr(self, "raw"):
            self.raw = []
        from ..dsl import exact
        self.raw.append(tuple(exact(x, self.scale) for x in np.ma.getdata(n).ravel().tolist()))
        return super().__call__(n, cc, t)


def oracle(c):
    run = ev2.run_impl(c, rule=RawRule(c["rule"], c.get("scale", 1)))
    if run.exc is not None:
        return "evolve2d raised %s" % type(run.exc).__name__
    new = (c["T"] - 1) if "T" in c else int(c["pred"].split(":")[1])
    grids, reflog = ev2.ref_evolve(c, new)
    if ev2.scaled(run.res, c) != grids:
        return "result changed by memoization"
    # masked cells do not count: the key is the unmasked content (None for masked)
    keys = [tuple(v) for (v, s, cc, t) in run.rule.log]
    distinct = set(tuple(v) for (v, s, cc, t) in reflog)
    if ev2.mode_of(c["memo"]) == "memo":
        # exactly once per distinct content, masked cells not counting
        if len(keys) != len(set(keys)):
            return "memoize=True invoked the rule twice for one neighbourhood content"
    else:
        # at most once per distinct neighbourhood *block* (the full (2r+1)x(2r+1) data, masked corners included)
        raw = getattr(run.rule, "raw", [])
        if len(raw) != len(set(raw)):
            return "memoize='recursive' invoked the rule twice for one neighbourhood block"
    if ev2.mode_of(c["memo"]) == "memo":
        if set(keys) != distinct:
            return "memoize=True: neighbourhoods passed to the rule differ from those that occur"
    else:
        if not set(keys) <= distinct:
            return "memoize='recursive' invoked the rule on a neighbourhood that does not occur"
        R, C = len(c["hist"][-1]), len(c["hist"][-1][0])
        per = {}
        for (v, s, cc, t) in run.rule.log:
            per[t] = per.get(t, 0) + 1
        if any(n > R * C for n in per.values()):
            return "more calls than the unmemoized evolution"
    return None


def nontrivial(c, ans):
    if not ans.startswith("ok"):
        return False
    if c.get("big"):
        return True
    g = c["hist"][-1]
    grids = ans.split(" ")[1].count("|") + 1
    return c04.ncalls(ans) < len(g) * len(g[0]) * (grids - len(c["hist"]))
