"""Block-evolver part of C05: history prefix, non-mutation, split law for odd T1 (DESIGN.md section 7)."""
import numpy as np

from ..dslblock import BRule
from . import c10


def gen(ctx):
    rng = ctx.rng
    for c in c10.gen(ctx):
        if not c10.divisible(c) or c["rule"] in ("short",) or c["rule"].startswith("probe") or c["rule"] == "swapif":
            continue          # time-free rules only for the split law
        if rng.random() < 0.35:
            c = dict(c)
            c["T"] = rng.choice([1, 3, 5])            # T1 odd: the continued call starts on the same partition phase
            c["T2"] = rng.randint(1, 4)
            yield c


def line(c):
    return c10.line(c)


def impl(c):
    return c10.impl(c)


def oracle(c):
    import cellpylib as cpl
    f = cpl.evolve_block if c["kind"] == "blk1" else cpl.evolve2d_block
    bs = c["b"] if c["kind"] == "blk1" else tuple(c["b"])
    ca = np.array(c["hist"], dtype=c["dtype"])
    snap = (ca.tobytes(), ca.dtype, ca.shape)
    rule = BRule(c["rule"])
    T1, T2 = c["T"], c["T2"]
    first = f(ca, block_size=bs, timesteps=T1, apply_rule=rule)
    if (ca.tobytes(), ca.dtype, ca.shape) != snap:
        return "the caller's array was modified"
    H = len(c["hist"])
    if first.dtype != ca.dtype or first.shape != (H + T1 - 1,) + ca.shape[1:] or first[:H].tobytes() != ca.tobytes():
        return "result is not the given history followed by T-1 new states"
    if np.shares_memory(first, ca):
        return "result shares memory with the caller's array"
    snap1 = first.tobytes()
    second = f(first, block_size=bs, timesteps=T2, apply_rule=rule)
    if first.tobytes() != snap1:
        return "the caller's array was modified by the continued call"
    once = f(np.array(c["hist"], dtype=c["dtype"]), block_size=bs, timesteps=T1 + T2 - 1, apply_rule=BRule(c["rule"]))
    if second.tobytes() != once.tobytes() or second.shape != once.shape:
        return "evolving %d (odd) then %d steps differs from %d steps at once" % (T1, T2, T1 + T2 - 1)
    return None


def nontrivial(c, ans):
    return ans.startswith("ok") and c["T"] >= 3 and c["T2"] >= 2
