"""C03 — 1D memoization is transparent (True and 'recursive' equal False)."""
import numpy as np

from .. import ev1
from .c01 import DTYPES

PROP = "C03"
RULE = ("cases: N in 1..40 incl. primes and 2^k+-1, r in 1..min(N,4) plus r=N (blocks wider than the ring), states "
        "engineered for cache hits (constant, periodic, sparse, random), pure rules (hash / nks / totalistic), dtypes, "
        "fixed and callable T, memoize in {True, 'recursive' literal, 'recursive' built at run time}; sequences of 2-6 "
        "evolve calls in one process alternating rules over the same states; invalid mode values. Non-trivial: the "
        "model reports fewer rule calls than N*(T-1) (a cache hit happened) and N is not a power of two or r >= 2.")
TRUSTED = ["tobytes() keys modelled as value lists (NaN / -0.0 excluded)", "take(mode='wrap') as modelled by wrapTake"]
ASSUMPTIONS = ["1, 0 and np.True_ as memoize values are neither generated nor claimed (DESIGN.md section 7)"]

MEMOS = ["True", "recursive_lit", "recursive_built"]
NS = [1, 2, 3, 4, 5, 6, 7, 8, 9, 11, 12, 13, 15, 16, 17, 23, 31, 32, 33, 40]


def state(rng, N, k, off):
    style = rng.random()
    if style < 0.15:
        return [off + rng.randrange(k)] * N
    if style < 0.45:
        p = [off + rng.randrange(k) for _ in range(rng.randint(1, 4))]
        return [p[i % len(p)] for i in range(N)]
    if style < 0.65:
        row = [off] * N
        for _ in range(rng.randint(1, 2)):
            row[rng.randrange(N)] = off + rng.randrange(k)
        return row
    return [off + rng.randrange(k) for _ in range(N)]


def pure_rule(rng, dtype, r):
    which = rng.random()
    signed = dtype not in ("uint8",)
    if which < 0.6:
        k = rng.randint(2, 4)
        off = rng.choice([0, 0, -1]) if signed else 0
        return "hash:%d:%d:%d:%d" % (k, rng.choice([2, 3, 5]), rng.randint(0, 3), off), k, off
    if which < 0.8 and r <= 2:
        return "nks:%d" % rng.getrandbits(2 ** (2 * r + 1)), 2, 0
    k = rng.randint(2, 3)
    return "total:%d:%d" % (k, rng.randrange(k ** ((2 * r + 1) * (k - 1) + 1))), k, 0


def rand_case(rng, memos=MEMOS, maxN=40):
    dtype = rng.choice(DTYPES)
    N = rng.choice([n for n in NS if n <= maxN])
    r = min(N, rng.choice([1, 1, 2, 3, 4, N]))
    rule, k, off = pure_rule(rng, dtype, r)
    H = rng.choice([1, 1, 2])
    hist = [state(rng, N, k, off) for _ in range(H)]
    c = dict(kind="ev1", hist=hist, dtype=dtype, scale=4 if dtype.startswith("float") else 1, r=r, rule=rule,
             memo=rng.choice(memos))
    if rng.random() < 0.25:
        c["pred"] = "steps:%d" % rng.randint(1, 5)
    else:
        c["T"] = rng.randint(2, 7)
    if rng.random() < 0.2:
        c["clobber"] = 1            # a pure rule may still scribble on the array it was handed
    if rng.random() < 0.25:
        c["layout"] = rng.choice(["F", "rev", "str"])
    decorate(rng, c)
    return c


def decorate(rng, c):
    """Variation every evolve case may carry: the shape of the callables, NumPy-scalar parameters, states of a
    magnitude float64 cannot hold (int64 / uint64 automata), rules returning mixed Python / NumPy integer types."""
    if rng.random() < 0.4:
        c["callform"] = rng.choice(["lambda", "defaults", "partial", "star", "method"] + 2 * ["sub_total", "sub_nks", "sub_binary", "sub_base"])
    if rng.random() < 0.15 and not c["rule"].startswith("half"):
        c["mixret"] = "zerod"           # the rule hands back 0-d arrays (np.where(...) on scalars): still "the rule's return value"
    cells = len(c["hist"][-1]) * (len(c["hist"][-1][0]) if isinstance(c["hist"][-1][0], list) else 1)
    if rng.random() < 0.12 and cells <= 24 and c.get("T", 3) <= 5:
        c["nested"] = 1                 # the rule itself runs evolutions of the library (same shape and another one)
    if rng.random() < 0.18:
        # what the program did before this call: aborted evolutions, other functions / radii / modes on the same sizes,
        # short-lived rule objects (harness/prelude.py)
        from .. import prelude
        c["prelude"] = prelude.choose(rng, 2 if isinstance(c["hist"][-1][0], list) else 1)
    if rng.random() < 0.1:
        c["layout"] = "ro"              # the caller's array is read-only
    if rng.random() < 0.12 and c["dtype"].startswith(("int", "uint")) and not c["rule"].startswith("half") and not c.get("mixret"):
        c["strict"] = 1                 # np.seterr(all="raise") and warnings as errors: integer automata give no cause for either
    if rng.random() < 0.15:
        c["npform"] = rng.choice(["np64", "np32"])      # signed: an unsigned radius makes -r wrap, the caller's problem
    if c.get("scale", 1) == 1 and c["rule"].startswith(("hash:", "probe:")) and rng.random() < 0.12:
        parts = c["rule"].split(":")
        k = int(parts[1])
        old = int(parts[4])
        big = rng.choice([2 ** 53 + 1, 2 ** 62 + 3, -(2 ** 62) - 1, 2 ** 63 + 5])
        c["dtype"] = "uint64" if big > 2 ** 63 else "int64"
        parts[4] = str(big)
        c["rule"] = ":".join(parts)

        def shift(x):
            return big + ((x - old) % k)
        c["hist"] = [[[shift(x) for x in row] for row in g] if g and isinstance(g[0], list) else [shift(x) for x in g] for g in c["hist"]]
        if rng.random() < 0.5:
            c["mixret"] = 1
    elif c.get("scale", 1) == 1 and c["rule"].startswith(("hash:", "probe:")) and rng.random() < 0.08:
        # a uint64 automaton over a 63-bit alphabet, the rule returning NumPy scalars and Python ints alternately
        parts = c["rule"].split(":")
        parts[1] = str(rng.choice([2 ** 63 + 9, 2 ** 64 - 59]))          # states below and above 2^63 in one row
        parts[4] = "0"
        c["rule"] = ":".join(parts)
        c["dtype"] = "uint64"
        if rng.random() < 0.5:
            c["mixret"] = 1
        big = lambda: rng.getrandbits(63)                    # noqa: E731
        c["hist"] = [[[big() for _ in row] for row in g] if g and isinstance(g[0], list) else [big() for _ in g] for g in c["hist"]]
    return c


def weak_cases(rng, n_pairs):
    """Rings in which two different neighbourhoods / block windows share a weak digest (harness/weak.py)."""
    from .. import weak
    out = []
    for _ in range(n_pairs):
        # memoize=True: the key is the (2r+1)-cell neighbourhood. r = 17 -> 35 binary cells; cells 20 and 60 of an 80-ring
        N, r = 80, 17
        for kind in ("crc", "adler"):
            st = [0] * N if kind == "adler" else [rng.randrange(2) for _ in range(N)]
            w1 = list(range(20 - r, 20 + r + 1))
            w2 = list(range(60 - r, 60 + r + 1))
            a = [st[i] for i in w1]
            if kind == "crc":
                b = weak.crc_partner(a, list(range(len(a))), "int32")
                if b is None:
                    continue
            else:
                pr = weak.adler_partner(a, list(range(3, len(a) - 3)))
                if pr is None:
                    continue
                a, b = pr
            for i, v in zip(w1, a):
                st[i] = v
            for i, v in zip(w2, b):
                st[i] = v
            out.append(dict(kind="ev1", hist=[st], dtype="int32", scale=1, r=r, rule="hash:5:3:1:0", T=2, memo="True"))
        # memoize='recursive': keys are block windows (len + 2r cells); the two halves of a 128-ring with r = 1
        N, r = 128, 1
        st = [rng.randrange(2) for _ in range(N)]
        st[127] = st[63]            # the two windows overlap at their ends: make those agree
        st[64] = st[0]
        w1 = [(i % N) for i in range(-1, 65)]
        w2 = [(i % N) for i in range(63, 129)]
        a = [st[i] for i in w1]
        b = weak.crc_partner(a, list(range(2, 64)), "int32")       # interiors only: the windows overlap at their ends
        if b is not None:
            for pos in range(2, 64):
                st[w2[pos]] = b[pos]
            # make the ends agree: window 2 = (s[63], s[64..127], s[0]) must start/end like `a` does
            if [st[i] for i in w2][:2] == a[:2] and [st[i] for i in w2][-2:] == a[-2:]:
                out.append(dict(kind="ev1", hist=[st], dtype="int32", scale=1, r=r, rule="nks:30", T=3, memo="recursive_lit"))
    return out


def nf_cases(rng, n):
    for _ in range(n):
        yield dict(kind="nf", dim=1, N=rng.randint(3, 9), T=rng.randint(2, 6), memo=rng.choice(["True", "recursive_lit"]), dyn=int(rng.random() < 0.3),
                   dtype=rng.choice(["float64", "float32"]), seed=rng.randrange(10 ** 6))


def nf_oracle(c):
    """NaN / inf are values like any other: same array, bit for bit, with and without memoization."""
    from .. import ev1
    ca = ev1.nf_automaton(c)
    ts = (lambda a, t: t < c["T"]) if c.get("dyn") else c["T"]
    try:
        plain = ev1.nf_evolve(c, ca, ts, "False")
    except Exception as e:
        return "memoize=False raised %s on a float automaton producing NaN/inf" % type(e).__name__
    try:
        memo = ev1.nf_evolve(c, ca.copy(), ts, c["memo"])
    except Exception as e:
        return "memoize=%r raised %s: %s (memoize=False returns an array)" % (ev1.memo_value(c["memo"]), type(e).__name__, str(e)[:60])
    if memo.shape != plain.shape or memo.dtype != plain.dtype or memo.tobytes() != plain.tobytes():
        return "memoize=%r differs from memoize=False on a float automaton with NaN/inf states" % (ev1.memo_value(c["memo"]),)
    return None


def gen(ctx):
    yield from nf_cases(ctx.rng, ctx.n(30, 300))
    yield from weak_cases(ctx.rng, 2 if ctx.tier == "quick" else 8)
    yield from _gen(ctx)


def _gen(ctx):
    rng = ctx.rng
    # corpus: D1 (run-time built 'recursive'), blocks wider than the ring, N=1
    yield dict(kind="ev1", hist=[[0, 1, 1, 0, 1]], dtype="int32", scale=1, r=1, rule="nks:30", T=4, memo="recursive_built")
    yield dict(kind="ev1", hist=[[0, 1, 1]], dtype="int32", scale=1, r=3, rule="hash:3:2:1:0", T=4, memo="recursive_lit")
    yield dict(kind="ev1", hist=[[1]], dtype="int32", scale=1, r=1, rule="hash:3:2:1:0", T=4, memo="True")
    for _ in range(ctx.n(500, 6000)):
        yield rand_case(rng)
    for _ in range(ctx.n(60, 600)):
        # the user's rule SUBCLASSES one of the library's rule classes and overrides __call__ entirely, memoized:
        # whatever the library knows about the parent class says nothing about the subclass
        c = rand_case(rng, memos=[m for m in MEMOS if m != "False"])
        c["callform"] = rng.choice(["sub_total", "sub_nks", "sub_binary", "sub_base"])
        yield c
    for _ in range(ctx.n(60, 600)):
        # sequences of evolve calls in one process: same states, different rules back to back
        N = rng.choice([3, 4, 5, 8, 9])
        r = rng.choice([1, 2])
        base = state(rng, N, 2, 0)
        seq = []
        for _ in range(rng.randint(2, 6)):
            seq.append(dict(kind="ev1", hist=[base], dtype="int32", scale=1, r=r,
                            rule=rng.choice(["nks:%d" % rng.getrandbits(2 ** (2 * r + 1)), "hash:2:3:%d:0" % rng.randint(0, 1)]),
                            T=rng.randint(2, 5), memo=rng.choice(MEMOS)))
        yield dict(kind="seq", seq=seq)
    for _ in range(ctx.n(80, 800)):
        # one rule OBJECT reused across calls (a cache attached to the callable / its parameters would leak):
        # dtypes of different item size, different radii and ring sizes, same and different states
        rule = rng.choice(["nks:30", "nks:110", "hash:2:3:1:0", "hash:3:2:1:0", "total:2:11"])
        k = 3 if rule.startswith("hash:3") else 2
        seq = []
        for _ in range(rng.randint(2, 5)):
            N = rng.choice([4, 5, 8, 8, 9, 16])
            r = 1 if rule.startswith("nks") else rng.choice([1, 1, 2])
            st = rng.choice([[1] * N, [i % 2 for i in range(N)], [0] * (N - 1) + [1], state(rng, N, k, 0)])
            seq.append(dict(kind="ev1", hist=[st], dtype=rng.choice(["int64", "int32", "int8", "int32", "float64"]), scale=1,
                            r=r, rule=rule, T=rng.randint(2, 4), memo=rng.choice(MEMOS)))
            if seq[-1]["dtype"] == "float64":
                seq[-1]["scale"] = 4
                seq[-1]["hist"] = [[4 * x for x in st]]
                seq[-1]["rule"] = rule
        yield dict(kind="seq", seq=seq, shared_rule=1)
    for _ in range(ctx.n(40, 400)):
        # +0.0 / -0.0 compare equal but are different contents: a pure rule may look at the sign bit
        yield dict(kind="szero", N=rng.randint(3, 8), T=rng.randint(3, 7), memo=rng.choice(MEMOS), dyn=int(rng.random() < 0.3), seed=rng.randrange(10 ** 6))
    for _ in range(ctx.n(40, 300)):
        c = rand_case(rng)
        c["memo"] = rng.choice(["bad:Recursive", "bad:None", "bad:2", "bad:x", "bad:recursive ", "bad:memo"])
        if rng.random() < 0.3:
            c.pop("pred", None)
            c["T"] = 1      # the option is only looked at inside the loop: no step, no error
        yield c


def line(c):
    return None if c["kind"] in ("seq", "szero", "nf") else ev1.line(c)


def impl(c):
    if c["kind"] in ("szero", "nf"):
        return "n/a"
    if c["kind"] == "seq":
        if c.get("shared_rule"):
            from .. import fmt
            return "|".join(fmt.err(r.exc) if r.exc is not None else "ok rows=" + fmt.mat(ev1.scaled_rows(r.res, x))
                            for x, r in zip(c["seq"], run_shared(c["seq"])))
        return "|".join(ev1.strip_calls(ev1.answer(x, ev1.run_impl(x))) for x in c["seq"])
    return ev1.strip_calls(ev1.answer(c, ev1.run_impl(c)))


def compare(c, a, b):
    return ev1.strip_calls(a) == ev1.strip_calls(b)


class SharedRule:
    """One callable object reused for every call of a sequence; the scale is switched per call."""

    def __init__(self, spec):
        from ..dsl import Rule
        self.inner = Rule(spec, 1)

    def __call__(self, n, c, t):
        return self.inner(n, c, t)


def run_shared(seq):
    import cellpylib as cpl
    shared = SharedRule(seq[0]["rule"])
    runs = []
    for x in seq:
        shared.inner.scale = x.get("scale", 1)
        ca = ev1.make_ca(x)
        out = ev1.Run()
        out.exc, out.res = None, None
        try:
            out.res = cpl.evolve(ca, timesteps=x["T"], apply_rule=shared, r=x["r"], memoize=ev1.memo_value(x["memo"]))
        except Exception as e:  # noqa
            out.exc = e
        runs.append(out)
    return runs


def _one(x):
    m = ev1.run_impl(x)
    if ev1.mode_of(x["memo"]) == "bad":
        steps_possible = ("T" in x and x["T"] >= 2) or ("pred" in x and int(x["pred"].split(":")[1]) >= 1)
        if steps_possible:
            if m.exc is None or type(m.exc) is not Exception:
                return "memoize=%r was accepted or raised the wrong kind (%s)" % (ev1.memo_value(x["memo"]), type(m.exc).__name__ if m.exc else "no error")
        return None
    p = ev1.run_impl(x, memo="False")
    if p.exc is not None:
        return "memoize=False raised %s" % type(p.exc).__name__
    if m.exc is not None:
        return "memoize=%r raised %s: %s" % (ev1.memo_value(x["memo"]), type(m.exc).__name__, str(m.exc)[:80])
    if m.res.dtype != p.res.dtype or m.res.shape != p.res.shape or not np.array_equal(m.res, p.res):
        return "memoize=%r result differs from memoize=False" % (ev1.memo_value(x["memo"]),)
    if not m.input_intact:
        return "caller's array modified"
    return None


def szero_run(c, memo):
    import cellpylib as cpl
    rng = np.random.RandomState(c["seed"])
    vals = np.array([0.0, -0.0, 2.0, -2.0, 3.5])
    ca = vals[rng.randint(0, 5, size=(1, c["N"]))]

    def rule(n, cc, t):          # depends only on the neighbourhood contents (bitwise): centre, and the sign bit of zeros
        x = float(n[len(n) // 2])
        if x != 0.0:
            return x if np.signbit(n[0]) == np.signbit(n[-1]) else -x
        return -0.0 if not np.signbit(x) else 7.0
    ts = (lambda a, t: t < c["T"]) if c["dyn"] else c["T"]
    return cpl.evolve(ca, timesteps=ts, apply_rule=rule, r=1, memoize=memo)


def oracle(c):
    if c["kind"] == "nf":
        return nf_oracle(c)
    if c["kind"] == "szero":
        a = szero_run(c, ev1.memo_value(c["memo"]))
        b = szero_run(c, False)
        return None if a.tobytes() == b.tobytes() else "memoize=%r differs (bitwise) from memoize=False on a float automaton with signed zeros" % (ev1.memo_value(c["memo"]),)
    if c["kind"] == "seq":
        # run the whole sequence back to back, then compare each with its isolated unmemoized run
        if c.get("shared_rule"):
            runs = run_shared(c["seq"])
        else:
            runs = [ev1.run_impl(x) for x in c["seq"]]
        for i, (x, m) in enumerate(zip(c["seq"], runs)):
            p = ev1.run_impl(x, memo="False")
            if m.exc is not None:
                return "call %d of the sequence raised %s" % (i, type(m.exc).__name__)
            if not np.array_equal(m.res, p.res):
                return "call %d of the sequence differs from its unmemoized run (state leaked between calls?)" % i
        return None
    return _one(c)


def nontrivial(c, ans):
    if c["kind"] in ("seq", "szero", "nf"):
        return True
    if not ans.startswith("ok") or ev1.mode_of(c["memo"]) == "bad":
        return False
    N = len(c["hist"][-1])
    ncalls = 0 if " calls=_" in ans else ans.split(" calls=")[1].count("/") + 1 if " calls=" in ans else 0
    rows = ans.split(" ")[1].count(";") + 1
    new_rows = rows - len(c["hist"])
    hit = ncalls < N * new_rows
    return hit and (N & (N - 1) != 0 or c["r"] >= 2)


def shrink(c):
    from .c01 import shrink as s1
    if c["kind"] == "seq":
        for i in range(len(c["seq"])):
            if len(c["seq"]) > 1:
                yield dict(c, seq=c["seq"][:i] + c["seq"][i + 1:])
        return
    yield from s1(c)
