"""C09 — memoization invokes the rule at most once per distinct neighbourhood (1D and 2D)."""
from .. import ev1
from . import c03

PROP = "C09"
RULE = ("cases as C03 (cache-hit-heavy states, all N incl. non powers of two, r up to 4 and r=N) with memoize=True and "
        "'recursive', 1D and 2D; here the recorded call sequence (n, c, t) is part of the tie with the model. "
        "Non-trivial: at least one cache hit (fewer calls than cells x steps).")
TRUSTED = c03.TRUSTED
ASSUMPTIONS = ["'distinct content' is read as distinct bytes (NaN / -0.0 excluded from generators)"]


def gen(ctx):
    rng = ctx.rng
    yield dict(kind="ev1", hist=[[0, 1, 1, 0, 1, 1, 0, 1, 1]], dtype="int32", scale=1, r=1, rule="nks:110", T=5, memo="True")
    yield dict(kind="ev1", hist=[[0, 1, 1, 0, 1, 1, 0, 1, 1]], dtype="int32", scale=1, r=1, rule="nks:110", T=5, memo="recursive_lit")
    for _ in range(ctx.n(500, 6000)):
        yield c03.rand_case(rng, memos=["True", "recursive_lit"])
    # many distinct neighbourhoods in one call (4^5 = 1024 possible windows) and long runs: capacity thresholds of a cache
    for memo in ("True", "recursive_lit"):
        for (N, T) in ([(40, 10), (9, 140)] if ctx.tier == "quick" else [(40, 10), (60, 24), (9, 140), (9, 300)]):
            yield dict(kind="ev1", hist=[[rng.randrange(4) for _ in range(N)]], dtype="int32", scale=1, r=2,
                       rule="hash:4:3:%d:0" % rng.randint(0, 3), T=T, memo=memo)
    try:
        from . import c09_2d
        yield from c09_2d.gen(ctx)
    except ImportError:
        pass


def _mod(c):
    if c["kind"] == "ev2":
        from . import c09_2d
        return c09_2d
    return None


def line(c):
    m = _mod(c)
    return m.line(c) if m else ev1.line(c)


def impl(c):
    m = _mod(c)
    if m:
        return m.impl(c)
    return ev1.answer(c, ev1.run_impl(c))


def oracle(c):
    m = _mod(c)
    if m:
        return m.oracle(c)
    run = ev1.run_impl(c)
    if run.exc is not None:
        return "evolve raised %s" % type(run.exc).__name__
    new_rows = (c["T"] - 1) if "T" in c else int(c["pred"].split(":")[1])
    rows, reflog = ev1.ref_evolve(c, new_rows)
    keys = [tuple(v) for (v, s, cc, t) in run.rule.log]
    if ev1.scaled_rows(run.res, c) != rows:
        return "result changed by memoization"
    distinct = set(tuple(v) for (v, s, cc, t) in reflog)
    if ev1.mode_of(c["memo"]) == "memo":
        if len(keys) != len(set(keys)):
            return "memoize=True invoked the rule twice for one neighbourhood content"
        if set(keys) != distinct:
            return "memoize=True: set of neighbourhoods passed to the rule differs from those that occur"
    else:
        if len(keys) != len(set(keys)):
            return "memoize='recursive' invoked the rule twice for one neighbourhood"
        if not set(keys) <= distinct:
            return "memoize='recursive' invoked the rule on a neighbourhood that does not occur"
        N = len(c["hist"][-1])
        per_step = {}
        for (v, s, cc, t) in run.rule.log:
            per_step[t] = per_step.get(t, 0) + 1
        if any(n > N for n in per_step.values()):
            return "memoize='recursive' invoked the rule more often than the unmemoized evolution"
    return None


def nontrivial(c, ans):
    if c["kind"] == "ev2":
        from . import c09_2d
        return c09_2d.nontrivial(c, ans)
    if not ans.startswith("ok"):
        return False
    N = len(c["hist"][-1])
    ncalls = 0 if " calls=_" in ans else ans.split(" calls=")[1].count("/") + 1
    rows = ans.split(" ")[1].count(";") + 1
    return ncalls < N * (rows - len(c["hist"]))


shrink = c03.shrink
