"""C02 — 2D evolution is the synchronous update of a torus (Moore / von Neumann)."""
import itertools

import numpy as np

from .. import ev2, fmt
from .c01 import DTYPES, rand_rule

PROP = "C02"
RULE = ("cases: grids R,C in 1..6 (non-square biased, incl. 1xN and Nx1), radii 0..min(R,C), Moore and von Neumann, "
        "dtypes int8/int32/int64/uint8/float32/float64, T in 1..4, histories 1..2, rules hash / probe (depends on "
        "(row,col) and t) / counter (stateful), memoize=False, fixed and callable timesteps, plus the mask table for "
        "r in 0..8 and an unknown neighbourhood type; thorough adds all binary grids for R,C<=3, r<=min(R,C). "
        "Non-trivial: at least 2 cells, non-constant grid, at least one new grid.")
TRUSTED = ["np.ix_ / negative indexing / masked arrays as modelled by ix2 + resolve + applyMask"]
ASSUMPTIONS = ["NaN, -0.0 and the masked-array fill value 999999 are not generated as states"]


def rand_case(rng, kinds=("hash", "probe", "counter"), memo="False", maxdim=6):
    dtype = rng.choice(DTYPES)
    R = rng.choice([1, 1, 2, 3, 3, 4, 5, 6][:maxdim + 2])
    C = rng.choice([1, 2, 2, 3, 4, 4, 5, 6][:maxdim + 2])
    r = rng.choice([0, 1, 1, 1, 2, 2, 3, min(R, C)])
    r = min(r, R, C)
    rule, k, off = rand_rule(rng, dtype, kinds)
    H = rng.choice([1, 1, 2])
    style = rng.random()
    hist = []
    for _ in range(H):
        if style < 0.15:
            g = [[off + rng.randrange(k)] * C for _ in range(R)]
        elif style < 0.35:
            g = [[off + ((i + 2 * j) % k) for j in range(C)] for i in range(R)]
        elif style < 0.5:
            g = [[off] * C for _ in range(R)]
            g[rng.randrange(R)][rng.randrange(C)] = off + rng.randrange(k)
        else:
            g = [[off + rng.randrange(k) for _ in range(C)] for _ in range(R)]
        hist.append(g)
    c = dict(kind="ev2", hist=hist, dtype=dtype, scale=4 if dtype.startswith("float") else 1, r=r,
             nb=rng.choice(["moore", "vn"]), rule=rule, memo=memo)
    if rng.random() < 0.25:
        c["pred"] = "steps:%d" % rng.randint(1, 3)
    else:
        c["T"] = rng.randint(1, 4)
    if rng.random() < 0.3:
        c["layout"] = rng.choice(["F", "rev", "str", "T"])     # row-major means by index, whatever the memory order
    from .c03 import decorate
    decorate(rng, c)
    return c


def gen(ctx):
    rng = ctx.rng
    for _ in range(ctx.n(40, 400)):
        # memoized evolutions of pure rules are synchronous torus updates too — also when the same rule object drove an
        # evolution with the other neighbourhood type, another radius or another mode just before (decided by C04's oracle)
        from . import c04
        from .. import prelude
        x = c04.rand_case(rng, maxdim=6)
        x["prelude"] = ["same_rule_other_nb"] + prelude.choose(rng, 2)
        yield dict(kind="memo4", case=x)
    for _ in range(ctx.n(30, 300)):
        yield dict(kind="szero", R=rng.randint(2, 5), C=rng.randint(2, 5), T=rng.randint(3, 6), memo=rng.choice(["True", "recursive_lit"]),
                   nb=rng.choice(["Moore", "von Neumann"]), dyn=int(rng.random() < 0.3), seed=rng.randrange(10 ** 6))
    for (R, C) in ([(66, 2), (2, 70)] if ctx.tier == "quick" else [(66, 2), (2, 70), (65, 3), (3, 64)]):
        for dyn in (0, 1):
            c = dict(kind="ev2", hist=[[[rng.randrange(3) for _ in range(C)] for _ in range(R)]], dtype="int32", scale=1, r=1,
                     nb=rng.choice(["moore", "vn"]), rule="shiftc:3:0", memo="False")
            if dyn:
                c["pred"] = "steps:2"
                c["fuel"] = 8
            else:
                c["T"] = 3
            yield c
    for (R, C, r) in [(1, 1, 0), (1, 1, 1), (1, 3, 1), (3, 1, 1), (2, 3, 2), (3, 4, 3), (2, 2, 2), (4, 3, 0)]:
        for nb in ("moore", "vn"):
            yield dict(kind="ev2", hist=[[[(i * 3 + j * j) % 3 for j in range(C)] for i in range(R)]], dtype="int32",
                       scale=1, r=r, nb=nb, rule="probe:4:3:1:0", T=3, memo="False")
    for K in ([33, 70, 130] if ctx.tier == "quick" else [31, 32, 33, 63, 64, 65, 70, 127, 128, 129, 130, 257]):
        for H in (1, 3):
            R, C = rng.choice([(2, 3), (3, 2), (3, 3), (1, 4)])
            yield dict(kind="ev2", hist=[[[rng.randrange(3) for _ in range(C)] for _ in range(R)] for _ in range(H)],
                       dtype=rng.choice(["int32", "uint8", "float64"]), scale=1, r=1, nb=rng.choice(["moore", "vn"]),
                       rule=rng.choice(["hash:3:2:1:0", "probe:3:2:1:0", "counter:3:0"]), pred="steps:%d" % K, memo="False", fuel=K + 5)
    for _ in range(ctx.n(400, 5000)):
        c = rand_case(rng, kinds=("hash", "probe", "counter", "half"))
        if rng.random() < 0.25:
            c["clobber"] = 1          # the rule overwrites the block it was handed (later cells must not see that)
        yield c
    # large grids: R*C*(2r+1)^2 beyond 2^20 gathered elements, cell-dependent rule (oracle only: the list-based
    # Lean model is too slow at this size; the independent torus reference decides)
    for (R, C, r, nb) in ([(215, 200, 2, "moore")] if ctx.tier == "quick" else [(350, 340, 1, "moore"), (215, 200, 2, "vn"), (120, 110, 4, "moore")]):
        yield dict(kind="ev2", big=1, hist=[[[(3 * i + 5 * j + (i * j) // 7) % 3 for j in range(C)] for i in range(R)]],
                   dtype="int32", scale=1, r=r, nb=nb, rule="probe:3:2:1:0", T=2, memo="False")
    for r in range(0, 9):
        yield dict(kind="mask", r=r)
    yield dict(kind="ev2", hist=[[[0, 1], [1, 0]]], dtype="int32", scale=1, r=1, nb="unknown", rule="hash:2:3:1:0", T=2, memo="False")
    yield dict(kind="ev2", hist=[[[0, 1], [1, 0]]], dtype="int32", scale=1, r=1, nb="unknown", rule="hash:2:3:1:0", T=1, memo="False")
    if ctx.tier == "thorough":
        for R in range(1, 4):
            for C in range(1, 4):
                for r in range(0, min(R, C) + 1):
                    for bits in itertools.product([0, 1], repeat=R * C):
                        g = [list(bits[i * C:(i + 1) * C]) for i in range(R)]
                        for nb in ("moore", "vn"):
                            yield dict(kind="ev2", hist=[g], dtype="int32", scale=1, r=r, nb=nb,
                                       rule="probe:2:3:0:0", T=2, memo="False")
        for _ in range(300):
            c = rand_case(rng)
            R, C = rng.randint(7, 12), rng.randint(7, 12)
            c["hist"] = [[[rng.randrange(3) for _ in range(C)] for _ in range(R)]]
            c["dtype"], c["scale"], c["rule"] = "int32", 1, rng.choice(["hash:3:2:1:0", "probe:3:5:1:0", "counter:3:0"])
            c["r"] = rng.randint(0, 4)
            c.pop("pred", None)
            c["T"] = 2
            yield c


def line(c):
    if c["kind"] in ("szero", "memo4"):
        return None
    if c["kind"] == "mask":
        return "vn_mask r=%d" % c["r"]
    if c.get("big"):
        return None
    return ev2.line(c)


def _mask_impl(r):
    """The mask exactly as evolve2d builds it, observed through a rule call on a (2r+1)x(2r+1) grid."""
    import cellpylib as cpl
    seen = {}

    def rule(n, c, t):
        if "m" not in seen:
            seen["m"] = np.ma.getmaskarray(n).astype(int).tolist()
        return 0
    cpl.evolve2d(np.zeros((1, 2 * r + 1, 2 * r + 1), dtype=np.int32), timesteps=2, apply_rule=rule, r=r,
                 neighbourhood="von Neumann")
    return seen["m"]


def impl(c):
    if c["kind"] in ("szero", "memo4"):
        return "n/a"
    if c["kind"] == "mask":
        return "ok " + fmt.mat(_mask_impl(c["r"]))
    if c.get("big"):
        run = ev2.run_impl(c)
        return fmt.err(run.exc) if run.exc is not None else "ok big grids=%d" % len(run.res)
    return ev2.answer(c, ev2.run_impl(c))


def oracle(c):
    if c["kind"] == "memo4":
        from . import c04
        return c04.oracle(c["case"])
    if c["kind"] == "szero":
        # memoized evolution of a pure, sign-of-zero-sensitive rule on a float automaton holding +0.0 and -0.0:
        # every appended row is still the synchronous update (bitwise the unmemoized one)
        from . import c04
        return c04.oracle(c)
    if c["kind"] == "mask":
        r = c["r"]
        got = _mask_impl(r)
        want = [[1 if abs(i - r) + abs(j - r) > r else 0 for j in range(2 * r + 1)] for i in range(2 * r + 1)]
        return None if got == want else "von Neumann mask for r=%d is %s" % (r, got)
    run = ev2.run_impl(c)
    steps = c["T"] - 1 if "T" in c else int(c["pred"].split(":")[1])
    if c["nb"] == "unknown":
        if steps >= 1 and not isinstance(run.exc, ValueError):
            return "unknown neighbourhood type not rejected with ValueError"
        return None
    if run.exc is not None:
        return "evolve2d raised %s: %s" % (type(run.exc).__name__, str(run.exc)[:100])
    grids, log = ev2.ref_evolve(c, steps)
    got = ev2.scaled(run.res, c)
    if got != grids:
        return "grids differ from the synchronous torus update"
    if [(v, s, cc, t) for (v, s, cc, t) in run.rule.log] != [(v, s, cc, t) for (v, s, cc, t) in log]:
        return "rule calls (block, mask, (row,col), t) differ from once-per-cell row-major order"
    if run.res.dtype != np.dtype(c["dtype"]):
        return "result dtype differs"
    if not run.input_intact:
        return "caller's array modified"
    return None


def nontrivial(c, ans):
    if c["kind"] in ("szero", "memo4"):
        return True
    if c["kind"] == "mask":
        return c["r"] >= 1
    g = c["hist"][-1]
    cells = [x for row in g for x in row]
    new = (c["T"] - 1) if "T" in c else int(c["pred"].split(":")[1])
    return len(cells) >= 2 and len(set(cells)) > 1 and new >= 1 and ans.startswith("ok")


def shrink(c):
    if c["kind"] != "ev2":
        return
    if c.get("big") and len(c["hist"][-1]) * len(c["hist"][-1][0]) > 400:
        g = c["hist"][-1]
        R, C = len(g), len(g[0])
        for (nr, nc) in ((R // 2, C), (R, C // 2), (R - R // 8, C), (R, C - C // 8), (R - 1, C), (R, C - 1)):
            if nr >= 1 and nc >= 1:
                yield dict(c, hist=[[row[:nc] for row in gg[:nr]] for gg in c["hist"]], r=min(c["r"], nr, nc))
        return
    if len(c["hist"]) > 1:
        yield dict(c, hist=c["hist"][1:])
    if "T" in c and c["T"] > 2:
        yield dict(c, T=c["T"] - 1)
    g = c["hist"][-1]
    R, C = len(g), len(g[0])
    if R > 1:
        for cut in (0, R - 1):
            yield dict(c, hist=[[row for i, row in enumerate(gg) if i != cut] for gg in c["hist"]], r=min(c["r"], R - 1, C))
    if C > 1:
        for cut in (0, C - 1):
            yield dict(c, hist=[[[x for j, x in enumerate(row) if j != cut] for row in gg] for gg in c["hist"]], r=min(c["r"], R, C - 1))
    if c["r"] > 0:
        yield dict(c, r=c["r"] - 1)
    if c["dtype"] != "uint8":
        for i in range(R):
            for j in range(C):
                if g[i][j] != 0:
                    h = [[list(row) for row in gg] for gg in c["hist"]]
                    h[-1][i][j] = 0
                    yield dict(c, hist=h)
