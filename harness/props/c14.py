"""C14 — Sandpile is the BTW toppling rule; grains are conserved."""
import numpy as np

from .. import fmt

PROP = "C14"
RULE = ("cases: grid shapes 1x1..7x7 incl. 1xN, 2xN, Nx1 (coincident neighbours), grain counts 0..20, open (periodic) and "
        "closed boundaries (boundary cells 0 when closed), schedules of 0-3 grains on non-boundary cells, T in 1..8, "
        "dtypes int32/int64; the Sandpile object's K is read on every run. Non-trivial: at least one cell >= 4 (a "
        "toppling happens) or a scheduled grain, and T >= 2.")
TRUSTED = ["masked von Neumann neighbourhood of radius 1 as in C02"]
ASSUMPTIONS = ["closed boundary: boundary cells initially 0 (as documented); grains scheduled on non-boundary cells"]


def gen(ctx):
    rng = ctx.rng
    yield dict(kind="sp", hist=[[[4, 0, 0], [0, 5, 0], [0, 0, 9]]], closed=0, grains=[], T=4, dtype="int32")
    yield dict(kind="sp", hist=[[[7, 3, 9, 4]]], closed=0, grains=[], T=5, dtype="int32")
    yield dict(kind="sp", hist=[[[7], [3], [12]]], closed=0, grains=[], T=5, dtype="int32")
    for T in (70, 131):
        yield dict(kind="sp", hist=[[[rng.randint(0, 9) for _ in range(4)] for _ in range(3)]], closed=0, grains=[[1, 1, T - 2], [2, 3, 65]], T=T, dtype="int32")
    for _ in range(ctx.n(80, 800)):
        # the drive-and-relax loop: ONE Sandpile object, grains added between successive evolutions
        R, C = rng.randint(3, 6), rng.randint(3, 6)
        closed = int(rng.random() < 0.5)
        g = [[rng.randint(0, 3) for _ in range(C)] for _ in range(R)]
        if closed:
            g = [[0 if (i in (0, R - 1) or j in (0, C - 1)) else g[i][j] for j in range(C)] for i in range(R)]
        interior = [(i, j) for i in range(R) for j in range(C) if not (closed and (i in (0, R - 1) or j in (0, C - 1)))]
        rounds = []
        for _ in range(rng.randint(2, 4)):
            T = rng.randint(2, 4)
            rounds.append(dict(T=T, grains=[[*rng.choice(interior), rng.randint(1, T - 1)] for _ in range(rng.randint(0, 2))]))
        yield dict(kind="reuse", grid=g, closed=closed, rounds=rounds, same_start=int(rng.random() < 0.5))
    for _ in range(ctx.n(500, 5000)):
        R = rng.choice([1, 1, 2, 2, 3, 4, 5, 6, 7])
        C = rng.choice([1, 2, 3, 3, 4, 5, 6, 7])
        closed = rng.random() < 0.45
        hi = rng.choice([3, 5, 8, 20])
        g = [[rng.randint(0, hi) for _ in range(C)] for _ in range(R)]
        if rng.random() < 0.35:         # mostly empty table: many cells whose whole neighbourhood is empty
            g = [[x if rng.random() < 0.12 else 0 for x in row] for row in g]
        if closed:
            for i in range(R):
                for j in range(C):
                    if i in (0, R - 1) or j in (0, C - 1):
                        g[i][j] = 0
        T = rng.randint(1, 8)
        grains = []
        interior = [(i, j) for i in range(R) for j in range(C) if not (closed and (i in (0, R - 1) or j in (0, C - 1)))]
        if interior:
            for _ in range(rng.choice([0, 0, 1, 2, 3])):
                i, j = rng.choice(interior)
                grains.append([i, j, rng.choice([0, rng.randint(1, max(1, T)), rng.randint(1, max(1, T)), T + 3])])     # 0 and > T never fire
        H = rng.choice([1, 1, 2])
        hist = [[[0] * C for _ in range(R)] for _ in range(H - 1)] + [g]
        yield dict(kind="sp", hist=hist, closed=int(closed), grains=grains, T=T, dtype=rng.choice(["int32", "int64", "uint8", "int16", "uint16", "float64"]))


def line(c):
    if c["kind"] == "reuse":
        return None
    return "sandpile hist=%s closed=%d grains=%s T=%d mode=plain" % (fmt.hist(c["hist"]), c["closed"], fmt.mat(c["grains"]), c["T"])


def run(c):
    import cellpylib as cpl
    ca = np.array(c["hist"], dtype=c["dtype"])
    R, C = ca.shape[1], ca.shape[2]
    sp = cpl.Sandpile(R, C, is_closed_boundary=bool(c["closed"]))
    for (i, j, t) in c["grains"]:
        sp.add_grain((i, j), t)
    if (int(ca.sum()) + c["T"] + R) % 4 == 0 and min(R, C) >= 2:
        # what the program did before on a grid of this shape (harness/prelude.py): another automaton with radius 2, the Moore
        # neighbourhood, every memoize mode, an evolution aborted by its rule
        from .. import prelude
        prelude.run2d(dict(r=1, prelude=["other_r", "other_nb", "other_memo", "poison"]), ca.astype("int32"), False, "von Neumann")
    try:
        return cpl.evolve2d(ca, timesteps=c["T"], apply_rule=sp, r=1, neighbourhood="von Neumann"), None, sp
    except Exception as e:  # noqa
        return None, e, sp


def impl(c):
    if c["kind"] == "reuse":
        return "n/a"
    res, exc, sp = run(c)
    if exc is not None:
        return fmt.err(exc)
    return "ok grids=" + fmt.hist(np.asarray(res).astype(np.int64).tolist())


def btw(g, closed):
    a = np.array(g, dtype=np.int64)
    top = (a >= 4).astype(np.int64)
    new = a - 4 * top + np.roll(top, 1, 0) + np.roll(top, -1, 0) + np.roll(top, 1, 1) + np.roll(top, -1, 1)
    if closed:
        new[0, :] = 0
        new[-1, :] = 0
        new[:, 0] = 0
        new[:, -1] = 0
    return new


def oracle_reuse(c):
    """All grains ever added stay scheduled (by their step number within each evolution): each round must equal
    the BTW reference with every grain added so far."""
    import cellpylib as cpl
    g0 = np.array([c["grid"]], dtype=np.int32)
    R, C = g0.shape[1], g0.shape[2]
    sp = cpl.Sandpile(R, C, is_closed_boundary=bool(c["closed"]))
    closed = bool(c["closed"])
    sched = []
    cur = g0
    for ri, rd in enumerate(c["rounds"]):
        for (i, j, t) in rd["grains"]:
            sp.add_grain((i, j), t)
            sched.append((i, j, t))
        start = g0 if c["same_start"] else cur[-1:]
        res = cpl.evolve2d(start.copy(), timesteps=rd["T"], apply_rule=sp, r=1, neighbourhood="von Neumann")
        ref = np.array(start[0], dtype=np.int64)
        for t in range(1, rd["T"]):
            nxt = btw(ref, closed)
            for (i, j, tt) in sched:
                if tt == t:
                    nxt[i, j] = ref[i, j] + 1
            if not np.array_equal(nxt, res[t]):
                return "evolution %d with a reused Sandpile object: step %d differs from BTW + the grains scheduled so far %s" % (ri + 1, t, sched)
            ref = nxt
        cur = res
    return None


def oracle(c):
    if c["kind"] == "reuse":
        return oracle_reuse(c)
    res, exc, sp = run(c)
    if exc is not None:
        return "raised %s" % type(exc).__name__
    if sp._K != 4:
        return "threshold is %s, BTW needs 4" % sp._K
    H = len(c["hist"])
    if res.dtype != np.dtype(c["dtype"]):
        return "result dtype differs from the automaton's"
    grids = np.asarray(res).astype(np.int64).tolist()
    closed = bool(c["closed"])
    for t in range(1, c["T"]):
        prev = np.array(grids[H + t - 2], dtype=np.int64)
        cur = np.array(grids[H + t - 1], dtype=np.int64)
        want = btw(prev, closed)
        added = [(i, j) for (i, j, tt) in c["grains"] if tt == t]
        for (i, j) in set(added):
            want[i, j] = prev[i, j] + 1      # a scheduled grain replaces the toppling update of that cell
        if not np.array_equal(cur, want):
            return "step %d is not the BTW toppling update" % t
        if not added:
            if not closed and cur.sum() != prev.sum():
                return "open boundary: total changed from %d to %d at step %d" % (prev.sum(), cur.sum(), t)
            if closed and cur.sum() > prev.sum():
                return "closed boundary: total increased at step %d" % t
            if (prev < 4).all() and not np.array_equal(cur, prev):
                return "a stable configuration (all cells < 4) changed"
        if closed and (cur[0, :].any() or cur[-1, :].any() or cur[:, 0].any() or cur[:, -1].any()):
            return "closed boundary cell not held at 0"
        if (prev < 4).all():
            for (i, j) in set(added):
                exp = prev.copy()
                exp[i, j] += 1
                if len(set(added)) == 1 and not np.array_equal(cur, exp):
                    return "add_grain on a stable configuration did not raise exactly that cell by one"
    return None


def nontrivial(c, ans):
    if c["kind"] == "reuse":
        return sum(len(r["grains"]) for r in c["rounds"]) >= 1
    g = c["hist"][-1]
    return ans.startswith("ok") and c["T"] >= 2 and (any(x >= 4 for r in g for x in r) or len(c["grains"]) > 0)


def shrink(c):
    if c["kind"] == "reuse":
        for i in range(len(c["rounds"])):
            if len(c["rounds"]) > 1:
                yield dict(c, rounds=c["rounds"][:i] + c["rounds"][i + 1:])
        return
    if c["T"] > 2:
        yield dict(c, T=c["T"] - 1, grains=[g for g in c["grains"] if g[2] < c["T"] - 1])
    if len(c["hist"]) > 1:
        yield dict(c, hist=c["hist"][1:])
    if c["grains"]:
        yield dict(c, grains=c["grains"][1:])
    g = c["hist"][-1]
    for i in range(len(g)):
        for j in range(len(g[0])):
            if g[i][j] > 0:
                h = [[list(r) for r in gg] for gg in c["hist"]]
                h[-1][i][j] = g[i][j] // 2
                yield dict(c, hist=h)
