"""C10 — block automata: exact alternating partition, one rule call per block."""
import numpy as np

from .. import fmt
from ..dslblock import BRule

PROP = "C10"
RULE = ("cases: 1D block sizes 1..5 with ring sizes that are multiples up to 30, 2D blocks (b1,b2) in 1..3 x 1..3 with "
        "grids that are multiples up to 9x9, T in 1..6, dtypes int32/int64/uint8, block rules rev / rot / swapif / "
        "content-driven rotation (permutations), probe (not conserving), counter (stateful), short (returns fewer values); "
        "sizes not divisible by the block size (rejected). Non-trivial: >=2 blocks, non-constant state, >=2 steps (both "
        "partitions used); distinct by full input tuple.")
TRUSTED = ["np.ix_ write-back and zip(stride, res) as modelled"]
ASSUMPTIONS = ["block rules return blocks of the block's shape (2D), except the explicit 'short' 1D rule"]

PERMS = ["rev", "rot", "swapif", "sumrot"]


def gen(ctx):
    rng = ctx.rng
    yield dict(kind="blk1", hist=[[1, 2, 3, 4, 5, 6]], b=2, T=4, rule="rev", dtype="int32")
    yield dict(kind="blk1", hist=[[1, 2, 3, 4, 5, 6]], b=3, T=4, rule="rot", dtype="int32")
    yield dict(kind="blk1", hist=[[1, 2, 3, 4, 5, 6]], b=6, T=3, rule="rot", dtype="int32")
    yield dict(kind="blk1", hist=[[7]], b=1, T=3, rule="probe:5", dtype="int32")
    yield dict(kind="blk2", hist=[[[1, 2, 3, 4], [5, 6, 7, 8]]], b=[2, 2], T=3, rule="rot", dtype="int32")
    yield dict(kind="blk2", hist=[[[1, 2, 3], [4, 5, 6]]], b=[2, 3], T=3, rule="rev", dtype="int32")
    yield dict(kind="blk2", hist=[[[(5 * i + j) % 7 for j in range(6)] for i in range(8)]], b=[4, 3], T=4, rule="rot", dtype="int32")
    yield dict(kind="blk2", hist=[[[(3 * i + j) % 5 for j in range(10)] for i in range(8)]], b=[2, 5], T=3, rule="sumrot", dtype="int32")
    yield dict(kind="blk1", hist=[[(3 * i) % 7 for i in range(24)]], b=6, T=4, rule="rot", dtype="int32")
    yield dict(kind="blk1", hist=[[(3 * i) % 7 for i in range(24)]], b=8, T=4, rule="sumrot", dtype="int32")
    for T in (34, 70, 131):
        yield dict(kind="blk1", hist=[[rng.randrange(3) for _ in range(6)]], b=rng.choice([2, 3]), T=T, rule=rng.choice(["rot", "sumrot", "counter:3"]), dtype="int32")
        yield dict(kind="blk2", hist=[[[rng.randrange(3) for _ in range(4)] for _ in range(2)]], b=[rng.choice([1, 2]), 2], T=T, rule=rng.choice(["rot", "rev"]), dtype="int32")
    for (N, b) in [(70000, 2), (66000, 3)]:
        yield dict(kind="blk1", hist=[[(i * 7 + i // 5) % 4 for i in range(N)]], b=b, T=3, rule="sumrot", dtype="int32")
    yield dict(kind="blk2", hist=[[[(3 * i + j) % 4 for j in range(260)] for i in range(258)]], b=[2, 2], T=3, rule="rot", dtype="int32")
    for _ in range(ctx.n(400, 4000)):
        b = rng.choice([1, 2, 3, 4, 5, 6, 8])
        m = rng.randint(1, max(1, 32 // b))
        N = b * m
        if rng.random() < 0.12:
            N = N + rng.randint(1, max(1, b - 1)) if b > 1 else N     # not divisible (when b > 1)
        k = rng.randint(2, 5)
        H = rng.choice([1, 1, 2])
        hist = [[rng.randrange(k) for _ in range(N)] for _ in range(H)]
        rule = rng.choice(PERMS + PERMS + ["probe:%d" % k, "counter:%d" % k, "short"])
        c = dict(kind="blk1", hist=hist, b=b, T=rng.randint(1, 6), rule=rule, dtype=rng.choice(["int32", "int64", "uint8"]))
        if rng.random() < 0.15 and divisible(c):
            c["nested"] = 1         # the block rule itself runs a block evolution of the same width and dtype
        if rng.random() < 0.2 and divisible(c):
            c["aborted"] = rng.randint(1, max(1, 2 * (N // b)))      # an earlier evolution of these sizes died after that many rule calls
        yield c
    for _ in range(ctx.n(300, 3000)):
        b0, b1 = rng.choice([1, 2, 3, 3, 4, 5, 6]), rng.choice([1, 2, 2, 3, 4, 5, 6])
        R = b0 * rng.randint(1, max(1, 12 // b0))
        C = b1 * rng.randint(1, max(1, 12 // b1))
        if rng.random() < 0.12:
            if rng.random() < 0.5 and b0 > 1:
                R += 1
            elif b1 > 1:
                C += 1
        k = rng.randint(2, 5)
        H = rng.choice([1, 1, 2])
        hist = [[[rng.randrange(k) for _ in range(C)] for _ in range(R)] for _ in range(H)]
        rule = rng.choice(PERMS + PERMS + ["probe:%d" % k, "counter:%d" % k])
        c = dict(kind="blk2", hist=hist, b=[b0, b1], T=rng.randint(1, 5), rule=rule, dtype=rng.choice(["int32", "int64", "uint8"]))
        if rng.random() < 0.3:
            c["inplace"] = 1
        if rng.random() < 0.15 and divisible(c):
            c["nested"] = 1
        if rng.random() < 0.2 and divisible(c):
            c["aborted"] = rng.randint(1, max(1, 2 * (R // b0) * (C // b1)))
        yield c


def line(c):
    if len(c["hist"][-1]) > 2000 or (c["kind"] == "blk2" and len(c["hist"][-1]) * len(c["hist"][-1][0]) > 4000):
        return None        # large inputs: oracle only
    if c["kind"] == "blk1":
        return "evolve_block hist=%s b=%d T=%d rule=%s" % (fmt.mat(c["hist"]), c["b"], c["T"], c["rule"])
    return "evolve2d_block hist=%s b=%d,%d T=%d rule=%s" % (fmt.hist(c["hist"]), c["b"][0], c["b"][1], c["T"], c["rule"])


def calls_str(log):
    return "_" if not log else "/".join("%s@%d" % (fmt.vec(b), t) for (b, t) in log)


def run(c, rule=None):
    import cellpylib as cpl
    ca = np.array(c["hist"], dtype=c["dtype"])
    nested = dict(shape=ca.shape[1:], dtype=ca.dtype, b=c["b"]) if c.get("nested") else None
    rule = rule or BRule(c["rule"], inplace=bool(c.get("inplace")), nested=nested)
    if c.get("aborted"):
        # an earlier block evolution of the same sizes was aborted by its rule (an unknown state, say) part-way through a step;
        # the caller caught that and carries on: the partition of the next evolution is complete all the same
        from ..prelude import Abort
        st = {"k": 0}

        def failing(n, t):
            st["k"] += 1
            if st["k"] > c["aborted"]:
                raise Abort("unknown state")
            return n
        try:
            if c["kind"] == "blk1":
                cpl.evolve_block(ca[-1:].copy(), block_size=c["b"], timesteps=4, apply_rule=failing)
            else:
                cpl.evolve2d_block(ca[-1:].copy(), block_size=tuple(c["b"]), timesteps=4, apply_rule=failing)
        except Exception:  # noqa
            pass
    try:
        if c["kind"] == "blk1":
            res = cpl.evolve_block(ca, block_size=c["b"], timesteps=c["T"], apply_rule=rule)
        else:
            res = cpl.evolve2d_block(ca, block_size=tuple(c["b"]), timesteps=c["T"], apply_rule=rule)
        return ca, rule, res, None
    except Exception as e:  # noqa
        return ca, rule, None, e


def impl(c):
    ca, rule, res, exc = run(c)
    if exc is not None:
        return fmt.err(exc)
    if line(c) is None:
        return "ok big states=%d" % len(res)
    body = fmt.mat(res.tolist()) if c["kind"] == "blk1" else fmt.hist(res.tolist())
    return "ok %s=%s calls=%s" % ("rows" if c["kind"] == "blk1" else "grids", body, calls_str(rule.log))


def divisible(c):
    if c["kind"] == "blk1":
        return len(c["hist"][-1]) % c["b"] == 0
    g = c["hist"][-1]
    return len(g) % c["b"][0] == 0 and len(g[0]) % c["b"][1] == 0


def ref_blocks(c, t):
    """The partition of step t by plain arithmetic: list of blocks, each a list of cell ids."""
    if c["kind"] == "blk1":
        N, b = len(c["hist"][-1]), c["b"]
        off = 0 if t % 2 == 1 else -1           # even steps: blocks shifted cyclically by one (start at N-1)
        return [[(off + i * b + j) % N for j in range(b)] for i in range(N // b)]
    g = c["hist"][-1]
    R, C = len(g), len(g[0])
    b0, b1 = c["b"]
    off = 0 if t % 2 == 1 else 1
    return [[((off + i * b0 + a) % R, (off + j * b1 + bb) % C) for a in range(b0) for bb in range(b1)]
            for i in range(R // b0) for j in range(C // b1)]


def oracle(c):
    ca, rule, res, exc = run(c)
    if not divisible(c):
        return None if type(exc) is Exception else "size not divisible by the block size was not rejected with Exception (%s)" % (type(exc).__name__ if exc else "no error")
    if exc is not None:
        return "raised %s: %s" % (type(exc).__name__, str(exc)[:80])
    H = len(c["hist"])
    if res.dtype != ca.dtype or res.shape[0] != H + c["T"] - 1 or res[:H].tobytes() != ca.tobytes():
        return "result does not extend the given history"
    states = res.tolist()
    ref_rule = BRule(c["rule"])
    idx = 0
    for t in range(1, c["T"]):
        prev, cur = states[H + t - 2], states[H + t - 1]
        blocks = ref_blocks(c, t)
        # partition: every cell in exactly one block
        flat = [x for b in blocks for x in b]
        ncells = len(prev) if c["kind"] == "blk1" else len(prev) * len(prev[0])
        if len(flat) != ncells or len(set(flat)) != ncells:
            return "reference partition broken"   # cannot happen; guards the oracle itself
        get = (lambda g, x: g[x]) if c["kind"] == "blk1" else (lambda g, x: g[x[0]][x[1]])
        for b in blocks:
            vals = [get(prev, x) for x in b]
            if idx >= len(rule.log) or rule.log[idx] != (vals, t):
                return "call %d: rule consulted with %s, expected block %s at step %d" % (
                    idx, rule.log[idx] if idx < len(rule.log) else None, vals, t)
            idx += 1
            out = ref_rule.flat(vals, t)
            for x, v in zip(b, out):
                if get(cur, x) != v:
                    return "step %d: result of block %s not written back to the same cells" % (t, b)
            if len(out) < len(b):
                for x in b[len(out):]:
                    if get(cur, x) != 0:
                        return "cells beyond a short result should stay 0"
        if c["rule"] in PERMS:
            a = sorted(x for row in ([prev] if c["kind"] == "blk1" else prev) for x in row)
            bb = sorted(x for row in ([cur] if c["kind"] == "blk1" else cur) for x in row)
            if a != bb:
                return "a within-block permutation changed the global multiset of states at step %d" % t
    if idx != len(rule.log):
        return "rule consulted %d times, expected once per block (%d)" % (len(rule.log), idx)
    # reversibility: undoing with the inverse rule on the same partitions retraces the evolution
    if c["rule"] == "rev" and c["T"] >= 2:
        cur = states[-1]
        for t in range(c["T"] - 1, 0, -1):
            blocks = ref_blocks(c, t)
            prev = [list(r) for r in cur] if c["kind"] == "blk2" else list(cur)
            for b in blocks:
                vals = [cur[x] if c["kind"] == "blk1" else cur[x[0]][x[1]] for x in b][::-1]
                for x, v in zip(b, vals):
                    if c["kind"] == "blk1":
                        prev[x] = v
                    else:
                        prev[x[0]][x[1]] = v
            cur = prev
        if cur != states[H - 1]:
            return "an invertible block rule did not make the evolution reversible"
    return None


def nontrivial(c, ans):
    if not ans.startswith("ok"):
        return False
    last = c["hist"][-1]
    cells = last if c["kind"] == "blk1" else [x for r in last for x in r]
    nblocks = len(cells) // (c["b"] if c["kind"] == "blk1" else c["b"][0] * c["b"][1])
    return nblocks >= 2 and len(set(cells)) > 1 and c["T"] >= 3


def shrink(c):
    if len(c["hist"]) > 1:
        yield dict(c, hist=c["hist"][1:])
    if c["T"] > 2:
        yield dict(c, T=c["T"] - 1)
    if c["kind"] == "blk1":
        N, b = len(c["hist"][-1]), c["b"]
        if N >= 2 * b:
            yield dict(c, hist=[row[:-b] for row in c["hist"]])
    else:
        g = c["hist"][-1]
        b0, b1 = c["b"]
        if len(g) >= 2 * b0:
            yield dict(c, hist=[gg[:-b0] for gg in c["hist"]])
        if len(g[0]) >= 2 * b1:
            yield dict(c, hist=[[row[:-b1] for row in gg] for gg in c["hist"]])
