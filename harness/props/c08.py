"""C08 — totalistic rule numbering."""
import numpy as np

from .. import fmt

PROP = "C08"
RULE = ("cases: k in 2..36, neighbourhoods 1D of sizes 1,3,5,7,9, 2D Moore 3x3/5x5, masked von Neumann r=1 (5 of 9) and "
        "r=2 (13 of 25), contents over 0..k-1, rule numbers uniform in their base-k digits (not in magnitude) incl. the "
        "largest in-range number and the first out-of-range one, function and TotalisticRule class. Non-trivial: in-range "
        "rule with at least two distinct digits and a non-zero neighbourhood sum.")
TRUSTED = ["np.base_repr / str.zfill / int(ch, k) modelled as base-k digit lists (Py.baseDigits, padLeft)",
           "neighbourhood.size counts masked cells, np.sum skips them"]
ASSUMPTIONS = ["contents over 0..k-1 (outside, Python's negative string index wraps silently; not claimed)"]


def shape_cells(rng, k):
    which = rng.randrange(8)
    if which < 4:
        w = rng.choice([1, 3, 5, 7, 9])
        return [[rng.randrange(k) for _ in range(w)]], "1d"
    r = 1 if which in (4, 6) else 2
    w = 2 * r + 1
    g = [[rng.randrange(k) for _ in range(w)] for _ in range(w)]
    if which >= 6:
        g = [[None if abs(i - r) + abs(j - r) > r else g[i][j] for j in range(w)] for i in range(w)]
    return g, "2d"


def gen(ctx):
    rng = ctx.rng
    yield dict(kind="tot", n=[[0, 0, 0]], shape="1d", k=3, rule=777, form="func")
    yield dict(kind="tot", n=[[2, 2, 2]], shape="1d", k=3, rule=777, form="class")
    for _ in range(ctx.n(150, 1500)):
        # one process, one rule number, different k / neighbourhood sizes in both orders (a cache keyed by too little)
        rule = rng.choice([777, 30, 6, 1, 3 ** 8, 2 ** 5, rng.getrandbits(12), rng.getrandbits(6)])
        seq = []
        for k in rng.choice([[4, 3, 2], [2, 3, 4], [3, 3, 3], [2, 2, 2], [5, 2, 5], [3, 3, 2]]):
            for _ in range(rng.randint(1, 3)):
                n, shape = shape_cells(rng, k)
                seq.append(dict(kind="tot", n=n, shape=shape, k=k, rule=rule, form=rng.choice(["func", "class"])))
        yield dict(kind="seq", seq=seq)
    for _ in range(ctx.n(2500, 30000)):
        k = rng.choice([2, 2, 3, 3, 4, 5, 7, 10, 11, 16, 35, 36, rng.randint(2, 36)])
        n, shape = shape_cells(rng, k)
        size = sum(len(r) for r in n)
        ndig = size * (k - 1) + 1
        style = rng.random()
        if style < 0.7:
            d = rng.randint(1, ndig)
            rule = 0
            for _ in range(d):
                rule = rule * k + rng.randrange(k)
        elif style < 0.8:
            rule = k ** ndig - 1
        elif style < 0.9:
            rule = k ** ndig + rng.randrange(3)            # out of range
        else:
            rule = k ** rng.randrange(ndig)                # a single 1 digit
        yield dict(kind="tot", n=n, shape=shape, k=k, rule=rule, form=rng.choice(["func", "class"]))


def line(c):
    if c["kind"] == "seq":
        return None
    return "totalistic n=%s k=%d rule=%d" % (fmt.omat(c["n"]), c["k"], c["rule"])


DTS = ["int64", "uint8", "int32", "uint16", "int8", "uint64", "int16"]


def make_n(c):
    flat = [x for r in c["n"] for x in r]
    vals = [x for x in flat if x is not None]
    dt = DTS[(sum(vals) + len(flat) + c["k"]) % len(DTS)]
    if c["shape"] == "1d":
        return np.array(c["n"][0], dtype=dt)
    if any(x is None for x in flat):
        # the cells under the mask hold data too (whatever the lattice has there): they must not count
        fill = (sum(vals) * 7 + 3) % max(2, c["k"])
        data = np.array([[fill if x is None else x for x in r] for r in c["n"]], dtype=dt)
        mask = np.array([[x is None for x in r] for r in c["n"]])
        return np.ma.masked_array(data, mask)
    return np.array(c["n"], dtype=dt)


def call(c, shared=None):
    import cellpylib as cpl
    n = make_n(c)
    if c["form"] == "func":
        return int(cpl.totalistic_rule(n, c["k"], c["rule"]))
    if shared is not None:
        key = (c["k"], c["rule"])
        if key not in shared:
            shared[key] = cpl.TotalisticRule(c["k"], c["rule"])
        return int(shared[key](n, (1, 1), 3))
    return int(cpl.TotalisticRule(c["k"], c["rule"])(n, (1, 1), 3))


def impl(c, shared=None):
    if c["kind"] == "seq":
        sh = {}
        return "|".join(impl(x, sh) for x in c["seq"])
    try:
        return "ok %d" % call(c, shared)
    except Exception as e:  # noqa
        return fmt.err(e)


def oracle(c, shared=None):
    if c["kind"] == "seq":
        sh = {}       # rule objects live for the whole sequence: TotalisticRule(k, rule) is built once and reused
        for i, x in enumerate(c["seq"]):
            bad = oracle(x, sh)
            if bad:
                return "call %d of a sequence in one process (rule objects reused): %s" % (i, bad)
        return None
    k, rule = c["k"], c["rule"]
    flat = [x for r in c["n"] for x in r]
    size = len(flat)
    s = sum(x for x in flat if x is not None)
    in_range = rule < k ** (size * (k - 1) + 1)
    try:
        got = call(c, shared)
    except ValueError:
        return None if not in_range else "in-range rule number rejected with ValueError"
    except Exception as e:
        return "raised %s" % type(e).__name__
    if not in_range:
        return "rule number needing more than size*(k-1)+1 digits was accepted"
    want = (rule // (k ** s)) % k
    if got != want:
        return "totalistic(n sum=%d, k=%d, rule=%d) = %d, digit with place value k^s is %d" % (s, k, rule, got, want)
    if not (0 <= got < k):
        return "result outside 0..k-1"
    return None


def nontrivial(c, ans):
    if c["kind"] == "seq":
        return True
    flat = [x for r in c["n"] for x in r if x is not None]
    digits = set()
    x = c["rule"]
    while x:
        digits.add(x % c["k"])
        x //= c["k"]
    return ans.startswith("ok") and sum(flat) > 0 and len(digits) >= 2


def shrink(c):
    if c["kind"] == "seq":
        for i in range(len(c["seq"])):
            if len(c["seq"]) > 1:
                yield dict(c, seq=c["seq"][:i] + c["seq"][i + 1:])
        return
    yield dict(c, rule=c["rule"] // c["k"])
    if c["shape"] == "1d" and len(c["n"][0]) > 2:
        yield dict(c, n=[c["n"][0][1:-1]])
