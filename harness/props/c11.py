"""C11 — Game of Life rule is Conway's B3/S23."""
import itertools

import numpy as np

from .. import fmt, ev1

PROP = "C11"
RULE = ("all 512 binary 3x3 neighbourhoods (complete, every run); evolve2d with game_of_life_rule against the np.roll "
        "Life step on random grids R,C in 1..9 (all memoize modes); still lifes (block, beehive), blinker and glider at "
        "every placement (incl. straddling the periodic seam) on tori from 5x5 to 10x10. Non-trivial: grid has live and "
        "dead cells and T >= 2.")
EXHAUSTIVE = True
TRUSTED = ["Moore neighbourhood r=1 as in C02"]
ASSUMPTIONS = ["binary grids"]

PATTERNS = {
    "block": ([(0, 0), (0, 1), (1, 0), (1, 1)], 1, (0, 0)),
    "beehive": ([(0, 1), (0, 2), (1, 0), (1, 3), (2, 1), (2, 2)], 1, (0, 0)),
    "blinker": ([(0, 0), (0, 1), (0, 2)], 2, (0, 0)),
    "glider": ([(0, 1), (1, 2), (2, 0), (2, 1), (2, 2)], 4, (1, 1)),
}


def place(name, R, C, dr, dc):
    g = [[0] * C for _ in range(R)]
    for (i, j) in PATTERNS[name][0]:
        g[(i + dr) % R][(j + dc) % C] = 1
    return g


def gen(ctx):
    rng = ctx.rng
    for bits in itertools.product([0, 1], repeat=9):
        yield dict(kind="gol", n=[list(bits[0:3]), list(bits[3:6]), list(bits[6:9])])
    for _ in range(ctx.n(150, 2000)):
        R, C = rng.randint(1, 9), rng.randint(1, 9)
        p = rng.choice([0.2, 0.35, 0.5])
        g = [[int(rng.random() < p) for _ in range(C)] for _ in range(R)]
        yield dict(kind="life", hist=[g], T=rng.randint(1, 5), memo=rng.choice(["False", "True", "recursive_lit"]),
                   dtype=rng.choice(["int32", "int32", "uint8", "int8", "int64", "bool", "float64", "uint16"]))
    for _ in range(ctx.n(80, 800)):
        # Life continued from a history of several frames (only the last one matters), every mode, fixed and callable T
        R, C = rng.randint(3, 8), rng.randint(3, 8)
        H = rng.randint(2, 4)
        hist = [[[int(rng.random() < 0.4) for _ in range(C)] for _ in range(R)] for _ in range(H)]
        yield dict(kind="life", hist=hist, T=rng.randint(2, 5), memo=rng.choice(["False", "True", "recursive_lit", "recursive_lit"]),
                   dyn=int(rng.random() < 0.3))
    for _ in range(ctx.n(60, 600)):
        # a warm-up call with the SAME rule function under other settings, then Life proper (one process)
        R, C = rng.randint(3, 8), rng.randint(3, 8)
        g = [[int(rng.random() < 0.4) for _ in range(C)] for _ in range(R)]
        yield dict(kind="life", hist=[g], T=rng.randint(2, 4), memo=rng.choice(["True", "recursive_lit", "recursive_lit"]),
                   warm=dict(nb=rng.choice(["von Neumann", "von Neumann", "Moore"]), memo=rng.choice(["True", "recursive_lit", "recursive_lit"]),
                             T=rng.randint(2, 3), same_grid=int(rng.random() < 0.7)))
    sizes = [(5, 5), (5, 7), (6, 6), (7, 5), (8, 8), (10, 9)] if ctx.tier == "quick" else \
        [(R, C) for R in range(5, 11) for C in range(5, 11)]
    for (R, C) in sizes:
        for name in PATTERNS:
            if name == "beehive" and (R < 6 or C < 6):
                continue
            places = [(dr, dc) for dr in range(R) for dc in range(C)]
            if ctx.tier == "quick":
                places = rng.sample(places, min(6, len(places))) + [(R - 1, C - 1), (R - 2, C - 1)]
            for (dr, dc) in places:
                yield dict(kind="pattern", name=name, R=R, C=C, dr=dr, dc=dc,
                           memo=rng.choice(["False", "True", "recursive_lit"]))


def _hist(c):
    if c["kind"] == "pattern":
        return [place(c["name"], c["R"], c["C"], c["dr"], c["dc"])]
    return c["hist"]


def _T(c):
    return PATTERNS[c["name"]][1] + 1 if c["kind"] == "pattern" else c["T"]


def line(c):
    if c["kind"] == "gol":
        return "gol n=" + fmt.mat(c["n"])
    return "life hist=%s T=%d mode=%s" % (fmt.hist(_hist(c)), _T(c), ev1.mode_of(c["memo"]))


def run(c):
    import cellpylib as cpl
    ca = np.array(_hist(c), dtype=c.get("dtype", "int32"))
    w = c.get("warm")
    if w:
        wca = ca[-1:].copy() if w["same_grid"] else np.roll(ca[-1:], 1, axis=2).copy()
        cpl.evolve2d(wca, timesteps=w["T"], apply_rule=cpl.game_of_life_rule, r=1, neighbourhood=w["nb"],
                     memoize=ev1.memo_value(w["memo"]))
    T = _T(c)
    ts = (lambda a, t: t < T) if c.get("dyn") else T
    if (int(ca.sum()) + 3 * T + ca.shape[1]) % 4 == 0 and min(ca.shape[1:]) >= 2:
        # what the program did before on a grid of this shape (harness/prelude.py): another automaton with radius 2, the other
        # neighbourhood type, an evolution aborted by its rule — in the same memoize mode and in recursive mode
        from .. import prelude
        prelude.run2d(dict(r=1, prelude=["other_r", "other_nb", "poison", "ghost"]), ca.astype("int32"), ev1.memo_value(c["memo"]), "Moore")
    # integer / unsigned / bool grids under a strict NumPy error state and warnings as errors (a third of the runs)
    with ev1.strict_ctx(ca.dtype.kind in "iub" and (int(ca.sum()) + T) % 3 == 1):
        return cpl.evolve2d(ca, timesteps=ts, apply_rule=cpl.game_of_life_rule, r=1, neighbourhood="Moore",
                            memoize=ev1.memo_value(c["memo"]))


def impl(c):
    import cellpylib as cpl
    try:
        if c["kind"] == "gol":
            dt = ["int64", "uint8", "int8", "bool", "float64", "uint16"][(sum(map(sum, c["n"])) + 2 * c["n"][1][1]) % 6]
            with ev1.strict_ctx(dt != "float64" and (c["n"][0][0] + c["n"][2][2]) % 2 == 1):
                v = cpl.game_of_life_rule(np.array(c["n"], dtype=dt), (1, 1), 1)
            return "ok None" if v is None else "ok %d" % int(v)
        return "ok grids=" + fmt.hist(np.asarray(run(c)).astype(np.int64).tolist())
    except Exception as e:  # noqa
        return fmt.err(e)


def life_step(g):
    a = np.array(g, dtype=np.int64)
    nb = sum(np.roll(np.roll(a, di, 0), dj, 1) for di in (-1, 0, 1) for dj in (-1, 0, 1) if (di, dj) != (0, 0))
    return ((a == 0) & (nb == 3) | (a == 1) & ((nb == 2) | (nb == 3))).astype(np.int64)


def oracle(c):
    import cellpylib as cpl
    if c["kind"] == "gol":
        n = c["n"]
        centre = n[1][1]
        nbrs = sum(x for r in n for x in r) - centre
        want = 1 if (centre == 0 and nbrs == 3) or (centre == 1 and nbrs in (2, 3)) else 0
        for dt in ("int64", "uint8", "int8", "bool", "int32", "float64"):
            got = cpl.game_of_life_rule(np.array(n, dtype=dt), (1, 1), 1)
            if got is None or got != want:
                return "game_of_life_rule(%s as %s) = %s, B3/S23 says %s" % (n, dt, got, want)
        return None if got == want and got is not None else "game_of_life_rule(%s) = %s, B3/S23 says %s" % (n, got, want)
    try:
        res = run(c)
    except Exception as e:
        return "raised %s" % type(e).__name__
    if res.dtype != np.dtype(c.get("dtype", "int32")):
        return "result dtype %s differs from the automaton's %s" % (res.dtype, c.get("dtype", "int32"))
    grids = np.asarray(res).astype(np.int64).tolist()
    H = len(_hist(c))
    if grids[:H] != _hist(c) or len(grids) != H + _T(c) - 1:
        return "result is not the given frames followed by T-1 new ones"
    for t in range(H, len(grids)):
        if not np.array_equal(life_step(grids[t - 1]), np.array(grids[t])):
            return "step %d is not the Life update on the torus" % t
    if c["kind"] == "pattern":
        cells, period, shift = PATTERNS[c["name"]]
        want = place(c["name"], c["R"], c["C"], c["dr"] + shift[0], c["dc"] + shift[1])
        if grids[-1] != want:
            return "%s at (%d,%d) on %dx%d did not reappear%s after %d steps" % (
                c["name"], c["dr"], c["dc"], c["R"], c["C"], " shifted by (1,1)" if shift != (0, 0) else "", period)
        if c["name"] == "blinker" and grids[1] == grids[0]:
            return "blinker has period one"
    return None


def nontrivial(c, ans):
    if c["kind"] == "gol":
        return True
    g = _hist(c)[-1]
    cells = [x for r in g for x in r]
    return ans.startswith("ok") and len(set(cells)) > 1 and _T(c) >= 2
