"""C16 — Shannon, joint and mutual information measures match their definitions."""
import math
from collections import Counter

import numpy as np

from .. import fl, fmt

PROP = "C16"
RULE = ("cases: strings over alphabets of 1..40 symbols, lengths 1..60; automata T x N with T<N, T=N, T>N and states from "
        "{0,1}, 0..15, negatives (-1/1 Hopfield-like), multi-digit states, floats; every temporal distance d in "
        "0..max(T,N)+1 (accept/reject compared exactly). Values are compared with |delta| <= 1e-9 after decoding bit "
        "patterns; symbol and joint counts exactly. Non-trivial: >= 2 distinct symbols and length >= 3.")
TRUSTED = ["IEEE-754 log (math.log / np.log2 vs Lean's Float.log): tie is a 1e-9 tolerance comparison, no float identity is proved",
           "theorems are over the reals (Real.log) for the same generic formulas the driver evaluates in Float"]
ASSUMPTIONS = ["joint measures are used on sequences of equal length"]


def ref_H(seq):
    n = len(seq)
    return -sum((c / n) * math.log2(c / n) for c in Counter(seq).values()) + 0.0 if n else 0.0


def ref_joint(x, y):
    n = len(x)
    return -sum((c / n) * math.log2(c / n) for c in Counter(zip(x, y)).values()) if n else 0.0


def rand_string(rng, L=None, k=None):
    k = k or rng.choice([1, 2, 2, 3, 5, 10, 40])
    L = L or rng.randint(1, 60)
    pool = list(range(48, 123))
    if rng.random() < 0.3:
        # symbols are characters (code points), whatever their encoded width: Latin-1, Greek, CJK, and characters beyond
        # the Basic Multilingual Plane (emoji, mathematical alphanumerics, Gothic, CJK extension B, the last code point)
        pool = list(range(48, 60)) + [0xE9, 0x3B1, 0x4E2D, 0xFFFD, 0x1F600, 0x1F601, 0x1F9E0, 0x1D54F, 0x1D550, 0x10348,
                                      0x20000, 0x2A6D6, 0x10FFFF, 0x10000] + list(range(97, 97 + max(0, k - 26)))
    alphabet = [chr(c) for c in rng.sample(pool, k)]
    return "".join(rng.choice(alphabet) for _ in range(L))


def gen(ctx):
    rng = ctx.rng
    yield dict(kind="ami", ca=[[1, 10], [10, 1], [1, 0], [0, 1]], d=1, dtype="int64")          # D5: multi-character states
    yield dict(kind="ami", ca=[[0, 1, 1], [1, 1, 0], [1, 0, 1], [0, 0, 1], [1, 1, 1], [0, 1, 0]], d=4, dtype="int64")   # D6: T=6 > N=3
    yield dict(kind="ami", ca=[[0, 1, 1, 0, 1, 0], [1, 1, 0, 0, 1, 1], [1, 0, 1, 1, 1, 0]], d=4, dtype="int64")          # D6: T=3 < N=6
    # wide automata whose cells are far from alike: the average is over ALL cells, each with weight 1/N
    for N in ([130, 257] if ctx.tier == "quick" else [101, 130, 199, 257, 515, 1030]):
        T = rng.randint(4, 8)
        flat = rng.randint(40, N - 20)          # a run of constant cells, then varied ones
        ca = [[(0 if j < flat else rng.randrange(3)) for j in range(N)] for _ in range(T)]
        yield dict(kind="ace", ca=ca, dtype="int64")
        yield dict(kind="ami", ca=ca, d=rng.randint(1, T - 1), dtype="int64")
    # states that differ only beyond the 53rd bit are different symbols
    for _ in range(ctx.n(30, 300)):
        T, N = rng.randint(3, 9), rng.randint(1, 4)
        base = rng.choice([2 ** 53, 2 ** 62, -(2 ** 60)])
        ca = [[base + rng.randrange(3) for _ in range(N)] for _ in range(T)]
        yield dict(kind="ace", ca=ca, dtype="int64", huge=1)
        yield dict(kind="ami", ca=ca, d=rng.randint(1, T - 1), dtype="int64", huge=1)
    for _ in range(ctx.n(400, 4000)):
        s = rand_string(rng)
        yield dict(kind="H", s=s)
        L = len(s)
        t = rand_string(rng, L=L)
        yield dict(kind="J", x=s, y=t)
        yield dict(kind="MI", x=s, y=rng.choice([t, s, s[::-1]]))
    for L in ([257, 1000] if ctx.tier == "quick" else [255, 256, 257, 1000, 2000]):
        s1 = rand_string(rng, L=L, k=rng.choice([1, 2, 3, 40]))
        s2 = rand_string(rng, L=L, k=rng.choice([2, 3]))
        yield dict(kind="H", s=s1)
        yield dict(kind="J", x=s1, y=s2)
        yield dict(kind="MI", x=s1, y=s2)
        ca = [[rng.choice([0, 1, 2]) for _ in range(3)] for _ in range(L)]
        yield dict(kind="ace", ca=ca, dtype="int64")
        yield dict(kind="ami", ca=ca, d=rng.choice([1, L // 2, L - 1]), dtype="int64")
    for _ in range(ctx.n(120, 1200)):
        # two cells with different state sequences but the same concatenated printed form
        # (e.g. 1,1,10 vs 11,1,0 ; -1,1 vs -11 ; 1,0 vs 10): states must be symbols, not character streams
        pieces = rng.choice([[("1", "1", "10"), ("11", "1", "0")], [("1", "0", "1"), ("10", "1", "")], [("2", "21", "1"), ("22", "1", "1")],
                             [("1", "-1", "1"), ("1", "-11", "")], [("12", "1", "2"), ("1", "21", "2")]])
        a = [int(x) for x in pieces[0] if x != ""]
        b = [int(x) for x in pieces[1] if x != ""]
        L = max(len(a), len(b)) + rng.randint(0, 3)
        pad = [rng.choice([1, 1, 7]) for _ in range(L)]
        cola = (a + pad)[:L] if len(a) >= len(b) else (a + [1] + pad)[:L]
        colb = (b + pad)[:L] if len(b) >= len(a) else (b + [1] + pad)[:L]
        # make the joined strings equal: rebuild from explicit patterns when lengths differ
        if "".join(map(str, cola)) != "".join(map(str, colb)):
            cola, colb = [1, 1, 10, 1, 1][:max(3, L)], [11, 1, 0, 1, 1][:max(3, L)]
        third = [rng.choice([7, 7, 3]) for _ in range(len(cola))]
        cols = [cola, colb, third]
        rng.shuffle(cols)
        ca = [[col[t] for col in cols] for t in range(len(cola))]
        yield dict(kind="ace", ca=ca, dtype="int64")
        for d in range(1, len(ca)):
            yield dict(kind="ami", ca=ca, d=d, dtype="int64")
    for _ in range(ctx.n(300, 3000)):
        T = rng.randint(1, 9)
        N = rng.choice([1, 2, 3, T, T + 3, 8])
        style = rng.randrange(5)
        if style == 0:
            vals = [0, 1]
        elif style == 1:
            vals = list(range(16))
        elif style == 2:
            vals = [-1, 1]
        elif style == 3:
            vals = [0, 1, 10, 11, 100, -10]
        else:
            vals = [0, 5, 25, 2]           # used as floats /10
        ca = [[rng.choice(vals) for _ in range(N)] for _ in range(T)]
        dtype = "float64" if style == 4 else "int64"
        yield dict(kind="ace", ca=ca, dtype=dtype)
        for d in range(0, max(T, N) + 2):
            if rng.random() < 0.5:
                yield dict(kind="ami", ca=ca, d=d, dtype=dtype)


def codes(s):
    return fmt.vec([ord(ch) for ch in s])


def line(c):
    k = c["kind"]
    if k == "H":
        return "shannon s=" + codes(c["s"])
    if k == "J":
        return "joint x=%s y=%s" % (codes(c["x"]), codes(c["y"]))
    if k == "MI":
        return "mi x=%s y=%s" % (codes(c["x"]), codes(c["y"]))
    if k == "ace":
        return "ace ca=" + fmt.mat(c["ca"])
    return "ami ca=%s d=%d" % (fmt.mat(c["ca"]), c["d"])


def make_ca(c):
    a = np.array(c["ca"], dtype=np.int64)
    if c.get("huge"):
        return a
    if c["dtype"] == "float64":
        return a.astype(np.float64) / 10.0
    lo, hi = int(a.min()) if a.size else 0, int(a.max()) if a.size else 0
    # the same integer states in a narrower / unsigned container when they fit
    pick = (lo + 3 * hi + a.size) % 4
    if (lo + hi + 2 * a.size) % 7 == 3 and a.ndim == 2:
        import warnings
        with warnings.catch_warnings():
            warnings.simplefilter("ignore")
            return np.matrix(a)                             # the 2-D array subclass (rows = timesteps, columns = cells)
    if pick == 1 and 0 <= lo and hi <= 255:
        return a.astype(np.uint8)
    if pick == 2 and -128 <= lo and hi <= 127:
        return a.astype(np.int8)
    if pick == 3:
        return np.asfortranarray(a.astype(np.int32))       # column-major layout
    return a


def call(c):
    import cellpylib as cpl
    k = c["kind"]
    if k == "H":
        return float(cpl.shannon_entropy(c["s"]))
    if k == "J":
        return float(cpl.joint_shannon_entropy(c["x"], c["y"]))
    if k == "MI":
        return float(cpl.mutual_information(c["x"], c["y"]))
    if k in ("ace", "ami") and (len(c["ca"]) + len(c["ca"][0])) % 3 == 0:
        # a different automaton of the same shape and dtype was measured just before, from a temporary that is gone by the
        # time the measured one is allocated (time windows of one evolution in a loop, arrays generated for the call)
        base = make_ca(c)
        measure = cpl.average_cell_entropy if k == "ace" else (lambda a: cpl.average_mutual_information(a, c["d"]))
        try:
            ghost = base.copy()
            ghost[1:] = ghost[0]          # every cell constant: all measures 0 (a reversed or permuted copy would measure the same)
            measure(ghost)
            del ghost
        except Exception:  # noqa
            pass
        return float(measure(base.copy()))
    if k == "ace":
        return float(cpl.average_cell_entropy(make_ca(c)))
    return float(cpl.average_mutual_information(make_ca(c), c["d"]))


def impl(c):
    try:
        v = call(c)
    except Exception as e:  # noqa
        return fmt.err(e)
    s = "ok f=%d" % fl.float_to_bits(v)
    if c["kind"] == "H":
        cnt = Counter(c["s"])
        s += " counts=" + ";".join("%d:%d" % (ord(ch), cnt[ch]) for ch in dict.fromkeys(c["s"]))
    return s


def compare(c, a, b):
    fa, ra = fl.split_f(a)
    fb, rb = fl.split_f(b)
    if fa is None or fb is None:
        return a == b
    if c["kind"] != "H":
        ra = rb = ""      # joint counts are printed by the model only
    return fl.close(fa, fb) and ra == rb


def oracle(c):
    k = c["kind"]
    try:
        got = call(c)
        exc = None
    except Exception as e:
        got, exc = None, e
    if k in ("H", "J", "MI"):
        if exc is not None:
            return "raised %s" % type(exc).__name__
        if k == "H":
            want = ref_H(c["s"])
        elif k == "J":
            want = ref_joint(c["x"], c["y"])
            back = float(__import__("cellpylib").joint_shannon_entropy(c["y"], c["x"]))
            if not fl.close(back, got):
                return "joint entropy not symmetric"
        else:
            want = ref_H(c["x"]) + ref_H(c["y"]) - ref_joint(c["x"], c["y"])
            if got < -1e-9:
                return "mutual information negative: %r" % got
            back = float(__import__("cellpylib").mutual_information(c["y"], c["x"]))
            if not fl.close(back, got):
                return "mutual information not symmetric"
            if c["x"] == c["y"] and not fl.close(got, ref_H(c["x"])):
                return "MI(X, X) != H(X)"
        return None if fl.close(got, want) else "%s = %r, definition gives %r" % (k, got, want)
    ca = make_ca(c).tolist()
    T, N = len(ca), len(ca[0])
    cols = [[ca[t][i] for t in range(T)] for i in range(N)]
    if k == "ace":
        if exc is not None:
            return "raised %s" % type(exc).__name__
        want = sum(ref_H(col) for col in cols) / N
        return None if fl.close(got, want) else "average_cell_entropy = %r, mean of per-cell entropies of states is %r" % (got, want)
    d = c["d"]
    ok = 0 < d < T
    if not ok:
        return None if isinstance(exc, ValueError) else "temporal distance %d with %d timesteps was not rejected with ValueError (%s)" % (d, T, "returned %r" % got if exc is None else type(exc).__name__)
    if exc is not None:
        return "temporal distance %d with %d timesteps (N=%d) rejected: %s" % (d, T, N, type(exc).__name__)
    want = sum(ref_H(col[:-d]) + ref_H(col[d:]) - ref_joint(col[:-d], col[d:]) for col in cols) / N
    return None if fl.close(got, want) else "average_mutual_information(d=%d) = %r, definition over states as symbols gives %r" % (d, got, want)


def nontrivial(c, ans):
    if c["kind"] in ("H", "J", "MI"):
        s = c.get("s") or c.get("x")
        return len(set(s)) >= 2 and len(s) >= 3
    flat = [x for r in c["ca"] for x in r]
    return len(set(flat)) >= 2 and len(c["ca"]) >= 3


def shrink(c):
    if c["kind"] in ("ace", "ami"):
        ca = c["ca"]
        if len(ca) > 1:
            yield dict(c, ca=ca[:-1])
            yield dict(c, ca=ca[1:])
        if len(ca[0]) > 1:
            yield dict(c, ca=[r[:-1] for r in ca])
            yield dict(c, ca=[r[1:] for r in ca])
    elif c["kind"] == "H" and len(c["s"]) > 1:
        yield dict(c, s=c["s"][1:])
        yield dict(c, s=c["s"][:-1])
