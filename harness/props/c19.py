"""C19 — approximate entropy matches Pincus' definition for every input form."""
import math

import numpy as np

from .. import fl, fmt

PROP = "C19"
RULE = ("cases: integer sequences over 0..9 (digit string, list and ndarray forms) and wider ranges incl. negatives (list "
        "and ndarray), m in 1..4, r in 0..3, lengths m+1..40, constant and periodic sequences; unsupported sequence types. "
        "The three input forms are compared bit-for-bit on the implementation, the value within 1e-9 of the model, the "
        "match-count matrices exactly. Non-trivial: length >= m+3 and a non-constant sequence.")
TRUSTED = ["IEEE-754 log (np.log vs Lean's Float.log): 1e-9 tolerance tie", "theorems over the reals for the same generic formulas"]
ASSUMPTIONS = ["len(seq) >= m + 1, m >= 1, r >= 0"]


def ref_apen(u, m, r):
    N = len(u)

    def phi(mm):
        x = [u[i:i + mm] for i in range(N - mm + 1)]
        C = [sum(1 for xj in x if max(abs(a - b) for a, b in zip(xi, xj)) <= r) / (N - mm + 1.0) for xi in x]
        return sum(math.log(c) for c in C) / (N - mm + 1.0)
    return abs(phi(m + 1) - phi(m))


def counts(u, mm, r):
    x = [u[i:i + mm] for i in range(len(u) - mm + 1)]
    return [sum(1 for xj in x if max(abs(a - b) for a, b in zip(xi, xj)) <= r) for xi in x]


def gen(ctx):
    rng = ctx.rng
    yield dict(kind="ap", u=[0, 1, 2, 3, 0, 1], m=1, r=0, digits=1)
    for _ in range(ctx.n(500, 5000)):
        m = rng.choice([1, 1, 2, 3, 4])
        L = rng.randint(m + 1, 40)
        style = rng.random()
        digits = rng.random() < 0.6
        lo, hi = (0, 9) if digits else rng.choice([(-3, 3), (0, 30), (-100, 100)])
        if style < 0.1:
            u = [rng.randint(lo, hi)] * L
        elif style < 0.3:
            p = [rng.randint(lo, hi) for _ in range(rng.randint(1, 4))]
            u = [p[i % len(p)] for i in range(L)]
        else:
            u = [rng.randint(lo, hi) for _ in range(L)]
        yield dict(kind="ap", u=u, m=m, r=rng.choice([0, 0, 1, 2, 3]), digits=int(digits))
    for _ in range(ctx.n(60, 600)):
        base = rng.choice([10 ** 5, 250000, 3 * 10 ** 6, -10 ** 6, 10 ** 9])
        m = rng.choice([1, 2])
        L = rng.randint(m + 2, 14)
        gap = rng.choice([1, 1, 2])
        yield dict(kind="ap", u=[base + gap * rng.randint(0, 3) for _ in range(L)], m=m, r=rng.choice([0, 0, 1]), digits=0)
    for _ in range(ctx.n(40, 400)):
        m = rng.choice([1, 1, 2, 3])
        L = rng.randint(m + 3, 20)
        yield dict(kind="ap", u=[rng.randint(0, 4) for _ in range(L)], m=m, r=rng.choice([0, 0, 1, 2]), rfrac=rng.choice([0.5, 0.7, 0.25, 0.999]),
                   digits=int(rng.random() < 0.5))
    # whole numbers of mixed printed width: runs are compared as numbers, never as concatenated text ((1, 11) vs (11, 1))
    for _ in range(ctx.n(40, 400)):
        m = rng.choice([1, 1, 2, 3])
        L = rng.randint(m + 3, 18)
        alpha = rng.choice([[1, 11], [1, 11, 111], [0, 1, 10, 11], [2, 22, 12, 21, 1], [-1, 1, 11, -11]])
        yield dict(kind="ap", u=[rng.choice(alpha) for _ in range(L)], m=m, r=rng.choice([0, 0, 1]), digits=0)
    for (L, m) in ([(1100, 3), (2100, 1)] if ctx.tier == "quick" else [(1100, 3), (1500, 2), (2100, 1), (2600, 1), (1300, 4)]):
        # a tail of equal states after a varied head: the match counts of early and late windows differ a lot
        head = [rng.randrange(5) for _ in range(L - L // 8)]
        yield dict(kind="ap", u=head + [0] * (L // 8), m=m, r=rng.choice([0, 1]), digits=0, big=1, long=1)
    for L in ([130, 300] if ctx.tier == "quick" else [127, 128, 129, 130, 257, 300, 600]):
        m = rng.choice([1, 2, 3])
        yield dict(kind="ap", u=[rng.randint(0, 3) for _ in range(L)], m=m, r=rng.choice([0, 1]), digits=1, long=1)
    for bad in ("tuple", "int", "none", "range"):
        yield dict(kind="bad", form=bad)


def line(c):
    if c["kind"] == "bad" or c.get("long"):
        return None
    return "apen u=%s m=%d r=%d" % (fmt.vec(c["u"]), c["m"], c["r"])


def call(c, form):
    import cellpylib as cpl
    u = c["u"]
    if form == "str":
        seq = "".join(str(x) for x in u)
    elif form == "list":
        seq = list(u)
    elif form == "array":
        seq = np.array(u)
    elif form == "column":            # a column of a 2-D evolution array (non-contiguous view)
        seq = np.array([[x, 7 - x, 3] for x in u])[:, 0]
    elif form == "strided":           # every other element of a longer buffer
        buf = np.zeros(2 * len(u), dtype=np.int64)
        buf[::2] = u
        buf[1::2] = 99
        seq = buf[::2]
    elif form == "reversed":          # negative stride
        seq = np.array(u[::-1])[::-1]
    elif form == "f64column":         # whole numbers held in a float array (a column of a float evolution)
        seq = np.array([[x, 7 - x, 3] for x in u], dtype=np.float64)[:, 0]
    elif form == "f64strided":
        buf = np.full(2 * len(u), 99.0)
        buf[::2] = u
        seq = buf[::2]
    elif form == "f32":
        seq = np.array(u, dtype=np.float32)
    elif form in ("refill", "refill_f64"):
        # a buffer the caller reuses: analysed once holding other data, refilled in place, analysed again
        seq = np.array([(3 * x + i) % 4 for i, x in enumerate(u)], dtype=np.int64 if form == "refill" else np.float64)
        rr = c["r"] + c["rfrac"] if c.get("rfrac") else c["r"]
        cpl.apen(seq, m=c["m"], r=rr)
        seq[:] = u
    else:                             # a narrow dtype
        seq = np.array(u, dtype=form)
    if form in ("list", "array") and all(x >= 0 for x in u) and any(x >= 10 for x in u):
        # the digit string that these states happen to print as was analysed just before (a different sequence)
        try:
            cpl.apen("".join(str(x) for x in u), m=c["m"], r=c["r"] + c["rfrac"] if c.get("rfrac") else c["r"])
        except Exception:  # noqa
            pass
    # a filtering level need not be whole: distances of whole numbers are within r + f exactly when they are within r (0 <= f < 1)
    return float(cpl.apen(seq, m=c["m"], r=c["r"] + c["rfrac"] if c.get("rfrac") else c["r"]))


def ref_apen_big(u, m, r):
    """The same definition with the match counts obtained by NumPy broadcasting in row chunks (exact integers)."""
    a = np.array(u, dtype=np.int64)
    N = len(u)

    def phi(mm):
        n = N - mm + 1
        w = np.stack([a[i:i + n] for i in range(mm)], axis=1)          # n windows of length mm
        cnt = []
        for s0 in range(0, n, 256):
            d = np.abs(w[s0:s0 + 256, None, :] - w[None, :, :]).max(axis=2)
            cnt += (d <= r).sum(axis=1).tolist()
        return sum(math.log(c / float(n)) for c in cnt) / float(n)
    return abs(phi(m + 1) - phi(m))


def impl(c):
    import cellpylib as cpl
    if c.get("big"):
        return "ok big"
    if c["kind"] == "bad":
        seq = {"tuple": (0, 1, 0), "int": 5, "none": None, "range": range(4)}[c["form"]]
        try:
            cpl.apen(seq)
            return "ok accepted"
        except Exception as e:  # noqa
            return fmt.err(e)
    try:
        v = call(c, "list")
    except Exception as e:  # noqa
        return fmt.err(e)
    return "ok f=%d counts=%s|%s" % (fl.float_to_bits(v), fmt.vec(counts(c["u"], c["m"], c["r"])),
                                     fmt.vec(counts(c["u"], c["m"] + 1, c["r"])))


def compare(c, a, b):
    return fl.compare(a, b)


def oracle(c):
    import cellpylib as cpl
    if c["kind"] == "bad":
        a = impl(c)
        return None if a == "err TypeError" else "unsupported sequence type %s: %s instead of TypeError" % (c["form"], a)
    if c.get("big"):
        try:
            v = call(c, "array" if len(c["u"]) % 2 else "list")
        except Exception as e:
            return "raised %s" % type(e).__name__
        want = ref_apen_big(c["u"], c["m"], c["r"])
        return None if fl.close(v, want) else "apen = %r, |phi(m+1) - phi(m)| = %r (N=%d, m=%d)" % (v, want, len(c["u"]), c["m"])
    try:
        vl = call(c, "list")
        va = call(c, "array")
        vs = call(c, "str") if c["digits"] else vl
        extra = {}
        for form in ("column", "strided", "reversed", "int32", "int16", "f64column", "f64strided", "f32", "refill", "refill_f64"):
            if form == "f32" and not all(abs(x) < 2 ** 24 for x in c["u"]):
                continue
            if "f64" in form and not all(abs(x) < 2 ** 53 for x in c["u"]):
                continue
            if form == "int16" and not all(-30000 <= x <= 30000 for x in c["u"]):
                continue
            if form == "int32" and not all(-2 ** 31 < x < 2 ** 31 for x in c["u"]):
                continue
            extra[form] = call(c, form)
        if all(-100 <= x <= 100 for x in c["u"]):
            extra["int8"] = call(c, "int8")
    except Exception as e:
        return "raised %s" % type(e).__name__
    if not (fl.float_to_bits(vl) == fl.float_to_bits(va) == fl.float_to_bits(vs)):
        return "input forms disagree: list %r array %r string %r" % (vl, va, vs)
    for form, v in extra.items():
        if not fl.close(v, vl, 1e-12):
            return "ndarray given as %s gives %r, the list form gives %r" % (form, v, vl)
    want = ref_apen(c["u"], c["m"], c["r"])
    if not fl.close(vl, want):
        return "apen = %r, |phi(m+1) - phi(m)| = %r" % (vl, want)
    if vl < 0:
        return "apen negative"
    if len(set(c["u"])) == 1 and abs(vl) > 1e-12:
        return "apen of a constant sequence is %r" % vl
    return None


def nontrivial(c, ans):
    return c["kind"] == "ap" and len(c["u"]) >= c["m"] + 3 and len(set(c["u"])) > 1


def shrink(c):
    if c["kind"] == "ap" and len(c["u"]) > c["m"] + 1:
        yield dict(c, u=c["u"][1:])
        yield dict(c, u=c["u"][:-1])
