"""C07 — Wolfram (NKS) binary rule numbering: correspondence + direct oracle."""
import itertools

import numpy as np

from .. import fmt

PROP = "C07"

_NKS_CALLS = [0]


def NKS():
    """The scheme name 'nks', alternately as the source literal and as a string built at run time (read from a config
    file, lower-cased user input, ...): equal strings must select the same numbering."""
    _NKS_CALLS[0] += 1
    if _NKS_CALLS[0] % 2:
        return "nks"
    return "".join(["N", "KS"]).lower() if _NKS_CALLS[0] % 4 == 0 else bytes([110, 107, 115]).decode()

RULE = ("quick: all 256 elementary rules x 8 neighbourhoods x 10 call forms (complete), plus random radii 0..5 with "
        "rule numbers up to 2^(2^(2r+1))-1, conversions with up to 4096-bit numbers and a malformed stream "
        "(rule too large, wrong lengths, non-binary cells with a powers vector). Non-trivial: the answer is a value "
        "(not an error) and the rule number is neither 0 nor all-ones; distinct by full input tuple.")
EXHAUSTIVE = True   # the 256 x 8 elementary table is enumerated completely in every run
TRUSTED = ["np.pad / bin / ndarray.dot as modelled (negative pad width -> ValueError)"]
ASSUMPTIONS = ["dot products are modelled in unbounded integers; windows >= 63 cells would overflow int64 in NumPy (outside the property: r <= 3)"]

FORMS = ["func_nks", "func_default", "nks_rule", "NKSRule", "BinaryRule_nks", "BinaryRule_default",
         "bits_nks", "bits_default", "pow_nks", "pow_default"]


def _bits_of(rule, n):
    return [(rule >> (n - 1 - i)) & 1 for i in range(n)]


def gen(ctx):
    rng = ctx.rng
    # complete elementary table
    for rule in range(256):
        for nb in itertools.product([0, 1], repeat=3):
            for form in FORMS:
                yield dict(kind="br", n=list(nb), rule=rule, form=form)
    # random radii
    for _ in range(ctx.n(1500, 20000)):
        r = rng.choice([0, 1, 2, 2, 3, 3, 4, 5])
        w = 2 * r + 1
        nb = [rng.randint(0, 1) for _ in range(w)]
        nbits = 2 ** w
        style = rng.random()
        if style < 0.5:
            rule = rng.getrandbits(nbits)
        elif style < 0.7:
            rule = (1 << rng.randrange(nbits))         # single bit set
        elif style < 0.8:
            rule = (1 << nbits) - 1 - (1 << rng.randrange(nbits))
        else:
            rule = rng.getrandbits(rng.randint(1, nbits))
        form = rng.choice(FORMS)
        if form.startswith("bits") and w > 9:
            form = "func_nks"
        yield dict(kind="br", n=nb, rule=rule, form=form)
    # conversions
    for _ in range(ctx.n(600, 6000)):
        d = rng.choice([1, 2, 3, 8, 16, 63, 64, 65, 128, 129, 1000, 4096])
        num = rng.getrandbits(rng.randint(0, d))
        yield dict(kind="i2b", num=num, d=d)
        bits = [rng.randint(0, 1) for _ in range(rng.choice([1, 2, 3, 7, 8, 64, 65, 200]))]
        yield dict(kind="b2i", bits=bits)
        yield dict(kind="rt", bits=bits)
    for _ in range(ctx.n(100, 1000)):
        # truthiness: non-binary cells count as 1
        bits = [rng.choice([0, 1, 2, -1, 7]) for _ in range(rng.randint(1, 12))]
        yield dict(kind="b2i", bits=bits)
    # sequences inside one process: the same rule number / table reused at different radii, in both orders
    for _ in range(ctx.n(150, 1500)):
        rule = rng.choice([rng.getrandbits(8), rng.getrandbits(3), rng.getrandbits(30), 1, 30, 110, 254])
        radii = rng.choice([[3, 2, 1], [1, 2, 3], [3, 1], [2, 1, 0], [3, 3, 1, 2], [1, 3, 1]])
        seq = []
        for r in radii:
            w = 2 * r + 1
            for _ in range(rng.randint(1, 3)):
                nb = rng.choice([[1] * w, [0] * w, [rng.randint(0, 1) for _ in range(w)]])
                seq.append(dict(kind="br", n=nb, rule=rule % (1 << (2 ** w)), form=rng.choice(FORMS)))
                seq[-1]["rule"] = rule if rule < (1 << (2 ** w)) else seq[-1]["rule"]
        yield dict(kind="seq", seq=seq)
    # malformed stream
    for _ in range(ctx.n(200, 2000)):
        r = rng.choice([0, 1, 2])
        w = 2 * r + 1
        nb = [rng.randint(0, 1) for _ in range(w)]
        which = rng.randrange(6)
        if which == 0:
            yield dict(kind="br", n=nb, rule=(1 << (2 ** w)) + rng.getrandbits(8), form=rng.choice(FORMS[:6]))
        elif which == 1:
            yield dict(kind="brx", n=nb, rulebits=[rng.randint(0, 1) for _ in range(2 ** w + rng.choice([-1, 1]))],
                       scheme=rng.choice(["nks", "none"]), pow=None)
        elif which == 2:
            yield dict(kind="brx", n=nb, rule=rng.getrandbits(2 ** w), scheme=rng.choice(["nks", "none"]),
                       pow=[1] * (w + 1))
        elif which == 3:
            # non-binary cells with a powers vector: index may wrap negatively or overflow
            nb2 = [rng.randint(0, 2) for _ in range(w)]
            yield dict(kind="brx", n=nb2, rule=rng.getrandbits(2 ** w), scheme=rng.choice(["nks", "none"]),
                       pow=[2 ** (w - 1 - i) for i in range(w)])
        elif which == 4:
            yield dict(kind="i2b", num=rng.getrandbits(9) + 1, d=rng.randint(0, 6))
        else:
            yield dict(kind="i2b", num=0, d=rng.randint(0, 2))


def line(c):
    k = c["kind"]
    if k == "seq":
        return None
    if k == "b2i":
        return "bits_to_int bits=" + fmt.vec(c["bits"])
    if k == "rt":
        return None
    if k == "i2b":
        return "int_to_bits num=%d d=%d" % (c["num"], c["d"])
    if k == "br":
        n, rule, form = c["n"], c["rule"], c["form"]
        w = len(n)
        scheme = "nks" if form in ("func_nks", "nks_rule", "NKSRule", "BinaryRule_nks", "bits_nks", "pow_nks") else "none"
        if form in ("nks_rule", "NKSRule"):
            return "nks_rule n=%s rule=%d" % (fmt.vec(n), rule)
        if form.startswith("bits"):
            if rule >= 1 << (2 ** w):
                return None
            return "binary_rule n=%s rulebits=%s scheme=%s" % (fmt.vec(n), fmt.vec(_bits_of(rule, 2 ** w)), scheme)
        if form.startswith("pow"):
            return "binary_rule n=%s rule=%d scheme=%s pow=%s" % (
                fmt.vec(n), rule, scheme, fmt.vec([2 ** (w - 1 - i) for i in range(w)]))
        return "binary_rule n=%s rule=%d scheme=%s" % (fmt.vec(n), rule, scheme)
    if k == "brx":
        s = "binary_rule n=%s scheme=%s" % (fmt.vec(c["n"]), c["scheme"])
        if "rulebits" in c:
            s += " rulebits=" + fmt.vec(c["rulebits"])
        else:
            s += " rule=%d" % c["rule"]
        if c.get("pow") is not None:
            s += " pow=" + fmt.vec(c["pow"])
        return s
    raise ValueError(k)


def _call(c):
    import cellpylib as cpl
    k = c["kind"]
    if k == "b2i":
        form = ["list", "int64", "uint64", "float64", "bool", "uint8", "int8", "tuple"][(len(c["bits"]) + sum(1 for b in c["bits"] if b)) % 8]
        bits = c["bits"]
        if form == "tuple":
            arg = tuple(bits)
        elif form == "list" or any(b not in (0, 1) for b in bits):
            arg = list(bits)
        else:
            arg = np.array(bits, dtype=form)
        return int(cpl.bits_to_int(arg))
    if k == "i2b":
        num = c["num"]
        if (num + c["d"]) % 3 == 1 and 0 <= num < 2 ** 63:
            num = np.int64(num)
        return [int(x) for x in cpl.int_to_bits(num, c["d"])]
    if k == "br":
        variant = (sum(c["n"]) + len(c["n"]) + c["rule"]) % 5
        if variant == 1:
            n = np.array(c["n"], dtype=np.uint8)
        elif variant == 2:
            n = np.array(c["n"], dtype=np.int8)
        elif variant == 3:                      # a non-contiguous view
            buf = np.zeros(2 * len(c["n"]), dtype=np.int64)
            buf[::2] = c["n"]
            n = buf[::2]
        elif variant == 4:
            n = np.array(c["n"], dtype=bool)
        else:
            n = np.array(c["n"])
        rule, form = c["rule"], c["form"]
        w = len(c["n"])
        # the rule number as the caller happens to hold it: a Python int, or a NumPy integer scalar (an element of
        # np.arange(256), a value read from an integer array) when it fits
        pick = (rule + 3 * sum(c["n"]) + w) % 4
        if form not in ("bits_nks", "bits_default"):
            if pick == 1 and rule < 2 ** 63:
                rule = np.int64(rule)
            elif pick == 2 and rule < 256:
                rule = np.uint8(rule)
            elif pick == 3 and rule < 2 ** 31:
                rule = np.int32(rule)
        if form == "func_nks":
            return int(cpl.binary_rule(n, rule, scheme=NKS()))
        if form == "func_default":
            return int(cpl.binary_rule(n, rule))
        if form == "nks_rule":
            return int(cpl.nks_rule(n, rule))
        if form == "NKSRule":
            return int(cpl.NKSRule(rule)(n, 3, 5))
        if form == "BinaryRule_nks":
            return int(cpl.BinaryRule(rule, scheme=NKS())(n, 3, 5))
        if form == "BinaryRule_default":
            return int(cpl.BinaryRule(rule)(n, 3, 5))
        if form in ("bits_nks", "bits_default"):
            bits = _bits_of(rule, 2 ** w)
            arr = bits if (rule % 2 == 0) else np.array(bits)     # both list and ndarray forms
            return int(cpl.binary_rule(n, arr, scheme=NKS() if form == "bits_nks" else None))
        if form in ("pow_nks", "pow_default"):
            p = [2 ** (w - 1 - i) for i in range(w)]            # the docstring's own form is a plain list
            p = [p, tuple(p), np.array(p), np.array(p)][(int(rule) + w) % 4]
            if rule % 2 == 0:
                return int(cpl.binary_rule(n, rule, scheme=NKS() if form == "pow_nks" else None, powers_of_two=p))
            return int(cpl.BinaryRule(rule, scheme=NKS() if form == "pow_nks" else None, powers_of_two=p)(n, 0, 1))
    if k == "brx":
        n = np.array(c["n"])
        rule = c["rulebits"] if "rulebits" in c else c["rule"]
        p = None if c.get("pow") is None else [list(c["pow"]), np.array(c["pow"]), tuple(c["pow"])][len(c["pow"]) % 3]
        return int(cpl.binary_rule(n, rule, scheme=(NKS() if c["scheme"] == "nks" else None), powers_of_two=p))
    raise ValueError(k)


def impl(c):
    if c["kind"] == "rt":
        return "n/a"
    if c["kind"] == "seq":
        return "|".join(impl(x) for x in c["seq"])
    try:
        v = _call(c)
    except Exception as e:  # noqa
        return fmt.err(e)
    if isinstance(v, list):
        return "ok " + fmt.vec(v)
    return "ok %d" % v


def oracle(c):
    """The property evaluated on the implementation alone, against place-value arithmetic."""
    import cellpylib as cpl
    k = c["kind"]
    if k == "seq":
        for i, x in enumerate(c["seq"]):
            bad = oracle(x)
            if bad:
                return "call %d of a sequence in one process: %s" % (i, bad)
        return None
    if k == "b2i":
        want = sum((1 if b else 0) << (len(c["bits"]) - 1 - i) for i, b in enumerate(c["bits"]))
        got = cpl.bits_to_int(c["bits"])
        return None if got == want else "bits_to_int(%s) = %s, big-endian value is %s" % (c["bits"], got, want)
    if k == "rt":
        bits = c["bits"]
        back = [int(x) for x in cpl.int_to_bits(cpl.bits_to_int(bits), len(bits))]
        return None if back == bits else "int_to_bits(bits_to_int(b), len b) != b for b=%s: %s" % (bits, back)
    if k == "i2b":
        num, d = c["num"], c["d"]
        if d >= 1 and num < 2 ** d:
            try:
                got = [int(x) for x in cpl.int_to_bits(num, d)]
            except Exception as e:
                return "int_to_bits(%d, %d) raised %s" % (num, d, type(e).__name__)
            want = [(num >> (d - 1 - i)) & 1 for i in range(d)]
            if got != want:
                return "int_to_bits(%d, %d) = %s, expected %s" % (num, d, got, want)
            if cpl.bits_to_int(got) != num:
                return "bits_to_int(int_to_bits(%d, %d)) != %d" % (num, d, num)
        return None
    if k == "br":
        n, rule, form = c["n"], c["rule"], c["form"]
        w = len(n)
        if rule >= 1 << (2 ** w):
            return None  # out of range: only the error kind is compared (correspondence)
        v = int("".join(str(b) for b in n), 2)
        nks = form in ("func_nks", "nks_rule", "NKSRule", "BinaryRule_nks", "bits_nks", "pow_nks")
        want = (rule >> v) & 1 if nks else (rule >> (2 ** w - 1 - v)) & 1
        try:
            got = _call(c)
        except Exception as e:
            return "%s on n=%s rule=%d raised %s" % (form, n, rule, type(e).__name__)
        return None if got == want else "%s(n=%s, rule=%d) = %s, rule bit says %s" % (form, n, rule, got, want)
    return None


def nontrivial(c, ans):
    if c["kind"] == "seq":
        return True
    if c["kind"] == "br":
        w = len(c["n"])
        return ans.startswith("ok") and 0 < c["rule"] < (1 << (2 ** w)) - 1
    return ans.startswith("ok")


def shrink(c):
    if c["kind"] == "seq":
        for i in range(len(c["seq"])):
            if len(c["seq"]) > 1:
                yield dict(c, seq=c["seq"][:i] + c["seq"][i + 1:])
        return
    if c["kind"] == "br" and len(c["n"]) > 1:
        w = len(c["n"]) - 2
        if w >= 1:
            yield dict(c, n=c["n"][1:-1], rule=c["rule"] % (1 << (2 ** w)))
    if c["kind"] == "br":
        yield dict(c, rule=c["rule"] // 2)
    if c["kind"] in ("b2i", "rt") and len(c["bits"]) > 1:
        yield dict(c, bits=c["bits"][1:])
        yield dict(c, bits=c["bits"][:-1])
    if c["kind"] == "i2b":
        if c["d"] > 1:
            yield dict(c, d=c["d"] // 2, num=c["num"] % (1 << (c["d"] // 2)))
        yield dict(c, num=c["num"] // 2)
