"""C20 — Hopfield network: Hebbian weights and energy descent."""
import numpy as np

from .. import fmt
from .c12 import FakeShuffle, fake_perm

PROP = "C20"
RULE = ("cases: odd sizes N in 3..13, 1-4 bipolar patterns, random bipolar initial states (and the stored pattern / its "
        "negation), T up to 3N, the random update order produced by a recording shuffle oracle. Non-trivial: N>=5, at "
        "least one cell flips during the run, >=2 patterns or a noisy start.")
TRUSTED = ["np.random.shuffle replaced by a seeded recording permutation", "W is int32 in the implementation; the model is unbounded (no overflow for the generated sizes)"]
ASSUMPTIONS = ["odd N >= 3 (N = 1 gives r = 0, which evolve rejects)"]


def gen(ctx):
    rng = ctx.rng
    for _ in range(ctx.n(300, 3000)):
        N = rng.choice([3, 5, 5, 7, 7, 9, 11, 13])
        P = [[rng.choice([-1, 1]) for _ in range(N)] for _ in range(rng.randint(1, 4))]
        style = rng.random()
        if style < 0.15:
            init = list(P[0])
        elif style < 0.3:
            init = [-x for x in P[0]]
        elif style < 0.6:
            init = list(P[0])
            for _ in range(rng.randint(1, max(1, N // 3))):
                init[rng.randrange(N)] *= -1
        else:
            init = [rng.choice([-1, 1]) for _ in range(N)]
        c = dict(kind="hop", P=P, init=init, T=rng.randint(1, 3 * N), seed=rng.randrange(10 ** 6),
                 pdtype=rng.choice(["int64", "int8", "int16", "int32", "list"]), sdtype=rng.choice(["int32", "int8", "int64", "int16", "float64", "float32"]))     # bipolar states may be -1.0 / +1.0
        if rng.random() < 0.3:
            # the net was trained on other patterns before: train() SETS the weights, it does not accumulate
            c["pre"] = [[rng.choice([-1, 1]) for _ in range(N)] for _ in range(rng.randint(1, 3))]
            if rng.random() < 0.5:
                c["pre2"] = [[rng.choice([-1, 1]) for _ in range(N)] for _ in range(rng.randint(1, 3))]
        if rng.random() < 0.3:
            c["scribble"] = 1
        if rng.random() < 0.25:
            c["rival"] = [[rng.choice([-1, 1]) for _ in range(N)] for _ in range(rng.randint(1, 3))]
        yield c
    for N in ([129, 131] if ctx.tier == "quick" else [129, 131, 255, 257, 301]):
        # sizes at which N-1 no longer fits an int8 / the weighted input of a stored pattern is +-(N-1)
        p = [rng.choice([-1, 1]) for _ in range(N)]
        for start in (p, [-x for x in p]):
            for dts in (("int8", "int8"), ("int64", "int32"), ("int16", "int8")):
                yield dict(kind="hop", P=[p], init=list(start), T=N // 4, seed=rng.randrange(10 ** 6), pdtype=dts[0], sdtype=dts[1])
    # a weighted input of exactly 0 (the rule answers +1 there), reached late in the window: the contributions of the first
    # cells add up to -k and the last k cells contribute +1 each; wide nets (more cells than any summation block)
    for N in ([67, 131] if ctx.tier == "quick" else [65, 67, 69, 129, 131, 257]):
        for k in (1, 2, 3, 4):
            seed = rng.randrange(10 ** 6)
            order = fake_perm(seed, 0, list(range(N)))
            c0, r = order[0], N // 2
            window = [(c0 - r + j) % N for j in range(r)] + [(c0 + j + 1) % N for j in range(r)]       # the order _rule sums in
            head = [1] * ((N - 1 - k - k) // 2) + [-1] * ((N - 1 - k + k) // 2)
            rng.shuffle(head)
            contrib = head + [1] * k
            pat = [rng.choice([-1, 1]) for _ in range(N)]
            init = [0] * N
            for cell, v in zip(window, contrib):
                init[cell] = v * pat[c0] * pat[cell]
            init[c0] = -1
            yield dict(kind="hop", P=[pat], init=init, T=2, seed=seed, pdtype="int64", sdtype=rng.choice(["int32", "int64"]))
    for _ in range(ctx.n(100, 1000)):
        N = rng.choice([1, 2, 3, 4, 5, 8, 9])
        c = dict(kind="train", P=[[rng.choice([-1, 1]) for _ in range(N)] for _ in range(rng.randint(1, 5))])
        if rng.random() < 0.4:
            c["pre"] = [[rng.choice([-1, 1]) for _ in range(N)] for _ in range(rng.randint(1, 3))]
        if rng.random() < 0.4:
            c["scribble"] = 1
            c["aslist"] = int(rng.random() < 0.5)
        yield c


def order_of(c):
    return fake_perm(c["seed"], 0, list(range(len(c["init"]))))


def line(c):
    if c["kind"] == "train":
        return "hopfield_train P=" + fmt.mat(c["P"])
    if len(c["init"]) > 40:
        return None          # large nets: oracle only (the list-based model is cubic here)
    return "hopfield hist=%s P=%s order=%s T=%d" % (fmt.mat([c["init"]]), fmt.mat(c["P"]), fmt.vec(order_of(c)), c["T"])


def run(c):
    import cellpylib as cpl
    if c["kind"] == "train":
        net = cpl.HopfieldNet(len(c["P"][0]))
        if c.get("pre"):
            net.train(np.array(c["pre"]))
        Parg = np.array(c["P"]) if not c.get("aslist") else [list(p) for p in c["P"]]
        net.train(Parg)
        if c.get("scribble"):
            for p in Parg:
                for i in range(len(p)):
                    p[i] = -p[i] if i % 2 else p[i]
        return net, None, None
    saved = np.random.shuffle
    fs = FakeShuffle(c["seed"])
    np.random.shuffle = fs
    try:
        N = len(c["init"])
        net = cpl.HopfieldNet(N)
        pd = c.get("pdtype", "int64")
        if c.get("pre"):
            net.train(np.array(c["pre"]))
            if c.get("pre2"):
                # the net recalled with those weights (one full sweep: the update order is back at its start), was retrained,
                # and is retrained once more below without having been used in between: only the last training counts
                cpl.evolve(np.array([[1 if i % 3 else -1 for i in range(N)]]), timesteps=N + 1, apply_rule=net.apply_rule, r=net.r)
                net.train(np.array(c["pre2"]))
        Parg = [list(p) for p in c["P"]] if pd == "list" else np.array(c["P"], dtype=pd)
        net.train(Parg)
        if c.get("scribble"):
            # the caller reuses its pattern container (e.g. to build a noisy probe): the net learned what it was GIVEN
            for p in Parg:
                for i in range(len(p)):
                    p[i] = -p[i] if i % 2 else p[i]
        if c.get("rival"):
            # a second net of the same size, trained on other patterns and run before this one evolves: each net
            # recalls with ITS OWN weights (its shuffles come from another stream, so the schedule of `net` is unchanged)
            np.random.shuffle = FakeShuffle(c["seed"] + 17)
            other = cpl.HopfieldNet(N)
            other.train(np.array(c["rival"]))
            cpl.evolve(np.array([[1 if (i * 7 + c["seed"]) % 3 else -1 for i in range(N)]]), timesteps=N + 2, apply_rule=other.apply_rule, r=other.r)
            np.random.shuffle = fs
        ca = np.array([c["init"]], dtype=c.get("sdtype", "int32"))
        res = cpl.evolve(ca, timesteps=c["T"], apply_rule=net.apply_rule, r=net.r)
        return net, res, fs
    finally:
        np.random.shuffle = saved


def impl(c):
    try:
        net, res, fs = run(c)
    except Exception as e:  # noqa
        return fmt.err(e)
    if c["kind"] == "train":
        return "ok " + fmt.mat(net.W.tolist())
    return "ok rows=" + fmt.mat(np.rint(np.asarray(res, dtype=np.float64)).astype(np.int64).tolist())


def oracle(c):
    try:
        net, res, fs = run(c)
    except Exception as e:
        return "raised %s: %s" % (type(e).__name__, str(e)[:80])
    P = np.array(c["P"], dtype=np.int64)
    W = sum(np.outer(p, p) for p in P)
    np.fill_diagonal(W, 0)
    if not np.array_equal(np.array(net.W, dtype=np.int64), W):
        return "weights are not the sum of outer products with a zero diagonal"
    if c["kind"] == "train":
        return None
    if fs.out[0] != order_of(c):
        return "harness: shuffle oracle out of sync"
    rows = np.array(res, dtype=np.int64)
    order = fs.out[0]
    N = rows.shape[1]
    if net.r != N // 2:
        return "radius is not N//2"
    energy = [-0.5 * float(s @ W @ s) for s in rows]
    for t in range(1, len(rows)):
        prev, cur = rows[t - 1], rows[t]
        diff = np.nonzero(prev != cur)[0].tolist()
        cell = order[(t - 1) % N]
        if any(d != cell for d in diff):
            return "step %d changed cells %s, scheduled cell is %d" % (t, diff, cell)
        field = int(W[:, cell] @ prev)          # W[c,c] = 0: input from all other cells
        want = 1 if field >= 0 else -1
        if cur[cell] != want:
            return "step %d: cell %d set to %d, weighted input %d" % (t, cell, cur[cell], field)
        if energy[t] > energy[t - 1] + 1e-9:
            return "energy increased at step %d (%s -> %s)" % (t, energy[t - 1], energy[t])
    if len(c["P"]) == 1 and (c["init"] == c["P"][0] or c["init"] == [-x for x in c["P"][0]]):
        if not all(np.array_equal(r, rows[0]) for r in rows):
            return "a single stored pattern (or its negation) is not a fixed point"
    return None


def nontrivial(c, ans):
    if c["kind"] == "train":
        return len(c["P"][0]) >= 3
    if not ans.startswith("ok"):
        return False
    rows = ans.split("rows=")[1].split(";")
    return len(c["init"]) >= 5 and len(set(rows)) > 1


def shrink(c):
    if c["kind"] == "hop":
        if c["T"] > 2:
            yield dict(c, T=c["T"] - 1)
        if len(c["P"]) > 1:
            yield dict(c, P=c["P"][1:])
