"""C01 — 1D evolution is the synchronous update of a ring: correspondence + direct oracle."""
import itertools

import numpy as np

from .. import ev1, fmt

PROP = "C01"
RULE = ("cases: ring sizes N in 1..14 (biased to N <= 2r+1 and r in {1,2,N-1,N}), radii 1..N, T in 1..7, history "
        "lengths 1..3, dtypes int8/int32/int64/uint8/float32/float64 (float states are multiples of 0.25), alphabets up "
        "to 5 symbols incl. negatives, rules hash (pure) / probe (index- and time-dependent) / counter (stateful), "
        "fixed and callable timesteps, memoize=False; thorough adds all binary states for N<=6, r<=N, T=3. "
        "Non-trivial: N>=2, non-constant start row, at least one new row; distinct by full input tuple.")
TRUSTED = ["as_strided / fancy indexing / concatenate as modelled by indexStrides + gather",
           "dtype cast on assignment is the identity for the generated (in-range, exactly representable) values"]
ASSUMPTIONS = ["NaN and -0.0 states are not generated", "values stay inside the dtype's range (overflow is outside the property)"]

DTYPES = ["int32", "int64", "int8", "uint8", "float64", "float32"]


def rand_rule(rng, dtype, kinds=("hash", "probe", "counter")):
    kind = rng.choice([x for x in kinds if x != "half"])
    k = rng.randint(2, 5)
    signed = dtype in ("int32", "int64", "int8", "float64", "float32")
    off = rng.choice([0, 0, -1, -2]) if signed else 0
    if kind == "hash" and "half" in kinds and rng.random() < 0.3:
        # a result that the automaton's dtype cannot hold exactly (integer dtypes): must be cast on every step
        return "half:%d:%d:%d:%d:%d" % (k, rng.choice([2, 3, 5]), rng.randint(0, 3), off, 2 if dtype.startswith("float") else 0), k, off
    if kind == "counter":
        return "counter:%d:%d" % (k, off), k, off
    return "%s:%d:%d:%d:%d" % (kind, k, rng.choice([2, 3, 5]), rng.randint(0, 3), off), k, off


def rand_case(rng, kinds=("hash", "probe", "counter"), maxN=14, memo="False"):
    dtype = rng.choice(DTYPES)
    N = rng.choice([1, 2, 3, 3, 4, 5, 5, 6, 7, 8, 9, 11, 12, 13, 14][:maxN + 1])
    choices = [1, 1, 2, N, max(1, N - 1), rng.randint(1, N), max(1, (N - 1) // 2), max(1, N // 2)]
    r = min(N, rng.choice(choices))
    rule, k, off = rand_rule(rng, dtype, kinds)
    kinds = tuple(x for x in kinds if x != "half")
    H = rng.choice([1, 1, 2, 3])
    style = rng.random()
    hist = []
    for _ in range(H):
        if style < 0.15:
            row = [off + rng.randrange(k)] * N
        elif style < 0.3:
            p = [off + rng.randrange(k) for _ in range(rng.randint(1, 3))]
            row = [p[i % len(p)] for i in range(N)]
        else:
            row = [off + rng.randrange(k) for _ in range(N)]
        hist.append(row)
    c = dict(kind="ev1", hist=hist, dtype=dtype, scale=4 if dtype.startswith("float") else 1, r=r, rule=rule, memo=memo)
    if rng.random() < 0.3:
        c["pred"] = "steps:%d" % rng.randint(1, 5)   # zero-step runs belong to C06
    else:
        c["T"] = rng.randint(1, 7)
    if rng.random() < 0.25:
        c["layout"] = rng.choice(["F", "rev", "str"])
    from .c03 import decorate
    decorate(rng, c)
    return c


def gen(ctx):
    rng = ctx.rng
    # boundary corpus: window wraps twice (N=r), N<=2r, N=1
    for N, r in [(1, 1), (2, 1), (2, 2), (3, 3), (3, 2), (4, 2), (5, 2), (4, 4), (5, 4), (7, 3)]:
        for rule in ("hash:3:2:1:0", "probe:4:3:0:0", "counter:3:0"):
            yield dict(kind="ev1", hist=[[(i * i + 1) % 3 for i in range(N)]], dtype="int32", scale=1, r=r,
                       rule=rule, T=4, memo="False")
    for _ in range(ctx.n(30, 300)):
        yield dict(kind="szero", N=rng.randint(3, 8), T=rng.randint(3, 7), memo=rng.choice(["True", "recursive_lit"]), dyn=int(rng.random() < 0.3),
                   seed=rng.randrange(10 ** 6))
    # arithmetic on the cell index as handed to the rule (exact on Python ints; a fixed-width NumPy integer would wrap)
    for N in ([70, 96] if ctx.tier == "quick" else [64, 65, 70, 96, 130]):
        for dyn in (0, 1):
            c = dict(kind="ev1", hist=[[rng.randrange(3) for _ in range(N)]], dtype=rng.choice(["int32", "int64"]), scale=1, r=rng.choice([1, 2]),
                     rule="shiftc:3:0", memo="False")       # depends on c: not memoizable
            if dyn:
                c["pred"] = "steps:2"
                c["fuel"] = 8
            else:
                c["T"] = 3
            yield c
    # long runs with a callable timesteps: growth thresholds of any internal buffer (32, 64, 128, 256 states)
    for K in ([33, 70, 130] if ctx.tier == "quick" else [31, 32, 33, 63, 64, 65, 70, 127, 128, 129, 130, 257]):
        for H in (1, 3):
            N = rng.randint(3, 6)
            yield dict(kind="ev1", hist=[[rng.randrange(3) for _ in range(N)] for _ in range(H)], dtype=rng.choice(["int32", "uint8", "float64"]),
                       scale=1, r=1, rule=rng.choice(["hash:3:2:1:0", "probe:3:2:1:0", "counter:3:0"]), pred="steps:%d" % K, memo="False", fuel=K + 5)
    for _ in range(ctx.n(700, 8000)):
        c = rand_case(rng, kinds=("hash", "probe", "counter", "half"))
        if rng.random() < 0.2:
            c["clobber"] = 1          # the rule overwrites the neighbourhood array it was handed
        yield c
    if ctx.tier == "thorough":
        for N in range(1, 7):
            for r in range(1, N + 1):
                for state in itertools.product([0, 1], repeat=N):
                    for rule in ("hash:2:3:1:0", "probe:2:3:0:0", "counter:2:0"):
                        yield dict(kind="ev1", hist=[list(state)], dtype="int32", scale=1, r=r, rule=rule, T=3,
                                   memo="False")
        for _ in range(300):
            N = rng.randint(15, 64)
            c = rand_case(rng)
            c["hist"] = [[rng.randrange(3) for _ in range(N)]]
            c["dtype"], c["scale"] = "int32", 1
            c["rule"] = rng.choice(["hash:3:2:1:0", "probe:3:5:1:0", "counter:3:0"])
            c["r"] = rng.choice([1, 2, 3, N // 2, N - 1, N])
            yield c
    # large rings: N*(2r+1) beyond typical chunk / buffer thresholds (2^16, 2^20 elements), cell-dependent rule
    big = [(1500, 400)] if ctx.tier == "quick" else [(1500, 400), (2100, 260), (70000, 1), (40000, 14), (5000, 110)]
    for (N, r) in big:
        # (oracle only: the list-based Lean model is quadratic in N; the independent modular reference decides)
        yield dict(kind="ev1", big=1, hist=[[(i * 7 + (i // 3)) % 3 for i in range(N)]], dtype="int64", scale=1, r=r,
                   rule="probe:3:2:1:0", T=3, memo="False")
        yield dict(kind="ev1", big=1, hist=[[(i * 5 + (i // 7)) % 3 for i in range(N)]], dtype="int32", scale=1, r=r,
                   rule="probe:3:2:1:0", pred="steps:2", memo="False")
    # the strided index table itself
    for N in range(1, ctx.n(12, 40)):
        for r in range(1, N + 1):
            yield dict(kind="strides", N=N, r=r)


def line(c):
    if c["kind"] == "szero":
        return None
    if c["kind"] == "strides":
        return "index_strides N=%d r=%d" % (c["N"], c["r"])
    if c.get("big"):
        return None
    return ev1.line(c)


def impl(c):
    if c["kind"] == "szero":
        return "n/a"
    if c["kind"] == "strides":
        import cellpylib.ca_functions as cf
        return "ok " + fmt.mat(cf._index_strides(np.arange(c["N"]), 2 * c["r"] + 1).tolist())
    run = ev1.run_impl(c)
    if c.get("big"):
        return fmt.err(run.exc) if run.exc is not None else "ok big rows=%d" % len(run.res)
    return ev1.answer(c, run)


def oracle(c):
    if c["kind"] == "szero":
        # memoized evolution of a pure, sign-of-zero-sensitive rule on a float automaton holding +0.0 and -0.0:
        # every appended row is still the synchronous update (bitwise the unmemoized one)
        from . import c03
        return c03.oracle(c)
    if c["kind"] == "strides":
        import cellpylib.ca_functions as cf
        N, r = c["N"], c["r"]
        got = cf._index_strides(np.arange(N), 2 * r + 1).tolist()
        want = [[(cell - r + j) % N for j in range(2 * r + 1)] for cell in range(N)]
        return None if got == want else "index windows for N=%d r=%d are %s, ring windows are %s" % (N, r, got, want)
    run = ev1.run_impl(c)
    if run.exc is not None:
        return "evolve raised %s: %s" % (type(run.exc).__name__, str(run.exc)[:100])
    steps = c["T"] - 1 if "T" in c else int(c["pred"].split(":")[1])
    rows, log = ev1.ref_evolve(c, steps)
    got = ev1.scaled_rows(run.res, c)
    if got != rows:
        return "rows differ from the synchronous ring update: got %s expected %s" % (got, rows)
    if [(v, cc, t) for (v, s, cc, t) in run.rule.log] != [(v, cc, t) for (v, s, cc, t) in log]:
        return "rule calls (n, c, t) differ from once-per-cell ascending order: got %d calls, expected %d" % (len(run.rule.log), len(log))
    if run.res.dtype != np.dtype(c["dtype"]):
        return "result dtype %s differs from the automaton's %s" % (run.res.dtype, c["dtype"])
    if not run.input_intact:
        return "the caller's array was modified"
    return None


def nontrivial(c, ans):
    if c["kind"] == "szero":
        return True
    if c["kind"] == "strides":
        return c["N"] >= 2
    last = c["hist"][-1]
    new_rows = (c["T"] - 1) if "T" in c else int(c["pred"].split(":")[1])
    return len(last) >= 2 and len(set(last)) > 1 and new_rows >= 1 and ans.startswith("ok")


def shrink(c):
    if c["kind"] != "ev1":
        return
    N0 = len(c["hist"][-1])
    if N0 > 64:
        # large rings: halve / trim the ring (keeping r <= N), reduce the radius
        for newN in (N0 // 2, N0 - N0 // 8, N0 - 1):
            if newN >= 1:
                yield dict(c, hist=[row[:newN] for row in c["hist"]], r=min(c["r"], newN))
        if c["r"] > 1:
            yield dict(c, r=c["r"] // 2)
            yield dict(c, r=c["r"] - 1)
        if "T" in c and c["T"] > 2:
            yield dict(c, T=c["T"] - 1)
        return
    if len(c["hist"]) > 1:
        yield dict(c, hist=c["hist"][1:])
    if "T" in c and c["T"] > 2:
        yield dict(c, T=c["T"] - 1)
    N = len(c["hist"][-1])
    if N > 1:
        for cut in (0, N - 1):
            h = [row[:cut] + row[cut + 1:] for row in c["hist"]]
            yield dict(c, hist=h, r=min(c["r"], N - 1))
    if c["r"] > 1:
        yield dict(c, r=c["r"] - 1)
    for i in range(N):
        if c["hist"][-1][i] != 0 and c["dtype"] != "uint8":
            h = [list(row) for row in c["hist"]]
            h[-1][i] = 0
            yield dict(c, hist=h)
