"""2D part of C05: evolve2d extends the history, split law."""
import numpy as np

from .. import ev2, fmt
from ..dsl import Rule
from . import c04


def ev1_nested(c, ca):
    from ..ev1 import nested_of
    return nested_of(c, ca)


def gen(ctx):
    rng = ctx.rng
    for _ in range(ctx.n(200, 2000)):
        c = c04.rand_case(rng, memos=["False", "True", "recursive_lit"], maxdim=5)
        c.pop("pred", None)
        H = rng.randint(1, 3)
        while len(c["hist"]) < H:
            c["hist"].insert(0, [row[::-1] for row in c["hist"][-1]])
        c["hist"] = c["hist"][-H:]
        if rng.random() < 0.25:
            c["rule"] = "counter:3:0"
            c["memo"] = "False"
            c["hist"] = [[[abs(x) % 3 for x in row] for row in g] for g in c["hist"]]
        T1 = rng.randint(1, 4)
        c["T"] = T1
        c["T2"] = rng.randint(1, 5 - T1 + 1)
        yield c


def line(c):
    return ev2.line(c)


def impl(c):
    return ev2.strip_calls(ev2.answer(c, ev2.run_impl(c)))


def oracle(c):
    import cellpylib as cpl
    T1, T2 = c["T"], c["T2"]
    ca = ev2.make_ca(c)
    snap = (ca.tobytes(), ca.dtype, ca.shape)
    memo = ev2.memo_value(c["memo"])
    nb = ev2.NB[c["nb"]]
    rule = Rule(c["rule"], c.get("scale", 1), clobber=bool(c.get("clobber")), mixret=c.get("mixret") or False, nested=ev1_nested(c, ev2.make_ca(c)))
    first = cpl.evolve2d(ca, timesteps=T1, apply_rule=rule, r=c["r"], neighbourhood=nb, memoize=memo)
    if (ca.tobytes(), ca.dtype, ca.shape) != snap:
        return "the caller's array was modified by evolve2d"
    H = len(c["hist"])
    if first.dtype != ca.dtype or first.shape != (H + T1 - 1,) + ca.shape[1:]:
        return "result dtype/shape wrong"
    if first[:H].tobytes() != ca.tobytes():
        return "given grids are not returned unchanged and in order"
    if np.shares_memory(first, ca):
        return "result shares memory with the caller's array"
    snap1 = first.tobytes()
    second = cpl.evolve2d(first, timesteps=T2, apply_rule=rule, r=c["r"], neighbourhood=nb, memoize=memo)
    if first.tobytes() != snap1:
        return "the caller's array was modified by the continued evolve2d"
    once = cpl.evolve2d(ev2.make_ca(c), timesteps=T1 + T2 - 1, apply_rule=Rule(c["rule"], c.get("scale", 1), clobber=bool(c.get("clobber")), mixret=c.get("mixret") or False, nested=ev1_nested(c, ev2.make_ca(c))), r=c["r"],
                        neighbourhood=nb, memoize=memo)
    if second.shape != once.shape or second.dtype != once.dtype or second.tobytes() != once.tobytes():
        return "evolving %d then %d steps differs from %d steps at once" % (T1, T2, T1 + T2 - 1)
    if H > 1:
        c2 = dict(c, hist=[c["hist"][-1]])
        alone = cpl.evolve2d(ev2.make_ca(c2), timesteps=T1, apply_rule=Rule(c["rule"], c.get("scale", 1), clobber=bool(c.get("clobber")), mixret=c.get("mixret") or False, nested=ev1_nested(c, ev2.make_ca(c))), r=c["r"],
                             neighbourhood=nb, memoize=memo)
        if alone[1:].tobytes() != first[H:].tobytes():
            return "new grids depend on more than the last grid of the history"
    return None


def nontrivial(c, ans):
    return ans.startswith("ok") and (len(c["hist"]) >= 2 or (c["T"] >= 2 and c["T2"] >= 2))
