"""C17 — Langton rule tables: complete, constrained, and lambda is reported truthfully."""
import random as pyrandom
from fractions import Fraction

import numpy as np

from .. import fmt

PROP = "C17"
RULE = ("cases: k in 2..5, r in 0..2 (k^(2r+1) <= 3125), all four flag combinations, target lambdas that are multiples "
        "of 1/64 incl. 0, 1 and the table's current lambda, given and drawn quiescent states, invalid quiescent states; "
        "random.random / random.choice / np.random.randint are replaced by a seeded recording oracle whose decisions are "
        "replayed into the model; tables compared as ordered item lists, lambda as exact rationals. Non-trivial: at least "
        "one random decision was consumed and the table has >= 8 entries.")
TRUSTED = ["random.random / random.choice / np.random.randint replaced inside cellpylib.rule_tables by a recording oracle",
           "float comparison of (k^n - c)/k^n with a target m/64 behaves like the rational comparison for k^n <= 3125"]
ASSUMPTIONS = ["table_rule is exercised for k <= 10 only (it renders states with str, the tables use base_repr digits; they coincide for k <= 10); random_rule_table / table_walk_through for k up to 36",
               "table_walk_through is exercised on complete tables (what random_rule_table returns, also with the keys re-ordered)"]


class FakeRandom(pyrandom.Random):
    """Stands in for the `random` module inside cellpylib.rule_tables: a seeded generator that records the calls
    the model has an oracle for (`random()`, `choice()`). Any other call still works (a refactored implementation
    may use `shuffle`, `sample`, …) but marks the run as not replayable into the model."""

    def __init__(self, seed):
        super().__init__(seed)
        self._aux = pyrandom.Random(seed + 991)     # index choices come from a second stream, so that a recorded
        self.events = []                            # `choice` never shows up as an extra `random()` event
        self.other = []

    def random(self):
        v = super().random()
        self.events.append(("r", v))
        return v

    def choice(self, seq):
        i = self._aux.randrange(len(seq))
        self.events.append(("c", i, isinstance(seq[0], str)))
        return seq[i]

    def shuffle(self, x, *a, **k):
        self.other.append("shuffle")
        return super().shuffle(x)

    def sample(self, *a, **k):
        self.other.append("sample")
        return super().sample(*a, **k)

    def randint(self, a, b):
        self.other.append("randint")
        return super().randint(a, b)

    def uniform(self, a, b):
        self.other.append("uniform")
        return super().uniform(a, b)


UNMODELLED = "unmodelled-random-calls"      # the driver answers bad-op: reported as a broken correspondence


def rrt_oracle(events):
    out = []
    i = 0
    while i < len(events):
        if events[i][0] == "r":
            if i + 1 < len(events) and events[i + 1][0] == "c":
                out.append(events[i + 1][1])
                i += 2
            else:
                out.append(-1)
                i += 1
        else:
            raise ValueError("choice without random()")
    return out


def walk_oracle(events):
    out = []
    i = 0
    while i < len(events):
        if not (events[i][0] == "c" and events[i][2]):
            raise ValueError("unexpected random call pattern")
        if i + 1 < len(events) and not events[i + 1][2]:
            out.append([events[i][1], events[i + 1][1]])
            i += 2
        else:
            out.append([events[i][1], 0])
            i += 1
    return out


def table_str(t):
    return "_" if not t else ";".join(",".join(str(int(ch, 36)) for ch in k) + ":" + str(int(v)) for k, v in t.items())


def run_rrt(c):
    import cellpylib as cpl
    import cellpylib.rule_tables as rt
    fake = FakeRandom(c["seed"])
    saved, saved_ri = rt.random, np.random.randint
    rt.random = fake
    drawn = {}

    def fake_randint(k, dtype=None):
        drawn["q"] = pyrandom.Random(c["seed"] + 1).randrange(k)
        return np.int32(drawn["q"])
    np.random.randint = fake_randint
    try:
        lam = None if c["lam"] is None else c["lam"] / 64.0
        res = cpl.random_rule_table(c["k"], c["r"], lambda_val=lam, quiescent_state=c["q"],
                                    strong_quiescence=bool(c["sq"]), isotropic=bool(c["iso"]))
        return res, fake, None
    except Exception as e:  # noqa
        return None, fake, e
    finally:
        rt.random = saved
        np.random.randint = saved_ri


def run_walk(c):
    import cellpylib as cpl
    import cellpylib.rule_tables as rt
    (table, lam0, q), fake0, exc = run_rrt(c)
    if c.get("order"):
        # a legal table need not list its keys in generation order (hand-written, loaded from a file, re-sorted, ...)
        items = list(table.items())
        if c["order"] == "rev":
            items.reverse()
        elif c["order"] == "shuffle":
            pyrandom.Random(c["seed"] + 99).shuffle(items)
        elif c["order"] == "byvalue":
            items.sort(key=lambda kv: (kv[1], kv[0]))
        table = dict(items)
    start = dict(table)
    fake = FakeRandom(c["seed"] + 17)
    saved = rt.random
    rt.random = fake
    try:
        if c["target"] == "current":
            target = lam0
        elif isinstance(c["target"], str) and c["target"].startswith("near:"):      # a few entries away from where the table is
            total = c["k"] ** (2 * c["r"] + 1)
            target = min(1.0, max(0.0, lam0 + int(c["target"][5:]) / total))
        elif c["target"] == "attainable":      # exactly m / k^n, an attainable lambda of this table size
            total = c["k"] ** (2 * c["r"] + 1)
            target = pyrandom.Random(c["seed"] + 5).randint(0, total) / total
        else:
            target = c["target"] / 64.0
        new_table, lam1 = cpl.table_walk_through(table, target, c["k"], c["r"], q, strong_quiescence=bool(c["sq"]),
                                                 isotropic=bool(c["iso"]))
        return start, lam0, int(q), dict(new_table), lam1, fake, target
    finally:
        rt.random = saved


def gen(ctx):
    for c in _gen(ctx):
        if c.get("kind") == "walk" and ctx.rng.random() < 0.35:
            c["order"] = ctx.rng.choice(["rev", "shuffle", "byvalue"])
        yield c


def _gen(ctx):
    rng = ctx.rng
    # large tables, target a few entries away: "reached" means reached, not close to
    for (k, r) in ([(4, 4)] if ctx.tier == "quick" else [(4, 4), (2, 9), (12, 2)]):
        total = k ** (2 * r + 1)
        for d in ((1, -1) if total < 400000 else (1, -1, 3, -2)):      # one entry of 2^18 is 3.8e-6, of 2^19 1.9e-6
            yield dict(kind="walk", k=k, r=r, q=rng.randrange(k), sq=0, iso=0, lam=48, target="near:%d" % d, seed=rng.randrange(10 ** 6), big=1)
    for _ in range(ctx.n(500, 5000)):
        k = rng.choice([2, 2, 3, 3, 4, 5])
        r = rng.choice([0, 1, 1, 2]) if k <= 3 else rng.choice([0, 1, 1, 2 if k == 4 else 1])
        q = rng.choice([None, rng.randrange(k), rng.randrange(k)])
        c = dict(kind="rrt", k=k, r=r, q=q, sq=int(rng.random() < 0.5), iso=int(rng.random() < 0.5),
                 lam=rng.choice([None, 0, 64, rng.randint(0, 64), rng.randint(0, 64)]), seed=rng.randrange(10 ** 6))
        if rng.random() < 0.05:
            c["q"] = rng.choice([k, k + 3, -1])
        yield c
    for _ in range(ctx.n(400, 4000)):
        k = rng.choice([2, 2, 3, 3, 4])
        r = rng.choice([0, 1, 1, 2]) if k <= 3 else rng.choice([0, 1])
        yield dict(kind="walk", k=k, r=r, q=rng.randrange(k), sq=int(rng.random() < 0.5), iso=int(rng.random() < 0.5),
                   lam=rng.randint(0, 64), target=rng.choice(["current", 0, 64, rng.randint(0, 64), rng.randint(0, 64), "attainable", "attainable"]),
                   seed=rng.randrange(10 ** 6))
    for (k, r) in ([(11, 1), (12, 1), (13, 0), (16, 1), (36, 0)] if ctx.tier == "quick" else [(11, 0), (11, 1), (12, 1), (13, 0), (13, 1), (16, 1), (36, 0)]):
        for (sq, iso) in ((1, 0), (1, 1), (0, 1)):
            yield dict(kind="rrt", k=k, r=r, q=rng.randrange(k), sq=sq, iso=iso, lam=rng.randint(0, 64), seed=rng.randrange(10 ** 6))
            yield dict(kind="walk", k=k, r=r, q=rng.randrange(k), sq=sq, iso=iso, lam=rng.choice([0, 64, rng.randint(0, 64)]),
                       target=rng.choice([0, 64, 26, "attainable"]), seed=rng.randrange(10 ** 6))
    for (k, r) in ([(2, 3), (4, 2)] if ctx.tier == "quick" else [(2, 3), (2, 4), (3, 2), (4, 2), (5, 2)]):
        for sq in (0, 1):
            yield dict(kind="rrt", k=k, r=r, q=rng.randrange(k), sq=sq, iso=1 - sq, lam=rng.randint(0, 64), seed=rng.randrange(10 ** 6))
            yield dict(kind="walk", k=k, r=r, q=rng.randrange(k), sq=sq, iso=1 - sq, lam=rng.randint(0, 64),
                       target=rng.choice([0, 64, "attainable"]), seed=rng.randrange(10 ** 6))
    for _ in range(ctx.n(100, 1000)):
        k = rng.randint(2, 5)
        n = rng.choice([1, 3])
        keys = [[rng.randrange(k) for _ in range(n)] for _ in range(rng.randint(1, 6))]
        yield dict(kind="tr", k=k, table=[[key, rng.randrange(k)] for key in keys],
                   n=rng.choice(keys) if rng.random() < 0.6 else [rng.randrange(k) for _ in range(n)])


def line(c):
    try:
        return _line(c)
    except (ValueError, IndexError, AssertionError):
        return UNMODELLED


def _line(c):
    if c.get("big"):
        return None                # tables of > 10^5 entries: oracle only
    if c["kind"] == "rrt":
        res, fake, exc = run_rrt(c)
        if fake.other:
            return UNMODELLED
        q = c["q"]
        if q is None:
            q = int(res[2]) if res else 0
        if q < 0:
            return None            # negative quiescent state: only the error kind is checked by the oracle
        return "rrt k=%d r=%d q=%d sq=%d iso=%d oracle=%s" % (c["k"], c["r"], q, c["sq"], c["iso"], fmt.vec(rrt_oracle(fake.events)))
    if c["kind"] == "walk":
        start, lam0, q, new, lam1, fake, target = run_walk(c)
        if fake.other:
            return UNMODELLED
        tf = Fraction(target).limit_denominator(10 ** 6)       # m/64 and m/k^n (k^n <= 3125) are recovered exactly
        return "walk table=%s num=%d den=%d k=%d r=%d q=%d sq=%d iso=%d oracle=%s" % (
            table_str(start), tf.numerator, tf.denominator, c["k"], c["r"], q, c["sq"], c["iso"], fmt.mat(walk_oracle(fake.events)))
    t = {"".join(str(x) for x in key): v for key, v in c["table"]}
    return "table_rule table=%s n=%s" % (table_str(t), fmt.vec(c["n"]))


def impl(c):
    import cellpylib as cpl
    if c["kind"] == "rrt":
        res, fake, exc = run_rrt(c)
        if exc is not None:
            return fmt.err(exc)
        table, lam, q = res
        total = c["k"] ** (2 * c["r"] + 1)
        try:
            used = len(rrt_oracle(fake.events))
        except ValueError:
            used = -1
        return "ok table=%s count=%d used=%d" % (table_str(table), total - round(lam * total), used)
    if c["kind"] == "walk":
        start, lam0, q, new, lam1, fake, target = run_walk(c)
        total = c["k"] ** (2 * c["r"] + 1)
        try:
            used = len(walk_oracle(fake.events))
        except ValueError:
            used = -1
        return "ok table=%s count=%d used=%d" % (table_str(new), total - round(lam1 * total), used)
    t = tr_mapping(c, {"".join(str(x) for x in key): v for key, v in c["table"]})
    try:
        return "ok %d" % cpl.table_rule(np.array(c["n"]), t)
    except Exception as e:  # noqa
        return fmt.err(e)


def tr_mapping(c, t):
    """The user's table as the kind of mapping users have: a plain dict, or a dict subclass with a default for
    missing keys (collections.defaultdict / Counter, e.g. a table filled incrementally): absent is still absent."""
    import collections
    pick = (len(t) + sum(c["n"])) % 4
    if pick == 1:
        return collections.defaultdict(int, t)
    if pick == 2:
        return collections.Counter(t)
    if pick == 3:
        return collections.OrderedDict(sorted(t.items()))
    return t


def check_table(c, table, q, total, n):
    k = c["k"]
    want = [np.base_repr(i, k).zfill(n) for i in range(total)]     # digits 0-9A-Z
    if sorted(table.keys()) != sorted(want) or len(table) != total:
        return "key set is not the k^(2r+1) neighbourhood strings, each once"
    if any(not (0 <= int(v) <= k - 1) for v in table.values()):
        return "entry outside 0..k-1"
    if c["sq"]:
        for s, v in table.items():
            if len(set(s)) == 1 and int(v) != int(s[0], k):
                return "strong quiescence violated at %s -> %s" % (s, v)
    if c["iso"]:
        for s, v in table.items():
            if table[s[::-1]] != v:
                return "isotropy violated at %s" % s
    return None


def oracle(c):
    import cellpylib as cpl
    if c["kind"] == "rrt":
        res, fake, exc = run_rrt(c)
        k = c["k"]
        if c["q"] is not None and not (0 <= c["q"] <= k - 1):
            return None if isinstance(exc, ValueError) else "invalid quiescent state not rejected with ValueError"
        if exc is not None:
            return "raised %s" % type(exc).__name__
        table, lam, q = res
        n = 2 * c["r"] + 1
        total = k ** n
        bad = check_table(c, table, q, total, n)
        if bad:
            return bad
        if c["q"] is not None and q != c["q"]:
            return "reported quiescent state differs from the one given"
        if not (0 <= q <= k - 1):
            return "reported quiescent state out of range"
        cnt = list(table.values()).count(q)
        if lam != (total - cnt) / total:
            return "reported lambda %r, the table's lambda is %r" % (lam, (total - cnt) / total)
        return None
    if c["kind"] == "walk":
        start, lam0, q, new, lam1, fake, target = run_walk(c)
        k = c["k"]
        n = 2 * c["r"] + 1
        total = k ** n
        bad = check_table(c, new, q, total, n)
        if bad:
            return "after the walk: " + bad
        if list(new.keys()) != list(start.keys()):
            return "key set / order changed by the walk"
        cnt = list(new.values()).count(q)
        if lam1 != (total - cnt) / total:
            return "walk reports lambda %r, the table's lambda is %r" % (lam1, (total - cnt) / total)
        l0, l1, tg = Fraction(lam0), Fraction(lam1), Fraction(target)
        if l0 > tg and l1 > l0 or l0 < tg and l1 < l0 or (l0 == tg and l1 != l0):
            return "lambda moved away from the target (%s -> %s, target %s)" % (l0, l1, tg)
        # stops ONCE reached or crossed: the state before the last perturbation was still strictly on the starting
        # side, and one perturbation moves lambda by 1/total (2/total when the mirror image is changed too)
        step = Fraction(2 if c["iso"] else 1, total)
        if l0 > tg and l1 < tg and tg - l1 >= step:
            return "walk went on after reaching/crossing the target: lambda %s -> %s, target %s, one step is at most %s" % (l0, l1, tg, step)
        if l0 < tg and l1 > tg and l1 - tg >= step:
            return "walk went on after reaching/crossing the target: lambda %s -> %s, target %s, one step is at most %s" % (l0, l1, tg, step)
        # stops once reached or crossed, or no admissible entry remains
        if l0 > tg and l1 > tg:
            cands = [s for s, v in new.items() if v != q and not (c["sq"] and len(set(s)) == 1)]
            if cands:
                return "walk stopped above the target although admissible entries remain"
        if l0 < tg and l1 < tg:
            cands = [s for s, v in new.items() if v == q and not (c["sq"] and len(set(s)) == 1)]
            if cands:
                return "walk stopped below the target although admissible entries remain"
        return None
    t = {"".join(str(x) for x in key): v for key, v in c["table"]}
    key = "".join(str(x) for x in c["n"])
    if (len(t) + sum(c["n"])) % 3 == 0:
        # the caller edits ITS table in place between lookups (same size: an entry changed, or one key replaced by
        # another — what table_walk_through does to it): every lookup answers from the table as it is now
        live = tr_mapping(c, dict(t))
        for step in range(3):
            now = dict(live)
            try:
                got = cpl.table_rule(np.array(c["n"]), live)
                if key not in now or now[key] != got:
                    return "lookup %d on a table edited in place: table_rule returned %s for %s, the table says %s" % (step + 1, got, key, now.get(key, "absent"))
            except ValueError:
                if key in now:
                    return "lookup %d on a table edited in place: ValueError although %s is in the table" % (step + 1, key)
            if key in live and step == 0:
                live[key] = live[key] + 1                      # changed entry
            elif key in live:
                v = live.pop(key)                               # replaced by another key: same size, this one absent now
                live[key + "9"] = v
            else:
                old = next(iter(live))
                v = live.pop(old)
                live[key] = v + 2                               # this one present now
    try:
        got = cpl.table_rule(np.array(c["n"]), tr_mapping(c, dict(t)))
        return None if key in t and t[key] == got else "table_rule returned %s for %s" % (got, key)
    except ValueError:
        return None if key not in t else "ValueError although the neighbourhood is in the table"


def nontrivial(c, ans):
    if c["kind"] == "tr":
        return True
    return ans.startswith("ok") and " used=0" not in ans and c["k"] ** (2 * c["r"] + 1) >= 8
