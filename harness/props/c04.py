"""C04 — 2D memoization is transparent (True and 'recursive' equal False)."""
import numpy as np

from .. import ev2
from .c01 import DTYPES
from .c03 import MEMOS

PROP = "C04"
RULE = ("cases: grids R,C in 1..9 (non-square, non powers of two, 1xN, Nx1), r in 0..min(R,C,3), Moore and von "
        "Neumann, sparse / periodic / uniform / random grids (uniform regions give equal-bytes blocks of different "
        "shape), pure rules (hash over the unmasked cells / totalistic), dtypes, fixed and callable T, memoize in "
        "{True, 'recursive' literal, 'recursive' built at run time}; sequences of 2-5 evolve2d calls in one process; "
        "invalid mode values. Non-trivial: fewer rule calls than cells x steps (a cache hit) and (r != 1 or non-square).")
TRUSTED = ["_MemoizationCache keyed by bytes+shape modelled as a nested-list key", "masked tobytes() = values with masked cells filled, modelled as Option cells"]
ASSUMPTIONS = ["1, 0 and np.True_ as memoize values are neither generated nor claimed (DESIGN.md section 7)"]


def grid(rng, R, C, k, off):
    style = rng.random()
    if style < 0.2:
        return [[off + rng.randrange(k)] * C for _ in range(R)]
    if style < 0.45:
        a, b = rng.randint(1, 3), rng.randint(0, 3)
        return [[off + ((a * i + b * j) % k) for j in range(C)] for i in range(R)]
    if style < 0.7:
        g = [[off] * C for _ in range(R)]
        for _ in range(rng.randint(1, 2)):
            g[rng.randrange(R)][rng.randrange(C)] = off + rng.randrange(k)
        return g
    return [[off + rng.randrange(k) for _ in range(C)] for _ in range(R)]


def pure_rule(rng, dtype):
    signed = dtype != "uint8"
    if rng.random() < 0.75:
        k = rng.randint(2, 4)
        off = rng.choice([0, 0, -1]) if signed else 0
        return "hash:%d:%d:%d:%d" % (k, rng.choice([2, 3, 5]), rng.randint(0, 3), off), k, off
    k = 2
    return "total:2:%d" % rng.getrandbits(20), k, 0


def rand_case(rng, memos=MEMOS, maxdim=9):
    dtype = rng.choice(DTYPES)
    R = rng.choice([1, 2, 3, 3, 4, 5, 6, 7, 8, 9][:maxdim + 1])
    C = rng.choice([1, 2, 3, 4, 4, 5, 6, 7, 8, 9][:maxdim + 1])
    r = min(R, C, rng.choice([0, 1, 1, 2, 2, 3]))
    rule, k, off = pure_rule(rng, dtype)
    if rule.startswith("total") and (2 * r + 1) ** 2 > 20:
        rule, k, off = "hash:2:3:1:0", 2, 0
    H = rng.choice([1, 1, 2])
    hist = [grid(rng, R, C, k, off) for _ in range(H)]
    c = dict(kind="ev2", hist=hist, dtype=dtype, scale=4 if dtype.startswith("float") else 1, r=r,
             nb=rng.choice(["moore", "vn"]), rule=rule, memo=rng.choice(memos))
    if rng.random() < 0.2:
        c["pred"] = "steps:%d" % rng.randint(1, 3)
    else:
        c["T"] = rng.randint(2, 4)
    if rng.random() < 0.2:
        c["clobber"] = 1
    if rng.random() < 0.3:
        c["layout"] = rng.choice(["F", "rev", "str", "T"])
    from .c03 import decorate
    decorate(rng, c)
    return c


def weak_cases(rng, n_pairs):
    """Grids in which two different 6x6 block windows (4x4 block + margin, r = 1) or two different 7x7 neighbourhoods
    (r = 3) share a weak digest (harness/weak.py)."""
    from .. import weak
    out = []
    for _ in range(n_pairs):
        for (memo, r, size, anchors) in (("recursive_lit", 1, 6, [(3, 3), (7, 11)]), ("True", 3, 7, [(0, 0), (8, 8)])):
            for kind in ("crc", "adler"):
                R = C = 16
                g = [[0] * C for _ in range(R)] if kind == "adler" else [[rng.randrange(2) for _ in range(C)] for _ in range(R)]
                (r1, c1), (r2, c2) = anchors
                a = [g[(r1 + i) % R][(c1 + j) % C] for i in range(size) for j in range(size)]
                if kind == "crc":
                    b = weak.crc_partner(a, list(range(len(a))), "int32")
                    if b is None:
                        continue
                else:
                    pr = weak.adler_partner(a, list(range(2, len(a) - 2)))
                    if pr is None:
                        continue
                    a, b = pr
                for idx in range(size * size):
                    i, j = divmod(idx, size)
                    g[(r1 + i) % R][(c1 + j) % C] = a[idx]
                    g[(r2 + i) % R][(c2 + j) % C] = b[idx]
                out.append(dict(kind="ev2", hist=[g], dtype="int32", scale=1, r=r, nb="moore", rule="hash:5:3:1:0", T=2, memo=memo))
    return out


def nf_cases(rng, n):
    for _ in range(n):
        yield dict(kind="nf", dim=2, N=rng.randint(3, 9), T=rng.randint(2, 6), memo=rng.choice(["True", "recursive_lit"]), dyn=int(rng.random() < 0.3),
                   dtype=rng.choice(["float64", "float32"]), seed=rng.randrange(10 ** 6))


def nf_oracle(c):
    """NaN / inf are values like any other: same array, bit for bit, with and without memoization."""
    from .. import ev1
    ca = ev1.nf_automaton(c)
    ts = (lambda a, t: t < c["T"]) if c.get("dyn") else c["T"]
    try:
        plain = ev1.nf_evolve(c, ca, ts, "False")
    except Exception as e:
        return "memoize=False raised %s on a float automaton producing NaN/inf" % type(e).__name__
    try:
        memo = ev1.nf_evolve(c, ca.copy(), ts, c["memo"])
    except Exception as e:
        return "memoize=%r raised %s: %s (memoize=False returns an array)" % (ev1.memo_value(c["memo"]), type(e).__name__, str(e)[:60])
    if memo.shape != plain.shape or memo.dtype != plain.dtype or memo.tobytes() != plain.tobytes():
        return "memoize=%r differs from memoize=False on a float automaton with NaN/inf states" % (ev1.memo_value(c["memo"]),)
    return None


def gen(ctx):
    yield from nf_cases(ctx.rng, ctx.n(30, 300))
    yield from weak_cases(ctx.rng, 1 if ctx.tier == "quick" else 6)
    yield from _gen(ctx)


def _gen(ctx):
    rng = ctx.rng
    # corpus: D2 (write-back for r != 1), D1, equal-bytes blocks of different shape
    yield dict(kind="ev2", hist=[[[0, 1, 0, 0], [0, 0, 1, 0], [1, 0, 0, 0], [0, 0, 0, 1]]], dtype="int32", scale=1, r=2,
               nb="moore", rule="hash:2:3:1:0", T=3, memo="recursive_lit")
    yield dict(kind="ev2", hist=[[[0, 1, 0, 0], [0, 0, 1, 0], [1, 0, 0, 0]]], dtype="int32", scale=1, r=0,
               nb="moore", rule="hash:2:3:1:0", T=3, memo="recursive_lit")
    yield dict(kind="ev2", hist=[[[0, 1, 0], [0, 0, 1], [1, 0, 0]]], dtype="int32", scale=1, r=1,
               nb="vn", rule="hash:2:3:1:0", T=3, memo="recursive_built")
    yield dict(kind="ev2", hist=[[[0] * 7 for _ in range(5)]], dtype="int32", scale=1, r=1,
               nb="moore", rule="hash:3:2:1:0", T=3, memo="recursive_lit")
    for _ in range(ctx.n(350, 4000)):
        yield rand_case(rng)
    for _ in range(ctx.n(40, 400)):
        R, C = rng.choice([(3, 4), (4, 3), (2, 5), (5, 5), (3, 3)])
        r = rng.choice([0, 1, 2])
        nb = rng.choice(["moore", "vn"])
        base = grid(rng, R, C, 2, 0)
        seq = []
        for _ in range(rng.randint(2, 5)):
            seq.append(dict(kind="ev2", hist=[base], dtype="int32", scale=1, r=min(r, R, C), nb=nb,
                            rule="hash:2:%d:%d:0" % (rng.choice([2, 3, 5]), rng.randint(0, 1)),
                            T=rng.randint(2, 4), memo=rng.choice(MEMOS)))
        yield dict(kind="seq", seq=seq)
    for _ in range(ctx.n(160, 1600)):
        # one rule OBJECT reused across calls on the SAME grid shape with different radii / dtypes / neighbourhoods
        R, C = rng.choice([(3, 4), (4, 4), (5, 5), (6, 6), (3, 3)])
        rule = rng.choice(["hash:2:3:1:0", "hash:2:5:0:0", "total:2:%d" % rng.getrandbits(16)])
        nb0 = rng.choice(["moore", "vn"])
        seq = []
        for _ in range(rng.randint(2, 4)):
            g = rng.choice([grid(rng, R, C, 2, 0), [[0] * C for _ in range(R)], [[int(i == R // 2 and j == C // 2) for j in range(C)] for i in range(R)]])
            seq.append(dict(kind="ev2", hist=[g], dtype=rng.choice(["int32", "int64", "int8"]), scale=1,
                            r=rng.choice([0, 1, 2, min(R, C, 3)]), nb=nb0 if rng.random() < 0.7 else rng.choice(["moore", "vn"]),
                            rule=rule, T=rng.randint(2, 3), memo=rng.choice(MEMOS)))
        yield dict(kind="seq", seq=seq, shared_rule=1)
    for _ in range(ctx.n(40, 400)):
        yield dict(kind="szero", R=rng.randint(2, 5), C=rng.randint(2, 5), T=rng.randint(3, 6), memo=rng.choice(MEMOS),
                   nb=rng.choice(["Moore", "von Neumann"]), dyn=int(rng.random() < 0.3), seed=rng.randrange(10 ** 6))
    for _ in range(ctx.n(30, 200)):
        c = rand_case(rng)
        c["memo"] = rng.choice(["bad:Recursive", "bad:None", "bad:2", "bad:x", "bad:memo"])
        if rng.random() < 0.3:
            c.pop("pred", None)
            c["T"] = 1
        yield c


def line(c):
    return None if c["kind"] in ("seq", "szero", "nf") else ev2.line(c)


def impl(c):
    if c["kind"] in ("szero", "nf"):
        return "n/a"
    if c["kind"] == "seq":
        if c.get("shared_rule"):
            from .. import fmt
            return "|".join(fmt.err(r.exc) if r.exc is not None else "ok grids=" + fmt.hist(ev2.scaled(r.res, x))
                            for x, r in zip(c["seq"], run_shared(c["seq"])))
        return "|".join(ev2.strip_calls(ev2.answer(x, ev2.run_impl(x))) for x in c["seq"])
    return ev2.strip_calls(ev2.answer(c, ev2.run_impl(c)))


def compare(c, a, b):
    return ev2.strip_calls(a) == ev2.strip_calls(b)


def run_shared(seq):
    from ..dsl import Rule
    import cellpylib as cpl
    inner = Rule(seq[0]["rule"], 1)

    def shared(n, c, t):
        return inner(n, c, t)
    runs = []
    for x in seq:
        ca = ev2.make_ca(x)
        out = ev2.Run()
        out.exc, out.res = None, None
        try:
            out.res = cpl.evolve2d(ca, timesteps=x["T"], apply_rule=shared, r=x["r"], neighbourhood=ev2.NB[x["nb"]],
                                   memoize=ev2.memo_value(x["memo"]))
        except Exception as e:  # noqa
            out.exc = e
        runs.append(out)
    return runs


def _one(x):
    m = ev2.run_impl(x)
    if ev2.mode_of(x["memo"]) == "bad":
        steps_possible = ("T" in x and x["T"] >= 2) or ("pred" in x and int(x["pred"].split(":")[1]) >= 1)
        if steps_possible and (m.exc is None or type(m.exc) is not Exception):
            return "memoize=%r was accepted or raised the wrong kind (%s)" % (ev2.memo_value(x["memo"]), type(m.exc).__name__ if m.exc else "no error")
        return None
    p = ev2.run_impl(x, memo="False")
    if p.exc is not None:
        return "memoize=False raised %s" % type(p.exc).__name__
    if m.exc is not None:
        return "memoize=%r raised %s: %s" % (ev2.memo_value(x["memo"]), type(m.exc).__name__, str(m.exc)[:80])
    if m.res.dtype != p.res.dtype or m.res.shape != p.res.shape or not np.array_equal(m.res, p.res):
        return "memoize=%r result differs from memoize=False (r=%d, %s, %dx%d)" % (
            ev2.memo_value(x["memo"]), x["r"], x["nb"], len(x["hist"][-1]), len(x["hist"][-1][0]))
    if not m.input_intact:
        return "caller's array modified"
    return None


def szero_run(c, memo):
    import cellpylib as cpl
    rng = np.random.RandomState(c["seed"])
    vals = np.array([0.0, -0.0, 2.0, -2.0, 3.5])
    ca = vals[rng.randint(0, 5, size=(1, c["R"], c["C"]))]

    def rule(n, cc, t):
        x = float(np.ma.getdata(n)[1][1])
        up = float(np.ma.getdata(n)[0][1])
        if x != 0.0:
            return x if not np.signbit(up) else -x
        return -0.0 if not np.signbit(x) else 7.0
    ts = (lambda a, t: t < c["T"]) if c["dyn"] else c["T"]
    return cpl.evolve2d(ca, timesteps=ts, apply_rule=rule, r=1, neighbourhood=c["nb"], memoize=memo)


def oracle(c):
    if c["kind"] == "nf":
        return nf_oracle(c)
    if c["kind"] == "szero":
        a = szero_run(c, ev2.memo_value(c["memo"]))
        b = szero_run(c, False)
        return None if a.tobytes() == b.tobytes() else "memoize=%r differs (bitwise) from memoize=False on a float grid with signed zeros" % (ev2.memo_value(c["memo"]),)
    if c["kind"] == "seq":
        runs = run_shared(c["seq"]) if c.get("shared_rule") else [ev2.run_impl(x) for x in c["seq"]]
        for i, (x, m) in enumerate(zip(c["seq"], runs)):
            p = ev2.run_impl(x, memo="False")
            if m.exc is not None:
                return "call %d of the sequence raised %s" % (i, type(m.exc).__name__)
            if not np.array_equal(m.res, p.res):
                return "call %d of the sequence differs from its unmemoized run" % i
        return None
    return _one(c)


def ncalls(ans):
    if " calls=" not in ans or " calls=_" in ans:
        return 0
    return ans.split(" calls=")[1].count("/") + 1


def nontrivial(c, ans):
    if c["kind"] in ("seq", "szero", "nf"):
        return True
    if not ans.startswith("ok") or ev2.mode_of(c["memo"]) == "bad":
        return False
    g = c["hist"][-1]
    R, C = len(g), len(g[0])
    grids = ans.split(" ")[1].count("|") + 1
    new = grids - len(c["hist"])
    return ncalls(ans) < R * C * new and (c["r"] != 1 or R != C)


def shrink(c):
    from .c02 import shrink as s2
    if c["kind"] == "seq":
        for i in range(len(c["seq"])):
            if len(c["seq"]) > 1:
                yield dict(c, seq=c["seq"][:i] + c["seq"][i + 1:])
        return
    yield from s2(c)
