"""2D part of C06: callable timesteps in evolve2d."""
import numpy as np

from .. import ev2, fmt
from ..dsl import Pred, Rule
from . import c04

FUEL = 40


class FuelExhausted(BaseException):
    pass


class CappedPred(Pred):
    fuel = FUEL

    def __call__(self, ca, t):
        if len(self.calls) >= self.fuel:
            raise FuelExhausted()
        return super().__call__(ca, t)


def gen(ctx):
    rng = ctx.rng
    yield dict(kind="ev2", hist=[[[0, 1], [1, 0]]], dtype="int32", scale=1, r=1, nb="moore", rule="hash:2:3:1:0",
               memo="False", pred="never", fuel=FUEL)
    yield dict(kind="ev2", hist=[[[0, 0], [0, 0]], [[0, 1], [1, 0]]], dtype="int32", scale=1, r=1, nb="vn", rule="hash:2:3:1:0",
               memo="recursive_lit", pred="steps:0", fuel=FUEL)
    for K in ([33, 66, 130] if ctx.tier == "quick" else [31, 32, 33, 63, 64, 65, 66, 127, 128, 129, 130]):
        for H in (1, 3):
            R, C = rng.choice([(2, 3), (3, 3), (1, 4)])
            yield dict(kind="ev2", hist=[[[rng.randrange(2) for _ in range(C)] for _ in range(R)] for _ in range(H)], dtype="int32", scale=1,
                       r=1, nb=rng.choice(["moore", "vn"]), rule="hash:2:3:1:0", memo=rng.choice(["False", "True", "recursive_lit"]),
                       pred="steps:%d" % K, fuel=K + 5)
    for _ in range(ctx.n(30, 300)):
        R, C = rng.choice([(2, 3), (3, 3), (1, 4), (4, 2)])
        k = rng.randint(2, 4)
        K = rng.randint(4, 10)
        H = rng.randint(1, 2)
        g = [[rng.randrange(k) for _ in range(C)] for _ in range(R)]
        yield dict(kind="ev2", hist=[[list(r_) for r_ in g] for _ in range(H)], dtype=rng.choice(["int32", "int64"]), scale=1, r=1,
                   nb=rng.choice(["moore", "vn"]), rule="pulse:%d:%d:0" % (k, rng.randint(2, K)),
                   memo=rng.choice(["False", "False", "True", "recursive_lit"]), pred="steps:%d" % K, fuel=K + 5)
    for _ in range(ctx.n(250, 2500)):
        c = c04.rand_case(rng, memos=["False", "True", "recursive_lit"], maxdim=5)
        c.pop("T", None)
        w = rng.random()
        if w < 0.3:
            c["pred"] = "steps:%d" % rng.choice([0, 0, 1, 2, 3])
        elif w < 0.4:
            c["pred"] = "never"
        elif w < 0.7:
            c["pred"] = "fixedpoint"
            if rng.random() < 0.7:
                # settle quickly: totalistic rules with few non-zero digits, or the constant rule
                c["rule"] = rng.choice(["hash:1:2:0:0", "total:2:0", "total:2:1", "total:2:%d" % (2 ** 9 - 1)])
                c["hist"] = [[[abs(x) % 2 for x in row] for row in g] for g in c["hist"]]
                c["r"] = min(c["r"], 1)
        elif w < 0.85:
            c["pred"] = "sumlt:%d" % rng.randint(-2, 10)
        else:
            c["pred"] = "lenle:%d" % rng.randint(0, 3)
        c["fuel"] = FUEL
        yield c


def line(c):
    return ev2.line(c)


def run_capped(c):
    CappedPred.fuel = c.get("fuel", FUEL)
    try:
        run = ev2.run_impl(c, pred_cls=CappedPred)
    except FuelExhausted:
        return None
    return run


def impl(c):
    run = run_capped(c)
    if run is None:
        return "out-of-fuel"
    if run.exc is not None:
        return fmt.err(run.exc)
    return "ok grids=" + fmt.hist(ev2.scaled(run.res, c)) + " consults=" + "/".join("%s@%d" % (fmt.hist(gs), t) for gs, t in run.pred.calls)


def oracle(c):
    run = run_capped(c)
    if run is None:
        return None
    if run.exc is not None:
        return "evolve2d with a callable timesteps raised %s: %s" % (type(run.exc).__name__, str(run.exc)[:80])
    H = len(c["hist"])
    grids = ev2.scaled(run.res, c)
    if grids[:H] != c["hist"]:
        return "given history not returned as a prefix"
    if isinstance(run.res, np.ndarray) and np.shares_memory(run.res, run.ca):
        return "the returned evolution shares memory with the array that was passed in (%d steps taken)" % (len(grids) - H)
    k = len(grids) - H
    this_call = [c["hist"][-1]] + grids[H:]
    want = [(this_call[:i], i) for i in range(1, k + 2)]
    if run.pred.calls != want:
        return "predicate consulted with unexpected (grids so far, t) arguments"
    chk = Pred(c["pred"], 1, use_library_fixed_point=False)
    for i in range(1, k + 2):
        if bool(chk(np.array(this_call[:i]), i)) != (i <= k):
            return "step %d performed although predicate was %s" % (i, i > k)
    fx = dict(c)
    fx.pop("pred")
    fx["T"] = k + 1
    fr = ev2.run_impl(fx)
    if fr.exc is not None:
        return "fixed-count evolution raised %s" % type(fr.exc).__name__
    if ev2.scaled(fr.res, fx) != grids or fr.res.dtype != run.res.dtype:
        return "result differs from the fixed-count evolution of the same length"
    if c["pred"] == "fixedpoint":
        if k < 1:
            return "until_fixed_point declined at once"
        if this_call[-1] != this_call[-2]:
            return "until_fixed_point stopped although the last two grids differ"
        for i in range(1, len(this_call) - 1):
            if this_call[i] == this_call[i - 1]:
                return "until_fixed_point ran past the first fixed point"
    return None
