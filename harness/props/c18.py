"""C18 — BiEntropy family matches Croll's definitions and stays in [0, 1]."""
import itertools
import math
from collections import Counter

from .. import fl, fmt

PROP = "C18"
RULE = ("cases: all binary strings of length 2..10 (quick) / 2..12 (thorough) for the derivatives, bien, tbien, ktbien; "
        "random binary strings up to length 200 (documented use of tbien/ktbien is > 32); derivative strings compared "
        "exactly, values within 1e-9; metamorphic partners (complement, reversal, rotation) evaluated on the "
        "implementation. Non-trivial: length >= 3 and the string is not constant.")
TRUSTED = ["IEEE-754 log: values are tied by a 1e-9 tolerance, no float identity is proved",
           "range and invariance theorems are over the reals for the same generic formulas"]
ASSUMPTIONS = ["binary strings of length >= 2"]


def H(s):
    n = len(s)
    return -sum((c / n) * math.log2(c / n) for c in Counter(s).values()) + 0.0


def D(s):
    return "".join(str(int(a) ^ int(b)) for a, b in zip(s, s[1:]))


def Dc(s):
    return "".join(str(int(a) ^ int(b)) for a, b in zip(s, s[1:] + s[0]))


def ref(kind, s):
    n = len(s)
    tot = totw = 0.0
    for k in range(n - 1):
        w = 2.0 ** k if kind == "bien" else math.log2(k + 2)
        tot += H(s) * w
        totw += w
        s = Dc(s) if kind == "ktbien" else D(s)
    return tot / ((2 ** (n - 1) - 1) if kind == "bien" else totw)


def gen(ctx):
    rng = ctx.rng
    maxn = 10 if ctx.tier == "quick" else 12
    for n in range(2, maxn + 1):
        for bits in itertools.product("01", repeat=n):
            s = "".join(bits)
            if n <= 8 or rng.random() < (0.25 if ctx.tier == "quick" else 1.0):
                yield dict(kind="all", s=s)
    for _ in range(ctx.n(150, 1500)):
        n = rng.choice([13, 16, 31, 32, 33, 50, 64, 100, 200, 255, 256, 257, 300, 320, 600])
        style = rng.random()
        if style < 0.2:
            p = "".join(rng.choice("01") for _ in range(rng.randint(1, 4)))
            s = (p * n)[:n]
        elif style < 0.35:
            s = rng.choice(["1" * n, "0" * n, ("01" * n)[:n], "1" * (n - 1) + "0"])
        else:
            s = "".join(rng.choice("01") for _ in range(n))
        yield dict(kind="long", s=s)


def line(c):
    return None      # several model lines per case: see lines()


def lines(c):
    v = fmt.vec([int(ch) for ch in c["s"]])
    if len(c["s"]) > 220:
        return None       # the list-based model is quadratic; long strings are decided by the reference
    ops = ["bderiv", "cbderiv", "tbien", "ktbien"] + (["bien"] if len(c["s"]) <= 40 else [])
    return ["%s s=%s" % (op, v) for op in ops]


def impl_parts(c):
    from ..ev1 import strict_ctx
    with strict_ctx(len(c["s"]) % 3 == 1):        # a third of the strings under strict NumPy error state / warnings as errors
        return _impl_parts(c)


def _impl_parts(c):
    import cellpylib as cpl
    s = c["s"]
    out = ["ok " + fmt.vec([int(ch) for ch in cpl.binary_derivative(s)]),
           "ok " + fmt.vec([int(ch) for ch in cpl.cyclic_binary_derivative(s)]),
           "ok f=%d" % fl.float_to_bits(cpl.tbien(s)), "ok f=%d" % fl.float_to_bits(cpl.ktbien(s))]
    if len(s) <= 40:
        out.append("ok f=%d" % fl.float_to_bits(cpl.bien(s)))
    return out


def impl(c):
    try:
        return " | ".join(impl_parts(c))
    except Exception as e:  # noqa
        return fmt.err(e)


MULTILINE = True


def compare(c, a, b):
    pa, pb = a.split(" | "), b.split(" | ")
    return len(pa) == len(pb) and all(fl.compare(x, y) for x, y in zip(pa, pb))


def oracle(c):
    from ..ev1 import strict_ctx
    try:
        with strict_ctx(len(c["s"]) % 3 == 1):    # same error state as impl(): a well-formed string must not raise under it
            return _oracle(c)
    except (FloatingPointError, Warning) as e:
        return "a measure of the BiEntropy family raised %s: %s on the binary string %s (NumPy errors raised, warnings as errors)" % (type(e).__name__, e, c["s"])


def _oracle(c):
    import cellpylib as cpl
    s = c["s"]
    n = len(s)
    if cpl.binary_derivative(s) != D(s):
        return "binary_derivative(%s) = %s, XOR of adjacent digits is %s" % (s, cpl.binary_derivative(s), D(s))
    if cpl.cyclic_binary_derivative(s) != Dc(s):
        return "cyclic_binary_derivative(%s) = %s, expected %s" % (s, cpl.cyclic_binary_derivative(s), Dc(s))
    comp = "".join("1" if ch == "0" else "0" for ch in s)
    rot = s[1:] + s[0]
    fns = [("tbien", cpl.tbien), ("ktbien", cpl.ktbien)] + ([("bien", cpl.bien)] if n <= 40 else [])
    for name, f in fns:
        v = f(s)
        if not fl.close(v, ref(name, s)):
            return "%s(%s) = %r, definition gives %r" % (name, s, v, ref(name, s))
        if not (-1e-12 <= v <= 1 + 1e-12):
            return "%s(%s) = %r outside [0, 1]" % (name, s, v)
        if not fl.close(f(comp), v):
            return "%s changed by complementing the string" % name
        if not fl.close(f(s[::-1]), v):
            return "%s changed by reversing the string" % name
        if name == "ktbien" and not fl.close(f(rot), v):
            return "ktbien changed by rotating the string"
    return None


def nontrivial(c, ans):
    return len(c["s"]) >= 3 and len(set(c["s"])) > 1
