"""C05 — evolution extends the given history and never modifies it (evolve, evolve2d, evolve_block, evolve2d_block)."""
import numpy as np

from .. import ev1
from . import c03, c01

def ev1_nested(c, ca):
    from ..ev1 import nested_of
    return nested_of(c, ca)


PROP = "C05"
RULE = ("cases: histories of 1..4 rows, T in 1..6, every split T1+T2-1 <= 8 of one evolution into two continued calls, "
        "all memoize modes, dtypes, time-free rules (pure hash / nks / totalistic in every mode; the stateful counter "
        "with memoize=False, its state carried across the two calls); caller buffers snapshotted (bytes, dtype, shape). "
        "Non-trivial: H>=2 or a split with T1>=2 and T2>=2.")
TRUSTED = c03.TRUSTED + ["aliasing / in-place mutation is invisible to the value-level model: the buffer monitor is what checks 'the caller's array is not modified' and 'same dtype'"]
ASSUMPTIONS = ["the split law is claimed for evolve/evolve2d; for the block evolvers only for odd T1 (DESIGN.md section 7)"]


def gen(ctx):
    rng = ctx.rng
    for _ in range(ctx.n(400, 4000)):
        c = c03.rand_case(rng, memos=["False", "True", "recursive_lit"], maxN=13)
        c.pop("pred", None)
        H = rng.randint(1, 4)
        N = len(c["hist"][-1])
        while len(c["hist"]) < H:
            c["hist"].insert(0, list(c["hist"][-1][::-1]))
        c["hist"] = c["hist"][-H:]
        if rng.random() < 0.25:
            c["rule"] = "counter:3:0"
            c["memo"] = "False"
            c["hist"] = [[abs(x) % 3 for x in row] for row in c["hist"]]
        T1 = rng.randint(1, 5)
        T2 = rng.randint(1, 9 - T1 - 0)
        T2 = max(1, min(T2, 8 + 1 - T1))
        c["T"] = T1
        c["T2"] = T2
        c["kind"] = "ev1"
        yield c
    # continuation with a callable timesteps, long enough to cross internal growth thresholds (oracle only)
    for K in ([34, 70, 131] if ctx.tier == "quick" else [31, 32, 33, 34, 63, 64, 65, 66, 70, 127, 128, 129, 131]):
        for dim in (1, 2):
            yield dict(kind="dyncont", dim=dim, H=rng.randint(2, 4), T1=rng.randint(2, 5), K=K, memo=rng.choice(["False", "True", "recursive_lit"]),
                       seed=rng.randrange(10 ** 6))
    for dim in (1, 2):
        for memo in ("False", "True", "recursive_lit"):
            yield dict(kind="dyncont", dim=dim, H=rng.randint(1, 3), T1=rng.randint(1, 3), K=0, memo=memo, seed=rng.randrange(10 ** 6))
    for _ in range(ctx.n(30, 300)):
        yield dict(kind="nf", dim=rng.choice([1, 1, 2]), N=rng.randint(3, 8), H=rng.randint(1, 2), T1=rng.randint(2, 4), T2=rng.randint(2, 4),
                   memo=rng.choice(["False", "True", "recursive_lit"]), dyn=int(rng.random() < 0.3), dtype=rng.choice(["float64", "float32"]),
                   seed=rng.randrange(10 ** 6))
    # inexact floating-point rules on narrow float dtypes (oracle only: no exact model of float arithmetic):
    # the split law must hold bit for bit because every step reads the stored (rounded) previous row
    for _ in range(ctx.n(60, 600)):
        N = rng.randint(3, 16)
        yield dict(kind="evf", dim=rng.choice([1, 1, 2]), N=N, dtype=rng.choice(["float32", "float16", "float32", "float64"]),
                   H=rng.randint(1, 3), T1=rng.randint(1, 6), T2=rng.randint(1, 6), memo=rng.choice(["False", "True", "recursive_lit"]),
                   seed=rng.randrange(10 ** 6))
    for modname in ("c05_2d", "c05_block"):
        try:
            m = __import__("harness.props." + modname, fromlist=["gen"])
            yield from m.gen(ctx)
        except ImportError:
            pass


def _mod(c):
    if c["kind"] == "ev2":
        from . import c05_2d
        return c05_2d
    if c["kind"] in ("blk1", "blk2"):
        from . import c05_block
        return c05_block
    return None


def line(c):
    if c["kind"] in ("evf", "dyncont", "nf"):
        return None
    m = _mod(c)
    if m:
        return m.line(c)
    return ev1.line(c)


def _float_case(c):
    import cellpylib as cpl
    rng = np.random.RandomState(c["seed"])
    memo = ev1.memo_value(c["memo"])
    if c["dim"] == 1:
        ca = rng.random_sample((c["H"], c["N"])).astype(c["dtype"])
        rule = lambda n, cc, t: 3.9 * float(np.mean(n)) * (1.0 - float(np.mean(n)))          # noqa: E731
        ev = lambda a, T: cpl.evolve(a, timesteps=T, apply_rule=rule, r=1, memoize=memo)          # noqa: E731
    else:
        ca = rng.random_sample((c["H"], 3, max(3, c["N"] // 3))).astype(c["dtype"])
        rule = lambda n, cc, t: 3.9 * float(np.mean(n)) * (1.0 - float(np.mean(n)))          # noqa: E731
        ev = lambda a, T: cpl.evolve2d(a, timesteps=T, apply_rule=rule, r=1, memoize=memo)        # noqa: E731
    return ca, ev


def impl(c):
    if c["kind"] in ("evf", "dyncont", "nf"):
        return "n/a"
    m = _mod(c)
    if m:
        return m.impl(c)
    return ev1.strip_calls(ev1.answer(c, ev1.run_impl(c)))


def compare(c, a, b):
    return ev1.strip_calls(a) == ev1.strip_calls(b)


def oracle_dyncont(c):
    """evolve T1 steps, continue the result with a callable for K more states; must equal T1+K-1 steps at once."""
    import cellpylib as cpl
    rng = np.random.RandomState(c["seed"])
    memo = ev1.memo_value(c["memo"])
    K = c["K"]
    if c["dim"] == 1:
        ca = rng.randint(0, 2, size=(c["H"], 7)).astype(np.int32)
        rule = lambda n, cc, t: cpl.nks_rule(n, 30)                      # noqa: E731
        ev = lambda a, T: cpl.evolve(a, timesteps=T, apply_rule=rule, r=1, memoize=memo)            # noqa: E731
    else:
        ca = rng.randint(0, 2, size=(c["H"], 3, 4)).astype(np.int32)
        rule = lambda n, cc, t: int(np.sum(n)) % 2                        # noqa: E731
        ev = lambda a, T: cpl.evolve2d(a, timesteps=T, apply_rule=rule, r=1, memoize=memo)          # noqa: E731
    first = ev(ca, c["T1"])
    if K == 0:
        # the callable declines at once: the result is the given history, as a NEW array the caller may go on working on
        snap = first.tobytes()
        res = ev(first, lambda a, t: False)
        if res.shape != first.shape or res.dtype != first.dtype or res.tobytes() != snap:
            return "a callable timesteps that declines at once does not return the given history"
        if np.shares_memory(res, first):
            return "a callable timesteps that declines at once returns the caller's own array (writing to the result changes the given history)"
        res[-1][...] = 7
        return None if first.tobytes() == snap else "writing to the result changed the given history"
    second = ev(first, lambda a, t: t < K)
    once = ev(ca.copy(), c["T1"] + K - 1)
    if second.shape != once.shape or second.tobytes() != once.tobytes():
        bad = [i for i in range(min(len(second), len(once))) if second[i].tobytes() != once[i].tobytes()]
        return "continuing with a callable timesteps for %d states after %d (history %d): differs from evolving at once at rows %s" % (
            K, c["T1"], c["H"], bad[:5])
    if second[:len(first)].tobytes() != first.tobytes():
        return "the given history was not returned unchanged"
    return None


def oracle_nf(c):
    """A history that contains NaN / inf rows (the result of an earlier evolution) is extended like any other."""
    ca = ev1.nf_automaton(c)
    snap = ca.tobytes()
    try:
        first = ev1.nf_evolve(c, ca, c["T1"], c["memo"])
        snap1 = first.tobytes()
        second = ev1.nf_evolve(c, first, (lambda a, t: t < c["T2"]) if c.get("dyn") else c["T2"], c["memo"])
        once = ev1.nf_evolve(c, ca.copy(), c["T1"] + c["T2"] - 1, c["memo"])
    except Exception as e:
        return "evolving / continuing a float automaton with NaN or inf states raised %s: %s" % (type(e).__name__, str(e)[:70])
    if ca.tobytes() != snap or first.tobytes() != snap1:
        return "a given history was modified"
    if second[:len(first)].tobytes() != snap1:
        return "the given history (with NaN / inf states) is not returned unchanged as a prefix"
    if second.shape != once.shape or second.tobytes() != once.tobytes():
        return "continuing an evolution with NaN / inf states differs from evolving at once"
    return None


def oracle(c):
    if c["kind"] == "nf":
        return oracle_nf(c)
    if c["kind"] == "dyncont":
        return oracle_dyncont(c)
    if c["kind"] == "evf":
        ca, ev = _float_case(c)
        snap = ca.tobytes()
        first = ev(ca, c["T1"])
        second = ev(first, c["T2"])
        once = ev(ca.copy(), c["T1"] + c["T2"] - 1)
        if ca.tobytes() != snap:
            return "caller's array modified"
        if first.dtype != ca.dtype or once.dtype != ca.dtype:
            return "result dtype %s differs from the automaton's %s" % (first.dtype, ca.dtype)
        if first[:c["H"]].tobytes() != snap:
            return "given rows not returned unchanged"
        if second.shape != once.shape or second.tobytes() != once.tobytes():
            return "%s %dD: evolving %d then %d steps differs from %d at once (max |diff| %g)" % (
                c["dtype"], c["dim"], c["T1"], c["T2"], c["T1"] + c["T2"] - 1,
                float(np.max(np.abs(second.astype(np.float64) - once.astype(np.float64)))))
        return None
    m = _mod(c)
    if m:
        return m.oracle(c)
    import cellpylib as cpl
    from ..dsl import Rule
    T1, T2 = c["T"], c["T2"]
    ca = ev1.make_ca(c)
    snap = (ca.tobytes(), ca.dtype, ca.shape)
    memo = ev1.memo_value(c["memo"])
    rule = Rule(c["rule"], c.get("scale", 1), clobber=bool(c.get("clobber")), mixret=c.get("mixret") or False, nested=ev1_nested(c, ev1.make_ca(c)))
    first = cpl.evolve(ca, timesteps=T1, apply_rule=rule, r=c["r"], memoize=memo)
    if (ca.tobytes(), ca.dtype, ca.shape) != snap:
        return "the caller's array was modified by evolve"
    H = len(c["hist"])
    if first.dtype != ca.dtype or first.shape != (H + T1 - 1, ca.shape[1]):
        return "result dtype/shape %s %s, expected %s %s" % (first.dtype, first.shape, ca.dtype, (H + T1 - 1, ca.shape[1]))
    if first[:H].tobytes() != ca.tobytes():
        return "given rows are not returned unchanged and in order"
    if np.shares_memory(first, ca):
        return "result shares memory with the caller's array"
    snap1 = first.tobytes()
    second = cpl.evolve(first, timesteps=T2, apply_rule=rule, r=c["r"], memoize=memo)
    if first.tobytes() != snap1:
        return "the caller's array was modified by the continued evolve"
    once = cpl.evolve(ev1.make_ca(c), timesteps=T1 + T2 - 1, apply_rule=Rule(c["rule"], c.get("scale", 1), clobber=bool(c.get("clobber")), mixret=c.get("mixret") or False, nested=ev1_nested(c, ev1.make_ca(c))), r=c["r"], memoize=memo)
    if second.shape != once.shape or second.dtype != once.dtype or second.tobytes() != once.tobytes():
        return "evolving %d then %d steps differs from %d steps at once" % (T1, T2, T1 + T2 - 1)
    # only the last row of the history matters
    if H > 1:
        c2 = dict(c, hist=[c["hist"][-1]])
        alone = cpl.evolve(ev1.make_ca(c2), timesteps=T1, apply_rule=Rule(c["rule"], c.get("scale", 1), clobber=bool(c.get("clobber")), mixret=c.get("mixret") or False, nested=ev1_nested(c, ev1.make_ca(c))), r=c["r"], memoize=memo)
        if alone[1:].tobytes() != first[H:].tobytes():
            return "new rows depend on more than the last row of the history"
    return None


def nontrivial(c, ans):
    if c["kind"] == "dyncont":
        return True
    if c["kind"] == "evf":
        return c["T1"] >= 2 and c["T2"] >= 2
    if c["kind"] != "ev1":
        return _mod(c).nontrivial(c, ans)
    return ans.startswith("ok") and (len(c["hist"]) >= 2 or (c["T"] >= 2 and c["T2"] >= 2))


shrink = c01.shrink
