"""C15 — CTRBL rule tables and the built-in loops are rotation-closed and total."""
import itertools

import numpy as np

from .. import fmt

PROP = "C15"
RULE = ("complete: all 8^5 (Langton: value or ValueError) and 9^5 (SDSR, Evoloop) state combinations, compared with the "
        "model (whose table literals are regenerated from the source by tools/translate.py in this run) and checked for "
        "orientation independence and range on the implementation; plus random user tables (complete / partial / one "
        "image per rotation class / conflicting classes) with and without add_rotations, looked up through 3x3 "
        "neighbourhoods, and the rule_table property. Non-trivial: every batch and every user table with >= 2 entries.")
EXHAUSTIVE = True
INFO_MODULES = ["Cpl.Info.C15Tables"]
TRUSTED = ["tools/translate.py (AST walk of the dict literals, SDSR's extra assignments, add_rotations) and the Lean literal printer",
           "dict insertion/overwrite semantics modelled as an association list with the latest binding first"]
ASSUMPTIONS = ["user tables assign one image per rotation class when rotations are requested (conflicting classes are exercised but only the last-writer-wins agreement with the model is compared)"]

LOOPS = {"langton": ("LangtonsLoop", 8), "sdsr": ("SDSRLoop", 9), "evoloop": ("Evoloop", 9)}


def rot(k):
    c, t, r, b, l = k
    return (c, l, t, r, b)


def gen(ctx):
    rng = ctx.rng
    dts = ["int64", "uint8", "int8", "int32", "list", "masked", "masked_uint8", "corners", "corners_list"]
    for loop, (_, m) in LOOPS.items():
        for c in range(m):
            yield dict(kind="batch", loop=loop, c=c, m=m)
            # the same complete sweep with the neighbourhood given in another container / dtype
            for dt in (dts[1:] if ctx.tier == "thorough" else [rng.choice(dts[1:])]):
                yield dict(kind="batch", loop=loop, c=c, m=m, dtype=dt)
    # out-of-alphabet states (orientation independence is claimed over all states)
    # construction order: every loop probed on the keys where the three tables differ (and some random ones), after all
    # three were built in each of the six orders in one process
    import itertools
    probes = [[1, 1, 1, 5, 2], [1, 2, 1, 1, 5], [1, 5, 2, 1, 1], [1, 1, 5, 2, 1]] + [[rng.randrange(8) for _ in range(5)] for _ in range(4)]
    for order in itertools.permutations(LOOPS):
        for loop in LOOPS:
            for key in probes:
                yield dict(kind="call", loop=loop, key=key, order=",".join(order))
    for loop in LOOPS:
        for _ in range(ctx.n(40, 400)):
            yield dict(kind="call", loop=loop, key=[rng.choice([-1, 0, 1, 2, 5, 8, 9, 10]) for _ in range(5)])
    for _ in range(ctx.n(300, 3000)):
        k = rng.randint(2, 4)
        style = rng.randrange(4)
        entries = {}
        keys = list(itertools.product(range(k), repeat=5))
        if style == 0:      # complete
            for key in keys:
                entries[key] = rng.randrange(k)
        elif style == 1:    # partial
            for key in rng.sample(keys, rng.randint(1, min(len(keys), 12))):
                entries[key] = rng.randrange(k)
        elif style == 2:    # one image per rotation class (representatives only, or several consistent members)
            for key in rng.sample(keys, rng.randint(1, min(len(keys), 10))):
                img = None
                kk = key
                for _ in range(4):
                    if kk in entries:
                        img = entries[kk]
                    kk = rot(kk)
                entries[key] = rng.randrange(k) if img is None else img
        else:               # conflicts inside a rotation class
            for key in rng.sample(keys, rng.randint(1, min(len(keys), 6))):
                entries[key] = rng.randrange(k)
                entries[rot(key)] = rng.randrange(k)
        items = [list(key) + [v] for key, v in entries.items()]
        rotf = int(rng.random() < 0.6)
        half = int(rng.random() < 0.3)     # states are multiples of 1/2 (an excitable medium over 0, 0.5, 1, ...): the model sees 2x
        yield dict(kind="table", entries=items, rot=rotf, half=half)
        for _ in range(3):
            n = [[rng.randrange(k) for _ in range(3)] for _ in range(3)]
            if rng.random() < 0.5 and items:
                e = rng.choice(items)
                kk = tuple(e[:5])
                for _ in range(rng.randrange(4)):
                    kk = rot(kk)
                n[1][1], n[0][1], n[1][2], n[2][1], n[1][0] = kk
            yield dict(kind="lookup", entries=items, rot=rotf, n=n, half=half)


def line(c):
    if c["kind"] == "batch":
        return "loop_batch loop=%s c=%d m=%d" % (c["loop"], c["c"], c["m"])
    if c["kind"] == "call":
        return "loop_call loop=%s key=%s" % (c["loop"], fmt.vec(c["key"]))
    if c["kind"] == "table":
        return "ctrbl_table entries=%s rot=%d" % (fmt.mat(c["entries"]), c["rot"])
    return "ctrbl_call entries=%s rot=%d n=%s" % (fmt.mat(c["entries"]), c["rot"], fmt.mat(c["n"]))


def as_mapping(table, pick):
    """The user's table as the kind of mapping users have: a plain dict, or a dict subclass with a default for missing
    keys (collections.defaultdict / Counter): an absent combination is still absent."""
    import collections
    if pick % 3 == 1:
        return collections.defaultdict(int, table)
    if pick % 3 == 2 and all(isinstance(v, int) for v in table.values()):
        return collections.Counter(table)
    return table


_LOOPS = {}


def loop_obj(name, order=None):
    """The loop rule under test. With `order` (a permutation of the three loops, e.g. 'langton,sdsr,evoloop'): all three
    are constructed afresh in that order first — one loop's table must not depend on which others exist."""
    import cellpylib as cpl
    if order:
        key = "order:" + order
        if key not in _LOOPS:
            _LOOPS[key] = {nm: getattr(cpl, LOOPS[nm][0])() for nm in order.split(",")}
        return _LOOPS[key][name]
    if name not in _LOOPS:
        _LOOPS[name] = getattr(cpl, LOOPS[name][0])()
    return _LOOPS[name]


def call_loop(obj, key, dtype=None):
    c, t, r, b, l = key
    n = [[0, t, 0], [l, c, r], [0, b, 0]]
    if dtype in ("masked", "masked_uint8"):
        # what evolve2d(..., neighbourhood='von Neumann') hands a rule: corners masked (and holding arbitrary data)
        data = np.array([[7, t, 5], [l, c, r], [8, b, 3]], dtype="uint8" if dtype == "masked_uint8" else "int64")
        n = np.ma.masked_array(data, [[1, 0, 1], [0, 0, 0], [1, 0, 1]])
    elif dtype in ("corners", "corners_list"):
        # a Moore block: the four corner cells hold states too (2..8), and must not matter
        n = [[7, t, 5], [l, c, r], [8, b, 3]]
        if dtype == "corners":
            n = np.array(n)
    elif dtype != "list":
        n = np.array(n, dtype=dtype or "int64")
    try:
        v = obj(n, (1, 1), 1)
    except ValueError:
        return "E"
    except Exception as e:  # noqa
        return "X:" + type(e).__name__
    return "N" if v is None else str(int(v))


def batch(c):
    obj = loop_obj(c["loop"])
    m = c["m"]
    dt = c.get("dtype")
    return [call_loop(obj, (c["c"], t, r, b, l), dt) for t in range(m) for r in range(m) for b in range(m) for l in range(m)]


def impl(c):
    import cellpylib as cpl
    try:
        if c["kind"] == "batch":
            return "ok " + ",".join(batch(c))
        if c["kind"] == "call":
            return "ok " + call_loop(loop_obj(c["loop"], c.get("order")), c["key"])
        sc = 0.5 if c.get("half") else 1
        table = {tuple(x * sc for x in e[:5]): e[5] for e in c["entries"]}
        table = as_mapping(table, len(c["entries"]))
        rule = cpl.CTRBLRule(table, add_rotations=bool(c["rot"]))
        if c["kind"] == "table":
            items = sorted([int(round(x / sc)) for x in k] + [v] for k, v in rule.rule_table.items())
            return "ok " + fmt.mat(items)
        try:
            n = np.array(c["n"]) * sc if c.get("half") else np.array(c["n"])
            return "ok %d" % int(rule(n, (1, 1), 1))
        except ValueError:
            return "ok E"
    except Exception as e:  # noqa
        return fmt.err(e)


def compare(c, a, b):
    if c["kind"] == "table" and a.startswith("ok ") and b.startswith("ok "):
        return sorted(a[3:].split(";")) == sorted(b[3:].split(";"))
    return a == b


def in_tube(trbl):
    return sum(1 for x in trbl if x in (1, 2, 4, 6, 7)) >= 2


def sayama_default(loop, c, trbl):
    """Sayama's default rules for combinations outside the table, written as a decision table
    (independent of the sequential-override code in the library and of the Lean model)."""
    if c == 8:
        return 0                                   # 8 always becomes 0
    if 8 in trbl:                                  # the 8-neighbour rules
        if c in (0, 1):
            return 8 if any(x in trbl for x in (2, 3, 4, 5, 6, 7)) else c
        if c in (2, 3, 5):
            return 0
        return 1                                   # 4, 6, 7
    if loop == "sdsr":                             # the tube rules
        tube = in_tube(trbl)
        if c == 0:
            return 1 if tube and 1 in trbl else 0
        if c == 1 and tube:
            for x in (7, 6, 4):
                if x in trbl:
                    return x
        if c in (4, 6, 7) and tube and 0 in trbl:
            return 0
        if c == 2:
            if 3 in trbl:
                return 1
            if 2 in trbl:
                return 2
    return 0 if c == 0 else 8                      # undefined 0 stays 0, undefined 1-7 become 8


_OWN = {}


def own_table_entry(loop, key):
    """The entry for `key` in the loop's own table as written in the source (None: not in the table / source not readable)."""
    if not _OWN:
        try:
            import ast
            import os
            import sys
            from .. import core
            sys.path.insert(0, os.path.join(core.VERIF, "tools"))
            import translate as T
            src = lambda f: ast.parse(open(os.path.join(core.REPO, "cellpylib", f)).read())     # noqa: E731
            lang, lrot = T.super_init_table(T.find_class(src("langtons_loop.py"), "LangtonsLoop"))
            evo, erot = T.super_init_table(T.find_class(src("evoloop.py"), "Evoloop"))
            extra = T.sdsr_extra(T.find_class(src("sdsr_loop.py"), "SDSRLoop"))

            def closed(entries, rotate):
                t = {}
                for k, v in entries:
                    t[tuple(k)] = v
                    if rotate:
                        kk = tuple(k)
                        for _ in range(3):
                            kk = rot(kk)
                            t[kk] = v
                return t
            _OWN["langton"] = closed(lang, lrot)
            _OWN["evoloop"] = closed(evo, erot)
            sd = closed(lang, lrot)
            for k, v in extra:
                sd[tuple(k)] = v
            _OWN["sdsr"] = sd
        except Exception:       # the source no longer has the literal shape: this clause is skipped
            _OWN["unreadable"] = True
    t = _OWN.get(loop)
    return None if t is None else t.get(tuple(key))


def oracle(c):
    import cellpylib as cpl
    if c["kind"] == "batch":
        obj = loop_obj(c["loop"])
        m = c["m"]
        vals = {}
        i = 0
        out = batch(c)
        for t in range(m):
            for r in range(m):
                for b in range(m):
                    for l in range(m):
                        vals[(t, r, b, l)] = out[i]
                        i += 1
        for (t, r, b, l), v in vals.items():
            if vals[(l, t, r, b)] != v:
                return "%s not orientation independent: (%d,%d,%d,%d,%d) -> %s but rotated -> %s" % (
                    c["loop"], c["c"], t, r, b, l, v, vals[(l, t, r, b)])
            if c["loop"] in ("sdsr", "evoloop"):
                if v in ("E", "N") or not (0 <= int(v) <= 8):
                    return "%s not total over 0..8: (%d,%d,%d,%d,%d) -> %s" % (c["loop"], c["c"], t, r, b, l, v)
                if c["c"] == 8 and v != "0":
                    return "%s: state 8 must always become 0, got %s at %s" % (c["loop"], v, (t, r, b, l))
                if (c["c"], t, r, b, l) not in obj.rule_table:
                    want = sayama_default(c["loop"], c["c"], (t, r, b, l))
                    if v != str(want):
                        return "%s default rule: (%d,%d,%d,%d,%d) -> %s, Sayama's rules give %d" % (
                            c["loop"], c["c"], t, r, b, l, v, want)
        return None
    if c["kind"] == "call":
        obj = loop_obj(c["loop"], c.get("order"))
        k = tuple(c["key"])
        vs = set()
        for _ in range(4):
            vs.add(call_loop(obj, k))
            k = rot(k)
        if len(vs) != 1:
            return "%s not orientation independent on %s: %s" % (c["loop"], c["key"], sorted(vs))
        # "answers with the table entry": the entry of the loop's OWN table — the literal its constructor hands to
        # CTRBLRule (read from the source), closed under rotation, plus what SDSRLoop's constructor adds — whatever
        # other loop objects exist in the process
        want = own_table_entry(c["loop"], tuple(c["key"]))
        got = call_loop(obj, tuple(c["key"]))
        if want is not None and got != str(want):
            return "%s%s answers %s, its own table says %d%s" % (
                c["loop"], tuple(c["key"]), got, want, (" (loops constructed in the order %s)" % c["order"]) if c.get("order") else "")
        return None
    sc = 0.5 if c.get("half") else 1
    table = {tuple(x * sc for x in e[:5]): e[5] for e in c["entries"]}
    rule = cpl.CTRBLRule(as_mapping(table, len(c["entries"])), add_rotations=bool(c["rot"]))
    rt = rule.rule_table
    consistent = True
    for k, v in table.items():
        kk = k
        for _ in range(4):
            if kk in table and table[kk] != v:
                consistent = False
            kk = rot(kk)
    if c["rot"]:
        for k in rt:
            if rt.get(rot(k)) != rt[k]:
                return "table built with add_rotations is not closed under quarter turns at %s" % (k,)
        if consistent:
            for k, v in table.items():
                kk = k
                for _ in range(4):
                    if rt.get(kk) != v:
                        return "entry %s -> %s (or a rotation of it) does not answer with its image" % (k, v)
                    kk = rot(kk)
    else:
        if rt != table:
            return "without add_rotations the table is not the input"
    if c["kind"] == "lookup":
        n = [[x * sc for x in row] for row in c["n"]]
        key = (n[1][1], n[0][1], n[1][2], n[2][1], n[1][0])
        try:
            got = rule(np.array(n), (1, 1), 1)
            if key not in rt or rt[key] != got:
                return "CTRBLRule answered %s for key %s, table says %s" % (got, key, rt.get(key))
        except ValueError:
            if key in rt:
                return "ValueError although the combination is in the table"
        if (len(c["entries"]) + c["n"][0][0]) % 3 == 0:
            # an independent copy.deepcopy of the rule whose table the caller then edits (an entry for the probed
            # combination added, changed or removed): each object answers with ITS OWN table, as read back from it
            import copy
            twin = copy.deepcopy(rule)
            try:
                if key in twin.rule_table and c["n"][2][2] % 2:
                    del twin.rule_table[key]
                else:
                    twin.rule_table[key] = (rt.get(key, 0) or 0) + 1
            except TypeError:
                return None           # a read-only table view: nothing to check
            for (nm, obj) in (("deep copy with its table edited", twin), ("original after its deep copy was edited", rule)):
                own = dict(obj.rule_table)
                try:
                    got = obj(np.array(n), (1, 1), 1)
                    if key not in own or own[key] != got:
                        return "%s answered %s for key %s, its own rule_table says %s" % (nm, got, key, own.get(key, "absent"))
                except ValueError:
                    if key in own:
                        return "%s: ValueError although the combination is in its own rule_table" % nm
    return None


def nontrivial(c, ans):
    if c["kind"] in ("table", "lookup"):
        return len(c["entries"]) >= 2
    return True
