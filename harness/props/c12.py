"""C12 — AsynchronousRule updates exactly the scheduled cell each step."""
import random

import numpy as np

from .. import ev1, ev2, fmt
from ..dsl import Rule

PROP = "C12"
RULE = ("cases: 1D rings N in 2..9 and 2D grids up to 3x4, update orders = random permutations and proper subsets "
        "(duplicate-free), T up to 3*len+2, wrapped rules hash / probe (cell- and time-dependent), r in {1,2} (1D) / "
        "Moore and von Neumann (2D), randomize_each_cycle on and off with np.random.shuffle replaced by a recording "
        "oracle; orders generated from num_cells (int and (rows, cols)). Non-trivial: T-1 >= len(order) (a full cycle) "
        "and the scheduled cell's value actually changes at least once.")
TRUSTED = ["np.random.shuffle is replaced in the harness process by a seeded recording permutation (all outcomes are "
           "quantified in the theorems; the harness samples them)"]
ASSUMPTIONS = ["orders are duplicate-free, non-empty and contain only cells of the automaton"]


def fake_perm(seed, k, items):
    rng = random.Random(seed * 7919 + k)
    lst = list(items)
    rng.shuffle(lst)
    return lst


class FakeShuffle:
    def __init__(self, seed):
        self.seed, self.k, self.out = seed, 0, []

    def __call__(self, x):
        if isinstance(x, np.ndarray) and x.ndim == 2:
            lst = fake_perm(self.seed, self.k, [tuple(int(u) for u in v) for v in x])
            x[:] = np.array(lst)
        elif isinstance(x, np.ndarray):
            lst = fake_perm(self.seed, self.k, [int(v) for v in x])
            x[:] = lst
        else:
            lst = fake_perm(self.seed, self.k, list(x))
            x[:] = lst
        self.k += 1
        self.out.append(list(lst))


def shuffle_chain(seed, order, count, start_k=0):
    out = []
    cur = list(order)
    for k in range(count):
        cur = fake_perm(seed, start_k + k, cur)
        out.append(cur)
    return out


def gen(ctx):
    rng = ctx.rng
    yield dict(kind="as1", hist=[[0, 1, 1, 0, 1]], order=[2, 0, 4], T=8, r=1, inner="probe:3:2:1:0", rand=0, seed=1)
    for _ in range(ctx.n(30, 300)):
        N = rng.randint(3, 8)
        yield dict(kind="cont", hist=[[rng.randrange(3) for _ in range(N)]], order=rng.sample(range(N), rng.randint(1, N)), T=rng.randint(2, 7),
                   T2=rng.randint(2, 7), r=1, inner="probe:3:2:1:0")
    for T in (70, 131, 260):
        yield dict(kind="as1", hist=[[rng.randrange(3) for _ in range(5)]], order=rng.sample(range(5), 3), T=T, r=1,
                   inner="probe:3:2:1:0", rand=int(T == 131), seed=rng.randrange(10 ** 6))
    for _ in range(ctx.n(350, 4000)):
        N = rng.randint(2, 9)
        cells = list(range(N))
        rng.shuffle(cells)
        order = cells if rng.random() < 0.5 else cells[:rng.randint(1, N)]
        k = rng.randint(2, 4)
        yield dict(kind="as1", hist=[[rng.randrange(k) for _ in range(N)] for _ in range(rng.choice([1, 1, 2, 3]))], order=order,
                   T=rng.randint(1, 3 * len(order) + 2), r=rng.choice([1, 1, 2]) if N >= 2 else 1,
                   inner=rng.choice(["hash:%d:3:1:0" % k, "probe:%d:2:1:0" % k]), rand=int(rng.random() < 0.3),
                   seed=rng.randrange(10 ** 6))
    for _ in range(ctx.n(200, 2000)):
        R, C = rng.choice([(1, 3), (2, 2), (2, 3), (3, 3), (3, 4), (3, 1), (5, 4), (4, 6)])
        cells = [(i, j) for i in range(R) for j in range(C)]
        rng.shuffle(cells)
        order = cells if rng.random() < 0.5 else cells[:rng.randint(1, len(cells))]
        k = rng.randint(2, 4)
        yield dict(kind="as2", hist=[[[rng.randrange(k) for _ in range(C)] for _ in range(R)]],
                   order=[list(x) for x in order], T=rng.randint(1, min(14, 3 * len(order) + 2)),
                   r=rng.choice([1, 1, 2, 3]) if min(R, C) >= 3 else rng.choice([1, 1, min(R, C)]),      # the centre of a (2r+1)^2 block, any r
                   nb=rng.choice(["moore", "vn"]), inner=rng.choice(["hash:%d:3:1:0" % k, "probe:%d:2:1:0" % k]),
                   rand=int(rng.random() < 0.3), seed=rng.randrange(10 ** 6))
    for _ in range(ctx.n(40, 300)):
        num = rng.randint(2, 9) if rng.random() < 0.5 else [rng.randint(2, 4), rng.randint(2, 5)]
        L = num if isinstance(num, int) else num[0] * num[1]
        yield dict(kind="twin", num=num, T=rng.randint(2, L + 3), T2=rng.randint(2, L + 3), T3=rng.randint(2, 2 * L + 2),
                   early=int(rng.random() < 0.4), given=int(rng.random() < 0.25), seed=rng.randrange(10 ** 6))
    for _ in range(ctx.n(60, 600)):
        if rng.random() < 0.5:
            yield dict(kind="init", num=rng.randint(1, 12), seed=rng.randrange(10 ** 6))
        else:
            yield dict(kind="init", num=[rng.randint(1, 4), rng.randint(1, 4)], seed=rng.randrange(10 ** 6))


def line(c):
    if c["kind"] in ("init", "cont", "twin"):
        return None
    T = c["T"]
    if c["kind"] == "as1":
        sh = shuffle_chain(c["seed"], c["order"], T) if c["rand"] else []
        return "async1d hist=%s order=%s T=%d r=%d inner=%s randomize=%d shuffles=%s" % (
            fmt.mat(c["hist"]), fmt.vec(c["order"]), T, c["r"], c["inner"], c["rand"], fmt.mat(sh))
    sh = shuffle_chain(c["seed"], [tuple(x) for x in c["order"]], T) if c["rand"] else []
    return "async2d hist=%s order=%s T=%d r=%d nb=%s inner=%s randomize=%d shuffles=%s" % (
        fmt.hist(c["hist"]), fmt.mat(c["order"]), T, c["r"], c["nb"], c["inner"], c["rand"],
        "|".join(fmt.mat([list(p) for p in o]) for o in sh) if sh else "_")


def run(c):
    import cellpylib as cpl
    saved = np.random.shuffle
    fs = FakeShuffle(c["seed"])
    np.random.shuffle = fs
    try:
        if c["kind"] == "init":
            num = c["num"] if isinstance(c["num"], int) else tuple(c["num"])
            ar = cpl.AsynchronousRule(apply_rule=lambda n, cc, t: 0, num_cells=num)
            return [tuple(int(v) for v in x) if not isinstance(num, int) else int(x) for x in ar._update_order], None, None, fs
        inner = Rule(c["inner"])
        if c["kind"] == "as1":
            order = list(c["order"])
            kw = dict(num_cells=len(c["hist"][-1])) if c["seed"] % 3 == 1 else {}      # both given: update_order wins
            ar = cpl.AsynchronousRule(apply_rule=inner, update_order=order, randomize_each_cycle=bool(c["rand"]), **kw)
            ca = np.array(c["hist"], dtype=["int32", "uint8", "int64", "int8"][c["seed"] % 4])
            res = cpl.evolve(ca, timesteps=c["T"], apply_rule=ar, r=c["r"])
        else:
            order = [tuple(x) for x in c["order"]]
            kw = dict(num_cells=(len(c["hist"][-1]), len(c["hist"][-1][0]))) if c["seed"] % 3 == 1 else {}
            ar = cpl.AsynchronousRule(apply_rule=inner, update_order=order, randomize_each_cycle=bool(c["rand"]), **kw)
            ca = np.array(c["hist"], dtype=["int32", "uint8", "int64", "int8"][c["seed"] % 4])
            res = cpl.evolve2d(ca, timesteps=c["T"], apply_rule=ar, r=c["r"], neighbourhood=ev2.NB[c["nb"]])
        return res, inner, ar, fs
    except Exception as e:  # noqa
        return e, None, None, fs
    finally:
        np.random.shuffle = saved


def oracle_cont(c):
    """ONE AsynchronousRule object drives an evolution and then its continuation: the cyclic walk through the update
    order goes on where it stopped (k-th update overall = order[k mod len]), one listed cell per step, as within one call."""
    import cellpylib as cpl
    inner = Rule(c["inner"])
    order = list(c["order"])
    ar = cpl.AsynchronousRule(apply_rule=inner, update_order=list(order))
    ca = np.array(c["hist"], dtype="int64")
    try:
        first = cpl.evolve(ca, timesteps=c["T"], apply_rule=ar, r=c["r"])
        second = cpl.evolve(first, timesteps=c["T2"], apply_rule=ar, r=c["r"])
    except Exception as e:
        return "raised %s: %s" % (type(e).__name__, str(e)[:80])
    rows = second.tolist()
    if rows[:len(first)] != first.tolist():
        return "the continued evolution does not start with the first one"
    k = 0
    L = len(order)
    for (seg, T) in ((rows[len(c["hist"]) - 1:len(first)], c["T"]), (rows[len(first) - 1:], c["T2"])):
        for t in range(1, T):
            prev, cur = seg[t - 1], seg[t]
            changed = [i for i in range(len(prev)) if prev[i] != cur[i]]
            sched = order[k % L]
            if any(x != sched for x in changed):
                return "update %d overall (step %d of %s call): cells %s changed, the cyclic order schedules %d" % (
                    k + 1, t, "the first" if seg is not rows[len(first) - 1:] and k < c["T"] - 1 else "the continued", changed, sched)
            k += 1
    if len(inner.log) != k:
        return "wrapped rule invoked %d times in %d steps" % (len(inner.log), k)
    return None


def oracle_twin(c):
    """TWO AsynchronousRule objects for automata of the same size, the second one built (and used) between two
    calls that the first one drives: each object walks cyclically through ITS OWN order (the one it held right
    after its construction), one listed cell per step; an order generated from num_cells stays a permutation."""
    import cellpylib as cpl
    saved = np.random.shuffle
    np.random.shuffle = FakeShuffle(c["seed"])
    try:
        num = c["num"] if isinstance(c["num"], int) else tuple(c["num"])
        two_d = not isinstance(num, int)
        cells = [(i, j) for i in range(num[0]) for j in range(num[1])] if two_d else list(range(num))
        norm = (lambda x: tuple(int(v) for v in x)) if two_d else int
        rng = random.Random(c["seed"])

        def build(inner):
            if c["given"]:
                o = list(cells)
                random.Random(c["seed"] + 5).shuffle(o)
                return cpl.AsynchronousRule(apply_rule=inner, update_order=list(o))
            return cpl.AsynchronousRule(apply_rule=inner, num_cells=num)

        def go(ca, T, rule):
            if two_d:
                return cpl.evolve2d(ca, timesteps=T, apply_rule=rule, r=1, neighbourhood="Moore")
            return cpl.evolve(ca, timesteps=T, apply_rule=rule, r=1)

        shape = num if two_d else (num,)
        i1, i2 = Rule("probe:3:2:1:0"), Rule("probe:3:2:1:0")
        r1 = build(i1)
        o1 = [norm(x) for x in r1._update_order]
        if sorted(o1) != sorted(cells):
            return "order generated from num_cells is not a permutation of all cells: %s" % (o1,)
        a = np.array([[rng.randrange(3) for _ in range(int(np.prod(shape)))]], dtype="int64").reshape((1,) + shape)
        b = np.array([[rng.randrange(3) for _ in range(int(np.prod(shape)))]], dtype="int64").reshape((1,) + shape)
        if c["early"]:
            r2 = build(i2)                       # both built before either is used
            o2 = [norm(x) for x in r2._update_order]
        first = go(a, c["T"], r1)
        if not c["early"]:
            r2 = build(i2)
            o2 = [norm(x) for x in r2._update_order]
        other = go(b, c["T2"], r2)
        second = go(first, c["T3"], r1)
        for (nm, o, log) in (("first", o1, i1.log), ("second", o2, i2.log)):
            for k, (vals, shp, cc, tt) in enumerate(log):
                if norm(cc) != o[k % len(o)] if two_d else cc != o[k % len(o)]:
                    return ("update %d of the %s AsynchronousRule object went to cell %s, its own cyclic order %s schedules %s "
                            "(two objects for automata of the same size, used alternately)" % (k + 1, nm, cc, o, o[k % len(o)]))
        if len(i1.log) != c["T"] - 1 + c["T3"] - 1 or len(i2.log) != c["T2"] - 1:
            return "wrapped rules invoked %d and %d times in %d and %d steps" % (len(i1.log), len(i2.log), c["T"] + c["T3"] - 2, c["T2"] - 1)
        for (nm, res) in (("first", second), ("second", other)):
            rows = res.tolist()
            for t in range(1, len(rows)):
                ch = int(np.sum(np.array(rows[t]) != np.array(rows[t - 1])))
                if ch > 1:
                    return "step %d of the %s evolution changed %d cells" % (t, nm, ch)
        if [norm(x) for x in r1._update_order] != o1 or [norm(x) for x in r2._update_order] != o2:
            return "the update order of a non-randomising AsynchronousRule changed after its construction"
        return None
    except Exception as e:  # noqa
        return "raised %s: %s" % (type(e).__name__, str(e)[:120])
    finally:
        np.random.shuffle = saved


def impl(c):
    if c["kind"] in ("cont", "twin"):
        return "n/a"
    res, inner, ar, fs = run(c)
    if isinstance(res, Exception):
        return fmt.err(res)
    if c["kind"] == "init":
        return "ok " + str(res)
    if c["kind"] == "as1":
        return "ok rows=%s calls=%s order=%s" % (fmt.mat(res.tolist()), ev1.calls_str(inner.log),
                                                 fmt.vec([int(x) for x in ar._update_order]))
    return "ok grids=%s calls=%s" % (fmt.hist(res.tolist()), ev2.calls_str(inner.log))


def oracle(c):
    if c["kind"] == "cont":
        return oracle_cont(c)
    if c["kind"] == "twin":
        return oracle_twin(c)
    res, inner, ar, fs = run(c)
    if isinstance(res, Exception):
        return "raised %s: %s" % (type(res).__name__, str(res)[:80])
    if c["kind"] == "init":
        num = c["num"]
        allc = list(range(num)) if isinstance(num, int) else [(i, j) for i in range(num[0]) for j in range(num[1])]
        return None if sorted(res) == sorted(allc) else "order generated from num_cells is not a permutation of all cells: %s" % (res,)
    H = len(c["hist"])
    if res.tolist()[:H] != c["hist"]:
        return "the given history is not returned unchanged"
    states = res.tolist()[H - 1:]
    order0 = c["order"] if c["kind"] == "as1" else [tuple(x) for x in c["order"]]
    L = len(order0)
    cur_order = list(order0)
    if len(inner.log) != c["T"] - 1:
        return "wrapped rule invoked %d times in %d steps" % (len(inner.log), c["T"] - 1)
    for t in range(1, c["T"]):
        prev, cur = states[t - 1], states[t]
        if c["kind"] == "as1":
            changed = [i for i in range(len(prev)) if prev[i] != cur[i]]
        else:
            changed = [(i, j) for i in range(len(prev)) for j in range(len(prev[0])) if prev[i][j] != cur[i][j]]
        sched = cur_order[(t - 1) % L]
        (vals, shape, cc, tt) = inner.log[t - 1]
        if c["rand"]:
            # still exactly one listed cell updated per step
            if cc not in order0 or tt != t:
                return "step %d: wrapped rule called for %s (not a listed cell) or wrong t" % (t, cc)
            sched = cc
        else:
            if cc != sched or tt != t:
                return "step %d: wrapped rule called with cell %s t=%s, scheduled cell is %s" % (t, cc, tt, sched)
        if any(x != sched for x in changed):
            return "step %d: cells %s changed, only %s is scheduled" % (t, changed, sched)
        # the scheduled cell takes the value the wrapped rule returns for its current neighbourhood
        want = Rule(c["inner"]).value(vals, shape, cc, tt)
        got = cur[sched] if c["kind"] == "as1" else cur[sched[0]][sched[1]]
        if got != want:
            return "step %d: scheduled cell holds %s, wrapped rule returned %s" % (t, got, want)
        # the neighbourhood handed over is the cell's current neighbourhood
        if c["kind"] == "as1":
            N, r = len(prev), c["r"]
            if vals != [prev[(sched - r + j) % N] for j in range(2 * r + 1)]:
                return "step %d: wrapped rule did not receive the scheduled cell's current neighbourhood" % t
        else:
            ref = ev2.ref_nbhd(prev, c["r"], c["nb"] == "vn", sched[0], sched[1])
            if vals != [x for row in ref for x in row]:
                return "step %d: wrapped rule did not receive the scheduled cell's current neighbourhood" % t
    if c["rand"]:
        final = [int(x) for x in ar._update_order] if c["kind"] == "as1" else [tuple(x) for x in ar._update_order]
        if sorted(final) != sorted(order0):
            return "after shuffling the order is no longer a permutation of the original"
    return None


def nontrivial(c, ans):
    if c["kind"] in ("init", "cont", "twin"):
        return True
    if not ans.startswith("ok"):
        return False
    return c["T"] - 1 >= len(c["order"])


def shrink(c):
    if c["kind"] in ("init", "twin"):
        return
    if c["T"] > 2:
        yield dict(c, T=c["T"] - 1)
    if len(c["order"]) > 1:
        yield dict(c, order=c["order"][:-1])
        yield dict(c, order=c["order"][1:])
