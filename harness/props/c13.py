"""C13 — ReversibleRule is second-order, time-reversible, and does not alias its input."""
import numpy as np

from .. import fmt

PROP = "C13"
RULE = ("cases: all rule numbers 0..255 (sampled), ring sizes 1..12, binary initial and previous states, T in 1..8, "
        "init_state given as a list, a fresh array, ca[0] or ca[-1] (views of the automaton that is then evolved, as in "
        "the README). Non-trivial: N>=3, T>=3, non-constant state and a rule that is neither 0 nor 255.")
TRUSTED = ["aliasing is invisible to the value-level model: caller buffers are snapshotted by the harness"]
ASSUMPTIONS = ["binary cell values (the documented domain of ReversibleRule)"]


def gen(ctx):
    rng = ctx.rng
    yield dict(kind="rev", hist=[[0, 1, 1, 0, 1, 0, 0, 1]], prev=[0, 1, 1, 0, 1, 0, 0, 1], R=90, T=4, form="view0")
    yield dict(kind="rev", hist=[[0, 1, 1, 0, 1, 0, 0, 1]], prev=[0, 1, 1, 0, 1, 0, 0, 1], R=90, T=4, form="viewlast")
    for dt in ("uint8", "int8", "int64", "uint16"):
        yield dict(kind="rev", hist=[[0, 0, 0, 1, 1, 0, 1, 1, 0]], prev=[0, 0, 0, 1, 1, 0, 1, 1, 0], R=90, T=6, form="view0", dtype=dt)
        yield dict(kind="rev", hist=[[0, 0, 0, 1, 1, 0, 1, 1, 0]], prev=[1, 0, 0, 1, 0, 0, 1, 1, 0], R=30, T=5, form="array", dtype=dt)
    for T in (70, 131, 260):
        row = [rng.randint(0, 1) for _ in range(7)]
        yield dict(kind="rev", hist=[row], prev=[rng.randint(0, 1) for _ in range(7)], R=rng.choice([90, 30, 150, 214]), T=T, form="array", dtype="int32")
    for _ in range(ctx.n(600, 6000)):
        N = rng.randint(1, 12)
        row = [rng.randint(0, 1) for _ in range(N)]
        form = rng.choice(["list", "array", "view0", "viewlast", "array"])
        H = rng.choice([1, 1, 2]) if form != "view0" else 1
        hist = [[rng.randint(0, 1) for _ in range(N)] for _ in range(H - 1)] + [row]
        prev = list(row) if form in ("view0", "viewlast") else [rng.randint(0, 1) for _ in range(N)]
        yield dict(kind="rev", hist=hist, prev=prev, R=rng.randrange(256), T=rng.randint(1, 8), form=form,
                   dtype=rng.choice(["int32", "int32", "int64", "uint8", "int8", "uint16", "int16"]),
                   scribble=int(form in ("list", "array") and rng.random() < 0.4),
                   split=rng.choice([0, 0, 1, 2, 3]), twin=int(form in ("list", "array") and rng.random() < 0.2),
                   bits=int(rng.random() < 0.2))


def line(c):
    return "reversible hist=%s prev=%s R=%d T=%d" % (fmt.mat(c["hist"]), fmt.vec(c["prev"]), c["R"], c["T"])


def run(c):
    import cellpylib as cpl
    dt = c.get("dtype", "int32")
    ca = np.array(c["hist"], dtype=dt)
    if c["form"] == "list":
        init = list(c["prev"])
    elif c["form"] == "array":
        init = np.array(c["prev"], dtype=dt)
    elif c["form"] == "view0":
        init = ca[0]
    else:
        init = ca[-1]
    if c.get("bits"):
        # the caller looked at the rule's bit table first and edited ITS copy (what int_to_bits returned is the caller's)
        b = cpl.int_to_bits(c["R"], 8)
        try:
            b[...] = np.arange(len(b)) % 2         # (not an involution: doing it twice must not undo it)
        except (TypeError, ValueError):
            pass
    rule = cpl.ReversibleRule(init, c["R"])
    if c.get("scribble"):
        # the caller goes on using its own data: the rule must have taken s(-1) at construction
        if c["form"] in ("view0", "viewlast"):
            init[...] = np.array(c["hist"][0 if c["form"] == "view0" else -1], dtype=dt)     # same values rewritten …
            if c["form"] == "view0" and len(c["hist"]) > 1:
                pass
        elif c["form"] == "list":
            init2 = init
            for i in range(len(init2)):
                init2[i] = 1 - init2[i]
        else:
            init[...] = 1 - init
    init_snapshot = [int(x) for x in init]
    ca_snapshot = ca.tobytes()
    try:
        if c.get("twin"):
            # an independent copy.deepcopy of the rule, taken before any use; the original drives an evolution
            # first, then the copy drives the one that is checked: the copy carries its own s(t-1)
            import copy
            spare = copy.deepcopy(rule)
            cpl.evolve(np.array(c["hist"], dtype=dt), timesteps=max(2, c["T"]), apply_rule=rule, r=1)
            rule = spare
        if c.get("split") and c["T"] >= 3:
            # the evolution is continued with the SAME rule object (it carries s(t-1)): same result as in one go
            T1 = 2 + (c["split"] % (c["T"] - 2 + 1)) if c["T"] > 2 else 2
            T1 = min(T1, c["T"] - 1)
            first = cpl.evolve(ca, timesteps=T1, apply_rule=rule, r=1)
            res = cpl.evolve(first, timesteps=c["T"] - T1 + 1, apply_rule=rule, r=1)
        else:
            res = cpl.evolve(ca, timesteps=c["T"], apply_rule=rule, r=1)
    except Exception as e:  # noqa
        return None, e, None, None, None
    caller_ok = ca.tobytes() == ca_snapshot
    init_ok = [int(x) for x in init] == init_snapshot
    return res, None, caller_ok, init_ok, [int(x) for x in rule._previous_state]


def impl(c):
    res, exc, caller_ok, init_ok, prev = run(c)
    if exc is not None:
        return fmt.err(exc)
    return "ok rows=%s prev=%s" % (fmt.mat(res.tolist()), fmt.vec(prev))


def f_R(R, row):
    N = len(row)
    return [(R >> (4 * row[(i - 1) % N] + 2 * row[i] + row[(i + 1) % N])) & 1 for i in range(N)]


def oracle(c):
    res, exc, caller_ok, init_ok, prev_after = run(c)
    if exc is not None:
        return "evolve with ReversibleRule raised %s" % type(exc).__name__
    H = len(c["hist"])
    rows = res.tolist()
    if rows[:H] != c["hist"]:
        return "row 0.. of the result is not the given history / initial state (got %s)" % rows[:H]
    if not caller_ok:
        return "the caller's automaton array was modified (init_state form %s)" % c["form"]
    if c["form"] in ("list", "array") and not init_ok:
        # the documented behaviour keeps the caller's init_state intact as well
        return "the caller's init_state was modified"
    # s(t+1) = f_R(s(t)) xor s(t-1)
    s_prev, s_cur = list(c["prev"]), list(c["hist"][-1])
    for t in range(1, c["T"]):
        nxt = [a ^ b for a, b in zip(f_R(c["R"], s_cur), s_prev)]
        if rows[H + t - 1] != nxt:
            return "step %d is not f_R(s(t)) xor s(t-1)" % t
        s_prev, s_cur = s_cur, nxt
    # time reversal: restart from the last two states with roles swapped
    if c["T"] >= 2:
        import cellpylib as cpl
        last, before = rows[-1], rows[-2] if len(rows) >= 2 else None
        ca2 = np.array([before], dtype=c.get("dtype", "int32"))
        back = cpl.evolve(ca2, timesteps=c["T"], apply_rule=cpl.ReversibleRule(list(last), c["R"]), r=1).tolist()
        want = list(reversed(rows[H - 1:-1])) + [list(c["prev"])]
        if back != want:
            return "restarting from the last two states with roles swapped does not retrace the history"
    return None


def nontrivial(c, ans):
    row = c["hist"][-1]
    return ans.startswith("ok") and len(row) >= 3 and c["T"] >= 3 and len(set(row)) > 1 and c["R"] not in (0, 255)


def shrink(c):
    if c["T"] > 2:
        yield dict(c, T=c["T"] - 1)
    if len(c["hist"]) > 1:
        yield dict(c, hist=c["hist"][1:])
    N = len(c["prev"])
    if N > 1:
        yield dict(c, hist=[r[:-1] for r in c["hist"]], prev=c["prev"][:-1])
