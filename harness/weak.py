"""States built so that two *different* blocks (or neighbourhoods) of one automaton collide under the weak digests a
"compact cache key" might be built from: CRC-32 (affine over GF(2): a collision is a linear-algebra exercise once a
block has more than 32 binary cells), Adler-32 / byte sum / weighted byte sum (two ones moved symmetrically).
A memo table must be keyed by the content itself; these cases make any digest-keyed table answer wrongly."""
import zlib

import numpy as np


def _crc(v, dtype):
    return zlib.crc32(np.array(v, dtype=dtype).tobytes())


def crc_partner(base, free, dtype):
    """A vector differing from `base` (0/1 cells) only at positions in `free`, with the same CRC-32; None if none found."""
    c0 = _crc(base, dtype)
    vecs = []
    for i in free:
        b = list(base)
        b[i] ^= 1
        vecs.append(_crc(b, dtype) ^ c0)
    # Gaussian elimination over GF(2), tracking combinations
    basis = {}          # pivot bit -> (vector, subset mask)
    for j, v in enumerate(vecs):
        mask = 1 << j
        while v:
            p = v.bit_length() - 1
            if p not in basis:
                basis[p] = (v, mask)
                break
            bv, bm = basis[p]
            v ^= bv
            mask ^= bm
        if v == 0:
            out = list(base)
            for jj in range(len(free)):
                if mask >> jj & 1:
                    out[free[jj]] ^= 1
            if out != list(base) and _crc(out, dtype) == c0:
                return out
    return None


def adler_partner(base, free):
    """Same multiset of bytes and same position-weighted sum (so equal Adler-32, equal byte sum): ones at p, s moved to q, r
    with p + s = q + r. `base` must be 0 at the four positions. Returns (a, b)."""
    for p in free:
        for s in reversed(free):
            if s - p >= 3:
                q, r = p + 1, s - 1
                if q in free and r in free and all(base[i] == 0 for i in (p, q, r, s)):
                    a, b = list(base), list(base)
                    a[p] = a[s] = 1
                    b[q] = b[r] = 1
                    return a, b
    return None
