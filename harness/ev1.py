"""Shared 1D evolve case format, implementation runner and independent reference (C01/C03/C05/C06/C09).

case = dict(kind=…, hist=[[…],…] (scaled ints), dtype='int32', scale=1|4, r=…, rule='hash:3:2:1:0',
            T=… | pred='steps:3', memo='False'|'True'|'recursive_lit'|'recursive_built'|'bad:<x>')
"""
import numpy as np

from . import fmt
from .dsl import Rule, Pred

MEMO_MODE = {"False": "plain", "True": "memo", "recursive_lit": "rec", "recursive_built": "rec"}


def memo_value(m):
    if m == "False":
        return False
    if m == "True":
        return True
    if m == "recursive_lit":
        return "recursive"
    if m == "recursive_built":
        return "".join(["recur", "sive"])          # equal to 'recursive', not the interned literal
    if m.startswith("bad:"):
        v = m[4:]
        return {"None": None, "2": 2, "Recursive": "Recursive", "x": "x", "recursive ": "recursive ",
                "memo": "memo"}.get(v, v)
    raise ValueError(m)


def mode_of(m):
    return MEMO_MODE.get(m, "bad")


def line(c, with_mode=None):
    s = "evolve1d hist=%s r=%d mode=%s rule=%s" % (fmt.mat(c["hist"]), c["r"], with_mode or mode_of(c["memo"]), c["rule"])
    if "T" in c:
        s += " T=%d" % c["T"]
    else:
        s += " pred=%s fuel=%d" % (c["pred"], c.get("fuel", 400))
    return s


def make_ca(c):
    a = np.array(c["hist"], dtype=object if c["dtype"] == "uint64" else np.int64)
    if c.get("scale", 1) != 1:
        a = (a.astype(np.float64) / c["scale"]).astype(c["dtype"])
    else:
        a = a.astype(c["dtype"])
    return with_layout(a, c.get("layout"))


def with_layout(a, layout):
    """The same values in another memory layout (what a caller may legitimately hand over):
    F = Fortran order; rev = a reversed view of reversed data (negative strides); str = every other column of a wider
    buffer; T = (2D automata) each grid a transposed view."""
    if layout == "ro":                    # a read-only array (np.load(mmap_mode='r'), a frozen result, ...)
        a = a.copy()
        a.flags.writeable = False
        return a
    if not layout or layout == "C" or a.ndim < 2 or a.size == 0:
        return a
    if layout == "F":
        return np.asfortranarray(a)
    if layout == "rev":
        sl = (slice(None),) + (slice(None, None, -1),) * (a.ndim - 1)
        return np.ascontiguousarray(a[sl])[sl]
    if layout == "str":
        wide = np.zeros(a.shape[:-1] + (2 * a.shape[-1],), dtype=a.dtype)
        wide[..., ::2] = a
        return wide[..., ::2]
    if layout == "T" and a.ndim == 3:
        return np.swapaxes(np.ascontiguousarray(np.swapaxes(a, 1, 2)), 1, 2)
    return a


def scaled_rows(arr, c):
    from .dsl import exact_rows
    return exact_rows(arr, c.get("scale", 1))


def calls_str(log):
    if not log:
        return "_"
    return "/".join("%s@%d@%d" % (fmt.vec(v), cc, t) for (v, shape, cc, t) in log)


class Run:
    """Result of running the real `evolve` on a case, with the monitors the pure model cannot carry."""
    pass


def shaped(fn, form, nargs=3):
    """The same callable in another shape (what users actually pass): the library must treat them alike."""
    import functools
    if not form or form == "obj":
        return fn
    if form == "lambda":
        return (lambda n, c, t: fn(n, c, t)) if nargs == 3 else (lambda a, t: fn(a, t))
    if form == "defaults":          # all but the first parameter have defaults: still a 3- (2-) argument callable
        if nargs == 3:
            def with_defaults(n, c=0, t=0):
                return fn(n, c, t)
        else:
            def with_defaults(a, t=1):
                return fn(a, t)
        return with_defaults
    if form == "partial":
        return functools.partial(lambda tag, *a: fn(*a), "tag")
    if form == "star":
        return lambda *a: fn(*a)
    if form == "method":
        return fn.__call__
    if form.startswith("sub_") and nargs == 3:
        # the user's rule is a SUBCLASS of one of the library's rule classes that overrides __call__ entirely
        import cellpylib as cpl
        cls, args = {"sub_total": (cpl.TotalisticRule, (2, 6)), "sub_nks": (cpl.NKSRule, (30,)),
                     "sub_binary": (cpl.BinaryRule, (30,)), "sub_base": (cpl.BaseRule, ())}[form]

        class UserRule(cls):
            def __call__(self, n, c, t):
                return fn(n, c, t)
        return UserRule(*args)
    return fn


def np_scalar(x, form):
    """An integer parameter as a NumPy scalar (taken from an array, a config table, ...)."""
    if form == "np64":
        return np.int64(x)
    if form == "np32":
        return np.int32(x)
    return x


def strict_ctx(on):
    """np.seterr(all='raise') + warnings as errors, as some callers run their whole program."""
    import contextlib
    import warnings
    st = contextlib.ExitStack()
    if on:
        st.enter_context(np.errstate(all="raise"))
        st.enter_context(warnings.catch_warnings())
        warnings.simplefilter("error")
    return st


def nested_of(c, ca, memo=None):
    if not c.get("nested"):
        return None
    m = memo_value(memo if memo is not None else c["memo"])
    return dict(dim=ca.ndim - 1, shape=ca.shape[1:], dtype=ca.dtype, r=c["r"], T=c.get("T", 3), dyn="T" not in c,
                nb={"moore": "Moore", "vn": "von Neumann"}.get(c.get("nb"), "Moore"), memo=m if m in (False, True, "recursive") else False)


def run_impl(c, memo=None):
    import cellpylib as cpl
    ca = make_ca(c)
    snapshot = ca.tobytes()
    rule = Rule(c["rule"], c.get("scale", 1), clobber=bool(c.get("clobber")), mixret=c.get("mixret") or False,
                nested=nested_of(c, ca, memo))
    pred = None
    if "T" in c:
        ts = c["T"]
    else:
        pred = Pred(c["pred"], c.get("scale", 1))
        ts = shaped(pred, c.get("callform"), 2)
    out = Run()
    out.rule, out.pred, out.ca = rule, pred, ca
    out.exc = None
    import contextlib
    import warnings
    strict = contextlib.ExitStack()
    if c.get("strict"):
        # the caller runs with NumPy errors raised and warnings as errors: integer automata and rules give no cause for either
        strict.enter_context(np.errstate(all="raise"))
        cw = warnings.catch_warnings()
        strict.enter_context(cw)
        warnings.simplefilter("error")
    if c.get("prelude"):
        from . import prelude
        prelude.run1d(c, ca, memo_value(memo if memo is not None else c["memo"]))
    try:
      with strict:
        out.res = cpl.evolve(ca, timesteps=np_scalar(ts, c.get("npform")) if "T" in c else ts,
                               apply_rule=shaped(rule, c.get("callform")), r=np_scalar(c["r"], c.get("npform")),
                               memoize=memo_value(memo if memo is not None else c["memo"]))
    except Exception as e:  # noqa
        out.exc = e
        out.res = None
    out.input_intact = (ca.tobytes() == snapshot and ca.dtype == np.dtype(c["dtype"]))
    return out


def answer(c, run, with_calls=True):
    if run.exc is not None:
        return fmt.err(run.exc)
    s = "ok rows=" + fmt.mat(scaled_rows(run.res, c))
    if with_calls:
        s += " calls=" + calls_str(run.rule.log)
    return s


def strip_calls(ans):
    i = ans.find(" calls=")
    return ans if i < 0 else ans[:i]


# --------------------------------------------------------------------------------------------
# Independent reference: synchronous update of a ring by modular arithmetic (no NumPy tricks)
# --------------------------------------------------------------------------------------------

def ref_evolve(c, steps=None):
    """Returns (rows incl. history, call log) of the reference for `steps` new rows (T-1)."""
    rule = Rule(c["rule"], 1)
    hist = [list(r) for r in c["hist"]]
    N = len(hist[-1])
    r = c["r"]
    cur = hist[-1]
    rows = [list(x) for x in hist]
    k = steps if steps is not None else c["T"] - 1
    for t in range(1, k + 1):
        nxt = []
        for cell in range(N):
            n = [cur[(cell - r + j) % N] for j in range(2 * r + 1)]
            rule(np.array(n, dtype=object if any(abs(x) >= 2 ** 53 for x in n) else None), cell, t)
            nxt.append(int(rule.stored()))
        rows.append(nxt)
        cur = nxt
    return rows, rule.log


# ----------------------------------------------------------------------------------------------
# Float automata whose rule produces NaN / inf (0/0, x/0): oracle-only cases, compared bit for bit
# ----------------------------------------------------------------------------------------------

def nf_rule(n, c, t):
    """Pure: the centre divided by the sum of the (unmasked) neighbourhood. 0/0 = NaN, x/0 = +-inf (NumPy scalars: no raise)."""
    import warnings
    a = np.ma.getdata(n)
    centre = a[len(a) // 2] if a.ndim == 1 else a[a.shape[0] // 2][a.shape[1] // 2]
    with warnings.catch_warnings():
        warnings.simplefilter("ignore")
        return centre / np.sum(n)


def nf_automaton(c):
    rng = np.random.RandomState(c["seed"])
    vals = np.array([0.0, 0.0, 0.0, 1.0, -1.0, 2.0])
    shape = (c.get("H", 1), c["N"]) if c["dim"] == 1 else (c.get("H", 1), 3, c["N"])
    return vals[rng.randint(0, len(vals), size=shape)].astype(c.get("dtype", "float64"))


def nf_evolve(c, ca, ts, memo):
    import cellpylib as cpl
    import warnings
    with warnings.catch_warnings():
        warnings.simplefilter("ignore")
        if c["dim"] == 1:
            return cpl.evolve(ca, timesteps=ts, apply_rule=nf_rule, r=1, memoize=memo_value(memo))
        return cpl.evolve2d(ca, timesteps=ts, apply_rule=nf_rule, r=1, neighbourhood=c.get("nb", "Moore"), memoize=memo_value(memo))
