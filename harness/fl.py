"""Float transport: the driver prints the IEEE-754 bit pattern (never text); comparison is by tolerance."""
import math
import struct


def bits_to_float(b):
    return struct.unpack("<d", struct.pack("<Q", int(b)))[0]


def float_to_bits(x):
    return struct.unpack("<Q", struct.pack("<d", float(x)))[0]


def close(a, b, tol=1e-9):
    if math.isnan(a) or math.isnan(b):
        return math.isnan(a) and math.isnan(b)
    return abs(a - b) <= tol * max(1.0, abs(a), abs(b))


def split_f(ans):
    """'ok f=<bits> rest' -> (float, rest) ; other answers -> (None, ans)"""
    if not ans.startswith("ok f="):
        return None, ans
    parts = ans.split(" ")
    return bits_to_float(parts[1][2:]), " ".join(parts[2:])


def compare(a, b, tol=1e-9):
    fa, ra = split_f(a)
    fb, rb = split_f(b)
    if fa is None or fb is None:
        return a == b
    return close(fa, fb, tol) and ra == rb
