"""Printers shared with the Lean driver (lean/Cpl/Driver/Proto.lean)."""


def vec(v):
    v = list(v)
    return "_" if len(v) == 0 else ",".join(str(int(x)) for x in v)


def mat(m):
    m = list(m)
    return "_" if len(m) == 0 else ";".join(vec(r) for r in m)


def hist(h):
    return "|".join(mat(g) for g in h)


def ovec(v):
    return "_" if len(v) == 0 else ",".join("x" if x is None else str(int(x)) for x in v)


def omat(m):
    return "_" if len(m) == 0 else ";".join(ovec(r) for r in m)


ERRS = {"ValueError": "ValueError", "TypeError": "TypeError", "IndexError": "IndexError",
        "AssertionError": "AssertionError", "OverflowError": "OverflowError", "Exception": "Exception"}


def err(e):
    """Map an exception to the model's small enum (kinds only, never messages)."""
    n = type(e).__name__
    return "err " + ERRS.get(n, "Other:" + n)
