"""What the surrounding program did with the library BEFORE the call that is checked.

A property about `evolve(...)` holds whatever the process did earlier: an evolution aborted by an exception of the user's
rule (and caught by the caller), other public functions run on a lattice of the same size, the same sizes with another
radius / neighbourhood / memoize mode, rule objects built inline and already garbage-collected (so that new objects land
on their addresses). None of this may change the result of the checked call. `c["prelude"]` is a list of step names; the
steps only use fresh copies of the case's automaton and their own throw-away rules, so on a library without hidden
cross-call state they are no-ops for the checked call.
"""
import gc

import numpy as np


class Abort(Exception):
    """Raised by the user's callable part-way through an evolution (a table-driven rule meeting an unknown state...)."""


def _poison_rule(after, dim):
    """A pure rule different from the DSL rules (leftmost cell of the block), raising on call number `after` + 1."""
    st = {"k": 0}

    def rule(n, c, t):
        st["k"] += 1
        if st["k"] > after:
            raise Abort("unknown state")
        a = np.asarray(n)
        return a.flat[0]
    return rule


def _first(n, c, t):
    return np.asarray(n).flat[0]


def _last(n, c, t):
    return np.asarray(n).flat[-1]


def _divisor(n):
    for b in (2, 3, 5, 7):
        if n % b == 0:
            return b
    return None


def run1d(c, ca, memo):
    """Prelude steps around a 1-D evolve case; `ca` is the case's automaton (copied here, never modified)."""
    import cellpylib as cpl
    N = ca.shape[1]
    r = int(c["r"])
    for step in c.get("prelude") or []:
        try:
            if step == "poison":
                # the rule raises during the second step: the entries of the first step are already stored
                cpl.evolve(ca.copy(), timesteps=4, apply_rule=_poison_rule(N + max(1, N // 2), 1), r=r, memoize=memo)
            elif step == "poison_pred":
                def pred(a, t):
                    if t >= 3:
                        raise Abort("predicate failed")
                    return True
                cpl.evolve(ca.copy(), timesteps=pred, apply_rule=_first, r=r, memoize=memo)
            elif step == "other_r":
                cpl.evolve(ca.copy(), timesteps=3, apply_rule=_last, r=r + 1, memoize=memo)
                cpl.evolve(ca.copy(), timesteps=3, apply_rule=_last, r=r + 1, memoize="recursive")
            elif step == "other_memo":
                for m in (True, "recursive", False):
                    cpl.evolve(ca.copy(), timesteps=3, apply_rule=_last, r=r, memoize=m)
            elif step == "block":
                b = _divisor(N)
                if b:
                    cpl.evolve_block(ca[-1:].copy(), block_size=b, timesteps=3, apply_rule=lambda n, t: tuple(n))
            elif step == "ghost":
                # rule objects built inline, used once (callable timesteps and a fixed count), and dropped
                for k in (30, 90, 110, 54):
                    cpl.evolve(ca.copy(), timesteps=lambda a, t: t < 3, apply_rule=cpl.NKSRule(k) if r == 1 and _binary(ca) else (lambda n, c_, t, k=k: np.asarray(n).flat[k % len(n)]),
                               r=r, memoize=memo)
                    cpl.evolve(ca.copy(), timesteps=3, apply_rule=lambda n, c_, t, k=k: np.asarray(n).flat[k % len(n)], r=r, memoize=memo)
                gc.collect()
        except Abort:
            pass            # the caller catches its own rule's exception and carries on
        except Exception:   # noqa  a prelude step the library rejects (radius too large ...) is simply not part of this program
            pass


def _binary(ca):
    try:
        return ca.dtype.kind in "iu" and int(ca.min()) >= 0 and int(ca.max()) <= 1
    except Exception:  # noqa
        return False


def run2d(c, ca, memo, nb, rule=None):
    """Prelude steps around a 2-D evolve case. `rule`: the case's own rule object, for the steps that reuse it."""
    import cellpylib as cpl
    R, C = ca.shape[1], ca.shape[2]
    r = int(c["r"])
    other_nb = "von Neumann" if nb == "Moore" else "Moore"
    for step in c.get("prelude") or []:
        try:
            if step == "poison":
                cpl.evolve2d(ca.copy(), timesteps=4, apply_rule=_poison_rule(R * C + max(1, R * C // 2), 2), r=r, neighbourhood=nb, memoize=memo)
            elif step == "other_r":
                for m in (memo, "recursive"):
                    cpl.evolve2d(ca.copy(), timesteps=3, apply_rule=_last, r=r + 1, neighbourhood=nb, memoize=m)
            elif step == "other_nb":
                for m in (memo, "recursive", True):
                    cpl.evolve2d(ca.copy(), timesteps=3, apply_rule=_last, r=r, neighbourhood=other_nb, memoize=m)
            elif step == "other_memo":
                for m in (True, "recursive", False):
                    cpl.evolve2d(ca.copy(), timesteps=3, apply_rule=_last, r=r, neighbourhood=nb, memoize=m)
            elif step == "same_rule_other_nb" and rule is not None:
                # the SAME rule object drives an evolution with the other neighbourhood type first
                keep = {k: (list(v) if isinstance(v, list) else v) for k, v in rule.__dict__.items()}
                try:
                    for m in ("recursive", True):
                        cpl.evolve2d(ca.copy(), timesteps=3, apply_rule=rule, r=r, neighbourhood=other_nb, memoize=m)
                finally:
                    # the harness's own recording state of the rule object (call log ...) is put back: only the library may remember
                    for k in list(rule.__dict__):
                        if k not in keep:
                            del rule.__dict__[k]
                    rule.__dict__.update(keep)
            elif step == "ghost":
                for k in (1, 2, 3, 4):
                    cpl.evolve2d(ca.copy(), timesteps=lambda a, t: t < 3, apply_rule=lambda n, c_, t, k=k: np.asarray(n).flat[k % np.asarray(n).size],
                                 r=r, neighbourhood=nb, memoize=memo)
                gc.collect()
        except Abort:
            pass
        except Exception:   # noqa
            pass


STEPS_1D = ["poison", "poison_pred", "other_r", "other_memo", "block", "ghost"]
STEPS_2D = ["poison", "other_r", "other_nb", "other_memo", "same_rule_other_nb", "ghost"]


def choose(rng, dim, pure_rule=True):
    """One or two prelude steps for a case."""
    pool = list(STEPS_1D if dim == 1 else STEPS_2D)
    if not pure_rule and "same_rule_other_nb" in pool:
        pool.remove("same_rule_other_nb")
    k = 1 if rng.random() < 0.6 else 2
    return rng.sample(pool, k)
