"""Shared runner for the Lean-model / implementation correspondence checks.

Every property module `harness/props/cXX.py` exposes

    PROP      = "CXX"
    RULE      = "<how cases are generated; what makes one non-trivial / distinct>"
    def gen(ctx)              -> iterable of JSON-serialisable case dicts (corpus first, then generated)
    def line(case)            -> str | None     driver line for the case (None: no model tie for it)
    def impl(case)            -> str            the implementation's answer rendered like the driver's
    def oracle(case)          -> str | None     direct check of the property on the implementation
                                                alone; None = holds, str = which clause failed
    def nontrivial(case, ans) -> bool           (optional)
    def shrink(case)          -> iterable of smaller cases (optional)
    def search(ctx)           -> iterable of cases for the failing-input search (optional; defaults
                                 to the thorough generator)

The runner builds the proofs, audits axioms, runs the cases on the implementation (in worker
processes) and on the Lean driver (one batch), compares, and produces verdict + evidence.
"""
import hashlib
import importlib
import json
import multiprocessing as mp
import os
import random
import re
import subprocess
import sys
import time
import traceback

VERIF = os.path.dirname(os.path.dirname(os.path.abspath(__file__)))
# evidence/ is rewritten by every run against /repo; the self-test and seed tools (which run the checks on
# deliberately broken trees) redirect it so that the committed evidence always describes the real tree
EVIDENCE_DIR = os.environ.get("VERIF_EVIDENCE_DIR") or os.path.join(VERIF, "evidence")
LEAN = os.path.join(VERIF, "lean")
REPO = os.environ.get("VERIF_REPO", "/repo")
DRIVER = os.path.join(LEAN, ".lake", "build", "bin", "driver")
ALLOWED_AXIOMS = {"propext", "Classical.choice", "Quot.sound"}
FORBIDDEN = re.compile(r"\bsorry\b|\badmit\b|^\s*axiom\s|native_decide|bv_decide|implemented_by|\bunsafe\s|maxHeartbeats\s+0")

os.environ.setdefault("MPLBACKEND", "Agg")
os.environ["PYTHONDONTWRITEBYTECODE"] = "1"
sys.dont_write_bytecode = True


def setup_repo_import():
    """Make `import cellpylib` resolve to the working tree under test."""
    if sys.path[0] != REPO:
        sys.path.insert(0, REPO)
    import warnings
    warnings.filterwarnings("ignore")
    import cellpylib  # noqa: F401
    p = os.path.dirname(os.path.abspath(cellpylib.__file__))
    if not p.startswith(os.path.abspath(REPO)):
        raise RuntimeError("cellpylib imported from %s, not from %s" % (p, REPO))
    return cellpylib


class Ctx:
    def __init__(self, prop, tier, seed):
        self.prop = prop
        self.tier = tier
        self.seed = seed
        self.rng = random.Random(seed * 1000003 + int(hashlib.sha1(prop.encode()).hexdigest()[:8], 16))
        self.notes = []
        self.extra_coverage = {}

    def n(self, quick, thorough):
        """Case count for the current tier."""
        return thorough if self.tier == "thorough" else quick


# ----------------------------------------------------------------------------------------------
# Lean side: translate, build, audit
# ----------------------------------------------------------------------------------------------

def sh(cmd, cwd=None, timeout=3600):
    p = subprocess.run(cmd, cwd=cwd, stdout=subprocess.PIPE, stderr=subprocess.STDOUT, text=True,
                       timeout=timeout)
    return p.returncode, p.stdout


def translate():
    """Regenerate Cpl/Gen/*.lean from /repo's current source (table literals + decision-logic functions).
    Returns (ok, message)."""
    msgs = []
    ok = True
    for tool in ("translate.py", "py2lean.py", "py2lean_typed.py", "py2lean_frag.py", "py2lean_comp.py"):
        tr = os.path.join(VERIF, "tools", tool)
        if not os.path.exists(tr):
            continue
        rc, out = sh([sys.executable, tr, "--repo", REPO, "--out", os.path.join(LEAN, "Cpl", "Gen")])
        ok = ok and rc == 0
        msgs.append(out.strip())
    return ok, " | ".join(msgs)


TIE_DOWN = set()      # source-tie modules (Ties/Cxx*.lean) that did not rebuild in this run


def tie_modules(prop):
    """The property's source-tie modules: Ties/Cxx.lean and Ties/Cxx<Part>.lean (helper modules *Lemmas.lean are imported
    by them, not audited on their own). Each is built, and may fail, independently of the others."""
    d = os.path.join(LEAN, "Cpl", "Ties")
    out = []
    for f in sorted(os.listdir(d)) if os.path.isdir(d) else []:
        if re.fullmatch(re.escape(prop) + r"([A-Z][A-Za-z0-9]*)?\.lean", f) and not f.endswith("Lemmas.lean"):
            out.append("Cpl.Ties." + f[:-5])
    return out


def tie_module(prop):
    ms = tie_modules(prop)
    return " ".join(ms) if ms else None


def prop_modules(prop):
    """Lean modules whose theorems are audited: Properties/Cxx (the property's obligations, about the hand model)
    + the Ties/Cxx* modules (translated source = model) that rebuilt in this run."""
    return ["Cpl.Properties." + prop] + [m for m in tie_modules(prop) if m not in TIE_DOWN]


def lake_build(targets):
    rc, out = sh(["lake", "build"] + targets, cwd=LEAN, timeout=3000)
    return rc == 0, out


def property_theorems(prop):
    """Names of the (non-private) theorems in the property's obligation modules, in file order."""
    names, srcs = [], []
    for m in prop_modules(prop):
        n, s_ = module_theorems(os.path.join(LEAN, *m.split(".")) + ".lean")
        names += n
        srcs.append(s_)
    return names, "\n".join(srcs)


def module_theorems(path):
    src = open(path).read()
    # strip block comments and line comments
    src_nc = re.sub(r"/-.*?-/", lambda m: "\n" * m.group(0).count("\n"), src, flags=re.S)
    src_nc = re.sub(r"--.*", "", src_nc)
    ns = []
    names = []
    for ln in src_nc.splitlines():
        m = re.match(r"\s*namespace\s+(\S+)", ln)
        if m:
            ns.append(m.group(1))
            continue
        m = re.match(r"\s*end\s+(\S+)", ln)
        if m and ns and ns[-1] == m.group(1):
            ns.pop()
            continue
        m = re.match(r"\s*(?:@\[[^\]]*\]\s*)?(private\s+)?(?:protected\s+)?theorem\s+(\S+)", ln)
        if m and not m.group(1):
            names.append(".".join(ns + [m.group(2)]))
    return names, src_nc


def import_closure(module):
    """Transitive `import Cpl.*` closure of a module (file paths under lean/)."""
    seen = {}
    todo = [module]
    while todo:
        m = todo.pop()
        if m in seen:
            continue
        path = os.path.join(LEAN, *m.split(".")) + ".lean"
        if not os.path.exists(path):
            continue
        seen[m] = path
        for ln in open(path):
            mm = re.match(r"\s*import\s+(Cpl\.\S+)", ln)
            if mm:
                todo.append(mm.group(1))
    return seen


def forbidden_tokens(prop):
    """grep the property's import closure (and the driver's) for proof escapes outside comments."""
    hits = []
    files = {}
    for m in prop_modules(prop):
        files.update(import_closure(m))
    files.update(import_closure("Main"))
    for p in sorted(set(files.values())):
        src = open(p).read()
        src_nc = re.sub(r"/-.*?-/", lambda m: "\n" * m.group(0).count("\n"), src, flags=re.S)
        src_nc = re.sub(r"--.*", "", src_nc)
        for i, ln in enumerate(src_nc.splitlines(), 1):
            if FORBIDDEN.search(ln):
                hits.append("%s:%d: %s" % (os.path.relpath(p, LEAN), i, ln.strip()))
    return hits


def audit(prop):
    """Build the property's theorems and print their axioms.
    Returns dict(obligations, discharged, axioms, theorems, failed, log)."""
    names, _ = property_theorems(prop)
    os.makedirs(os.path.join(LEAN, ".audit"), exist_ok=True)
    apath = os.path.join(LEAN, ".audit", prop + ".lean")
    with open(apath, "w") as f:
        for m in prop_modules(prop):
            f.write("import %s\n" % m)
        for n in names:
            f.write("#print axioms %s\n" % n)
    rc, out = sh(["lake", "env", "lean", apath], cwd=LEAN, timeout=1200)
    per = {}
    cur = None
    text = out.replace("\n  ", " ")
    for m in re.finditer(r"'([^']+)' depends on axioms: \[([^\]]*)\]|'([^']+)' does not depend on any axioms", text):
        if m.group(1):
            per[m.group(1)] = [a.strip() for a in m.group(2).split(",") if a.strip()]
        else:
            per[m.group(3)] = []
    discharged = 0
    bad = []
    used = set()
    for n in names:
        if n in per and set(per[n]) <= ALLOWED_AXIOMS:
            discharged += 1
            used |= set(per[n])
        else:
            bad.append(n)
    return dict(obligations=len(names), discharged=discharged, axioms=sorted(used), theorems=names,
                failed=bad, rc=rc, log=out[-4000:])


# ----------------------------------------------------------------------------------------------
# Driver
# ----------------------------------------------------------------------------------------------

def run_driver(lines):
    if not lines:
        return []
    data = "".join(l + "\n" for l in lines)
    p = subprocess.run([DRIVER], input=data, stdout=subprocess.PIPE, stderr=subprocess.PIPE, text=True,
                       timeout=3000)
    out = p.stdout.splitlines()
    if p.returncode != 0 or len(out) != len(lines):
        raise RuntimeError("driver failed rc=%s got %d answers for %d lines; stderr=%s"
                           % (p.returncode, len(out), len(lines), p.stderr[-2000:]))
    return out


# ----------------------------------------------------------------------------------------------
# Implementation side (worker processes)
# ----------------------------------------------------------------------------------------------

_MOD = None


def _worker_init(modname):
    global _MOD
    setup_repo_import()
    _MOD = importlib.import_module(modname)


CASE_TIMEOUT = int(os.environ.get("VERIF_CASE_TIMEOUT", "120"))


class CaseTimeout(BaseException):
    pass


def _alarm(signum, frame):
    raise CaseTimeout()


def _worker_eval(case):
    """Implementation answer + direct oracle for one case, each under a wall-clock limit: a case on which the
    implementation does not come back (e.g. a stopping rule that never stops) is a failing input, not a hang."""
    import signal
    t0 = time.time()
    signal.signal(signal.SIGALRM, _alarm)
    try:
        signal.alarm(CASE_TIMEOUT)
        ans = _MOD.impl(case)
    except CaseTimeout:
        ans = "harness-exc timeout: implementation did not return within %d s" % CASE_TIMEOUT
    except Exception as e:  # harness-level crash while running the implementation
        ans = "harness-exc " + type(e).__name__ + ": " + str(e)[:200] + " | " + traceback.format_exc()[-600:].replace("\n", " / ")
    finally:
        signal.alarm(0)
    try:
        signal.alarm(CASE_TIMEOUT)
        orc = _MOD.oracle(case)
    except CaseTimeout:
        orc = "oracle-exc timeout: the property oracle did not return within %d s on this input" % CASE_TIMEOUT
    except Exception as e:
        orc = "oracle-exc " + type(e).__name__ + ": " + str(e)[:200] + " | " + traceback.format_exc()[-600:].replace("\n", " / ")
    finally:
        signal.alarm(0)
    return ans, orc, time.time() - t0


def eval_cases(modname, cases, procs=None):
    procs = procs or min(16, os.cpu_count() or 1)
    if len(cases) < 8 or procs == 1:
        _worker_init(modname)
        return [_worker_eval(c) for c in cases]
    ctx = mp.get_context("fork")
    with ctx.Pool(procs, initializer=_worker_init, initargs=(modname,)) as pool:
        return pool.map(_worker_eval, cases, chunksize=max(1, len(cases) // (procs * 8)))


# ----------------------------------------------------------------------------------------------
# Known findings
# ----------------------------------------------------------------------------------------------

def load_known():
    p = os.path.join(VERIF, "known_findings.json")
    if not os.path.exists(p):
        return []
    return json.load(open(p)).get("findings", [])


def matches_known(prop, case, known):
    """An *open* finding matches a failing case when every key of its `match` dict equals the case's."""
    for k in known:
        if k.get("status") != "open" or k.get("property") != prop:
            continue
        m = k.get("match", {})
        if all(case.get(a) == b for a, b in m.items()):
            return k
    return None


# ----------------------------------------------------------------------------------------------
# Main entry
# ----------------------------------------------------------------------------------------------

def driver_line(mod, case):
    if hasattr(mod, "lines"):
        return mod.lines(case)
    return mod.line(case)


def case_key(case):
    return hashlib.sha1(json.dumps(case, sort_keys=True).encode()).hexdigest()


def write_replay(prop, payload):
    d = os.path.join(EVIDENCE_DIR, "replays")
    os.makedirs(d, exist_ok=True)
    h = hashlib.sha1(json.dumps(payload, sort_keys=True, default=str).encode()).hexdigest()[:10]
    p = os.path.join(d, "%s_%s.json" % (prop, h))
    json.dump(payload, open(p, "w"), indent=1, default=str)
    return os.path.relpath(p, VERIF)


def try_shrink(mod, case, still_fails, budget=200, seconds=25.0):
    if not hasattr(mod, "shrink"):
        return case
    cur = case
    improved = True
    t_end = time.time() + seconds
    while improved and budget > 0 and time.time() < t_end:
        improved = False
        for cand in mod.shrink(cur):
            budget -= 1
            if budget <= 0 or time.time() > t_end:
                break
            try:
                if still_fails(cand):
                    cur = cand
                    improved = True
                    break
            except Exception:
                continue
    return cur


def run_property(prop, tier, seed, replay=None):
    t0 = time.time()
    setup_repo_import()
    modname = "harness.props." + prop.lower()
    mod = importlib.import_module(modname)
    ctx = Ctx(prop, tier, seed)
    known = load_known()
    violations = []          # (kind, replay_path, suffix)
    known_lines = []
    broken = []              # names of broken obligations / correspondences

    # 1. translator
    tr_ok, tr_msg = translate()
    if not tr_ok:
        broken.append("translator: " + tr_msg[-500:])

    # 2. proofs
    #    (a) the property's theorems (about the hand model) and the driver; (b) the source tie, where one exists:
    #    the functions translated from /repo's source by py2lean equal the hand model for all inputs. The model is
    #    tied to the code twice for such properties (translation + correspondence); a tie proof that no longer
    #    goes through after a rewrite of the source leaves the correspondence tie, which every property has.
    tie_broken = None
    for tm in tie_modules(prop):
        TIE_DOWN.discard(tm)
        t_ok, t_log = lake_build([tm])
        if not t_ok:
            TIE_DOWN.add(tm)
            errs = [l for l in t_log.splitlines() if l.startswith("error")]
            msg = "lake build %s failed (translator: %s): %s" % (
                tm, "; ".join(x for x in tr_msg.split("; ") if "untranslated" in x)[:400] or "all functions translated",
                " / ".join(errs[:4])[:600])
            tie_broken = msg if tie_broken is None else tie_broken + " || " + msg
    b_ok, b_log = lake_build(prop_modules(prop) + ["driver"])
    aud = dict(obligations=0, discharged=0, axioms=[], theorems=[], failed=[], log="")
    if not b_ok:
        broken.append("lake build %s failed: %s" % (" ".join(prop_modules(prop)), b_log[-1500:]))
        # the driver may still be buildable (hand model intact, Gen-dependent proof broken)
        d_ok, d_log = lake_build(["driver"])
        if not d_ok:
            broken.append("lake build driver failed: " + d_log[-1500:])
        names, _ = property_theorems(prop)
        aud["obligations"] = len(names)
        aud["theorems"] = names
        aud["failed"] = names
    else:
        aud = audit(prop)
        if aud["failed"]:
            broken.append("axiom audit failed for: " + ", ".join(aud["failed"]))
        hits = forbidden_tokens(prop)
        if hits:
            broken.append("forbidden tokens: " + "; ".join(hits[:5]))
        if tier == "thorough" and os.environ.get("VERIF_LEANCHECKER", "1") == "1":
            mods = sorted(set(k for m in prop_modules(prop) for k in import_closure(m).keys()))
            rc, out = sh(["lake", "env", "leanchecker"] + mods, cwd=LEAN, timeout=3000)
            ctx.extra_coverage["leanchecker"] = "rc=%d on %d modules (%s) %s" % (rc, len(mods), ", ".join(mods), out.strip()[-200:])
            if rc != 0:
                broken.append("leanchecker rejected the compiled modules of %s: %s" % (prop, out[-800:]))
    # informational modules (regenerated-data facts that are not obligations of the property)
    for im in getattr(mod, "INFO_MODULES", []):
        ok_i, log_i = lake_build([im])
        ctx.extra_coverage.setdefault("informational", {})[im] = "holds" if ok_i else "does not hold on the current source (not a violation): " + log_i[-300:]
    have_driver = os.path.exists(DRIVER)

    # 3. cases
    if replay:
        payload = json.load(open(replay))
        cases = [payload["case"]] if "case" in payload else []
    else:
        cases = list(mod.gen(ctx))
    seen = set()
    ucases = []
    for c in cases:
        k = case_key(c)
        if k not in seen:
            seen.add(k)
            ucases.append(c)
    results = eval_cases(modname, ucases)
    multi = hasattr(mod, "lines")            # several driver lines per case, answers joined by " | "
    if multi:
        lines = [mod.lines(c) for c in ucases]
        idx = [i for i, l in enumerate(lines) if l]
    else:
        lines = [mod.line(c) for c in ucases]
        idx = [i for i, l in enumerate(lines) if l is not None]
    model_ans = [None] * len(ucases)
    if have_driver and idx:
        try:
            if multi:
                flat = [l for i in idx for l in lines[i]]
                outs = run_driver(flat)
                pos = 0
                for i in idx:
                    model_ans[i] = " | ".join(outs[pos:pos + len(lines[i])])
                    pos += len(lines[i])
            else:
                outs = run_driver([lines[i] for i in idx])
                for i, o in zip(idx, outs):
                    model_ans[i] = o
        except Exception as e:
            broken.append("driver run failed: %s" % e)
    compare = getattr(mod, "compare", lambda case, a, b: a == b)
    nontrivial = getattr(mod, "nontrivial", lambda case, ans: True)

    oracle_fail = []
    corr_fail = []
    n_nontrivial = 0
    n_traces = 0
    dist = {}
    for i, c in enumerate(ucases):
        ans, orc, _ = results[i]
        kind = c.get("kind", "case")
        dist[kind] = dist.get(kind, 0) + 1
        if ans.startswith("harness-exc") or (orc or "").startswith("oracle-exc"):
            # treated as a failing input: the implementation (or the oracle on it) crashed unexpectedly
            oracle_fail.append((c, orc or ans, ans, model_ans[i]))
            continue
        if orc is not None:
            oracle_fail.append((c, orc, ans, model_ans[i]))
        if model_ans[i] is not None:
            n_traces += 1
            if not compare(c, ans, model_ans[i]):
                corr_fail.append((c, ans, model_ans[i]))
        try:
            if nontrivial(c, model_ans[i] if model_ans[i] is not None else ans):
                n_nontrivial += 1
        except Exception:
            pass

    # 4. verdict
    def single_fails(case):
        _worker_init(modname)
        a, o, _ = _worker_eval(case)
        return o is not None or a.startswith("harness-exc")

    reported = set()
    for (c, why, ans, mans) in oracle_fail:
        kf = matches_known(prop, c, known)
        if kf:
            ln = "KNOWN-FINDING: property=%s %s" % (prop, kf.get("what", ""))
            if ln not in known_lines:
                known_lines.append(ln)
            continue
        if len(violations) >= 3:
            break
        small = try_shrink(mod, c, single_fails) if not replay else c
        if case_key(small) in reported:
            continue
        reported.add(case_key(small))
        _worker_init(modname)
        a2, o2, _ = _worker_eval(small)
        try:
            dl = driver_line(mod, small)
            if have_driver and dl:
                mans = " | ".join(run_driver(dl)) if isinstance(dl, list) else run_driver([dl])[0]
        except Exception:
            pass
        path = write_replay(prop, dict(property=prop, kind="failing-input", clause=o2 or why, case=small,
                                       original_case=c, impl_answer=a2, model_answer=mans,
                                       driver_line=driver_line(mod, small), seed=seed, tier=tier))
        violations.append(("failing-input", path, ""))

    if not oracle_fail and (corr_fail or broken or tie_broken):
        # proof obligation or correspondence broke, and no sampled case violates the property directly:
        # search harder for a concrete failing input before reporting without one
        found = None
        if not replay:
            sctx = Ctx(prop, "thorough", seed + 7919)
            sgen = getattr(mod, "search", mod.gen)
            scases = []
            for c in sgen(sctx):
                scases.append(c)
                if len(scases) >= 20000:
                    break
            sres = eval_cases(modname, scases)
            for c, (a, o, _) in zip(scases, sres):
                if (o is not None or a.startswith("harness-exc")) and not matches_known(prop, c, known):
                    found = (c, o or a, a)
                    break
            ctx.extra_coverage["search_cases"] = len(scases)
        if found:
            small = try_shrink(mod, found[0], single_fails)
            _worker_init(modname)
            a2, o2, _ = _worker_eval(small)
            path = write_replay(prop, dict(property=prop, kind="failing-input", clause=o2 or found[1],
                                           case=small, original_case=found[0], impl_answer=a2,
                                           broken=broken, driver_line=driver_line(mod, small), seed=seed, tier=tier))
            violations.append(("failing-input", path, ""))
        elif not corr_fail and not broken:
            # only the source tie is down: the property's theorems hold of the hand model, the model agrees with
            # the implementation on every case of this run and of the escalated search -> not a violation
            print("NOTE: property=%s source tie not re-established on the current source (%s); hand model still tied "
                  "by correspondence: %d cases + %d search cases agree" % (prop, tie_broken[:200], n_traces,
                                                                           ctx.extra_coverage.get("search_cases", 0)))
        else:
            payload = dict(property=prop, kind="no-failing-input-found", broken_obligations=broken,
                           seed=seed, tier=tier,
                           correspondence_mismatches=[dict(case=c, impl_answer=a, model_answer=m,
                                                           driver_line=driver_line(mod, c))
                                                      for (c, a, m) in corr_fail[:5]],
                           search_effort=ctx.extra_coverage.get("search_cases", 0))
            if corr_fail:
                payload["case"] = corr_fail[0][0]
                payload["broken_correspondence"] = "model (lean/Cpl/Model) vs implementation disagree on %d of %d cases" % (len(corr_fail), n_traces)
            path = write_replay(prop, payload)
            violations.append(("unproved", path, " no-failing-input-found"))

    # 5. evidence
    def brief(c):
        js = json.dumps(c)
        return c if len(js) <= 1500 else dict(truncated_case=js[:1500] + " …", json_chars=len(js))

    samples = []
    for i, c in enumerate(ucases[:3]):
        samples.append(dict(case=brief(c), driver_line=(str(lines[i])[:600] if lines[i] else lines[i]), impl_answer=results[i][0][:400],
                            model_answer=(model_ans[i] or "")[:400]))
    if len(ucases) > 6:
        j = len(ucases) // 2
        samples.append(dict(case=brief(ucases[j]), driver_line=(str(lines[j])[:600] if lines[j] else lines[j]), impl_answer=results[j][0][:400],
                            model_answer=(model_ans[j] or "")[:400]))
    trusted = ["Lean 4 kernel (lean %s)" % lean_version(),
               "axioms used by the property theorems (as printed by #print axioms in this run): " + (", ".join(aud["axioms"]) or "none"),
               "correspondence harness (harness/core.py, harness/props/%s.py): samples, does not enumerate unless exhaustive=true" % prop.lower(),
               "CPython/NumPy semantics as modelled in lean/Cpl/Py.lean (validated only through the correspondence)"]
    trusted += getattr(mod, "TRUSTED", [])
    coverage = dict(
        obligations=aud["obligations"], discharged=aud["discharged"],
        checker_cmd="cd lean && lake build %s driver && lake env lean .audit/%s.lean  (#print axioms for every property theorem)" % (" ".join(prop_modules(prop)), prop),
        trusted_base=trusted,
        theorems=aud["theorems"],
        undischarged=aud["failed"],
        evaluations=len(ucases),
        distinct_nontrivial=n_nontrivial,
        rule=getattr(mod, "RULE", ""),
        samples=samples,
        traces_validated_against_impl=n_traces,
        correspondence_mismatches=len(corr_fail),
        oracle_failures=len(oracle_fail),
        input_distribution=dist,
        exhaustive=bool(getattr(mod, "EXHAUSTIVE", False)),
        broken_obligations=broken,
        translator=tr_msg[-300:],
        source_tie=("none: hand model tied by correspondence only" if not tie_module(prop) else
                    "NOT re-established in this run: " + tie_broken if tie_broken else
                    "re-established: %s rebuilt against the functions translated from the current source" % tie_module(prop)),
    )
    coverage.update(ctx.extra_coverage)
    if hasattr(mod, "coverage_extra"):
        try:
            coverage.update(mod.coverage_extra(ucases, [r[0] for r in results], model_ans))
        except Exception as e:
            coverage["coverage_extra_error"] = str(e)
    ev = dict(property_id=prop, tier=tier, seed=seed, level="proof", coverage=coverage,
              assumptions=getattr(mod, "ASSUMPTIONS", []) + ctx.notes,
              wall_s=round(time.time() - t0, 2), violations=len(violations),
              known_findings=known_lines)
    if not replay:
        os.makedirs(EVIDENCE_DIR, exist_ok=True)
        json.dump(ev, open(os.path.join(EVIDENCE_DIR, prop + ".json"), "w"), indent=1)

    for ln in known_lines:
        print(ln)
    for (_, path, suffix) in violations:
        print("VIOLATION property=%s replay=%s%s" % (prop, path, suffix))
    print("%s %s tier=%s seed=%d: obligations %d/%d, cases %d (nontrivial %d), corr-mismatch %d, oracle-fail %d, %.1fs"
          % (prop, "FAIL" if violations else "ok", tier, seed, aud["discharged"], aud["obligations"],
             len(ucases), n_nontrivial, len(corr_fail), len(oracle_fail), time.time() - t0))
    return 1 if violations else 0


_LV = None


def lean_version():
    global _LV
    if _LV is None:
        try:
            _LV = subprocess.run(["lean", "--version"], stdout=subprocess.PIPE, text=True).stdout.split()[2].rstrip(",")
        except Exception:
            _LV = "?"
    return _LV
