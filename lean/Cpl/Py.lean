/-!
# Python / NumPy semantics layer

Small total functions that mirror the behaviour of the Python and NumPy operations the
library relies on (slices with negative bounds, negative indexing, floor division,
`bin`/`base_repr` digits, `zfill`, `take(mode='wrap')`, `np.ix_`, `array_split`).
They are *modelled, not verified*: the correspondence harness is what ties them to CPython/NumPy.
Core Lean only — no Mathlib import — so that the driver links as a native executable.
-/

namespace Py

/-- The exception kinds the library can raise at the modelled sites. -/
inductive Err where
  | ValueError | TypeError | Exception | IndexError | AssertionError | OverflowError
  deriving Repr, DecidableEq, Inhabited

def Err.name : Err → String
  | .ValueError => "ValueError"
  | .TypeError => "TypeError"
  | .Exception => "Exception"
  | .IndexError => "IndexError"
  | .AssertionError => "AssertionError"
  | .OverflowError => "OverflowError"

/-- `l[i:]` with Python's clamping of negative / oversized bounds. -/
def sliceFrom (l : List α) (i : Int) : List α :=
  let n : Int := l.length
  let s : Int := if i < 0 then max (n + i) 0 else min i n
  l.drop s.toNat

/-- `l[:j]`. -/
def sliceTo (l : List α) (j : Int) : List α :=
  let n : Int := l.length
  let e : Int := if j < 0 then max (n + j) 0 else min j n
  l.take e.toNat

/-- `l[i:j]` (step 1). -/
def slice (l : List α) (i j : Int) : List α :=
  let n : Int := l.length
  let s : Int := if i < 0 then max (n + i) 0 else min i n
  let e : Int := if j < 0 then max (n + j) 0 else min j n
  (l.take e.toNat).drop s.toNat

/-- Python `//` on integers. -/
def fdiv (a b : Int) : Int := Int.fdiv a b

/-- `l[i]` with negative indices counting from the end; `IndexError` outside `[-n, n)`. -/
def getIdx (l : List α) (i : Int) : Except Err α :=
  let n : Int := l.length
  let j : Int := if i < 0 then i + n else i
  if j < 0 then .error .IndexError
  else match l[j.toNat]? with
    | some x => .ok x
    | none => .error .IndexError

/-- NumPy-style index resolution of a possibly negative index against an axis of length `n`
    (no bounds error: used only behind proved bounds). -/
def resolve (n : Nat) (i : Int) : Nat := if i < 0 then (i + n).toNat else i.toNat

/-- `arr.take(idx, mode='wrap')` for one index. -/
def wrapIdx (n : Nat) (i : Int) : Nat := (i % (n : Int)).toNat

/-- Digits of `n` in base `k`, most significant first, at least one digit
    (`bin(n)[2:]`, `np.base_repr(n, k)` as digit values). Fuel-free: structural on a bound. -/
def digitsAux (k : Nat) : Nat → Nat → List Nat → List Nat
  | 0, _, acc => acc
  | fuel+1, n, acc =>
    if n < k ∨ k < 2 then n :: acc
    else digitsAux k fuel (n / k) (n % k :: acc)

def baseDigits (k n : Nat) : List Nat := digitsAux k (n+1) n []

def binDigits (n : Nat) : List Nat := baseDigits 2 n

/-- `s.zfill(w)` / left padding with a constant up to width `w` (no truncation). -/
def padLeft (w : Nat) (x : α) (l : List α) : List α := List.replicate (w - l.length) x ++ l

/-- `np.array_split(l, 2)` sizes: the first part gets the extra element. -/
def splitSizes (n : Nat) : Nat × Nat := ((n + 1) / 2, n / 2)

end Py
