import Cpl.Model.Evolve2D
import Cpl.Spec.Ring

/-!
# Specification: synchronous update of an `R × C` torus (what C02 says `evolve2d` computes).
Positions are taken modulo `R` and `C`; the von Neumann mask is Manhattan distance `> r`.
-/

namespace Cpl.Spec
open Cpl

section
variable {σ α : Type}

/-- Every row of the grid has `C` cells and there are `R` rows. -/
def Rect (g : Grid α) (R C : Nat) : Prop := g.length = R ∧ ∀ row ∈ g, row.length = C

/-- `|a - b|` on naturals. -/
def dist (a b : Nat) : Nat := if a ≤ b then b - a else a - b

/-- The `(2r+1)×(2r+1)` block of states centred on `(row, col)`, both axes wrapping
    (meaningful for `r ≤ R`, `r ≤ C`). -/
def torusWindow [Inhabited α] (g : Grid α) (R C r row col : Nat) : Grid α :=
  (List.range (2 * r + 1)).map fun a =>
    (List.range (2 * r + 1)).map fun b => (g[(row + a + R - r) % R]!)[(col + b + C - r) % C]!

/-- The neighbourhood handed to the rule: for von Neumann exactly the positions at Manhattan distance
    greater than `r` from the centre are masked (`none`). -/
def nbhd [Inhabited α] (g : Grid α) (R C r : Nat) (vn : Bool) (row col : Nat) : Nbhd2 α :=
  (List.range (2 * r + 1)).map fun a =>
    (List.range (2 * r + 1)).map fun b =>
      if vn ∧ dist a r + dist b r > r then none
      else some ((g[(row + a + R - r) % R]!)[(col + b + C - r) % C]!)

/-- The rule consulted once per cell of `cs` in the order of `cs`; returns the values in that order. -/
def cellVals [Inhabited α] (rule : Rule2 σ α) (g : Grid α) (R C r : Nat) (vn : Bool) (t : Nat) :
    List (Nat × Nat) → σ → List α × σ
  | [], s => ([], s)
  | (i, j) :: cs, s =>
    let (v, s1) := rule s (nbhd g R C r vn i j) (i, j) t
    let (vs, s2) := cellVals rule g R C r vn t cs s1
    (v :: vs, s2)

/-- One synchronous step: cells in row-major order; the values reshaped to `R × C`. -/
def step2 [Inhabited α] (rule : Rule2 σ α) (g : Grid α) (R C r : Nat) (vn : Bool) (t : Nat) (s : σ) : Grid α × σ :=
  let (vals, s') := cellVals rule g R C r vn t (cellsRowMajor R C) s
  ((List.range R).map (fun i => (List.range C).map fun j => vals[i * C + j]!), s')

def run2 [Inhabited α] (rule : Rule2 σ α) (R C r : Nat) (vn : Bool) : (k t : Nat) → Grid α → σ → List (Grid α) × σ
  | 0, _, _, s => ([], s)
  | k + 1, t, g, s =>
    let (nx, s1) := step2 rule g R C r vn t s
    let (rest, s2) := run2 rule R C r vn k (t + 1) nx s1
    (nx :: rest, s2)

/-- Pure rules: one step / `k` steps. -/
def pureStep2 [Inhabited α] (f : Nbhd2 α → α) (R C r : Nat) (vn : Bool) (g : Grid α) : Grid α :=
  (List.range R).map fun i => (List.range C).map fun j => f (nbhd g R C r vn i j)

def pureRun2 [Inhabited α] (f : Nbhd2 α → α) (R C r : Nat) (vn : Bool) : Nat → Grid α → List (Grid α)
  | 0, _ => []
  | k + 1, g => pureStep2 f R C r vn g :: pureRun2 f R C r vn k (pureStep2 f R C r vn g)

end
end Cpl.Spec

namespace Cpl
variable {σ α : Type}

def PureVal2 (rule : Rule2 σ α) (f : Nbhd2 α → α) : Prop := ∀ s n c t, (rule s n c t).1 = f n

def TimeFree2 (rule : Rule2 σ α) : Prop := ∀ s n c t t', rule s n c t = rule s n c t'

def recorder2 (f : Nbhd2 α → α) : Rule2 (List (Nbhd2 α × (Nat × Nat) × Nat)) α :=
  fun log n c t => (f n, log ++ [(n, c, t)])

def logged2 (rule : Rule2 σ α) : Rule2 (σ × List (Nbhd2 α × (Nat × Nat) × Nat)) α :=
  fun sl n c t => ((rule sl.1 n c t).1, ((rule sl.1 n c t).2, sl.2 ++ [(n, c, t)]))

end Cpl
