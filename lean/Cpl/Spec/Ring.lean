import Cpl.Model.Evolve1D

/-!
# Specification: synchronous update of a ring of `N` cells (what C01 says `evolve` computes).
Written independently of the slice/stride construction of the model: positions are taken modulo `N`.
-/

namespace Cpl.Spec
open Cpl

section
variable {σ α : Type}

/-- The `2r+1` states found at positions `c-r .. c+r` taken modulo `N` (own state in the middle).
    Meaningful for `r ≤ N` (the subtraction is then exact). -/
def window [Inhabited α] (cells : List α) (r c : Nat) : List α :=
  (List.range (2 * r + 1)).map fun j => cells[(c + j + cells.length - r) % cells.length]!

/-- The rule consulted once for each cell of `cs`, in the order of `cs`, threading its state. -/
def stepCells [Inhabited α] (rule : Rule1 σ α) (cells : List α) (r t : Nat) : List Nat → σ → List α × σ
  | [], s => ([], s)
  | c :: cs, s =>
    let (v, s1) := rule s (window cells r c) c t
    let (vs, s2) := stepCells rule cells r t cs s1
    (v :: vs, s2)

/-- One synchronous step: cells `0 .. N-1` in ascending order. -/
def step [Inhabited α] (rule : Rule1 σ α) (cells : List α) (r t : Nat) (s : σ) : List α × σ :=
  stepCells rule cells r t (List.range cells.length) s

/-- `k` steps, the first one carrying step number `t`; returns the new rows, oldest first. -/
def run [Inhabited α] (rule : Rule1 σ α) (r : Nat) : (k t : Nat) → List α → σ → List (List α) × σ
  | 0, _, _, s => ([], s)
  | k + 1, t, cells, s =>
    let (row, s1) := step rule cells r t s
    let (rows, s2) := run rule r k (t + 1) row s1
    (row :: rows, s2)

/-- Pure rules: one step. -/
def pureStep [Inhabited α] (f : List α → α) (r : Nat) (cells : List α) : List α :=
  (List.range cells.length).map fun c => f (window cells r c)

/-- Pure rules: `k` steps; the new rows, oldest first. -/
def pureRun [Inhabited α] (f : List α → α) (r : Nat) : Nat → List α → List (List α)
  | 0, _ => []
  | k + 1, cells => pureStep f r cells :: pureRun f r k (pureStep f r cells)

/-- The calls `(neighbourhood, cell, step)` a run makes, reconstructed from its rows:
    one per cell per step, cells ascending, steps ascending from `t0`. -/
def callsOfRows [Inhabited α] (r : Nat) : Nat → List α → List (List α) → List (List α × Nat × Nat)
  | _, _, [] => []
  | t0, prev, row :: rows =>
    ((List.range prev.length).map fun c => (window prev r c, c, t0)) ++ callsOfRows r (t0 + 1) row rows

end
end Cpl.Spec

namespace Cpl
variable {σ α : Type}

/-- A rule whose *result* depends only on the neighbourhood contents (its state may still evolve,
    e.g. a call recorder). -/
def PureVal (rule : Rule1 σ α) (f : List α → α) : Prop := ∀ s n c t, (rule s n c t).1 = f n

/-- A rule that ignores the step number. -/
def TimeFree (rule : Rule1 σ α) : Prop := ∀ s n c t t', rule s n c t = rule s n c t'

/-- Instrumentation: record every call `(n, c, t)` in call order. -/
def logged (rule : Rule1 σ α) : Rule1 (σ × List (List α × Nat × Nat)) α :=
  fun sl n c t => ((rule sl.1 n c t).1, ((rule sl.1 n c t).2, sl.2 ++ [(n, c, t)]))

/-- A pure rule `f` that records its calls. -/
def recorder (f : List α → α) : Rule1 (List (List α × Nat × Nat)) α :=
  fun log n c t => (f n, log ++ [(n, c, t)])

end Cpl
