import Cpl.Model.Evolve1D
namespace Cpl.C05
theorem placeholder : True := trivial
end Cpl.C05
