import Cpl.Spec.Ring
import Cpl.Lemmas.Evolve1D
import Cpl.Properties.C01
import Cpl.Properties.C03

/-!
# C05 — evolution extends the given history and never modifies it (1D `evolve` part)

Non-mutation of the caller's buffer and dtype preservation cannot be stated in a value-level model;
they are monitored by the harness on every case. What is proved here: the result is the given rows,
unchanged and in order, followed by exactly `T-1` new rows of `N` cells that depend only on the last
given row; and the split law for rules that ignore the step number.
-/

namespace Cpl.C05
open Cpl Cpl.Spec

variable {σ α : Type}

/-- **The result extends the history**: given rows unchanged and in order, then `T-1` new rows of `N` cells —
    every memoize mode, every (stateful) rule. -/
theorem evolve_extends [DecidableEq α] [Inhabited α] (hist : List (List α)) (init : List α)
    (hlast : hist.getLast? = some init) (T : Nat) (rule : Rule1 σ α) (r : Nat) (h1 : 1 ≤ r)
    (h2 : r ≤ init.length) (mode : Mode) (s s' : σ) (out : List (List α))
    (h : evolveFixed hist T rule r mode s = .ok (out, s')) :
    ∃ new, out = hist ++ new ∧ new.length = T - 1 ∧ ∀ row ∈ new, row.length = init.length := by
  unfold evolveFixed at h
  rw [hlast] at h
  simp only at h
  split at h
  · cases h
  · split at h
    · cases h
    · simp only [Except.ok.injEq, Prod.mk.injEq] at h
      exact ⟨(fixedLoop mode rule r (T - 1) 1 init Caches.empty s).1, h.1.symm,
        fixedLoop_length mode rule r (T - 1) 1 init Caches.empty s,
        rowlen_fixedLoop mode rule r h1 (T - 1) 1 init Caches.empty s h2⟩

/-- **Only the last given row influences the new rows.** -/
theorem evolve_last_only [DecidableEq α] [Inhabited α] (hist hist' : List (List α))
    (hl : hist.getLast? = hist'.getLast?) (T : Nat) (rule : Rule1 σ α) (r : Nat) (mode : Mode) (s : σ) :
    (evolveFixed hist T rule r mode s).map (fun p => (p.1.drop hist.length, p.2))
      = (evolveFixed hist' T rule r mode s).map (fun p => (p.1.drop hist'.length, p.2)) := by
  unfold evolveFixed
  rw [← hl]
  cases hist.getLast? with
  | none => rfl
  | some init =>
    simp only
    split
    · rfl
    · split
      · rfl
      · simp [Except.map]

/-- `T = 0` is rejected (the guard `T ≥ 1` of the property). -/
theorem evolve_T0 [DecidableEq α] [Inhabited α] (hist : List (List α)) (init : List α)
    (hlast : hist.getLast? = some init) (rule : Rule1 σ α) (r : Nat) (mode : Mode) (s : σ) :
    evolveFixed hist 0 rule r mode s = .error .IndexError := by
  unfold evolveFixed
  rw [hlast]
  simp

/-- **Split law, memoization off, any stateful rule that ignores the step number**: evolving for `T1`
    steps and continuing the result for `T2` steps (rule state carried over) equals `T1+T2-1` steps at once. -/
theorem evolve_split_plain [DecidableEq α] [Inhabited α] (rule : Rule1 σ α) (htf : TimeFree rule)
    (hist : List (List α)) (init : List α) (hlast : hist.getLast? = some init) (T1 T2 : Nat)
    (hT1 : 1 ≤ T1) (hT2 : 1 ≤ T2) (r : Nat) (h1 : 1 ≤ r) (h2 : r ≤ init.length) (s s1 : σ)
    (mid : List (List α)) (hmid : evolveFixed hist T1 rule r .plain s = .ok (mid, s1)) :
    evolveFixed mid T2 rule r .plain s1 = evolveFixed hist (T1 + T2 - 1) rule r .plain s := by
  have hrun := C01.evolveFixed_plain_eq_spec hist init hlast T1 hT1 rule r h1 h2 s
  rw [hrun] at hmid
  simp only [Except.ok.injEq, Prod.mk.injEq] at hmid
  obtain ⟨hmid1, hs1⟩ := hmid
  subst hmid1 hs1
  rw [C01.evolveFixed_plain_eq_spec _ _ (getLast?_append_some hist _ init hlast) T2 hT2 rule r h1
    (by rw [run_getLast_length]; exact h2)]
  rw [C01.evolveFixed_plain_eq_spec hist init hlast (T1 + T2 - 1) (by omega) rule r h1 h2 s]
  have e : T1 + T2 - 1 - 1 = (T1 - 1) + (T2 - 1) := by omega
  rw [e, run_add]
  rw [run_timeFree rule htf r (T2 - 1) (1 + (T1 - 1)) 1]
  simp [List.append_assoc]

/-- **Split law in every memoize mode** for rules whose result depends only on the neighbourhood:
    the rows of the continued evolution equal those of the evolution at once (the two calls may even
    use different modes — each call's cache is its own). -/
theorem evolve_split_pure [DecidableEq α] [Inhabited α] (rule : Rule1 σ α) (f : List α → α)
    (hp : PureVal rule f) (m1 m2 m : Mode) (hm1 : m1 ≠ .bad) (hm2 : m2 ≠ .bad) (hm : m ≠ .bad)
    (hist : List (List α)) (init : List α) (hlast : hist.getLast? = some init) (T1 T2 : Nat)
    (hT1 : 1 ≤ T1) (hT2 : 1 ≤ T2) (r : Nat) (h1 : 1 ≤ r) (h2 : r ≤ init.length) (s s1 s2 : σ)
    (mid : List (List α)) (hmid : evolveFixed hist T1 rule r m1 s = .ok (mid, s1)) :
    (evolveFixed mid T2 rule r m2 s2).map Prod.fst
      = (evolveFixed hist (T1 + T2 - 1) rule r m s).map Prod.fst := by
  have hA := C03.evolveFixed_rows_pure rule f hp m1 hm1 hist init hlast T1 hT1 r h1 h2 s
  rw [hmid] at hA
  simp only [Except.map, Except.ok.injEq] at hA
  subst hA
  rw [C03.evolveFixed_rows_pure rule f hp m2 hm2 _ _ (getLast?_append_some hist _ init hlast) T2 hT2
    r h1 (by rw [pureRun_getLast_length]; exact h2) s2]
  rw [C03.evolveFixed_rows_pure rule f hp m hm hist init hlast (T1 + T2 - 1) (by omega) r h1 h2 s]
  have e : T1 + T2 - 1 - 1 = (T1 - 1) + (T2 - 1) := by omega
  rw [e, pureRun_add]
  simp [List.append_assoc]

end Cpl.C05
