import Cpl.Spec.Ring
import Cpl.Lemmas.Evolve1D
import Cpl.Properties.C01
import Cpl.Properties.C03
import Cpl.Properties.C02
import Cpl.Properties.C04
import Cpl.Lemmas.Block
import Cpl.Lemmas.Dyn2D

/-!
# C05 — evolution extends the given history and never modifies it (1D `evolve` part)

Non-mutation of the caller's buffer and dtype preservation cannot be stated in a value-level model;
they are monitored by the harness on every case. What is proved here: the result is the given rows,
unchanged and in order, followed by exactly `T-1` new rows of `N` cells that depend only on the last
given row; and the split law for rules that ignore the step number.
-/

namespace Cpl.C05
open Cpl Cpl.Spec

variable {σ α : Type}

/-- **The result extends the history**: given rows unchanged and in order, then `T-1` new rows of `N` cells —
    every memoize mode, every (stateful) rule. -/
theorem evolve_extends [DecidableEq α] [Inhabited α] (hist : List (List α)) (init : List α)
    (hlast : hist.getLast? = some init) (T : Nat) (rule : Rule1 σ α) (r : Nat) (h1 : 1 ≤ r)
    (h2 : r ≤ init.length) (mode : Mode) (s s' : σ) (out : List (List α))
    (h : evolveFixed hist T rule r mode s = .ok (out, s')) :
    ∃ new, out = hist ++ new ∧ new.length = T - 1 ∧ ∀ row ∈ new, row.length = init.length := by
  unfold evolveFixed at h
  rw [hlast] at h
  simp only at h
  split at h
  · cases h
  · split at h
    · cases h
    · simp only [Except.ok.injEq, Prod.mk.injEq] at h
      exact ⟨(fixedLoop mode rule r (T - 1) 1 init Caches.empty s).1, h.1.symm,
        fixedLoop_length mode rule r (T - 1) 1 init Caches.empty s,
        rowlen_fixedLoop mode rule r h1 (T - 1) 1 init Caches.empty s h2⟩

/-- **Only the last given row influences the new rows.** -/
theorem evolve_last_only [DecidableEq α] [Inhabited α] (hist hist' : List (List α))
    (hl : hist.getLast? = hist'.getLast?) (T : Nat) (rule : Rule1 σ α) (r : Nat) (mode : Mode) (s : σ) :
    (evolveFixed hist T rule r mode s).map (fun p => (p.1.drop hist.length, p.2))
      = (evolveFixed hist' T rule r mode s).map (fun p => (p.1.drop hist'.length, p.2)) := by
  unfold evolveFixed
  rw [← hl]
  cases hist.getLast? with
  | none => rfl
  | some init =>
    simp only
    split
    · rfl
    · split
      · rfl
      · simp [Except.map]

/-- `T = 0` is rejected (the guard `T ≥ 1` of the property). -/
theorem evolve_T0 [DecidableEq α] [Inhabited α] (hist : List (List α)) (init : List α)
    (hlast : hist.getLast? = some init) (rule : Rule1 σ α) (r : Nat) (mode : Mode) (s : σ) :
    evolveFixed hist 0 rule r mode s = .error .IndexError := by
  unfold evolveFixed
  rw [hlast]
  simp

/-- **Split law, memoization off, any stateful rule that ignores the step number**: evolving for `T1`
    steps and continuing the result for `T2` steps (rule state carried over) equals `T1+T2-1` steps at once. -/
theorem evolve_split_plain [DecidableEq α] [Inhabited α] (rule : Rule1 σ α) (htf : TimeFree rule)
    (hist : List (List α)) (init : List α) (hlast : hist.getLast? = some init) (T1 T2 : Nat)
    (hT1 : 1 ≤ T1) (hT2 : 1 ≤ T2) (r : Nat) (h1 : 1 ≤ r) (h2 : r ≤ init.length) (s s1 : σ)
    (mid : List (List α)) (hmid : evolveFixed hist T1 rule r .plain s = .ok (mid, s1)) :
    evolveFixed mid T2 rule r .plain s1 = evolveFixed hist (T1 + T2 - 1) rule r .plain s := by
  have hrun := C01.evolveFixed_plain_eq_spec hist init hlast T1 hT1 rule r h1 h2 s
  rw [hrun] at hmid
  simp only [Except.ok.injEq, Prod.mk.injEq] at hmid
  obtain ⟨hmid1, hs1⟩ := hmid
  subst hmid1 hs1
  rw [C01.evolveFixed_plain_eq_spec _ _ (getLast?_append_some hist _ init hlast) T2 hT2 rule r h1
    (by rw [run_getLast_length]; exact h2)]
  rw [C01.evolveFixed_plain_eq_spec hist init hlast (T1 + T2 - 1) (by omega) rule r h1 h2 s]
  have e : T1 + T2 - 1 - 1 = (T1 - 1) + (T2 - 1) := by omega
  rw [e, run_add]
  rw [run_timeFree rule htf r (T2 - 1) (1 + (T1 - 1)) 1]
  simp [List.append_assoc]

/-- **Split law in every memoize mode** for rules whose result depends only on the neighbourhood:
    the rows of the continued evolution equal those of the evolution at once (the two calls may even
    use different modes — each call's cache is its own). -/
theorem evolve_split_pure [DecidableEq α] [Inhabited α] (rule : Rule1 σ α) (f : List α → α)
    (hp : PureVal rule f) (m1 m2 m : Mode) (hm1 : m1 ≠ .bad) (hm2 : m2 ≠ .bad) (hm : m ≠ .bad)
    (hist : List (List α)) (init : List α) (hlast : hist.getLast? = some init) (T1 T2 : Nat)
    (hT1 : 1 ≤ T1) (hT2 : 1 ≤ T2) (r : Nat) (h1 : 1 ≤ r) (h2 : r ≤ init.length) (s s1 s2 : σ)
    (mid : List (List α)) (hmid : evolveFixed hist T1 rule r m1 s = .ok (mid, s1)) :
    (evolveFixed mid T2 rule r m2 s2).map Prod.fst
      = (evolveFixed hist (T1 + T2 - 1) rule r m s).map Prod.fst := by
  have hA := C03.evolveFixed_rows_pure rule f hp m1 hm1 hist init hlast T1 hT1 r h1 h2 s
  rw [hmid] at hA
  simp only [Except.map, Except.ok.injEq] at hA
  subst hA
  rw [C03.evolveFixed_rows_pure rule f hp m2 hm2 _ _ (getLast?_append_some hist _ init hlast) T2 hT2
    r h1 (by rw [pureRun_getLast_length]; exact h2) s2]
  rw [C03.evolveFixed_rows_pure rule f hp m hm hist init hlast (T1 + T2 - 1) (by omega) r h1 h2 s]
  have e : T1 + T2 - 1 - 1 = (T1 - 1) + (T2 - 1) := by omega
  rw [e, pureRun_add]
  simp [List.append_assoc]

end Cpl.C05

/-!
# C05 — 2D: `evolve2d` extends the given history and never modifies it

The result is the given grids, unchanged and in order, followed by exactly `T-1` new `R × C` grids that
depend only on the last given grid; split laws as in 1D.
-/

namespace Cpl.C05
open Cpl Cpl.Spec Cpl.Dyn2D

variable {σ α : Type}

/-- **The result extends the history** (2D): given grids unchanged and in order, then `T-1` new grids
    of the shape `R × C` of the last given grid — every memoize mode (memo and recursive included),
    every (stateful) rule, every radius and neighbourhood type for which the call succeeds. -/
theorem evolve2d_extends [DecidableEq α] [Inhabited α] (hist : List (Grid α)) (init : Grid α)
    (hlast : hist.getLast? = some init) (T : Nat) (rule : Rule2 σ α) (R C r : Nat) (nb : NbType)
    (hg : Rect init R C) (hR1 : 1 ≤ R) (mode : Mode) (s s' : σ) (out : List (Grid α))
    (h : evolve2dFixed hist T rule r nb mode s = .ok (out, s')) :
    ∃ new, out = hist ++ new ∧ new.length = T - 1 ∧ ∀ g ∈ new, Rect g R C := by
  unfold evolve2dFixed at h
  rw [hlast] at h
  simp only at h
  split at h
  · cases h
  · split at h
    · cases h
    · split at h
      · cases h
      · simp only [Except.ok.injEq, Prod.mk.injEq] at h
        exact ⟨(fixedLoop2 mode rule r (decide (nb = .vonNeumann)) (T - 1) 1 init Caches2.empty s).1,
          h.1.symm, fixedLoop2_length mode rule r _ (T - 1) 1 init Caches2.empty s,
          fixedLoop2_rect mode rule r _ hR1 (T - 1) 1 init Caches2.empty s hg⟩

/-- **Only the last given grid influences the new grids.** -/
theorem evolve2d_last_only [DecidableEq α] [Inhabited α] (hist hist' : List (Grid α))
    (hl : hist.getLast? = hist'.getLast?) (T : Nat) (rule : Rule2 σ α) (r : Nat) (nb : NbType)
    (mode : Mode) (s : σ) :
    (evolve2dFixed hist T rule r nb mode s).map (fun p => (p.1.drop hist.length, p.2))
      = (evolve2dFixed hist' T rule r nb mode s).map (fun p => (p.1.drop hist'.length, p.2)) := by
  unfold evolve2dFixed
  rw [← hl]
  cases hist.getLast? with
  | none => rfl
  | some init =>
    simp only
    split
    · rfl
    · split
      · rfl
      · split
        · rfl
        · simp [Except.map]

/-- `T = 0` is rejected (the guard `T ≥ 1` of the property). -/
theorem evolve2d_T0 [DecidableEq α] [Inhabited α] (hist : List (Grid α)) (init : Grid α)
    (hlast : hist.getLast? = some init) (rule : Rule2 σ α) (r : Nat) (nb : NbType) (mode : Mode) (s : σ) :
    evolve2dFixed hist 0 rule r nb mode s = .error .IndexError := by
  unfold evolve2dFixed
  rw [hlast]
  simp

/-- **Split law (2D), memoization off, any stateful rule that ignores the step number**: evolving for
    `T1` steps and continuing the result for `T2` steps (rule state carried over) equals `T1+T2-1`
    steps at once. -/
theorem evolve2d_split_plain [DecidableEq α] [Inhabited α] (rule : Rule2 σ α) (htf : TimeFree2 rule)
    (hist : List (Grid α)) (init : Grid α) (hlast : hist.getLast? = some init) (T1 T2 : Nat)
    (hT1 : 1 ≤ T1) (hT2 : 1 ≤ T2) (R C r : Nat) (nb : NbType) (hnb : nb ≠ .unknown)
    (hg : Rect init R C) (hR1 : 1 ≤ R) (hC1 : 1 ≤ C) (hR : r ≤ R) (hC : r ≤ C) (s s1 : σ)
    (mid : List (Grid α)) (hmid : evolve2dFixed hist T1 rule r nb .plain s = .ok (mid, s1)) :
    evolve2dFixed mid T2 rule r nb .plain s1 = evolve2dFixed hist (T1 + T2 - 1) rule r nb .plain s := by
  have hrun := C02.evolve2dFixed_plain_eq_spec hist init hlast T1 hT1 rule R C r nb hnb hg hR1 hC1 hR hC s
  rw [hrun] at hmid
  simp only [Except.ok.injEq, Prod.mk.injEq] at hmid
  obtain ⟨hmid1, hs1⟩ := hmid
  subst hmid1 hs1
  rw [C02.evolve2dFixed_plain_eq_spec _ _ (getLast?_append_some2 hist _ init hlast) T2 hT2 rule R C r nb
    hnb (run2_getLast_rect rule R C r _ _ _ init s hg) hR1 hC1 hR hC]
  rw [C02.evolve2dFixed_plain_eq_spec hist init hlast (T1 + T2 - 1) (by omega) rule R C r nb hnb hg hR1
    hC1 hR hC s]
  have e : T1 + T2 - 1 - 1 = (T1 - 1) + (T2 - 1) := by omega
  rw [e, run2_add]
  rw [run2_timeFree rule htf R C r _ (T2 - 1) (1 + (T1 - 1)) 1]
  simp [List.append_assoc]

/-- **Split law (2D) in every memoize mode** for rules whose result depends only on the neighbourhood:
    the grids of the continued evolution equal those of the evolution at once (the two calls may even
    use different modes — each call's cache is its own). -/
theorem evolve2d_split_pure [DecidableEq α] [Inhabited α] (rule : Rule2 σ α) (f : Nbhd2 α → α)
    (hp : PureVal2 rule f) (m1 m2 m : Mode) (hm1 : m1 ≠ .bad) (hm2 : m2 ≠ .bad) (hm : m ≠ .bad)
    (hist : List (Grid α)) (init : Grid α) (hlast : hist.getLast? = some init) (T1 T2 : Nat)
    (hT1 : 1 ≤ T1) (hT2 : 1 ≤ T2) (R C r : Nat) (nb : NbType) (hnb : nb ≠ .unknown)
    (hg : Rect init R C) (hR1 : 1 ≤ R) (hC1 : 1 ≤ C) (hR : r ≤ R) (hC : r ≤ C) (s s1 s2 : σ)
    (mid : List (Grid α)) (hmid : evolve2dFixed hist T1 rule r nb m1 s = .ok (mid, s1)) :
    (evolve2dFixed mid T2 rule r nb m2 s2).map Prod.fst
      = (evolve2dFixed hist (T1 + T2 - 1) rule r nb m s).map Prod.fst := by
  have hA := C04.evolve2dFixed_grids_pure rule f hp m1 hm1 hist init hlast T1 hT1 R C r nb hnb hg hR1 hC1
    hR hC s
  rw [hmid] at hA
  simp only [Except.map, Except.ok.injEq] at hA
  subst hA
  rw [C04.evolve2dFixed_grids_pure rule f hp m2 hm2 _ _ (getLast?_append_some2 hist _ init hlast) T2 hT2
    R C r nb hnb (pureRun2_getLast_rect f R C r _ _ init hg) hR1 hC1 hR hC s2]
  rw [C04.evolve2dFixed_grids_pure rule f hp m hm hist init hlast (T1 + T2 - 1) (by omega) R C r nb hnb hg
    hR1 hC1 hR hC s]
  have e : T1 + T2 - 1 - 1 = (T1 - 1) + (T2 - 1) := by omega
  rw [e, pureRun2_add]
  simp [List.append_assoc]

/-!
# C05 — block evolvers (`evolve_block`, `evolve2d_block`)

Whenever the call succeeds (block size ≥ 1 dividing the ring / both grid sides, `T ≥ 1`), the result is
the given history followed by `T-1` new rows / grids of the input's shape that depend only on the last
given row / grid. The split law holds for odd `T1` only (see `C10.evolveBlock_split_odd`).
-/

/-- **`evolve_block` extends the history**: given rows unchanged and in order, then `T-1` new rows of `N` cells. -/
theorem evolveBlock_extends [Inhabited α] (hist : List (List α)) (init : List α)
    (hlast : hist.getLast? = some init) (b T : Nat) (rule : BlockRule1 σ α) (s s' : σ)
    (out : List (List α)) (h : evolveBlock hist b T rule s = .ok (out, s')) :
    ∃ new, out = hist ++ new ∧ new.length = T - 1 ∧ ∀ row ∈ new, row.length = init.length := by
  obtain ⟨_, _, _, h1, _⟩ := (evolveBlock_ok_iff hist init hlast b T rule s s' out).mp h
  exact ⟨_, h1, Block.blockLoop1_length rule b _ _ _ _, Block.blockLoop1_row_length rule b _ _ _ _⟩

/-- **`evolve2d_block` extends the history**: given grids unchanged and in order, then `T-1` new grids
    with the row count of the last given grid, every row as wide as that grid's first row. -/
theorem evolve2dBlock_extends [Inhabited α] (hist : List (Grid α)) (init : Grid α)
    (hlast : hist.getLast? = some init) (b0 b1 T : Nat) (rule : BlockRule2 σ α) (s s' : σ)
    (out : List (Grid α)) (h : evolve2dBlock hist b0 b1 T rule s = .ok (out, s')) :
    ∃ new, out = hist ++ new ∧ new.length = T - 1 ∧
      ∀ g ∈ new, g.length = init.length ∧ Rect g init.length (gridCols init) := by
  obtain ⟨_, _, _, _, _, h1, _⟩ := (evolve2dBlock_ok_iff hist init hlast b0 b1 T rule s s' out).mp h
  refine ⟨_, h1, blockLoop2_length rule b0 b1 _ _ _ _, ?_⟩
  intro g hg
  have := blockLoop2_rect rule b0 b1 _ _ _ _ g hg
  exact ⟨this.1, this⟩

/-- **Only the last given row influences the new rows** (`evolve_block`). -/
theorem evolveBlock_last_only [Inhabited α] (hist hist' : List (List α))
    (hl : hist.getLast? = hist'.getLast?) (b T : Nat) (rule : BlockRule1 σ α) (s : σ) :
    (evolveBlock hist b T rule s).map (fun p => (p.1.drop hist.length, p.2))
      = (evolveBlock hist' b T rule s).map (fun p => (p.1.drop hist'.length, p.2)) := by
  unfold evolveBlock
  rw [← hl]
  cases hist.getLast? with
  | none => rfl
  | some init =>
    simp only
    split
    · rfl
    · split
      · rfl
      · split
        · rfl
        · simp [Except.map]

/-- **Only the last given grid influences the new grids** (`evolve2d_block`). -/
theorem evolve2dBlock_last_only [Inhabited α] (hist hist' : List (Grid α))
    (hl : hist.getLast? = hist'.getLast?) (b0 b1 T : Nat) (rule : BlockRule2 σ α) (s : σ) :
    (evolve2dBlock hist b0 b1 T rule s).map (fun p => (p.1.drop hist.length, p.2))
      = (evolve2dBlock hist' b0 b1 T rule s).map (fun p => (p.1.drop hist'.length, p.2)) := by
  unfold evolve2dBlock
  rw [← hl]
  cases hist.getLast? with
  | none => rfl
  | some init =>
    simp only
    split
    · rfl
    · split
      · rfl
      · split
        · rfl
        · simp [Except.map]

/-- **Split law for `evolve2d_block`, odd `T1`** (2D analogue of `C10.evolveBlock_split_odd`): for a
    block rule that ignores the step number, continuing a successful evolution of `T1` (odd) steps
    for `T2` steps, rule state carried over, equals `T1+T2-1` steps at once. (For even `T1` the law
    fails as in 1D: the partition alternates with the call-local step number.) -/
theorem evolve2dBlock_split_odd [Inhabited α] (rule : BlockRule2 σ α)
    (htf : ∀ s blk t t', rule s blk t = rule s blk t')
    (hist : List (Grid α)) (init : Grid α) (hlast : hist.getLast? = some init) (b0 b1 T1 T2 : Nat)
    (hodd : T1 % 2 = 1) (hT2 : 1 ≤ T2) (s s1 : σ) (mid : List (Grid α))
    (hmid : evolve2dBlock hist b0 b1 T1 rule s = .ok (mid, s1)) :
    evolve2dBlock mid b0 b1 T2 rule s1 = evolve2dBlock hist b0 b1 (T1 + T2 - 1) rule s := by
  obtain ⟨hT1, h0, h1, hd0, hd1, hm, hs⟩ :=
    (evolve2dBlock_ok_iff hist init hlast b0 b1 T1 rule s s1 mid).mp hmid
  subst hm hs
  have hlastm := getLast?_append_some2 hist (blockLoop2 rule b0 b1 (T1 - 1) 1 init s).1 init hlast
  obtain ⟨e1, e2⟩ := blockLoop2_getLast_shape rule b0 b1 (T1 - 1) 1 init s
  have hA := (evolve2dBlock_ok_iff _ _ hlastm b0 b1 T2 rule (blockLoop2 rule b0 b1 (T1 - 1) 1 init s).2
    _ _).mpr ⟨by omega, h0, h1, by rw [e1]; exact hd0, by rw [e2]; exact hd1, rfl, rfl⟩
  have hB := (evolve2dBlock_ok_iff hist init hlast b0 b1 (T1 + T2 - 1) rule s _ _).mpr
    ⟨by omega, h0, h1, hd0, hd1, rfl, rfl⟩
  rw [hA, hB]
  have hk : T1 + T2 - 1 - 1 = (T1 - 1) + (T2 - 1) := by omega
  rw [hk, blockLoop2_add]
  have h1' : 1 + (T1 - 1) = T1 := by omega
  rw [h1', blockLoop2_parity rule htf b0 b1 (T2 - 1) _ T1 1 (by omega), List.append_assoc]

/-- Even `T1` (2D): the law fails (2×2 blocks on a 2×4 grid, the rule reversing each block row,
    `T1 = 2`, `T2 = 2`). -/
def swapRule2 : BlockRule2 Unit Int := fun u blk _ => (blk.map List.reverse, u)
example : (evolve2dBlock [[[1, 2, 3, 4], [5, 6, 7, 8]]] 2 2 2 swapRule2 ()).toOption.map (·.1)
    = some [[[1, 2, 3, 4], [5, 6, 7, 8]], [[2, 1, 4, 3], [6, 5, 8, 7]]] := by decide
example : (evolve2dBlock [[[1, 2, 3, 4], [5, 6, 7, 8]], [[2, 1, 4, 3], [6, 5, 8, 7]]] 2 2 2 swapRule2 ()).toOption.map (·.1)
    = some [[[1, 2, 3, 4], [5, 6, 7, 8]], [[2, 1, 4, 3], [6, 5, 8, 7]], [[1, 2, 3, 4], [5, 6, 7, 8]]] := by decide
example : (evolve2dBlock [[[1, 2, 3, 4], [5, 6, 7, 8]]] 2 2 3 swapRule2 ()).toOption.map (·.1)
    ≠ some [[[1, 2, 3, 4], [5, 6, 7, 8]], [[2, 1, 4, 3], [6, 5, 8, 7]], [[1, 2, 3, 4], [5, 6, 7, 8]]] := by decide

end Cpl.C05
