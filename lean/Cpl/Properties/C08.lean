import Cpl.Model.Rules
import Cpl.Lemmas.Totalistic

/-!
# C08 — Totalistic rule numbering

`totalistic_rule(n, k, rule)` returns the base-`k` digit of the rule number with place value `k^s`,
`s` the sum of the unmasked neighbourhood states. Property theorems only; the model
(`Cpl.Model.Rules`) mirrors the Python (`np.base_repr(rule, k).zfill(w)` indexed at `n(k-1) - s`),
the specification used here is plain arithmetic: `rule / k^s % k`.

All statements hold for every neighbourhood size and every (unbounded) rule number.
-/

namespace Cpl.C08
open Py Cpl Cpl.Totalistic

/-- **The result is the base-`k` digit with place value `k^s`.** For every base `2 ≤ k ≤ 36`, every
    neighbourhood size, every sum `s` that cells in `0..k-1` can produce (`0 ≤ s ≤ size·(k-1)`) and every
    rule number that fits in `size·(k-1)+1` base-`k` digits, the call succeeds and returns
    `⌊rule / k^s⌋ mod k`. -/
theorem totalistic_spec (size : Nat) (s : Int) (k rule : Nat) (hk2 : 2 ≤ k) (hk36 : k ≤ 36)
    (hs0 : 0 ≤ s) (hs : s ≤ ((size * (k - 1) : Nat) : Int))
    (hr : rule < k ^ (size * (k - 1) + 1)) :
    totalisticRule size s k rule = .ok ((rule / k ^ s.toNat) % k) := by
  obtain ⟨hL, hget⟩ := ruleString_ok k rule (size * (k - 1) + 1) hk2 (by omega) hr
  unfold totalisticRule
  rw [if_neg (by omega)]
  simp only [hL, gt_iff_lt, Nat.lt_irrefl, if_false]
  have e : ((size * (k - 1) : Nat) : Int) - s = ((size * (k - 1) - s.toNat : Nat) : Int) := by omega
  rw [e, getIdx_nat _ _ (by rw [hL]; omega), hget _ (by rw [hL]; omega)]
  have e2 : size * (k - 1) + 1 - 1 - (size * (k - 1) - s.toNat) = s.toNat := by omega
  rw [e2]

/-- **The result is always a state in `0..k-1`.** -/
theorem totalistic_lt (size : Nat) (s : Int) (k rule : Nat) (hk2 : 2 ≤ k) (hk36 : k ≤ 36)
    (hs0 : 0 ≤ s) (hs : s ≤ ((size * (k - 1) : Nat) : Int))
    (hr : rule < k ^ (size * (k - 1) + 1)) :
    ∃ v, totalisticRule size s k rule = .ok v ∧ v < k :=
  ⟨_, totalistic_spec size s k rule hk2 hk36 hs0 hs hr, Nat.mod_lt _ (by omega)⟩

/-- **The all-zero neighbourhood (sum 0) selects the least significant digit** `rule mod k`. -/
theorem totalistic_zero_sum (size k rule : Nat) (hk2 : 2 ≤ k) (hk36 : k ≤ 36)
    (hr : rule < k ^ (size * (k - 1) + 1)) :
    totalisticRule size 0 k rule = .ok (rule % k) := by
  rw [totalistic_spec size 0 k rule hk2 hk36 (by omega) (by omega) hr]
  simp

/-- **A rule number that needs more than `size·(k-1)+1` base-`k` digits is rejected** with
    `ValueError`, whatever the neighbourhood sum. -/
theorem totalistic_out_of_range (size : Nat) (s : Int) (k rule : Nat) (hk2 : 2 ≤ k) (hk36 : k ≤ 36)
    (hr : k ^ (size * (k - 1) + 1) ≤ rule) :
    totalisticRule size s k rule = .error .ValueError := by
  have hlong := ruleString_long k rule (size * (k - 1) + 1) hk2 (by omega) hr
  unfold totalisticRule
  rw [if_neg (by omega)]
  simp only [gt_iff_lt, hlong, if_true]

/-- **A base outside `2..36` is rejected** with `ValueError` (`np.base_repr` supports no other base). -/
theorem totalistic_bad_base (size : Nat) (s : Int) (k rule : Nat) (hk : k < 2 ∨ 36 < k) :
    totalisticRule size s k rule = .error .ValueError := by
  unfold totalisticRule
  rw [if_pos hk]

/-- **On a (possibly masked) neighbourhood** the function uses `size` = the number of cells *including*
    masked ones and `s` = the sum of the *unmasked* cells only; and when every unmasked cell holds a
    state in `0..k-1`, that sum lies in the range `0 ≤ s ≤ size·(k-1)` required by `totalistic_spec`. -/
theorem totalistic_on_masked (n : Nbhd2 Int) (k rule : Nat) :
    nbSize n = n.flatten.length ∧
    nbSum n = (n.flatten.filterMap id).sum ∧
    totalisticRuleOn n k rule
      = totalisticRule n.flatten.length (n.flatten.filterMap id).sum k rule ∧
    ((∀ x ∈ n.flatten.filterMap id, 0 ≤ x ∧ x < (k : Int)) →
      0 ≤ nbSum n ∧ nbSum n ≤ ((nbSize n * (k - 1) : Nat) : Int)) := by
  refine ⟨nbSize_eq n, nbSum_eq n, ?_, ?_⟩
  · unfold totalisticRuleOn; rw [nbSize_eq, nbSum_eq]
  · intro h
    rw [nbSum_eq, nbSize_eq]
    have hb := sum_bounds k _ h
    refine ⟨hb.1, Int.le_trans hb.2 ?_⟩
    have hle := filterMap_id_length_le n.flatten
    exact Int.ofNat_le.mpr (Nat.mul_le_mul_right (k - 1) hle)

/-- **End to end on a neighbourhood**: for `2 ≤ k ≤ 36`, unmasked contents over `0..k-1` and a rule
    number in range, the result is the digit of `rule` with place value `k^s`, `s` the unmasked sum. -/
theorem totalistic_on_spec (n : Nbhd2 Int) (k rule : Nat) (hk2 : 2 ≤ k) (hk36 : k ≤ 36)
    (hcells : ∀ x ∈ n.flatten.filterMap id, 0 ≤ x ∧ x < (k : Int))
    (hr : rule < k ^ (n.flatten.length * (k - 1) + 1)) :
    totalisticRuleOn n k rule
      = .ok ((rule / k ^ ((n.flatten.filterMap id).sum).toNat) % k) := by
  obtain ⟨hsz, hsum, hon, hrange⟩ := totalistic_on_masked n k rule
  have hb := hrange hcells
  rw [hsz, hsum] at hb
  rw [hon]
  exact totalistic_spec _ _ k rule hk2 hk36 hb.1 hb.2 hr

/-- **`TotalisticRule(k, rule)` gives the same answers** as the function, at every cell and step. -/
theorem class_agrees (k rule : Nat) (n : Nbhd2 Int) (c : Nat × Nat) (t : Nat) :
    totalisticRuleClass k rule n c t = totalisticRuleOn n k rule := rfl

/-! ## Non-vacuity: NKS totalistic code 777 (k = 3, three cells), by evaluation against the model -/

/-- Code 777 = 1001210₃: sums 0..6 select the digits from the least significant end. -/
example : (List.map (fun s : Int => totalisticRule 3 s 3 777) [0, 1, 2, 3, 4, 5, 6])
    = [.ok 0, .ok 1, .ok 2, .ok 1, .ok 0, .ok 0, .ok 1] := by decide
/-- The hypotheses of `totalistic_spec` hold for this instance. -/
example : (2 ≤ 3) ∧ (3 ≤ 36) ∧ (0 : Int) ≤ 4 ∧ (4 : Int) ≤ ((3 * (3 - 1) : Nat) : Int)
    ∧ 777 < 3 ^ (3 * (3 - 1) + 1) := by decide
/-- … and the specification value agrees: `777 / 3^4 % 3 = 0`, `777 / 3^2 % 3 = 2`. -/
example : (777 / 3 ^ (4 : Int).toNat) % 3 = 0 ∧ (777 / 3 ^ (2 : Int).toNat) % 3 = 2 := by decide
/-- A masked (von Neumann) neighbourhood: five of nine cells count towards the sum, all nine towards
    the size. -/
example : nbSize [[none, some 2, none], [some 1, some 0, some 2], [none, some 1, none]] = 9
    ∧ nbSum [[none, some 2, none], [some 1, some 0, some 2], [none, some 1, none]] = 6 := by decide
example : totalisticRuleOn [[some 1, some 2, some 0]] 3 777 = .ok 1 := by decide
/-- Out of range: `3^7 = 2187` needs eight digits. -/
example : totalisticRule 3 0 3 2187 = .error .ValueError := by decide
example : totalisticRule 3 0 37 5 = .error .ValueError ∧ totalisticRule 3 0 1 0 = .error .ValueError := by
  decide

end Cpl.C08
