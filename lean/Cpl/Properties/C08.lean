import Cpl.Model.Rules
namespace Cpl.C08
theorem placeholder : True := trivial
end Cpl.C08
