import Cpl.Model.Rules
import Cpl.Spec.Ring
import Cpl.Properties.C01
import Cpl.Lemmas.Reversible

/-!
# C13 — `ReversibleRule` is second-order and time-reversible

Evolving a ring with `ReversibleRule(prev, R)` realises `s(t+1) = f_R(s(t)) XOR s(t-1)` with
`s(-1) = prev` and `f_R` the elementary rule `R` in NKS numbering; restarting from the last two states
with their roles swapped retraces the history backwards exactly.

Property theorems only. The model (`reversibleCall`, `reversibleRule` in `Cpl.Model.Rules`, run by
`evolveFixed`) mirrors the Python: a per-cell callable with a mutable `_previous_state` array. The
specification here is written on whole rows (`fR`, `xorRows`, `recur`) and never mentions that array.

The aliasing clause of the property (the constructor keeps a reference to the caller's array) is
outside this file. The statements need no binary-ness hypothesis: they hold for arbitrary integer
rows of equal length (Python's `^` on integers is an involution); that binary rows stay binary is
`recur_binary`.
-/

namespace Cpl.C13
open Py Cpl Cpl.Spec Cpl.Reversible

/-! ## specification -/

/-- `f_R`: elementary rule `R` (NKS numbering) applied to every cell of a ring, radius 1. The window
    `(left, self, right)` read as a binary number `v` selects bit `v` of `R`. -/
def fR (R : Nat) (row : List Int) : List Int :=
  (List.range row.length).map fun c =>
    if R.testBit (bitsToInt (window row 1 c)) then 1 else 0

/-- Cell-wise XOR of two rows. -/
def xorRows (a b : List Int) : List Int := List.zipWith ixor a b

/-- The second-order recurrence unrolled `k` times from (previous, current): the rows
    `s(t+1), …, s(t+k)` with `s(t+1) = f_R(s(t)) XOR s(t-1)`. -/
def recur (R : Nat) : Nat → List Int → List Int → List (List Int)
  | 0, _, _ => []
  | k + 1, prev, cur => xorRows (fR R cur) prev :: recur R k cur (xorRows (fR R cur) prev)

/-- The last two states `(s(t+k-1), s(t+k))` of the recurrence after `k` steps from (previous, current);
    `lastTwo_spec` ties it to `recur`. -/
def lastTwo (R : Nat) : Nat → List Int → List Int → List Int × List Int
  | 0, prev, cur => (prev, cur)
  | k + 1, prev, cur => lastTwo R k cur (xorRows (fR R cur) prev)

/-! ## local glue to the abstract recurrence of `Cpl.Lemmas.Reversible` -/

private theorem fR_length (R : Nat) (l : List Int) : (fR R l).length = l.length := by
  simp [fR]

private theorem fR_binary (R : Nat) (l : List Int) : ∀ x ∈ fR R l, x = 0 ∨ x = 1 := by
  intro x hx
  simp only [fR, List.mem_map] at hx
  obtain ⟨c, _, rfl⟩ := hx
  split <;> simp

private theorem recur_eq (R : Nat) : ∀ (k : Nat) (p c : List Int),
    recur R k p c = rows (fR R) k p c := by
  intro k
  induction k with
  | zero => intro p c; rfl
  | succ k ih => intro p c; simp only [recur, rows, ih]; rfl

private theorem lastTwo_eq (R : Nat) : ∀ (k : Nat) (p c : List Int),
    lastTwo R k p c = endPair (fR R) k p c := by
  intro k
  induction k with
  | zero => intro p c; rfl
  | succ k ih => intro p c; simp only [lastTwo, endPair, ih]; rfl

private theorem run_reversible (R : Nat) (hR : R < 256) :
    ∀ (k t : Nat) (cells prev : List Int), prev.length = cells.length →
      run (reversibleRule R) 1 k t cells prev = (recur R k prev cells, (lastTwo R k prev cells).1) := by
  intro k
  induction k with
  | zero => intro t cells prev _; rfl
  | succ k ih =>
    intro t cells prev hlen
    have hstep := step_reversible R hR cells prev t hlen
    have hn : (xorRows (fR R cells) prev).length = cells.length := by
      simp [xorRows, fR_length, hlen]
    simp only [run]
    rw [hstep]
    simp only []
    rw [show (List.zipWith ixor ((List.range cells.length).map fun c =>
        nksBit R (window cells 1 c)) prev) = xorRows (fR R cells) prev from rfl,
      ih (t + 1) (xorRows (fR R cells) prev) cells hn.symm]
    rfl

/-! ## `^` is an involution -/

/-- **Python's integer XOR undoes itself**: `(a ^ b) ^ b = a` for *all* integers (either sign). -/
theorem ixor_involutive (a b : Int) : ixor (ixor a b) b = a := ixor_cancel_right a b

/-- The same for whole rows of equal length — on either side. -/
theorem xorRows_involutive (a b : List Int) (h : a.length = b.length) :
    xorRows (xorRows a b) b = a ∧ xorRows a (xorRows a b) = b :=
  ⟨zipWith_ixor_cancel_right a b h, zipWith_ixor_cancel_left a b h⟩

/-! ## one step -/

/-- **One synchronous step under `ReversibleRule` is `f_R(s(t)) XOR s(t-1)`.** For every rule number
    `R < 256`, every ring `cells` and every stored previous state `prev` of the same length (any step
    number `t`): the new row is `f_R(cells) XOR prev`, and the rule's stored state afterwards is
    `cells` — every cell's previous state has been replaced by the centre of its window, its current
    state. Each cell reads its *old* stored value even though cells before it were already overwritten. -/
theorem reversible_step (R : Nat) (hR : R < 256) (cells prev : List Int) (t : Nat)
    (hlen : prev.length = cells.length) :
    step (reversibleRule R) cells 1 t prev = (xorRows (fR R cells) prev, cells) :=
  step_reversible R hR cells prev t hlen

/-- The new row has as many cells as the ring. -/
theorem xorRows_fR_length (R : Nat) (cells prev : List Int) (hlen : prev.length = cells.length) :
    (xorRows (fR R cells) prev).length = cells.length := by
  simp [xorRows, fR_length, hlen]

/-! ## the evolution is the second-order recurrence -/

/-- `lastTwo` really is the last two entries of the sequence `prev, cur, recur …` (positions `k`, `k+1`). -/
theorem lastTwo_spec (R k : Nat) (prev cur : List Int) :
    (prev :: cur :: recur R k prev cur)[k]? = some (lastTwo R k prev cur).1 ∧
    (prev :: cur :: recur R k prev cur)[k + 1]? = some (lastTwo R k prev cur).2 := by
  induction k generalizing prev cur with
  | zero => exact ⟨rfl, rfl⟩
  | succ k ih =>
    have := ih cur (xorRows (fR R cur) prev)
    simp only [recur, lastTwo, List.getElem?_cons_succ]
    exact this

/-- **`evolve` with `ReversibleRule(prev, R)` computes the second-order recurrence.** For `R < 256`, a ring
    of `N ≥ 1` cells (`init` = last row of the given history), a stored state `prev` of the same length and
    `T ≥ 1`: the result is the given history (so it starts with the initial state, unchanged) followed
    by the `T-1` rows `s(1), …, s(T-1)` of `s(t+1) = f_R(s(t)) XOR s(t-1)`, `s(0) = init`, `s(-1) = prev`;
    the rule's stored state at the end is the state before the last one (`prev` itself if `T = 1`). -/
theorem reversible_recurrence (R : Nat) (hR : R < 256) (hist : List (List Int)) (init prev : List Int)
    (hlast : hist.getLast? = some init) (T : Nat) (hT : 1 ≤ T) (hN : 1 ≤ init.length)
    (hlen : prev.length = init.length) :
    evolveFixed hist T (reversibleRule R) 1 .plain prev
      = .ok (hist ++ recur R (T - 1) prev init, (lastTwo R (T - 1) prev init).1) := by
  rw [Cpl.C01.evolveFixed_plain_eq_spec hist init hlast T hT (reversibleRule R) 1 (by omega) hN prev,
    run_reversible R hR (T - 1) 1 init prev hlen]

/-- **Row 0 of the result is the initial state**: started on a one-row history `[init]`, the result is
    `init` followed by the recurrence rows. -/
theorem reversible_row0 (R : Nat) (hR : R < 256) (init prev : List Int) (T : Nat) (hT : 1 ≤ T)
    (hN : 1 ≤ init.length) (hlen : prev.length = init.length) :
    evolveFixed [init] T (reversibleRule R) 1 .plain prev
      = .ok (init :: recur R (T - 1) prev init, (lastTwo R (T - 1) prev init).1) :=
  reversible_recurrence R hR [init] init prev rfl T hT hN hlen

/-- The first new row is `f_R(init) XOR prev` and the second is `f_R(s(1)) XOR init`: the recurrence
    written out for two steps. -/
theorem recur_two (R : Nat) (prev init : List Int) :
    recur R 2 prev init
      = [xorRows (fR R init) prev, xorRows (fR R (xorRows (fR R init) prev)) init] := rfl

/-- Every row of the recurrence has the ring's length, and there are `k` of them. -/
theorem recur_shape (R k : Nat) (prev cur : List Int) (hlen : prev.length = cur.length) :
    (recur R k prev cur).length = k ∧ ∀ row ∈ recur R k prev cur, row.length = cur.length := by
  induction k generalizing prev cur with
  | zero => simp [recur]
  | succ k ih =>
    have hn := xorRows_fR_length R cur prev hlen
    have := ih cur (xorRows (fR R cur) prev) hn.symm
    simp only [recur, List.length_cons, List.mem_cons]
    refine ⟨by omega, ?_⟩
    rintro row (rfl | hrow)
    · exact hn
    · rw [this.2 row hrow, hn]

/-- **Binary rows stay binary**: from 0/1 rows `prev`, `cur` every row of the recurrence is 0/1. -/
theorem recur_binary (R k : Nat) (prev cur : List Int) (hp : ∀ x ∈ prev, x = 0 ∨ x = 1)
    (hc : ∀ x ∈ cur, x = 0 ∨ x = 1) :
    ∀ row ∈ recur R k prev cur, ∀ x ∈ row, x = 0 ∨ x = 1 := by
  rw [recur_eq]
  exact rows_binary (fR_binary R) k prev cur hp hc

/-! ## time reversal -/

/-- **The recurrence retraces its history backwards.** Let the forward recurrence from `(prev, s0)` yield
    `s1, …, sK`. Started again with current state `s(K-1)` and previous state `sK` (the last two states,
    roles swapped) it yields `s(K-2), …, s0, prev`: the whole sequence `sK, s(K-1), …, s0, prev` is the
    forward sequence `prev, s0, …, sK` reversed, and the backward run ends on the pair `(s0, prev)`.
    Any rule number, any integer rows of equal length. -/
theorem reversible_retrace (R K : Nat) (prev s0 : List Int) (hlen : prev.length = s0.length) :
    (lastTwo R K prev s0).2 :: (lastTwo R K prev s0).1
        :: recur R K (lastTwo R K prev s0).2 (lastTwo R K prev s0).1
      = (prev :: s0 :: recur R K prev s0).reverse ∧
    recur R K (lastTwo R K prev s0).2 (lastTwo R K prev s0).1
      = (prev :: s0 :: recur R K prev s0).reverse.drop 2 ∧
    lastTwo R K (lastTwo R K prev s0).2 (lastTwo R K prev s0).1 = (s0, prev) := by
  have h1 := traj_retrace (f := fR R) (fR_length R) K prev s0 hlen
  have h2 := endPair_retrace (f := fR R) (fR_length R) K prev s0 hlen
  simp only [traj, ← recur_eq, ← lastTwo_eq] at h1 h2
  refine ⟨h1, ?_, h2⟩
  rw [← h1]; rfl

/-- **Time reversal at the level of `evolve`.** Run `K` steps (`T = K+1`) from `s0` with
    `ReversibleRule(prev, R)`: the rows are `s0, s1, …, sK`, the rule's stored state at the end is `s(K-1)`
    and the last row is `sK`. Run `K` steps again from the row `s(K-1)` with `ReversibleRule(sK, R)`: the rows
    `back` of that run, preceded by `sK`, are exactly `prev, s0, …, sK` in reverse order — the second run ends
    on `prev`, with stored state `s0`. -/
theorem reversible_retrace_evolve (R : Nat) (hR : R < 256) (K : Nat) (prev s0 : List Int)
    (hN : 1 ≤ s0.length) (hlen : prev.length = s0.length) :
    evolveFixed [s0] (K + 1) (reversibleRule R) 1 .plain prev
      = .ok (s0 :: recur R K prev s0, (lastTwo R K prev s0).1) ∧
    (s0 :: recur R K prev s0).getLast? = some (lastTwo R K prev s0).2 ∧
    ∃ back, evolveFixed [(lastTwo R K prev s0).1] (K + 1) (reversibleRule R) 1 .plain
        (lastTwo R K prev s0).2 = .ok (back, s0) ∧
      (lastTwo R K prev s0).2 :: back = (prev :: s0 :: recur R K prev s0).reverse := by
  have hl := endPair_length (f := fR R) (fR_length R) K prev s0 hlen
  rw [← lastTwo_eq] at hl
  obtain ⟨hr1, _, hr3⟩ := reversible_retrace R K prev s0 hlen
  refine ⟨reversible_row0 R hR s0 prev (K + 1) (by omega) hN hlen, ?_, ?_⟩
  · have := (lastTwo_spec R K prev s0).2
    rw [List.getElem?_cons_succ] at this
    rw [List.getLast?_eq_getElem?]
    simp only [List.length_cons, (recur_shape R K prev s0 hlen).1, Nat.add_sub_cancel]
    exact this
  · refine ⟨(lastTwo R K prev s0).1 :: recur R K (lastTwo R K prev s0).2 (lastTwo R K prev s0).1, ?_, hr1⟩
    have := reversible_row0 R hR (lastTwo R K prev s0).1 (lastTwo R K prev s0).2 (K + 1) (by omega)
      (by omega) (by omega)
    rw [this, Nat.add_sub_cancel, hr3]

/-! ## Non-vacuity: rule 90 on a ring of 5 cells, by evaluation of the model -/

/-- Forward: three steps from `s0 = 00100` with `prev = 10000`. -/
example : evolveFixed [[0, 0, 1, 0, 0]] 4 (reversibleRule 90) 1 .plain [1, 0, 0, 0, 0]
    = .ok ([[0, 0, 1, 0, 0], [1, 1, 0, 1, 0], [1, 1, 1, 0, 0], [0, 1, 1, 0, 1]], [1, 1, 1, 0, 0]) := by
  decide
/-- The specification gives the same rows. -/
example : recur 90 3 [1, 0, 0, 0, 0] [0, 0, 1, 0, 0]
    = [[1, 1, 0, 1, 0], [1, 1, 1, 0, 0], [0, 1, 1, 0, 1]] := by decide
example : lastTwo 90 3 [1, 0, 0, 0, 0] [0, 0, 1, 0, 0] = ([1, 1, 1, 0, 0], [0, 1, 1, 0, 1]) := by decide
/-- Backward: from the last two rows with their roles swapped the history is retraced and ends on `prev`. -/
example : evolveFixed [[1, 1, 1, 0, 0]] 4 (reversibleRule 90) 1 .plain [0, 1, 1, 0, 1]
    = .ok ([[1, 1, 1, 0, 0], [1, 1, 0, 1, 0], [0, 0, 1, 0, 0], [1, 0, 0, 0, 0]], [0, 0, 1, 0, 0]) := by
  decide
/-- `f_90` is "left XOR right" on the ring. -/
example : fR 90 [0, 0, 1, 0, 0] = [0, 1, 0, 1, 0] := by decide
/-- The hypotheses are satisfiable: `90 < 256`, a ring of 5 cells, rows of equal length. -/
example : 90 < 256 ∧ 1 ≤ [0, 0, 1, 0, 0].length
    ∧ [1, 0, 0, 0, 0].length = [0, 0, 1, 0, 0].length := by decide
/-- XOR of integers of either sign, as in Python: `-3 ^ 5 = -8`, and back. -/
example : ixor (-3) 5 = -8 ∧ ixor (-8) 5 = -3 := by decide

end Cpl.C13
