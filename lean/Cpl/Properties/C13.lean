import Cpl.Model.Rules
namespace Cpl.C13
theorem placeholder : True := trivial
end Cpl.C13
