import Cpl.Spec.Torus
import Cpl.Model.Rules
import Cpl.Properties.C04
import Cpl.Lemmas.Life
import Cpl.Lemmas.LifeGlider

/-!
# C11 — Game of Life rule is Conway's B3/S23

`game_of_life_rule` returns 1 exactly when a dead centre cell has three live neighbours or a live centre
cell has two or three, for every binary 3×3 neighbourhood, and `evolve2d` with it (Moore, `r = 1`, every
memoize mode) equals the Life update of the torus. Hence still lifes stay fixed, the blinker has period
two and a glider reappears shifted by one cell diagonally after four steps, wherever it is placed and
across the periodic boundary. The glider is proved on every torus of at least 5 × 5 cells
(`glider_period`, `glider_anywhere`: locality of four Life steps + kernel evaluation of the 32 × 32
possible 9×9 blocks); block, blinker and beehive are checked on all tori `5..10 × 5..10`; the translation
theorem `lifeStep_shift` carries each pattern to every placement.
-/

namespace Cpl.C11
open Cpl Cpl.Spec

/-! ## The rule -/

/-- Conway's rule B3/S23: a dead cell (0) becomes live on exactly three live neighbours, a live cell
    stays live on two or three. -/
def b3s23 (centre nbrs : Int) : Int :=
  if centre = 0 then (if nbrs = 3 then 1 else 0) else (if nbrs = 2 ∨ nbrs = 3 then 1 else 0)

/-- `g[i][j]`. -/
def cell (g : Grid Int) (i j : Nat) : Int := (g[i]!)[j]!

/-- A 3×3 nested list whose nine entries are 0 or 1. -/
def IsBinary3x3 (n : Grid Int) : Prop :=
  n.length = 3 ∧ ∀ row ∈ n, row.length = 3 ∧ ∀ x ∈ row, x = 0 ∨ x = 1

/-- **The rule is B3/S23**: on every binary 3×3 neighbourhood `game_of_life_rule` returns Conway's value
    for the centre cell and the sum of the eight other cells. -/
theorem gol_spec (n : Grid Int) (hn : IsBinary3x3 n) :
    golRule n = some (b3s23 (cell n 1 1)
      (cell n 0 0 + cell n 0 1 + cell n 0 2 + cell n 1 0 + cell n 1 2 + cell n 2 0 + cell n 2 1 + cell n 2 2)) :=
  Life.gol_bin3 n hn

/-- The same with the nine cells named. -/
theorem gol_spec_cells (a b c d e f g h i : Int)
    (ha : a = 0 ∨ a = 1) (hb : b = 0 ∨ b = 1) (hc : c = 0 ∨ c = 1) (hd : d = 0 ∨ d = 1)
    (he : e = 0 ∨ e = 1) (hf : f = 0 ∨ f = 1) (hg : g = 0 ∨ g = 1) (hh : h = 0 ∨ h = 1)
    (hi : i = 0 ∨ i = 1) :
    golRule [[a, b, c], [d, e, f], [g, h, i]] = some (b3s23 e (a + b + c + d + f + g + h + i)) :=
  Life.gol_explicit a b c d e f g h i ha hb hc hd he hf hg hh hi

/-- **The rule is total on binary input**: the Python function never falls off its end. -/
theorem gol_total (n : Grid Int) (hn : IsBinary3x3 n) : golRule n ≠ none := by
  rw [gol_spec n hn]; simp

/-- The result is again 0 or 1. -/
theorem gol_binary (n : Grid Int) (hn : IsBinary3x3 n) : golRule n = some 0 ∨ golRule n = some 1 := by
  rw [gol_spec n hn]
  rcases Life.b3s23_binary (cell n 1 1)
    (cell n 0 0 + cell n 0 1 + cell n 0 2 + cell n 1 0 + cell n 1 2 + cell n 2 0 + cell n 2 1 + cell n 2 2)
    with h | h
  · left; exact congrArg some h
  · right; exact congrArg some h

/-- The 512 binary 3×3 neighbourhoods: the nine bits of `k < 512`, row-major. -/
def allBinary3x3 : List (Grid Int) :=
  (List.range 512).map fun k =>
    (List.range 3).map fun i => (List.range 3).map fun j => (((k / 2 ^ (3 * i + j)) % 2 : Nat) : Int)

/-- Reading the nine cells back as the bits of a number. -/
def encode3x3 (n : Grid Int) : Nat :=
  (List.range 9).foldl (fun acc p => acc + (cell n (p / 3) (p % 3)).toNat * 2 ^ p) 0

/-- Complete enumeration (kernel evaluation): the list consists of 512 pairwise different binary 3×3
    neighbourhoods (the `k`-th one encodes `k`), and on each of them the rule returns 1 exactly when
    (dead and three live neighbours) or (live and two or three). -/
example : allBinary3x3.map encode3x3 = List.range 512 ∧
    (∀ n ∈ allBinary3x3, ∀ row ∈ n, ∀ x ∈ row, x = 0 ∨ x = 1) ∧
    ∀ n ∈ allBinary3x3,
      let nbrs := cell n 0 0 + cell n 0 1 + cell n 0 2 + cell n 1 0 + cell n 1 2 + cell n 2 0 + cell n 2 1
        + cell n 2 2
      golRule n = some (if (cell n 1 1 = 0 ∧ nbrs = 3) ∨ (cell n 1 1 = 1 ∧ (nbrs = 2 ∨ nbrs = 3)) then 1 else 0) := by
  decide +kernel

/-- Outside the contract the function can fall off its end (`None`): centre 1 with a total of 0. -/
example : golRule [[0, 0, 0], [0, 1, -1], [0, 0, 0]] = some 0 := by decide
example : golRule [[0, 0, 0], [0, 1, 0], [0, 0, 2]] = some 1 := by decide

/-! ## The Life update of the torus -/

/-- **Specification**: one synchronous Life step of the `R × C` torus. Cell `(i, j)` becomes B3/S23 of
    its own state and the sum of its eight neighbours, all indices modulo `R` and `C`. -/
def lifeStep (R C : Nat) (g : Grid Int) : Grid Int :=
  (List.range R).map fun i => (List.range C).map fun j =>
    b3s23 (cell g i j)
      (cell g ((i + R - 1) % R) ((j + C - 1) % C) + cell g ((i + R - 1) % R) j
        + cell g ((i + R - 1) % R) ((j + 1) % C)
        + cell g i ((j + C - 1) % C) + cell g i ((j + 1) % C)
        + cell g ((i + 1) % R) ((j + C - 1) % C) + cell g ((i + 1) % R) j
        + cell g ((i + 1) % R) ((j + 1) % C))

/-- The grids after `1, 2, …, k` Life steps. -/
def lifeRun (R C : Nat) : Nat → Grid Int → List (Grid Int)
  | 0, _ => []
  | k + 1, g => lifeStep R C g :: lifeRun R C k (lifeStep R C g)

/-- The grid after `k` Life steps. -/
def lifeIter (R C : Nat) : Nat → Grid Int → Grid Int
  | 0, g => g
  | k + 1, g => lifeIter R C k (lifeStep R C g)

/-- Every cell is 0 or 1. -/
def Binary (g : Grid Int) : Prop := ∀ row ∈ g, ∀ x ∈ row, x = 0 ∨ x = 1

/-- `game_of_life_rule` as the rule callable handed to `evolve2d` (Moore neighbourhoods are unmasked;
    `d` is what a `None` result would be turned into — it never occurs on binary grids). -/
def golRule2 (d : Int := 0) : Rule2 Unit Int :=
  fun u n _ _ => ((golRule (n.map (·.map (·.getD 0)))).getD d, u)

/-- The step written with the helper library's cell update (same formula). -/
theorem lifeStep_eq (R C : Nat) (g : Grid Int) :
    lifeStep R C g = (List.range R).map fun i => (List.range C).map fun j => Life.lifeCell R C g i j := rfl

/-- A Life step yields an `R × C` grid of zeros and ones. -/
theorem lifeStep_rect (R C : Nat) (g : Grid Int) : Rect (lifeStep R C g) R C :=
  Life.tabulate_rect R C _

/-- See `lifeStep_rect`. -/
theorem lifeStep_binary (R C : Nat) (g : Grid Int) : Binary (lifeStep R C g) :=
  Life.tabulate_binary R C _ fun _ _ => Life.b3s23_binary _ _

/-- The value of cell `(i, j)` after a step, read off the grid. -/
theorem lifeStep_cell (R C : Nat) (g : Grid Int) (i j : Nat) (hi : i < R) (hj : j < C) :
    cell (lifeStep R C g) i j =
      b3s23 (cell g i j)
        (cell g ((i + R - 1) % R) ((j + C - 1) % C) + cell g ((i + R - 1) % R) j
          + cell g ((i + R - 1) % R) ((j + 1) % C)
          + cell g i ((j + C - 1) % C) + cell g i ((j + 1) % C)
          + cell g ((i + 1) % R) ((j + C - 1) % C) + cell g ((i + 1) % R) j
          + cell g ((i + 1) % R) ((j + 1) % C)) :=
  Life.cell_tabulate R C _ hi hj

/-- One step of the model's pure torus update with the Game of Life rule is `lifeStep`. -/
theorem pureStep2_gol_eq_life (d : Int) (R C : Nat) (g : Grid Int) (hg : Rect g R C) (hb : Binary g) :
    pureStep2 (fun n => (golRule (n.map (·.map (·.getD 0)))).getD d) R C 1 false g = lifeStep R C g :=
  Life.pureStep2_gol d g R C hg hb

/-- … and so are `k` steps. -/
theorem pureRun2_gol_eq_life (d : Int) (R C : Nat) :
    ∀ (k : Nat) (g : Grid Int), Rect g R C → Binary g →
      pureRun2 (fun n => (golRule (n.map (·.map (·.getD 0)))).getD d) R C 1 false k g = lifeRun R C k g
  | 0, _, _, _ => rfl
  | k + 1, g, hg, hb => by
    simp only [pureRun2, lifeRun]
    rw [pureStep2_gol_eq_life d R C g hg hb,
      pureRun2_gol_eq_life d R C k _ (lifeStep_rect R C g) (lifeStep_binary R C g)]

/-- **`evolve2d` with the Game of Life rule is the Life update of the torus**: for every binary
    `R × C` grid (`R, C ≥ 1`, square or not), every number of timesteps and every memoize mode
    (`False`, `True`, `'recursive'`), the result is the given history followed by the iterated Life steps
    of its last grid. -/
theorem evolve2d_gol_eq_life (d : Int) (mode : Mode) (hm : mode ≠ .bad) (hist : List (Grid Int))
    (init : Grid Int) (hlast : hist.getLast? = some init) (T : Nat) (hT : 1 ≤ T) (R C : Nat)
    (hg : Rect init R C) (hb : Binary init) (hR : 1 ≤ R) (hC : 1 ≤ C) :
    evolve2dFixed hist T (golRule2 d) 1 .moore mode () = .ok (hist ++ lifeRun R C (T - 1) init, ()) := by
  have hp : PureVal2 (golRule2 d) (fun n => (golRule (n.map (·.map (·.getD 0)))).getD d) :=
    fun _ _ _ _ => rfl
  have key := C04.evolve2dFixed_grids_pure (golRule2 d) _ hp mode hm hist init hlast T hT R C 1 .moore
    (by decide) hg hR hC hR hC ()
  rw [show decide (NbType.moore = NbType.vonNeumann) = false by decide,
    pureRun2_gol_eq_life d R C (T - 1) init hg hb] at key
  cases hx : evolve2dFixed hist T (golRule2 d) 1 .moore mode () with
  | error e => rw [hx] at key; cases key
  | ok v =>
    rw [hx] at key
    obtain ⟨gs, u⟩ := v
    cases u
    simp only [Except.map, Except.ok.injEq] at key
    rw [key]

/-- The `n`-th grid produced is the `(n+1)`-fold Life step. -/
theorem lifeRun_getElem? (R C : Nat) :
    ∀ (k n : Nat) (g : Grid Int), n < k → (lifeRun R C k g)[n]? = some (lifeIter R C (n + 1) g)
  | 0, _, _, h => by omega
  | k + 1, 0, g, _ => by simp [lifeRun, lifeIter]
  | k + 1, n + 1, g, h => by
    simp only [lifeRun, List.getElem?_cons_succ]
    rw [lifeRun_getElem? R C k n _ (by omega)]
    rfl

/-! ## Translation equivariance -/

/-- The torus translated by `(dx, dy)`: `(shift g)[i][j] = g[i - dx][j - dy]`, indices modulo `R`, `C`
    (what was at `(i, j)` is now at `(i + dx, j + dy)`). -/
def shift (R C dx dy : Nat) (g : Grid Int) : Grid Int :=
  (List.range R).map fun i => (List.range C).map fun j =>
    cell g ((i + R - dx % R) % R) ((j + C - dy % C) % C)

/-- **The Life update commutes with every translation of the torus** (no assumption on the grid):
    a pattern evolves the same way wherever it is placed, also across the periodic boundary. -/
theorem lifeStep_shift (R C dx dy : Nat) (g : Grid Int) :
    lifeStep R C (shift R C dx dy g) = shift R C dx dy (lifeStep R C g) := by
  exact Life.lifeGrid_shift R C dx dy g

/-- The same for `k` steps. -/
theorem lifeIter_shift (R C dx dy : Nat) :
    ∀ (k : Nat) (g : Grid Int), lifeIter R C k (shift R C dx dy g) = shift R C dx dy (lifeIter R C k g)
  | 0, _ => rfl
  | k + 1, g => by
    simp only [lifeIter]
    rw [lifeStep_shift, lifeIter_shift R C dx dy k]

/-- Translations commute with each other. -/
theorem shift_comm (R C dx dy ex ey : Nat) (g : Grid Int) :
    shift R C dx dy (shift R C ex ey g) = shift R C ex ey (shift R C dx dy g) :=
  Life.shiftG_comm R C dx dy ex ey g

/-- A still life stays a still life wherever it is placed. -/
theorem still_life_anywhere (R C dx dy : Nat) (g : Grid Int) (h : lifeStep R C g = g) :
    lifeStep R C (shift R C dx dy g) = shift R C dx dy g := by
  rw [lifeStep_shift, h]

/-- A pattern of period `p` has period `p` wherever it is placed. -/
theorem period_anywhere (R C dx dy p : Nat) (g : Grid Int) (h : lifeIter R C p g = g) :
    lifeIter R C p (shift R C dx dy g) = shift R C dx dy g := by
  rw [lifeIter_shift, h]

/-- A pattern that reappears translated by `(a, b)` after `p` steps does so wherever it is placed. -/
theorem spaceship_anywhere (R C dx dy p a b : Nat) (g : Grid Int)
    (h : lifeIter R C p g = shift R C a b g) :
    lifeIter R C p (shift R C dx dy g) = shift R C a b (shift R C dx dy g) := by
  rw [lifeIter_shift, h, shift_comm]

/-- A still life handed to `evolve2d` is returned unchanged at every timestep. -/
theorem still_life_run (R C : Nat) (g : Grid Int) (h : lifeStep R C g = g) :
    ∀ k, lifeRun R C k g = List.replicate k g
  | 0 => rfl
  | k + 1 => by
    simp only [lifeRun, List.replicate_succ]
    rw [h, still_life_run R C g h k]

/-! ## Patterns (glider: every torus ≥ 5 × 5; the others: kernel evaluation on all tori `5..10 × 5..10`) -/

/-- The `R × C` grid whose live cells are `cells`. -/
def place (R C : Nat) (cells : List (Nat × Nat)) : Grid Int :=
  (List.range R).map fun i => (List.range C).map fun j => if (i, j) ∈ cells then 1 else 0

/-- Live cells of the four patterns, with the pattern's bounding box at the origin. -/
def glider : List (Nat × Nat) := [(0, 1), (1, 2), (2, 0), (2, 1), (2, 2)]
def blinker : List (Nat × Nat) := [(1, 0), (1, 1), (1, 2)]
def block : List (Nat × Nat) := [(0, 0), (0, 1), (1, 0), (1, 1)]
def beehive : List (Nat × Nat) := [(0, 1), (0, 2), (1, 0), (1, 3), (2, 1), (2, 2)]

/-- **Glider, direct evaluation** (checked sizes only: every torus `R × C` with `5 ≤ R, C ≤ 10`, 36 shapes;
    larger tori are not covered by this theorem — see `glider_period` for all sizes): the four Life steps
    of the whole torus are evaluated by the kernel; the glider placed at the origin reappears moved by one
    cell down and one cell right. -/
theorem glider_period_partial : ∀ R ∈ List.range' 5 6, ∀ C ∈ List.range' 5 6,
    lifeIter R C 4 (place R C glider) = shift R C 1 1 (place R C glider) := by
  decide +kernel

/-- … and it is not back earlier: after 1, 2, 3 steps the grid is not that translate (same sizes). -/
theorem glider_not_earlier_partial : ∀ R ∈ List.range' 5 6, ∀ C ∈ List.range' 5 6,
    ∀ k ∈ [1, 2, 3], lifeIter R C k (place R C glider) ≠ shift R C 1 1 (place R C glider) := by
  decide +kernel

/-- **Glider on every torus** with at least 5 rows and 5 columns (square or not, arbitrarily large):
    after four steps the glider placed at the origin reappears moved by one cell down and one cell right.
    (Four steps at a cell depend on the 9×9 block around it; whatever the torus size that block is one of
    32 × 32 possibilities, each evaluated by the kernel.) -/
theorem glider_period (R C : Nat) (hR : 5 ≤ R) (hC : 5 ≤ C) :
    lifeIter R C 4 (place R C glider) = shift R C 1 1 (place R C glider) :=
  Life.glider4 R C hR hC

/-- **Glider anywhere on every torus**: placed at any offset `(dx, dy)` — in particular straddling the
    periodic boundary — it reappears one cell further down-right after four steps. -/
theorem glider_anywhere (R C : Nat) (hR : 5 ≤ R) (hC : 5 ≤ C) (dx dy : Nat) :
    lifeIter R C 4 (shift R C dx dy (place R C glider))
      = shift R C 1 1 (shift R C dx dy (place R C glider)) :=
  spaceship_anywhere R C dx dy 4 1 1 _ (glider_period R C hR hC)

/-- **Blinker** (sizes `5..10 × 5..10`): period two and not one. -/
theorem blinker_period_two : ∀ R ∈ List.range' 5 6, ∀ C ∈ List.range' 5 6,
    lifeIter R C 2 (place R C blinker) = place R C blinker ∧
    lifeStep R C (place R C blinker) ≠ place R C blinker := by
  decide +kernel

/-- **Block** (sizes `5..10 × 5..10`): a still life. -/
theorem block_fixed : ∀ R ∈ List.range' 5 6, ∀ C ∈ List.range' 5 6,
    lifeStep R C (place R C block) = place R C block := by
  decide +kernel

/-- **Beehive** (sizes `6..10 × 6..10`): a still life. -/
theorem beehive_fixed : ∀ R ∈ List.range' 6 5, ∀ C ∈ List.range' 6 5,
    lifeStep R C (place R C beehive) = place R C beehive := by
  decide +kernel

/-- Placed patterns and their translates are binary `R × C` grids. -/
theorem place_binary (R C : Nat) (cells : List (Nat × Nat)) : Binary (place R C cells) :=
  Life.tabulate_binary R C _ fun i j => by split <;> simp

/-- See `place_binary`. -/
theorem place_rect (R C : Nat) (cells : List (Nat × Nat)) : Rect (place R C cells) R C :=
  Life.tabulate_rect R C _

/-- See `place_binary`. -/
theorem shift_binary (R C dx dy : Nat) (g : Grid Int) (hb : Binary g) : Binary (shift R C dx dy g) :=
  Life.tabulate_binary R C _ fun _ _ => Life.cell_binary' hb _ _

/-- See `place_binary`. -/
theorem shift_rect (R C dx dy : Nat) (g : Grid Int) : Rect (shift R C dx dy g) R C :=
  Life.tabulate_rect R C _

/-- **Still lifes stay fixed under `evolve2d`**: a binary grid that the Life update leaves unchanged is
    returned at every timestep, in every memoize mode. -/
theorem still_life_evolve (R C : Nat) (hR : 1 ≤ R) (hC : 1 ≤ C) (g : Grid Int) (hg : Rect g R C)
    (hb : Binary g) (hfix : lifeStep R C g = g) (mode : Mode) (hm : mode ≠ .bad) (T : Nat) (hT : 1 ≤ T) :
    evolve2dFixed [g] T golRule2 1 .moore mode () = .ok (List.replicate T g, ()) := by
  rw [evolve2d_gol_eq_life 0 mode hm [g] g rfl T hT R C hg hb hR hC, still_life_run R C g hfix]
  obtain ⟨k, rfl⟩ : ∃ k, T = k + 1 := ⟨T - 1, by omega⟩
  simp [List.replicate_succ]

/-- The block through `evolve2d`: any of the 36 torus sizes, any placement (also across the boundary),
    any memoize mode, any number of timesteps. -/
theorem block_evolve (R C : Nat) (hR : R ∈ List.range' 5 6) (hC : C ∈ List.range' 5 6) (dx dy : Nat)
    (mode : Mode) (hm : mode ≠ .bad) (T : Nat) (hT : 1 ≤ T) :
    evolve2dFixed [shift R C dx dy (place R C block)] T golRule2 1 .moore mode ()
      = .ok (List.replicate T (shift R C dx dy (place R C block)), ()) := by
  have hR1 : 1 ≤ R := by simp [List.mem_range'] at hR; omega
  have hC1 : 1 ≤ C := by simp [List.mem_range'] at hC; omega
  exact still_life_evolve R C hR1 hC1 _ (shift_rect R C dx dy _)
    (shift_binary R C dx dy _ (place_binary R C block))
    (still_life_anywhere R C dx dy _ (block_fixed R hR C hC)) mode hm T hT

/-- **The glider through `evolve2d`** on every torus of at least 5 × 5 cells, any placement, any memoize
    mode: the grid at timestep `4` (the fifth entry of the returned array) is the initial grid moved by
    one cell down and right. -/
theorem glider_evolve (R C : Nat) (hR : 5 ≤ R) (hC : 5 ≤ C) (dx dy : Nat)
    (mode : Mode) (hm : mode ≠ .bad) (T : Nat) (hT : 5 ≤ T) :
    (evolve2dFixed [shift R C dx dy (place R C glider)] T golRule2 1 .moore mode ()).map (·.1[4]?)
      = .ok (some (shift R C 1 1 (shift R C dx dy (place R C glider)))) := by
  rw [evolve2d_gol_eq_life 0 mode hm [shift R C dx dy (place R C glider)] (shift R C dx dy (place R C glider))
    rfl T (by omega) R C (shift_rect R C dx dy _) (shift_binary R C dx dy _ (place_binary R C glider))
    (by omega) (by omega)]
  simp only [Except.map, List.cons_append, List.nil_append, List.getElem?_cons_succ]
  rw [lifeRun_getElem? R C (T - 1) 3 _ (by omega), glider_anywhere R C hR hC dx dy]

/-! ## Non-vacuity -/

/-- The glider on a 5×5 torus, one step. -/
example : lifeStep 5 5 (place 5 5 glider)
    = [[0,0,0,0,0],[1,0,1,0,0],[0,1,1,0,0],[0,1,0,0,0],[0,0,0,0,0]] := by decide +kernel

/-- The model itself (recursive memoization) on the glider: four steps on a 6×5 torus. -/
example : (match evolve2dFixed [place 6 5 glider] 5 golRule2 1 .moore .recursive () with
      | .ok (gs, _) => gs.getLast?
      | .error _ => none)
    = some (shift 6 5 1 1 (place 6 5 glider)) := by decide +kernel

/-- A large, non-square torus. -/
example : lifeIter 50 73 4 (shift 50 73 48 71 (place 50 73 glider))
    = shift 50 73 1 1 (shift 50 73 48 71 (place 50 73 glider)) :=
  glider_anywhere 50 73 (by decide) (by decide) 48 71

/-- A translate that wraps around both boundaries. -/
example : shift 5 5 4 4 (place 5 5 glider)
    = [[0,1,0,0,0],[1,1,0,0,1],[0,0,0,0,0],[0,0,0,0,0],[1,0,0,0,0]] := by decide +kernel

end Cpl.C11
