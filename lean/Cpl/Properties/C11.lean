import Cpl.Model.Rules
namespace Cpl.C11
theorem placeholder : True := trivial
end Cpl.C11
