import Cpl.Model.Bits
import Cpl.Lemmas.Digits

/-!
# C07 — Wolfram (NKS) binary rule numbering for every radius

Property theorems only. The model (`Cpl.Model.Bits`) mirrors the Python; the specification used
here is `Nat.testBit` / big-endian place values. All statements hold for *every* neighbourhood
width and *every* (unbounded) rule number — far beyond the property's own `r ≤ 3`, `2^128` bound.
-/

namespace Cpl.C07
open Py Cpl

/-- Python truthiness of a cell as a bit. -/
def bitVal (b : Int) : Nat := if b ≠ 0 then 1 else 0

/-- Specification: the neighbourhood read as a number, leftmost cell most significant. -/
def beValue (bits : List Int) : Nat := ofDigitsBE 2 (bits.map bitVal)

/-! ## helper facts (local) -/

private def leValue : List Int → Nat
  | [] => 0
  | j :: r => bitVal j + 2 * leValue r

private theorem loop_eq (l : List Int) : ∀ (s t : Nat),
    bitsToIntLoop l s t = t + 2 ^ s * leValue l := by
  induction l with
  | nil => intro s t; simp [bitsToIntLoop, leValue]
  | cons j r ih =>
    intro s t
    simp only [bitsToIntLoop, leValue, ih, bitVal, Nat.shiftLeft_eq, Nat.one_mul]
    split
    · rw [Nat.pow_succ, Nat.mul_add, Nat.mul_one, Nat.mul_assoc]; omega
    · rw [Nat.pow_succ, Nat.zero_add, Nat.mul_assoc]

private theorem leValue_reverse (bits : List Int) : leValue bits.reverse = beValue bits := by
  induction bits using List.reverseRecOn with
  | nil => rfl
  | append_singleton bs b ih =>
    rw [List.reverse_append, List.reverse_singleton, List.singleton_append]
    unfold beValue at ih ⊢
    rw [List.map_append, List.map_singleton, ofDigitsBE_append_single, leValue, ih]; omega

private theorem bitVal_lt (b : Int) : bitVal b < 2 := by unfold bitVal; split <;> omega

/-! ## `bits_to_int` -/

/-- **bits_to_int is the big-endian value** (with Python truthiness of the cells). -/
theorem bitsToInt_spec (bits : List Int) : bitsToInt bits = beValue bits := by
  unfold bitsToInt; rw [loop_eq]; simp [leValue_reverse]

theorem bitsToInt_lt (bits : List Int) : bitsToInt bits < 2 ^ bits.length := by
  rw [bitsToInt_spec]; unfold beValue
  have := ofDigitsBE_lt_pow 2 (bits.map bitVal) (by
    intro d hd; obtain ⟨b, _, rfl⟩ := List.mem_map.mp hd; exact bitVal_lt b)
  simpa using this

/-- Place-value reading of a cell list: bit `len-1-i` of the value is the truth value of cell `i`. -/
theorem beValue_testBit (l : List Int) (i : Nat) (hi : i < l.length) :
    (beValue l).testBit (l.length - 1 - i) = decide (l[i] ≠ 0) := by
  unfold beValue
  have hlt : ∀ d ∈ l.map bitVal, d < 2 := by
    intro d hd; obtain ⟨b, _, rfl⟩ := List.mem_map.mp hd; exact bitVal_lt b
  have key := ofDigitsBE_getElem 2 (by omega) (l.map bitVal) hlt i (by simpa using hi)
  simp only [List.length_map, List.getElem_map] at key
  rw [Nat.testBit_eq_decide_div_mod_eq, ← key]
  unfold bitVal; split <;> simp_all

/-- Bit `i` of the value is the truth value of the cell `i` places from the right end:
    the leftmost cell is the most significant bit. -/
theorem bitsToInt_testBit (bits : List Int) (i : Nat) (hi : i < bits.length) :
    (bitsToInt bits).testBit i = decide (bits[bits.length - 1 - i] ≠ 0) := by
  rw [bitsToInt_spec]
  have := beValue_testBit bits (bits.length - 1 - i) (by omega)
  have e : bits.length - 1 - (bits.length - 1 - i) = i := by omega
  rw [e] at this; exact this

/-! ## `int_to_bits` -/

private theorem binDigits_map_value (num : Nat) :
    beValue ((binDigits num).map Int.ofNat) = num := by
  unfold beValue binDigits
  have hlt := baseDigits_lt 2 (by omega) num
  have : ((baseDigits 2 num).map Int.ofNat).map bitVal = baseDigits 2 num := by
    rw [List.map_map]
    conv => rhs; rw [← List.map_id (baseDigits 2 num)]
    apply List.map_congr_left
    intro d hd
    have := hlt d hd
    have hd' : d = 0 ∨ d = 1 := by omega
    rcases hd' with rfl | rfl <;> simp [bitVal]
  rw [this]; exact baseDigits_value 2 (by omega) num

/-- **int_to_bits succeeds exactly below `2^d`** and produces `d` digits whose `i`-th entry is bit
    `d-1-i` of the number (big-endian, left padded with zeros). -/
theorem intToBits_ok (num d : Nat) (hd : 1 ≤ d) (h : num < 2 ^ d) :
    ∃ l, intToBits num d = .ok l ∧ l.length = d ∧ beValue l = num ∧
      ∀ i (hi : i < l.length), l[i] = if num.testBit (d - 1 - i) then 1 else 0 := by
  have hlen : (binDigits num).length ≤ d := (baseDigits_length_le_iff 2 num d (by omega) hd).mpr h
  refine ⟨List.replicate (d - (binDigits num).length) 0 ++ (binDigits num).map Int.ofNat, ?_, ?_, ?_, ?_⟩
  · unfold intToBits; simp only [List.length_map]; rw [if_neg (by omega)]
  · simp; omega
  · have := binDigits_map_value num
    unfold beValue at this ⊢
    rw [List.map_append, List.map_replicate]
    have z : bitVal 0 = 0 := rfl
    rw [z, ofDigitsBE_replicate_zero_append]; exact this
  · intro i hi
    set l := List.replicate (d - (binDigits num).length) 0 ++ (binDigits num).map Int.ofNat with hl
    have hld : l.length = d := by simp [hl]; omega
    have hval : beValue l = num := by
      have := binDigits_map_value num
      unfold beValue at this ⊢
      rw [hl, List.map_append, List.map_replicate]
      have z : bitVal 0 = 0 := rfl
      rw [z, ofDigitsBE_replicate_zero_append]; exact this
    -- entries are 0/1
    have hbin : ∀ x ∈ l, x = 0 ∨ x = 1 := by
      intro x hx
      rw [hl, List.mem_append] at hx
      rcases hx with hx | hx
      · exact Or.inl (List.eq_of_mem_replicate hx)
      · obtain ⟨n, hn, rfl⟩ := List.mem_map.mp hx
        have := baseDigits_lt 2 (by omega) num n hn
        have : n = 0 ∨ n = 1 := by omega
        rcases this with rfl | rfl <;> simp
    have key := beValue_testBit l i hi
    rw [hval, hld] at key
    show l[i] = _
    rw [key]
    rcases hbin l[i] (List.getElem_mem hi) with h0 | h1
    · rw [h0]; simp
    · rw [h1]; simp

/-- A number that needs more than `d` binary digits is rejected (`np.pad` with a negative width). -/
theorem intToBits_err (num d : Nat) (hd : 1 ≤ d) (h : 2 ^ d ≤ num) :
    intToBits num d = .error .ValueError := by
  have : ¬ (binDigits num).length ≤ d := by
    rw [show binDigits num = baseDigits 2 num from rfl,
      baseDigits_length_le_iff 2 num d (by omega) hd]; omega
  unfold intToBits; simp only [List.length_map]; rw [if_pos (by omega)]

/-- Guard witness: zero digits are always rejected (Python writes 0 with one digit). -/
theorem intToBits_zero_digits (num : Nat) : intToBits num 0 = .error .ValueError := by
  have := baseDigits_length_pos 2 num (by omega)
  unfold intToBits; simp only [List.length_map]
  rw [if_pos (by unfold binDigits; omega)]

/-- **Round trip 1**: `bits_to_int (int_to_bits num d) = num` for numbers of any size. -/
theorem bits_roundtrip_int (num d : Nat) (hd : 1 ≤ d) (h : num < 2 ^ d) :
    (intToBits num d).map bitsToInt = .ok num := by
  obtain ⟨l, hl, _, hv, _⟩ := intToBits_ok num d hd h
  rw [hl]; simp only [Except.map]; rw [bitsToInt_spec, hv]

/-- **Round trip 2**: `int_to_bits (bits_to_int bs) len(bs) = bs` for binary `bs` with at least one digit. -/
theorem bits_roundtrip_bits (bs : List Int) (hlen : 1 ≤ bs.length) (hbin : ∀ b ∈ bs, b = 0 ∨ b = 1) :
    intToBits (bitsToInt bs) bs.length = .ok bs := by
  obtain ⟨l, hl, hll, _, hget⟩ := intToBits_ok (bitsToInt bs) bs.length hlen (bitsToInt_lt bs)
  rw [hl]; congr 1
  apply List.ext_getElem hll
  intro i h1 h2
  rw [hget i h1, bitsToInt_testBit bs (bs.length - 1 - i) (by omega)]
  have e : bs.length - 1 - (bs.length - 1 - i) = i := by omega
  simp only [e]
  rcases hbin bs[i] (List.getElem_mem h2) with h0 | h0 <;> simp [h0]

/-! ## `binary_rule` / `nks_rule` -/

private theorem getIdx_nat {α} (l : List α) (i : Nat) (hi : i < l.length) :
    getIdx l (i : Int) = .ok l[i] := by
  unfold getIdx
  have h0 : ¬ ((i : Int) < 0) := by omega
  simp only [h0, if_false]
  simp [hi]

/-- **NKS scheme**: bit `v` of the rule number, `v` the neighbourhood read big-endian
    (bit 0 = all-zero neighbourhood) — every width, every rule number in range. -/
theorem nks_spec (nb : List Int) (rule : Nat) (hr : rule < 2 ^ (2 ^ nb.length)) :
    binaryRule nb (.num rule) true none
      = .ok (if rule.testBit (bitsToInt nb) then 1 else 0) := by
  have hpos : 1 ≤ 2 ^ nb.length := Nat.one_le_two_pow
  obtain ⟨l, hl, hll, _, hget⟩ := intToBits_ok rule (2 ^ nb.length) hpos hr
  have hv := bitsToInt_lt nb
  unfold binaryRule
  simp only [bind, Except.bind, pure, Except.pure, hl, if_true]
  have e : ((2 ^ nb.length : Nat) : Int) - 1 - Int.ofNat (bitsToInt nb)
      = ((2 ^ nb.length - 1 - bitsToInt nb : Nat) : Int) := by
    simp only [Int.ofNat_eq_natCast]; omega
  rw [e, getIdx_nat l _ (by omega), hget _ (by omega)]
  have e2 : 2 ^ nb.length - 1 - (2 ^ nb.length - 1 - bitsToInt nb) = bitsToInt nb := by omega
  rw [e2]

theorem nksRule_spec (nb : List Int) (rule : Nat) (hr : rule < 2 ^ (2 ^ nb.length)) :
    nksRule nb rule = .ok (if rule.testBit (bitsToInt nb) then 1 else 0) := nks_spec nb rule hr

/-- **Default scheme**: the bit `v` places from the most significant end of the `2^w`-bit rule. -/
theorem default_spec (nb : List Int) (rule : Nat) (hr : rule < 2 ^ (2 ^ nb.length)) :
    binaryRule nb (.num rule) false none
      = .ok (if rule.testBit (2 ^ nb.length - 1 - bitsToInt nb) then 1 else 0) := by
  have hpos : 1 ≤ 2 ^ nb.length := Nat.one_le_two_pow
  obtain ⟨l, hl, hll, _, hget⟩ := intToBits_ok rule (2 ^ nb.length) hpos hr
  have hv := bitsToInt_lt nb
  unfold binaryRule
  simp only [bind, Except.bind, pure, Except.pure, hl]
  have : getIdx l (Int.ofNat (bitsToInt nb)) = .ok l[bitsToInt nb] := getIdx_nat l _ (by omega)
  simp only [Bool.false_eq_true, if_false, this, hget _ (show bitsToInt nb < l.length by omega)]

/-- A rule number that needs more than `2^w` bits is rejected. -/
theorem rule_out_of_range (nb : List Int) (rule : Nat) (nks : Bool)
    (hr : 2 ^ (2 ^ nb.length) ≤ rule) :
    binaryRule nb (.num rule) nks none = .error .ValueError := by
  have hpos : 1 ≤ 2 ^ nb.length := Nat.one_le_two_pow
  unfold binaryRule
  simp only [bind, Except.bind, pure, Except.pure, intToBits_err rule _ hpos hr]

/-- **A rule supplied as a bit array** answers like the integer it spells. -/
theorem bits_form_agrees (nb : List Int) (rule : Nat) (nks : Bool)
    (hr : rule < 2 ^ (2 ^ nb.length)) (l : List Int)
    (hl : intToBits rule (2 ^ nb.length) = .ok l) :
    binaryRule nb (.bits l) nks none = binaryRule nb (.num rule) nks none := by
  have hpos : 1 ≤ 2 ^ nb.length := Nat.one_le_two_pow
  obtain ⟨l', hl', hll, _, _⟩ := intToBits_ok rule (2 ^ nb.length) hpos hr
  rw [hl] at hl'; cases hl'
  unfold binaryRule
  simp only [bind, Except.bind, pure, Except.pure, hl, hll, ne_eq, not_true_eq_false, if_false]

/-- The bit-array form indexed directly: NKS reads `l[2^w-1-v]`, default reads `l[v]`. -/
theorem bits_form_spec (nb : List Int) (l : List Int) (hl : l.length = 2 ^ nb.length) :
    binaryRule nb (.bits l) true none = .ok (l[2 ^ nb.length - 1 - bitsToInt nb]'(by
        have := bitsToInt_lt nb; have : 1 ≤ 2 ^ nb.length := Nat.one_le_two_pow; omega)) ∧
    binaryRule nb (.bits l) false none = .ok (l[bitsToInt nb]'(by
        have := bitsToInt_lt nb; omega)) := by
  have hv := bitsToInt_lt nb
  have hpos : 1 ≤ 2 ^ nb.length := Nat.one_le_two_pow
  constructor
  · unfold binaryRule
    simp only [bind, Except.bind, pure, Except.pure, hl, ne_eq, not_true_eq_false, if_false, if_true]
    have e : ((2 ^ nb.length : Nat) : Int) - 1 - Int.ofNat (bitsToInt nb)
        = ((2 ^ nb.length - 1 - bitsToInt nb : Nat) : Int) := by
      simp only [Int.ofNat_eq_natCast]; omega
    rw [e, getIdx_nat l _ (by omega)]
  · unfold binaryRule
    simp only [bind, Except.bind, pure, Except.pure, hl, ne_eq, not_true_eq_false, if_false,
      Bool.false_eq_true]
    exact getIdx_nat l _ (by omega)

/-- A bit array of the wrong length trips the `assert`. -/
theorem bits_form_wrong_length (nb l : List Int) (nks : Bool) (hl : l.length ≠ 2 ^ nb.length) :
    binaryRule nb (.bits l) nks none = .error .AssertionError := by
  unfold binaryRule
  simp only [bind, Except.bind, pure, Except.pure, hl, ne_eq, not_false_eq_true, if_true, throw,
    throwThe, MonadExceptOf.throw]

/-- The documented powers-of-two vector `[2^(w-1), …, 2, 1]`. -/
def powersOfTwo : Nat → List Int
  | 0 => []
  | w + 1 => (2 ^ w : Int) :: powersOfTwo w

theorem powersOfTwo_length (w : Nat) : (powersOfTwo w).length = w := by
  induction w with
  | zero => rfl
  | succ w ih => simp [powersOfTwo, ih]

private theorem beValue_cons (b : Int) (bs : List Int) :
    beValue (b :: bs) = bitVal b * 2 ^ bs.length + beValue bs := by
  induction bs using List.reverseRecOn generalizing b with
  | nil => simp [beValue, ofDigitsBE]
  | append_singleton bs x ih =>
    have h1 : beValue (b :: (bs ++ [x])) = 2 * beValue (b :: bs) + bitVal x := by
      unfold beValue
      rw [← List.cons_append, List.map_append, List.map_singleton, ofDigitsBE_append_single]
    have h2 : beValue (bs ++ [x]) = 2 * beValue bs + bitVal x := by
      unfold beValue
      rw [List.map_append, List.map_singleton, ofDigitsBE_append_single]
    rw [h1, h2, ih, List.length_append, List.length_singleton, Nat.pow_succ]
    rw [Nat.mul_add, ← Nat.mul_assoc, Nat.mul_comm 2 (bitVal b), Nat.mul_assoc, Nat.mul_comm 2]
    omega

/-- On a binary neighbourhood the dot product with `[2^(w-1),…,1]` is `bits_to_int`. -/
theorem dot_powersOfTwo (nb : List Int) (hbin : ∀ b ∈ nb, b = 0 ∨ b = 1) :
    dot nb (powersOfTwo nb.length) = (bitsToInt nb : Int) := by
  rw [bitsToInt_spec]
  induction nb with
  | nil => simp [dot, beValue, ofDigitsBE]
  | cons b bs ih =>
    have hb := hbin b (by simp)
    have ih' := ih (fun x hx => hbin x (by simp [hx]))
    rw [List.length_cons, powersOfTwo, dot, ih', beValue_cons]
    rcases hb with rfl | rfl <;> simp [bitVal]

/-- **The precomputed powers-of-two vector gives the same answers** on binary neighbourhoods. -/
theorem pow_form_agrees (nb : List Int) (rule : RuleArg) (nks : Bool)
    (hbin : ∀ b ∈ nb, b = 0 ∨ b = 1) :
    binaryRule nb rule nks (some (powersOfTwo nb.length)) = binaryRule nb rule nks none := by
  unfold binaryRule
  simp only [bind, Except.bind, pure, Except.pure, powersOfTwo_length, ne_eq, not_true_eq_false,
    if_false, dot_powersOfTwo nb hbin, Int.ofNat_eq_natCast]

/-- A powers-of-two vector of the wrong length trips the `assert`. -/
theorem pow_form_wrong_length (nb p : List Int) (rule : RuleArg) (nks : Bool)
    (h : p.length ≠ nb.length) :
    binaryRule nb rule nks (some p) = .error .AssertionError := by
  unfold binaryRule
  simp only [bind, Except.bind, h, ne_eq, not_false_eq_true, if_true, throw, throwThe,
    MonadExceptOf.throw]

/-- **The classes agree with the functions** (they forward their arguments). -/
theorem classes_agree (nb : List Int) (rule : Nat) (ra : RuleArg) (nks : Bool)
    (pow : Option (List Int)) (c t : Nat) :
    nksRuleClass rule nb c t = nksRule nb rule ∧
    binaryRuleClass ra nks pow nb c t = binaryRule nb ra nks pow := ⟨rfl, rfl⟩

/-! ## non-vacuity: the elementary rules 30 and 110, by evaluation -/

example : (List.map (fun nb => nksRule nb 30)
    [[1,1,1],[1,1,0],[1,0,1],[1,0,0],[0,1,1],[0,1,0],[0,0,1],[0,0,0]])
    = [.ok 0, .ok 0, .ok 0, .ok 1, .ok 1, .ok 1, .ok 1, .ok 0] := by decide
example : (List.map (fun nb => nksRule nb 110)
    [[1,1,1],[1,1,0],[1,0,1],[1,0,0],[0,1,1],[0,1,0],[0,0,1],[0,0,0]])
    = [.ok 0, .ok 1, .ok 1, .ok 0, .ok 1, .ok 1, .ok 1, .ok 0] := by decide
example : (30 : Nat) < 2 ^ (2 ^ [1, 0, 1].length) := by decide

end Cpl.C07
