import Cpl.Model.Evolve2D
namespace Cpl.C04
theorem placeholder : True := trivial
end Cpl.C04
