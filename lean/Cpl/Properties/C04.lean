import Cpl.Spec.Torus
import Cpl.Lemmas.Evolve2D
import Cpl.Lemmas.Memo2D

/-!
# C04 — 2D memoization is transparent (True and 'recursive' equal False)

`PureVal2 rule f`: the rule's result depends only on the neighbourhood it is handed (for von Neumann
that is the unmasked part: masked cells are `none`). Every grid shape (square or not, no power-of-two
assumption), every radius `0 ≤ r ≤ min(R, C)`, both neighbourhood types.
-/

namespace Cpl.C04
open Cpl Cpl.Spec

variable {σ α : Type}

/-- **All three modes compute the same grids**: the given history followed by the pure torus updates. -/
theorem evolve2dFixed_grids_pure [DecidableEq α] [Inhabited α] (rule : Rule2 σ α) (f : Nbhd2 α → α)
    (hp : PureVal2 rule f) (mode : Mode) (hm : mode ≠ .bad) (hist : List (Grid α)) (init : Grid α)
    (hlast : hist.getLast? = some init) (T : Nat) (hT : 1 ≤ T) (R C r : Nat) (nb : NbType)
    (hnb : nb ≠ .unknown) (hg : Rect init R C) (hR1 : 1 ≤ R) (hC1 : 1 ≤ C) (hR : r ≤ R) (hC : r ≤ C) (s : σ) :
    (evolve2dFixed hist T rule r nb mode s).map Prod.fst
      = .ok (hist ++ pureRun2 f R C r (decide (nb = .vonNeumann)) (T - 1) init) := by
  have _ := hC1
  rw [evolve2dFixed_eq rule mode hm hist init hlast T hT r nb hnb s]
  rw [fixedLoop2_pure rule f hp mode hm R C r (decide (nb = .vonNeumann)) hR1 hR hC (T - 1) 1 init
    Caches2.empty s hg (CachesOK2_empty f r _)]
  rfl

/-- **memoize=True is transparent.** -/
theorem evolve2d_memo_eq_plain [DecidableEq α] [Inhabited α] (rule : Rule2 σ α) (f : Nbhd2 α → α)
    (hp : PureVal2 rule f) (hist : List (Grid α)) (init : Grid α) (hlast : hist.getLast? = some init)
    (T : Nat) (hT : 1 ≤ T) (R C r : Nat) (nb : NbType) (hnb : nb ≠ .unknown) (hg : Rect init R C)
    (hR1 : 1 ≤ R) (hC1 : 1 ≤ C) (hR : r ≤ R) (hC : r ≤ C) (s : σ) :
    (evolve2dFixed hist T rule r nb .memo s).map Prod.fst
      = (evolve2dFixed hist T rule r nb .plain s).map Prod.fst := by
  rw [evolve2dFixed_grids_pure rule f hp .memo (by decide) hist init hlast T hT R C r nb hnb hg hR1 hC1 hR hC s,
    evolve2dFixed_grids_pure rule f hp .plain (by decide) hist init hlast T hT R C r nb hnb hg hR1 hC1 hR hC s]

/-- **memoize='recursive' is transparent** for every grid shape and every radius. -/
theorem evolve2d_rec_eq_plain [DecidableEq α] [Inhabited α] (rule : Rule2 σ α) (f : Nbhd2 α → α)
    (hp : PureVal2 rule f) (hist : List (Grid α)) (init : Grid α) (hlast : hist.getLast? = some init)
    (T : Nat) (hT : 1 ≤ T) (R C r : Nat) (nb : NbType) (hnb : nb ≠ .unknown) (hg : Rect init R C)
    (hR1 : 1 ≤ R) (hC1 : 1 ≤ C) (hR : r ≤ R) (hC : r ≤ C) (s : σ) :
    (evolve2dFixed hist T rule r nb .recursive s).map Prod.fst
      = (evolve2dFixed hist T rule r nb .plain s).map Prod.fst := by
  rw [evolve2dFixed_grids_pure rule f hp .recursive (by decide) hist init hlast T hT R C r nb hnb hg hR1 hC1 hR
      hC s,
    evolve2dFixed_grids_pure rule f hp .plain (by decide) hist init hlast T hT R C r nb hnb hg hR1 hC1 hR hC s]

/-- **Callable timesteps**: memoized dynamic evolutions return the grids of the unmemoized one. -/
theorem evolve2dDynamic_grids_mode_indep [DecidableEq α] [Inhabited α] (rule : Rule2 σ α) (f : Nbhd2 α → α)
    (hp : PureVal2 rule f) (mode : Mode) (hm : mode ≠ .bad) (fuel : Nat) (hist : List (Grid α))
    (init : Grid α) (hlast : hist.getLast? = some init) (pred : List (Grid α) → Nat → Bool) (R C r : Nat)
    (nb : NbType) (hnb : nb ≠ .unknown) (hg : Rect init R C) (hR1 : 1 ≤ R) (hC1 : 1 ≤ C) (hR : r ≤ R)
    (hC : r ≤ C) (s : σ) :
    (evolve2dDynamic fuel hist pred rule r nb mode s).map (·.map Prod.fst)
      = (evolve2dDynamic fuel hist pred rule r nb .plain s).map (·.map Prod.fst) := by
  have _ := hC1
  unfold evolve2dDynamic
  rw [hlast]
  simp only
  have key := dynLoop2_mode_indep rule f hp mode hm R C r nb hnb hR1 hR hC pred fuel 1 [init] init
    Caches2.empty Caches2.empty s s hg (CachesOK2_empty f r _)
  generalize dynLoop2 mode rule r nb pred fuel 1 [init] init Caches2.empty s = x at key
  generalize dynLoop2 Mode.plain rule r nb pred fuel 1 [init] init Caches2.empty s = y at key
  rcases x with _ | (e | ⟨acc, sx⟩) <;> rcases y with _ | (e' | ⟨acc', sy⟩) <;>
    simp [Except.map] at key ⊢
  · exact key
  · rw [key]

/-- An unsupported option is rejected as soon as a step would be taken (and only then). -/
theorem bad_mode_rejected [DecidableEq α] [Inhabited α] (rule : Rule2 σ α) (hist : List (Grid α))
    (init : Grid α) (hlast : hist.getLast? = some init) (T : Nat) (r : Nat) (nb : NbType)
    (hnb : nb ≠ .unknown) (s : σ) :
    (2 ≤ T → evolve2dFixed hist T rule r nb .bad s = .error .Exception) ∧
    evolve2dFixed hist 1 rule r nb .bad s = .ok (hist, s) := by
  constructor
  · intro hT
    unfold evolve2dFixed
    rw [hlast]
    simp only
    rw [if_neg (by omega), if_neg (by simp [hnb]), if_pos (by simp; omega)]
  · unfold evolve2dFixed
    rw [hlast]
    simp [fixedLoop2]

/-- **Quadtree sanity**: the four quadrants of a block partition its cells (empty quadrants allowed),
    each non-empty quadrant of a block with more than one cell is strictly smaller. -/
theorem quadrants_partition (b : Blk) (i j : Nat) :
    (b.r0 ≤ i ∧ i < b.r0 + b.h ∧ b.c0 ≤ j ∧ j < b.c0 + b.w) ↔
      ∃ q ∈ quadrants b, q.r0 ≤ i ∧ i < q.r0 + q.h ∧ q.c0 ≤ j ∧ j < q.c0 + q.w := by
  exact Memo2D.quadrants_inBlk b i j

theorem quadrants_smaller (b : Blk) (hb : b.h > 1 ∨ b.w > 1) :
    ∀ q ∈ quadrants b, q.h + q.w < b.h + b.w := by
  exact Memo2D.quadrants_lt b hb

/-! ## Non-vacuity: a 3×4 and a 4×3 block of equal bytes are different keys (nested lists carry the shape) -/
example : blockKey [[0,0,0,0],[0,0,0,0],[0,0,0,0],[0,0,0,0]] 1 ⟨0, 1, 0, 2⟩
    ≠ blockKey [[0,0,0,0],[0,0,0,0],[0,0,0,0],[0,0,0,0]] 1 ⟨0, 2, 0, 1⟩ := by decide

end Cpl.C04

/-! ## Translation equivariance (periodic boundary)

`evolve2d` level of `C02.pureRun2_shift`: translating the torus handed to `evolve2d` translates every
grid it returns, for every rule whose result depends only on the neighbourhood it is handed, in every
supported mode and for both neighbourhood types. Convention (`C02.shift2`): cell `(i, j)` of
`shift2 R C dx dy g` is cell `((i + dx) mod R, (j + dy) mod C)` of `g`. -/

namespace Cpl.C04
open Cpl Cpl.Spec

variable {σ σ' α : Type}

/-- **General form**: a whole history may be given (all its grids translated); the two evolutions may
    even use different rule objects / rule states / memoization modes as long as both compute `f`. -/
theorem evolve2d_shift_hist [DecidableEq α] [Inhabited α] (rule : Rule2 σ α) (rule' : Rule2 σ' α)
    (f : Nbhd2 α → α) (hp : PureVal2 rule f) (hp' : PureVal2 rule' f) (mode mode' : Mode)
    (hm : mode ≠ .bad) (hm' : mode' ≠ .bad) (hist : List (Grid α)) (init : Grid α)
    (hlast : hist.getLast? = some init) (T : Nat) (hT : 1 ≤ T) (R C r dx dy : Nat) (nb : NbType)
    (hnb : nb ≠ .unknown) (hg : Rect init R C) (hR1 : 1 ≤ R) (hC1 : 1 ≤ C) (hR : r ≤ R) (hC : r ≤ C)
    (s : σ) (s' : σ') :
    (evolve2dFixed (hist.map (C02.shift2 R C dx dy)) T rule r nb mode s).map Prod.fst
      = ((evolve2dFixed hist T rule' r nb mode' s').map Prod.fst).map (·.map (C02.shift2 R C dx dy)) := by
  have hlast' : (hist.map (C02.shift2 R C dx dy)).getLast? = some (C02.shift2 R C dx dy init) := by
    rw [List.getLast?_map, hlast]; rfl
  rw [evolve2dFixed_grids_pure rule f hp mode hm _ (C02.shift2 R C dx dy init) hlast' T hT R C r nb hnb
      (C02.shift2_rect R C dx dy init) hR1 hC1 hR hC s,
    evolve2dFixed_grids_pure rule' f hp' mode' hm' hist init hlast T hT R C r nb hnb hg hR1 hC1 hR hC s',
    C02.pureRun2_shift f R C r dx dy _ (T - 1) init hR1 hC1 hR hC]
  simp [Except.map]

/-- **`evolve2d` commutes with translation of the initial torus**: for a rule computing the pure
    function `f`, in every mode (off / True / 'recursive'), Moore and von Neumann, `r ≤ min(R, C)`,
    `T ≥ 1` and every offset `(dx, dy)` (also beyond the shape). -/
theorem evolve2d_shift [DecidableEq α] [Inhabited α] (rule : Rule2 σ α) (f : Nbhd2 α → α)
    (hp : PureVal2 rule f) (mode : Mode) (hm : mode ≠ .bad) (g : Grid α) (T : Nat) (hT : 1 ≤ T)
    (R C r dx dy : Nat) (nb : NbType) (hnb : nb ≠ .unknown) (hg : Rect g R C) (hR1 : 1 ≤ R) (hC1 : 1 ≤ C)
    (hR : r ≤ R) (hC : r ≤ C) (s : σ) :
    (evolve2dFixed [C02.shift2 R C dx dy g] T rule r nb mode s).map Prod.fst
      = ((evolve2dFixed [g] T rule r nb mode s).map Prod.fst).map (·.map (C02.shift2 R C dx dy)) := by
  exact evolve2d_shift_hist rule rule f hp hp mode mode hm hm [g] g rfl T hT R C r dx dy nb hnb hg hR1 hC1
    hR hC s s

/-- The same with both sides spelled out: the grids are the translated grids of the pure run. -/
theorem evolve2d_shift_grids [DecidableEq α] [Inhabited α] (rule : Rule2 σ α) (f : Nbhd2 α → α)
    (hp : PureVal2 rule f) (mode : Mode) (hm : mode ≠ .bad) (g : Grid α) (T : Nat) (hT : 1 ≤ T)
    (R C r dx dy : Nat) (nb : NbType) (hnb : nb ≠ .unknown) (hg : Rect g R C) (hR1 : 1 ≤ R) (hC1 : 1 ≤ C)
    (hR : r ≤ R) (hC : r ≤ C) (s : σ) :
    (evolve2dFixed [C02.shift2 R C dx dy g] T rule r nb mode s).map Prod.fst
      = .ok ((g :: pureRun2 f R C r (decide (nb = .vonNeumann)) (T - 1) g).map (C02.shift2 R C dx dy)) := by
  rw [evolve2d_shift rule f hp mode hm g T hT R C r dx dy nb hnb hg hR1 hC1 hR hC s,
    evolve2dFixed_grids_pure rule f hp mode hm [g] g rfl T hT R C r nb hnb hg hR1 hC1 hR hC s]
  rfl

/-! ### Non-vacuity (recorder around an asymmetric rule — north + 2 · east — on a 2×3 torus,
    memoization on, von Neumann, offsets beyond the shape) -/
example : ((evolve2dFixed [C02.shift2 2 3 3 5 [[1, 2, 3], [4, 5, 6]]] 2
      (recorder2 (fun n : Nbhd2 Nat => ((n[0]!)[1]!).getD 9 + 2 * ((n[1]!)[2]!).getD 9)) 1 .vonNeumann .memo
      []).map Prod.fst).toOption
    = some ([[[1, 2, 3], [4, 5, 6]], [[8, 11, 8], [11, 14, 11]]].map (C02.shift2 2 3 3 5)) := by decide

end Cpl.C04
