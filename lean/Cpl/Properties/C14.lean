import Cpl.Model.Rules
namespace Cpl.C14
theorem placeholder : True := trivial
end Cpl.C14
