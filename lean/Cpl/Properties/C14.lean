import Cpl.Gen.Tables
import Cpl.Spec.Torus
import Cpl.Model.Rules
import Cpl.Properties.C02
import Cpl.Properties.C04
import Cpl.Lemmas.Sandpile

/-!
# C14 — Sandpile is the BTW toppling rule; grains are conserved

`Sandpile` realises the Bak-Tang-Wiesenfeld parallel toppling rule with threshold 4: a cell holding at
least four grains loses four and every cell gains one grain per toppling von Neumann neighbour. On the
periodic (open) grid the total number of grains is the same at every step; with the closed boundary the
boundary cells are held at 0 and the total never increases; configurations with all cells below 4 are
fixed points, and a scheduled `add_grain` on such a configuration raises exactly that cell by one at
that step.

All grid shapes `R × C ≥ 1 × 1` (on `1 × N` and `2 × N` tori neighbours coincide and are counted as
often as they occur), every step number `t`, both boundary modes, every grain schedule.
`cfg.K = 4` is the library's threshold; `cfg.rows`, `cfg.cols` are the grid's shape (only the closed
boundary looks at them).
-/

namespace Cpl.C14
open Cpl Cpl.Spec

/-! ## Vocabulary -/

/-- `g[i][j]`. -/
def cell (g : Grid Int) (i j : Nat) : Int := (g[i]!)[j]!

/-- Total number of grains on the grid. -/
def total (g : Grid Int) : Int := (g.map List.sum).sum

/-- 1 if a cell holding `x` grains topples (`x ≥ 4`), else 0. -/
def topples (x : Int) : Int := if 4 ≤ x then 1 else 0

/-- **The BTW update of one cell of the `R × C` torus**: a toppling cell loses four grains and gains one
    grain per toppling neighbour above, below, left and right (indices modulo `R`, `C`). -/
def btwCell (R C : Nat) (g : Grid Int) (i j : Nat) : Int :=
  cell g i j - 4 * topples (cell g i j)
    + topples (cell g ((i + R - 1) % R) j) + topples (cell g ((i + 1) % R) j)
    + topples (cell g i ((j + C - 1) % C)) + topples (cell g i ((j + 1) % C))

/-- The BTW parallel toppling step of the whole torus. -/
def btwStep (R C : Nat) (g : Grid Int) : Grid Int :=
  (List.range R).map fun i => (List.range C).map fun j => btwCell R C g i j

/-- `(i, j)` lies on the boundary of the `R × C` grid. -/
def onRim (R C i j : Nat) : Prop := i = 0 ∨ i = R - 1 ∨ j = 0 ∨ j = C - 1

instance (R C i j : Nat) : Decidable (onRim R C i j) := by unfold onRim; infer_instance

/-- The BTW step with the boundary cells held at 0 (grains toppling onto the boundary are lost). -/
def closedStep (R C : Nat) (g : Grid Int) : Grid Int :=
  (List.range R).map fun i => (List.range C).map fun j => if onRim R C i j then 0 else btwCell R C g i j

/-- No `add_grain` is scheduled for step `t`. -/
def NoGrainAt (cfg : SandpileCfg) (t : Nat) : Prop := ∀ gr ∈ cfg.grains, gr.2 ≠ t

/-- The grids after `1, …, k` BTW steps. -/
def btwRun (R C : Nat) : Nat → Grid Int → List (Grid Int)
  | 0, _ => []
  | k + 1, g => btwStep R C g :: btwRun R C k (btwStep R C g)

/-- The grids after `1, …, k` closed-boundary steps. -/
def closedRun (R C : Nat) : Nat → Grid Int → List (Grid Int)
  | 0, _ => []
  | k + 1, g => closedStep R C g :: closedRun R C k (closedStep R C g)

/-- All boundary cells hold 0. -/
def RimZero (R C : Nat) (g : Grid Int) : Prop := ∀ i j, i < R → j < C → onRim R C i j → cell g i j = 0

/-- The step written with the helper library's cell update (same formula). -/
theorem btwStep_eq (R C : Nat) (g : Grid Int) : btwStep R C g = Sandpile.btwGrid R C g := rfl

/-- The closed step written with the helper library's cell update (same formula). -/
theorem closedStep_eq (R C : Nat) (g : Grid Int) : closedStep R C g = Sandpile.closedGrid R C g := rfl

/-- A BTW step yields an `R × C` grid. -/
theorem btwStep_rect (R C : Nat) (g : Grid Int) : Rect (btwStep R C g) R C := Life.tabulate_rect R C _

/-! ## 1. Open boundary: the BTW rule -/

/-- **One step of the model with the open (periodic) boundary is the BTW step**, for every `R × C`
    grid, `R, C ≥ 1`, at every step `t` for which no grain is scheduled. -/
theorem sandpile_btw (cfg : SandpileCfg) (hK : cfg.K = 4) (hopen : cfg.closed = false) (g : Grid Int)
    (R C : Nat) (hg : Rect g R C) (hR : 1 ≤ R) (hC : 1 ≤ C) (t : Nat) (hng : NoGrainAt cfg t)
    (cs : Caches2 Int) :
    (Cpl.step2 .plain (sandpileRule2 cfg) 1 true g t cs ()).1 = btwStep R C g := by
  rw [Sandpile.step_eq cfg hK g R C hg hR hC t cs, btwStep_eq]
  exact Sandpile.newGrid_open cfg hopen R C g t hng

/-- Read cell by cell: the new value of `(i, j)` is its old value, minus four if it topples, plus one
    for each of the four neighbours `(i∓1, j)`, `(i, j∓1)` (modulo `R`, `C`) that topples. On a `1 × N`
    torus `(i-1, j)` and `(i+1, j)` are the cell itself, which is then counted twice. -/
theorem sandpile_btw_cell (cfg : SandpileCfg) (hK : cfg.K = 4) (hopen : cfg.closed = false) (g : Grid Int)
    (R C : Nat) (hg : Rect g R C) (hR : 1 ≤ R) (hC : 1 ≤ C) (t : Nat) (hng : NoGrainAt cfg t)
    (cs : Caches2 Int) (i j : Nat) (hi : i < R) (hj : j < C) :
    cell (Cpl.step2 .plain (sandpileRule2 cfg) 1 true g t cs ()).1 i j
      = cell g i j - 4 * topples (cell g i j)
        + topples (cell g ((i + R - 1) % R) j) + topples (cell g ((i + 1) % R) j)
        + topples (cell g i ((j + C - 1) % C)) + topples (cell g i ((j + 1) % C)) := by
  rw [sandpile_btw cfg hK hopen g R C hg hR hC t hng cs]
  exact Life.cell_tabulate R C _ hi hj

/-! ## 2. Open boundary: conservation -/

/-- The BTW step of the torus conserves the total, for every shape including `1 × N`, `2 × N`, `1 × 1`. -/
theorem btwStep_total (R C : Nat) (g : Grid Int) (hg : Rect g R C) : total (btwStep R C g) = total g := by
  show Sandpile.total (btwStep R C g) = Sandpile.total g
  rw [btwStep_eq, Sandpile.btwGrid, Sandpile.total_btw, Sandpile.total_rect hg]

/-- **Grains are conserved on the periodic grid**: the total after a step of the model equals the total
    before, for every grid shape `R × C ≥ 1 × 1` and arbitrary integer cell contents. -/
theorem sandpile_conserves (cfg : SandpileCfg) (hK : cfg.K = 4) (hopen : cfg.closed = false) (g : Grid Int)
    (R C : Nat) (hg : Rect g R C) (hR : 1 ≤ R) (hC : 1 ≤ C) (t : Nat) (hng : NoGrainAt cfg t)
    (cs : Caches2 Int) :
    total (Cpl.step2 .plain (sandpileRule2 cfg) 1 true g t cs ()).1 = total g := by
  rw [sandpile_btw cfg hK hopen g R C hg hR hC t hng cs, btwStep_total R C g hg]

/-! ## 3. Closed boundary -/

/-- With the closed boundary a step without scheduled grain is the BTW step with the rim held at 0. -/
theorem sandpile_closed_step (cfg : SandpileCfg) (hK : cfg.K = 4) (R C : Nat) (hrows : cfg.rows = R)
    (hcols : cfg.cols = C) (hcl : cfg.closed = true) (g : Grid Int) (hg : Rect g R C) (hR : 1 ≤ R) (hC : 1 ≤ C)
    (t : Nat) (hng : NoGrainAt cfg t) (cs : Caches2 Int) :
    (Cpl.step2 .plain (sandpileRule2 cfg) 1 true g t cs ()).1 = closedStep R C g := by
  rw [Sandpile.step_eq cfg hK g R C hg hR hC t cs, closedStep_eq]
  exact Sandpile.newGrid_closed cfg hcl R C hrows hcols g t hng

/-- **Closed boundary**: after every step (grains scheduled or not) the boundary cells hold 0; and if
    the boundary cells held 0 before and no grain is scheduled, the total does not increase. -/
theorem sandpile_closed (cfg : SandpileCfg) (hK : cfg.K = 4) (R C : Nat) (hrows : cfg.rows = R)
    (hcols : cfg.cols = C) (hcl : cfg.closed = true) (g : Grid Int) (hg : Rect g R C) (hR : 1 ≤ R) (hC : 1 ≤ C) (t : Nat)
    (cs : Caches2 Int) :
    (∀ i j, i < R → j < C → onRim R C i j →
      cell (Cpl.step2 .plain (sandpileRule2 cfg) 1 true g t cs ()).1 i j = 0) ∧
    (NoGrainAt cfg t → RimZero R C g →
      total (Cpl.step2 .plain (sandpileRule2 cfg) 1 true g t cs ()).1 ≤ total g) := by
  rw [Sandpile.step_eq cfg hK g R C hg hR hC t cs]
  simp only
  constructor
  · intro i j hi hj hrim
    show Life.cell _ i j = 0
    rw [Life.cell_tabulate R C _ hi hj]
    exact Sandpile.newCell_rim cfg hcl R C g t i j (by rw [hrows, hcols]; exact hrim)
  · intro hng hrim0
    show Sandpile.total _ ≤ Sandpile.total g
    rw [Sandpile.total_rect hg]
    exact Sandpile.total_new_le cfg R C g t (by rw [hrows, hcols]; exact hrim0) hng

/-! ## 4. Stable configurations are fixed points -/

/-- **Stable configurations are fixed points**: if every cell holds fewer than four grains (and, with the
    closed boundary, the boundary cells hold 0) and no grain is scheduled for step `t`, the step returns
    the grid unchanged — both boundary modes. -/
theorem stable_fixed (cfg : SandpileCfg) (hK : cfg.K = 4) (g : Grid Int) (R C : Nat) (hg : Rect g R C)
    (hR : 1 ≤ R) (hC : 1 ≤ C) (t : Nat) (hng : NoGrainAt cfg t) (cs : Caches2 Int)
    (hstable : ∀ i j, i < R → j < C → cell g i j < 4)
    (hclosed : cfg.closed = true →
      cfg.rows = R ∧ cfg.cols = C ∧ RimZero R C g) :
    (Cpl.step2 .plain (sandpileRule2 cfg) 1 true g t cs ()).1 = g := by
  rw [Sandpile.step_eq cfg hK g R C hg hR hC t cs]
  simp only
  refine Eq.trans ?_ (Sandpile.tab_cell hg)
  apply List.map_congr_left
  intro i hi
  apply List.map_congr_left
  intro j hj
  have hi : i < R := by simpa using hi
  have hj : j < C := by simpa using hj
  by_cases hrim : cfg.closed = true ∧ Sandpile.onRim cfg.rows cfg.cols i j
  · obtain ⟨hr, hc, h0⟩ := hclosed hrim.1
    rw [Sandpile.newCell_rim cfg hrim.1 R C g t i j hrim.2]
    exact (h0 i j hi hj (by have := hrim.2; rw [hr, hc] at this; exact this)).symm
  · have : Sandpile.newCell cfg R C g t i j = Sandpile.btwCell R C g i j := by
      unfold Sandpile.newCell
      rw [if_neg hrim, if_neg (by rintro ⟨gr, hm, h1, _⟩; exact hng gr hm h1)]
    rw [this]
    exact Sandpile.btwCell_stable R C g hstable i j hi hj

/-! ## 5. A scheduled grain on a stable configuration -/

/-- **`add_grain` on a stable configuration**: if every cell holds fewer than four grains and the grains
    scheduled for step `t` are exactly those for cell `(i0, j0)` (with the closed boundary: a non-boundary
    cell, boundary cells holding 0), the step raises exactly that cell by one. -/
theorem add_grain_stable (cfg : SandpileCfg) (hK : cfg.K = 4) (g : Grid Int) (R C : Nat) (hg : Rect g R C)
    (hR : 1 ≤ R) (hC : 1 ≤ C) (t : Nat) (cs : Caches2 Int) (i0 j0 : Nat)
    (hsched : ((i0, j0), t) ∈ cfg.grains) (honly : ∀ gr ∈ cfg.grains, gr.2 = t → gr.1 = (i0, j0))
    (hstable : ∀ i j, i < R → j < C → cell g i j < 4)
    (hclosed : cfg.closed = true →
      cfg.rows = R ∧ cfg.cols = C ∧ ¬ onRim R C i0 j0 ∧ RimZero R C g) :
    (Cpl.step2 .plain (sandpileRule2 cfg) 1 true g t cs ()).1
      = (List.range R).map fun i => (List.range C).map fun j =>
          if (i, j) = (i0, j0) then cell g i j + 1 else cell g i j := by
  rw [Sandpile.step_eq cfg hK g R C hg hR hC t cs]
  simp only
  apply List.map_congr_left
  intro i hi
  apply List.map_congr_left
  intro j hj
  have hi : i < R := by simpa using hi
  have hj : j < C := by simpa using hj
  by_cases hij : (i, j) = (i0, j0)
  · rw [if_pos hij]
    obtain ⟨rfl, rfl⟩ := Prod.mk.inj hij
    exact Sandpile.newCell_grain cfg R C g t i j
      (fun hcl => by obtain ⟨hr, hc, hnr, _⟩ := hclosed hcl; rw [hr, hc]; exact hnr) hsched
  · rw [if_neg hij]
    by_cases hrim : cfg.closed = true ∧ Sandpile.onRim cfg.rows cfg.cols i j
    · obtain ⟨hr, hc, _, h0⟩ := hclosed hrim.1
      rw [Sandpile.newCell_rim cfg hrim.1 R C g t i j hrim.2]
      exact (h0 i j hi hj (by have := hrim.2; rw [hr, hc] at this; exact this)).symm
    · have : Sandpile.newCell cfg R C g t i j = Sandpile.btwCell R C g i j := by
        unfold Sandpile.newCell
        rw [if_neg hrim, if_neg (by
          rintro ⟨gr, hm, h1, h2⟩
          exact hij (by rw [← h2]; exact honly gr hm h1))]
      rw [this]
      exact Sandpile.btwCell_stable R C g hstable i j hi hj

/-! ## 6. Along an evolution -/

/-- The specification run of the open sandpile is the iterated BTW step (no grain scheduled in the
    steps `t … t+k-1`). -/
theorem run2_sandpile_open (cfg : SandpileCfg) (hK : cfg.K = 4) (hopen : cfg.closed = false) (R C : Nat) :
    ∀ (k t : Nat) (g : Grid Int), (∀ gr ∈ cfg.grains, ¬ (t ≤ gr.2 ∧ gr.2 < t + k)) →
      run2 (sandpileRule2 cfg) R C 1 true k t g () = (btwRun R C k g, ())
  | 0, _, _, _ => rfl
  | k + 1, t, g, hng => by
    simp only [run2, btwRun]
    rw [Sandpile.specStep_eq cfg hK g R C t]
    simp only
    rw [Sandpile.newGrid_open cfg hopen R C g t (fun gr hm h => hng gr hm (by omega)), ← btwStep_eq,
      run2_sandpile_open cfg hK hopen R C k (t + 1) _ (fun gr hm h => hng gr hm (by omega))]

/-- Every grid of a BTW run is `R × C` and has the total of the start grid. -/
theorem btwRun_total (R C : Nat) :
    ∀ (k : Nat) (g : Grid Int), Rect g R C → ∀ g' ∈ btwRun R C k g, Rect g' R C ∧ total g' = total g
  | 0, _, _, _, h => by simp [btwRun] at h
  | k + 1, g, hg, g', h => by
    simp only [btwRun, List.mem_cons] at h
    rcases h with rfl | h
    · exact ⟨btwStep_rect R C g, btwStep_total R C g hg⟩
    · have := btwRun_total R C k _ (btwStep_rect R C g) g' h
      exact ⟨this.1, this.2.trans (btwStep_total R C g hg)⟩

/-- One grid per step. -/
theorem btwRun_length (R C : Nat) : ∀ (k : Nat) (g : Grid Int), (btwRun R C k g).length = k
  | 0, _ => rfl
  | k + 1, g => by simp only [btwRun, List.length_cons]; rw [btwRun_length R C k]

/-- `evolve2d` (von Neumann, `r = 1`, memoization off) with the open sandpile and no grain scheduled for
    the steps `1 … T-1` it takes returns the history followed by the iterated BTW steps. -/
theorem sandpile_evolve_btw (cfg : SandpileCfg) (hK : cfg.K = 4) (hopen : cfg.closed = false)
    (hist : List (Grid Int)) (init : Grid Int) (hlast : hist.getLast? = some init) (T : Nat) (hT : 1 ≤ T)
    (R C : Nat) (hg : Rect init R C) (hR : 1 ≤ R) (hC : 1 ≤ C)
    (hng : ∀ gr ∈ cfg.grains, ¬ (1 ≤ gr.2 ∧ gr.2 < T)) :
    evolve2dFixed hist T (sandpileRule2 cfg) 1 .vonNeumann .plain ()
      = .ok (hist ++ btwRun R C (T - 1) init, ()) := by
  rw [C02.evolve2dFixed_plain_eq_spec hist init hlast T hT (sandpileRule2 cfg) R C 1 .vonNeumann (by decide)
    hg hR hC hR hC ()]
  rw [show decide (NbType.vonNeumann = NbType.vonNeumann) = true by decide,
    run2_sandpile_open cfg hK hopen R C (T - 1) 1 init (fun gr hm h => hng gr hm (by omega))]

/-- **Grains are conserved along the whole evolution** on the periodic grid: every grid `evolve2d`
    appends to the history has the total of the initial grid. -/
theorem sandpile_evolve_conserves (cfg : SandpileCfg) (hK : cfg.K = 4) (hopen : cfg.closed = false)
    (hist : List (Grid Int)) (init : Grid Int) (hlast : hist.getLast? = some init) (T : Nat) (hT : 1 ≤ T)
    (R C : Nat) (hg : Rect init R C) (hR : 1 ≤ R) (hC : 1 ≤ C)
    (hng : ∀ gr ∈ cfg.grains, ¬ (1 ≤ gr.2 ∧ gr.2 < T)) :
    ∃ gs, evolve2dFixed hist T (sandpileRule2 cfg) 1 .vonNeumann .plain () = .ok (hist ++ gs, ()) ∧
      gs.length = T - 1 ∧ ∀ g' ∈ gs, Rect g' R C ∧ total g' = total init := by
  refine ⟨btwRun R C (T - 1) init, sandpile_evolve_btw cfg hK hopen hist init hlast T hT R C hg hR hC hng, ?_,
    btwRun_total R C (T - 1) init hg⟩
  exact btwRun_length R C (T - 1) init

/-- With the open boundary and an empty grain schedule the rule is a function of the neighbourhood
    alone, and its pure torus run is the BTW run. -/
theorem pureRun2_sandpile_open (cfg : SandpileCfg) (hK : cfg.K = 4) (hopen : cfg.closed = false)
    (hgr : cfg.grains = []) (R C : Nat) :
    ∀ (k : Nat) (g : Grid Int),
      pureRun2 (fun n => sandpileRule cfg n (0, 0) 0) R C 1 true k g = btwRun R C k g
  | 0, _ => rfl
  | k + 1, g => by
    have hstep : pureStep2 (fun n => sandpileRule cfg n (0, 0) 0) R C 1 true g = btwStep R C g := by
      unfold pureStep2
      rw [btwStep_eq]
      apply List.map_congr_left
      intro i hi
      apply List.map_congr_left
      intro j hj
      rw [Sandpile.nbhd_vn1 g R C i j (by simpa using hi) (by simpa using hj)]
      show sandpileRule cfg _ (0, 0) 0 = _
      rw [Sandpile.rule_explicit cfg hK, if_neg (by simp [hopen]), if_neg (by simp [hgr])]
      rfl
    simp only [pureRun2, btwRun]
    rw [hstep, pureRun2_sandpile_open cfg hK hopen hgr R C k]

/-- The same with memoization (`True` or `'recursive'`): with the open boundary and an empty grain
    schedule the rule depends on the neighbourhood only, and every mode yields the BTW run. -/
theorem sandpile_evolve_btw_anymode (cfg : SandpileCfg) (hK : cfg.K = 4) (hopen : cfg.closed = false)
    (hgr : cfg.grains = []) (mode : Mode) (hm : mode ≠ .bad)
    (hist : List (Grid Int)) (init : Grid Int) (hlast : hist.getLast? = some init) (T : Nat) (hT : 1 ≤ T)
    (R C : Nat) (hg : Rect init R C) (hR : 1 ≤ R) (hC : 1 ≤ C) :
    evolve2dFixed hist T (sandpileRule2 cfg) 1 .vonNeumann mode ()
      = .ok (hist ++ btwRun R C (T - 1) init, ()) := by
  have hp : PureVal2 (sandpileRule2 cfg) (fun n => sandpileRule cfg n (0, 0) 0) := by
    intro s n c t
    show sandpileRule cfg n c t = sandpileRule cfg n (0, 0) 0
    unfold sandpileRule
    simp [hopen, hgr]
  have key := C04.evolve2dFixed_grids_pure (sandpileRule2 cfg) _ hp mode hm hist init hlast T hT R C 1
    .vonNeumann (by decide) hg hR hC hR hC ()
  rw [show decide (NbType.vonNeumann = NbType.vonNeumann) = true by decide,
    pureRun2_sandpile_open cfg hK hopen hgr R C (T - 1) init] at key
  cases hx : evolve2dFixed hist T (sandpileRule2 cfg) 1 .vonNeumann mode () with
  | error e => rw [hx] at key; cases key
  | ok v =>
    rw [hx] at key
    obtain ⟨gs, u⟩ := v
    cases u
    simp only [Except.map, Except.ok.injEq] at key
    rw [key]

/-! ## 7. Closed boundary along an evolution -/

/-- A closed step keeps the shape, leaves the boundary cells at 0 and does not increase the total. -/
theorem closedStep_invariant (R C : Nat) (g : Grid Int) (hg : Rect g R C) (h0 : RimZero R C g) :
    Rect (closedStep R C g) R C ∧ RimZero R C (closedStep R C g) ∧ total (closedStep R C g) ≤ total g :=
  ⟨Life.tabulate_rect R C _, fun i j hi hj hrim => Sandpile.closedGrid_rim R C g i j hi hj hrim,
    Sandpile.closedGrid_total_le R C g hg h0⟩

/-- The specification run of the closed sandpile is the iterated closed step (no grain scheduled in
    the steps `t … t+k-1`). -/
theorem run2_sandpile_closed (cfg : SandpileCfg) (hK : cfg.K = 4) (R C : Nat) (hrows : cfg.rows = R)
    (hcols : cfg.cols = C) (hcl : cfg.closed = true) :
    ∀ (k t : Nat) (g : Grid Int), (∀ gr ∈ cfg.grains, ¬ (t ≤ gr.2 ∧ gr.2 < t + k)) →
      run2 (sandpileRule2 cfg) R C 1 true k t g () = (closedRun R C k g, ())
  | 0, _, _, _ => rfl
  | k + 1, t, g, hng => by
    simp only [run2, closedRun]
    rw [Sandpile.specStep_eq cfg hK g R C t]
    simp only
    rw [Sandpile.newGrid_closed cfg hcl R C hrows hcols g t (fun gr hm h => hng gr hm (by omega)),
      ← closedStep_eq,
      run2_sandpile_closed cfg hK R C hrows hcols hcl k (t + 1) _ (fun gr hm h => hng gr hm (by omega))]

/-- Along a closed run no grid has more grains than the start grid. -/
theorem closedRun_total_le (R C : Nat) :
    ∀ (k : Nat) (g : Grid Int), Rect g R C → RimZero R C g → ∀ g' ∈ closedRun R C k g, total g' ≤ total g
  | 0, _, _, _, _, h => by simp [closedRun] at h
  | k + 1, g, hg, h0, g', h => by
    obtain ⟨h1, h2, h3⟩ := closedStep_invariant R C g hg h0
    simp only [closedRun, List.mem_cons] at h
    rcases h with rfl | h
    · exact h3
    · exact Int.le_trans (closedRun_total_le R C k _ h1 h2 g' h) h3

/-- **The total never increases with the closed boundary**: the totals of the start grid and of the
    successive grids form a non-increasing sequence. -/
theorem closedRun_nonincreasing (R C : Nat) :
    ∀ (k : Nat) (g : Grid Int), Rect g R C → RimZero R C g →
      ((g :: closedRun R C k g).map total).Pairwise (· ≥ ·)
  | 0, _, _, _ => by simp [closedRun]
  | k + 1, g, hg, h0 => by
    obtain ⟨h1, h2, _⟩ := closedStep_invariant R C g hg h0
    rw [List.map_cons, List.pairwise_cons]
    constructor
    · intro b hb
      obtain ⟨g', hg', rfl⟩ := List.mem_map.1 hb
      exact closedRun_total_le R C (k + 1) g hg h0 g' hg'
    · exact closedRun_nonincreasing R C k _ h1 h2

/-- `evolve2d` with the closed sandpile (boundary cells of the initial grid 0, no grain scheduled for the
    steps taken): the history followed by the iterated closed steps, whose totals never increase. -/
theorem sandpile_evolve_closed (cfg : SandpileCfg) (hK : cfg.K = 4) (R C : Nat) (hrows : cfg.rows = R)
    (hcols : cfg.cols = C) (hcl : cfg.closed = true)
    (hist : List (Grid Int)) (init : Grid Int) (hlast : hist.getLast? = some init) (T : Nat) (hT : 1 ≤ T)
    (hg : Rect init R C) (hR : 1 ≤ R) (hC : 1 ≤ C) (h0 : RimZero R C init)
    (hng : ∀ gr ∈ cfg.grains, ¬ (1 ≤ gr.2 ∧ gr.2 < T)) :
    evolve2dFixed hist T (sandpileRule2 cfg) 1 .vonNeumann .plain ()
        = .ok (hist ++ closedRun R C (T - 1) init, ()) ∧
      ((init :: closedRun R C (T - 1) init).map total).Pairwise (· ≥ ·) := by
  refine ⟨?_, closedRun_nonincreasing R C (T - 1) init hg h0⟩
  rw [C02.evolve2dFixed_plain_eq_spec hist init hlast T hT (sandpileRule2 cfg) R C 1 .vonNeumann (by decide)
    hg hR hC hR hC ()]
  rw [show decide (NbType.vonNeumann = NbType.vonNeumann) = true by decide,
    run2_sandpile_closed cfg hK R C hrows hcols hcl (T - 1) 1 init (fun gr hm h => hng gr hm (by omega))]

/-! ## Non-vacuity: degenerate shapes, both boundary modes, a scheduled grain -/

/-- `1 × 3` torus: the cell above and below a cell is the cell itself, counted twice. -/
example : btwStep 1 3 [[4, 0, 5]] = [[3, 2, 4]] := by decide +kernel
example : (Cpl.step2 .plain (sandpileRule2 { rows := 1, cols := 3, closed := false }) 1 true [[4, 0, 5]] 1
    Caches2.empty ()).1 = [[3, 2, 4]] := by decide +kernel
/-- `1 × 1` torus: a toppling cell receives its own four grains back. -/
example : btwStep 1 1 [[7]] = [[7]] := by decide +kernel
/-- `2 × 2` torus: the two vertical (horizontal) neighbours are the same cell. -/
example : btwStep 2 2 [[4, 0], [0, 0]] = [[0, 2], [2, 0]] := by decide +kernel
/-- closed 4×4: the toppling interior cell loses grains over the rim. -/
example : (Cpl.step2 .plain (sandpileRule2 { rows := 4, cols := 4 }) 1 true
    [[0,0,0,0],[0,4,1,0],[0,0,0,0],[0,0,0,0]] 1 Caches2.empty ()).1
    = [[0,0,0,0],[0,0,2,0],[0,1,0,0],[0,0,0,0]] := by decide +kernel
/-- a grain scheduled for step 3 on a stable closed grid. -/
example : (Cpl.step2 .plain (sandpileRule2 { rows := 4, cols := 4, grains := [((1, 2), 3)] }) 1 true
    [[0,0,0,0],[0,3,1,0],[0,2,0,0],[0,0,0,0]] 3 Caches2.empty ()).1
    = [[0,0,0,0],[0,3,2,0],[0,2,0,0],[0,0,0,0]] := by decide +kernel
/-- The grain overrides the cell's own toppling: a scheduled cell holding 5 is just raised by one while
    its neighbours still gain from it (as in the Python code) — hence "stable" in `add_grain_stable`. -/
example : (Cpl.step2 .plain (sandpileRule2 { rows := 3, cols := 3, closed := false, grains := [((1, 1), 1)] })
    1 true [[0,0,0],[0,5,0],[0,0,0]] 1 Caches2.empty ()).1 = [[0,1,0],[1,6,1],[0,1,0]] := by decide +kernel

/-- closed 5×5, two steps through `evolve2d`: totals 9, 6, 6 (three grains topple onto the rim and are lost). -/
example : (match evolve2dFixed [[[0,0,0,0,0],[0,4,4,0,0],[0,0,1,0,0],[0,0,0,0,0],[0,0,0,0,0]]] 3
      (sandpileRule2 { rows := 5, cols := 5 }) 1 .vonNeumann .plain () with
    | .ok (gs, _) => gs.map total
    | .error _ => []) = [9, 6, 6] := by decide +kernel

/-! ## The threshold comes from the source

`Cpl.Gen.sandpileK` is regenerated from `Sandpile.__init__` (`self._K = …`) by `tools/translate.py` on every
run and is the `K` the driver runs the model with; every theorem above assumes `cfg.K = 4`, the number of
von Neumann neighbours (conservation needs exactly that). -/

/-- The library's threshold is 4. -/
theorem sandpileK_is_four : Cpl.Gen.sandpileK = 4 := by decide

end Cpl.C14
