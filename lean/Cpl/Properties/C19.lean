import Cpl.Lemmas.Apen

/-!
# C19 — Approximate entropy matches Pincus' definition

`apen(seq, m, r)` equals `|phi(m+1) - phi(m)|` where `phi(m)` is the mean log fraction of length-`m`
windows within Chebyshev distance `r` of each window (self-matches included); it is non-negative and
zero for constant sequences.

Property theorems only; proofs of the helper facts are in `Cpl.Lemmas.Apen`. The model (`windows`,
`maxDist`, `matchCount`, `phi`, `apen` in `Cpl.Model.Measures`) is generic over a record of arithmetic
operations; here it is instantiated with the real numbers (`Cpl.Bien.realNum`: exact arithmetic,
`Real.log`), the driver instantiates the very same definitions with `Float`.

Outside this file (Python-level, checked by the harness): the dispatch on the input form (digit string,
list, array) and the `TypeError` for an unsupported sequence type; and the distance between the real
value and the floating-point value.

The claim's quantifier is: integer sequences of length `≥ m + 1`, `m ≥ 1`, `r ≥ 0`. Several statements
below hold more generally and are stated without the superfluous hypotheses; where a hypothesis is what
makes the statement meaningful (all logarithms are of positive numbers) it is a separate theorem
(`fraction_mem`).
-/

namespace Cpl.C19
open Cpl Cpl.Bien

/-! ## 1. Exact combinatorial part -/

/-- There are `N + 1 - m` windows; window `i` is `u[i .. i+m-1]`: it has length `m` and its `j`-th entry is
    `u[i + j]`. -/
theorem windows_spec (u : List Int) (m : Nat) :
    (windows u m).length = u.length + 1 - m ∧
    ∀ i, i < u.length + 1 - m →
      (windows u m)[i]? = some ((u.drop i).take m) ∧
      ((u.drop i).take m).length = m ∧
      ∀ j, j < m → ((u.drop i).take m)[j]? = u[i + j]? :=
  ⟨Apen.windows_length u m, fun i hi =>
    ⟨Apen.windows_getElem? u m i hi, Apen.window_length u m i hi, fun j hj => Apen.window_getElem? u m i j hj⟩⟩

/-- `maxDist` is the Chebyshev distance: it is at most `r` exactly when `r ≥ 0` and every aligned pair of
    entries differs by at most `r`. -/
theorem maxDist_le_iff (a b : List Int) (r : Int) :
    maxDist a b ≤ r ↔ 0 ≤ r ∧ ∀ p ∈ a.zip b, |p.1 - p.2| ≤ r := Apen.maxDist_le_iff a b r

/-- A window is at distance 0 from itself. -/
theorem maxDist_self (a : List Int) : maxDist a a = 0 := Apen.maxDist_self a

/-- Distances are non-negative. -/
theorem maxDist_nonneg (a b : List Int) : 0 ≤ maxDist a b := Apen.maxDist_nonneg a b

/-- The distance is symmetric. -/
theorem maxDist_comm (a b : List Int) : maxDist a b = maxDist b a := Apen.maxDist_comm a b

/-- Self-matches are included: for `r ≥ 0` every window matches at least itself, so every count is `≥ 1`
    and every logarithm in `phi` is the logarithm of a positive number. -/
theorem self_match {ws : List (List Int)} {r : Int} {xi : List Int} (hx : xi ∈ ws) (hr : 0 ≤ r) :
    1 ≤ matchCount ws r xi := Apen.self_match hx hr

/-- A count never exceeds the number of windows. -/
theorem matchCount_le (ws : List (List Int)) (r : Int) (xi : List Int) :
    matchCount ws r xi ≤ ws.length := Apen.matchCount_le ws r xi

/-- For a window of the sequence and `r ≥ 0` the fraction of windows within tolerance lies in `(0, 1]`. -/
theorem fraction_mem {u : List Int} {m : Nat} {r : Int} {xi : List Int} (hx : xi ∈ windows u m) (hr : 0 ≤ r) :
    0 < (matchCount (windows u m) r xi : ℝ) / ((u.length + 1 - m : ℕ) : ℝ) ∧
    (matchCount (windows u m) r xi : ℝ) / ((u.length + 1 - m : ℕ) : ℝ) ≤ 1 := Apen.fraction_mem hx hr

/-! ## 2. Pincus' definition

`apen realNum u m r = |phi realNum u (m+1) r - phi realNum u m r|` holds by definition of the model
(`apen_def` below is `rfl`); the content is that `phi` is the mean log fraction. -/

/-- `apen` is `|phi(m+1) - phi(m)|` (definitional). -/
theorem apen_def (u : List Int) (m : Nat) (r : Int) :
    apen realNum u m r = |phi realNum u (m + 1) r - phi realNum u m r| := rfl

/-- `phi(m)` is the mean, over the `W = N + 1 - m` windows `xi` of length `m`, of
    `log (number of windows within distance r of xi / W)`. -/
theorem phi_def (u : List Int) (m : Nat) (r : Int) :
    phi realNum u m r =
      ((windows u m).map fun xi =>
        Real.log ((matchCount (windows u m) r xi : ℝ) / ((u.length + 1 - m : ℕ) : ℝ))).sum
        / ((u.length + 1 - m : ℕ) : ℝ) := Apen.phi_def u m r

/-! ## 3–5. Sign and the constant case -/

/-- Approximate entropy is non-negative. -/
theorem apen_nonneg (u : List Int) (m : Nat) (r : Int) : 0 ≤ apen realNum u m r := abs_nonneg _

/-- `phi` is a mean of logarithms of fractions in `(0, 1]`, hence `≤ 0`. (True for every `u`, `m`, `r`; under
    the claim's hypotheses `r ≥ 0`, `m ≤ N` the fractions are genuinely positive, see `fraction_mem`.) -/
theorem phi_nonpos (u : List Int) (m : Nat) (r : Int) : phi realNum u m r ≤ 0 := Apen.phi_nonpos u m r

/-- On a constant sequence all windows coincide, every fraction is `1` and `phi` is `0`. -/
theorem phi_const {u : List Int} {c : Int} (hu : ∀ x ∈ u, x = c) (m : Nat) {r : Int} (hr : 0 ≤ r) :
    phi realNum u m r = 0 := Apen.phi_const hu m hr

/-- The approximate entropy of a constant sequence is zero. -/
theorem apen_const {u : List Int} {c : Int} {m : Nat} {r : Int}
    (hu : ∀ x ∈ u, x = c) (_ : m + 1 ≤ u.length) (hr : 0 ≤ r) : apen realNum u m r = 0 := by
  rw [apen_def, phi_const hu (m + 1) hr, phi_const hu m hr, sub_zero, abs_zero]

/-! ## 6. Concrete instances (non-vacuity) -/

example : windows [1, 2, 1, 2, 3] 2 = [[1, 2], [2, 1], [1, 2], [2, 3]] := by decide
example : maxDist [1, 2] [2, 4] = 2 := by decide
example : matchCount (windows [1, 2, 1, 2, 3] 2) 0 [1, 2] = 2 := by decide
example : matchCount (windows [1, 2, 1, 2, 3] 2) 1 [1, 2] = 4 := by decide
example : matchCount (windows [1, 2, 1, 2, 3] 3) 1 [2, 1, 2] = 3 := by decide

/-- A non-zero value: for `01`, `m = 1`, `r = 0` the two windows of length 1 match only themselves
    (`phi(1) = log (1/2)`) and the single window of length 2 matches itself (`phi(2) = 0`). -/
example : apen realNum [0, 1] 1 0 = Real.log 2 := by
  have h1 : phi realNum [0, 1] 2 0 = 0 := by
    rw [phi_def]
    have : windows [0, 1] 2 = [[0, 1]] := by decide
    rw [this]
    have : matchCount [[0, 1]] 0 [0, 1] = 1 := by decide
    simp [this]
  have h2 : phi realNum [0, 1] 1 0 = Real.log (1 / 2) := by
    rw [phi_def]
    have : windows [0, 1] 1 = [[0], [1]] := by decide
    rw [this]
    have e1 : matchCount [[0], [1]] 0 [0] = 1 := by decide
    have e2 : matchCount [[0], [1]] 0 [1] = 1 := by decide
    simp [e1, e2]
  rw [apen_def, h1, h2, one_div, Real.log_inv, zero_sub, neg_neg, abs_of_nonneg (Real.log_nonneg (by norm_num))]

example : apen realNum [7, 7, 7, 7, 7] 2 1 = 0 :=
  apen_const (c := 7) (by decide) (by decide) (by decide)

end Cpl.C19
