import Cpl.Model.Measures
namespace Cpl.C19
theorem placeholder : True := trivial
end Cpl.C19
