import Cpl.Spec.Ring
import Cpl.Model.DynS
import Cpl.Lemmas.Evolve1D
import Cpl.Lemmas.Dyn2D
import Cpl.Lemmas.DynS

/-!
# C06 — callable timesteps gate every step; until_fixed_point halts at the first fixed point (1D part)

The `while timesteps(np.array(array), t)` loop is modelled with fuel (`evolveDynamic fuel …` returns
`none` when the fuel runs out: non-termination of a user predicate cannot be exhibited, only named).
The predicate is a pure function of (rows of this call so far, t) in the model; *what* the
implementation passes to it is checked by the harness recorder.
-/

namespace Cpl.C06
open Cpl Cpl.Spec

variable {σ α : Type}

/-- The rows of this call after `j` steps in the given mode: starting state first. -/
def callRows [DecidableEq α] [Inhabited α] (mode : Mode) (rule : Rule1 σ α) (r : Nat) (init : List α)
    (s : σ) (j : Nat) : List (List α) :=
  init :: (fixedLoop mode rule r j 1 init Caches.empty s).1

/-- **The dynamic evolution equals the fixed-count evolution of the same length.** If the predicate,
    consulted with (rows of this call so far, `t` = their number), says yes for `t = 1..k` and no at
    `t = k+1`, then (given enough fuel) the result is exactly `evolve` with `timesteps = k+1` — in
    every memoize mode, error behaviour included. -/
theorem dyn_eq_fixed [DecidableEq α] [Inhabited α] (fuel k : Nat) (hist : List (List α)) (init : List α)
    (hlast : hist.getLast? = some init) (pred : List (List α) → Nat → Bool) (rule : Rule1 σ α) (r : Nat)
    (mode : Mode) (s : σ)
    (hyes : ∀ i, i < k → pred (callRows mode rule r init s i) (i + 1) = true)
    (hno : pred (callRows mode rule r init s k) (k + 1) = false)
    (hfuel : k < fuel) :
    evolveDynamic fuel hist pred rule r mode s = some (evolveFixed hist (k + 1) rule r mode s) := by
  unfold evolveDynamic evolveFixed
  rw [hlast]
  simp only
  by_cases hb : 1 ≤ k ∧ mode = .bad
  · obtain ⟨hk, hm⟩ := hb
    obtain ⟨f, rfl⟩ : ∃ f, fuel = f + 1 := ⟨fuel - 1, by omega⟩
    have h0 : pred [init] 1 = true := by simpa [callRows, fixedLoop] using hyes 0 (by omega)
    have hk2 : k + 1 ≥ 2 := by omega
    simp [dynLoop, h0, hm, hk2]
  · have hm : k = 0 ∨ mode ≠ .bad := by
      by_cases h : k = 0
      · exact Or.inl h
      · exact Or.inr (fun hm => hb ⟨by omega, hm⟩)
    have hyes' : ∀ i, i < k →
        pred ([init] ++ (fixedLoop mode rule r i 1 init Caches.empty s).1) (1 + i) = true := by
      intro i hi
      have := hyes i hi
      simpa [callRows, Nat.add_comm 1 i] using this
    have hno' : pred ([init] ++ (fixedLoop mode rule r k 1 init Caches.empty s).1) (1 + k)
        = false := by
      simpa [callRows, Nat.add_comm 1 k] using hno
    rw [dynLoop_eq_fixedLoop mode rule r pred k fuel 1 [init] init Caches.empty s hm hfuel
      hyes' hno']
    simp only [Nat.add_sub_cancel]
    have hcond : ¬ (k + 1 ≥ 2 ∧ mode = .bad) := fun h => hb ⟨by omega, h.2⟩
    rw [if_neg (by omega), if_neg hcond]
    simp

/-- **Declining at once returns the given history unchanged** (and consults the rule not at all). -/
theorem dyn_zero_step [DecidableEq α] [Inhabited α] (fuel : Nat) (hist : List (List α)) (init : List α)
    (hlast : hist.getLast? = some init) (pred : List (List α) → Nat → Bool) (rule : Rule1 σ α) (r : Nat)
    (mode : Mode) (s : σ) (hno : pred [init] 1 = false) :
    evolveDynamic (fuel + 1) hist pred rule r mode s = some (.ok (hist, s)) := by
  unfold evolveDynamic
  rw [hlast]
  simp [dynLoop, hno]

/-- A step is performed *only* when the predicate says yes: if the run ends normally with `k` new rows,
    the predicate was true at `t = 1..k` on the rows so far and false at `t = k+1`. -/
theorem dyn_result_gated [DecidableEq α] [Inhabited α] (fuel : Nat) (hist : List (List α)) (init : List α)
    (hlast : hist.getLast? = some init) (pred : List (List α) → Nat → Bool) (rule : Rule1 σ α) (r : Nat)
    (mode : Mode) (s s' : σ) (out : List (List α))
    (h : evolveDynamic fuel hist pred rule r mode s = some (.ok (out, s'))) :
    ∃ k, out.length = hist.length + k ∧
      (∀ i, i < k → pred (callRows mode rule r init s i) (i + 1) = true) ∧
      pred (callRows mode rule r init s k) (k + 1) = false ∧
      out = hist ++ (callRows mode rule r init s k).drop 1 := by
  unfold evolveDynamic at h
  rw [hlast] at h
  simp only at h
  cases hd : dynLoop mode rule r pred fuel 1 [init] init Caches.empty s with
  | none => simp [hd] at h
  | some res =>
    cases res with
    | error e => simp [hd] at h
    | ok p =>
      obtain ⟨acc, s''⟩ := p
      simp only [hd, Option.some.injEq, Except.ok.injEq, Prod.mk.injEq] at h
      obtain ⟨m, hyes, hno, hres, _⟩ := dynLoop_ok_inv mode rule r pred fuel 1 [init] init
        Caches.empty s acc s'' hd
      refine ⟨m, ?_, ?_, ?_, ?_⟩
      · rw [← h.1, hres]
        simp [fixedLoop_length]
      · intro i hi
        have := hyes i hi
        simpa [callRows, Nat.add_comm 1 i] using this
      · simpa [callRows, Nat.add_comm 1 m] using hno
      · rw [← h.1, hres]
        simp [callRows]

/-- **until_fixed_point stops exactly at the first step that leaves the state unchanged**:
    if row `k` (k ≥ 1) of this call is the first one equal to its predecessor, the run is the
    fixed-count evolution with `k` steps. -/
theorem untilFixedPoint_stops_at_first [DecidableEq α] [Inhabited α] (fuel k : Nat) (hist : List (List α))
    (init : List α) (hlast : hist.getLast? = some init) (rule : Rule1 σ α) (r : Nat) (mode : Mode) (s : σ)
    (hk : 1 ≤ k)
    (hfirst : ∀ i, 1 ≤ i → i < k →
      (callRows mode rule r init s k)[i]? ≠ (callRows mode rule r init s k)[i - 1]?)
    (hfix : (callRows mode rule r init s k)[k]? = (callRows mode rule r init s k)[k - 1]?)
    (hfuel : k < fuel) :
    evolveDynamic fuel hist untilFixedPoint rule r mode s = some (evolveFixed hist (k + 1) rule r mode s) := by
  have hlen : (callRows mode rule r init s k).length = k + 1 := by
    simp [callRows, fixedLoop_length]
  have hpre : ∀ i, i ≤ k →
      callRows mode rule r init s i = (callRows mode rule r init s k).take (i + 1) := by
    intro i hi
    simp only [callRows, List.take_succ_cons]
    rw [fixedLoop_take mode rule r i k 1 init Caches.empty s hi]
  apply dyn_eq_fixed fuel k hist init hlast untilFixedPoint rule r mode s _ _ hfuel
  · intro i hi
    rw [hpre i (by omega), untilFixedPoint_take _ _ _ (by omega)]
    by_cases h1 : 1 ≤ i
    · have := hfirst i h1 hi
      simp only [h1, if_true, Bool.not_eq_true', decide_eq_false_iff_not]
      exact fun h => this h.symm
    · simp [h1]
  · rw [hpre k (by omega), untilFixedPoint_take _ _ _ (by omega)]
    simp only [hk, if_true, Bool.not_eq_false', decide_eq_true_eq]
    exact hfix.symm

/-- Conversely, whenever the run with `until_fixed_point` ends normally, at least one step was taken,
    the last two rows of this call are equal and no earlier pair of consecutive rows is. -/
theorem untilFixedPoint_spec [DecidableEq α] [Inhabited α] (fuel : Nat) (hist : List (List α))
    (init : List α) (hlast : hist.getLast? = some init) (rule : Rule1 σ α) (r : Nat) (mode : Mode)
    (s s' : σ) (out : List (List α))
    (h : evolveDynamic fuel hist untilFixedPoint rule r mode s = some (.ok (out, s'))) :
    ∃ new, out = hist ++ new ∧ 1 ≤ new.length ∧
      (init :: new)[new.length]? = (init :: new)[new.length - 1]? ∧
      ∀ i, 1 ≤ i → i < new.length → (init :: new)[i]? ≠ (init :: new)[i - 1]? := by
  obtain ⟨k, hlen, hyes, hno, hout⟩ :=
    dyn_result_gated fuel hist init hlast untilFixedPoint rule r mode s s' out h
  have hclen : (callRows mode rule r init s k).length = k + 1 := by
    simp [callRows, fixedLoop_length]
  have hpre : ∀ i, i ≤ k →
      callRows mode rule r init s i = (callRows mode rule r init s k).take (i + 1) := by
    intro i hi
    simp only [callRows, List.take_succ_cons]
    rw [fixedLoop_take mode rule r i k 1 init Caches.empty s hi]
  have hnewlen : (fixedLoop mode rule r k 1 init Caches.empty s).1.length = k :=
    fixedLoop_length mode rule r k 1 init Caches.empty s
  have hcr : init :: (fixedLoop mode rule r k 1 init Caches.empty s).1
      = callRows mode rule r init s k := rfl
  rw [hpre k (by omega), untilFixedPoint_take _ _ _ (by omega)] at hno
  have hk : 1 ≤ k := by
    by_cases hk : 1 ≤ k
    · exact hk
    · simp [hk] at hno
  refine ⟨(fixedLoop mode rule r k 1 init Caches.empty s).1, ?_, ?_, ?_, ?_⟩
  · rw [hout]; simp [callRows]
  · omega
  · rw [hnewlen, hcr]
    simp only [hk, if_true, Bool.not_eq_false', decide_eq_true_eq] at hno
    exact hno.symm
  · intro i h1 hi
    rw [hnewlen] at hi
    rw [hcr]
    have := hyes i hi
    rw [hpre i (by omega), untilFixedPoint_take _ _ _ (by omega)] at this
    simp only [h1, if_true, Bool.not_eq_true', decide_eq_false_iff_not] at this
    exact fun h => this h.symm

/-! ## Non-vacuity -/
example : untilFixedPoint [[1, 0], [1, 0]] 2 = false := by decide
example : untilFixedPoint [[1, 0], [0, 1]] 2 = true := by decide
example : untilFixedPoint [[1, 0]] 1 = true := by decide

end Cpl.C06

/-!
# C06 — 2D: `evolve2d` with a callable `timesteps`, `until_fixed_point` on grids

Same statements as above for `evolve2dDynamic` / `evolve2dFixed`. The neighbourhood type is arbitrary
(`.unknown` included: both functions then fail with `ValueError` as soon as a step is taken, before
the memoize option is looked at; a bad memoize option gives `Exception`).
-/

namespace Cpl.C06
open Cpl Cpl.Spec Cpl.Dyn2D

variable {σ α : Type}

/-- The grids of this call after `j` steps in the given mode: starting grid first. -/
def callGrids [DecidableEq α] [Inhabited α] (mode : Mode) (rule : Rule2 σ α) (r : Nat) (nb : NbType)
    (init : Grid α) (s : σ) (j : Nat) : List (Grid α) :=
  init :: (fixedLoop2 mode rule r (decide (nb = .vonNeumann)) j 1 init Caches2.empty s).1

/-- **The dynamic 2D evolution equals the fixed-count evolution of the same length.** If the predicate,
    consulted with (grids of this call so far, `t` = their number), says yes for `t = 1..k` and no at
    `t = k+1`, then (given enough fuel) the result is exactly `evolve2d` with `timesteps = k+1` — for
    every neighbourhood type and every memoize mode, error behaviour included (unknown neighbourhood:
    `ValueError`; otherwise bad memoize option: `Exception`; both only if a step is taken). -/
theorem dyn2_eq_fixed [DecidableEq α] [Inhabited α] (fuel k : Nat) (hist : List (Grid α)) (init : Grid α)
    (hlast : hist.getLast? = some init) (pred : List (Grid α) → Nat → Bool) (rule : Rule2 σ α) (r : Nat)
    (nb : NbType) (mode : Mode) (s : σ)
    (hyes : ∀ i, i < k → pred (callGrids mode rule r nb init s i) (i + 1) = true)
    (hno : pred (callGrids mode rule r nb init s k) (k + 1) = false)
    (hfuel : k < fuel) :
    evolve2dDynamic fuel hist pred rule r nb mode s
      = some (evolve2dFixed hist (k + 1) rule r nb mode s) := by
  unfold evolve2dDynamic evolve2dFixed
  rw [hlast]
  simp only
  by_cases hb : 1 ≤ k ∧ (nb = .unknown ∨ mode = .bad)
  · obtain ⟨hk, hm⟩ := hb
    obtain ⟨f, rfl⟩ : ∃ f, fuel = f + 1 := ⟨fuel - 1, by omega⟩
    have h0 : pred [init] 1 = true := by simpa [callGrids, fixedLoop2] using hyes 0 (by omega)
    have hk2 : k + 1 ≥ 2 := by omega
    by_cases hn : nb = .unknown
    · simp [dynLoop2, h0, hn, hk2]
    · have hm' : mode = .bad := by
        rcases hm with h | h
        · exact absurd h hn
        · exact h
      simp [dynLoop2, h0, hn, hm', hk2]
  · have hm : k = 0 ∨ (nb ≠ .unknown ∧ mode ≠ .bad) := by
      by_cases h : k = 0
      · exact Or.inl h
      · refine Or.inr ⟨fun hn => hb ⟨by omega, Or.inl hn⟩, fun hm => hb ⟨by omega, Or.inr hm⟩⟩
    have hyes' : ∀ i, i < k →
        pred ([init] ++ (fixedLoop2 mode rule r (decide (nb = .vonNeumann)) i 1 init Caches2.empty s).1)
          (1 + i) = true := by
      intro i hi
      have := hyes i hi
      simpa [callGrids, Nat.add_comm 1 i] using this
    have hno' : pred ([init] ++ (fixedLoop2 mode rule r (decide (nb = .vonNeumann)) k 1 init
        Caches2.empty s).1) (1 + k) = false := by
      simpa [callGrids, Nat.add_comm 1 k] using hno
    rw [dynLoop2_eq_fixedLoop2 mode rule r nb pred k fuel 1 [init] init Caches2.empty s hm hfuel
      hyes' hno']
    simp only [Nat.add_sub_cancel]
    have hc1 : ¬ (k + 1 ≥ 2 ∧ nb = .unknown) := fun h => hb ⟨by omega, Or.inl h.2⟩
    have hc2 : ¬ (k + 1 ≥ 2 ∧ mode = .bad) := fun h => hb ⟨by omega, Or.inr h.2⟩
    rw [if_neg (by omega), if_neg hc1, if_neg hc2]
    simp

/-- **Declining at once returns the given history unchanged** (and consults the rule not at all),
    whatever the neighbourhood type and the memoize option. -/
theorem dyn2_zero_step [DecidableEq α] [Inhabited α] (fuel : Nat) (hist : List (Grid α)) (init : Grid α)
    (hlast : hist.getLast? = some init) (pred : List (Grid α) → Nat → Bool) (rule : Rule2 σ α) (r : Nat)
    (nb : NbType) (mode : Mode) (s : σ) (hno : pred [init] 1 = false) :
    evolve2dDynamic (fuel + 1) hist pred rule r nb mode s = some (.ok (hist, s)) := by
  unfold evolve2dDynamic
  rw [hlast]
  simp [dynLoop2, hno]

/-- A step is performed *only* when the predicate says yes: if the run ends normally with `k` new
    grids, the predicate was true at `t = 1..k` on the grids so far and false at `t = k+1`. Holds for
    every neighbourhood type; if at least one step was taken, the neighbourhood type was a known one
    and the memoize option a supported one. -/
theorem dyn2_result_gated [DecidableEq α] [Inhabited α] (fuel : Nat) (hist : List (Grid α)) (init : Grid α)
    (hlast : hist.getLast? = some init) (pred : List (Grid α) → Nat → Bool) (rule : Rule2 σ α) (r : Nat)
    (nb : NbType) (mode : Mode) (s s' : σ) (out : List (Grid α))
    (h : evolve2dDynamic fuel hist pred rule r nb mode s = some (.ok (out, s'))) :
    ∃ k, out.length = hist.length + k ∧
      (∀ i, i < k → pred (callGrids mode rule r nb init s i) (i + 1) = true) ∧
      pred (callGrids mode rule r nb init s k) (k + 1) = false ∧
      out = hist ++ (callGrids mode rule r nb init s k).drop 1 ∧
      (1 ≤ k → nb ≠ .unknown ∧ mode ≠ .bad) := by
  unfold evolve2dDynamic at h
  rw [hlast] at h
  simp only at h
  cases hd : dynLoop2 mode rule r nb pred fuel 1 [init] init Caches2.empty s with
  | none => simp [hd] at h
  | some res =>
    cases res with
    | error e => simp [hd] at h
    | ok p =>
      obtain ⟨acc, s''⟩ := p
      simp only [hd, Option.some.injEq, Except.ok.injEq, Prod.mk.injEq] at h
      obtain ⟨m, hyes, hno, hres, _, hknown⟩ := dynLoop2_ok_inv mode rule r nb pred fuel 1 [init] init
        Caches2.empty s acc s'' hd
      refine ⟨m, ?_, ?_, ?_, ?_, hknown⟩
      · rw [← h.1, hres]
        simp [fixedLoop2_length]
      · intro i hi
        have := hyes i hi
        simpa [callGrids, Nat.add_comm 1 i] using this
      · simpa [callGrids, Nat.add_comm 1 m] using hno
      · rw [← h.1, hres]
        simp [callGrids]

/-- **until_fixed_point stops exactly at the first step that leaves the grid unchanged**:
    if grid `k` (k ≥ 1) of this call is the first one equal to its predecessor, the run is the
    fixed-count evolution with `k` steps. -/
theorem untilFixedPoint2_stops_at_first [DecidableEq α] [Inhabited α] (fuel k : Nat) (hist : List (Grid α))
    (init : Grid α) (hlast : hist.getLast? = some init) (rule : Rule2 σ α) (r : Nat) (nb : NbType)
    (mode : Mode) (s : σ) (hk : 1 ≤ k)
    (hfirst : ∀ i, 1 ≤ i → i < k →
      (callGrids mode rule r nb init s k)[i]? ≠ (callGrids mode rule r nb init s k)[i - 1]?)
    (hfix : (callGrids mode rule r nb init s k)[k]? = (callGrids mode rule r nb init s k)[k - 1]?)
    (hfuel : k < fuel) :
    evolve2dDynamic fuel hist untilFixedPoint2 rule r nb mode s
      = some (evolve2dFixed hist (k + 1) rule r nb mode s) := by
  have hlen : (callGrids mode rule r nb init s k).length = k + 1 := by
    simp [callGrids, fixedLoop2_length]
  have hpre : ∀ i, i ≤ k →
      callGrids mode rule r nb init s i = (callGrids mode rule r nb init s k).take (i + 1) := by
    intro i hi
    simp only [callGrids, List.take_succ_cons]
    rw [fixedLoop2_take mode rule r _ i k 1 init Caches2.empty s hi]
  apply dyn2_eq_fixed fuel k hist init hlast untilFixedPoint2 rule r nb mode s _ _ hfuel
  · intro i hi
    rw [hpre i (by omega), untilFixedPoint2_take _ _ _ (by omega)]
    by_cases h1 : 1 ≤ i
    · have := hfirst i h1 hi
      simp only [h1, if_true, Bool.not_eq_true', decide_eq_false_iff_not]
      exact fun h => this h.symm
    · simp [h1]
  · rw [hpre k (by omega), untilFixedPoint2_take _ _ _ (by omega)]
    simp only [hk, if_true, Bool.not_eq_false', decide_eq_true_eq]
    exact hfix.symm

/-- Conversely, whenever the run with `until_fixed_point` ends normally, at least one step was taken
    (so the neighbourhood type and the memoize option were accepted), the last two grids of this call
    are equal and no earlier pair of consecutive grids is. -/
theorem untilFixedPoint2_spec [DecidableEq α] [Inhabited α] (fuel : Nat) (hist : List (Grid α))
    (init : Grid α) (hlast : hist.getLast? = some init) (rule : Rule2 σ α) (r : Nat) (nb : NbType)
    (mode : Mode) (s s' : σ) (out : List (Grid α))
    (h : evolve2dDynamic fuel hist untilFixedPoint2 rule r nb mode s = some (.ok (out, s'))) :
    ∃ new, out = hist ++ new ∧ 1 ≤ new.length ∧
      (init :: new)[new.length]? = (init :: new)[new.length - 1]? ∧
      (∀ i, 1 ≤ i → i < new.length → (init :: new)[i]? ≠ (init :: new)[i - 1]?) ∧
      nb ≠ .unknown ∧ mode ≠ .bad := by
  obtain ⟨k, hlen, hyes, hno, hout, hknown⟩ :=
    dyn2_result_gated fuel hist init hlast untilFixedPoint2 rule r nb mode s s' out h
  have hclen : (callGrids mode rule r nb init s k).length = k + 1 := by
    simp [callGrids, fixedLoop2_length]
  have hpre : ∀ i, i ≤ k →
      callGrids mode rule r nb init s i = (callGrids mode rule r nb init s k).take (i + 1) := by
    intro i hi
    simp only [callGrids, List.take_succ_cons]
    rw [fixedLoop2_take mode rule r _ i k 1 init Caches2.empty s hi]
  have hnewlen : (fixedLoop2 mode rule r (decide (nb = .vonNeumann)) k 1 init Caches2.empty s).1.length
      = k := fixedLoop2_length mode rule r _ k 1 init Caches2.empty s
  have hcr : init :: (fixedLoop2 mode rule r (decide (nb = .vonNeumann)) k 1 init Caches2.empty s).1
      = callGrids mode rule r nb init s k := rfl
  rw [hpre k (by omega), untilFixedPoint2_take _ _ _ (by omega)] at hno
  have hk : 1 ≤ k := by
    by_cases hk : 1 ≤ k
    · exact hk
    · simp [hk] at hno
  refine ⟨(fixedLoop2 mode rule r (decide (nb = .vonNeumann)) k 1 init Caches2.empty s).1,
    ?_, ?_, ?_, ?_, (hknown hk).1, (hknown hk).2⟩
  · rw [hout]; simp [callGrids]
  · omega
  · rw [hnewlen, hcr]
    simp only [hk, if_true, Bool.not_eq_false', decide_eq_true_eq] at hno
    exact hno.symm
  · intro i h1 hi
    rw [hnewlen] at hi
    rw [hcr]
    have := hyes i hi
    rw [hpre i (by omega), untilFixedPoint2_take _ _ _ (by omega)] at this
    simp only [h1, if_true, Bool.not_eq_true', decide_eq_false_iff_not] at this
    exact fun h => this h.symm

/-! ## Non-vacuity (2D) -/
example : untilFixedPoint2 [[[1, 0], [0, 1]], [[1, 0], [0, 1]]] 2 = false := by decide
example : untilFixedPoint2 [[[1, 0], [0, 1]], [[0, 1], [1, 0]]] 2 = true := by decide
example : untilFixedPoint2 [[[1, 0], [0, 1]]] 1 = true := by decide

end Cpl.C06


/-! ## The `timesteps` callable as an arbitrary stateful callable (what the predicate is consulted with)

`evolveDynamicS` / `evolve2dDynamicS` (`Cpl/Model/DynS.lean`, the functions the driver runs) thread a predicate
state through the consultations in code order. For a predicate whose verdict is a pure function `q` of its
arguments the result is that of `evolveDynamic q` — so every theorem above applies — and a recording predicate
sees exactly `(states of this call so far, t = their number)` for `t = 1, …, k+1`, in that order, once each. -/

namespace Cpl.C06
open Cpl Cpl.Spec

variable {σ π α : Type}

/-- **A stateful predicate with pure verdicts behaves like the pure predicate** (1D): rows and rule state agree. -/
theorem dynS_eq_dyn [DecidableEq α] [Inhabited α] (fuel : Nat) (hist : List (List α))
    (pred : SPred π α) (q : List (List α) → Nat → Bool) (hq : ∀ p rows t, (pred p rows t).1 = q rows t)
    (rule : Rule1 σ α) (r : Nat) (mode : Mode) (s : σ) (p : π) :
    (evolveDynamicS fuel hist pred rule r mode s p).map (fun e => e.map fun x => (x.1, x.2.1))
      = evolveDynamic fuel hist q rule r mode s := by
  unfold evolveDynamicS evolveDynamic
  cases hl : hist.getLast? with
  | none => simp [Except.map]
  | some init =>
    simp only
    rw [← DynS.dynLoopS_proj mode rule r pred q hq fuel 1 [init] init Caches.empty s p]
    cases hd : dynLoopS mode rule r pred fuel 1 [init] init Caches.empty s p with
    | none => simp [DynS.proj]
    | some res =>
      cases res with
      | error e => simp [DynS.proj, Except.map]
      | ok x =>
        obtain ⟨acc, s'', p'⟩ := x
        simp [DynS.proj, Except.map]

/-- **The predicate is consulted with the states produced so far in this call (starting state first) and `t` equal
    to their number, for `t = 1, 2, …, k+1`, once each and in that order** — where `k` is the number of steps
    performed (1D). -/
theorem dyn_pred_trace [DecidableEq α] [Inhabited α] (fuel : Nat) (hist : List (List α)) (init : List α)
    (hlast : hist.getLast? = some init) (q : List (List α) → Nat → Bool) (rule : Rule1 σ α) (r : Nat)
    (mode : Mode) (s s' : σ) (log0 log : List (List (List α) × Nat)) (out : List (List α))
    (h : evolveDynamicS fuel hist (recPred q) rule r mode s log0 = some (.ok (out, s', log))) :
    ∃ k, out.length = hist.length + k ∧
      log = log0 ++ (List.range (k + 1)).map fun i => (callRows mode rule r init s i, i + 1) := by
  unfold evolveDynamicS at h
  rw [hlast] at h
  simp only at h
  cases hd : dynLoopS mode rule r (recPred q) fuel 1 [init] init Caches.empty s log0 with
  | none => simp [hd] at h
  | some res =>
    cases res with
    | error e => simp [hd] at h
    | ok x =>
      obtain ⟨acc, s'', lg⟩ := x
      simp only [hd, Option.some.injEq, Except.ok.injEq, Prod.mk.injEq] at h
      obtain ⟨m, hres, hlog⟩ := DynS.dynLoopS_rec_inv mode rule r q fuel 1 [init] init
        Caches.empty s log0 acc s'' lg hd
      refine ⟨m, ?_, ?_⟩
      · rw [← h.1, hres]
        simp [fixedLoop_length]
      · rw [← h.2.2, hlog]
        simp [callRows, Nat.add_comm 1]

/-- 2D: a stateful predicate with pure verdicts behaves like the pure predicate. -/
theorem dynS2_eq_dyn2 [DecidableEq α] [Inhabited α] (fuel : Nat) (hist : List (Grid α))
    (pred : SPred2 π α) (q : List (Grid α) → Nat → Bool) (hq : ∀ p gs t, (pred p gs t).1 = q gs t)
    (rule : Rule2 σ α) (r : Nat) (nb : NbType) (mode : Mode) (s : σ) (p : π) :
    (evolve2dDynamicS fuel hist pred rule r nb mode s p).map (fun e => e.map fun x => (x.1, x.2.1))
      = evolve2dDynamic fuel hist q rule r nb mode s := by
  unfold evolve2dDynamicS evolve2dDynamic
  cases hl : hist.getLast? with
  | none => simp [Except.map]
  | some init =>
    simp only
    rw [← DynS.dynLoopS2_proj mode rule r nb pred q hq fuel 1 [init] init Caches2.empty s p]
    cases hd : dynLoopS2 mode rule r nb pred fuel 1 [init] init Caches2.empty s p with
    | none => simp [DynS.proj]
    | some res =>
      cases res with
      | error e => simp [DynS.proj, Except.map]
      | ok x =>
        obtain ⟨acc, s'', p'⟩ := x
        simp [DynS.proj, Except.map]

/-- 2D: the recording predicate sees `(grids of this call so far, t = their number)` for `t = 1 … k+1`. -/
theorem dyn2_pred_trace [DecidableEq α] [Inhabited α] (fuel : Nat) (hist : List (Grid α)) (init : Grid α)
    (hlast : hist.getLast? = some init) (q : List (Grid α) → Nat → Bool) (rule : Rule2 σ α) (r : Nat)
    (nb : NbType) (mode : Mode) (s s' : σ) (log0 log : List (List (Grid α) × Nat)) (out : List (Grid α))
    (h : evolve2dDynamicS fuel hist (recPred2 q) rule r nb mode s log0 = some (.ok (out, s', log))) :
    ∃ k, out.length = hist.length + k ∧
      log = log0 ++ (List.range (k + 1)).map fun i => (callGrids mode rule r nb init s i, i + 1) := by
  unfold evolve2dDynamicS at h
  rw [hlast] at h
  simp only at h
  cases hd : dynLoopS2 mode rule r nb (recPred2 q) fuel 1 [init] init Caches2.empty s log0 with
  | none => simp [hd] at h
  | some res =>
    cases res with
    | error e => simp [hd] at h
    | ok x =>
      obtain ⟨acc, s'', lg⟩ := x
      simp only [hd, Option.some.injEq, Except.ok.injEq, Prod.mk.injEq] at h
      obtain ⟨m, hres, hlog⟩ := DynS.dynLoopS2_rec_inv mode rule r nb q fuel 1 [init] init
        Caches2.empty s log0 acc s'' lg hd
      refine ⟨m, ?_, ?_⟩
      · rw [← h.1, hres]
        simp [Dyn2D.fixedLoop2_length]
      · rw [← h.2.2, hlog]
        simp [callGrids, Nat.add_comm 1]

end Cpl.C06
