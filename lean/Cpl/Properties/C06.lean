import Cpl.Model.Evolve1D
namespace Cpl.C06
theorem placeholder : True := trivial
end Cpl.C06
