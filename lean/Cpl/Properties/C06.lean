import Cpl.Spec.Ring
import Cpl.Lemmas.Evolve1D

/-!
# C06 — callable timesteps gate every step; until_fixed_point halts at the first fixed point (1D part)

The `while timesteps(np.array(array), t)` loop is modelled with fuel (`evolveDynamic fuel …` returns
`none` when the fuel runs out: non-termination of a user predicate cannot be exhibited, only named).
The predicate is a pure function of (rows of this call so far, t) in the model; *what* the
implementation passes to it is checked by the harness recorder.
-/

namespace Cpl.C06
open Cpl Cpl.Spec

variable {σ α : Type}

/-- The rows of this call after `j` steps in the given mode: starting state first. -/
def callRows [DecidableEq α] [Inhabited α] (mode : Mode) (rule : Rule1 σ α) (r : Nat) (init : List α)
    (s : σ) (j : Nat) : List (List α) :=
  init :: (fixedLoop mode rule r j 1 init Caches.empty s).1

/-- **The dynamic evolution equals the fixed-count evolution of the same length.** If the predicate,
    consulted with (rows of this call so far, `t` = their number), says yes for `t = 1..k` and no at
    `t = k+1`, then (given enough fuel) the result is exactly `evolve` with `timesteps = k+1` — in
    every memoize mode, error behaviour included. -/
theorem dyn_eq_fixed [DecidableEq α] [Inhabited α] (fuel k : Nat) (hist : List (List α)) (init : List α)
    (hlast : hist.getLast? = some init) (pred : List (List α) → Nat → Bool) (rule : Rule1 σ α) (r : Nat)
    (mode : Mode) (s : σ)
    (hyes : ∀ i, i < k → pred (callRows mode rule r init s i) (i + 1) = true)
    (hno : pred (callRows mode rule r init s k) (k + 1) = false)
    (hfuel : k < fuel) :
    evolveDynamic fuel hist pred rule r mode s = some (evolveFixed hist (k + 1) rule r mode s) := by
  sorry

/-- **Declining at once returns the given history unchanged** (and consults the rule not at all). -/
theorem dyn_zero_step [DecidableEq α] [Inhabited α] (fuel : Nat) (hist : List (List α)) (init : List α)
    (hlast : hist.getLast? = some init) (pred : List (List α) → Nat → Bool) (rule : Rule1 σ α) (r : Nat)
    (mode : Mode) (s : σ) (hno : pred [init] 1 = false) :
    evolveDynamic (fuel + 1) hist pred rule r mode s = some (.ok (hist, s)) := by
  sorry

/-- A step is performed *only* when the predicate says yes: if the run ends normally with `k` new rows,
    the predicate was true at `t = 1..k` on the rows so far and false at `t = k+1`. -/
theorem dyn_result_gated [DecidableEq α] [Inhabited α] (fuel : Nat) (hist : List (List α)) (init : List α)
    (hlast : hist.getLast? = some init) (pred : List (List α) → Nat → Bool) (rule : Rule1 σ α) (r : Nat)
    (mode : Mode) (s s' : σ) (out : List (List α))
    (h : evolveDynamic fuel hist pred rule r mode s = some (.ok (out, s'))) :
    ∃ k, out.length = hist.length + k ∧
      (∀ i, i < k → pred (callRows mode rule r init s i) (i + 1) = true) ∧
      pred (callRows mode rule r init s k) (k + 1) = false ∧
      out = hist ++ (callRows mode rule r init s k).drop 1 := by
  sorry

/-- **until_fixed_point stops exactly at the first step that leaves the state unchanged**:
    if row `k` (k ≥ 1) of this call is the first one equal to its predecessor, the run is the
    fixed-count evolution with `k` steps. -/
theorem untilFixedPoint_stops_at_first [DecidableEq α] [Inhabited α] (fuel k : Nat) (hist : List (List α))
    (init : List α) (hlast : hist.getLast? = some init) (rule : Rule1 σ α) (r : Nat) (mode : Mode) (s : σ)
    (hk : 1 ≤ k)
    (hfirst : ∀ i, 1 ≤ i → i < k →
      (callRows mode rule r init s k)[i]? ≠ (callRows mode rule r init s k)[i - 1]?)
    (hfix : (callRows mode rule r init s k)[k]? = (callRows mode rule r init s k)[k - 1]?)
    (hfuel : k < fuel) :
    evolveDynamic fuel hist untilFixedPoint rule r mode s = some (evolveFixed hist (k + 1) rule r mode s) := by
  sorry

/-- Conversely, whenever the run with `until_fixed_point` ends normally, at least one step was taken,
    the last two rows of this call are equal and no earlier pair of consecutive rows is. -/
theorem untilFixedPoint_spec [DecidableEq α] [Inhabited α] (fuel : Nat) (hist : List (List α))
    (init : List α) (hlast : hist.getLast? = some init) (rule : Rule1 σ α) (r : Nat) (mode : Mode)
    (s s' : σ) (out : List (List α))
    (h : evolveDynamic fuel hist untilFixedPoint rule r mode s = some (.ok (out, s'))) :
    ∃ new, out = hist ++ new ∧ 1 ≤ new.length ∧
      (init :: new)[new.length]? = (init :: new)[new.length - 1]? ∧
      ∀ i, 1 ≤ i → i < new.length → (init :: new)[i]? ≠ (init :: new)[i - 1]? := by
  sorry

/-! ## Non-vacuity -/
example : untilFixedPoint [[1, 0], [1, 0]] 2 = false := by decide
example : untilFixedPoint [[1, 0], [0, 1]] 2 = true := by decide
example : untilFixedPoint [[1, 0]] 1 = true := by decide

end Cpl.C06
