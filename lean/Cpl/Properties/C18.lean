import Cpl.Lemmas.Bien

/-!
# C18 — The BiEntropy family matches Croll's definitions and stays in [0, 1]

`binary_derivative` XORs adjacent digits (length `n - 1`) and `cyclic_binary_derivative` also pairs the
last digit with the first (length `n`); `bien`, `tbien` and `ktbien` are the weighted means of the Shannon
entropies of the successive derivatives with weights `2^k`, `log2 (k+2)` and `log2 (k+2)` on cyclic
derivatives respectively. Their values lie in `[0, 1]`, are unchanged by complementing or reversing the
string, and `ktbien` is also unchanged by rotating it.

Property theorems only; the proofs of the helper facts are in `Cpl.Lemmas.Bien`. The model
(`binaryDerivative`, `cyclicBinaryDerivative`, `shannon`, `bienLoop`, `bien`, `tbien`, `ktbien` in
`Cpl.Model.Measures`) is generic over a record of arithmetic operations; here it is instantiated with the
real numbers (`Cpl.Bien.realNum`: exact arithmetic, `Real.log`), the driver instantiates the very same
definitions with `Float`. The distance between the real value and the floating-point value is outside
this file.

The claim's quantifier is: binary strings (cells 0/1) of length `≥ 2`. The theorems of sections 5 and 6
carry these two hypotheses to match the claim, although the proofs show that the invariances need neither
(the model's `bxor` satisfies `bxor (1-a) (1-b) = bxor a b` on all integers) and the range does not need
the length (for `n < 2` the sums are empty and the real-valued model returns `0 / 0 = 0`, where Python
raises `ZeroDivisionError`). The hypothesis-free versions are the lemmas `wmean_*` of `Cpl.Lemmas.Bien`.
-/

namespace Cpl.C18
open Cpl Finset
open Cpl.Bien (realNum)

/-- Binary strings: every cell is `0` or `1`. -/
def Bin (s : List Int) : Prop := ∀ x ∈ s, x = 0 ∨ x = 1

/-- The complement of a binary string: every digit `x` replaced by `1 - x`. -/
def compl (s : List Int) : List Int := s.map (1 - ·)

/-! ## 1. The two derivatives (exact) -/

/-- `binary_derivative` has length `n - 1` and its `i`-th digit is the XOR of digits `i` and `i + 1`. -/
theorem binaryDerivative_spec (s : List Int) :
    (binaryDerivative s).length = s.length - 1 ∧
    ∀ i (h : i + 1 < s.length), (binaryDerivative s)[i]? = some (bxor s[i] s[i + 1]) :=
  ⟨Bien.bd_length s, fun i h => Bien.bd_getElem? s i h⟩

/-- `cyclic_binary_derivative` has length `n` and its `i`-th digit is the XOR of digits `i` and `(i + 1) mod n`:
    the last digit is paired with the first. -/
theorem cyclic_spec (s : List Int) :
    (cyclicBinaryDerivative s).length = s.length ∧
    ∀ i (h : i < s.length), (cyclicBinaryDerivative s)[i]? =
      some (bxor s[i] (s[(i + 1) % s.length]'(Nat.mod_lt _ (by omega)))) :=
  ⟨Bien.cbd_length s, fun i h => Bien.cbd_getElem? s i h⟩

/-- The cyclic derivative is the plain derivative followed by the XOR of the last and the first digit. -/
theorem cyclic_eq_snoc (s : List Int) (h : s ≠ []) :
    cyclicBinaryDerivative s = binaryDerivative s ++ [bxor (s.getLast h) (s.head h)] := Bien.cbd_eq s h

/-- On binary digits the model's `bxor` is exclusive or: addition modulo 2. -/
theorem bxor_binary {a b : Int} (ha : a = 0 ∨ a = 1) (hb : b = 0 ∨ b = 1) : bxor a b = (a + b) % 2 :=
  Bien.bxor_bin ha hb

/-- The derivative of a binary string is binary. -/
theorem deriv_binary {s : List Int} (hs : Bin s) : Bin (binaryDerivative s) := Bien.bd_bin hs

/-- The cyclic derivative of a binary string is binary. -/
theorem cyclic_binary {s : List Int} (hs : Bin s) : Bin (cyclicBinaryDerivative s) := Bien.cbd_bin hs

/-! ## 2. Exact invariances of the derivatives -/

/-- Complementing the string does not change its derivative. -/
theorem deriv_complement (s : List Int) : binaryDerivative (compl s) = binaryDerivative s := Bien.bd_compl s

/-- Complementing the string does not change its cyclic derivative. -/
theorem cyclic_complement (s : List Int) : cyclicBinaryDerivative (compl s) = cyclicBinaryDerivative s :=
  Bien.cbd_compl s

/-- The derivative of the reversed string is the reversed derivative. -/
theorem deriv_reverse (s : List Int) : binaryDerivative s.reverse = (binaryDerivative s).reverse :=
  Bien.bd_reverse s

/-- The cyclic derivative of the reversed string is the reversed cyclic derivative rotated by one place. -/
theorem cyclic_reverse (s : List Int) :
    cyclicBinaryDerivative s.reverse = (cyclicBinaryDerivative s).reverse.rotate 1 := Bien.cbd_reverse s

/-- The cyclic derivative commutes with rotation. -/
theorem cyclic_rotate (s : List Int) (j : Nat) :
    cyclicBinaryDerivative (s.rotate j) = (cyclicBinaryDerivative s).rotate j := Bien.cbd_rotate s j

/-- `k`-fold derivatives of the reversed string are the reversed `k`-fold derivatives. -/
theorem deriv_iterate_reverse (s : List Int) (k : Nat) :
    binaryDerivative^[k] s.reverse = (binaryDerivative^[k] s).reverse := Bien.bd_iterate_reverse s k

/-- `k`-fold cyclic derivatives commute with rotation. -/
theorem cyclic_iterate_rotate (s : List Int) (k j : Nat) :
    cyclicBinaryDerivative^[k] (s.rotate j) = (cyclicBinaryDerivative^[k] s).rotate j :=
  Bien.cbd_iterate_rotate s k j

/-- The `k`-fold cyclic derivative of the reversed string is the reversed `k`-fold cyclic derivative rotated by
    `k` places; in particular it has the same symbol counts. -/
theorem cyclic_iterate_reverse (s : List Int) (k : Nat) :
    cyclicBinaryDerivative^[k] s.reverse = (cyclicBinaryDerivative^[k] s).reverse.rotate k :=
  Bien.cbd_iterate_reverse s k

/-! ## 3. Shannon entropy over the reals -/

/-- The model's entropy is `H = - ∑ p log2 p` over the symbols `a` that occur, `p = count a / length`. -/
theorem shannon_def (xs : List Int) :
    shannon realNum xs =
      -∑ a ∈ xs.toFinset, ((xs.count a : ℝ) / (xs.length : ℝ)) * Real.logb 2 ((xs.count a : ℝ) / (xs.length : ℝ)) :=
  Bien.shannon_eq xs

/-- The entropy depends only on the multiset of symbols, not on their order. -/
theorem shannon_perm {xs ys : List Int} (h : xs.Perm ys) : shannon realNum xs = shannon realNum ys :=
  Bien.shannon_perm h

/-- An injective relabelling of the symbols (for instance complementing) keeps the entropy. -/
theorem shannon_relabel {f : Int → Int} (hf : Function.Injective f) (xs : List Int) :
    shannon realNum (xs.map f) = shannon realNum xs := Bien.shannon_relabel hf xs

/-- The entropy of a non-empty binary string is the binary entropy function, in bits, of the frequency of `0`. -/
theorem shannon_binary_eq {s : List Int} (hs : Bin s) (hne : s ≠ []) :
    shannon realNum s = Real.binEntropy ((s.count 0 : ℝ) / (s.length : ℝ)) / Real.log 2 :=
  Bien.shannon_bin_eq hs hne

/-- The entropy of a binary string lies between `0` and `1` bit. -/
theorem shannon_binary_le_one {s : List Int} (hs : Bin s) : 0 ≤ shannon realNum s ∧ shannon realNum s ≤ 1 :=
  Bien.shannon_binary_le_one hs

/-! ## 4. Croll's definitions: the loops in closed form

`D^[k]` is the `k`-fold derivative (`Nat.iterate`), `n = s.length`, `k` ranges over `0 .. n-2`. -/

/-- `bien` is the weighted sum of the entropies of the successive derivatives with weights `2^k`, divided by
    `2^(n-1) - 1`. -/
theorem bien_def (s : List Int) :
    bien realNum s =
      (∑ k ∈ range (s.length - 1), (2 : ℝ) ^ k * shannon realNum (binaryDerivative^[k] s))
        / ((2 : ℝ) ^ (s.length - 1) - 1) := by
  rw [Bien.bien_eq_wmean, Bien.wmean, Bien.sum_two_pow]

/-- The normaliser `2^(n-1) - 1` of `bien` is the sum of its weights, so `bien` is a weighted mean. -/
theorem bien_weights (m : Nat) : ∑ k ∈ range m, (2 : ℝ) ^ k = 2 ^ m - 1 := Bien.sum_two_pow m

/-- `tbien` is the weighted mean of the entropies of the successive derivatives with weights `log2 (k + 2)`. -/
theorem tbien_def (s : List Int) :
    tbien realNum s =
      (∑ k ∈ range (s.length - 1), Real.logb 2 ((k : ℝ) + 2) * shannon realNum (binaryDerivative^[k] s))
        / ∑ k ∈ range (s.length - 1), Real.logb 2 ((k : ℝ) + 2) := Bien.tbien_eq_wmean s

/-- `ktbien` is the weighted mean of the entropies of the successive cyclic derivatives with weights
    `log2 (k + 2)`. -/
theorem ktbien_def (s : List Int) :
    ktbien realNum s =
      (∑ k ∈ range (s.length - 1), Real.logb 2 ((k : ℝ) + 2) * shannon realNum (cyclicBinaryDerivative^[k] s))
        / ∑ k ∈ range (s.length - 1), Real.logb 2 ((k : ℝ) + 2) := Bien.ktbien_eq_wmean s

/-- For strings of length `≥ 2` the normaliser of `bien` is positive (no division by zero). -/
theorem bien_normaliser_pos {s : List Int} (h : 2 ≤ s.length) : 0 < (2 : ℝ) ^ (s.length - 1) - 1 := by
  have : (1 : ℝ) < 2 ^ (s.length - 1) := one_lt_pow₀ (by norm_num) (by omega)
  linarith

/-- Every weight `log2 (k + 2)` is positive (indeed `≥ 1`). -/
theorem log_weight_pos (k : Nat) : 0 < Real.logb 2 ((k : ℝ) + 2) := Bien.wlog_pos k

/-- For strings of length `≥ 2` the normaliser of `tbien` and `ktbien` is positive (no division by zero). -/
theorem tbien_normaliser_pos {s : List Int} (h : 2 ≤ s.length) :
    0 < ∑ k ∈ range (s.length - 1), Real.logb 2 ((k : ℝ) + 2) :=
  Finset.sum_pos (fun k _ => log_weight_pos k) (Finset.nonempty_range_iff.2 (by omega))

/-! ## 5. Range -/

/-- `bien` of a binary string lies in `[0, 1]`. -/
theorem bien_range {s : List Int} (hs : Bin s) (_ : 2 ≤ s.length) : 0 ≤ bien realNum s ∧ bien realNum s ≤ 1 := by
  rw [Bien.bien_eq_wmean]
  exact Bien.wmean_range (fun k => by positivity)
    (fun k => Bien.shannon_binary_le_one (Bien.iterate_bin (fun _ => Bien.bd_bin) hs k))

/-- `tbien` of a binary string lies in `[0, 1]`. -/
theorem tbien_range {s : List Int} (hs : Bin s) (_ : 2 ≤ s.length) : 0 ≤ tbien realNum s ∧ tbien realNum s ≤ 1 := by
  rw [Bien.tbien_eq_wmean]
  exact Bien.wmean_range (fun k => (Bien.wlog_pos k).le)
    (fun k => Bien.shannon_binary_le_one (Bien.iterate_bin (fun _ => Bien.bd_bin) hs k))

/-- `ktbien` of a binary string lies in `[0, 1]`. -/
theorem ktbien_range {s : List Int} (hs : Bin s) (_ : 2 ≤ s.length) :
    0 ≤ ktbien realNum s ∧ ktbien realNum s ≤ 1 := by
  rw [Bien.ktbien_eq_wmean]
  exact Bien.wmean_range (fun k => (Bien.wlog_pos k).le)
    (fun k => Bien.shannon_binary_le_one (Bien.iterate_bin (fun _ => Bien.cbd_bin) hs k))

/-! ## 6. Invariances -/

/-- `bien` is unchanged by complementing the string. -/
theorem bien_complement {s : List Int} (_ : Bin s) (_ : 2 ≤ s.length) : bien realNum (compl s) = bien realNum s := by
  rw [Bien.bien_eq_wmean, Bien.bien_eq_wmean]; exact Bien.wmean_compl Bien.bd_compl _ s

/-- `tbien` is unchanged by complementing the string. -/
theorem tbien_complement {s : List Int} (_ : Bin s) (_ : 2 ≤ s.length) :
    tbien realNum (compl s) = tbien realNum s := by
  rw [Bien.tbien_eq_wmean, Bien.tbien_eq_wmean]; exact Bien.wmean_compl Bien.bd_compl _ s

/-- `ktbien` is unchanged by complementing the string. -/
theorem ktbien_complement {s : List Int} (_ : Bin s) (_ : 2 ≤ s.length) :
    ktbien realNum (compl s) = ktbien realNum s := by
  rw [Bien.ktbien_eq_wmean, Bien.ktbien_eq_wmean]; exact Bien.wmean_compl Bien.cbd_compl _ s

/-- `bien` is unchanged by reversing the string. -/
theorem bien_reverse {s : List Int} (_ : Bin s) (_ : 2 ≤ s.length) : bien realNum s.reverse = bien realNum s := by
  rw [Bien.bien_eq_wmean, Bien.bien_eq_wmean]
  exact Bien.wmean_congr (by simp) fun k => by rw [Bien.bd_iterate_reverse, Bien.shannon_reverse]

/-- `tbien` is unchanged by reversing the string. -/
theorem tbien_reverse {s : List Int} (_ : Bin s) (_ : 2 ≤ s.length) : tbien realNum s.reverse = tbien realNum s := by
  rw [Bien.tbien_eq_wmean, Bien.tbien_eq_wmean]
  exact Bien.wmean_congr (by simp) fun k => by rw [Bien.bd_iterate_reverse, Bien.shannon_reverse]

/-- `ktbien` is unchanged by reversing the string. -/
theorem ktbien_reverse {s : List Int} (_ : Bin s) (_ : 2 ≤ s.length) :
    ktbien realNum s.reverse = ktbien realNum s := by
  rw [Bien.ktbien_eq_wmean, Bien.ktbien_eq_wmean]
  exact Bien.wmean_congr (by simp) fun k => by
    rw [Bien.cbd_iterate_reverse, Bien.shannon_rotate, Bien.shannon_reverse]

/-- `ktbien` is unchanged by rotating the string (by any number `j` of places). -/
theorem ktbien_rotate {s : List Int} (_ : Bin s) (_ : 2 ≤ s.length) (j : Nat) :
    ktbien realNum (s.rotate j) = ktbien realNum s := by
  rw [Bien.ktbien_eq_wmean, Bien.ktbien_eq_wmean]
  exact Bien.wmean_congr (by simp) fun k => by rw [Bien.cbd_iterate_rotate, Bien.shannon_rotate]

/-! ## Concrete instances (non-vacuity) -/

example : Bin [0, 1, 1, 0, 1] := by unfold Bin; decide
example : binaryDerivative [0, 1, 1, 0, 1] = [1, 0, 1, 1] := by decide
example : cyclicBinaryDerivative [0, 1, 1, 0, 1] = [1, 0, 1, 1, 1] := by decide
example : compl [0, 1, 1, 0, 1] = [1, 0, 0, 1, 0] := by decide
example : cyclicBinaryDerivative [0, 1, 1, 0, 1].reverse = (cyclicBinaryDerivative [0, 1, 1, 0, 1]).reverse.rotate 1 := by
  decide

example : ktbien realNum ([0, 1, 1, 0, 1].rotate 2) = ktbien realNum [0, 1, 1, 0, 1] :=
  ktbien_rotate (by unfold Bin; decide) (by decide) 2
example : tbien realNum [1, 0, 1, 1, 0] = tbien realNum [0, 1, 1, 0, 1] :=
  tbien_reverse (s := [0, 1, 1, 0, 1]) (by unfold Bin; decide) (by decide)
example : bien realNum [1, 0, 0, 1, 0] = bien realNum [0, 1, 1, 0, 1] :=
  bien_complement (s := [0, 1, 1, 0, 1]) (by unfold Bin; decide) (by decide)

/-- One fair bit. -/
theorem shannon_01 : shannon realNum [0, 1] = 1 := by
  rw [shannon_binary_eq (by unfold Bin; decide) (by simp)]
  have : ((([0, 1] : List Int).count 0 : ℕ) : ℝ) / ((([0, 1] : List Int).length : ℕ) : ℝ) = 2⁻¹ := by
    have : ([0, 1] : List Int).count 0 = 1 := by decide
    rw [this]; norm_num
  rw [this, Real.binEntropy_two_inv, div_self (Real.log_pos (by norm_num)).ne']

/-- A constant string has entropy zero. -/
theorem shannon_00 : shannon realNum [0, 0] = 0 := by
  rw [shannon_binary_eq (by unfold Bin; decide) (by simp)]
  have : ((([0, 0] : List Int).count 0 : ℕ) : ℝ) / ((([0, 0] : List Int).length : ℕ) : ℝ) = 1 := by
    have : ([0, 0] : List Int).count 0 = 2 := by decide
    rw [this]; norm_num
  rw [this, Real.binEntropy_one, zero_div]

/-- The bounds of `bien_range` are attained: `bien "01" = 1` and `bien "00" = 0`. -/
example : bien realNum [0, 1] = 1 := by
  rw [bien_def]; simp [shannon_01]; norm_num
example : bien realNum [0, 0] = 0 := by
  rw [bien_def]; simp [shannon_00]
example : ktbien realNum [0, 1] = 1 := by
  rw [ktbien_def]; simp [shannon_01]
example : tbien realNum [0, 0] = 0 := by
  rw [tbien_def]; simp [shannon_00]

end Cpl.C18
