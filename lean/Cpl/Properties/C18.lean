import Cpl.Model.Measures
namespace Cpl.C18
theorem placeholder : True := trivial
end Cpl.C18
