import Cpl.Model.Measures
namespace Cpl.C16
theorem placeholder : True := trivial
end Cpl.C16
