import Cpl.Model.Measures
import Cpl.Lemmas.Entropy

/-!
# C16 — Shannon, joint and mutual information measures match their definitions

"`shannon_entropy` returns minus the sum of `p log2 p` over symbol frequencies, `joint_shannon_entropy`
the same over aligned symbol pairs, and `mutual_information` their combination `H(X)+H(Y)-H(X,Y)`, which
is symmetric, non-negative and equal to `H(X)` when `Y` is `X`. `average_cell_entropy` and
`average_mutual_information` are the means over cells of these measures applied to each cell's time
series of states taken as symbols whatever their printed width, the latter pairing every state with the
one `d` steps later and accepting exactly `0 < d < number of timesteps`."

Property theorems only. The model (`Cpl.Model.Measures`) writes the numeric formulas once, generically
over a record of arithmetic operations `Num F`; the driver evaluates them with `floatNum : Num Float`,
the theorems below are about the very same formulas evaluated with `realNum : Num ℝ`
(`Cpl.Entropy.realNum`: `+ - * /`, negation, `|·|`, `Real.log`). Symbols are integers of any magnitude
or sign; sequences, alphabets, automaton shapes `T × N` and temporal distances are unrestricted except
where a hypothesis says otherwise.

Conventions of `ℝ` that matter at the edges: `x / 0 = 0` and `Real.log 0 = 0`. Hence the entropy of the
empty sequence is `0` over the reals, and the mean over `N = 0` cells is `0` (in floating point these are
`0.0` and `nan` respectively; the theorems say nothing about floating-point rounding or `nan`).
-/

namespace Cpl.C16
open Py Cpl
open Cpl.Entropy (realNum)

/-! ## 1. The exact (combinatorial) part -/

/-- The alphabet `distinctSyms xs` lists every symbol once. -/
theorem distinctSyms_nodup (xs : List Int) : (distinctSyms xs).Nodup :=
  Entropy.distinctSyms_nodup xs

/-- The alphabet consists of exactly the symbols that occur in the sequence. -/
theorem mem_distinctSyms (xs : List Int) (s : Int) : s ∈ distinctSyms xs ↔ s ∈ xs :=
  Entropy.mem_distinctSyms

/-- `symCounts xs` has one entry per symbol of the alphabet, in the same order. -/
theorem symCounts_keys (xs : List Int) : (symCounts xs).map (·.1) = distinctSyms xs :=
  Entropy.symCounts_keys xs

/-- The entries of `symCounts xs` are exactly the pairs (symbol occurring in `xs`, its number of
    occurrences). -/
theorem symCounts_spec (xs : List Int) (p : Int × Nat) :
    p ∈ symCounts xs ↔ p.1 ∈ xs ∧ p.2 = xs.count p.1 :=
  Entropy.mem_symCounts

/-- Every count in `symCounts xs` is the number of occurrences of its symbol, and is at least 1. -/
theorem symCounts_pos (xs : List Int) : ∀ p ∈ symCounts xs, p.2 = xs.count p.1 ∧ 1 ≤ p.2 := by
  intro p hp
  obtain ⟨hmem, hc⟩ := Entropy.mem_symCounts.mp hp
  exact ⟨hc, hc ▸ List.count_pos_iff.mpr hmem⟩

/-- The symbol counts add up to the length of the sequence (so the frequencies add up to 1). -/
theorem symCounts_sum (xs : List Int) : ((symCounts xs).map (·.2)).sum = xs.length :=
  Entropy.symCounts_sum xs

/-- The entries of `jointCounts xs ys` are exactly the aligned pairs `(x, y)` occurring in `xs.zip ys`,
    each listed once, with the number of positions at which the pair occurs. -/
theorem jointCounts_spec (xs ys : List Int) :
    ((jointCounts xs ys).map (·.1)).Nodup ∧
      ∀ e : (Int × Int) × Nat,
        e ∈ jointCounts xs ys ↔ e.1 ∈ xs.zip ys ∧ e.2 = (xs.zip ys).count e.1 :=
  ⟨Entropy.jointCounts_keys_nodup xs ys, fun _ => Entropy.mem_jointCounts⟩

/-- Every joint count is at least 1 (pairs that never occur are dropped). -/
theorem jointCounts_pos (xs ys : List Int) : ∀ e ∈ jointCounts xs ys, 1 ≤ e.2 := by
  intro e he
  obtain ⟨hmem, hc⟩ := Entropy.mem_jointCounts.mp he
  exact hc ▸ List.count_pos_iff.mpr hmem

/-- The joint counts add up to the number of aligned pairs. -/
theorem jointCounts_sum (xs ys : List Int) :
    ((jointCounts xs ys).map (·.2)).sum = min xs.length ys.length :=
  Entropy.jointCounts_sum xs ys

/-- For sequences of equal length the joint counts add up to that length. -/
theorem jointCounts_sum_eq (xs ys : List Int) (h : xs.length = ys.length) :
    ((jointCounts xs ys).map (·.2)).sum = xs.length := by
  rw [jointCounts_sum, ← h, Nat.min_self]

/-- Marginals of the joint counts (equal lengths): summing the joint count of `(x, y)` over the symbols
    `y` of `ys` gives the count of `x` in `xs`, and symmetrically. -/
theorem jointCounts_marginals (xs ys : List Int) (h : xs.length = ys.length) :
    (∀ x, ∑ y ∈ ys.toFinset, (xs.zip ys).count (x, y) = xs.count x) ∧
      (∀ y, ∑ x ∈ xs.toFinset, (xs.zip ys).count (x, y) = ys.count y) :=
  ⟨Entropy.marginal_fst xs ys h.le, Entropy.marginal_snd xs ys h.ge⟩

/-! ## 2. The measures are their textbook formulas -/

/-- `shannon_entropy(xs)` is minus the sum, over the distinct symbols `s` of `xs`, of `p log2 p` with
    `p = count(s) / len(xs)` the frequency of `s`. (The Python `+ 0` is harmless.) No hypothesis: for the
    empty sequence both sides are `0`. -/
theorem shannon_def (xs : List Int) :
    shannon realNum xs =
      -∑ s ∈ xs.toFinset,
        ((xs.count s : ℝ) / xs.length) * Real.logb 2 ((xs.count s : ℝ) / xs.length) :=
  Entropy.shannon_eq xs

/-- The symbol frequencies used by `shannon_def` form a probability distribution. -/
theorem shannon_freq_sum (xs : List Int) (hne : xs ≠ []) :
    ∑ s ∈ xs.toFinset, ((xs.count s : ℝ) / xs.length) = 1 := by
  have hn : (xs.length : ℝ) ≠ 0 := by
    exact_mod_cast (List.length_pos_iff.mpr hne).ne'
  rw [← Finset.sum_div, ← Nat.cast_sum, Entropy.sum_toFinset_count, div_self hn]

/-- `joint_shannon_entropy(xs, ys)` is minus the sum, over the distinct aligned pairs `p = (x, y)` of
    `xs.zip ys`, of `q log2 q` with `q = count(p) / n`, `n = len(xs)`. The formula holds as stated for
    any two sequences (the model divides by `len(xs)`); for `len(xs) = len(ys) = n` the `q` are the
    frequencies of the aligned pairs (`joint_freq_sum`). -/
theorem joint_def (xs ys : List Int) :
    jointShannon realNum xs ys =
      -∑ p ∈ (xs.zip ys).toFinset,
        (((xs.zip ys).count p : ℝ) / xs.length) *
          Real.logb 2 (((xs.zip ys).count p : ℝ) / xs.length) := by
  rw [Entropy.joint_eq_prod, ← Finset.sum_subset (Entropy.zip_toFinset_subset xs ys),
    ← Finset.sum_neg_distrib]
  · apply Finset.sum_congr rfl
    intro p _
    ring
  · intro p _ hp
    rw [List.mem_toFinset] at hp
    rw [List.count_eq_zero_of_not_mem hp]
    simp

/-- For sequences of equal non-zero length the pair frequencies used by `joint_def` form a probability
    distribution. -/
theorem joint_freq_sum (xs ys : List Int) (h : xs.length = ys.length) (hne : xs ≠ []) :
    ∑ p ∈ (xs.zip ys).toFinset, (((xs.zip ys).count p : ℝ) / xs.length) = 1 := by
  have hn : (xs.length : ℝ) ≠ 0 := by
    exact_mod_cast (List.length_pos_iff.mpr hne).ne'
  rw [← Finset.sum_div, ← Nat.cast_sum, Entropy.sum_toFinset_count, List.length_zip, ← h,
    Nat.min_self, div_self hn]

/-- `mutual_information(xs, ys) = H(xs) + H(ys) - H(xs, ys)`. This holds by definition of the model
    (the proof is `rfl`); it is listed for completeness and not counted as a result. -/
theorem mi_def (xs ys : List Int) :
    mutualInformation realNum xs ys =
      shannon realNum xs + shannon realNum ys - jointShannon realNum xs ys := rfl

/-! ## 3. Symmetry, non-negativity, `I(X;X) = H(X)` -/

/-- Shannon entropy is non-negative (every term `p log2 p` has `0 < p ≤ 1`). -/
theorem shannon_nonneg (xs : List Int) : 0 ≤ shannon realNum xs := by
  rw [shannon_def, neg_nonneg]
  apply Finset.sum_nonpos
  intro s _
  apply Entropy.mul_logb_nonpos
  · positivity
  · apply div_le_one_of_le₀ _ (Nat.cast_nonneg _)
    exact_mod_cast List.count_le_length

/-- Joint entropy is symmetric for sequences of equal length. The hypothesis is needed: the model
    normalises by the length of its first argument, e.g. `H([0],[0,1]) = 0` but `H([0,1],[0]) = 1/2`. -/
theorem joint_symm (xs ys : List Int) (h : xs.length = ys.length) :
    jointShannon realNum xs ys = jointShannon realNum ys xs := by
  rw [Entropy.joint_eq_prod, Entropy.joint_eq_prod, Finset.sum_product, Finset.sum_product,
    Finset.sum_comm]
  apply Finset.sum_congr rfl
  intro y _
  apply Finset.sum_congr rfl
  intro x _
  rw [Entropy.count_zip_swap xs ys x y, h]

/-- Mutual information is symmetric (sequences of equal length, see `joint_symm`). -/
theorem mi_symm (xs ys : List Int) (h : xs.length = ys.length) :
    mutualInformation realNum xs ys = mutualInformation realNum ys xs := by
  rw [mi_def, mi_def, joint_symm xs ys h]
  ring

/-- The joint entropy of a sequence with itself is its entropy: the aligned pairs are the `(x, x)` and
    the count of `(x, x)` is the count of `x`. -/
theorem joint_self (xs : List Int) : jointShannon realNum xs xs = shannon realNum xs := by
  rw [Entropy.joint_eq_prod, shannon_def, Finset.sum_product, ← Finset.sum_neg_distrib]
  apply Finset.sum_congr rfl
  intro x hx
  rw [Finset.sum_eq_single x]
  · simp [Entropy.count_zip_self]
  · intro y _ hyx
    simp [Entropy.count_zip_self, Ne.symm hyx]
  · intro h; exact absurd hx h

/-- `I(X;X) = H(X)`: mutual information of a sequence with itself is its entropy. -/
theorem mi_self (xs : List Int) : mutualInformation realNum xs xs = shannon realNum xs := by
  rw [mi_def, joint_self]
  ring

/-- Mutual information of two sequences of equal length is non-negative: Gibbs' inequality applied to
    the empirical joint distribution `p(x,y) = count((x,y)) / n`, whose marginals are the symbol
    frequencies of `xs` and of `ys`. -/
theorem mi_nonneg (xs ys : List Int) (h : xs.length = ys.length) :
    0 ≤ mutualInformation realNum xs ys := by
  rcases Nat.eq_zero_or_pos xs.length with h0 | hpos
  · have hx : xs = [] := List.eq_nil_of_length_eq_zero h0
    have hy : ys = [] := List.eq_nil_of_length_eq_zero (h ▸ h0)
    subst hx hy
    rw [mi_self]
    exact shannon_nonneg []
  · have hn : (xs.length : ℝ) ≠ 0 := by exact_mod_cast hpos.ne'
    let p : Int → Int → ℝ := fun x y => ((xs.zip ys).count (x, y) : ℝ) / xs.length
    have hp : ∀ x y, 0 ≤ p x y := fun x y => by positivity
    have hmx : ∀ x, ∑ y ∈ ys.toFinset, p x y = (xs.count x : ℝ) / xs.length := by
      intro x
      simp only [p]
      rw [← Finset.sum_div, ← Nat.cast_sum, Entropy.marginal_fst xs ys h.le x]
    have hmy : ∀ y, ∑ x ∈ xs.toFinset, p x y = (ys.count y : ℝ) / xs.length := by
      intro y
      simp only [p]
      rw [← Finset.sum_div, ← Nat.cast_sum, Entropy.marginal_snd xs ys h.ge y]
    have hsum : ∑ x ∈ xs.toFinset, ∑ y ∈ ys.toFinset, p x y = 1 := by
      simp only [hmx]
      exact shannon_freq_sum xs (List.ne_nil_of_length_pos hpos)
    have g := Entropy.gibbs_logb xs.toFinset ys.toFinset p hp hsum
    simp only [hmx, hmy] at g
    have ej : jointShannon realNum xs ys
        = -∑ x ∈ xs.toFinset, ∑ y ∈ ys.toFinset, p x y * Real.logb 2 (p x y) := by
      rw [Entropy.joint_eq_prod, Finset.sum_product]
      simp only [p, neg_mul, Finset.sum_neg_distrib]
    rw [mi_def, shannon_def, shannon_def, ej, ← h]
    exact g

/-! ## 4. Averages over the cells of an automaton -/

/-- Each cell's time series has one entry per timestep. -/
theorem column_length (ca : List (List Int)) (i : Nat) : (column ca i).length = ca.length := by
  simp [column]

/-- Entry `t` of cell `i`'s series is the state (the integer itself, not its printed digits) of cell
    `i` at time `t`. -/
theorem column_getElem? (ca : List (List Int)) (i t : Nat) :
    (column ca i)[t]? = (ca[t]?).map fun row => row.getD i 0 := by
  simp [column]

/-- `average_cell_entropy(ca)` is the mean over the `N` cells of the Shannon entropy of each cell's
    time series of states. (`N = 0`: the real quotient is `0`.) -/
theorem ace_def (ca : List (List Int)) :
    averageCellEntropy realNum ca =
      (∑ i ∈ Finset.range (numCols ca), shannon realNum (column ca i)) / (numCols ca : ℝ) := by
  unfold averageCellEntropy
  rw [Entropy.realNum_mean, Entropy.sum_map_range]
  simp

/-- `average_mutual_information(ca, d)` raises `ValueError` exactly when `0 < d < T` fails, `T` the
    number of timesteps; `d` ranges over all integers. -/
theorem ami_accept (ca : List (List Int)) (d : Int) :
    averageMutualInformation realNum ca d = .error .ValueError ↔ ¬ (0 < d ∧ d < (ca.length : Int)) := by
  unfold averageMutualInformation
  split <;> simp [*]

/-- For `0 < d < T` the value is the mean over the `N` cells of the mutual information between the
    cell's series without its last `d` states, `(x_0, …, x_{T-1-d})`, and the series without its first
    `d` states, `(x_d, …, x_{T-1})`. -/
theorem ami_def (ca : List (List Int)) (d : Int) (h0 : 0 < d) (hT : d < (ca.length : Int)) :
    averageMutualInformation realNum ca d =
      .ok ((∑ i ∈ Finset.range (numCols ca),
              mutualInformation realNum ((column ca i).take (ca.length - d.toNat))
                ((column ca i).drop d.toNat)) / (numCols ca : ℝ)) := by
  unfold averageMutualInformation
  rw [if_neg (by simp [h0, hT])]
  simp only [column_length]
  rw [Entropy.realNum_mean, Entropy.sum_map_range]
  simp

/-- The two sequences compared by `average_mutual_information` have the same length `T - d`. -/
theorem ami_lengths (s : List Int) (d : Nat) :
    (s.take (s.length - d)).length = s.length - d ∧ (s.drop d).length = s.length - d := by
  simp

/-- Their aligned pairs are `(x_t, x_{t+d})`: every state is paired with the one `d` steps later. -/
theorem ami_pairs (s : List Int) (d t : Nat) (h : t + d < s.length) :
    ((s.take (s.length - d)).zip (s.drop d))[t]? = some (s[t], s[t + d]) := by
  simp only [List.getElem?_zip_eq_some, List.getElem?_take, List.getElem?_drop]
  refine ⟨?_, ?_⟩
  · rw [if_pos (by omega)]; exact List.getElem?_eq_getElem _
  · rw [Nat.add_comm]; exact List.getElem?_eq_getElem _

/-- There are exactly `T - d` such pairs. -/
theorem ami_pairs_length (s : List Int) (d : Nat) :
    ((s.take (s.length - d)).zip (s.drop d)).length = s.length - d := by
  simp

/-- Consequently every per-cell term of `average_mutual_information` is non-negative and symmetric in
    its two arguments. -/
theorem ami_term_nonneg (s : List Int) (d : Nat) :
    0 ≤ mutualInformation realNum (s.take (s.length - d)) (s.drop d) :=
  mi_nonneg _ _ (by simp)

/-- The accepted value is non-negative. -/
theorem ami_nonneg (ca : List (List Int)) (d : Int) (v : ℝ)
    (h : averageMutualInformation realNum ca d = .ok v) : 0 ≤ v := by
  by_cases hd : 0 < d ∧ d < (ca.length : Int)
  · rw [ami_def ca d hd.1 hd.2] at h
    cases h
    apply div_nonneg _ (Nat.cast_nonneg _)
    apply Finset.sum_nonneg
    intro i _
    have := ami_term_nonneg (column ca i) d.toNat
    rwa [column_length] at this
  · rw [(ami_accept ca d).mpr hd] at h
    cases h

/-! ## 5. Non-vacuity: concrete instances -/

private theorem log4 : Real.log 4 = 2 * Real.log 2 := by
  rw [show (4 : ℝ) = 2 ^ 2 by norm_num, Real.log_pow]; norm_num

private theorem log2_ne : Real.log 2 ≠ 0 := (Real.log_pos (by norm_num)).ne'

/-- Four equiprobable symbols carry 2 bits. -/
example : shannon realNum [0, 1, 2, 3] = 2 := by
  simp [shannon, symCounts, distinctSyms, Num.sum, Num.log2, realNum, log4]
  field_simp [log2_ne]
  ring

/-- States are symbols whatever their magnitude, sign or printed width: two equiprobable states carry
    1 bit. -/
example : shannon realNum [10, -200, 10, -200] = 1 := by
  have h : Real.log (2 / 4) = -Real.log 2 := by
    rw [show (2 : ℝ) / 4 = 2⁻¹ by norm_num, Real.log_inv]
  simp [shannon, symCounts, distinctSyms, Num.sum, Num.log2, realNum, h]
  field_simp [log2_ne]
  norm_num

/-- A constant sequence has entropy 0; so has the empty sequence. -/
example : shannon realNum [7, 7, 7] = 0 := by
  simp [shannon, symCounts, distinctSyms, Num.sum, Num.log2, realNum]

example : shannon realNum [] = 0 := by
  simp [shannon, symCounts, distinctSyms, Num.sum, realNum]

/-- `mi_self`, `mi_symm`, `mi_nonneg` apply to concrete data. -/
example : mutualInformation realNum [0, 1, 2, 3] [0, 1, 2, 3] = shannon realNum [0, 1, 2, 3] :=
  mi_self _

example : mutualInformation realNum [0, 1, 0, 1] [5, 5, -6, -6]
    = mutualInformation realNum [5, 5, -6, -6] [0, 1, 0, 1] := mi_symm _ _ rfl

example : 0 ≤ mutualInformation realNum [0, 1, 0, 1] [5, 5, -6, -6] := mi_nonneg _ _ rfl

/-- The counterexample behind the equal-length hypothesis of `joint_symm`. -/
example : jointShannon realNum [0] [0, 1] ≠ jointShannon realNum [0, 1] [0] := by
  simp [jointShannon, jointCounts, distinctSyms, Num.sum, Num.log2, realNum]
  norm_num

example : jointShannon realNum [0] [0, 1] = 0 := by
  simp [jointShannon, jointCounts, distinctSyms, Num.sum, Num.log2, realNum]

example : jointShannon realNum [0, 1] [0] = 1 / 2 := by
  simp [jointShannon, jointCounts, distinctSyms, Num.sum, Num.log2, realNum]
  rw [neg_div, div_self log2_ne]; norm_num

/-- Two perfectly dependent binary series (states `7` and `-3`) share 1 bit. -/
example : mutualInformation realNum [0, 1, 0, 1] [7, -3, 7, -3] = 1 := by
  have h : Real.log (2 / 4) = -Real.log 2 := by
    rw [show (2 : ℝ) / 4 = 2⁻¹ by norm_num, Real.log_inv]
  simp [mutualInformation, jointShannon, jointCounts, shannon, symCounts, distinctSyms, Num.sum,
    Num.log2, realNum, h]
  rw [neg_div, div_self log2_ne]; norm_num

/-- A `2 × 2` automaton: cell 0 has series `0, 1` (1 bit), cell 1 has series `1, 1` (0 bits). -/
example : averageCellEntropy realNum [[0, 1], [1, 1]] = 1 / 2 := by
  simp [averageCellEntropy, Num.mean, numCols, column, List.range, List.range.loop, shannon,
    symCounts, distinctSyms, Num.sum, Num.log2, realNum]
  rw [neg_div, div_self log2_ne]; norm_num

/-- Acceptance of the temporal distance on a `2 × 3` automaton (`T = 2`): `d = 1` only. -/
example : averageMutualInformation realNum [[0, 1, 1], [1, 0, 1]] 0 = .error .ValueError := by
  rw [ami_accept]; decide
example : averageMutualInformation realNum [[0, 1, 1], [1, 0, 1]] 2 = .error .ValueError := by
  rw [ami_accept]; decide
example : averageMutualInformation realNum [[0, 1, 1], [1, 0, 1]] (-1) = .error .ValueError := by
  rw [ami_accept]; decide
example : ∃ v, averageMutualInformation realNum [[0, 1, 1], [1, 0, 1]] 1 = .ok v :=
  ⟨_, ami_def _ 1 (by decide) (by decide)⟩

/-- Shapes `T > N`, `T = N`, `T < N` are all covered by `ace_def` (no hypothesis on the shape);
    e.g. a `3 × 1` automaton whose single cell takes 0, 1, 0. -/
example : numCols [[0], [1], [0]] = 1 ∧ column [[0], [1], [0]] 0 = [0, 1, 0] := by
  decide

end Cpl.C16
