import Cpl.Model.Rules
namespace Cpl.C12
theorem placeholder : True := trivial
end Cpl.C12
