import Cpl.Model.Rules
import Cpl.Spec.Ring
import Cpl.Spec.Torus
import Cpl.Properties.C01
import Cpl.Properties.C02
import Cpl.Lemmas.Async

/-!
# C12 — AsynchronousRule updates exactly the scheduled cell each step

For every duplicate-free update order whose entries are cells of the automaton (a full permutation or
a proper subset), every wrapped rule (stateful: its state is threaded, so "invoked once" is part of the
equalities below), every ring size / grid shape, radius, initial state, step count and every outcome
of the shuffles (`AsyncSt.shuffles` is the oracle for `np.random.shuffle`).

`Spec.seqRun inner r sched` is the sequential evolution: at step number `t` the single cell `sched t`
is overwritten by the wrapped rule's value on its current ring window, everything else is copied.
-/

namespace Cpl.C12
open Cpl Cpl.Spec

variable {σ α : Type}

/-! ## 1D -/

/-- **One step, fixed order.** Starting a step with a fresh counter, the new row is the old row with
    the single cell `c = order[curr]` replaced by the wrapped rule's value for `c`'s current window;
    the wrapped rule is consulted exactly once (its state afterwards is the one that single call
    returns: with `c` and step number `t`); the position advances cyclically, the counter is back at
    zero and the order is unchanged. -/
theorem async_sweep [Inhabited α] (inner : Rule1 σ α) (cells : List α) (r t : Nat) (a : AsyncSt Nat) (s : σ)
    (c : Nat) (hr : r ≤ cells.length) (hnd : a.order.Nodup) (hlt : ∀ x ∈ a.order, x < cells.length)
    (hc : a.order[a.curr]? = some c) (hna : a.numApplied = 0) (hrand : a.randomize = false) :
    Spec.step (asyncRule1 inner) cells r t (a, s)
      = (cells.set c (inner s (window cells r c) c t).1,
         ({ a with curr := (a.curr + 1) % a.order.length }, (inner s (window cells r c) c t).2)) := by
  have hn : a.next = { a with curr := (a.curr + 1) % a.order.length } := by
    apply AsyncSt.ext' <;> simp [AsyncSt.next, hrand, hna]
  rw [step_async inner cells r t a s c hr hnd hlt hc hna (by rw [hn])]
  rw [hn]

/-- The same step read cell by cell: the scheduled cell holds the wrapped rule's value, every other
    cell (listed or not) keeps its state, and the row keeps its length. -/
theorem async_sweep_cells [Inhabited α] (inner : Rule1 σ α) (cells : List α) (r t : Nat) (a : AsyncSt Nat)
    (s : σ) (c : Nat) (hr : r ≤ cells.length) (hnd : a.order.Nodup) (hlt : ∀ x ∈ a.order, x < cells.length)
    (hc : a.order[a.curr]? = some c) (hna : a.numApplied = 0) (hrand : a.randomize = false) :
    (Spec.step (asyncRule1 inner) cells r t (a, s)).1[c]? = some (inner s (window cells r c) c t).1 ∧
    (∀ x, x ≠ c → (Spec.step (asyncRule1 inner) cells r t (a, s)).1[x]? = cells[x]?) ∧
    (Spec.step (asyncRule1 inner) cells r t (a, s)).1.length = cells.length := by
  rw [async_sweep inner cells r t a s c hr hnd hlt hc hna hrand]
  have hcl : c < cells.length := hlt c (List.mem_of_getElem? hc)
  refine ⟨by simp [hcl], ?_, by simp⟩
  intro x hx
  simp only
  rw [List.getElem?_set]
  simp [Ne.symm hx]

/-- **Whole run, fixed order, starting at position 0**: the rows are those of the sequential evolution
    in which step `t` (1-based) touches only the cell `order[(t-1) mod len]`; the wrapped rule's state is
    threaded through exactly these calls; after `k` steps the position is `k mod len`. -/
theorem async_run [Inhabited α] (inner : Rule1 σ α) (cells : List α) (r k : Nat) (a : AsyncSt Nat) (s : σ)
    (hr : r ≤ cells.length) (hnd : a.order.Nodup) (hlt : ∀ x ∈ a.order, x < cells.length)
    (hne : a.order ≠ []) (hcurr : a.curr = 0) (hna : a.numApplied = 0) (hrand : a.randomize = false) :
    Spec.run (asyncRule1 inner) r k 1 cells (a, s)
      = ((seqRun inner r (fun t => a.order[(t - 1) % a.order.length]!) k 1 cells s).1,
         ({ a with curr := k % a.order.length },
          (seqRun inner r (fun t => a.order[(t - 1) % a.order.length]!) k 1 cells s).2)) := by
  have hpos : 0 < a.order.length := List.length_pos_iff.2 hne
  have hsched : (fun t' => a.cellAt (t' - 1)) = fun t => a.order[(t - 1) % a.order.length]! := by
    funext t
    simp [AsyncSt.cellAt, AsyncSt.orderAt, hrand, hcurr]
  have hafter : a.after k = { a with curr := k % a.order.length } := by
    apply AsyncSt.ext' <;> simp [AsyncSt.after, AsyncSt.orderAt, hrand, hna, hcurr]
  have key := run_async inner r cells.length a.order hnd hlt hr k 1 cells a s rfl (List.Perm.refl _)
    (by simp [hrand]) hna (by omega)
  rw [hsched, hafter] at key
  exact key

/-- **`evolve` with a fixed order, row by row.** The evolution has `T` rows starting with `init`;
    row `t` (`1 ≤ t < T`) is row `t-1` with the single cell `order[(t-1) mod len]` overwritten by a
    value of the wrapped rule on row `t-1`'s window of that cell — so it differs from row `t-1` at most
    there — and a cell that is absent from the order holds its initial state in every row. -/
theorem async_run_rows [DecidableEq α] [Inhabited α] (inner : Rule1 σ α) (init : List α) (r T : Nat)
    (a : AsyncSt Nat) (s : σ) (h1 : 1 ≤ r) (hr : r ≤ init.length) (hT : 1 ≤ T) (hnd : a.order.Nodup)
    (hlt : ∀ x ∈ a.order, x < init.length) (hne : a.order ≠ []) (hcurr : a.curr = 0)
    (hna : a.numApplied = 0) (hrand : a.randomize = false) :
    ∃ (rows : List (List α)) (sfin : σ),
      evolveFixed [init] T (asyncRule1 inner) r .plain (a, s)
        = .ok (rows, ({ a with curr := (T - 1) % a.order.length }, sfin)) ∧
      rows.length = T ∧ rows[0]! = init ∧
      (∀ t, 1 ≤ t → t < T → ∃ s' : σ,
        rows[t]! = (rows[t - 1]!).set (a.order[(t - 1) % a.order.length]!)
          (inner s' (window rows[t - 1]! r (a.order[(t - 1) % a.order.length]!))
            (a.order[(t - 1) % a.order.length]!) t).1) ∧
      (∀ t, t < T → ∀ x, x ∉ a.order → (rows[t]!)[x]? = init[x]?) := by
  have hpos : 0 < a.order.length := List.length_pos_iff.2 hne
  refine ⟨init :: (seqRun inner r (fun t => a.order[(t - 1) % a.order.length]!) (T - 1) 1 init s).1,
    (seqRun inner r (fun t => a.order[(t - 1) % a.order.length]!) (T - 1) 1 init s).2, ?_, ?_, ?_, ?_, ?_⟩
  · rw [C01.evolveFixed_plain_eq_spec [init] init rfl T hT _ r h1 hr,
      async_run inner init r (T - 1) a s hr hnd hlt hne hcurr hna hrand]
    rfl
  · simp only [List.length_cons, seqRun_length]; omega
  · rfl
  · intro t ht1 ht2
    obtain ⟨s', hs'⟩ := seqRun_rows inner r (fun t => a.order[(t - 1) % a.order.length]!) (T - 1) 1 init s
      (t - 1) (by omega)
    refine ⟨s', ?_⟩
    have e1 : t - 1 + 1 = t := by omega
    have e2 : 1 + (t - 1) = t := by omega
    rw [e1, e2] at hs'
    exact hs'
  · intro t ht x hx
    cases t with
    | zero => rfl
    | succ t =>
      have hlen := seqRun_length inner r (fun t => a.order[(t - 1) % a.order.length]!) (T - 1) 1 init s
      have hlt' : t < (seqRun inner r (fun t => a.order[(t - 1) % a.order.length]!) (T - 1) 1 init s).1.length := by
        rw [hlen]; omega
      have hrow : (init :: (seqRun inner r (fun t => a.order[(t - 1) % a.order.length]!) (T - 1) 1 init s).1)[t + 1]!
          = (seqRun inner r (fun t => a.order[(t - 1) % a.order.length]!) (T - 1) 1 init s).1[t] := by
        rw [getElem!_pos _ (t + 1) (by simp only [List.length_cons]; omega)]
        rfl
      rw [hrow]
      apply seqRun_unscheduled inner r _ x (T - 1) 1 init s _ _ (List.getElem_mem hlt')
      intro t' _ _ heq
      apply hx
      rw [← heq]
      have hl : (t' - 1) % a.order.length < a.order.length := Nat.mod_lt _ hpos
      rw [getElem!_pos a.order _ hl]
      exact List.getElem_mem hl

/-- **One step with `randomize_each_cycle`.** Whatever order the shuffle produces (any permutation of
    the current one), the step still overwrites exactly the cell scheduled *before* the shuffle,
    consults the wrapped rule once, and ends with the counter at zero, the position advanced, and the
    next shuffle outcome (if the oracle has one) installed as the order. -/
theorem async_shuffle_step [Inhabited α] (inner : Rule1 σ α) (cells : List α) (r t : Nat) (a : AsyncSt Nat)
    (s : σ) (c : Nat) (hr : r ≤ cells.length) (hnd : a.order.Nodup) (hlt : ∀ x ∈ a.order, x < cells.length)
    (hc : a.order[a.curr]? = some c) (hna : a.numApplied = 0) (hrand : a.randomize = true)
    (hsh : ∀ o ∈ a.shuffles, o.Perm a.order) :
    Spec.step (asyncRule1 inner) cells r t (a, s)
      = (cells.set c (inner s (window cells r c) c t).1,
         ({ order := a.shuffles.head?.getD a.order, curr := (a.curr + 1) % a.order.length, numApplied := 0,
            randomize := true, shuffles := a.shuffles.tail },
          (inner s (window cells r c) c t).2)) := by
  have hn : a.next = ⟨a.shuffles.head?.getD a.order, (a.curr + 1) % a.order.length, 0, true, a.shuffles.tail⟩ := by
    apply AsyncSt.ext' <;> simp [AsyncSt.next, hrand]
  rw [step_async inner cells r t a s c hr hnd hlt hc hna
    (next_order_perm a a.order (List.Perm.refl _) (fun _ => hsh)), hn]

/-- **Whole run with `randomize_each_cycle`, for every oracle.** Let `orig` be the original
    duplicate-free order; the current order and all future shuffle outcomes are permutations of it.
    Then the run is the sequential evolution whose step `t'` touches exactly one cell, the listed cell
    at position `(curr + (t'-t)) mod len` of the order in force at that step (the `(t'-t)`-th oracle
    outcome); all other cells keep their state; afterwards the order is still a permutation of `orig`,
    the counter is zero and the position is in range. -/
theorem async_shuffle [Inhabited α] (inner : Rule1 σ α) (orig : List Nat) (cells : List α) (r k t : Nat)
    (a : AsyncSt Nat) (s : σ) (hr : r ≤ cells.length) (hnd : orig.Nodup)
    (hlt : ∀ x ∈ orig, x < cells.length) (ho : a.order.Perm orig)
    (hsh : ∀ o ∈ a.shuffles, o.Perm orig) (hc : a.curr < a.order.length) (hna : a.numApplied = 0)
    (hrand : a.randomize = true) :
    let sched : Nat → Nat := fun t' =>
      ((a.order :: a.shuffles)[min (t' - t) a.shuffles.length]!)[(a.curr + (t' - t)) % a.order.length]!
    let res := Spec.run (asyncRule1 inner) r k t cells (a, s)
    res = ((seqRun inner r sched k t cells s).1,
           ({ order := (a.order :: a.shuffles)[min k a.shuffles.length]!,
              curr := (a.curr + k) % a.order.length, numApplied := 0, randomize := true,
              shuffles := a.shuffles.drop k },
            (seqRun inner r sched k t cells s).2)) ∧
    (∀ t', sched t' ∈ orig) ∧
    res.2.1.order.Perm orig ∧ res.2.1.numApplied = 0 ∧ res.2.1.curr < res.2.1.order.length := by
  intro sched res
  have hne : a.order ≠ [] := List.ne_nil_of_length_pos (by omega)
  have hsched : (fun t' => a.cellAt (t' - t)) = sched := by
    funext t'
    simp [sched, AsyncSt.cellAt, AsyncSt.orderAt, hrand]
  have hafter : a.after k = ⟨(a.order :: a.shuffles)[min k a.shuffles.length]!,
      (a.curr + k) % a.order.length, 0, true, a.shuffles.drop k⟩ := by
    apply AsyncSt.ext' <;> simp [AsyncSt.after, AsyncSt.orderAt, hrand]
  have key : res = _ := run_async inner r cells.length orig hnd hlt hr k t cells a s rfl ho (fun _ => hsh) hna hc
  rw [hsched, hafter] at key
  have hperm : ((a.order :: a.shuffles)[min k a.shuffles.length]!).Perm orig := by
    have := orderAt_perm a orig ho (fun _ => hsh) k
    simpa [AsyncSt.orderAt, hrand] using this
  refine ⟨key, ?_, ?_, ?_, ?_⟩
  · intro t'
    have := cellAt_mem a orig ho (fun _ => hsh) hne (t' - t)
    rw [← hsched]; exact this
  · rw [key]; exact hperm
  · rw [key]
  · rw [key]
    simp only
    rw [hperm.length_eq, ← ho.length_eq]
    exact Nat.mod_lt _ (by omega)

/-! ## 2D -/

/-- **One 2D step, fixed order.** Cell `(i, j)` of the new grid is the wrapped rule's value if `(i, j)`
    is the scheduled cell `order[curr]` and the old state `g[i][j]` (the never-masked centre of its
    neighbourhood) otherwise — for Moore and von Neumann alike; the wrapped rule is consulted once, with
    that cell's torus neighbourhood, `(row, col)` and `t`; position advanced, counter zero, same order. -/
theorem async_sweep2 [Inhabited α] (inner : Rule2 σ α) (g : Grid α) (R C r : Nat) (vn : Bool) (t : Nat)
    (a : AsyncSt (Nat × Nat)) (s : σ) (c : Nat × Nat) (hR : r ≤ R) (hC : r ≤ C) (hnd : a.order.Nodup)
    (hin : ∀ x ∈ a.order, x ∈ cellsRowMajor R C) (hc : a.order[a.curr]? = some c) (hna : a.numApplied = 0)
    (hrand : a.randomize = false) :
    Spec.step2 (asyncRule2 inner) g R C r vn t (a, s)
      = ((List.range R).map (fun i => (List.range C).map fun j =>
            if (i, j) = c then (inner s (nbhd g R C r vn c.1 c.2) c t).1 else (g[i]!)[j]!),
         ({ a with curr := (a.curr + 1) % a.order.length }, (inner s (nbhd g R C r vn c.1 c.2) c t).2)) := by
  have hn : a.next = { a with curr := (a.curr + 1) % a.order.length } := by
    apply AsyncSt.ext' <;> simp [AsyncSt.next, hrand, hna]
  rw [step2_async inner g R C r vn t a s c hR hC hnd hin hc hna (by rw [hn]), hn]

/-- **One 2D step with `randomize_each_cycle`**, for every shuffle outcome: still exactly the cell
    scheduled before the shuffle is overwritten, the wrapped rule is consulted once, and the next
    oracle outcome becomes the order. -/
theorem async_shuffle2 [Inhabited α] (inner : Rule2 σ α) (g : Grid α) (R C r : Nat) (vn : Bool) (t : Nat)
    (a : AsyncSt (Nat × Nat)) (s : σ) (c : Nat × Nat) (hR : r ≤ R) (hC : r ≤ C) (hnd : a.order.Nodup)
    (hin : ∀ x ∈ a.order, x ∈ cellsRowMajor R C) (hc : a.order[a.curr]? = some c) (hna : a.numApplied = 0)
    (hrand : a.randomize = true) (hsh : ∀ o ∈ a.shuffles, o.Perm a.order) :
    Spec.step2 (asyncRule2 inner) g R C r vn t (a, s)
      = ((List.range R).map (fun i => (List.range C).map fun j =>
            if (i, j) = c then (inner s (nbhd g R C r vn c.1 c.2) c t).1 else (g[i]!)[j]!),
         ({ order := a.shuffles.head?.getD a.order, curr := (a.curr + 1) % a.order.length, numApplied := 0,
            randomize := true, shuffles := a.shuffles.tail },
          (inner s (nbhd g R C r vn c.1 c.2) c t).2)) := by
  have hn : a.next = ⟨a.shuffles.head?.getD a.order, (a.curr + 1) % a.order.length, 0, true, a.shuffles.tail⟩ := by
    apply AsyncSt.ext' <;> simp [AsyncSt.next, hrand]
  rw [step2_async inner g R C r vn t a s c hR hC hnd hin hc hna
    (next_order_perm a a.order (List.Perm.refl _) (fun _ => hsh)), hn]

/-- **Whole 2D run, fixed order, starting at position 0**: the grids are those of the sequential
    evolution (`Spec.seqRun2`) in which step `t` (1-based) overwrites only the cell
    `order[(t-1) mod len]` with the wrapped rule's value on its current neighbourhood and copies every
    other cell; the wrapped rule's state is threaded through exactly these calls. -/
theorem async_run2 [Inhabited α] (inner : Rule2 σ α) (g : Grid α) (R C r : Nat) (vn : Bool) (k : Nat)
    (a : AsyncSt (Nat × Nat)) (s : σ) (hR : r ≤ R) (hC : r ≤ C) (hnd : a.order.Nodup)
    (hin : ∀ x ∈ a.order, x ∈ cellsRowMajor R C) (hne : a.order ≠ []) (hcurr : a.curr = 0)
    (hna : a.numApplied = 0) (hrand : a.randomize = false) :
    Spec.run2 (asyncRule2 inner) R C r vn k 1 g (a, s)
      = ((seqRun2 inner R C r vn (fun t => a.order[(t - 1) % a.order.length]!) k 1 g s).1,
         ({ a with curr := k % a.order.length },
          (seqRun2 inner R C r vn (fun t => a.order[(t - 1) % a.order.length]!) k 1 g s).2)) := by
  have hpos : 0 < a.order.length := List.length_pos_iff.2 hne
  have hsched : (fun t' => a.cellAt (t' - 1)) = fun t => a.order[(t - 1) % a.order.length]! := by
    funext t
    simp [AsyncSt.cellAt, AsyncSt.orderAt, hrand, hcurr]
  have hafter : a.after k = { a with curr := k % a.order.length } := by
    apply AsyncSt.ext' <;> simp [AsyncSt.after, AsyncSt.orderAt, hrand, hna, hcurr]
  have key := run2_async inner R C r vn a.order hnd hin hR hC k 1 g a s (List.Perm.refl _)
    (by simp [hrand]) hna (by omega)
  rw [hsched, hafter] at key
  exact key

/-- **`evolve2d` with a fixed order**: for both neighbourhood types, the evolution of an `R × C` grid
    is the initial grid followed by the sequential evolution in which step `t` touches only
    `order[(t-1) mod len]`. -/
theorem async_evolve2d [DecidableEq α] [Inhabited α] (inner : Rule2 σ α) (init : Grid α) (R C r T : Nat)
    (nb : NbType) (a : AsyncSt (Nat × Nat)) (s : σ) (hnb : nb ≠ .unknown) (hg : Rect init R C)
    (hR1 : 1 ≤ R) (hC1 : 1 ≤ C) (hR : r ≤ R) (hC : r ≤ C) (hT : 1 ≤ T) (hnd : a.order.Nodup)
    (hin : ∀ x ∈ a.order, x ∈ cellsRowMajor R C) (hne : a.order ≠ []) (hcurr : a.curr = 0)
    (hna : a.numApplied = 0) (hrand : a.randomize = false) :
    evolve2dFixed [init] T (asyncRule2 inner) r nb .plain (a, s)
      = .ok (init :: (seqRun2 inner R C r (decide (nb = .vonNeumann))
                (fun t => a.order[(t - 1) % a.order.length]!) (T - 1) 1 init s).1,
             ({ a with curr := (T - 1) % a.order.length },
              (seqRun2 inner R C r (decide (nb = .vonNeumann))
                (fun t => a.order[(t - 1) % a.order.length]!) (T - 1) 1 init s).2)) := by
  rw [C02.evolve2dFixed_plain_eq_spec [init] init rfl T hT _ R C r nb hnb hg hR1 hC1 hR hC,
    async_run2 inner init R C r _ (T - 1) a s hR hC hnd hin hne hcurr hna hrand]
  rfl

/-- **Whole 2D run with `randomize_each_cycle`, for every oracle**: as in 1D, every step overwrites
    exactly one listed cell — position `(curr + (t'-t)) mod len` of the order in force at that step —
    and afterwards the order is still a permutation of the original one, the counter is zero and the
    position is in range. -/
theorem async_shuffle_run2 [Inhabited α] (inner : Rule2 σ α) (orig : List (Nat × Nat)) (g : Grid α)
    (R C r : Nat) (vn : Bool) (k t : Nat) (a : AsyncSt (Nat × Nat)) (s : σ) (hR : r ≤ R) (hC : r ≤ C)
    (hnd : orig.Nodup) (hin : ∀ x ∈ orig, x ∈ cellsRowMajor R C) (ho : a.order.Perm orig)
    (hsh : ∀ o ∈ a.shuffles, o.Perm orig) (hc : a.curr < a.order.length) (hna : a.numApplied = 0)
    (hrand : a.randomize = true) :
    let sched : Nat → Nat × Nat := fun t' =>
      ((a.order :: a.shuffles)[min (t' - t) a.shuffles.length]!)[(a.curr + (t' - t)) % a.order.length]!
    let res := Spec.run2 (asyncRule2 inner) R C r vn k t g (a, s)
    res = ((seqRun2 inner R C r vn sched k t g s).1,
           ({ order := (a.order :: a.shuffles)[min k a.shuffles.length]!,
              curr := (a.curr + k) % a.order.length, numApplied := 0, randomize := true,
              shuffles := a.shuffles.drop k },
            (seqRun2 inner R C r vn sched k t g s).2)) ∧
    (∀ t', sched t' ∈ orig) ∧
    res.2.1.order.Perm orig ∧ res.2.1.numApplied = 0 ∧ res.2.1.curr < res.2.1.order.length := by
  intro sched res
  have hne : a.order ≠ [] := List.ne_nil_of_length_pos (by omega)
  have hsched : (fun t' => a.cellAt (t' - t)) = sched := by
    funext t'
    simp [sched, AsyncSt.cellAt, AsyncSt.orderAt, hrand]
  have hafter : a.after k = ⟨(a.order :: a.shuffles)[min k a.shuffles.length]!,
      (a.curr + k) % a.order.length, 0, true, a.shuffles.drop k⟩ := by
    apply AsyncSt.ext' <;> simp [AsyncSt.after, AsyncSt.orderAt, hrand]
  have key : res = _ := run2_async inner R C r vn orig hnd hin hR hC k t g a s ho (fun _ => hsh) hna hc
  rw [hsched, hafter] at key
  have hperm : ((a.order :: a.shuffles)[min k a.shuffles.length]!).Perm orig := by
    have := orderAt_perm a orig ho (fun _ => hsh) k
    simpa [AsyncSt.orderAt, hrand] using this
  refine ⟨key, ?_, ?_, ?_, ?_⟩
  · intro t'
    have := cellAt_mem a orig ho (fun _ => hsh) hne (t' - t)
    rw [← hsched]; exact this
  · rw [key]; exact hperm
  · rw [key]
  · rw [key]
    simp only
    rw [hperm.length_eq, ← ho.length_eq]
    exact Nat.mod_lt _ (by omega)

/-! ## Orders generated from `num_cells` -/

/-- The 1D order generated from `num_cells = n` lists every cell `0 .. n-1` once, and so does every
    shuffle outcome (any permutation of it): duplicate-free, `n` entries, exactly the cells below `n`. -/
theorem init_order_perm (n : Nat) :
    initOrder1 n = List.range n ∧
    ∀ o : List Nat, o.Perm (initOrder1 n) → o.Nodup ∧ o.length = n ∧ ∀ c, c ∈ o ↔ c < n := by
  refine ⟨rfl, ?_⟩
  intro o ho
  refine ⟨ho.nodup_iff.2 List.nodup_range, by rw [ho.length_eq]; simp [initOrder1], ?_⟩
  intro c
  rw [ho.mem_iff]; simp [initOrder1]

/-- The 2D order generated from `num_cells = (R, C)` lists every cell `(i, j)` once in row-major order,
    and every shuffle outcome is a duplicate-free list of exactly the `R·C` cells of the grid. -/
theorem init_order_perm2 (R C : Nat) :
    initOrder2 R C = cellsRowMajor R C ∧
    ∀ o : List (Nat × Nat), o.Perm (initOrder2 R C) →
      o.Nodup ∧ o.length = R * C ∧ ∀ c, c ∈ o ↔ c.1 < R ∧ c.2 < C := by
  refine ⟨rfl, ?_⟩
  intro o ho
  refine ⟨ho.nodup_iff.2 (cellsRowMajor_nodup R C), by rw [ho.length_eq]; exact cellsRowMajor_length R C, ?_⟩
  intro c
  rw [ho.mem_iff]; exact mem_cellsRowMajor R C c

/-! ## Guard witnesses and non-vacuity -/

/-! `probe` / `probe2` (in `Cpl.Lemmas.Async`) are stateful test rules: value = sum of the (unmasked)
neighbourhood + step number; the state counts the invocations. -/

/-- The hypotheses of `async_sweep` hold for a proper-subset order on a ring of 4 cells (`r = 1`):
    only cell 2 changes (6 + 7 + 8 + t), one invocation. -/
example : Spec.step (asyncRule1 probe) [5, 6, 7, 8] 1 3 ({ order := [2, 0] }, 0)
    = ([5, 6, 24, 8], ({ order := [2, 0], curr := 1 }, 1)) := by
  rw [async_sweep probe [5, 6, 7, 8] 1 3 { order := [2, 0] } 0 2 (by decide) (by decide) (by decide) rfl rfl rfl]
  rfl

/-- … and of `async_sweep2` on a 2×3 torus with von Neumann radius 1. -/
example : (Spec.step2 (asyncRule2 probe2) [[1, 2, 3], [4, 5, 6]] 2 3 1 true 1
      ({ order := [(1, 2), (0, 0)] }, 0)).1 = [[1, 2, 3], [4, 5, 6 + 3 + 3 + 5 + 4 + 1]] := by
  rw [async_sweep2 probe2 [[1, 2, 3], [4, 5, 6]] 2 3 1 true 1 { order := [(1, 2), (0, 0)] } 0 (1, 2)
    (by decide) (by decide) (by decide) (by decide) rfl rfl rfl]
  decide

/-- … and of `async_shuffle_step`: the shuffle installs `[0, 2]` but the step still updates cell 2. -/
example : Spec.step (asyncRule1 probe) [5, 6, 7, 8] 1 3
      ({ order := [2, 0], randomize := true, shuffles := [[0, 2]] }, 0)
    = ([5, 6, 24, 8], ({ order := [0, 2], curr := 1, randomize := true, shuffles := [] }, 1)) := by
  rw [async_shuffle_step probe [5, 6, 7, 8] 1 3 { order := [2, 0], randomize := true, shuffles := [[0, 2]] } 0 2
    (by decide) (by decide) (by decide) rfl rfl rfl (by decide)]
  rfl

/-- **Duplicate entry breaks the step**: with `order = [0, 0]` only one listed cell is met per pass, so
    the counter is stuck at 1 (not reset) and the position does not advance. -/
example : (Spec.step (asyncRule1 probe) [5, 6, 7] 1 1 ({ order := [0, 0] }, 0)).2.1.numApplied = 1
    ∧ (Spec.step (asyncRule1 probe) [5, 6, 7] 1 1 ({ order := [0, 0] }, 0)).2.1.curr = 0 := by decide

/-- **Empty order**: nothing is scheduled, the wrapped rule is never consulted, the row is copied, and
    the position runs away (`(curr + 1) % 0` at every cell). -/
example : (Spec.step (asyncRule1 probe) [5, 6, 7] 1 1 ({ order := [] }, 0)).1 = [5, 6, 7]
    ∧ (Spec.step (asyncRule1 probe) [5, 6, 7] 1 1 ({ order := [] }, 0)).2.2 = 0
    ∧ (Spec.step (asyncRule1 probe) [5, 6, 7] 1 1 ({ order := [] }, 0)).2.1.curr = 3 := by decide

/-- **An entry that is not a cell** (`7` on a ring of 3): the counter never reaches the length. -/
example : (Spec.step (asyncRule1 probe) [5, 6, 7] 1 1 ({ order := [1, 7] }, 0)).2.1.numApplied = 1 := by decide

end Cpl.C12
