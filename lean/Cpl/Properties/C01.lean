import Cpl.Model.Evolve1D
namespace Cpl.C01
theorem placeholder : True := trivial
end Cpl.C01
