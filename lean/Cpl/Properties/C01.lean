import Cpl.Spec.Ring
import Cpl.Lemmas.Evolve1D
import Cpl.Lemmas.Equivariance

/-!
# C01 — 1D evolution is the synchronous update of a ring

For all ring sizes `N ≥ 1`, radii `1 ≤ r ≤ N`, states over any type, step counts `T ≥ 1` and all
rule callables (pure, index- or time-dependent, or stateful: the rule state `σ` is threaded through the
calls in the order the code makes them, so equality with `Spec.run` *is* the call-order contract).
-/

namespace Cpl.C01
open Cpl Cpl.Spec

variable {σ α : Type}

/-- **The strided index table is the ring window**: row `c`, column `j` is `(c - r + j) mod N`. -/
theorem indexStrides_spec (N r c j : Nat) (h1 : 1 ≤ r) (h2 : r ≤ N) (hc : c < N) (hj : j < 2 * r + 1) :
    (indexStrides N r)[c]?.bind (·[j]?) = some ((c + j + N - r) % N) := by
  rw [indexStrides_eq_ring N r h1 h2, List.getElem?_map, List.getElem?_range hc]
  simp only [Option.map_some, Option.bind_some]
  rw [List.getElem?_map, List.getElem?_range hj]
  rfl

theorem indexStrides_length (N r : Nat) (h1 : 1 ≤ r) (h2 : r ≤ N) :
    (indexStrides N r).length = N := by
  rw [indexStrides_eq_ring N r h1 h2]; simp

/-- **`cells[strides]` are the ring windows** of cells `0 .. N-1`, in order. -/
theorem neighbourhoods_eq_windows [Inhabited α] (cells : List α) (r : Nat) (h1 : 1 ≤ r)
    (h2 : r ≤ cells.length) :
    neighbourhoods cells r = (List.range cells.length).map (window cells r) := by
  exact neighbourhoods_eq_map_window cells r h1 h2

theorem window_length [Inhabited α] (cells : List α) (r c : Nat) : (window cells r c).length = 2 * r + 1 := by
  exact window_length' cells r c

/-- The cell's own state sits in the middle of its window. -/
theorem window_centre [Inhabited α] (cells : List α) (r c : Nat) (h2 : r ≤ cells.length) (hc : c < cells.length) :
    (window cells r c)[r]? = some cells[c]! := by
  unfold window
  rw [List.getElem?_map, List.getElem?_range (by omega)]
  simp only [Option.map_some]
  have : (c + r + cells.length - r) % cells.length = c := by
    have : c + r + cells.length - r = c + cells.length := by omega
    rw [this, Nat.add_mod_right, Nat.mod_eq_of_lt hc]
  rw [this]

/-- **One unmemoized step is the synchronous ring update**, for every stateful rule: the rule is
    consulted once per cell, cells ascending, with `(window, c, t)`, its state threaded in that order. -/
theorem step1_plain_eq_spec [DecidableEq α] [Inhabited α] (rule : Rule1 σ α) (r : Nat) (cells : List α)
    (t : Nat) (cs : Caches α) (s : σ) (h1 : 1 ≤ r) (h2 : r ≤ cells.length) :
    step1 .plain rule r cells t cs s = ((step rule cells r t s).1, cs, (step rule cells r t s).2) := by
  exact step1_plain rule r cells t cs s h1 h2

theorem step_length [Inhabited α] (rule : Rule1 σ α) (cells : List α) (r t : Nat) (s : σ) :
    (step rule cells r t s).1.length = cells.length := by
  exact spec_step_length rule cells r t s

/-- **`evolve` with memoization off equals the specification run**: the given history followed by
    `T-1` synchronous ring updates with step numbers `1, 2, …`, for every stateful rule. -/
theorem evolveFixed_plain_eq_spec [DecidableEq α] [Inhabited α] (hist : List (List α)) (init : List α)
    (hlast : hist.getLast? = some init) (T : Nat) (hT : 1 ≤ T) (rule : Rule1 σ α) (r : Nat)
    (h1 : 1 ≤ r) (h2 : r ≤ init.length) (s : σ) :
    evolveFixed hist T rule r .plain s
      = .ok (hist ++ (run rule r (T - 1) 1 init s).1, (run rule r (T - 1) 1 init s).2) := by
  unfold evolveFixed
  rw [hlast]
  have hT0 : ¬ T = 0 := by omega
  simp only [hT0, if_false, reduceCtorEq, and_false]
  rw [fixedLoop_plain rule r h1 (T - 1) 1 init Caches.empty s h2]

/-- Every new row has `N` cells and there are exactly `T-1` of them. -/
theorem run_shape [Inhabited α] (rule : Rule1 σ α) (r k t : Nat) (cells : List α) (s : σ) :
    (run rule r k t cells s).1.length = k ∧ ∀ row ∈ (run rule r k t cells s).1, row.length = cells.length := by
  exact ⟨run_length rule r k t cells s, run_row_length rule r k t cells s⟩

/-- **The call trace**: instrumenting any rule with a recorder, the recorded calls of a run are
    exactly one per cell per step — cells in ascending order, steps in ascending order starting at
    `t`, each with the ring window of the previous row — and the rows are those of the
    uninstrumented run. -/
theorem run_logged [Inhabited α] (rule : Rule1 σ α) (r k t : Nat) (cells : List α) (s : σ)
    (log : List (List α × Nat × Nat)) :
    run (logged rule) r k t cells (s, log)
      = ((run rule r k t cells s).1,
         ((run rule r k t cells s).2, log ++ callsOfRows r t cells (run rule r k t cells s).1)) := by
  exact run_logged' rule r k t cells s log

/-- Number of rule invocations: exactly `N · k` for `k` steps. -/
theorem callsOfRows_length [Inhabited α] (r t : Nat) (cells : List α) (rows : List (List α))
    (h : ∀ row ∈ rows, row.length = cells.length) :
    (callsOfRows r t cells rows).length = cells.length * rows.length := by
  exact callsOfRows_length' r t cells rows h

/-! ## Guard witnesses: outside `1 ≤ r ≤ N` the construction is not the ring window -/

/-- `r = 0`: `arr[-0:]` is the whole array, so there are `2N` one-cell windows. -/
example : indexStrides 3 0 = [[0], [1], [2], [0], [1], [2]] := by decide
/-- `r > N`: too few windows. -/
example : (indexStrides 2 3).length = 0 := by decide

/-! ## Non-vacuity: hypotheses satisfiable, window wraps twice when `N = r` -/
example : indexStrides 3 3 = [[0, 1, 2, 0, 1, 2, 0], [1, 2, 0, 1, 2, 0, 1], [2, 0, 1, 2, 0, 1, 2]] := by decide
example : window [10, 20, 30] 3 1 = [20, 30, 10, 20, 30, 10, 20] := by decide
example : window [1, 2, 3, 4, 5] 2 0 = [4, 5, 1, 2, 3] := by decide

end Cpl.C01

/-! ## Translation equivariance (periodic boundary)

Because positions are taken modulo `N`, rotating the ring commutes with the synchronous update, for
every pure rule `f`, every radius `r ≤ N` and every rotation amount `k` (also `k ≥ N`: `rotateLeft`
reduces `k` modulo `N`). The rotation is core `List.rotateLeft` (left rotation: position `c` of
`cells.rotateLeft k` holds `cells[(c + k) % N]`). The `evolve`-level corollary is `C03.evolve_rotate`
(it needs the mode-independence theorem of C03, which imports this file). -/

namespace Cpl.C01
open Cpl Cpl.Spec

variable {α : Type}

/-- Left rotation by positions: position `c` receives the content of position `(c + k) mod N`. -/
theorem rotateLeft_getElem? (cells : List α) (k c : Nat) (hc : c < cells.length) :
    (cells.rotateLeft k)[c]? = cells[(c + k) % cells.length]? := by
  exact Equivariance.getElem?_rotateLeft cells k c hc

theorem rotateLeft_length (cells : List α) (k : Nat) : (cells.rotateLeft k).length = cells.length := by
  exact Equivariance.length_rotateLeft cells k

/-- **The window of a rotated ring** is the window of the original ring at the rotated position
    (for every `c`, also on the empty ring; `r ≤ N` makes the wrap subtraction exact). -/
theorem window_rotate [Inhabited α] (cells : List α) (r k c : Nat) (hr : r ≤ cells.length) :
    window (cells.rotateLeft k) r c = window cells r ((c + k) % cells.length) := by
  exact Equivariance.window_rotate cells r k c hr

/-- **One synchronous step commutes with rotation**, for every pure rule. -/
theorem pureStep_rotate [Inhabited α] (f : List α → α) (cells : List α) (r k : Nat)
    (hr : r ≤ cells.length) :
    pureStep f r (cells.rotateLeft k) = (pureStep f r cells).rotateLeft k := by
  exact Equivariance.pureStep_rotate f cells r k hr

/-- **The whole run commutes with rotation**: every row of the run from the rotated ring is the
    rotated row of the run from the original ring. -/
theorem pureRun_rotate [Inhabited α] (f : List α → α) (r k n : Nat) (cells : List α)
    (hr : r ≤ cells.length) :
    pureRun f r n (cells.rotateLeft k) = (pureRun f r n cells).map (·.rotateLeft k) := by
  exact Equivariance.pureRun_rotate f r k n cells hr

/-! ### Non-vacuity (an asymmetric rule: left neighbour + 2 · own state, on a ring of 5) -/
example : [1, 2, 3, 4, 5].rotateLeft 2 = [3, 4, 5, 1, 2] ∧ [1, 2, 3, 4, 5].rotateLeft 7 = [3, 4, 5, 1, 2] := by
  decide
example : pureStep (fun n : List Nat => n[0]! + 2 * n[1]!) 1 [1, 0, 0, 1, 0] = [2, 1, 0, 2, 1] ∧
    pureStep (fun n : List Nat => n[0]! + 2 * n[1]!) 1 ([1, 0, 0, 1, 0].rotateLeft 2) = [0, 2, 1, 2, 1] ∧
    [2, 1, 0, 2, 1].rotateLeft 2 = [0, 2, 1, 2, 1] := by decide
example : pureRun (fun n : List Nat => (n[0]! + 2 * n[1]!) % 3) 1 3 ([1, 0, 0, 1, 0].rotateLeft 7)
    = (pureRun (fun n : List Nat => (n[0]! + 2 * n[1]!) % 3) 1 3 [1, 0, 0, 1, 0]).map (·.rotateLeft 7) := by
  decide
/-- window wrapping more than once (`r = N = 3`), rotated -/
example : window ([10, 20, 30].rotateLeft 1) 3 0 = window [10, 20, 30] 3 1 := by decide
/-- `r ≤ N` is needed: for `r > N` the truncated subtraction breaks the symmetry. -/
example : window ([10, 20].rotateLeft 1) 5 0 ≠ window [10, 20] 5 1 := by decide

end Cpl.C01
