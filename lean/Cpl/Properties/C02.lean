import Cpl.Spec.Torus
import Cpl.Lemmas.Evolve2D
import Cpl.Lemmas.Equivariance

/-!
# C02 — 2D evolution is the synchronous update of a torus (Moore / von Neumann)

For all grid shapes `R × C ≥ 1 × 1` (square or not), radii `0 ≤ r ≤ min(R, C)`, both neighbourhood
types, all grids and all rule callables (pure, cell- or time-dependent, or stateful: the rule state
is threaded through the calls in the order the code makes them).
-/

namespace Cpl.C02
open Cpl Cpl.Spec Py

variable {σ α : Type}

/-- **Index wrap**: the index list the code builds for an axis of length `n` (high side wrapped by
    subtraction, low side left negative for NumPy) resolves to positions `start - r + k` modulo `n`. -/
theorem axisIdx_resolve (n start len r k : Nat) (hr : r ≤ n) (hb : start + len ≤ n) (hk : k < len + 2 * r) :
    ((axisIdx n start len r)[k]?).map (resolve n) = some ((start + k + n - r) % n) := by
  exact axisIdx_getElem?_resolve n start len r k hr hb hk

theorem axisIdx_length (n start len r : Nat) : (axisIdx n start len r).length = len + 2 * r := by
  exact axisIdx_length' n start len r

/-- **The von Neumann mask** masks exactly the positions at Manhattan distance greater than `r`
    from the centre — for every radius, including `r = 0` (nothing masked). -/
theorem vonNeumannMask_spec (r i j : Nat) (hi : i < 2 * r + 1) (hj : j < 2 * r + 1) :
    ((vonNeumannMask r)[i]?.bind (·[j]?)) = some (decide (dist i r + dist j r > r)) := by
  rw [vonNeumannMask_eq, List.getElem?_map, List.getElem?_range hi]
  simp only [Option.map_some, Option.bind_some]
  rw [List.getElem?_map, List.getElem?_range hj]
  rfl

/-- **The neighbourhood handed to the rule is the torus block** centred on the cell (masked for von Neumann). -/
theorem getNeighbourhood_spec [Inhabited α] (g : Grid α) (R C r : Nat) (vn : Bool) (row col : Nat)
    (hg : Rect g R C) (hR : r ≤ R) (hC : r ≤ C) (hrow : row < R) (hcol : col < C) :
    getNeighbourhood g r vn row col = nbhd g R C r vn row col := by
  exact getNeighbourhood_eq_nbhd g R C r vn row col hg hR hC hrow hcol

/-- The cell's own state is the centre of its block and is never masked. -/
theorem nbhd_centre [Inhabited α] (g : Grid α) (R C r : Nat) (vn : Bool) (row col : Nat)
    (hR : r ≤ R) (hC : r ≤ C) (hrow : row < R) (hcol : col < C) :
    ((nbhd g R C r vn row col)[r]?.bind (·[r]?)) = some (some ((g[row]!)[col]!)) := by
  have _ := hC
  unfold nbhd
  rw [List.getElem?_map, List.getElem?_range (by omega)]
  simp only [Option.map_some, Option.bind_some]
  rw [List.getElem?_map, List.getElem?_range (by omega)]
  have h1 : (row + r + R - r) % R = row := by
    have : row + r + R - r = row + R := by omega
    rw [this, Nat.add_mod_right, Nat.mod_eq_of_lt hrow]
  have h2 : (col + r + C - r) % C = col := by
    have : col + r + C - r = col + C := by omega
    rw [this, Nat.add_mod_right, Nat.mod_eq_of_lt hcol]
  have h3 : ¬ ((vn = true) ∧ dist r r + dist r r > r) := by
    simp [dist]
  simp only [Option.map_some, h1, h2, h3, if_false]

/-- **One unmemoized step is the synchronous torus update**: cells visited once each in row-major
    order with `(block, (row, col), t)`, for every stateful rule; the result is an `R × C` grid. -/
theorem step2_plain_eq_spec [DecidableEq α] [Inhabited α] (rule : Rule2 σ α) (g : Grid α) (R C r : Nat)
    (vn : Bool) (t : Nat) (cs : Caches2 α) (s : σ) (hg : Rect g R C) (hR1 : 1 ≤ R) (hC1 : 1 ≤ C)
    (hR : r ≤ R) (hC : r ≤ C) :
    Cpl.step2 .plain rule r vn g t cs s
      = ((Spec.step2 rule g R C r vn t s).1, cs, (Spec.step2 rule g R C r vn t s).2) := by
  have _ := hC1
  exact step2_plain rule g R C r vn t cs s hg hR1 hR hC

theorem step2_rect [Inhabited α] (rule : Rule2 σ α) (g : Grid α) (R C r : Nat) (vn : Bool) (t : Nat) (s : σ) :
    Rect (Spec.step2 rule g R C r vn t s).1 R C := by
  exact spec_step2_rect rule g R C r vn t s

/-- **`evolve2d` with memoization off equals the specification run** for both known neighbourhood types. -/
theorem evolve2dFixed_plain_eq_spec [DecidableEq α] [Inhabited α] (hist : List (Grid α)) (init : Grid α)
    (hlast : hist.getLast? = some init) (T : Nat) (hT : 1 ≤ T) (rule : Rule2 σ α) (R C r : Nat)
    (nb : NbType) (hnb : nb ≠ .unknown) (hg : Rect init R C) (hR1 : 1 ≤ R) (hC1 : 1 ≤ C) (hR : r ≤ R)
    (hC : r ≤ C) (s : σ) :
    evolve2dFixed hist T rule r nb .plain s
      = .ok (hist ++ (run2 rule R C r (decide (nb = .vonNeumann)) (T - 1) 1 init s).1,
             (run2 rule R C r (decide (nb = .vonNeumann)) (T - 1) 1 init s).2) := by
  have _ := hC1
  unfold evolve2dFixed
  rw [hlast]
  have hT0 : ¬ T = 0 := by omega
  simp only [hT0, if_false, hnb, reduceCtorEq, and_false]
  rw [fixedLoop2_plain rule R C r (decide (nb = .vonNeumann)) hR1 hR hC (T - 1) 1 init Caches2.empty s hg]

/-- An unknown neighbourhood type is rejected with `ValueError` as soon as a step is taken. -/
theorem unknown_neighbourhood_rejected [DecidableEq α] [Inhabited α] (hist : List (Grid α)) (init : Grid α)
    (hlast : hist.getLast? = some init) (T : Nat) (rule : Rule2 σ α) (r : Nat) (mode : Mode) (s : σ) :
    (2 ≤ T → evolve2dFixed hist T rule r .unknown mode s = .error .ValueError) ∧
    evolve2dFixed hist 1 rule r .unknown mode s = .ok (hist, s) := by
  constructor
  · intro h2
    unfold evolve2dFixed
    rw [hlast]
    have hT0 : ¬ T = 0 := by omega
    simp [hT0, h2]
  · unfold evolve2dFixed
    rw [hlast]
    simp [fixedLoop2]

/-- **Call trace**: with a recorder around any rule, the calls of one step are exactly one per cell in
    row-major order, each with the torus neighbourhood of the previous grid, the cell `(row, col)` and `t`. -/
theorem step2_logged [Inhabited α] (rule : Rule2 σ α) (g : Grid α) (R C r : Nat) (vn : Bool) (t : Nat) (s : σ)
    (log : List (Nbhd2 α × (Nat × Nat) × Nat)) :
    Spec.step2 (logged2 rule) g R C r vn t (s, log)
      = ((Spec.step2 rule g R C r vn t s).1,
         ((Spec.step2 rule g R C r vn t s).2,
          log ++ (cellsRowMajor R C).map fun c => (nbhd g R C r vn c.1 c.2, c, t))) := by
  simp only [Spec.step2]
  rw [cellVals_logged rule g R C r vn t]

theorem cellsRowMajor_spec (R C : Nat) :
    (cellsRowMajor R C).length = R * C ∧
    ∀ i j, i < R → j < C → (cellsRowMajor R C)[i * C + j]? = some (i, j) := by
  exact ⟨cellsRowMajor_length R C, cellsRowMajor_getElem? R C⟩

/-! ## Guard witnesses and non-vacuity -/
example : vonNeumannMask 0 = [[false]] := by decide
example : vonNeumannMask 1 = [[true, false, true], [false, false, false], [true, false, true]] := by decide
example : (vonNeumannMask 2).map (·.map fun b => if b then 1 else 0)
    = [[1,1,0,1,1],[1,0,0,0,1],[0,0,0,0,0],[1,0,0,0,1],[1,1,0,1,1]] := by decide
/-- a 2×3 grid with `r = 2 = R`: the row axis wraps more than once -/
example : torusWindow [[1, 2, 3], [4, 5, 6]] 2 3 2 0 0
    = [[2, 3, 1, 2, 3], [5, 6, 4, 5, 6], [2, 3, 1, 2, 3], [5, 6, 4, 5, 6], [2, 3, 1, 2, 3]] := by decide
example : blockAt [[1, 2, 3], [4, 5, 6]] 2 0 0 = torusWindow [[1, 2, 3], [4, 5, 6]] 2 3 2 0 0 := by decide

end Cpl.C02

/-! ## Translation equivariance (periodic boundary)

Because positions are taken modulo `R` and `C`, translating the torus commutes with the synchronous
update, for every pure rule `f`, both neighbourhood types, every radius `r ≤ min(R, C)` and every
offset `(dx, dy)` (also `dx ≥ R`, `dy ≥ C`: offsets act modulo the shape).
Convention: cell `(i, j)` of `shift2 R C dx dy g` is cell `((i + dx) mod R, (j + dy) mod C)` of `g`,
i.e. the content moves up by `dx` rows and left by `dy` columns — `rotateLeft` on both axes
(`shift2_eq_rotateLeft`). The `evolve2d`-level corollary is `C04.evolve2d_shift` (it needs the
mode-independence theorem of C04, which imports this file). -/

namespace Cpl.C02
open Cpl Cpl.Spec

variable {α : Type}

/-- Translation of the torus by `(dx, dy)`. -/
abbrev shift2 [Inhabited α] (R C dx dy : Nat) (g : Grid α) : Grid α := Equivariance.shift2 R C dx dy g

/-- The defining property: cell `(i, j)` of the shifted grid. -/
theorem shift2_cell [Inhabited α] (R C dx dy : Nat) (g : Grid α) (i j : Nat) (hi : i < R) (hj : j < C) :
    ((shift2 R C dx dy g)[i]!)[j]! = (g[(i + dx) % R]!)[(j + dy) % C]! := by
  exact Equivariance.shift2_cell R C dx dy g hi hj

theorem shift2_rect [Inhabited α] (R C dx dy : Nat) (g : Grid α) : Rect (shift2 R C dx dy g) R C := by
  exact Equivariance.shift2_rect R C dx dy g

/-- On a rectangular grid the translation is `rotateLeft` of the rows and of the list of rows. -/
theorem shift2_eq_rotateLeft [Inhabited α] (R C dx dy : Nat) (g : Grid α) (hg : Rect g R C) :
    shift2 R C dx dy g = (g.map (·.rotateLeft dy)).rotateLeft dx := by
  exact Equivariance.shift2_eq_rotateLeft R C dx dy g hg

/-- **The neighbourhood in a translated torus** is the neighbourhood of the original torus at the
    translated cell, masked (von Neumann) or not (Moore); for every `(i, j)` and every grid `g`. -/
theorem nbhd_shift [Inhabited α] (g : Grid α) (R C r dx dy : Nat) (vn : Bool) (i j : Nat)
    (hR1 : 1 ≤ R) (hC1 : 1 ≤ C) (hR : r ≤ R) (hC : r ≤ C) :
    nbhd (shift2 R C dx dy g) R C r vn i j = nbhd g R C r vn ((i + dx) % R) ((j + dy) % C) := by
  exact Equivariance.nbhd_shift g R C r dx dy vn i j hR1 hC1 hR hC

theorem torusWindow_shift [Inhabited α] (g : Grid α) (R C r dx dy : Nat) (i j : Nat)
    (hR1 : 1 ≤ R) (hC1 : 1 ≤ C) (hR : r ≤ R) (hC : r ≤ C) :
    torusWindow (shift2 R C dx dy g) R C r i j = torusWindow g R C r ((i + dx) % R) ((j + dy) % C) := by
  exact Equivariance.torusWindow_shift g R C r dx dy i j hR1 hC1 hR hC

/-- **One synchronous torus step commutes with translation**, for every pure rule. -/
theorem pureStep2_shift [Inhabited α] (f : Nbhd2 α → α) (g : Grid α) (R C r dx dy : Nat) (vn : Bool)
    (hR1 : 1 ≤ R) (hC1 : 1 ≤ C) (hR : r ≤ R) (hC : r ≤ C) :
    pureStep2 f R C r vn (shift2 R C dx dy g) = shift2 R C dx dy (pureStep2 f R C r vn g) := by
  exact Equivariance.pureStep2_shift f g R C r dx dy vn hR1 hC1 hR hC

/-- **The whole run commutes with translation**: every grid of the run from the translated torus is
    the translated grid of the run from the original torus. -/
theorem pureRun2_shift [Inhabited α] (f : Nbhd2 α → α) (R C r dx dy : Nat) (vn : Bool) (n : Nat)
    (g : Grid α) (hR1 : 1 ≤ R) (hC1 : 1 ≤ C) (hR : r ≤ R) (hC : r ≤ C) :
    pureRun2 f R C r vn n (shift2 R C dx dy g) = (pureRun2 f R C r vn n g).map (shift2 R C dx dy) := by
  exact Equivariance.pureRun2_shift f R C r dx dy vn n g hR1 hC1 hR hC

/-! ### Non-vacuity (an asymmetric rule: north + 2 · east, on a 2×3 torus; offsets beyond the shape) -/
example : shift2 2 3 1 2 [[1, 2, 3], [4, 5, 6]] = [[6, 4, 5], [3, 1, 2]] ∧
    shift2 2 3 3 5 [[1, 2, 3], [4, 5, 6]] = [[6, 4, 5], [3, 1, 2]] := by decide
example : pureStep2 (fun n : Nbhd2 Nat => ((n[0]!)[1]!).getD 9 + 2 * ((n[1]!)[2]!).getD 9) 2 3 1 true
      [[1, 2, 3], [4, 5, 6]] = [[8, 11, 8], [11, 14, 11]] ∧
    pureStep2 (fun n : Nbhd2 Nat => ((n[0]!)[1]!).getD 9 + 2 * ((n[1]!)[2]!).getD 9) 2 3 1 true
      (shift2 2 3 1 2 [[1, 2, 3], [4, 5, 6]]) = shift2 2 3 1 2 [[8, 11, 8], [11, 14, 11]] := by decide
example : pureRun2 (fun n : Nbhd2 Nat => (((n[0]!)[1]!).getD 9 + 2 * ((n[1]!)[2]!).getD 9) % 5) 2 3 1 false 2
      (shift2 2 3 3 5 [[1, 2, 3], [4, 5, 6]])
    = (pureRun2 (fun n : Nbhd2 Nat => (((n[0]!)[1]!).getD 9 + 2 * ((n[1]!)[2]!).getD 9) % 5) 2 3 1 false 2
        [[1, 2, 3], [4, 5, 6]]).map (shift2 2 3 3 5) := by decide
/-- `r ≤ R` is needed: for `r > R` the truncated subtraction breaks the symmetry. -/
example : torusWindow (shift2 1 2 0 1 [[10, 20]]) 1 2 5 0 0 ≠ torusWindow [[10, 20]] 1 2 5 0 1 := by decide

end Cpl.C02
