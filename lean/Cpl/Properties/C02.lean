import Cpl.Model.Evolve2D
namespace Cpl.C02
theorem placeholder : True := trivial
end Cpl.C02
