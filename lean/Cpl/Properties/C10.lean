import Cpl.Model.Block
import Cpl.Lemmas.Block

/-!
# C10 — block automata: exact alternating partition, one rule call per block

For all block sizes `b ≥ 1` and ring sizes `N` that are multiples of `b` (1D), all `(b0, b1)` and
grids whose sides are multiples (2D), all states, all (stateful) block rules, all step counts.
-/

namespace Cpl.C10
open Cpl Cpl.Block

variable {σ α : Type}

/-! ## 1D: the partition -/

/-- **Odd steps**: consecutive blocks of `b` cells aligned with cell 0: block `k` is `[k·b, …, k·b + b - 1]`. -/
theorem blockIndicesOdd_spec (N b : Nat) (hb : 1 ≤ b) (hdiv : N % b = 0) :
    blockIndicesOdd N b = (List.range (N / b)).map fun k => (List.range b).map fun j => k * b + j := by
  exact blockIndicesOdd_eq N b hb hdiv

/-- **Even steps**: the same blocks offset cyclically by one cell: block `k` is
    `[(k·b + j + N - 1) mod N | j < b]`, i.e. it starts at cell `N-1`. -/
theorem blockIndicesEven_spec (N b : Nat) (hb : 1 ≤ b) (hdiv : N % b = 0) :
    blockIndicesEven N b
      = (List.range (N / b)).map fun k => (List.range b).map fun j => (k * b + j + N - 1) % N := by
  exact blockIndicesEven_eq N b hb hdiv

/-- **Every cell belongs to exactly one block per step** (both partitions are permutations of `0 .. N-1`). -/
theorem blocks_partition (N b : Nat) (hb : 1 ≤ b) (hdiv : N % b = 0) :
    (blockIndicesOdd N b).flatten.Perm (List.range N) ∧ (blockIndicesEven N b).flatten.Perm (List.range N) := by
  constructor
  · rw [blockIndicesOdd_flatten N b hb hdiv]
  · rw [blockIndicesEven_flatten N b hb hdiv]; exact rotated_perm N

/-! ## 1D: one call per block, result written back to the same cells -/

/-- The rule consulted once per block, in block order, with that block's states and `t`;
    returns the results in block order (state threaded). -/
def blockResults [Inhabited α] (rule : BlockRule1 σ α) (cells : List α) (t : Nat) :
    List (List Nat) → σ → List (List α) × σ
  | [], s => ([], s)
  | stride :: rest, s =>
    let (res, s1) := rule s (stride.map fun i => cells[i]!) t
    let (rs, s2) := blockResults rule cells t rest s1
    (res :: rs, s2)

/-- The partition used at step `t`. -/
def stridesAt (N b t : Nat) : List (List Nat) := if t % 2 = 0 then blockIndicesEven N b else blockIndicesOdd N b

/-- `blockResults` coincides with its twin `sweepResults` used in the helper lemmas. -/
theorem blockResults_eq_sweepResults [Inhabited α] (rule : BlockRule1 σ α) (cells : List α) (t : Nat)
    (strides : List (List Nat)) (s : σ) :
    blockResults rule cells t strides s = sweepResults rule cells t strides s := by
  induction strides generalizing s with
  | nil => rfl
  | cons st rest ih => simp only [blockResults, sweepResults, ih]

/-- **One step**: the rule is called once per block of the step's partition (block order, state threaded),
    and each result is written back to the cells of its own block: cell `strides[k][j]` receives `results[k][j]`. -/
theorem blockStep1_spec [Inhabited α] (rule : BlockRule1 σ α) (b : Nat) (cells : List α) (t : Nat) (s : σ)
    (hb : 1 ≤ b) (hdiv : cells.length % b = 0)
    (hlen : ∀ s' blk t', blk.length = b → (rule s' blk t').1.length = b) :
    let strides := stridesAt cells.length b t
    let rs := blockResults rule cells t strides s
    (blockStep1 rule b cells t s).2 = rs.2 ∧
    (blockStep1 rule b cells t s).1.length = cells.length ∧
    ∀ k j, k < strides.length → j < b →
      (blockStep1 rule b cells t s).1[(strides[k]!)[j]!]! = (rs.1[k]!)[j]! := by
  intro strides rs
  have hst : strides = stepStrides cells.length b t := rfl
  have hrs : rs = sweepResults rule cells t (stepStrides cells.length b t) s := by
    show blockResults rule cells t (stridesAt cells.length b t) s = _
    rw [blockResults_eq_sweepResults]; rfl
  obtain ⟨h1, h2, h3, _⟩ := blockStep1_eq rule b cells t s hb hdiv (fun s' blk hl => hlen s' blk t hl)
  rw [← hrs, ← hst] at h3
  rw [← hrs] at h1
  refine ⟨h1, h2, ?_⟩
  intro k j hk hj
  have hkl : (strides[k]).length = b := stepStrides_length cells.length b t hb hdiv _ (hst ▸ List.getElem_mem hk)
  have hk' : k < rs.1.length := by rw [← h3]; simpa using hk
  have hkk : rs.1[k] = (strides[k]).map fun i => (blockStep1 rule b cells t s).1[i]! := by
    simp [← h3]
  rw [getElem!_pos strides k hk, getElem!_pos rs.1 k hk', hkk,
    getElem!_pos (strides[k]) j (by omega), getElem!_pos _ j (by simpa using (by omega : j < (strides[k]).length))]
  simp

/-- **Conservation**: a rule that only permutes the states inside a block conserves the global multiset. -/
theorem block_conserves [Inhabited α] (rule : BlockRule1 σ α) (b : Nat) (cells : List α) (t : Nat) (s : σ)
    (hb : 1 ≤ b) (hdiv : cells.length % b = 0)
    (hperm : ∀ s' blk t', (rule s' blk t').1.Perm blk) :
    (blockStep1 rule b cells t s).1.Perm cells := by
  exact blockStep1_perm rule b cells t s hb hdiv hperm

/-- **Reversibility**: if `g` undoes `f` on blocks, one step with `g` on the same partition undoes one step with `f`. -/
theorem block_reversible [Inhabited α] (f g : List α → Nat → List α) (b : Nat) (cells : List α) (t : Nat)
    (hb : 1 ≤ b) (hdiv : cells.length % b = 0)
    (hf : ∀ blk t', blk.length = b → (f blk t').length = b)
    (hgf : ∀ blk t', blk.length = b → g (f blk t') t' = blk) :
    (blockStep1 (fun (u : Unit) blk t' => (g blk t', u)) b
        (blockStep1 (fun (u : Unit) blk t' => (f blk t', u)) b cells t ()).1 t ()).1 = cells := by
  exact blockStep1_reversible f g b cells t hb hdiv hf hgf

/-- The result extends the history by `T-1` rows; a size not divisible by the block size is rejected. -/
theorem evolveBlock_shape [Inhabited α] (hist : List (List α)) (init : List α) (hlast : hist.getLast? = some init)
    (b T : Nat) (hb : 1 ≤ b) (hT : 1 ≤ T) (rule : BlockRule1 σ α) (s : σ) :
    (init.length % b ≠ 0 → evolveBlock hist b T rule s = .error .Exception) ∧
    (init.length % b = 0 → ∃ rows s', evolveBlock hist b T rule s = .ok (hist ++ rows, s') ∧ rows.length = T - 1) := by
  constructor
  · intro hdiv
    exact evolveBlock_reject hist init hlast b T hb hdiv rule s
  · intro hdiv
    exact ⟨_, _, evolveBlock_ok hist init hlast b T hb hT hdiv rule s, blockLoop1_length rule b _ _ _ _⟩

/-! ## 2D -/

/-- Odd-step blocks are the `b0 × b1` tiles aligned with cell (0,0); even-step blocks are the same tiles
    shifted by `+1` on both axes (cyclically). -/
theorem blockIndices2_spec (R C b0 b1 : Nat) (h0 : 1 ≤ b0) (h1 : 1 ≤ b1) (hR : R % b0 = 0) (hC : C % b1 = 0) :
    blockIndices2Odd R C b0 b1
      = (List.range (R / b0)).flatMap (fun i => (List.range (C / b1)).map fun j =>
          ((List.range b0).map (i * b0 + ·), (List.range b1).map (j * b1 + ·))) ∧
    blockIndices2Even R C b0 b1
      = (List.range (R / b0)).flatMap (fun i => (List.range (C / b1)).map fun j =>
          ((List.range b0).map (fun a => (i * b0 + a + 1) % R), (List.range b1).map (fun a => (j * b1 + a + 1) % C))) := by
  exact ⟨blockIndices2Odd_eq R C b0 b1 h0 h1 hR hC, blockIndices2Even_eq R C b0 b1 h0 h1 hR hC⟩

/-- The cells `(row, col)` of a list of index blocks. -/
def cellsOf (blocks : List (List Nat × List Nat)) : List (Nat × Nat) :=
  blocks.flatMap fun (ri, ci) => ri.flatMap fun i => ci.map fun j => (i, j)

/-- **Every cell of the grid belongs to exactly one block per step** (2D). -/
theorem blocks2_partition (R C b0 b1 : Nat) (h0 : 1 ≤ b0) (h1 : 1 ≤ b1) (hR : R % b0 = 0) (hC : C % b1 = 0) :
    (cellsOf (blockIndices2Odd R C b0 b1)).Perm (cellsRowMajor R C) ∧
    (cellsOf (blockIndices2Even R C b0 b1)).Perm (cellsRowMajor R C) := by
  exact blocks2_partition' R C b0 b1 h0 h1 hR hC

/-- A grid size not divisible by the block size is rejected (2D); `T = 0` is rejected first. -/
theorem evolve2dBlock_reject [Inhabited α] (hist : List (Grid α)) (init : Grid α) (hlast : hist.getLast? = some init)
    (b0 b1 T : Nat) (h0 : 1 ≤ b0) (h1 : 1 ≤ b1) (hT : 1 ≤ T) (rule : BlockRule2 σ α) (s : σ)
    (hnd : init.length % b0 ≠ 0 ∨ gridCols init % b1 ≠ 0) :
    evolve2dBlock hist b0 b1 T rule s = .error .Exception := by
  exact evolve2dBlock_reject' hist init hlast b0 b1 T h0 h1 hT rule s hnd

/-! ## The split law for block automata holds for odd `T1` only (the partition alternates with the
call-local step number); a concrete counterexample for even `T1` is kept next to it. -/

/-- For a time-free rule and an **odd** `T1`, continuing equals evolving at once. -/
theorem evolveBlock_split_odd [Inhabited α] (rule : BlockRule1 σ α)
    (htf : ∀ s blk t t', rule s blk t = rule s blk t')
    (hist : List (List α)) (init : List α) (hlast : hist.getLast? = some init) (b T1 T2 : Nat) (hb : 1 ≤ b)
    (hdiv : init.length % b = 0) (hodd : T1 % 2 = 1) (hT2 : 1 ≤ T2)
    (hlen : ∀ s' blk t', blk.length = b → (rule s' blk t').1.length = b)
    (s s1 : σ) (mid : List (List α)) (hmid : evolveBlock hist b T1 rule s = .ok (mid, s1)) :
    evolveBlock mid b T2 rule s1 = evolveBlock hist b (T1 + T2 - 1) rule s := by
  have _ := hlen  -- not needed: `List.set` preserves the length whatever the rule returns
  exact evolveBlock_split_odd' rule htf hist init hlast b T1 T2 hb hdiv hodd hT2 s s1 mid hmid

/-- Even `T1`: the law fails (block size 2, the swap rule, `T1 = 2`, `T2 = 2`): continuing restarts on the
    odd partition, the evolution at once uses the even partition for its second step. -/
def swapRule : BlockRule1 Unit Int := fun u blk _ => (blk.reverse, u)
example : (evolveBlock [[1, 2, 3, 4]] 2 2 swapRule ()).toOption.map (·.1) = some [[1, 2, 3, 4], [2, 1, 4, 3]] := by decide
example : (evolveBlock [[1, 2, 3, 4], [2, 1, 4, 3]] 2 2 swapRule ()).toOption.map (·.1)
    = some [[1, 2, 3, 4], [2, 1, 4, 3], [1, 2, 3, 4]] := by decide
example : (evolveBlock [[1, 2, 3, 4]] 2 3 swapRule ()).toOption.map (·.1)
    = some [[1, 2, 3, 4], [2, 1, 4, 3], [3, 4, 1, 2]] := by decide

/-! ## Non-vacuity -/
example : blockIndicesOdd 6 2 = [[0, 1], [2, 3], [4, 5]] ∧ blockIndicesEven 6 2 = [[5, 0], [1, 2], [3, 4]] := by decide
example : blockIndices2Even 2 4 2 2 = [([1, 0], [1, 2]), ([1, 0], [3, 0])] := by decide

end Cpl.C10
