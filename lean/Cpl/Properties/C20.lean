import Cpl.Model.Rules
import Cpl.Spec.Ring
import Cpl.Properties.C01
import Cpl.Properties.C12
import Cpl.Lemmas.Async
import Cpl.Lemmas.Hopfield

/-!
# C20 — Hopfield network: Hebbian weights and energy descent

For all odd network sizes `N = 2r + 1 ≥ 3` (`r = N / 2 ≥ 1`), all pattern sets, all bipolar initial
states, all evolution lengths and all update orders (any permutation of the cells; also with
re-shuffling after every step, for every shuffle outcome).

* `localField W s c` is `Σ_{i ≠ c} W[i][c] · s[i]` (the weighted input from all other cells),
* `quadForm W s` is `s'Ws = Σ_i Σ_j W[i][j] · s[i] · s[j]`; the energy is `-1/2` of it, so
  "`quadForm` never decreases" is "the energy never increases",
* `Bipolar s`: every entry is `+1` or `-1`.
-/

namespace Cpl.C20
open Cpl Cpl.Spec

/-- **Hebbian weights.** After `train(P)` the weight matrix is `N × N`, its entry `(i, j)` is
    `Σ_{p ∈ P} p[i]·p[j]` off the diagonal and `0` on it; hence it is symmetric with zero diagonal. -/
theorem train_spec (P : List (List Int)) (N : Nat) (hne : P ≠ []) (hlen : ∀ p ∈ P, p.length = N) :
    (hopfieldTrain P).length = N ∧ (∀ row ∈ hopfieldTrain P, row.length = N) ∧
    (∀ i j, i < N → j < N →
      ((hopfieldTrain P)[i]!)[j]! = if i = j then (0 : Int) else (P.map fun p => p[i]! * p[j]!).sum) ∧
    (∀ i j, i < N → j < N → ((hopfieldTrain P)[i]!)[j]! = ((hopfieldTrain P)[j]!)[i]!) ∧
    (∀ i, i < N → ((hopfieldTrain P)[i]!)[i]! = 0) := by
  have hN : P.head?.map List.length = some N := by
    cases P with
    | nil => exact absurd rfl hne
    | cons p _ => simp [hlen p (List.mem_cons_self ..)]
  have hent := hopfieldTrain_entry P N hN
  refine ⟨?_, ?_, hent, ?_, ?_⟩
  · rw [hopfieldTrain_eq P N hN]; simp
  · rw [hopfieldTrain_eq P N hN]
    intro row hrow
    obtain ⟨i, _, rfl⟩ := List.mem_map.1 hrow
    simp
  · intro i j hi hj
    rw [hent i j hi hj, hent j i hj hi]
    by_cases h : i = j
    · simp [h]
    · have h' : ¬ j = i := fun e => h e.symm
      simp only [h, h', if_false]
      congr 1
      apply List.map_congr_left
      intro p _
      exact Int.mul_comm _ _
  · intro i hi
    rw [hent i i hi hi]; simp

/-- **The rule is the sign of the weighted input from all other cells.** With `2r + 1 = N` the
    rule's index arithmetic (`c - r + j`, negative values wrapping as NumPy does, for the left half of
    the window; `(c + j + 1) mod N` for the right half) visits every cell other than `c` exactly once,
    each paired with that cell's state: the result is `+1` iff `Σ_{i < N, i ≠ c} W[i][c]·s[i] ≥ 0`. -/
theorem hopfield_field (W : List (List Int)) (s : List Int) (r c : Nat) (hN : s.length = 2 * r + 1)
    (hW : W.length = 2 * r + 1) (hc : c < 2 * r + 1) :
    hopfieldRule W r (window s r c) c
      = if (0 : Int) ≤ (((List.range (2 * r + 1)).filter (· ≠ c)).map fun i => (W[i]!)[c]! * s[i]!).sum
        then 1 else -1 := by
  rw [hopfieldRule_eq W s r c hN hW hc]
  unfold localField
  rw [hN]

/-- **One evolution step updates one cell to the sign of its field.** With the net's rule wrapped in
    the asynchronous rule (fixed order, fresh counter), a step replaces exactly the scheduled cell
    `c = order[curr]` by `+1` if its weighted input from all other cells is non-negative and by `-1`
    otherwise; every other cell keeps its state. -/
theorem hopfield_step (W : List (List Int)) (s : List Int) (r t : Nat) (a : AsyncSt Nat) (c : Nat)
    (hN : s.length = 2 * r + 1) (hW : W.length = 2 * r + 1) (hnd : a.order.Nodup)
    (hlt : ∀ x ∈ a.order, x < s.length) (hc : a.order[a.curr]? = some c) (hna : a.numApplied = 0)
    (hrand : a.randomize = false) :
    Spec.step (asyncRule1 (hopfieldRule1 W r)) s r t (a, ())
      = (s.set c (if 0 ≤ localField W s c then 1 else -1),
         ({ a with curr := (a.curr + 1) % a.order.length }, ())) := by
  rw [C12.async_sweep (hopfieldRule1 W r) s r t a () c (by omega) hnd hlt hc hna hrand]
  have hcl : c < 2 * r + 1 := by rw [← hN]; exact hlt c (List.mem_of_getElem? hc)
  have : (hopfieldRule1 W r () (window s r c) c t).1 = if 0 ≤ localField W s c then 1 else -1 :=
    hopfieldRule_eq W s r c hN hW hcl
  rw [this]

/-- **Energy descent, one update.** For a symmetric zero-diagonal integer weight matrix, replacing the
    single cell `c` (currently `±1`; the other cells may hold any integers) by the sign of its field
    does not decrease `s'Ws` — the energy `-1/2 s'Ws` does not increase. -/
theorem energy_descent (W : List (List Int)) (s : List Int) (c : Nat) (hc : c < s.length)
    (hsym : ∀ i j, i < s.length → j < s.length → (W[i]!)[j]! = (W[j]!)[i]!)
    (hdiag : ∀ i, i < s.length → (W[i]!)[i]! = 0) (hs : s[c]! = 1 ∨ s[c]! = -1) :
    quadForm W s ≤ quadForm W (s.set c (if 0 ≤ localField W s c then 1 else -1)) :=
  quadForm_descent W s c hc hsym hdiag hs

/-- **Energy descent along the evolution.** Evolving a bipolar state of an odd-sized net
    (`N = 2r + 1 ≥ 3`) for `T` steps with the net's asynchronous rule — the update order being any
    permutation of the cells, optionally re-shuffled after every step with arbitrary outcomes — yields
    `T` bipolar rows starting with the initial state, and `s'Ws` of any earlier row is at most that of
    any later row: the energy never increases. -/
theorem energy_descent_evolve (W : List (List Int)) (r N T : Nat) (init : List Int) (a : AsyncSt Nat)
    (hr : 1 ≤ r) (hN : N = 2 * r + 1) (hW : W.length = N)
    (hsym : ∀ i j, i < N → j < N → (W[i]!)[j]! = (W[j]!)[i]!) (hdiag : ∀ i, i < N → (W[i]!)[i]! = 0)
    (hT : 1 ≤ T) (hinit : init.length = N) (hb : Bipolar init) (ho : a.order.Perm (List.range N))
    (hsh : a.randomize = true → ∀ o ∈ a.shuffles, o.Perm (List.range N)) (hna : a.numApplied = 0)
    (hc : a.curr < a.order.length) :
    ∃ (rows : List (List Int)) (fin : AsyncSt Nat × Unit),
      evolveFixed [init] T (asyncRule1 (hopfieldRule1 W r)) r .plain (a, ()) = .ok (rows, fin) ∧
      rows.length = T ∧ rows.head? = some init ∧
      (∀ row ∈ rows, Bipolar row ∧ row.length = N) ∧
      List.Pairwise (fun x y => quadForm W x ≤ quadForm W y) rows := by
  have hne : a.order ≠ [] := List.ne_nil_of_length_pos (by omega)
  have hrun := run_async (hopfieldRule1 W r) r N (List.range N) List.nodup_range
    (fun x hx => List.mem_range.1 hx) (by omega) (T - 1) 1 init a () hinit ho hsh hna hc
  have hsched : ∀ t, (fun t' => a.cellAt (t' - 1)) t < N := fun t =>
    List.mem_range.1 (cellAt_mem a (List.range N) ho hsh hne (t - 1))
  obtain ⟨e1, e2⟩ := seqRun_hopfield_energy W r N hN hW hsym hdiag _ hsched (T - 1) 1 init () hinit hb
  refine ⟨init :: (seqRun (hopfieldRule1 W r) r (fun t' => a.cellAt (t' - 1)) (T - 1) 1 init ()).1,
    (a.after (T - 1), (seqRun (hopfieldRule1 W r) r (fun t' => a.cellAt (t' - 1)) (T - 1) 1 init ()).2),
    ?_, ?_, rfl, ?_, e1⟩
  · rw [C01.evolveFixed_plain_eq_spec [init] init rfl T hT _ r hr (by omega), hrun]
    rfl
  · simp only [List.length_cons, seqRun_length]; omega
  · intro row hrow
    rcases List.mem_cons.1 hrow with rfl | hrow
    · exact ⟨hb, hinit⟩
    · exact e2 row hrow

/-- The same for a trained net: the weights produced by `train(P)` satisfy the hypotheses. -/
theorem energy_descent_trained (P : List (List Int)) (r N T : Nat) (init : List Int) (a : AsyncSt Nat)
    (hr : 1 ≤ r) (hN : N = 2 * r + 1) (hne : P ≠ []) (hlen : ∀ p ∈ P, p.length = N)
    (hT : 1 ≤ T) (hinit : init.length = N) (hb : Bipolar init) (ho : a.order.Perm (List.range N))
    (hsh : a.randomize = true → ∀ o ∈ a.shuffles, o.Perm (List.range N)) (hna : a.numApplied = 0)
    (hc : a.curr < a.order.length) :
    ∃ (rows : List (List Int)) (fin : AsyncSt Nat × Unit),
      evolveFixed [init] T (asyncRule1 (hopfieldRule1 (hopfieldTrain P) r)) r .plain (a, ()) = .ok (rows, fin) ∧
      rows.length = T ∧ rows.head? = some init ∧
      (∀ row ∈ rows, Bipolar row ∧ row.length = N) ∧
      List.Pairwise (fun x y => quadForm (hopfieldTrain P) x ≤ quadForm (hopfieldTrain P) y) rows := by
  obtain ⟨h1, _, _, h4, h5⟩ := train_spec P N hne hlen
  exact energy_descent_evolve (hopfieldTrain P) r N T init a hr hN h1 h4 h5 hT hinit hb ho hsh hna hc

/-- **Field of a single stored pattern.** With the weights of one bipolar pattern `p` of length
    `N = 2r + 1`, the weighted input of cell `c` from the other cells is `(N - 1)·p[c]` in state `p`
    and `(N - 1)·(-p[c])` in state `-p`. -/
theorem single_pattern_field (p : List Int) (r c : Nat) (hN : p.length = 2 * r + 1) (hb : Bipolar p)
    (hc : c < 2 * r + 1) :
    localField (hopfieldTrain [p]) p c = (2 * (r : Int)) * p[c]! ∧
    localField (hopfieldTrain [p]) (p.map (fun x => -x)) c = (2 * (r : Int)) * -(p[c]!) := by
  refine ⟨localField_aligned _ p r c hN hc (single_aligned p r c hN hb hc), ?_⟩
  rw [localField_aligned _ _ r c (by simpa using hN) hc (single_aligned_neg p r c hN hb hc), neg_getElem!]

/-- **A single stored pattern and its negation are fixed points (cell level).** With the weights of
    one bipolar pattern `p` of odd length `N = 2r + 1 ≥ 3`, the rule applied to any cell of `p` returns
    that cell's value, and applied to any cell of `-p` returns that cell's value. -/
theorem single_pattern_fixed (p : List Int) (r c : Nat) (hr : 1 ≤ r) (hN : p.length = 2 * r + 1)
    (hb : Bipolar p) (hc : c < 2 * r + 1) :
    hopfieldRule (hopfieldTrain [p]) r (window p r c) c = p[c]! ∧
    hopfieldRule (hopfieldTrain [p]) r (window (p.map (fun x => -x)) r c) c = (p.map (fun x => -x))[c]! :=
  ⟨single_pattern_cell p r c hr hN hb hc, single_pattern_cell_neg p r c hr hN hb hc⟩

/-- **… and the whole evolution from `p` or from `-p` is constant**, for every update order that is a
    permutation of the cells (re-shuffled or not) and every number of steps. -/
theorem single_pattern_evolve (p : List Int) (r T : Nat) (a : AsyncSt Nat) (hr : 1 ≤ r)
    (hN : p.length = 2 * r + 1) (hb : Bipolar p) (hT : 1 ≤ T)
    (ho : a.order.Perm (List.range (2 * r + 1)))
    (hsh : a.randomize = true → ∀ o ∈ a.shuffles, o.Perm (List.range (2 * r + 1)))
    (hna : a.numApplied = 0) (hc : a.curr < a.order.length) (s0 : List Int)
    (hs0 : s0 = p ∨ s0 = p.map (fun x => -x)) :
    ∃ fin : AsyncSt Nat × Unit,
      evolveFixed [s0] T (asyncRule1 (hopfieldRule1 (hopfieldTrain [p]) r)) r .plain (a, ())
        = .ok (List.replicate T s0, fin) := by
  have hne : a.order ≠ [] := List.ne_nil_of_length_pos (by omega)
  have hl0 : s0.length = 2 * r + 1 := by
    rcases hs0 with h | h
    · rw [h]; exact hN
    · rw [h]; simpa using hN
  have hrun := run_async (hopfieldRule1 (hopfieldTrain [p]) r) r (2 * r + 1) (List.range (2 * r + 1))
    List.nodup_range (fun x hx => List.mem_range.1 hx) (by omega) (T - 1) 1 s0 a () hl0 ho hsh hna hc
  have hsched : ∀ t, (fun t' => a.cellAt (t' - 1)) t < s0.length := fun t => by
    rw [hl0]; exact List.mem_range.1 (cellAt_mem a _ ho hsh hne (t - 1))
  have hfix : ∀ c t (u : Unit), c < s0.length →
      (hopfieldRule1 (hopfieldTrain [p]) r u (window s0 r c) c t).1 = s0[c]! := by
    intro c t u hcl
    rw [hl0] at hcl
    rcases hs0 with h | h
    · rw [h]; exact (single_pattern_fixed p r c hr hN hb hcl).1
    · rw [h]; exact (single_pattern_fixed p r c hr hN hb hcl).2
  have hconst := seqRun_fixed (hopfieldRule1 (hopfieldTrain [p]) r) r _ s0 hsched hfix (T - 1) 1 ()
  refine ⟨(a.after (T - 1),
    (seqRun (hopfieldRule1 (hopfieldTrain [p]) r) r (fun t' => a.cellAt (t' - 1)) (T - 1) 1 s0 ()).2), ?_⟩
  rw [C01.evolveFixed_plain_eq_spec [s0] s0 rfl T hT _ r hr (by omega), hrun, hconst]
  have : T = (T - 1) + 1 := by omega
  conv => rhs; rw [this, List.replicate_succ]
  rfl

/-! ## Concrete instances (hypotheses satisfiable) and guard witnesses -/

/-- Two patterns on 3 cells: the weights are the sum of the outer products with the diagonal zeroed. -/
example : hopfieldTrain [[1, -1, 1], [1, 1, -1]] = [[0, 0, 0], [0, 0, -2], [0, -2, 0]] := by decide

/-- `N = 5`, `r = 2`, cell 0: the left half of the window reads cells 3, 4 (negative indices wrap),
    the right half cells 1, 2. -/
example : hopfieldRule [[0, 1, 2, 3, 4], [1, 0, 5, 6, 7], [2, 5, 0, 8, 9], [3, 6, 8, 0, 1], [4, 7, 9, 1, 0]] 2
    (window [1, -1, -1, 1, -1] 2 0) 0 = -1
    ∧ localField [[0, 1, 2, 3, 4], [1, 0, 5, 6, 7], [2, 5, 0, 8, 9], [3, 6, 8, 0, 1], [4, 7, 9, 1, 0]]
        [1, -1, -1, 1, -1] 0 = -4 := by decide

/-- The hypotheses of `energy_descent_trained` hold for a 3-cell net with order `[2, 0, 1]`. -/
example : ∃ rows fin,
    evolveFixed [[1, 1, 1]] 5 (asyncRule1 (hopfieldRule1 (hopfieldTrain [[1, -1, 1]]) 1)) 1 .plain
      ({ order := [2, 0, 1] }, ()) = .ok (rows, fin) ∧ rows.length = 5 ∧ rows.head? = some [1, 1, 1] ∧
    (∀ row ∈ rows, Bipolar row ∧ row.length = 3) ∧
    List.Pairwise (fun x y => quadForm (hopfieldTrain [[1, -1, 1]]) x ≤ quadForm (hopfieldTrain [[1, -1, 1]]) y) rows :=
  energy_descent_trained [[1, -1, 1]] 1 3 5 [1, 1, 1] { order := [2, 0, 1] } (by decide) rfl (by decide)
    (by decide) (by decide) rfl (by decide) (by decide) (by decide) rfl (by decide)

/-- **Even size breaks the field formula** (`N = 4`, `r = 2`, window of 5): the cell opposite to `c` is
    counted twice, so the rule answers `+1` although the field from the other cells is `-1`. -/
example : hopfieldRule [[0, -1, 1, -1], [-1, 0, 0, 0], [1, 0, 0, 0], [-1, 0, 0, 0]] 2
      (window [1, 1, 1, 1] 2 0) 0 = 1
    ∧ localField [[0, -1, 1, -1], [-1, 0, 0, 0], [1, 0, 0, 0], [-1, 0, 0, 0]] [1, 1, 1, 1] 0 = -1 := by decide

/-- **A non-bipolar cell can lose `s'Ws`** (so `s[c] = ±1` is needed in `energy_descent`). -/
example : ¬ quadForm [[0, 1, 0], [1, 0, 0], [0, 0, 0]] [5, 1, 1]
    ≤ quadForm [[0, 1, 0], [1, 0, 0], [0, 0, 0]]
        ([5, 1, 1].set 0 (if 0 ≤ localField [[0, 1, 0], [1, 0, 0], [0, 0, 0]] [5, 1, 1] 0 then 1 else -1)) := by
  decide

/-- **`N = 1` is not a fixed point for `-1`** (`r = 0`: no other cells, field `0`, update to `+1`). -/
example : hopfieldRule (hopfieldTrain [[-1]]) 0 (window [-1] 0 0) 0 = 1 := by decide

end Cpl.C20
