import Cpl.Model.Rules
namespace Cpl.C20
theorem placeholder : True := trivial
end Cpl.C20
