import Cpl.Model.RuleTables
namespace Cpl.C17
theorem placeholder : True := trivial
end Cpl.C17
