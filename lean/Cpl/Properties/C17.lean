import Cpl.Model.RuleTables
import Cpl.Lemmas.RuleTables

/-!
# C17 — Langton rule tables: complete, constrained, and lambda is reported truthfully

`random_rule_table` returns a table with one entry in `0..k-1` for every one of the `k^(2r+1)` neighbourhood
strings, honouring strong quiescence (uniform neighbourhoods map to their own state) and isotropy (a string
and its mirror image map alike) when requested, and the lambda and quiescent state it reports are exactly
those of the table. `table_walk_through` keeps the key set, value range and both constraints, moves lambda
only towards the target, stops once the target is reached or crossed or no admissible entry remains, and
reports the table's true lambda; `table_rule` looks a neighbourhood up by its digit string and raises
`ValueError` when it is absent.

Quantifiers: every `k ≥ 2`, every `r`, every quiescent state, every target `num/den`, every flag
combination and **every** outcome of the random choices (`∀ oracle`).

A table is an association list in insertion order (`RTable`); `t.map (·.1)` is its key list,
`t.get s` is `table.get(s)`; lambda of a table is `(k^n - quiescentCount t q) / k^n`.
-/

namespace Cpl.C17
open Cpl Py

/-! ## The two constraints on a table -/

/-- **Strong quiescence**: every uniform key (`len(set(s)) == 1`) maps to its own state `s[0]`. -/
def StronglyQuiescent (t : RTable) : Prop :=
  ∀ s ∈ t.map (·.1), isUniform s = true → t.get s = s.head?

/-- **Isotropy**: a string and its mirror image map alike (an absent string reads as `none`, so in
    particular the mirror image of a key is a key). -/
def Isotropic (t : RTable) : Prop :=
  ∀ s, t.get s.reverse = t.get s

/-! ## The key set -/

/-- The enumeration `[base_repr(i, k).zfill(n) for i in range(k**n)]` lists every string of `n` digits
    below `k` exactly once: no repetitions, `k^n` entries, and membership is "has `n` digits, all `< k`". -/
theorem allStates_spec (k n : Nat) (hk : 2 ≤ k) (hn : 1 ≤ n) :
    (allStates k n).Nodup ∧ (allStates k n).length = k ^ n ∧
    ∀ s, s ∈ allStates k n ↔ (s.length = n ∧ ∀ d ∈ s, d < k) :=
  ⟨allStates_nodup k n hk, allStates_length k n, mem_allStates_iff k n hk hn⟩

/-- The key set is closed under mirror image. -/
theorem allStates_reverse_closed (k n : Nat) (hk : 2 ≤ k) (hn : 1 ≤ n) (s : List Nat) :
    s.reverse ∈ allStates k n ↔ s ∈ allStates k n :=
  reverse_mem_allStates_iff k n hk hn s

/-- Every constant string `c c … c` (`c < k`) is a key and is uniform (so strong quiescence is not vacuous). -/
theorem uniform_keys (k n c : Nat) (hk : 2 ≤ k) (hn : 1 ≤ n) (hc : c < k) :
    List.replicate n c ∈ allStates k n ∧ isUniform (List.replicate n c) = true := by
  constructor
  · rw [mem_allStates_iff k n hk hn]
    refine ⟨by simp, ?_⟩
    intro d hd
    rw [(List.mem_replicate.mp hd).2]; exact hc
  · obtain ⟨m, rfl⟩ : ∃ m, n = m + 1 := ⟨n - 1, by omega⟩
    exact isUniform_replicate m c

/-! ## `random_rule_table` -/

/-- `random_rule_table` raises `ValueError` when the quiescent state is not one of `0..k-1`. -/
theorem rrt_bad_q (k r q : Nat) (sq iso : Bool) (oracle : RrtOracle) (hq : q > k - 1) :
    randomRuleTable k r q sq iso oracle = .error .ValueError := by
  unfold randomRuleTable; rw [if_pos hq]

/-- …and otherwise it returns a table (the statements below are about an existing result). -/
theorem rrt_ok (k r q : Nat) (sq iso : Bool) (oracle : RrtOracle) (hq : q ≤ k - 1) :
    ∃ st, randomRuleTable k r q sq iso oracle = .ok st := by
  unfold randomRuleTable; rw [if_neg (by omega)]; exact ⟨_, rfl⟩

/-- **Complete**: the returned table has every neighbourhood string of `2r+1` digits exactly once, in
    enumeration order, and every value is one of `0..k-1`. -/
theorem rrt_complete (k r q : Nat) (sq iso : Bool) (oracle : RrtOracle) (st : RrtSt) (hk : 2 ≤ k)
    (h : randomRuleTable k r q sq iso oracle = .ok st) :
    st.table.map (·.1) = allStates k (2 * r + 1) ∧ ∀ e ∈ st.table, e.2 < k := by
  obtain ⟨_, inv⟩ := randomRuleTable_inv k r q sq iso oracle st hk h
  exact ⟨inv.keys_eq, inv.range⟩

/-- **Strong quiescence honoured**: with `strong_quiescence=True` every uniform neighbourhood maps to its
    own state. -/
theorem rrt_strong_quiescence (k r q : Nat) (sq iso : Bool) (oracle : RrtOracle) (st : RrtSt) (hk : 2 ≤ k)
    (h : randomRuleTable k r q sq iso oracle = .ok st) (hsq : sq = true) :
    StronglyQuiescent st.table := by
  obtain ⟨_, inv⟩ := randomRuleTable_inv k r q sq iso oracle st hk h
  intro s hs hu
  obtain ⟨e, he, rfl⟩ := List.mem_map.mp hs
  have hnd : (st.table.map (·.1)).Nodup := by rw [inv.keys_eq]; exact allStates_nodup k _ hk
  rw [RTable.get_of_mem st.table hnd e.1 e.2 he, inv.sq_ok hsq e he hu, head?_of_isUniform e.1 hu]

/-- Strong quiescence, concretely: the all-`c` neighbourhood maps to `c`, for every state `c < k`. -/
theorem rrt_strong_quiescence_const (k r q : Nat) (sq iso : Bool) (oracle : RrtOracle) (st : RrtSt)
    (hk : 2 ≤ k) (h : randomRuleTable k r q sq iso oracle = .ok st) (hsq : sq = true)
    (c : Nat) (hc : c < k) :
    st.table.get (List.replicate (2 * r + 1) c) = some c := by
  obtain ⟨hmem, hu⟩ := uniform_keys k (2 * r + 1) c hk (by omega) hc
  have := rrt_strong_quiescence k r q sq iso oracle st hk h hsq _
    (by rw [(rrt_complete k r q sq iso oracle st hk h).1]; exact hmem) hu
  rw [this]; simp [List.replicate_succ]

/-- **Isotropy honoured**: with `isotropic=True` a string and its mirror image map alike. -/
theorem rrt_isotropic (k r q : Nat) (sq iso : Bool) (oracle : RrtOracle) (st : RrtSt) (hk : 2 ≤ k)
    (h : randomRuleTable k r q sq iso oracle = .ok st) (hiso : iso = true) :
    Isotropic st.table := by
  obtain ⟨_, inv⟩ := randomRuleTable_inv k r q sq iso oracle st hk h
  intro s
  by_cases hs : s ∈ allStates k (2 * r + 1)
  · have hr : s.reverse ∈ allStates k (2 * r + 1) := reverse_mem_allStates k _ hk (by omega) s hs
    obtain ⟨c, hc⟩ := (RTable.get_isSome_iff st.table s).mpr (by rw [inv.keys_eq]; exact hs)
    obtain ⟨c', hc'⟩ := (RTable.get_isSome_iff st.table s.reverse).mpr (by rw [inv.keys_eq]; exact hr)
    rw [hc, hc', inv.iso_ok hiso s c c' hc hc']
  · have hr : s.reverse ∉ allStates k (2 * r + 1) :=
      fun hh => hs ((reverse_mem_allStates_iff k _ hk (by omega) s).mp hh)
    rw [(RTable.get_eq_none_iff st.table s).mpr (by rw [inv.keys_eq]; exact hs),
      (RTable.get_eq_none_iff st.table s.reverse).mpr (by rw [inv.keys_eq]; exact hr)]

/-- Both flags together: both constraints hold. -/
theorem rrt_both_constraints (k r q : Nat) (oracle : RrtOracle) (st : RrtSt) (hk : 2 ≤ k)
    (h : randomRuleTable k r q true true oracle = .ok st) :
    StronglyQuiescent st.table ∧ Isotropic st.table :=
  ⟨rrt_strong_quiescence k r q true true oracle st hk h rfl,
   rrt_isotropic k r q true true oracle st hk h rfl⟩

/-- **Lambda reported truthfully**: the quiescent count behind the reported lambda `(k^n - count) / k^n` is
    exactly the number of entries of the returned table that map to the quiescent state. -/
theorem rrt_lambda_true (k r q : Nat) (sq iso : Bool) (oracle : RrtOracle) (st : RrtSt) (hk : 2 ≤ k)
    (h : randomRuleTable k r q sq iso oracle = .ok st) :
    st.count = quiescentCount st.table q := by
  obtain ⟨_, inv⟩ := randomRuleTable_inv k r q sq iso oracle st hk h
  exact inv.count_eq

/-- The reported count never exceeds `k^n`, so the reported lambda lies in `[0, 1]`. -/
theorem rrt_count_le (k r q : Nat) (sq iso : Bool) (oracle : RrtOracle) (st : RrtSt) (hk : 2 ≤ k)
    (h : randomRuleTable k r q sq iso oracle = .ok st) :
    st.count ≤ k ^ (2 * r + 1) := by
  rw [rrt_lambda_true k r q sq iso oracle st hk h, ← allStates_length k (2 * r + 1),
    ← (rrt_complete k r q sq iso oracle st hk h).1, List.length_map]
  exact quiescentCount_le_length _ _

/-! ## `table_walk_through`

`W := tableWalkThrough t num den k r q sq iso oracle` for a table `t` whose key list is
`allStates k (2r+1)`. The value reported next to `W.table` by the driver is `quiescentCount W.table q`
computed from the returned table itself (the Python code calls `actual_lambda()` on the final table), so
"reports the table's true lambda" holds by construction and is not restated as a theorem. -/

/-- **Key set kept**: same keys, same order. -/
theorem walk_keys (t : RTable) (num den k r q : Nat) (sq iso : Bool) (oracle : WalkOracle) (hk : 2 ≤ k)
    (hkeys : t.map (·.1) = allStates k (2 * r + 1)) :
    (tableWalkThrough t num den k r q sq iso oracle).table.map (·.1) = t.map (·.1) := by
  have hclosed : ∀ t' : RTable, t'.map (·.1) = t.map (·.1) →
      ∀ u ∈ t'.map (·.1), u.reverse ∈ t'.map (·.1) := by
    intro t' ht' u hu
    rw [ht', hkeys] at hu ⊢
    exact reverse_mem_allStates k _ hk (by omega) u hu
  unfold tableWalkThrough
  dsimp only
  split
  · rfl
  · split
    · apply walkDown_induct _ _ _ _ _ _ _ _ (fun t' => t'.map (·.1) = t.map (·.1)) _ _ _ rfl
      intro t' s ht' hs
      rw [walkSet_keys_down q sq iso t' s q (hclosed t' ht') hs, ht']
    · apply walkUp_induct _ _ _ _ _ _ _ _ hk (fun t' => t'.map (·.1) = t.map (·.1)) _ _ _ rfl
      intro t' s v ht' hs _ _
      rw [walkSet_keys_up q sq iso t' s v (hclosed t' ht') hs, ht']

/-- **Value range kept**: every value stays in `0..k-1`. -/
theorem walk_range (t : RTable) (num den k r q : Nat) (sq iso : Bool) (oracle : WalkOracle) (hk : 2 ≤ k)
    (hq : q < k) (hrange : ∀ e ∈ t, e.2 < k) :
    ∀ e ∈ (tableWalkThrough t num den k r q sq iso oracle).table, e.2 < k := by
  unfold tableWalkThrough
  dsimp only
  split
  · exact hrange
  · split
    · apply walkDown_induct _ _ _ _ _ _ _ _ (fun t' => ∀ e ∈ t', e.2 < k) _ _ _ hrange
      intro t' s ht' _
      exact walkSet_range iso t' s q k hq ht'
    · apply walkUp_induct _ _ _ _ _ _ _ _ hk (fun t' => ∀ e ∈ t', e.2 < k) _ _ _ hrange
      intro t' s v ht' _ hv _
      exact walkSet_range iso t' s v k hv ht'

/-- One iteration on a non-uniform key keeps strong quiescence. -/
private theorem walkSet_sq (iso : Bool) (t : RTable) (s : List Nat) (v : Nat)
    (hs : isUniform s = false) (h : StronglyQuiescent t) : StronglyQuiescent (walkSet iso t s v) := by
  intro u hu huni
  rw [walkSet_get_of_uniform iso t s u v hs huni]
  rcases walkSet_mem_keys iso t s u v hu with hu | rfl | rfl
  · exact h u hu huni
  · rw [hs] at huni; exact absurd huni (by simp)
  · rw [isUniform_reverse, hs] at huni; exact absurd huni (by simp)

/-- **Strong quiescence kept**: with `strong_quiescence=True`, a strongly quiescent table stays so. -/
theorem walk_strong_quiescence (t : RTable) (num den k r q : Nat) (sq iso : Bool) (oracle : WalkOracle)
    (hk : 2 ≤ k) (hsq : sq = true) (h : StronglyQuiescent t) :
    StronglyQuiescent (tableWalkThrough t num den k r q sq iso oracle).table := by
  unfold tableWalkThrough
  dsimp only
  split
  · exact h
  · split
    · apply walkDown_induct _ _ _ _ _ _ _ _ StronglyQuiescent _ _ _ h
      intro t' s ht' hs
      exact walkSet_sq iso t' s q (((mem_downCands q sq t' s).mp hs).2 hsq) ht'
    · apply walkUp_induct _ _ _ _ _ _ _ _ hk StronglyQuiescent _ _ _ h
      intro t' s v ht' hs _ _
      exact walkSet_sq iso t' s v (((mem_upCands q sq t' s).mp hs).2 hsq) ht'

/-- **Isotropy kept**: with `isotropic=True`, an isotropic table stays so. -/
theorem walk_isotropic (t : RTable) (num den k r q : Nat) (sq iso : Bool) (oracle : WalkOracle)
    (hk : 2 ≤ k) (hiso : iso = true) (h : Isotropic t) :
    Isotropic (tableWalkThrough t num den k r q sq iso oracle).table := by
  subst hiso
  unfold tableWalkThrough
  dsimp only
  split
  · exact h
  · split
    · apply walkDown_induct _ _ _ _ _ _ _ _ Isotropic _ _ _ h
      intro t' s ht' _
      exact walkSet_iso t' s q ht'
    · apply walkUp_induct _ _ _ _ _ _ _ _ hk Isotropic _ _ _ h
      intro t' s v ht' _ _ _
      exact walkSet_iso t' s v ht'

/-- **Lambda moves only towards the target.** With `c0`, `c1` the quiescent counts before and after
    (lambda = `(total - c) / total`): started above the target → the count did not drop (lambda did not rise);
    started below → the count did not rise (lambda did not drop); started on target → table unchanged. -/
theorem walk_monotone (t : RTable) (num den k r q : Nat) (sq iso : Bool) (oracle : WalkOracle)
    (hk : 2 ≤ k) :
    let total := k ^ (2 * r + 1)
    let c0 := quiescentCount t q
    let W := tableWalkThrough t num den k r q sq iso oracle
    let c1 := quiescentCount W.table q
    (lamGt total c0 num den = true → c0 ≤ c1) ∧
    (lamLt total c0 num den = true → c1 ≤ c0) ∧
    (lamEq total c0 num den = true → W.table = t) := by
  intro total c0 W c1
  refine ⟨?_, ?_, ?_⟩
  · intro hgt
    have heq : lamEq total c0 num den = false := by
      simp only [lamGt, lamEq, decide_eq_true_eq, decide_eq_false_iff_not] at hgt ⊢; omega
    show c0 ≤ quiescentCount (tableWalkThrough t num den k r q sq iso oracle).table q
    unfold tableWalkThrough
    dsimp only
    rw [if_neg (by rw [heq]; simp), if_pos hgt]
    apply walkDown_induct _ _ _ _ _ _ _ _ (fun t' => c0 ≤ quiescentCount t' q) _ _ _ (Nat.le_refl _)
    intro t' s ht' hs
    have := walkSet_count_down iso t' s q ((mem_downCands q sq t' s).mp hs).1
    omega
  · intro hlt
    have heq : lamEq total c0 num den = false := by
      simp only [lamLt, lamEq, decide_eq_true_eq, decide_eq_false_iff_not] at hlt ⊢; omega
    have hgt : lamGt total c0 num den = false := by
      simp only [lamLt, lamGt, decide_eq_true_eq, decide_eq_false_iff_not] at hlt ⊢; omega
    show quiescentCount (tableWalkThrough t num den k r q sq iso oracle).table q ≤ c0
    unfold tableWalkThrough
    dsimp only
    rw [if_neg (by rw [heq]; simp), if_neg (by rw [hgt]; simp)]
    apply walkUp_induct _ _ _ _ _ _ _ _ hk (fun t' => quiescentCount t' q ≤ c0) _ _ _ (Nat.le_refl _)
    intro t' s v ht' hs _ hv
    have := walkSet_count_up iso t' s q v hv ((mem_upCands q sq t' s).mp hs).1
    omega
  · intro heq
    show (tableWalkThrough t num den k r q sq iso oracle).table = t
    unfold tableWalkThrough
    dsimp only
    rw [if_pos heq]

/-- The candidate lists named in `walk_stops` are literally the ones the loops draw from. -/
theorem candidates_def (q : Nat) (sq : Bool) (t : RTable) :
    downCands q sq t =
      (if sq then ((t.filter (·.2 != q)).map (·.1)).filter (fun s => !isUniform s)
       else (t.filter (·.2 != q)).map (·.1)) ∧
    upCands q sq t =
      (if sq then ((t.filter (·.2 == q)).map (·.1)).filter (fun s => !isUniform s)
       else (t.filter (·.2 == q)).map (·.1)) :=
  ⟨rfl, rfl⟩

/-- **Why the walk stops.** On exit, either the target is reached or crossed (started above: lambda is no
    longer above the target; started below: no longer below), or no admissible entry remains (the candidate
    list computed from the returned table is empty). The `attempts < len(rule_table)` bound is therefore
    never the binding reason: every iteration changes the quiescent count by at least one, and the count
    lives in `0 .. len(table)`. -/
theorem walk_stops (t : RTable) (num den k r q : Nat) (sq iso : Bool) (oracle : WalkOracle)
    (hk : 2 ≤ k) (hkeys : t.map (·.1) = allStates k (2 * r + 1)) :
    let total := k ^ (2 * r + 1)
    let c0 := quiescentCount t q
    let W := tableWalkThrough t num den k r q sq iso oracle
    let c1 := quiescentCount W.table q
    (lamGt total c0 num den = true → lamGt total c1 num den = false ∨ downCands q sq W.table = []) ∧
    (lamLt total c0 num den = true → lamLt total c1 num den = false ∨ upCands q sq W.table = []) := by
  intro total c0 W c1
  have hlen : (allStates k (2 * r + 1)).length = k ^ (2 * r + 1) := allStates_length _ _
  have htl : t.length = (allStates k (2 * r + 1)).length := by rw [← hkeys, List.length_map]
  refine ⟨?_, ?_⟩
  · intro hgt
    have heq : lamEq total c0 num den = false := by
      simp only [lamGt, lamEq, decide_eq_true_eq, decide_eq_false_iff_not] at hgt ⊢; omega
    show lamGt total (quiescentCount (tableWalkThrough t num den k r q sq iso oracle).table q) num den = false
      ∨ downCands q sq (tableWalkThrough t num den k r q sq iso oracle).table = []
    unfold tableWalkThrough
    dsimp only
    rw [if_neg (by rw [heq]; simp), if_pos hgt]
    exact walkDown_stops k (2 * r + 1) q sq iso num den oracle (allStates k (2 * r + 1))
      (fun u hu => reverse_mem_allStates k _ hk (by omega) u hu) hlen t.length { table := t } hkeys
      (by rw [htl]; omega)
  · intro hlt
    have heq : lamEq total c0 num den = false := by
      simp only [lamLt, lamEq, decide_eq_true_eq, decide_eq_false_iff_not] at hlt ⊢; omega
    have hgt : lamGt total c0 num den = false := by
      simp only [lamLt, lamGt, decide_eq_true_eq, decide_eq_false_iff_not] at hlt ⊢; omega
    show lamLt total (quiescentCount (tableWalkThrough t num den k r q sq iso oracle).table q) num den = false
      ∨ upCands q sq (tableWalkThrough t num den k r q sq iso oracle).table = []
    unfold tableWalkThrough
    dsimp only
    rw [if_neg (by rw [heq]; simp), if_neg (by rw [hgt]; simp)]
    exact walkUp_stops k (2 * r + 1) q sq iso num den oracle hk t.length { table := t }
      (quiescentCount_le_length t q)

/-! ## `table_rule` -/

/-- `table_rule` returns `v` exactly when the table maps the neighbourhood's digit string to `v`, and raises
    `ValueError` exactly when the string is not a key. -/
theorem tableRule_spec (nb : List Nat) (t : RTable) :
    (∀ v, tableRule nb t = .ok v ↔ t.get nb = some v) ∧
    (tableRule nb t = .error .ValueError ↔ nb ∉ t.map (·.1)) ∧
    (∀ e, tableRule nb t = .error e → e = .ValueError) := by
  unfold tableRule
  refine ⟨?_, ?_, ?_⟩
  · intro v
    cases h : t.get nb with
    | none => simp
    | some w => simp
  · rw [← RTable.get_eq_none_iff]
    cases h : t.get nb with
    | none => simp
    | some w => simp
  · intro e
    cases h : t.get nb with
    | none => simp; exact fun h => h.symm
    | some w => simp

/-- With distinct keys (as in every table above) the value returned is the one stored with that key. -/
theorem tableRule_entry (nb : List Nat) (t : RTable) (hnd : (t.map (·.1)).Nodup) (v : Nat) :
    tableRule nb t = .ok v ↔ (nb, v) ∈ t := by
  rw [(tableRule_spec nb t).1 v]
  exact ⟨RTable.mem_of_get t nb v, RTable.get_of_mem t hnd nb v⟩

/-- **Total on its own alphabet**: on a complete table (key list `allStates k n`, values `< k`) `table_rule`
    succeeds, with a value `< k`, exactly for the neighbourhoods of `n` digits below `k`. -/
theorem tableRule_total (k n : Nat) (t : RTable) (hk : 2 ≤ k) (hn : 1 ≤ n)
    (hkeys : t.map (·.1) = allStates k n) (hrange : ∀ e ∈ t, e.2 < k) (nb : List Nat) :
    ((nb.length = n ∧ ∀ d ∈ nb, d < k) → ∃ v, v < k ∧ tableRule nb t = .ok v) ∧
    (¬ (nb.length = n ∧ ∀ d ∈ nb, d < k) → tableRule nb t = .error .ValueError) := by
  rw [← mem_allStates_iff k n hk hn nb, ← hkeys]
  constructor
  · intro hmem
    obtain ⟨v, hv⟩ := (RTable.get_isSome_iff t nb).mpr hmem
    exact ⟨v, hrange _ (RTable.mem_of_get t nb v hv), ((tableRule_spec nb t).1 v).mpr hv⟩
  · intro hmem
    exact (tableRule_spec nb t).2.1.mpr hmem

/-- In particular `table_rule` is total on the alphabet of a table built by `random_rule_table`. -/
theorem tableRule_total_rrt (k r q : Nat) (sq iso : Bool) (oracle : RrtOracle) (st : RrtSt) (hk : 2 ≤ k)
    (h : randomRuleTable k r q sq iso oracle = .ok st) (nb : List Nat)
    (hlen : nb.length = 2 * r + 1) (hdig : ∀ d ∈ nb, d < k) :
    ∃ v, v < k ∧ tableRule nb st.table = .ok v := by
  obtain ⟨hkeys, hrange⟩ := rrt_complete k r q sq iso oracle st hk h
  exact (tableRule_total k (2 * r + 1) st.table hk (by omega) hkeys hrange nb).1 ⟨hlen, hdig⟩

/-- …and of the table returned by `table_walk_through` on it. -/
theorem tableRule_total_walk (t : RTable) (num den k r q : Nat) (sq iso : Bool) (oracle : WalkOracle)
    (hk : 2 ≤ k) (hq : q < k) (hkeys : t.map (·.1) = allStates k (2 * r + 1))
    (hrange : ∀ e ∈ t, e.2 < k) (nb : List Nat) (hlen : nb.length = 2 * r + 1) (hdig : ∀ d ∈ nb, d < k) :
    ∃ v, v < k ∧ tableRule nb (tableWalkThrough t num den k r q sq iso oracle).table = .ok v :=
  (tableRule_total k (2 * r + 1) _ hk (by omega)
    ((walk_keys t num den k r q sq iso oracle hk hkeys).trans hkeys)
    (walk_range t num den k r q sq iso oracle hk hq hrange) nb).1 ⟨hlen, hdig⟩

/-! ## Non-vacuity: concrete small tables -/

/-- An oracle that alternates "other state" / "quiescent". -/
private def o1 : RrtOracle := fun i => if i % 2 = 0 then some i else none

/-- `k = 2, r = 1, q = 0`, both flags: the 8-entry table, 3 quiescent entries, 4 random decisions. -/
private def t0 : RTable :=
  [([0,0,0],0), ([0,0,1],1), ([0,1,0],0), ([0,1,1],1), ([1,0,0],1), ([1,0,1],0), ([1,1,0],1), ([1,1,1],1)]

example : (randomRuleTable 2 1 0 true true o1).toOption.map (fun s => (s.table, s.count, s.used))
    = some (t0, 3, 4) := by decide

/-- `n = 1`: every key is uniform, strong quiescence forces the identity table and no random decision. -/
example : (randomRuleTable 3 0 1 true false o1).toOption.map (fun s => (s.table, s.count, s.used))
    = some ([([0],0), ([1],1), ([2],2)], 1, 0) := by decide

example : (randomRuleTable 2 1 2 true false o1).toOption = none := by decide

example : allStates 2 3 = [[0,0,0],[0,0,1],[0,1,0],[0,1,1],[1,0,0],[1,0,1],[1,1,0],[1,1,1]] := by decide

/-- Walk down from lambda 5/8 towards 1/4 (isotropic: two entries per iteration): 5/8 → 3/8 → 1/8, crossed. -/
example : (tableWalkThrough t0 1 4 2 1 0 true true (fun i => (i + 1, i))).table =
    [([0,0,0],0), ([0,0,1],0), ([0,1,0],0), ([0,1,1],0), ([1,0,0],0), ([1,0,1],0), ([1,1,0],0), ([1,1,1],1)] := by
  decide

/-- Walk up towards lambda 1 under strong quiescence: stops at 7/8 because no admissible entry remains. -/
example : (tableWalkThrough t0 1 1 2 1 0 true true (fun i => (i + 1, i))).table =
    [([0,0,0],0), ([0,0,1],1), ([0,1,0],1), ([0,1,1],1), ([1,0,0],1), ([1,0,1],1), ([1,1,0],1), ([1,1,1],1)] ∧
    upCands 0 true (tableWalkThrough t0 1 1 2 1 0 true true (fun i => (i + 1, i))).table = [] := by
  decide

example : tableRule [0,1,1] t0 = .ok 1 := by decide
example : tableRule [0,2,1] t0 = .error .ValueError := by decide
example : tableRule [0,1] t0 = .error .ValueError := by decide

end Cpl.C17
