import Cpl.Spec.Ring
import Cpl.Lemmas.Evolve1D
import Cpl.Lemmas.Memo1D

/-!
# C09 — memoization invokes the rule at most once per distinct neighbourhood (1D part)

The calls are observed through `recorder f`, a pure rule that appends `(n, c, t)` to its state on
every invocation — the model-side twin of the harness's recording wrapper.
-/

namespace Cpl.C09
open Cpl Cpl.Spec

variable {α : Type}

/-- All neighbourhood contents that occur when stepping from each of the given rows. -/
def occurring [Inhabited α] (r : Nat) (rows : List (List α)) : List (List α) :=
  rows.flatMap fun row => (List.range row.length).map (window row r)

/-- **memoize=True invokes the rule exactly once for each distinct neighbourhood content that occurs**
    within one `evolve` call: the recorded neighbourhoods are duplicate-free and are exactly the
    contents occurring in the rows that were stepped from (start row and all new rows but the last). -/
theorem memo_calls_exactly_once [DecidableEq α] [Inhabited α] (f : List α → α) (hist : List (List α))
    (init : List α) (hlast : hist.getLast? = some init) (T : Nat) (hT : 1 ≤ T) (r : Nat) (h1 : 1 ≤ r)
    (h2 : r ≤ init.length) (out : List (List α)) (log : List (List α × Nat × Nat))
    (h : evolveFixed hist T (recorder f) r .memo [] = .ok (out, log)) :
    (log.map (·.1)).Nodup ∧
    ∀ n, n ∈ log.map (·.1) ↔ n ∈ occurring r ((init :: pureRun f r (T - 1) init).take (T - 1)) := by
  rw [evolveFixed_eq (recorder f) .memo (by decide) hist init hlast T hT r []] at h
  have hlog : (fixedLoop .memo (recorder f) r (T - 1) 1 init Caches.empty []).2.2 = log := by
    injection h with h; exact (Prod.mk.inj h).2
  obtain ⟨⟨i1, i2⟩, i3, _⟩ := fixedLoop_memo_calls f r h1 (T - 1) 1 init Caches.empty [] h2
    (CachesOK_empty f r) MemoInv_nil
  rw [hlog] at i1 i2
  refine ⟨i1, fun n => ?_⟩
  rw [i2 n, i3 n]
  simp only [Caches.empty, List.map_nil, List.not_mem_nil, false_or]
  rfl

/-- **memoize='recursive' invokes the rule at most once per distinct neighbourhood**, only on
    neighbourhoods that occur, and within one step at most once per cell — hence never more often
    than the unmemoized evolution. -/
theorem rec_calls_at_most_once [DecidableEq α] [Inhabited α] (f : List α → α) (hist : List (List α))
    (init : List α) (hlast : hist.getLast? = some init) (T : Nat) (hT : 1 ≤ T) (r : Nat) (h1 : 1 ≤ r)
    (h2 : r ≤ init.length) (out : List (List α)) (log : List (List α × Nat × Nat))
    (h : evolveFixed hist T (recorder f) r .recursive [] = .ok (out, log)) :
    (log.map (·.1)).Nodup ∧
    (∀ n, n ∈ log.map (·.1) → n ∈ occurring r ((init :: pureRun f r (T - 1) init).take (T - 1))) ∧
    (∀ t, ((log.filter (fun e => e.2.2 = t)).map (·.2.1)).Nodup) ∧
    (∀ e ∈ log, e.2.1 < init.length ∧ 1 ≤ e.2.2 ∧ e.2.2 ≤ T - 1) := by
  rw [evolveFixed_eq (recorder f) .recursive (by decide) hist init hlast T hT r []] at h
  have hlog : (fixedLoop .recursive (recorder f) r (T - 1) 1 init Caches.empty []).2.2 = log := by
    injection h with h; exact (Prod.mk.inj h).2
  obtain ⟨new, a1, a2, a3, a4, _⟩ := fixedLoop_rec_calls f r h1 (T - 1) 1 init Caches.empty [] h2
    (CachesOK_empty f r) RecInv_nil
  rw [hlog, List.nil_append] at a1
  rw [hlog] at a2
  subst a1
  refine ⟨a2.1, ?_, a4, ?_⟩
  · intro n hn
    obtain ⟨e, he, rfl⟩ := List.mem_map.mp hn
    exact (a3 e he).1
  · intro e he
    obtain ⟨_, c2, c3, c4⟩ := a3 e he
    exact ⟨c2, c3, by omega⟩

/-- Never more calls than the unmemoized evolution makes (`N` per step), in either memo mode. -/
theorem memo_calls_le_plain [DecidableEq α] [Inhabited α] (f : List α → α) (mode : Mode)
    (hm : mode = .memo ∨ mode = .recursive) (hist : List (List α))
    (init : List α) (hlast : hist.getLast? = some init) (T : Nat) (hT : 1 ≤ T) (r : Nat) (h1 : 1 ≤ r)
    (h2 : r ≤ init.length) (out : List (List α)) (log : List (List α × Nat × Nat))
    (h : evolveFixed hist T (recorder f) r mode [] = .ok (out, log)) :
    log.length ≤ init.length * (T - 1) := by
  have hmb : mode ≠ .bad := by rcases hm with rfl | rfl <;> decide
  rw [evolveFixed_eq (recorder f) mode hmb hist init hlast T hT r []] at h
  have hlog : (fixedLoop mode (recorder f) r (T - 1) 1 init Caches.empty []).2.2 = log := by
    injection h with h; exact (Prod.mk.inj h).2
  rcases hm with rfl | rfl
  · obtain ⟨_, _, i4⟩ := fixedLoop_memo_calls f r h1 (T - 1) 1 init Caches.empty [] h2
      (CachesOK_empty f r) MemoInv_nil
    rw [hlog] at i4
    simpa using i4
  · obtain ⟨new, a1, _, _, _, a5⟩ := fixedLoop_rec_calls f r h1 (T - 1) 1 init Caches.empty [] h2
      (CachesOK_empty f r) RecInv_nil
    rw [hlog, List.nil_append] at a1
    subst a1
    exact a5

end Cpl.C09
