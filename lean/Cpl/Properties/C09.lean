import Cpl.Model.Evolve1D
namespace Cpl.C09
theorem placeholder : True := trivial
end Cpl.C09
