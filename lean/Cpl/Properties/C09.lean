import Cpl.Spec.Ring
import Cpl.Lemmas.Evolve1D
import Cpl.Lemmas.Memo1D

/-!
# C09 — memoization invokes the rule at most once per distinct neighbourhood (1D part)

The calls are observed through `recorder f`, a pure rule that appends `(n, c, t)` to its state on
every invocation — the model-side twin of the harness's recording wrapper.
-/

namespace Cpl.C09
open Cpl Cpl.Spec

variable {α : Type}

/-- All neighbourhood contents that occur when stepping from each of the given rows. -/
def occurring [Inhabited α] (r : Nat) (rows : List (List α)) : List (List α) :=
  rows.flatMap fun row => (List.range row.length).map (window row r)

/-- **memoize=True invokes the rule exactly once for each distinct neighbourhood content that occurs**
    within one `evolve` call: the recorded neighbourhoods are duplicate-free and are exactly the
    contents occurring in the rows that were stepped from (start row and all new rows but the last). -/
theorem memo_calls_exactly_once [DecidableEq α] [Inhabited α] (f : List α → α) (hist : List (List α))
    (init : List α) (hlast : hist.getLast? = some init) (T : Nat) (hT : 1 ≤ T) (r : Nat) (h1 : 1 ≤ r)
    (h2 : r ≤ init.length) (out : List (List α)) (log : List (List α × Nat × Nat))
    (h : evolveFixed hist T (recorder f) r .memo [] = .ok (out, log)) :
    (log.map (·.1)).Nodup ∧
    ∀ n, n ∈ log.map (·.1) ↔ n ∈ occurring r ((init :: pureRun f r (T - 1) init).take (T - 1)) := by
  sorry

/-- **memoize='recursive' invokes the rule at most once per distinct neighbourhood**, only on
    neighbourhoods that occur, and within one step at most once per cell — hence never more often
    than the unmemoized evolution. -/
theorem rec_calls_at_most_once [DecidableEq α] [Inhabited α] (f : List α → α) (hist : List (List α))
    (init : List α) (hlast : hist.getLast? = some init) (T : Nat) (hT : 1 ≤ T) (r : Nat) (h1 : 1 ≤ r)
    (h2 : r ≤ init.length) (out : List (List α)) (log : List (List α × Nat × Nat))
    (h : evolveFixed hist T (recorder f) r .recursive [] = .ok (out, log)) :
    (log.map (·.1)).Nodup ∧
    (∀ n, n ∈ log.map (·.1) → n ∈ occurring r ((init :: pureRun f r (T - 1) init).take (T - 1))) ∧
    (∀ t, ((log.filter (fun e => e.2.2 = t)).map (·.2.1)).Nodup) ∧
    (∀ e ∈ log, e.2.1 < init.length ∧ 1 ≤ e.2.2 ∧ e.2.2 ≤ T - 1) := by
  sorry

/-- Never more calls than the unmemoized evolution makes (`N` per step), in either memo mode. -/
theorem memo_calls_le_plain [DecidableEq α] [Inhabited α] (f : List α → α) (mode : Mode)
    (hm : mode = .memo ∨ mode = .recursive) (hist : List (List α))
    (init : List α) (hlast : hist.getLast? = some init) (T : Nat) (hT : 1 ≤ T) (r : Nat) (h1 : 1 ≤ r)
    (h2 : r ≤ init.length) (out : List (List α)) (log : List (List α × Nat × Nat))
    (h : evolveFixed hist T (recorder f) r mode [] = .ok (out, log)) :
    log.length ≤ init.length * (T - 1) := by
  sorry

end Cpl.C09
