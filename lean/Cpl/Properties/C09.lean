import Cpl.Spec.Ring
import Cpl.Lemmas.Evolve1D
import Cpl.Lemmas.Memo1D
import Cpl.Lemmas.Memo2D
import Cpl.Lemmas.Calls2D

/-!
# C09 — memoization invokes the rule at most once per distinct neighbourhood (1D part)

The calls are observed through `recorder f`, a pure rule that appends `(n, c, t)` to its state on
every invocation — the model-side twin of the harness's recording wrapper.
-/

namespace Cpl.C09
open Cpl Cpl.Spec

variable {α : Type}

/-- All neighbourhood contents that occur when stepping from each of the given rows. -/
def occurring [Inhabited α] (r : Nat) (rows : List (List α)) : List (List α) :=
  rows.flatMap fun row => (List.range row.length).map (window row r)

/-- **memoize=True invokes the rule exactly once for each distinct neighbourhood content that occurs**
    within one `evolve` call: the recorded neighbourhoods are duplicate-free and are exactly the
    contents occurring in the rows that were stepped from (start row and all new rows but the last). -/
theorem memo_calls_exactly_once [DecidableEq α] [Inhabited α] (f : List α → α) (hist : List (List α))
    (init : List α) (hlast : hist.getLast? = some init) (T : Nat) (hT : 1 ≤ T) (r : Nat) (h1 : 1 ≤ r)
    (h2 : r ≤ init.length) (out : List (List α)) (log : List (List α × Nat × Nat))
    (h : evolveFixed hist T (recorder f) r .memo [] = .ok (out, log)) :
    (log.map (·.1)).Nodup ∧
    ∀ n, n ∈ log.map (·.1) ↔ n ∈ occurring r ((init :: pureRun f r (T - 1) init).take (T - 1)) := by
  rw [evolveFixed_eq (recorder f) .memo (by decide) hist init hlast T hT r []] at h
  have hlog : (fixedLoop .memo (recorder f) r (T - 1) 1 init Caches.empty []).2.2 = log := by
    injection h with h; exact (Prod.mk.inj h).2
  obtain ⟨⟨i1, i2⟩, i3, _⟩ := fixedLoop_memo_calls f r h1 (T - 1) 1 init Caches.empty [] h2
    (CachesOK_empty f r) MemoInv_nil
  rw [hlog] at i1 i2
  refine ⟨i1, fun n => ?_⟩
  rw [i2 n, i3 n]
  simp only [Caches.empty, List.map_nil, List.not_mem_nil, false_or]
  rfl

/-- **memoize='recursive' invokes the rule at most once per distinct neighbourhood**, only on
    neighbourhoods that occur, and within one step at most once per cell — hence never more often
    than the unmemoized evolution. -/
theorem rec_calls_at_most_once [DecidableEq α] [Inhabited α] (f : List α → α) (hist : List (List α))
    (init : List α) (hlast : hist.getLast? = some init) (T : Nat) (hT : 1 ≤ T) (r : Nat) (h1 : 1 ≤ r)
    (h2 : r ≤ init.length) (out : List (List α)) (log : List (List α × Nat × Nat))
    (h : evolveFixed hist T (recorder f) r .recursive [] = .ok (out, log)) :
    (log.map (·.1)).Nodup ∧
    (∀ n, n ∈ log.map (·.1) → n ∈ occurring r ((init :: pureRun f r (T - 1) init).take (T - 1))) ∧
    (∀ t, ((log.filter (fun e => e.2.2 = t)).map (·.2.1)).Nodup) ∧
    (∀ e ∈ log, e.2.1 < init.length ∧ 1 ≤ e.2.2 ∧ e.2.2 ≤ T - 1) := by
  rw [evolveFixed_eq (recorder f) .recursive (by decide) hist init hlast T hT r []] at h
  have hlog : (fixedLoop .recursive (recorder f) r (T - 1) 1 init Caches.empty []).2.2 = log := by
    injection h with h; exact (Prod.mk.inj h).2
  obtain ⟨new, a1, a2, a3, a4, _⟩ := fixedLoop_rec_calls f r h1 (T - 1) 1 init Caches.empty [] h2
    (CachesOK_empty f r) RecInv_nil
  rw [hlog, List.nil_append] at a1
  rw [hlog] at a2
  subst a1
  refine ⟨a2.1, ?_, a4, ?_⟩
  · intro n hn
    obtain ⟨e, he, rfl⟩ := List.mem_map.mp hn
    exact (a3 e he).1
  · intro e he
    obtain ⟨_, c2, c3, c4⟩ := a3 e he
    exact ⟨c2, c3, by omega⟩

/-- Never more calls than the unmemoized evolution makes (`N` per step), in either memo mode. -/
theorem memo_calls_le_plain [DecidableEq α] [Inhabited α] (f : List α → α) (mode : Mode)
    (hm : mode = .memo ∨ mode = .recursive) (hist : List (List α))
    (init : List α) (hlast : hist.getLast? = some init) (T : Nat) (hT : 1 ≤ T) (r : Nat) (h1 : 1 ≤ r)
    (h2 : r ≤ init.length) (out : List (List α)) (log : List (List α × Nat × Nat))
    (h : evolveFixed hist T (recorder f) r mode [] = .ok (out, log)) :
    log.length ≤ init.length * (T - 1) := by
  have hmb : mode ≠ .bad := by rcases hm with rfl | rfl <;> decide
  rw [evolveFixed_eq (recorder f) mode hmb hist init hlast T hT r []] at h
  have hlog : (fixedLoop mode (recorder f) r (T - 1) 1 init Caches.empty []).2.2 = log := by
    injection h with h; exact (Prod.mk.inj h).2
  rcases hm with rfl | rfl
  · obtain ⟨_, _, i4⟩ := fixedLoop_memo_calls f r h1 (T - 1) 1 init Caches.empty [] h2
      (CachesOK_empty f r) MemoInv_nil
    rw [hlog] at i4
    simpa using i4
  · obtain ⟨new, a1, _, _, _, a5⟩ := fixedLoop_rec_calls f r h1 (T - 1) 1 init Caches.empty [] h2
      (CachesOK_empty f r) RecInv_nil
    rw [hlog, List.nil_append] at a1
    subst a1
    exact a5

end Cpl.C09

/-!
# C09 — 2D: `evolve2d` memoization invokes the rule at most once per distinct neighbourhood

The calls are observed through `recorder2 f`, which appends `(n, (row, col), t)` to its state on every
invocation; `n` is the neighbourhood as handed to the rule, i.e. *masked* for von Neumann (masked cells
are `none`, so they do not count for the identity of a neighbourhood). `memoize=True` is keyed by the
masked neighbourhood; `memoize='recursive'` is keyed by the *unmasked* block of states, so for von
Neumann two calls may share the same masked neighbourhood (the blocks differ in masked corners only):
there the duplicate-freeness is stated for the unmasked blocks, and for the neighbourhoods under Moore.
-/

namespace Cpl.C09
open Cpl Cpl.Spec Cpl.Calls2D

variable {α : Type}

/-- All (masked) neighbourhoods that occur when stepping from each of the given `R × C` grids. -/
def occurring2 [Inhabited α] (R C r : Nat) (vn : Bool) (grids : List (Grid α)) : List (Nbhd2 α) :=
  grids.flatMap fun g => (cellsRowMajor R C).map fun c => nbhd g R C r vn c.1 c.2

/-- **memoize=True invokes the rule exactly once for each distinct (masked) neighbourhood that occurs**
    within one `evolve2d` call: the recorded neighbourhoods are duplicate-free and are exactly the
    neighbourhoods `nbhd g R C r vn i j` of all cells of the grids that were stepped from (start grid
    and all new grids but the last). -/
theorem memo2_calls_exactly_once [DecidableEq α] [Inhabited α] (f : Nbhd2 α → α) (hist : List (Grid α))
    (init : Grid α) (hlast : hist.getLast? = some init) (T : Nat) (hT : 1 ≤ T) (R C r : Nat)
    (nb : NbType) (hnb : nb ≠ .unknown) (hg : Rect init R C) (hR1 : 1 ≤ R) (hC1 : 1 ≤ C) (hR : r ≤ R)
    (hC : r ≤ C) (out : List (Grid α)) (log : List (Nbhd2 α × (Nat × Nat) × Nat))
    (h : evolve2dFixed hist T (recorder2 f) r nb .memo [] = .ok (out, log)) :
    (log.map (·.1)).Nodup ∧
    ∀ n, n ∈ log.map (·.1) ↔
      n ∈ occurring2 R C r (decide (nb = .vonNeumann))
        ((init :: pureRun2 f R C r (decide (nb = .vonNeumann)) (T - 1) init).take (T - 1)) := by
  have _ := hC1
  rw [evolve2dFixed_eq (recorder2 f) .memo (by decide) hist init hlast T hT r nb hnb []] at h
  have hlog : (fixedLoop2 .memo (recorder2 f) r (decide (nb = .vonNeumann)) (T - 1) 1 init
      Caches2.empty []).2.2 = log := by
    injection h with h; exact (Prod.mk.inj h).2
  obtain ⟨⟨i1, i2⟩, i3, _⟩ := fixedLoop2_memo_calls f R C r (decide (nb = .vonNeumann)) hR1 hR hC (T - 1) 1
    init Caches2.empty [] hg (CachesOK2_empty f r _) MemoInv2_nil
  rw [hlog] at i1 i2
  refine ⟨i1, fun n => ?_⟩
  rw [i2 n, i3 n]
  simp only [Caches2.empty, List.map_nil, List.not_mem_nil, false_or]
  rfl

/-- **memoize='recursive' invokes the rule at most once per cell within a step, only on neighbourhoods
    that occur, and at most once per distinct unmasked block of states.** With
    `grids = init :: pureRun2 … (T-1) init` (the grid stepped from at step `t` is `grids[t-1]`):
    * within one step the recorded cells are duplicate-free;
    * every recorded call is for a cell inside the grid, at a step `1 ≤ t ≤ T-1`, with exactly the
      (masked) neighbourhood of that cell in the grid stepped from — in particular it occurs;
    * the unmasked blocks `torusWindow grids[t-1] R C r row col` of the recorded calls are pairwise
      different. -/
theorem rec2_calls_at_most_once [DecidableEq α] [Inhabited α] (f : Nbhd2 α → α) (hist : List (Grid α))
    (init : Grid α) (hlast : hist.getLast? = some init) (T : Nat) (hT : 1 ≤ T) (R C r : Nat)
    (nb : NbType) (hnb : nb ≠ .unknown) (hg : Rect init R C) (hR1 : 1 ≤ R) (hC1 : 1 ≤ C) (hR : r ≤ R)
    (hC : r ≤ C) (out : List (Grid α)) (log : List (Nbhd2 α × (Nat × Nat) × Nat))
    (h : evolve2dFixed hist T (recorder2 f) r nb .recursive [] = .ok (out, log)) :
    (∀ t, ((log.filter (fun e => e.2.2 = t)).map (·.2.1)).Nodup) ∧
    (∀ e ∈ log, e.2.1.1 < R ∧ e.2.1.2 < C ∧ 1 ≤ e.2.2 ∧ e.2.2 ≤ T - 1 ∧
      e.1 = nbhd ((init :: pureRun2 f R C r (decide (nb = .vonNeumann)) (T - 1) init)[e.2.2 - 1]!)
              R C r (decide (nb = .vonNeumann)) e.2.1.1 e.2.1.2) ∧
    (∀ n, n ∈ log.map (·.1) →
      n ∈ occurring2 R C r (decide (nb = .vonNeumann))
        ((init :: pureRun2 f R C r (decide (nb = .vonNeumann)) (T - 1) init).take (T - 1))) ∧
    (log.map fun e =>
      torusWindow ((init :: pureRun2 f R C r (decide (nb = .vonNeumann)) (T - 1) init)[e.2.2 - 1]!)
        R C r e.2.1.1 e.2.1.2).Nodup := by
  have _ := hC1
  rw [evolve2dFixed_eq (recorder2 f) .recursive (by decide) hist init hlast T hT r nb hnb []] at h
  have hlog : (fixedLoop2 .recursive (recorder2 f) r (decide (nb = .vonNeumann)) (T - 1) 1 init
      Caches2.empty []).2.2 = log := by
    injection h with h; exact (Prod.mk.inj h).2
  obtain ⟨new, a1, a2, a3, a4, _⟩ := fixedLoop2_rec_calls f R C r (decide (nb = .vonNeumann)) hR1 hR hC
    (T - 1) 1 init Caches2.empty [] [] hg (CachesOK2_empty f r _) RecInv2_nil
  rw [hlog, List.nil_append] at a1
  subst a1
  have hall : ∀ e ∈ log, e.2.1.1 < R ∧ e.2.1.2 < C ∧ 1 ≤ e.2.2 ∧ e.2.2 ≤ T - 1 ∧
      e.1 = nbhd ((init :: pureRun2 f R C r (decide (nb = .vonNeumann)) (T - 1) init)[e.2.2 - 1]!)
              R C r (decide (nb = .vonNeumann)) e.2.1.1 e.2.1.2 := by
    intro e he
    obtain ⟨c1, c2, c3, c4, c5⟩ := a3 e he
    exact ⟨c2, c3, c4, by omega, c1⟩
  refine ⟨a4, hall, ?_, ?_⟩
  · intro n hn
    obtain ⟨e, he, rfl⟩ := List.mem_map.mp hn
    obtain ⟨c1, c2, c3, c4, c5⟩ := hall e he
    rw [c5]
    unfold occurring2
    rw [List.mem_flatMap]
    refine ⟨_, getElem!_mem_take _ (e.2.2 - 1) (T - 1) (by omega)
      (by simp [Dyn2D.pureRun2_length]; omega), ?_⟩
    exact List.mem_map.mpr ⟨e.2.1, (Memo2D.mem_cellsRowMajor R C _).mpr ⟨c1, c2⟩, rfl⟩
  · have := a2.1
    rw [List.nil_append] at this
    exact this

/-- **Moore neighbourhood, memoize='recursive'**: nothing is masked, so the recorded neighbourhoods
    themselves are duplicate-free (at most one call per distinct neighbourhood content). For von Neumann
    this is *not* claimed: two blocks differing only in masked corners give the same masked neighbourhood
    but different cache keys. -/
theorem rec2_calls_nodup_moore [DecidableEq α] [Inhabited α] (f : Nbhd2 α → α) (hist : List (Grid α))
    (init : Grid α) (hlast : hist.getLast? = some init) (T : Nat) (hT : 1 ≤ T) (R C r : Nat)
    (hg : Rect init R C) (hR1 : 1 ≤ R) (hC1 : 1 ≤ C) (hR : r ≤ R) (hC : r ≤ C) (out : List (Grid α))
    (log : List (Nbhd2 α × (Nat × Nat) × Nat))
    (h : evolve2dFixed hist T (recorder2 f) r .moore .recursive [] = .ok (out, log)) :
    (log.map (·.1)).Nodup := by
  obtain ⟨_, h2, _, h4⟩ := rec2_calls_at_most_once f hist init hlast T hT R C r .moore (by decide) hg hR1
    hC1 hR hC out log h
  have hvn : decide (NbType.moore = NbType.vonNeumann) = false := by decide
  rw [hvn] at h2 h4
  unfold List.Nodup at h4 ⊢
  rw [List.pairwise_map] at h4 ⊢
  refine h4.imp_of_mem ?_
  intro a b ha hb hab hcon
  apply hab
  have ea := (h2 a ha).2.2.2.2
  have eb := (h2 b hb).2.2.2.2
  rw [ea, eb, ← applyMask_torusWindow, ← applyMask_torusWindow] at hcon
  simp only [Bool.false_eq_true, if_false, applyMask] at hcon
  have hinj : ∀ x y : List α, x.map some = y.map some → x = y := by
    intro x y hxy
    exact (List.map_inj_right (fun _ _ h => Option.some.inj h)).mp hxy
  exact (List.map_inj_right hinj).mp hcon

/-- Never more calls than the unmemoized evolution makes (`R * C` per step), in either memo mode. -/
theorem memo2_calls_le_plain [DecidableEq α] [Inhabited α] (f : Nbhd2 α → α) (mode : Mode)
    (hm : mode = .memo ∨ mode = .recursive) (hist : List (Grid α))
    (init : Grid α) (hlast : hist.getLast? = some init) (T : Nat) (hT : 1 ≤ T) (R C r : Nat)
    (nb : NbType) (hnb : nb ≠ .unknown) (hg : Rect init R C) (hR1 : 1 ≤ R) (hC1 : 1 ≤ C) (hR : r ≤ R)
    (hC : r ≤ C) (out : List (Grid α)) (log : List (Nbhd2 α × (Nat × Nat) × Nat))
    (h : evolve2dFixed hist T (recorder2 f) r nb mode [] = .ok (out, log)) :
    log.length ≤ R * C * (T - 1) := by
  have _ := hC1
  have hmb : mode ≠ .bad := by rcases hm with rfl | rfl <;> decide
  rw [evolve2dFixed_eq (recorder2 f) mode hmb hist init hlast T hT r nb hnb []] at h
  have hlog : (fixedLoop2 mode (recorder2 f) r (decide (nb = .vonNeumann)) (T - 1) 1 init
      Caches2.empty []).2.2 = log := by
    injection h with h; exact (Prod.mk.inj h).2
  rcases hm with rfl | rfl
  · obtain ⟨_, _, i4⟩ := fixedLoop2_memo_calls f R C r (decide (nb = .vonNeumann)) hR1 hR hC (T - 1) 1
      init Caches2.empty [] hg (CachesOK2_empty f r _) MemoInv2_nil
    rw [hlog] at i4
    simpa using i4
  · obtain ⟨new, a1, _, _, _, a5⟩ := fixedLoop2_rec_calls f R C r (decide (nb = .vonNeumann)) hR1 hR hC
      (T - 1) 1 init Caches2.empty [] [] hg (CachesOK2_empty f r _) RecInv2_nil
    rw [hlog, List.nil_append] at a1
    subst a1
    exact a5

/-! ## Non-vacuity: under von Neumann, memoize='recursive' does call the rule twice on the same masked
neighbourhood (a 4×4 grid with a single 1 at (0,0), `r = 1`, one step: cell (1,1) sees the 1 in a masked
corner only, so its masked neighbourhood equals that of cell (2,2), but the cache keys differ);
memoize=True and the Moore neighbourhood do not. -/
example : ((evolve2dFixed [[[1, 0, 0, 0], [0, 0, 0, 0], [0, 0, 0, 0], [0, 0, 0, 0]]] 2
      (recorder2 (fun _ => (0 : Nat))) 1 .vonNeumann .recursive []).toOption.map
    (fun p => decide ((p.2.map (·.1)).Nodup))) = some false := by decide
example : ((evolve2dFixed [[[1, 0, 0, 0], [0, 0, 0, 0], [0, 0, 0, 0], [0, 0, 0, 0]]] 2
      (recorder2 (fun _ => (0 : Nat))) 1 .vonNeumann .memo []).toOption.map
    (fun p => decide ((p.2.map (·.1)).Nodup))) = some true := by decide
example : nbhd [[1, 0, 0, 0], [0, 0, 0, 0], [0, 0, 0, 0], [0, 0, 0, 0]] 4 4 1 true 1 1
    = nbhd [[1, 0, 0, 0], [0, 0, 0, 0], [0, 0, 0, 0], [0, 0, 0, 0]] 4 4 1 true 2 2 := by decide
example : torusWindow [[1, 0, 0, 0], [0, 0, 0, 0], [0, 0, 0, 0], [0, 0, 0, 0]] 4 4 1 1 1
    ≠ torusWindow [[1, 0, 0, 0], [0, 0, 0, 0], [0, 0, 0, 0], [0, 0, 0, 0]] 4 4 1 2 2 := by decide

end Cpl.C09
