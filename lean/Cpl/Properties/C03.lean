import Cpl.Spec.Ring
import Cpl.Lemmas.Evolve1D
import Cpl.Lemmas.Memo1D

/-!
# C03 — 1D memoization is transparent (True and 'recursive' equal False)

`PureVal rule f`: the rule's *result* depends only on the neighbourhood contents (its state may evolve).
Ring size arbitrary (no power-of-two assumption), `1 ≤ r ≤ N` including blocks wider than the ring.
-/

namespace Cpl.C03
open Cpl Cpl.Spec

variable {σ α : Type}

/-- **All three modes compute the same rows**: the given history followed by the pure ring updates. -/
theorem evolveFixed_rows_pure [DecidableEq α] [Inhabited α] (rule : Rule1 σ α) (f : List α → α)
    (hp : PureVal rule f) (mode : Mode) (hm : mode ≠ .bad) (hist : List (List α)) (init : List α)
    (hlast : hist.getLast? = some init) (T : Nat) (hT : 1 ≤ T) (r : Nat) (h1 : 1 ≤ r)
    (h2 : r ≤ init.length) (s : σ) :
    (evolveFixed hist T rule r mode s).map Prod.fst = .ok (hist ++ pureRun f r (T - 1) init) := by
  rw [evolveFixed_eq rule mode hm hist init hlast T hT r s]
  rw [fixedLoop_pure rule f hp mode hm r h1 (T - 1) 1 init Caches.empty s h2 (CachesOK_empty f r)]
  rfl

/-- **memoize=True is transparent.** -/
theorem evolve_memo_eq_plain [DecidableEq α] [Inhabited α] (rule : Rule1 σ α) (f : List α → α)
    (hp : PureVal rule f) (hist : List (List α)) (init : List α) (hlast : hist.getLast? = some init)
    (T : Nat) (hT : 1 ≤ T) (r : Nat) (h1 : 1 ≤ r) (h2 : r ≤ init.length) (s : σ) :
    (evolveFixed hist T rule r .memo s).map Prod.fst = (evolveFixed hist T rule r .plain s).map Prod.fst := by
  rw [evolveFixed_rows_pure rule f hp .memo (by decide) hist init hlast T hT r h1 h2 s,
    evolveFixed_rows_pure rule f hp .plain (by decide) hist init hlast T hT r h1 h2 s]

/-- **memoize='recursive' is transparent**, for every ring size. -/
theorem evolve_rec_eq_plain [DecidableEq α] [Inhabited α] (rule : Rule1 σ α) (f : List α → α)
    (hp : PureVal rule f) (hist : List (List α)) (init : List α) (hlast : hist.getLast? = some init)
    (T : Nat) (hT : 1 ≤ T) (r : Nat) (h1 : 1 ≤ r) (h2 : r ≤ init.length) (s : σ) :
    (evolveFixed hist T rule r .recursive s).map Prod.fst = (evolveFixed hist T rule r .plain s).map Prod.fst := by
  rw [evolveFixed_rows_pure rule f hp .recursive (by decide) hist init hlast T hT r h1 h2 s,
    evolveFixed_rows_pure rule f hp .plain (by decide) hist init hlast T hT r h1 h2 s]

/-- **Callable timesteps**: the memoized dynamic evolutions return the rows of the unmemoized one
    (same fuel, same predicate). -/
theorem evolveDynamic_rows_mode_indep [DecidableEq α] [Inhabited α] (rule : Rule1 σ α) (f : List α → α)
    (hp : PureVal rule f) (mode : Mode) (hm : mode ≠ .bad) (fuel : Nat) (hist : List (List α))
    (init : List α) (hlast : hist.getLast? = some init) (pred : List (List α) → Nat → Bool) (r : Nat)
    (h1 : 1 ≤ r) (h2 : r ≤ init.length) (s : σ) :
    (evolveDynamic fuel hist pred rule r mode s).map (·.map Prod.fst)
      = (evolveDynamic fuel hist pred rule r .plain s).map (·.map Prod.fst) := by
  unfold evolveDynamic
  rw [hlast]
  simp only
  have key := dynLoop_mode_indep rule f hp mode hm r h1 pred fuel 1 [init] init
    Caches.empty Caches.empty s s h2 (CachesOK_empty f r)
  generalize dynLoop mode rule r pred fuel 1 [init] init Caches.empty s = x at key
  generalize dynLoop Mode.plain rule r pred fuel 1 [init] init Caches.empty s = y at key
  rcases x with _ | (e | ⟨acc, sx⟩) <;> rcases y with _ | (e' | ⟨acc', sy⟩) <;>
    simp [Except.map] at key ⊢
  · exact key
  · rw [key]

/-- An unsupported option is rejected as soon as a step would be taken (and only then). -/
theorem bad_mode_rejected [DecidableEq α] [Inhabited α] (rule : Rule1 σ α) (hist : List (List α))
    (init : List α) (hlast : hist.getLast? = some init) (T : Nat) (r : Nat) (s : σ) :
    (2 ≤ T → evolveFixed hist T rule r .bad s = .error .Exception) ∧
    evolveFixed hist 1 rule r .bad s = .ok (hist, s) := by
  constructor
  · intro hT
    unfold evolveFixed
    rw [hlast]
    simp only
    rw [if_neg (by omega), if_pos (by simp; omega)]
  · unfold evolveFixed
    rw [hlast]
    simp [fixedLoop]

/-! ## Mode selection is by value -/

/-- The Python values `memoize` may carry, as far as the model needs them. -/
inductive PyVal where
  | bool (b : Bool) | str (s : String) | none | int (i : Int)
  deriving DecidableEq

/-- `memoize == "recursive"` / `is True` / `is False`, anything else is unsupported. -/
def parseMode : PyVal → Mode
  | .bool false => .plain
  | .bool true => .memo
  | .str s => if s = "recursive" then .recursive else .bad
  | _ => .bad

/-- Any string *equal to* `"recursive"` selects the recursive mode, however it was built. -/
theorem parseMode_by_value (s : String) (h : s = "recursive") : parseMode (.str s) = .recursive := by
  subst h; rfl
example : parseMode (.str (String.join ["recur", "sive"])) = .recursive := by decide
example : parseMode (.str "Recursive") = .bad ∧ parseMode .none = .bad ∧ parseMode (.int 2) = .bad := by decide

/-! ## Non-vacuity -/
example : PureVal (recorder (fun n : List Int => n.foldl (· + ·) 0)) (fun n => n.foldl (· + ·) 0) :=
  fun _ _ _ _ => rfl

end Cpl.C03

/-! ## Translation equivariance (periodic boundary)

`evolve` level of `C01.pureRun_rotate`: rotating the ring handed to `evolve` rotates every row it
returns, for every rule whose result depends only on the neighbourhood, in every supported mode.
Rotation is core `List.rotateLeft` (position `c` of `cells.rotateLeft k` holds `cells[(c + k) % N]`). -/

namespace Cpl.C03
open Cpl Cpl.Spec

variable {σ σ' α : Type}

/-- **General form**: a whole history may be given (all its rows rotated); the two evolutions may even
    use different rule objects / rule states / memoization modes as long as both compute `f`. -/
theorem evolve_rotate_hist [DecidableEq α] [Inhabited α] (rule : Rule1 σ α) (rule' : Rule1 σ' α)
    (f : List α → α) (hp : PureVal rule f) (hp' : PureVal rule' f) (mode mode' : Mode)
    (hm : mode ≠ .bad) (hm' : mode' ≠ .bad) (hist : List (List α)) (init : List α)
    (hlast : hist.getLast? = some init) (k T : Nat) (hT : 1 ≤ T) (r : Nat) (h1 : 1 ≤ r)
    (h2 : r ≤ init.length) (s : σ) (s' : σ') :
    (evolveFixed (hist.map (·.rotateLeft k)) T rule r mode s).map Prod.fst
      = ((evolveFixed hist T rule' r mode' s').map Prod.fst).map (·.map (·.rotateLeft k)) := by
  have hlast' : (hist.map (·.rotateLeft k)).getLast? = some (init.rotateLeft k) := by
    rw [List.getLast?_map, hlast]; rfl
  rw [evolveFixed_rows_pure rule f hp mode hm _ (init.rotateLeft k) hlast' T hT r h1
      (by rw [C01.rotateLeft_length]; exact h2) s,
    evolveFixed_rows_pure rule' f hp' mode' hm' hist init hlast T hT r h1 h2 s',
    C01.pureRun_rotate f r k (T - 1) init h2]
  simp [Except.map]

/-- **`evolve` commutes with rotation of the initial ring**: for a rule computing the pure function `f`,
    in every mode (off / True / 'recursive'), `1 ≤ r ≤ N`, `T ≥ 1` and every `k` (also `k ≥ N`). -/
theorem evolve_rotate [DecidableEq α] [Inhabited α] (rule : Rule1 σ α) (f : List α → α)
    (hp : PureVal rule f) (mode : Mode) (hm : mode ≠ .bad) (cells : List α) (k T : Nat) (hT : 1 ≤ T)
    (r : Nat) (h1 : 1 ≤ r) (h2 : r ≤ cells.length) (s : σ) :
    (evolveFixed [cells.rotateLeft k] T rule r mode s).map Prod.fst
      = ((evolveFixed [cells] T rule r mode s).map Prod.fst).map (·.map (·.rotateLeft k)) := by
  exact evolve_rotate_hist rule rule f hp hp mode mode hm hm [cells] cells rfl k T hT r h1 h2 s s

/-- The same with both sides spelled out: the rows are the rotated rows of the pure run. -/
theorem evolve_rotate_rows [DecidableEq α] [Inhabited α] (rule : Rule1 σ α) (f : List α → α)
    (hp : PureVal rule f) (mode : Mode) (hm : mode ≠ .bad) (cells : List α) (k T : Nat) (hT : 1 ≤ T)
    (r : Nat) (h1 : 1 ≤ r) (h2 : r ≤ cells.length) (s : σ) :
    (evolveFixed [cells.rotateLeft k] T rule r mode s).map Prod.fst
      = .ok ((cells :: pureRun f r (T - 1) cells).map (·.rotateLeft k)) := by
  rw [evolve_rotate rule f hp mode hm cells k T hT r h1 h2 s,
    evolveFixed_rows_pure rule f hp mode hm [cells] cells rfl T hT r h1 h2 s]
  rfl

/-! ### Non-vacuity (memoization on, recorder around an asymmetric rule, `k ≥ N`) -/
example : ((evolveFixed [[1, 0, 0, 1, 0].rotateLeft 7] 3 (recorder (fun n : List Nat => (n[0]! + 2 * n[1]!) % 3)) 1
      .memo []).map Prod.fst).toOption
    = some ([[1, 0, 0, 1, 0], [2, 1, 0, 2, 1], [2, 1, 1, 1, 1]].map (·.rotateLeft 7)) := by decide

end Cpl.C03
