import Cpl.Model.Evolve1D
namespace Cpl.C03
theorem placeholder : True := trivial
end Cpl.C03
