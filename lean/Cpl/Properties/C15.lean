import Cpl.Model.Ctrbl
import Cpl.Lemmas.Ctrbl

/-!
# C15 — CTRBL rule tables and the built-in loops are rotation-closed and total

`CTRBLRule` answers with the table entry for (centre, top, right, bottom, left) of the 3×3 neighbourhood
and raises `ValueError` for an absent combination; with `add_rotations` the table is closed under the four
quarter-turns of (top, right, bottom, left), so the answer does not depend on orientation.
`LangtonsLoop`, `SDSRLoop` and `Evoloop` are orientation-independent over all states, and `SDSRLoop` and
`Evoloop` are total over states 0–8 with results in 0–8, following Sayama's default rules for combinations
outside their tables.

Quantifiers: **all** user rule tables, **all** integer keys (so in particular all 8^5 / 9^5 state
combinations).  The facts about the generated table literals (`Cpl.Gen`) are re-checked by `decide` against
the current source on every run.
-/

namespace Cpl.C15
open Cpl Cpl.Gen Cpl.Ctrbl

/-! ## 1. `CTRBLRule.__call__` -/

/-- **The call answers with the table entry and raises `ValueError` for an absent combination; the key is
    (centre, top, right, bottom, left) of the 3×3 neighbourhood.** -/
theorem ctrbl_call :
    (∀ (tbl : Table) (k : Key5) (v : Int), ctrblCall tbl k = .ok v ↔ tbl.lookup k = some v) ∧
    (∀ (tbl : Table) (k : Key5), tbl.lookup k = none → ctrblCall tbl k = .error .ValueError) ∧
    (∀ a b c d e f g h i : Int, keyOf [[a, b, c], [d, e, f], [g, h, i]] = (e, b, f, h, d)) := by
  refine ⟨?_, ?_, ?_⟩
  · intro tbl k v
    unfold ctrblCall
    cases tbl.lookup k with
    | none => simp
    | some w => simp
  · intro tbl k h
    unfold ctrblCall
    rw [h]
  · intros; rfl

/-- The call either answers or raises `ValueError`, nothing else. -/
theorem ctrbl_call_cases (tbl : Table) (k : Key5) :
    (∃ v, ctrblCall tbl k = .ok v) ∨ ctrblCall tbl k = .error .ValueError := by
  unfold ctrblCall
  cases tbl.lookup k with
  | none => exact Or.inr rfl
  | some w => exact Or.inl ⟨w, rfl⟩

/-! ## 2. Tables built with `add_rotations` are closed under the quarter turns -/

/-- The four orientations of a key, as used below. -/
theorem orbit_def (k : Key5) : orbit k = [k, rot k, rot (rot k), rot (rot (rot k))] := rfl

/-- Four quarter turns are the identity. -/
theorem rot_four (k : Key5) : rot (rot (rot (rot k))) = k := rot4 k

/-- **For every input table, the table built with rotations answers identically on a key and on its
    quarter turn** (absent stays absent). -/
theorem initTable_rot_invariant (entries : List (Key5 × Int)) (k : Key5) :
    (initTable entries true).lookup (rot k) = (initTable entries true).lookup k :=
  initTable_rotInv entries k

/-- … hence identically on all four orientations of the key. -/
theorem initTable_orbit_invariant (entries : List (Key5 × Int)) (k k' : Key5) (h : k' ∈ orbit k) :
    (initTable entries true).lookup k' = (initTable entries true).lookup k := by
  rcases mem_orbit_iff.mp h with h | h | h | h <;> subst h <;>
    simp only [initTable_rot_invariant]

/-- The call on such a table does not depend on the orientation of the neighbourhood. -/
theorem ctrbl_call_rot (entries : List (Key5 × Int)) (k : Key5) :
    ctrblCall (initTable entries true) (rot k) = ctrblCall (initTable entries true) k := by
  unfold ctrblCall
  rw [initTable_rot_invariant]

/-- **Which entry answers**: with rotations, the answer for `k` is the image of the *last* input entry whose
    rotation class contains `k` (each entry writes its whole class), and `k` is absent if there is none. -/
theorem initTable_last_wins (entries : List (Key5 × Int)) (k : Key5) :
    (initTable entries true).lookup k
      = (entries.reverse.find? fun e => decide (k ∈ orbit e.1)).map (·.2) :=
  initTable_lookup entries k

/-! ## 3. The built table is faithful to the input -/

/-- **If the input assigns one image per rotation class, every input entry and each rotation of it answers
    with the entry's image.** -/
theorem initTable_faithful (entries : List (Key5 × Int))
    (hcons : ∀ k v k' v', (k, v) ∈ entries → (k', v') ∈ entries → k' ∈ orbit k → v' = v)
    (k : Key5) (v : Int) (hk : (k, v) ∈ entries) :
    ∀ k' ∈ orbit k, (initTable entries true).lookup k' = some v := by
  intro k' hk'
  rw [initTable_lookup]
  cases hf : entries.reverse.find? fun e => decide (k' ∈ orbit e.1) with
  | none =>
    have := List.find?_eq_none.mp hf (k, v) (List.mem_reverse.mpr hk)
    simp [hk'] at this
  | some e =>
    have he : e ∈ entries := List.mem_reverse.mp (List.mem_of_find?_eq_some hf)
    have hp : k' ∈ orbit e.1 := by simpa using List.find?_some hf
    have : e.1 ∈ orbit k := mem_orbit_trans (mem_orbit_symm hp) hk'
    have := hcons k v e.1 e.2 hk he this
    simp [this]

/-- Without any hypothesis on the input, its **last** line is honoured in all four orientations. -/
theorem initTable_last_line (entries : List (Key5 × Int)) (e : Key5 × Int) (h : entries.getLast? = some e) :
    ∀ k' ∈ orbit e.1, (initTable entries true).lookup k' = some e.2 :=
  fun k' hk' => initTable_getLast entries e h k' hk'

/-- **Without rotations the lookups are those of the input, later entries winning.** -/
theorem initTable_no_rot (entries : List (Key5 × Int)) (k : Key5) :
    (initTable entries false).lookup k = entries.reverse.lookup k := by
  rw [initTable_false]

/-- **The pairs of the built table are exactly the input pairs and, when rotating, their rotations**:
    every key is an input key or a rotation of one, and carries that entry's image. -/
theorem initTable_keys (entries : List (Key5 × Int)) (addRot : Bool) (k : Key5) (v : Int) :
    (k, v) ∈ initTable entries addRot
      ↔ ∃ k0, (k0, v) ∈ entries ∧ (k = k0 ∨ (addRot = true ∧ k ∈ orbit k0)) :=
  mem_initTable addRot entries k v

/-- In terms of answers: whatever the table answers is the image of an input entry whose key is `k`
    or (when rotating) a rotation of `k`. -/
theorem initTable_answer_origin (entries : List (Key5 × Int)) (addRot : Bool) (k : Key5) (v : Int)
    (h : (initTable entries addRot).lookup k = some v) :
    ∃ k0, (k0, v) ∈ entries ∧ (k = k0 ∨ (addRot = true ∧ k ∈ orbit k0)) :=
  (initTable_keys entries addRot k v).mp (mem_of_lookup_eq_some h)

/-- A key is present (no `ValueError`) exactly if it is an input key or, when rotating, a rotation of one. -/
theorem initTable_defined_iff (entries : List (Key5 × Int)) (addRot : Bool) (k : Key5) :
    (∃ v, (initTable entries addRot).lookup k = some v)
      ↔ ∃ e ∈ entries, k = e.1 ∨ (addRot = true ∧ k ∈ orbit e.1) := by
  constructor
  · rintro ⟨v, hv⟩
    obtain ⟨k0, hm, hk⟩ := initTable_answer_origin entries addRot k v hv
    exact ⟨(k0, v), hm, hk⟩
  · rintro ⟨e, he, hk⟩
    exact lookup_isSome_of_mem ((initTable_keys entries addRot k e.2).mpr ⟨e.1, he, hk⟩)

/-! ## 4. The built-in loops do not depend on orientation (all integer states) -/

/-- The shipped tables are built with `add_rotations=True` (checked against the source). -/
theorem builtin_add_rotations : langtonAddRotations = true ∧ evoloopAddRotations = true := by decide

/-- **Langton's loop: same answer (or same `ValueError`) on a key and its quarter turn, for all integers.** -/
theorem langton_rot (c t r b l : Int) : langtonLoop (rot (c, t, r, b, l)) = langtonLoop (c, t, r, b, l) := by
  unfold langtonLoop langtonTable
  rw [builtin_add_rotations.1]
  exact ctrbl_call_rot _ _

/-- **SDSR's extra assignments are closed under the quarter turn and give one image per key**
    (checked against the source). -/
theorem sdsrExtra_closed :
    (∀ e ∈ sdsrExtra, (rot e.1, e.2) ∈ sdsrExtra) ∧
    (∀ e ∈ sdsrExtra, ∀ e' ∈ sdsrExtra, e'.1 = e.1 → e'.2 = e.2) := by decide

/-- SDSR's table (Langton's table overridden by the extra assignments) is rotation-invariant. -/
theorem sdsrTable_rot (k : Key5) : sdsrTable.lookup (rot k) = sdsrTable.lookup k := by
  have h : sdsrTable = sdsrExtra.reverse ++ langtonTable := foldl_cons_eq _ _
  rw [h]
  refine rotInv_append sdsrExtra langtonTable sdsrExtra_closed.1 sdsrExtra_closed.2 ?_ k
  unfold langtonTable
  rw [builtin_add_rotations.1]
  exact initTable_rotInv _

/-- Every extra assignment of SDSR is honoured as written (it overrides Langton's table). -/
theorem sdsr_extras_honoured : ∀ e ∈ sdsrExtra, sdsrLoop e.1 = some e.2 := by
  intro e he
  have h : sdsrTable = sdsrExtra.reverse ++ langtonTable := foldl_cons_eq _ _
  have hfun : ∀ e ∈ sdsrExtra.reverse, ∀ e' ∈ sdsrExtra.reverse, e'.1 = e.1 → e'.2 = e.2 :=
    fun e he e' he' => sdsrExtra_closed.2 e (List.mem_reverse.mp he) e' (List.mem_reverse.mp he')
  have hl : sdsrExtra.reverse.lookup e.1 = some e.2 :=
    lookup_of_functional hfun (List.mem_reverse.mpr he)
  unfold sdsrLoop
  rw [h, List.lookup_append, hl]
  rfl

/-- **SDSR loop: same result on a key and its quarter turn, for all integers** (table part and default
    part alike). -/
theorem sdsr_rot (c t r b l : Int) : sdsrLoop (rot (c, t, r, b, l)) = sdsrLoop (c, t, r, b, l) := by
  unfold sdsrLoop
  rw [sdsrTable_rot, sdsrDefault_rot]

/-- **Evoloop: same result on a key and its quarter turn, for all integers.** -/
theorem evoloop_rot (c t r b l : Int) : evoloop (rot (c, t, r, b, l)) = evoloop (c, t, r, b, l) := by
  unfold evoloop
  have h : evoloopTable.lookup (rot (c, t, r, b, l)) = evoloopTable.lookup (c, t, r, b, l) := by
    unfold evoloopTable
    rw [builtin_add_rotations.2]
    exact initTable_rotInv _ _
  rw [h, evoloopDefault_rot]

/-- All four orientations, spelled out. -/
theorem loops_all_orientations (c t r b l : Int) :
    (langtonLoop (c, l, t, r, b) = langtonLoop (c, t, r, b, l) ∧
     langtonLoop (c, b, l, t, r) = langtonLoop (c, t, r, b, l) ∧
     langtonLoop (c, r, b, l, t) = langtonLoop (c, t, r, b, l)) ∧
    (sdsrLoop (c, l, t, r, b) = sdsrLoop (c, t, r, b, l) ∧
     sdsrLoop (c, b, l, t, r) = sdsrLoop (c, t, r, b, l) ∧
     sdsrLoop (c, r, b, l, t) = sdsrLoop (c, t, r, b, l)) ∧
    (evoloop (c, l, t, r, b) = evoloop (c, t, r, b, l) ∧
     evoloop (c, b, l, t, r) = evoloop (c, t, r, b, l) ∧
     evoloop (c, r, b, l, t) = evoloop (c, t, r, b, l)) := by
  have L1 := langton_rot c t r b l
  have L2 := langton_rot c l t r b
  have L3 := langton_rot c b l t r
  have S1 := sdsr_rot c t r b l
  have S2 := sdsr_rot c l t r b
  have S3 := sdsr_rot c b l t r
  have E1 := evoloop_rot c t r b l
  have E2 := evoloop_rot c l t r b
  have E3 := evoloop_rot c b l t r
  simp only [rot] at L1 L2 L3 S1 S2 S3 E1 E2 E3
  exact ⟨⟨L1, L2.trans L1, L3.trans (L2.trans L1)⟩, ⟨S1, S2.trans S1, S3.trans (S2.trans S1)⟩,
    ⟨E1, E2.trans E1, E3.trans (E2.trans E1)⟩⟩

/-! ## 6. Sayama's default rules as decision tables

(The numbering follows the work plan; the totality theorems of part 5 use these and come after.) -/

/-- The rules for a cell next to an 8 (shared by SDSR and Evoloop), for `c ∈ 0..7`:
    0 and 1 become 8 when some state 2..7 is adjacent and stay unchanged otherwise;
    2, 3, 5 become 0; 4, 6, 7 become 1. -/
def eightSpec (c t r b l : Int) : Int :=
  if c = 0 ∨ c = 1 then (if ∃ x ∈ [t, r, b, l], 2 ≤ x ∧ x ≤ 7 then 8 else c)
  else if c = 2 ∨ c = 3 ∨ c = 5 then 0
  else 1

/-- Evoloop outside its table: 8 always becomes 0; next to an 8 the 8-neighbour rules;
    otherwise undefined 0 stays 0 and undefined 1..7 become 8. -/
def evoloopSpec (c t r b l : Int) : Int :=
  if c = 8 then 0
  else if 8 ∈ [t, r, b, l] then eightSpec c t r b l
  else if c = 0 then 0
  else 8

/-- SDSR outside its table: 8 always becomes 0; next to an 8 the 8-neighbour rules (they come last in the
    code, so they take precedence over the tube rules); otherwise the tube rules:
    0 becomes 1 in the tube next to a 1, else stays 0;
    1 in the tube follows an adjacent 7, else 6, else 4; 1 otherwise is undefined, so 8;
    2 becomes 1 next to a 3, else stays 2 next to another 2, else 8;
    4, 6, 7 in the tube next to a 0 become 0, else 8;
    3 and 5 become 8. -/
def sdsrSpec (c t r b l : Int) : Int :=
  if c = 8 then 0
  else if 8 ∈ [t, r, b, l] then eightSpec c t r b l
  else if c = 0 then (if inTube t r b l ∧ 1 ∈ [t, r, b, l] then 1 else 0)
  else if c = 1 then
    (if inTube t r b l then
       (if 7 ∈ [t, r, b, l] then 7 else if 6 ∈ [t, r, b, l] then 6 else if 4 ∈ [t, r, b, l] then 4 else 8)
     else 8)
  else if c = 2 then (if 3 ∈ [t, r, b, l] then 1 else if 2 ∈ [t, r, b, l] then 2 else 8)
  else if c = 4 ∨ c = 6 ∨ c = 7 then (if inTube t r b l ∧ 0 ∈ [t, r, b, l] then 0 else 8)
  else 8

/-- "In the tube": at least two of the four neighbours are in states 1, 2, 4, 6, 7. -/
theorem inTube_iff (t r b l : Int) :
    inTube t r b l = true ↔ 2 ≤ [t, r, b, l].countP (fun s => decide (s ∈ [1, 2, 4, 6, 7])) := by
  have : (fun s : Int => decide (s ∈ [1, 2, 4, 6, 7])) = fun site => mem site [1, 2, 4, 6, 7] := by
    funext s; rw [mem_eq_decide]
  rw [this, List.countP_eq_length_filter]
  simp [inTube]

/-- **Evoloop's sequential-override code equals the decision table, for all integer neighbours and
    `0 ≤ c ≤ 8`.** -/
theorem evoloop_default_eq_spec (c t r b l : Int) (h0 : 0 ≤ c) (h8 : c ≤ 8) :
    evoloopDefault (c, t, r, b, l) = some (evoloopSpec c t r b l) := by
  simp only [evoloopDefault, eightRules_eq, cleanup_eq, evoloopSpec, eightSpec]
  generalize [t, r, b, l] = trbl
  have hc : c = 0 ∨ c = 1 ∨ c = 2 ∨ c = 3 ∨ c = 4 ∨ c = 5 ∨ c = 6 ∨ c = 7 ∨ c = 8 := by omega
  by_cases p8 : 8 ∈ trbl <;> by_cases p27 : (∃ x ∈ trbl, 2 ≤ x ∧ x ≤ 7) <;>
  rcases hc with rfl | rfl | rfl | rfl | rfl | rfl | rfl | rfl | rfl <;> simp [p8, p27]

/-- **SDSR's sequential-override code equals the decision table, for all integer neighbours and
    `0 ≤ c ≤ 8`.** -/
theorem sdsr_default_eq_spec (c t r b l : Int) (h0 : 0 ≤ c) (h8 : c ≤ 8) :
    sdsrDefault (c, t, r, b, l) = some (sdsrSpec c t r b l) := by
  have h2 : mem c [4, 6, 7] = decide (c = 4 ∨ c = 6 ∨ c = 7) := by
    rw [Bool.eq_iff_iff]; simp [mem]
  simp only [sdsrDefault, eightRules_eq, cleanup_eq, sdsrSpec, eightSpec, h2]
  simp only [mem_eq_decide]
  generalize inTube t r b l = tube
  generalize [t, r, b, l] = trbl
  have hc : c = 0 ∨ c = 1 ∨ c = 2 ∨ c = 3 ∨ c = 4 ∨ c = 5 ∨ c = 6 ∨ c = 7 ∨ c = 8 := by omega
  clear h2
  by_cases p8 : 8 ∈ trbl <;> by_cases p27 : (∃ x ∈ trbl, 2 ≤ x ∧ x ≤ 7) <;>
  rcases hc with rfl | rfl | rfl | rfl | rfl | rfl | rfl | rfl | rfl <;> simp [p8, p27] <;>
    (repeat' split) <;> simp_all

/-- Outside 0..8 both default functions return Python's `None` (the library is only specified on 0..8). -/
theorem defaults_none_outside (c t r b l : Int) (h : c < 0 ∨ 8 < c) :
    sdsrDefault (c, t, r, b, l) = none ∧ evoloopDefault (c, t, r, b, l) = none := by
  have h2 : mem c [4, 6, 7] = decide (c = 4 ∨ c = 6 ∨ c = 7) := by
    rw [Bool.eq_iff_iff]; simp [mem]
  have n0 : c ≠ 0 := by omega
  have n1 : c ≠ 1 := by omega
  have n2 : c ≠ 2 := by omega
  have n3 : c ≠ 3 := by omega
  have n4 : c ≠ 4 := by omega
  have n5 : c ≠ 5 := by omega
  have n6 : c ≠ 6 := by omega
  have n7 : c ≠ 7 := by omega
  have n8 : c ≠ 8 := by omega
  have n17 : ¬(1 ≤ c ∧ c ≤ 7) := by omega
  constructor
  · simp [sdsrDefault, eightRules_eq, cleanup_eq, h2, n0, n1, n2, n3, n4, n5, n6, n7, n8, n17]
  · simp [evoloopDefault, eightRules_eq, cleanup_eq, n0, n1, n2, n3, n4, n5, n6, n7, n8, n17]

/-- The decision tables only produce states 0..8. -/
theorem spec_range (c t r b l : Int) (h0 : 0 ≤ c) (h8 : c ≤ 8) :
    (0 ≤ sdsrSpec c t r b l ∧ sdsrSpec c t r b l ≤ 8) ∧
    (0 ≤ evoloopSpec c t r b l ∧ evoloopSpec c t r b l ≤ 8) := by
  unfold sdsrSpec evoloopSpec eightSpec
  constructor <;> (repeat' split) <;> omega

/-! ## 5. SDSR and Evoloop are total over states 0..8, with results in 0..8 -/

/-- Every image in the shipped tables is a state: Langton's in 0..7, Evoloop's and SDSR's extras in 0..8
    (checked against the source). -/
theorem table_images_in_range :
    (∀ e ∈ langtonEntries, 0 ≤ e.2 ∧ e.2 ≤ 7) ∧
    (∀ e ∈ evoloopEntries, 0 ≤ e.2 ∧ e.2 ≤ 8) ∧
    (∀ e ∈ sdsrExtra, 0 ≤ e.2 ∧ e.2 ≤ 8) := by decide +kernel

/-- Whatever SDSR's table answers is an image of Langton's table or of the extra assignments, for a key
    with the same centre. -/
theorem sdsrTable_answer_origin (k : Key5) (v : Int) (h : sdsrTable.lookup k = some v) :
    ∃ e, (e ∈ langtonEntries ∨ e ∈ sdsrExtra) ∧ e.2 = v ∧ e.1.1 = k.1 := by
  have hs : sdsrTable = sdsrExtra.reverse ++ langtonTable := foldl_cons_eq _ _
  have hm := mem_of_lookup_eq_some h
  rw [hs, List.mem_append, List.mem_reverse] at hm
  rcases hm with hm | hm
  · exact ⟨(k, v), Or.inr hm, rfl, rfl⟩
  · obtain ⟨k0, hk0, hk⟩ := (initTable_keys _ _ k v).mp hm
    refine ⟨(k0, v), Or.inl hk0, rfl, ?_⟩
    rcases hk with hk | ⟨_, hk⟩
    · rw [hk]
    · exact (centre_of_mem_orbit hk).symm

/-- **SDSR loop is total on centres 0..8 with results in 0..8** — for all integer neighbours, in particular
    for all 9^5 combinations of states 0..8. -/
theorem sdsr_total (c t r b l : Int) (h0 : 0 ≤ c) (h8 : c ≤ 8) :
    ∃ v, sdsrLoop (c, t, r, b, l) = some v ∧ 0 ≤ v ∧ v ≤ 8 := by
  unfold sdsrLoop
  cases hl : sdsrTable.lookup (c, t, r, b, l) with
  | some v =>
    refine ⟨v, rfl, ?_⟩
    obtain ⟨e, he, hv, _⟩ := sdsrTable_answer_origin _ _ hl
    rcases he with he | he
    · have := table_images_in_range.1 e he; omega
    · have := table_images_in_range.2.2 e he; omega
  | none =>
    exact ⟨sdsrSpec c t r b l, sdsr_default_eq_spec c t r b l h0 h8, (spec_range c t r b l h0 h8).1⟩

/-- **Evoloop is total on centres 0..8 with results in 0..8** — for all integer neighbours, in particular
    for all 9^5 combinations of states 0..8. -/
theorem evoloop_total (c t r b l : Int) (h0 : 0 ≤ c) (h8 : c ≤ 8) :
    ∃ v, evoloop (c, t, r, b, l) = some v ∧ 0 ≤ v ∧ v ≤ 8 := by
  unfold evoloop
  cases hl : evoloopTable.lookup (c, t, r, b, l) with
  | some v =>
    refine ⟨v, rfl, ?_⟩
    obtain ⟨k0, hk0, _⟩ := initTable_answer_origin _ _ _ _ hl
    exact table_images_in_range.2.1 (k0, v) hk0
  | none =>
    exact ⟨evoloopSpec c t r b l, evoloop_default_eq_spec c t r b l h0 h8, (spec_range c t r b l h0 h8).2⟩

/-- Outside their tables the loops follow the decision tables. -/
theorem loops_follow_spec (c t r b l : Int) (h0 : 0 ≤ c) (h8 : c ≤ 8) :
    (sdsrTable.lookup (c, t, r, b, l) = none → sdsrLoop (c, t, r, b, l) = some (sdsrSpec c t r b l)) ∧
    (evoloopTable.lookup (c, t, r, b, l) = none → evoloop (c, t, r, b, l) = some (evoloopSpec c t r b l)) := by
  constructor
  · intro h; unfold sdsrLoop; rw [h]; exact sdsr_default_eq_spec c t r b l h0 h8
  · intro h; unfold evoloop; rw [h]; exact evoloop_default_eq_spec c t r b l h0 h8

/-! ## 7. Corollaries named in the property -/

/-- No shipped table assigns a centre 8 anything but 0 (checked against the source; today no table key has
    centre 8 at all). -/
theorem table_centre_eight :
    (∀ e ∈ langtonEntries, e.1.1 = 8 → e.2 = 0) ∧
    (∀ e ∈ evoloopEntries, e.1.1 = 8 → e.2 = 0) ∧
    (∀ e ∈ sdsrExtra, e.1.1 = 8 → e.2 = 0) := by decide +kernel

/-- **8 always becomes 0**, in SDSR and in Evoloop, whatever the four neighbours (all integers). -/
theorem eight_becomes_zero (t r b l : Int) :
    sdsrLoop (8, t, r, b, l) = some 0 ∧ evoloop (8, t, r, b, l) = some 0 := by
  constructor
  · unfold sdsrLoop
    cases hl : sdsrTable.lookup (8, t, r, b, l) with
    | some v =>
      obtain ⟨e, he, hv, hc⟩ := sdsrTable_answer_origin _ _ hl
      rcases he with he | he
      · rw [← hv, table_centre_eight.1 e he hc]
      · rw [← hv, table_centre_eight.2.2 e he hc]
    | none =>
      show sdsrDefault (8, t, r, b, l) = some 0
      rw [sdsr_default_eq_spec 8 t r b l (by decide) (by decide)]
      simp [sdsrSpec]
  · unfold evoloop
    cases hl : evoloopTable.lookup (8, t, r, b, l) with
    | some v =>
      obtain ⟨k0, hk0, hk⟩ := initTable_answer_origin _ _ _ _ hl
      have hc : k0.1 = 8 := by
        rcases hk with hk | ⟨_, hk⟩
        · rw [← hk]
        · exact (centre_of_mem_orbit (mem_orbit_symm hk))
      have hv : v = 0 := table_centre_eight.2.1 (k0, v) hk0 hc
      rw [hv]
    | none =>
      show evoloopDefault (8, t, r, b, l) = some 0
      rw [evoloop_default_eq_spec 8 t r b l (by decide) (by decide)]
      simp [evoloopSpec]

/-- **Every value Langton's loop can return lies in 0..7.** -/
theorem langton_value_range (k : Key5) (v : Int) (h : langtonLoop k = .ok v) : 0 ≤ v ∧ v ≤ 7 := by
  unfold langtonLoop at h
  have hl := (ctrbl_call.1 _ _ _).mp h
  obtain ⟨k0, hk0, _⟩ := initTable_answer_origin _ _ _ _ hl
  exact table_images_in_range.1 (k0, v) hk0

/-- Langton's loop answers exactly on the rotation classes of its listed keys, and raises `ValueError`
    everywhere else. -/
theorem langton_defined_iff (k : Key5) :
    (∃ v, langtonLoop k = .ok v) ↔ ∃ e ∈ langtonEntries, k ∈ orbit e.1 := by
  unfold langtonLoop langtonTable
  rw [builtin_add_rotations.1]
  constructor
  · rintro ⟨v, hv⟩
    obtain ⟨e, he, hk⟩ := (initTable_defined_iff _ true k).mp ⟨v, (ctrbl_call.1 _ _ _).mp hv⟩
    refine ⟨e, he, ?_⟩
    rcases hk with hk | ⟨_, hk⟩
    · rw [hk]; exact mem_orbit_self _
    · exact hk
  · rintro ⟨e, he, hk⟩
    obtain ⟨v, hv⟩ := (initTable_defined_iff _ true k).mpr ⟨e, he, Or.inr ⟨rfl, hk⟩⟩
    exact ⟨v, (ctrbl_call.1 _ _ _).mpr hv⟩

/-! ## 8. Informational facts about the shipped tables

That no two lines of one rotation class carry different images is *not* part of the property (with
conflicting lines the last one would simply win, and every theorem above would still hold). It holds for the
tables as shipped and is kept in `Cpl/Info/C15Tables.lean`, which the check builds and reports in its
evidence without treating a failure as a broken obligation. -/

/-! ## Non-vacuity -/

/-- A user table with rotations: one line answers in all four orientations; other keys raise. -/
example :
    let tbl := initTable [((1, 2, 3, 4, 5), 7)] true
    ctrblCall tbl (1, 2, 3, 4, 5) = .ok 7 ∧ ctrblCall tbl (1, 5, 2, 3, 4) = .ok 7 ∧
    ctrblCall tbl (1, 4, 5, 2, 3) = .ok 7 ∧ ctrblCall tbl (1, 3, 4, 5, 2) = .ok 7 ∧
    ctrblCall tbl (1, 2, 3, 5, 4) = .error .ValueError :=
  ⟨(ctrbl_call.1 _ _ _).mpr (by decide), (ctrbl_call.1 _ _ _).mpr (by decide),
   (ctrbl_call.1 _ _ _).mpr (by decide), (ctrbl_call.1 _ _ _).mpr (by decide),
   ctrbl_call.2.1 _ _ (by decide)⟩

/-- Without rotations only the listed orientation answers. -/
example :
    let tbl := initTable [((1, 2, 3, 4, 5), 7)] false
    ctrblCall tbl (1, 2, 3, 4, 5) = .ok 7 ∧ ctrblCall tbl (1, 5, 2, 3, 4) = .error .ValueError :=
  ⟨(ctrbl_call.1 _ _ _).mpr (by decide), ctrbl_call.2.1 _ _ (by decide)⟩

/-- The hypothesis of `initTable_faithful` is needed: with two conflicting lines the later one owns the
    whole rotation class. -/
example :
    let tbl := initTable [((0, 1, 0, 0, 0), 1), ((0, 0, 1, 0, 0), 2)] true
    tbl.lookup (0, 1, 0, 0, 0) = some 2 ∧ tbl.lookup (0, 0, 1, 0, 0) = some 2 := by decide

/-- Langton's table is not empty and its last line answers in all four orientations, so `langton_rot`
    is not about a loop that always raises. (Stated relative to the generated table, not to its values.) -/
example : ∃ e, langtonEntries.getLast? = some e ∧ ∀ k' ∈ orbit e.1, langtonLoop k' = .ok e.2 := by
  refine ⟨_, rfl, fun k' hk' => ?_⟩
  unfold langtonLoop langtonTable
  rw [builtin_add_rotations.1]
  exact (ctrbl_call.1 _ _ _).mpr (initTable_last_line _ _ rfl k' hk')

/-- The same for Evoloop. -/
example : ∃ e, evoloopEntries.getLast? = some e ∧ ∀ k' ∈ orbit e.1, evoloop k' = some e.2 := by
  refine ⟨_, rfl, fun k' hk' => ?_⟩
  unfold evoloop evoloopTable
  rw [builtin_add_rotations.2, initTable_last_line _ _ rfl k' hk']

/-- SDSR has extra assignments, and they are honoured. -/
example : ∃ e, e ∈ sdsrExtra ∧ sdsrLoop e.1 = some e.2 := by
  refine ⟨_, List.mem_of_getLast? (a := _) rfl, ?_⟩
  exact sdsr_extras_honoured _ (List.mem_of_getLast? rfl)

/-- The default rules on concrete neighbourhoods (independent of the tables); outside 0..8 the result is
    Python's `None`. -/
example :
    sdsrDefault (3, 3, 3, 3, 3) = some 8 ∧ sdsrDefault (8, 1, 2, 3, 4) = some 0 ∧
    sdsrDefault (4, 8, 0, 0, 0) = some 1 ∧ sdsrDefault (0, 8, 0, 0, 0) = some 0 ∧
    sdsrDefault (0, 8, 3, 0, 0) = some 8 ∧ sdsrDefault (0, 1, 2, 0, 0) = some 1 ∧
    sdsrDefault (1, 7, 2, 0, 0) = some 7 ∧ sdsrDefault (2, 3, 0, 0, 0) = some 1 ∧
    evoloopDefault (8, 1, 2, 3, 4) = some 0 ∧ evoloopDefault (0, 8, 3, 0, 0) = some 8 ∧
    evoloopDefault (5, 8, 0, 0, 0) = some 0 ∧ evoloopDefault (5, 0, 0, 0, 0) = some 8 ∧
    evoloopDefault (0, 1, 2, 3, 4) = some 0 ∧ evoloopDefault (9, 0, 0, 0, 0) = none := by decide

/-- 8 becomes 0 on concrete neighbourhoods, through the full loops. -/
example : sdsrLoop (8, 1, 2, 3, 4) = some 0 ∧ evoloop (8, 0, 0, 0, 0) = some 0 :=
  ⟨(eight_becomes_zero 1 2 3 4).1, (eight_becomes_zero 0 0 0 0).2⟩

/-- The decision tables take every kind of branch. -/
example :
    sdsrSpec 0 1 1 0 0 = 1 ∧ sdsrSpec 1 7 1 0 0 = 7 ∧ sdsrSpec 1 6 1 0 0 = 6 ∧ sdsrSpec 1 4 1 0 0 = 4 ∧
    sdsrSpec 1 7 0 0 0 = 8 ∧ sdsrSpec 2 3 0 0 0 = 1 ∧ sdsrSpec 2 2 0 0 0 = 2 ∧ sdsrSpec 2 0 0 0 0 = 8 ∧
    sdsrSpec 4 1 1 0 0 = 0 ∧ sdsrSpec 4 1 1 1 1 = 8 ∧ sdsrSpec 3 0 0 0 0 = 8 ∧ sdsrSpec 8 8 8 8 8 = 0 ∧
    sdsrSpec 1 8 0 0 0 = 1 ∧ sdsrSpec 1 8 5 0 0 = 8 ∧ sdsrSpec 6 8 1 1 0 = 1 ∧
    evoloopSpec 0 0 0 0 0 = 0 ∧ evoloopSpec 3 0 0 0 0 = 8 ∧ evoloopSpec 3 8 0 0 0 = 0 := by decide

end Cpl.C15
