import Cpl.Model.Ctrbl
namespace Cpl.C15
theorem placeholder : True := trivial
end Cpl.C15
