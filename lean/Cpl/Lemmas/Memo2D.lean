import Cpl.Spec.Torus
import Cpl.Lemmas.Evolve2D
import Cpl.Properties.C02

/-! # Invariants of the two 2D memoisers (`memoSweep`, `updateRec2` / `stepRec2`), used by C04 and C09.

Low-level helpers live in `Cpl.Memo2D` (to stay clear of `Cpl/Lemmas/Evolve2D.lean`); the invariants
(`TableOK2`, `CacheOK2`, `CachesOK2`) and the step / loop theorems live in `Cpl`, as in `Memo1D.lean`. -/

namespace Cpl
open Py

namespace Memo2D
section Helpers
variable {σ α : Type}

/-- `g[i][j]` (with defaults outside). -/
def get2 [Inhabited α] (g : Grid α) (i j : Nat) : α := (g[i]!)[j]!

/-- Cell `(i, j)` lies in block `b`. -/
def InBlk (b : Blk) (i j : Nat) : Prop := b.r0 ≤ i ∧ i < b.r0 + b.h ∧ b.c0 ≤ j ∧ j < b.c0 + b.w

instance (b : Blk) (i j : Nat) : Decidable (InBlk b i j) := by unfold InBlk; infer_instance

/-! ## Rectangular grids -/

theorem rect_row [Inhabited α] {g : Grid α} {R C : Nat} (hg : Spec.Rect g R C) {i : Nat} (hi : i < R) :
    (g[i]!).length = C := by
  have hl : i < g.length := by rw [hg.1]; exact hi
  rw [getElem!_pos g i hl]
  exact hg.2 _ (List.getElem_mem hl)

theorem rect_gridCols {g : Grid α} {R C : Nat} (hg : Spec.Rect g R C) (hR : 1 ≤ R) : gridCols g = C := by
  obtain ⟨h1, h2⟩ := hg
  cases g with
  | nil => simp at h1; omega
  | cons row rest => simp [gridCols]; exact h2 row (by simp)

theorem rect_zeroGrid [Inhabited α] (R C : Nat) : Spec.Rect (zeroGrid R C : Grid α) R C := by
  refine ⟨by simp [zeroGrid], ?_⟩
  intro row hrow
  simp only [zeroGrid, List.mem_replicate] at hrow
  rw [hrow.2]; simp

theorem rect_pureStep2 [Inhabited α] (f : Nbhd2 α → α) (R C r : Nat) (vn : Bool) (g : Grid α) :
    Spec.Rect (Spec.pureStep2 f R C r vn g) R C := by
  refine ⟨by simp [Spec.pureStep2], ?_⟩
  intro row hrow
  simp only [Spec.pureStep2, List.mem_map, List.mem_range] at hrow
  obtain ⟨i, _, rfl⟩ := hrow
  simp

theorem get2_pureStep2 [Inhabited α] (f : Nbhd2 α → α) (R C r : Nat) (vn : Bool) (g : Grid α)
    (i j : Nat) (hi : i < R) (hj : j < C) :
    get2 (Spec.pureStep2 f R C r vn g) i j = f (Spec.nbhd g R C r vn i j) := by
  simp [get2, Spec.pureStep2, hi, hj]

/-- Extensionality for rectangular grids. -/
theorem rect_ext [Inhabited α] {g g' : Grid α} {R C : Nat} (hg : Spec.Rect g R C) (hg' : Spec.Rect g' R C)
    (h : ∀ i j, i < R → j < C → get2 g i j = get2 g' i j) : g = g' := by
  apply List.ext_getElem
  · rw [hg.1, hg'.1]
  · intro i h1 h2
    have hi : i < R := by rw [← hg.1]; exact h1
    have r1 := rect_row hg hi
    have r2 := rect_row hg' hi
    rw [getElem!_pos g i h1] at r1
    rw [getElem!_pos g' i h2] at r2
    apply List.ext_getElem
    · rw [r1, r2]
    · intro j j1 j2
      have hj : j < C := by rw [← r1]; exact j1
      have := h i j hi hj
      simp only [get2] at this
      rw [getElem!_pos g i h1, getElem!_pos g' i h2, getElem!_pos _ j j1, getElem!_pos _ j j2] at this
      exact this

/-! ## `setCell` -/

theorem rect_setCell {g : Grid α} {R C : Nat} (hg : Spec.Rect g R C) (i j : Nat) (v : α) :
    Spec.Rect (setCell g i j v) R C := by
  refine ⟨by simp [setCell, hg.1], ?_⟩
  intro row hrow
  obtain ⟨k, hk, rfl⟩ := List.mem_iff_getElem.mp hrow
  simp only [setCell, List.length_modify] at hk
  simp only [setCell, List.getElem_modify]
  split
  · rw [List.length_set]; exact hg.2 _ (List.getElem_mem hk)
  · exact hg.2 _ (List.getElem_mem hk)

theorem get2_setCell [Inhabited α] {g : Grid α} {R C : Nat} (hg : Spec.Rect g R C) (i j : Nat) (v : α)
    (a b : Nat) (ha : a < R) (hb : b < C) :
    get2 (setCell g i j v) a b = if a = i ∧ b = j then v else get2 g a b := by
  have hl : a < g.length := by rw [hg.1]; exact ha
  have hrow : (g[a]).length = C := hg.2 _ (List.getElem_mem hl)
  have hl' : a < (setCell g i j v).length := by simp [setCell, hl]
  simp only [get2]
  rw [getElem!_pos _ a hl', getElem!_pos g a hl]
  simp only [setCell, List.getElem_modify]
  by_cases hai : i = a
  · subst hai
    simp only [if_true, true_and]
    by_cases hbj : b = j
    · subst hbj
      rw [if_pos rfl, getElem!_pos _ b (by rw [List.length_set, hrow]; exact hb)]
      simp
    · rw [if_neg hbj, getElem!_pos _ b (by rw [List.length_set, hrow]; exact hb),
        getElem!_pos _ b (by rw [hrow]; exact hb)]
      rw [List.getElem_set_ne (by omega)]
  · rw [if_neg hai, if_neg (by omega)]

/-! ## `setBlock` / `getBlock` -/

theorem rect_setBlock [Inhabited α] {next : Grid α} {R C : Nat} (hg : Spec.Rect next R C) (b : Blk)
    (vals : Grid α) : Spec.Rect (setBlock next b vals) R C := by
  refine ⟨by simp [setBlock, hg.1], ?_⟩
  intro row hrow
  simp only [setBlock, List.mem_map, List.mem_range] at hrow
  obtain ⟨i, hi, rfl⟩ := hrow
  have hr : (next[i]!).length = C := rect_row hg (by rw [← hg.1]; exact hi)
  split
  · rw [List.length_map, List.length_range]; exact hr
  · exact hr

theorem get2_setBlock [Inhabited α] {next : Grid α} {R C : Nat} (hg : Spec.Rect next R C) (b : Blk)
    (vals : Grid α) (i j : Nat) (hi : i < R) (hj : j < C) :
    get2 (setBlock next b vals) i j
      = if InBlk b i j then (vals[i - b.r0]!)[j - b.c0]! else get2 next i j := by
  have hl : i < next.length := by rw [hg.1]; exact hi
  have hr : (next[i]!).length = C := rect_row hg hi
  simp only [get2]
  rw [getElem!_pos _ i (by simp [setBlock, hl])]
  simp only [setBlock, List.getElem_map, List.getElem_range]
  by_cases h1 : b.r0 ≤ i ∧ i < b.r0 + b.h
  · rw [if_pos h1]
    rw [getElem!_pos _ j (by rw [List.length_map, List.length_range, hr]; exact hj)]
    simp only [List.getElem_map, List.getElem_range]
    by_cases h2 : b.c0 ≤ j ∧ j < b.c0 + b.w
    · rw [if_pos h2, if_pos (show InBlk b i j from ⟨h1.1, h1.2, h2.1, h2.2⟩)]
    · rw [if_neg h2, if_neg (fun (h : InBlk b i j) => h2 ⟨h.2.2.1, h.2.2.2⟩)]
  · rw [if_neg h1, if_neg (fun (h : InBlk b i j) => h1 ⟨h.1, h.2.1⟩)]

theorem getBlock_eq [Inhabited α] (next : Grid α) (b : Blk) :
    getBlock next b = (List.range b.h).map fun i => (List.range b.w).map fun j =>
      get2 next (b.r0 + i) (b.c0 + j) := rfl

/-! ## Index lists and gathered sub-windows -/

theorem axisIdx_len (n start len r : Nat) : (axisIdx n start len r).length = len + 2 * r := by
  simp [axisIdx]

/-- The `2r+1` indices at offset `a` of a block's index list are the index list of the single cell. -/
theorem axisIdx_drop_take (n start len r a : Nat) (ha : a < len) :
    ((axisIdx n start len r).drop a).take (2 * r + 1) = axisIdx n (start + a) 1 r := by
  apply List.ext_getElem
  · simp [axisIdx]; omega
  · intro k h1 h2
    simp only [axisIdx, List.getElem_take, List.getElem_drop, List.getElem_map, List.getElem_range]
    have e : ((start : Int) - (r : Int) + ((a + k : Nat) : Int))
        = (((start + a : Nat) : Int) - (r : Int) + (k : Int)) := by omega
    rw [e]

/-- The `(2r+1)²` sub-window of a key at offset `(a, b)`. -/
def subWin (r : Nat) (key : Grid α) (a b : Nat) : Grid α :=
  ((key.drop a).take (2 * r + 1)).map fun row => (row.drop b).take (2 * r + 1)

theorem subWin_ix2 [Inhabited α] (g : Grid α) (rows cols : List Int) (r a b : Nat) :
    subWin r (ix2 g rows cols) a b
      = ix2 g ((rows.drop a).take (2 * r + 1)) ((cols.drop b).take (2 * r + 1)) := by
  simp only [subWin, ix2, ← List.map_drop, ← List.map_take, List.map_map]
  apply List.map_congr_left
  intro i _
  simp [Function.comp, ← List.map_drop, ← List.map_take]

theorem ix2_length [Inhabited α] (g : Grid α) (rows cols : List Int) :
    (ix2 g rows cols).length = rows.length := by simp [ix2]

theorem ix2_gridCols [Inhabited α] (g : Grid α) (rows cols : List Int) (h : 0 < rows.length) :
    gridCols (ix2 g rows cols) = cols.length := by
  cases rows with
  | nil => simp at h
  | cons i rest => simp [gridCols, ix2]

/-- **Key lemma**: the sub-window of a block key at offset `(a, b')` is the cell's own block. -/
theorem subWin_blockKey [Inhabited α] (g : Grid α) (r : Nat) (b : Blk) (a b' : Nat) (ha : a < b.h)
    (hb : b' < b.w) :
    subWin r (blockKey g r b) a b' = blockAt g r (b.r0 + a) (b.c0 + b') := by
  unfold blockKey blockAt
  rw [subWin_ix2, axisIdx_drop_take _ _ _ _ _ ha, axisIdx_drop_take _ _ _ _ _ hb]

/-! ## Cells in row-major order, quadrants -/

theorem mem_cellsRowMajor (R C : Nat) (c : Nat × Nat) : c ∈ cellsRowMajor R C ↔ c.1 < R ∧ c.2 < C := by
  obtain ⟨i, j⟩ := c
  simp only [cellsRowMajor, List.mem_flatMap, List.mem_range, List.mem_map, Prod.mk.injEq]
  constructor
  · rintro ⟨a, ha, b, hb, rfl, rfl⟩; exact ⟨ha, hb⟩
  · rintro ⟨h1, h2⟩; exact ⟨i, h1, j, h2, rfl, rfl⟩

theorem quadrants_inBlk (b : Blk) (i j : Nat) : InBlk b i j ↔ ∃ q ∈ quadrants b, InBlk q i j := by
  simp only [quadrants, InBlk, List.mem_cons, List.not_mem_nil, or_false, exists_eq_or_imp,
    exists_eq_left]
  omega

theorem quadrants_lt (b : Blk) (hb : b.h > 1 ∨ b.w > 1) : ∀ q ∈ quadrants b, q.h + q.w < b.h + b.w := by
  intro q hq
  simp only [quadrants, List.mem_cons, List.not_mem_nil, or_false] at hq
  rcases hq with rfl | rfl | rfl | rfl <;> simp only <;> omega

theorem quadrants_inside (b : Blk) (R C : Nat) (h1 : b.r0 + b.h ≤ R) (h2 : b.c0 + b.w ≤ C) :
    ∀ q ∈ quadrants b, q.r0 + q.h ≤ R ∧ q.c0 + q.w ≤ C := by
  intro q hq
  simp only [quadrants, List.mem_cons, List.not_mem_nil, or_false] at hq
  rcases hq with rfl | rfl | rfl | rfl <;> simp only <;> omega

theorem lookup_mem {κ β : Type} [BEq κ] [LawfulBEq κ] (tbl : List (κ × β)) (n : κ) (v : β)
    (h : tbl.lookup n = some v) : (n, v) ∈ tbl := by
  obtain ⟨l1, l2, rfl, _⟩ := List.lookup_eq_some_iff.mp h
  simp

/-- The mask argument of `applyMask` used by the model. -/
def maskOf (r : Nat) (vn : Bool) : Option (List (List Bool)) := if vn then some (vonNeumannMask r) else none

/-- What a block key determines: the rule value of every masked `(2r+1)²` sub-window. -/
def blockVals (f : Nbhd2 α → α) (r : Nat) (vn : Bool) (key : Grid α) : Grid α :=
  (List.range (key.length - 2 * r)).map fun a =>
    (List.range (gridCols key - 2 * r)).map fun b => f (applyMask (subWin r key a b) (maskOf r vn))

/-- For a block inside the grid the key determines exactly the pure values of the block's cells. -/
theorem blockVals_blockKey [Inhabited α] (f : Nbhd2 α → α) (g : Grid α) (R C r : Nat) (vn : Bool)
    (hg : Spec.Rect g R C) (hR : r ≤ R) (hC : r ≤ C) (b : Blk) (hh : 0 < b.h)
    (h1 : b.r0 + b.h ≤ R) (h2 : b.c0 + b.w ≤ C) :
    blockVals f r vn (blockKey g r b)
      = (List.range b.h).map fun a => (List.range b.w).map fun b' =>
          f (Spec.nbhd g R C r vn (b.r0 + a) (b.c0 + b')) := by
  have hl : (blockKey g r b).length = b.h + 2 * r := by
    unfold blockKey; rw [ix2_length, axisIdx_len]
  have hc : gridCols (blockKey g r b) = b.w + 2 * r := by
    unfold blockKey; rw [ix2_gridCols _ _ _ (by rw [axisIdx_len]; omega), axisIdx_len]
  unfold blockVals
  rw [hl, hc, Nat.add_sub_cancel, Nat.add_sub_cancel]
  apply List.map_congr_left
  intro a ha
  apply List.map_congr_left
  intro b' hb'
  rw [List.mem_range] at ha hb'
  rw [subWin_blockKey g r b a b' ha hb']
  have : applyMask (blockAt g r (b.r0 + a) (b.c0 + b')) (maskOf r vn)
      = getNeighbourhood g r vn (b.r0 + a) (b.c0 + b') := rfl
  rw [this, C02.getNeighbourhood_spec g R C r vn _ _ hg hR hC (by omega) (by omega)]

end Helpers
end Memo2D

open Memo2D

section Values
variable {σ α : Type}

/-! ## Plain and memoised sweeps -/

def TableOK2 (f : Nbhd2 α → α) (tbl : MemoTable2 α) : Prop := ∀ n v, (n, v) ∈ tbl → v = f n

theorem TableOK2_nil (f : Nbhd2 α → α) : TableOK2 f ([] : MemoTable2 α) := by
  intro n v h; cases h

theorem plainSweep_ok [Inhabited α] (rule : Rule2 σ α) (f : Nbhd2 α → α) (hp : PureVal2 rule f)
    (g : Grid α) (R C r : Nat) (vn : Bool) (t : Nat) (hg : Spec.Rect g R C) (hR : r ≤ R) (hC : r ≤ C) :
    ∀ (cells : List (Nat × Nat)) (next : Grid α) (s : σ), (∀ c ∈ cells, c.1 < R ∧ c.2 < C) →
      Spec.Rect next R C →
      Spec.Rect (plainSweep rule g r vn t cells next s).1 R C ∧
      (∀ i j, i < R → j < C → (i, j) ∈ cells →
        get2 (plainSweep rule g r vn t cells next s).1 i j = f (Spec.nbhd g R C r vn i j)) ∧
      (∀ i j, i < R → j < C → (i, j) ∉ cells →
        get2 (plainSweep rule g r vn t cells next s).1 i j = get2 next i j) := by
  intro cells
  induction cells with
  | nil => intro next s _ hn; exact ⟨hn, (by intro i j _ _ h; cases h), (by intro i j _ _ _; rfl)⟩
  | cons c rest ih =>
    intro next s hb hn
    obtain ⟨ci, cj⟩ := c
    have hc := hb (ci, cj) (by simp)
    simp only [plainSweep]
    have hv : (rule s (getNeighbourhood g r vn ci cj) (ci, cj) t).1 = f (Spec.nbhd g R C r vn ci cj) := by
      rw [hp, C02.getNeighbourhood_spec g R C r vn ci cj hg hR hC hc.1 hc.2]
    obtain ⟨a1, a2, a3⟩ := ih (setCell next ci cj (rule s (getNeighbourhood g r vn ci cj) (ci, cj) t).1)
      (rule s (getNeighbourhood g r vn ci cj) (ci, cj) t).2
      (fun c hc => hb c (List.mem_cons_of_mem _ hc)) (rect_setCell hn _ _ _)
    refine ⟨a1, ?_, ?_⟩
    · intro i j hi hj hm
      by_cases hr : (i, j) ∈ rest
      · exact a2 i j hi hj hr
      · rw [a3 i j hi hj hr, get2_setCell hn _ _ _ _ _ hi hj]
        have : (i, j) = (ci, cj) := by
          rcases List.mem_cons.mp hm with h | h
          · exact h
          · exact absurd h hr
        simp only [Prod.mk.injEq] at this
        rw [if_pos this, hv, this.1, this.2]
    · intro i j hi hj hm
      have h1 : (i, j) ∉ rest := fun h => hm (List.mem_cons_of_mem _ h)
      have h2 : ¬ (i = ci ∧ j = cj) := fun h => hm (by rw [h.1, h.2]; simp)
      rw [a3 i j hi hj h1, get2_setCell hn _ _ _ _ _ hi hj, if_neg h2]

theorem memoSweep_ok [DecidableEq α] [Inhabited α] (rule : Rule2 σ α) (f : Nbhd2 α → α)
    (hp : PureVal2 rule f) (g : Grid α) (R C r : Nat) (vn : Bool) (t : Nat) (hg : Spec.Rect g R C)
    (hR : r ≤ R) (hC : r ≤ C) :
    ∀ (cells : List (Nat × Nat)) (next : Grid α) (tbl : MemoTable2 α) (s : σ),
      (∀ c ∈ cells, c.1 < R ∧ c.2 < C) → Spec.Rect next R C → TableOK2 f tbl →
      Spec.Rect (memoSweep rule g r vn t cells next tbl s).1 R C ∧
      TableOK2 f (memoSweep rule g r vn t cells next tbl s).2.1 ∧
      (∀ i j, i < R → j < C → (i, j) ∈ cells →
        get2 (memoSweep rule g r vn t cells next tbl s).1 i j = f (Spec.nbhd g R C r vn i j)) ∧
      (∀ i j, i < R → j < C → (i, j) ∉ cells →
        get2 (memoSweep rule g r vn t cells next tbl s).1 i j = get2 next i j) := by
  intro cells
  induction cells with
  | nil =>
    intro next tbl s _ hn ht
    exact ⟨hn, ht, (by intro i j _ _ h; cases h), (by intro i j _ _ _; rfl)⟩
  | cons c rest ih =>
    intro next tbl s hb hn ht
    obtain ⟨ci, cj⟩ := c
    have hc := hb (ci, cj) (by simp)
    have hnb : getNeighbourhood g r vn ci cj = Spec.nbhd g R C r vn ci cj :=
      C02.getNeighbourhood_spec g R C r vn ci cj hg hR hC hc.1 hc.2
    -- both branches continue with a cell value `v = f (nbhd …)` and a good table
    have step : ∀ (v : α) (tbl' : MemoTable2 α) (s' : σ), v = f (Spec.nbhd g R C r vn ci cj) →
        TableOK2 f tbl' →
        Spec.Rect (memoSweep rule g r vn t rest (setCell next ci cj v) tbl' s').1 R C ∧
        TableOK2 f (memoSweep rule g r vn t rest (setCell next ci cj v) tbl' s').2.1 ∧
        (∀ i j, i < R → j < C → (i, j) ∈ (ci, cj) :: rest →
          get2 (memoSweep rule g r vn t rest (setCell next ci cj v) tbl' s').1 i j
            = f (Spec.nbhd g R C r vn i j)) ∧
        (∀ i j, i < R → j < C → (i, j) ∉ (ci, cj) :: rest →
          get2 (memoSweep rule g r vn t rest (setCell next ci cj v) tbl' s').1 i j = get2 next i j) := by
      intro v tbl' s' hv ht'
      obtain ⟨a1, a0, a2, a3⟩ := ih (setCell next ci cj v) tbl' s'
        (fun c hc => hb c (List.mem_cons_of_mem _ hc)) (rect_setCell hn _ _ _) ht'
      refine ⟨a1, a0, ?_, ?_⟩
      · intro i j hi hj hm
        by_cases hr : (i, j) ∈ rest
        · exact a2 i j hi hj hr
        · rw [a3 i j hi hj hr, get2_setCell hn _ _ _ _ _ hi hj]
          have : (i, j) = (ci, cj) := by
            rcases List.mem_cons.mp hm with h | h
            · exact h
            · exact absurd h hr
          simp only [Prod.mk.injEq] at this
          rw [if_pos this, hv, this.1, this.2]
      · intro i j hi hj hm
        have h1 : (i, j) ∉ rest := fun h => hm (List.mem_cons_of_mem _ h)
        have h2 : ¬ (i = ci ∧ j = cj) := fun h => hm (by rw [h.1, h.2]; simp)
        rw [a3 i j hi hj h1, get2_setCell hn _ _ _ _ _ hi hj, if_neg h2]
    rw [memoSweep]
    simp only
    split
    · rename_i v hv
      have := ht _ _ (lookup_mem _ _ _ hv)
      rw [hnb] at this
      exact step v tbl s this ht
    · refine step _ _ _ (by rw [hp, hnb]) ?_
      intro n' v' hm
      simp only [List.mem_cons, Prod.mk.injEq] at hm
      rcases hm with ⟨rfl, rfl⟩ | hm
      · exact hp _ _ _ _
      · exact ht _ _ hm

/-! ## Recursive (quadtree) memoiser -/

def CacheOK2 (f : Nbhd2 α → α) (r : Nat) (vn : Bool) (cache : RecCache2 α) : Prop :=
  ∀ key vals, (key, vals) ∈ cache → vals = blockVals f r vn key

theorem CacheOK2_nil (f : Nbhd2 α → α) (r : Nat) (vn : Bool) : CacheOK2 f r vn ([] : RecCache2 α) := by
  intro k v h; cases h

/-- `st'` is `st` after block `b` has been brought up to date: the grid stays rectangular, the cache
    stays sound, the cells of `b` hold their pure next values, all other cells are untouched. -/
def BlkDone [Inhabited α] (f : Nbhd2 α → α) (g : Grid α) (R C r : Nat) (vn : Bool) (inb : Nat → Nat → Prop)
    (st st' : RecSt2 σ α) : Prop :=
  Spec.Rect st'.next R C ∧ CacheOK2 f r vn st'.cache ∧
  (∀ i j, i < R → j < C → inb i j → get2 st'.next i j = f (Spec.nbhd g R C r vn i j)) ∧
  (∀ i j, i < R → j < C → ¬ inb i j → get2 st'.next i j = get2 st.next i j)

theorem foldl_blocks [Inhabited α] (f : Nbhd2 α → α) (g : Grid α) (R C r : Nat) (vn : Bool)
    (F : Blk → RecSt2 σ α → RecSt2 σ α) :
    ∀ (qs : List Blk),
      (∀ q ∈ qs, ∀ st : RecSt2 σ α, Spec.Rect st.next R C → CacheOK2 f r vn st.cache →
        BlkDone f g R C r vn (InBlk q) st (F q st)) →
      ∀ st : RecSt2 σ α, Spec.Rect st.next R C → CacheOK2 f r vn st.cache →
        BlkDone f g R C r vn (fun i j => ∃ q ∈ qs, InBlk q i j) st (qs.foldl (fun acc q => F q acc) st) := by
  intro qs
  induction qs with
  | nil =>
    intro _ st h1 h2
    refine ⟨h1, h2, ?_, ?_⟩
    · rintro i j _ _ ⟨q, hq, _⟩; cases hq
    · intro i j _ _ _; rfl
  | cons q rest ih =>
    intro H st h1 h2
    obtain ⟨a1, a2, a3, a4⟩ := H q (by simp) st h1 h2
    obtain ⟨b1, b2, b3, b4⟩ := ih (fun q' hq' => H q' (List.mem_cons_of_mem _ hq')) (F q st) a1 a2
    rw [List.foldl_cons]
    refine ⟨b1, b2, ?_, ?_⟩
    · rintro i j hi hj ⟨q', hq', hin⟩
      by_cases hr : ∃ q ∈ rest, InBlk q i j
      · exact b3 i j hi hj hr
      · rw [b4 i j hi hj hr]
        rcases List.mem_cons.mp hq' with rfl | h
        · exact a3 i j hi hj hin
        · exact absurd ⟨q', h, hin⟩ hr
    · intro i j hi hj hn
      have h1 : ¬ ∃ q ∈ rest, InBlk q i j := by
        rintro ⟨q', hq', hin⟩; exact hn ⟨q', List.mem_cons_of_mem _ hq', hin⟩
      have h2 : ¬ InBlk q i j := fun h => hn ⟨q, by simp, h⟩
      rw [b4 i j hi hj h1, a4 i j hi hj h2]

theorem BlkDone_congr [Inhabited α] (f : Nbhd2 α → α) (g : Grid α) (R C r : Nat) (vn : Bool)
    (p q : Nat → Nat → Prop) (hpq : ∀ i j, p i j ↔ q i j) (st st' : RecSt2 σ α)
    (h : BlkDone f g R C r vn p st st') : BlkDone f g R C r vn q st st' := by
  obtain ⟨a1, a2, a3, a4⟩ := h
  exact ⟨a1, a2, fun i j hi hj hq => a3 i j hi hj ((hpq i j).mpr hq),
    fun i j hi hj hq => a4 i j hi hj (fun hp' => hq ((hpq i j).mp hp'))⟩

/-- Recording a finished block in the cache keeps everything. -/
theorem BlkDone_record [Inhabited α] (f : Nbhd2 α → α) (g : Grid α) (R C r : Nat) (vn : Bool)
    (hg : Spec.Rect g R C) (hR : r ≤ R) (hC : r ≤ C) (b : Blk) (hh : 0 < b.h)
    (h1 : b.r0 + b.h ≤ R) (h2 : b.c0 + b.w ≤ C) (st st' : RecSt2 σ α)
    (h : BlkDone f g R C r vn (InBlk b) st st') :
    BlkDone f g R C r vn (InBlk b) st
      { st' with cache := (blockKey g r b, getBlock st'.next b) :: st'.cache } := by
  obtain ⟨a1, a2, a3, a4⟩ := h
  refine ⟨a1, ?_, a3, a4⟩
  intro key vals hm
  simp only [List.mem_cons, Prod.mk.injEq] at hm
  rcases hm with ⟨rfl, rfl⟩ | hm
  · rw [blockVals_blockKey f g R C r vn hg hR hC b hh h1 h2, getBlock_eq]
    apply List.map_congr_left
    intro a ha
    apply List.map_congr_left
    intro b' hb'
    rw [List.mem_range] at ha hb'
    exact a3 _ _ (by omega) (by omega) ⟨by omega, by omega, by omega, by omega⟩
  · exact a2 _ _ hm

theorem updateRec2_correct [DecidableEq α] [Inhabited α] (rule : Rule2 σ α) (f : Nbhd2 α → α)
    (hp : PureVal2 rule f) (g : Grid α) (R C r : Nat) (vn : Bool) (t : Nat) (hg : Spec.Rect g R C)
    (hR : r ≤ R) (hC : r ≤ C) :
    ∀ (fuel : Nat) (b : Blk) (st : RecSt2 σ α), b.h + b.w < fuel → b.r0 + b.h ≤ R → b.c0 + b.w ≤ C →
      Spec.Rect st.next R C → CacheOK2 f r vn st.cache →
      BlkDone f g R C r vn (InBlk b) st (updateRec2 rule r vn g t fuel b st) := by
  intro fuel
  induction fuel with
  | zero => intro b st h; omega
  | succ fuel ih =>
    intro b st hfuel hb1 hb2 hn hc
    rw [updateRec2]
    by_cases hempty : b.h = 0 ∨ b.w = 0
    · rw [if_pos hempty]
      refine ⟨hn, hc, ?_, fun _ _ _ _ _ => rfl⟩
      intro i j _ _ hin
      unfold InBlk at hin; omega
    · rw [if_neg hempty]
      have hh : 0 < b.h := by omega
      have hw : 0 < b.w := by omega
      simp only
      split
      · -- cache hit
        rename_i vals hlk
        have hv := hc _ _ (lookup_mem _ _ _ hlk)
        rw [blockVals_blockKey f g R C r vn hg hR hC b hh hb1 hb2] at hv
        refine ⟨rect_setBlock hn _ _, hc, ?_, ?_⟩
        · intro i j hi hj hin
          simp only
          rw [get2_setBlock hn _ _ _ _ hi hj, if_pos hin, hv]
          obtain ⟨i1, i2, i3, i4⟩ := hin
          simp only [List.getElem!_eq_getElem?_getD, List.getElem?_map]
          rw [List.getElem?_range (by omega)]
          simp only [Option.map_some, Option.getD_some, List.getElem?_map]
          rw [List.getElem?_range (by omega)]
          simp only [Option.map_some, Option.getD_some]
          congr 2 <;> omega
        · intro i j hi hj hin
          simp only
          rw [get2_setBlock hn _ _ _ _ hi hj, if_neg hin]
      · -- miss
        by_cases hbig : b.h > 1 ∨ b.w > 1
        · simp only [hbig, if_true]
          apply BlkDone_record f g R C r vn hg hR hC b hh hb1 hb2
          apply BlkDone_congr f g R C r vn _ _ (fun i j => (quadrants_inBlk b i j).symm)
          apply foldl_blocks f g R C r vn (fun q acc => updateRec2 rule r vn g t fuel q acc)
            (quadrants b) _ st hn hc
          intro q hq st' hn' hc'
          have hlt := quadrants_lt b hbig q hq
          obtain ⟨hi1, hi2⟩ := quadrants_inside b R C hb1 hb2 q hq
          exact ih q st' (by omega) hi1 hi2 hn' hc'
        · simp only [hbig, if_false]
          obtain ⟨r0, h, c0, w⟩ := b
          simp only at hh hw hbig hb1 hb2
          have e1 : h = 1 := by omega
          have e2 : w = 1 := by omega
          subst e1 e2
          have hnb := C02.getNeighbourhood_spec g R C r vn r0 c0 hg hR hC (by omega) (by omega)
          refine BlkDone_record f g R C r vn hg hR hC ⟨r0, 1, c0, 1⟩ hh hb1 hb2 st
            ⟨setCell st.next r0 c0 (rule st.s (getNeighbourhood g r vn r0 c0) (r0, c0) t).1, st.cache,
              (rule st.s (getNeighbourhood g r vn r0 c0) (r0, c0) t).2⟩ ?_
          rw [hnb]
          refine ⟨rect_setCell hn _ _ _, hc, ?_, ?_⟩
          · intro i j hi hj hin
            unfold InBlk at hin
            simp only at hin
            have e1 : i = r0 := by omega
            have e2 : j = c0 := by omega
            subst e1 e2
            simp only
            rw [get2_setCell hn _ _ _ _ _ hi hj, if_pos ⟨rfl, rfl⟩, hp]
          · intro i j hi hj hin
            simp only
            rw [get2_setCell hn _ _ _ _ _ hi hj, if_neg]
            intro h; apply hin; unfold InBlk; simp only; omega

theorem eq_pureStep2 [Inhabited α] (f : Nbhd2 α → α) (R C r : Nat) (vn : Bool) (g next : Grid α)
    (hn : Spec.Rect next R C)
    (hv : ∀ i j, i < R → j < C → get2 next i j = f (Spec.nbhd g R C r vn i j)) :
    next = Spec.pureStep2 f R C r vn g := by
  apply rect_ext hn (rect_pureStep2 f R C r vn g)
  intro i j hi hj
  rw [hv i j hi hj, get2_pureStep2 f R C r vn g i j hi hj]

theorem stepRec2_correct [DecidableEq α] [Inhabited α] (rule : Rule2 σ α) (f : Nbhd2 α → α)
    (hp : PureVal2 rule f) (g : Grid α) (R C r : Nat) (vn : Bool) (t : Nat) (hg : Spec.Rect g R C)
    (hR1 : 1 ≤ R) (hR : r ≤ R) (hC : r ≤ C) (cache : RecCache2 α) (s : σ) (hc : CacheOK2 f r vn cache) :
    (stepRec2 rule r vn g t cache s).next = Spec.pureStep2 f R C r vn g ∧
    CacheOK2 f r vn (stepRec2 rule r vn g t cache s).cache := by
  unfold stepRec2
  simp only
  rw [hg.1, rect_gridCols hg hR1]
  have hfold := foldl_blocks f g R C r vn (fun q acc => updateRec2 rule r vn g t (R + C + 1) q acc)
    (quadrants ⟨0, R, 0, C⟩)
    (by
      intro q hq st' hn' hc'
      obtain ⟨hi1, hi2⟩ := quadrants_inside ⟨0, R, 0, C⟩ R C (by simp) (by simp) q hq
      exact updateRec2_correct rule f hp g R C r vn t hg hR hC (R + C + 1) q st' (by omega) hi1 hi2 hn' hc')
    ⟨zeroGrid R C, cache, s⟩ (rect_zeroGrid R C) hc
  obtain ⟨a1, a2, a3, _⟩ := hfold
  refine ⟨eq_pureStep2 f R C r vn g _ a1 ?_, a2⟩
  intro i j hi hj
  apply a3 i j hi hj
  apply (quadrants_inBlk ⟨0, R, 0, C⟩ i j).mp
  unfold InBlk; simp only; omega

/-! ## One step / many steps in any supported mode -/

def CachesOK2 (f : Nbhd2 α → α) (r : Nat) (vn : Bool) (cs : Caches2 α) : Prop :=
  TableOK2 f cs.tbl ∧ CacheOK2 f r vn cs.rc

theorem CachesOK2_empty (f : Nbhd2 α → α) (r : Nat) (vn : Bool) :
    CachesOK2 f r vn (Caches2.empty : Caches2 α) :=
  ⟨TableOK2_nil f, CacheOK2_nil f r vn⟩

theorem step2_pure [DecidableEq α] [Inhabited α] (rule : Rule2 σ α) (f : Nbhd2 α → α)
    (hp : PureVal2 rule f) (mode : Mode) (hm : mode ≠ .bad) (g : Grid α) (R C r : Nat) (vn : Bool)
    (t : Nat) (cs : Caches2 α) (s : σ) (hg : Spec.Rect g R C) (hR1 : 1 ≤ R) (hR : r ≤ R) (hC : r ≤ C)
    (hc : CachesOK2 f r vn cs) :
    (step2 mode rule r vn g t cs s).1 = Spec.pureStep2 f R C r vn g ∧
    CachesOK2 f r vn (step2 mode rule r vn g t cs s).2.1 := by
  have hcells : ∀ c ∈ cellsRowMajor R C, c.1 < R ∧ c.2 < C := fun c hc => (mem_cellsRowMajor R C c).mp hc
  cases mode with
  | bad => exact absurd rfl hm
  | plain =>
    simp only [step2]
    rw [hg.1, rect_gridCols hg hR1]
    obtain ⟨a1, a2, _⟩ := plainSweep_ok rule f hp g R C r vn t hg hR hC (cellsRowMajor R C)
      (zeroGrid R C) s hcells (rect_zeroGrid R C)
    refine ⟨eq_pureStep2 f R C r vn g _ a1 ?_, hc⟩
    intro i j hi hj
    exact a2 i j hi hj ((mem_cellsRowMajor R C (i, j)).mpr ⟨hi, hj⟩)
  | memo =>
    simp only [step2]
    rw [hg.1, rect_gridCols hg hR1]
    obtain ⟨a1, a0, a2, _⟩ := memoSweep_ok rule f hp g R C r vn t hg hR hC (cellsRowMajor R C)
      (zeroGrid R C) cs.tbl s hcells (rect_zeroGrid R C) hc.1
    refine ⟨eq_pureStep2 f R C r vn g _ a1 ?_, a0, hc.2⟩
    intro i j hi hj
    exact a2 i j hi hj ((mem_cellsRowMajor R C (i, j)).mpr ⟨hi, hj⟩)
  | recursive =>
    simp only [step2]
    obtain ⟨m1, m2⟩ := stepRec2_correct rule f hp g R C r vn t hg hR1 hR hC cs.rc s hc.2
    exact ⟨m1, hc.1, m2⟩

theorem fixedLoop2_pure [DecidableEq α] [Inhabited α] (rule : Rule2 σ α) (f : Nbhd2 α → α)
    (hp : PureVal2 rule f) (mode : Mode) (hm : mode ≠ .bad) (R C r : Nat) (vn : Bool) (hR1 : 1 ≤ R)
    (hR : r ≤ R) (hC : r ≤ C) :
    ∀ (k t : Nat) (g : Grid α) (cs : Caches2 α) (s : σ), Spec.Rect g R C → CachesOK2 f r vn cs →
      (fixedLoop2 mode rule r vn k t g cs s).1 = Spec.pureRun2 f R C r vn k g := by
  intro k
  induction k with
  | zero => intro t g cs s _ _; rfl
  | succ k ih =>
    intro t g cs s hg hc
    obtain ⟨e1, e2⟩ := step2_pure rule f hp mode hm g R C r vn t cs s hg hR1 hR hC hc
    simp only [fixedLoop2, Spec.pureRun2]
    rw [ih (t + 1) _ _ _ (by rw [e1]; exact rect_pureStep2 f R C r vn g) e2, e1]

theorem evolve2dFixed_eq [DecidableEq α] [Inhabited α] (rule : Rule2 σ α) (mode : Mode)
    (hm : mode ≠ .bad) (hist : List (Grid α)) (init : Grid α) (hlast : hist.getLast? = some init)
    (T : Nat) (hT : 1 ≤ T) (r : Nat) (nb : NbType) (hnb : nb ≠ .unknown) (s : σ) :
    evolve2dFixed hist T rule r nb mode s
      = .ok (hist ++ (fixedLoop2 mode rule r (decide (nb = .vonNeumann)) (T - 1) 1 init Caches2.empty s).1,
             (fixedLoop2 mode rule r (decide (nb = .vonNeumann)) (T - 1) 1 init Caches2.empty s).2.2) := by
  unfold evolve2dFixed
  rw [hlast]
  simp only
  rw [if_neg (by omega), if_neg (by simp [hnb]), if_neg (by simp [hm])]

/-- Lock step of the dynamic loop in a memoised mode and in plain mode (grids only). -/
theorem dynLoop2_mode_indep [DecidableEq α] [Inhabited α] (rule : Rule2 σ α) (f : Nbhd2 α → α)
    (hp : PureVal2 rule f) (mode : Mode) (hm : mode ≠ .bad) (R C r : Nat) (nb : NbType)
    (hnb : nb ≠ .unknown) (hR1 : 1 ≤ R) (hR : r ≤ R) (hC : r ≤ C) (pred : List (Grid α) → Nat → Bool) :
    ∀ (fuel t : Nat) (acc : List (Grid α)) (g : Grid α) (cs cs' : Caches2 α) (s s' : σ),
      Spec.Rect g R C → CachesOK2 f r (decide (nb = .vonNeumann)) cs →
      (dynLoop2 mode rule r nb pred fuel t acc g cs s).map (·.map Prod.fst)
        = (dynLoop2 .plain rule r nb pred fuel t acc g cs' s').map (·.map Prod.fst) := by
  intro fuel
  induction fuel with
  | zero => intros; rfl
  | succ fuel ih =>
    intro t acc g cs cs' s s' hg hc
    simp only [dynLoop2]
    by_cases hpred : pred acc t = true
    · rw [if_pos hpred, if_pos hpred, if_neg hnb, if_neg hnb, if_neg hm, if_neg (by decide)]
      obtain ⟨e1, e2⟩ := step2_pure rule f hp mode hm g R C r (decide (nb = .vonNeumann)) t cs s hg hR1
        hR hC hc
      obtain ⟨p1, _⟩ := step2_pure rule f hp .plain (by decide) g R C r (decide (nb = .vonNeumann)) t
        Caches2.empty s' hg hR1 hR hC (CachesOK2_empty f r _)
      have p1' : (step2 .plain rule r (decide (nb = .vonNeumann)) g t cs' s').1
          = Spec.pureStep2 f R C r (decide (nb = .vonNeumann)) g := by
        rw [← p1]; simp only [step2]
      rw [p1']
      have := ih (t + 1) (acc ++ [(step2 mode rule r (decide (nb = .vonNeumann)) g t cs s).1])
        (step2 mode rule r (decide (nb = .vonNeumann)) g t cs s).1
        (step2 mode rule r (decide (nb = .vonNeumann)) g t cs s).2.1
        (step2 .plain rule r (decide (nb = .vonNeumann)) g t cs' s').2.1
        (step2 mode rule r (decide (nb = .vonNeumann)) g t cs s).2.2
        (step2 .plain rule r (decide (nb = .vonNeumann)) g t cs' s').2.2
        (by rw [e1]; exact rect_pureStep2 f R C r _ g) e2
      rw [this, e1]
    · rw [if_neg hpred, if_neg hpred]; rfl

end Values

end Cpl
