import Cpl.Spec.Torus
import Cpl.Lemmas.Evolve2D
import Cpl.Properties.C02

/-! # Invariants of the two 2D memoisers (`memoSweep`, `updateRec2` / `stepRec2`), used by C04 and C09. -/

namespace Cpl
open Py

end Cpl
