import Cpl.Model.DynS
import Cpl.Lemmas.Evolve1D
import Cpl.Lemmas.Dyn2D

/-!
# Helper lemmas for the stateful-predicate dynamic loops (`Cpl/Model/DynS.lean`), used by C06.
-/

namespace Cpl.DynS
open Cpl Cpl.Dyn2D

variable {σ π α : Type}

/-- Projection of the result of a stateful run to (rows, rule state). -/
abbrev proj {β : Type} (x : Option (Except Err (β × σ × π))) : Option (Except Err (β × σ)) :=
  x.map (fun e => e.map fun x => (x.1, x.2.1))

theorem dynLoopS_proj [DecidableEq α] [Inhabited α] (mode : Mode) (rule : Rule1 σ α) (r : Nat)
    (pred : SPred π α) (q : List (List α) → Nat → Bool) (hq : ∀ p rows t, (pred p rows t).1 = q rows t) :
    ∀ (fuel t : Nat) (acc : List (List α)) (cells : List α) (cs : Caches α) (s : σ) (p : π),
      proj (dynLoopS mode rule r pred fuel t acc cells cs s p) = dynLoop mode rule r q fuel t acc cells cs s
  | 0, _, _, _, _, _, _ => by simp [proj, dynLoopS, dynLoop]
  | f + 1, t, acc, cells, cs, s, p => by
    have h1 := hq p acc t
    unfold dynLoopS dynLoop
    simp only
    rw [h1]
    by_cases hg : q acc t = true
    · by_cases hm : mode = .bad
      · simp [hg, hm, proj, Except.map]
      · simp only [hg, if_true, hm, if_false]
        exact dynLoopS_proj mode rule r pred q hq f _ _ _ _ _ _
    · simp [hg, proj, Except.map]

theorem dynLoopS2_proj [DecidableEq α] [Inhabited α] (mode : Mode) (rule : Rule2 σ α) (r : Nat) (nb : NbType)
    (pred : SPred2 π α) (q : List (Grid α) → Nat → Bool) (hq : ∀ p gs t, (pred p gs t).1 = q gs t) :
    ∀ (fuel t : Nat) (acc : List (Grid α)) (g : Grid α) (cs : Caches2 α) (s : σ) (p : π),
      proj (dynLoopS2 mode rule r nb pred fuel t acc g cs s p) = dynLoop2 mode rule r nb q fuel t acc g cs s
  | 0, _, _, _, _, _, _ => by simp [proj, dynLoopS2, dynLoop2]
  | f + 1, t, acc, g, cs, s, p => by
    have h1 := hq p acc t
    unfold dynLoopS2 dynLoop2
    simp only
    rw [h1]
    by_cases hg : q acc t = true
    · by_cases hn : nb = .unknown
      · simp [hg, hn, proj, Except.map]
      · by_cases hm : mode = .bad
        · simp [hg, hn, hm, proj, Except.map]
        · simp only [hg, if_true, hn, hm, if_false]
          exact dynLoopS2_proj mode rule r nb pred q hq f _ _ _ _ _ _
    · simp [hg, proj, Except.map]

theorem range_succ_map {β : Type} (f : Nat → β) (m : Nat) :
    (List.range (m + 1 + 1)).map f = f 0 :: (List.range (m + 1)).map (fun i => f (i + 1)) := by
  rw [List.range_succ_eq_map (n := m + 1)]
  simp [List.map_map, Function.comp_def]

theorem dynLoopS_rec_inv [DecidableEq α] [Inhabited α] (mode : Mode) (rule : Rule1 σ α) (r : Nat)
    (q : List (List α) → Nat → Bool) :
    ∀ (fuel t : Nat) (acc : List (List α)) (cells : List α) (cs : Caches α) (s : σ)
      (log : List (List (List α) × Nat)) (res : List (List α)) (s' : σ) (log' : List (List (List α) × Nat)),
      dynLoopS mode rule r (recPred q) fuel t acc cells cs s log = some (.ok (res, s', log')) →
      ∃ m, res = acc ++ (fixedLoop mode rule r m t cells cs s).1 ∧
        log' = log ++ (List.range (m + 1)).map fun i =>
          (acc ++ (fixedLoop mode rule r i t cells cs s).1, t + i)
  | 0, _, _, _, _, _, _, _, _, _, h => by simp [dynLoopS] at h
  | f + 1, t, acc, cells, cs, s, log, res, s', log', h => by
    by_cases hp : q acc t = true
    · by_cases hm : mode = .bad
      · simp [dynLoopS, recPred, hp, hm] at h
      · simp only [dynLoopS, recPred, hp, if_true, hm, if_false] at h
        obtain ⟨m, hres, hlog⟩ := dynLoopS_rec_inv mode rule r q f _ _ _ _ _ _ _ _ _ h
        refine ⟨m + 1, ?_, ?_⟩
        · rw [fixedLoop_succ]
          simpa [List.append_assoc] using hres
        · rw [hlog, range_succ_map]
          simp only [fixedLoop_succ]
          simp [fixedLoop, List.append_assoc, Nat.add_assoc, Nat.add_comm 1]
    · have hp' : q acc t = false := by simpa using hp
      simp only [dynLoopS, recPred, hp', Bool.false_eq_true, if_false, Option.some.injEq,
        Except.ok.injEq, Prod.mk.injEq] at h
      refine ⟨0, ?_, ?_⟩
      · simp [fixedLoop, h.1]
      · simp [fixedLoop, ← h.2.2]

theorem dynLoopS2_rec_inv [DecidableEq α] [Inhabited α] (mode : Mode) (rule : Rule2 σ α) (r : Nat)
    (nb : NbType) (q : List (Grid α) → Nat → Bool) :
    ∀ (fuel t : Nat) (acc : List (Grid α)) (g : Grid α) (cs : Caches2 α) (s : σ)
      (log : List (List (Grid α) × Nat)) (res : List (Grid α)) (s' : σ) (log' : List (List (Grid α) × Nat)),
      dynLoopS2 mode rule r nb (recPred2 q) fuel t acc g cs s log = some (.ok (res, s', log')) →
      ∃ m, res = acc ++ (fixedLoop2 mode rule r (decide (nb = .vonNeumann)) m t g cs s).1 ∧
        log' = log ++ (List.range (m + 1)).map fun i =>
          (acc ++ (fixedLoop2 mode rule r (decide (nb = .vonNeumann)) i t g cs s).1, t + i)
  | 0, _, _, _, _, _, _, _, _, _, h => by simp [dynLoopS2] at h
  | f + 1, t, acc, g, cs, s, log, res, s', log', h => by
    by_cases hp : q acc t = true
    · by_cases hn : nb = .unknown
      · simp [dynLoopS2, recPred2, hp, hn] at h
      · by_cases hm : mode = .bad
        · simp [dynLoopS2, recPred2, hp, hn, hm] at h
        · simp only [dynLoopS2, recPred2, hp, if_true, hn, hm, if_false] at h
          obtain ⟨m, hres, hlog⟩ := dynLoopS2_rec_inv mode rule r nb q f _ _ _ _ _ _ _ _ _ h
          refine ⟨m + 1, ?_, ?_⟩
          · rw [fixedLoop2_succ]
            simpa [List.append_assoc] using hres
          · rw [hlog, range_succ_map]
            simp only [fixedLoop2_succ]
            simp [fixedLoop2, List.append_assoc, Nat.add_assoc, Nat.add_comm 1]
    · have hp' : q acc t = false := by simpa using hp
      simp only [dynLoopS2, recPred2, hp', Bool.false_eq_true, if_false, Option.some.injEq,
        Except.ok.injEq, Prod.mk.injEq] at h
      refine ⟨0, ?_, ?_⟩
      · simp [fixedLoop2, h.1]
      · simp [fixedLoop2, ← h.2.2]

end Cpl.DynS
