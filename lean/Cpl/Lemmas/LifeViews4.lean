import Cpl.Lemmas.LifeLocal

/-! # Kernel evaluation of the glider's 9×9 blocks, part 4 of 4 (8 of the 32 row views × all 32 column views). -/

namespace Cpl.Life

theorem glider_viewsG : ∀ ρ ∈ viewsG, ∀ κ ∈ views, GliderOK ρ κ := by decide +kernel

theorem glider_viewsH : ∀ ρ ∈ viewsH, ∀ κ ∈ views, GliderOK ρ κ := by decide +kernel

end Cpl.Life
