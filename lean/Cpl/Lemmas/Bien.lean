import Mathlib.Analysis.SpecialFunctions.Log.Base
import Mathlib.Analysis.SpecialFunctions.BinaryEntropy
import Cpl.Model.Measures

namespace Cpl.Bien
open Cpl

/-- The arithmetic record of the model instantiated with the real numbers: exact `+ - * /`, `|·|` and the
    natural logarithm `Real.log` (with Mathlib's conventions `x / 0 = 0`, `Real.log 0 = 0`). -/
noncomputable def realNum : Num ℝ :=
  ⟨fun n => (n : ℝ), (· + ·), (· - ·), (· * ·), (· / ·), (- ·), (|·|), Real.log⟩

@[simp] theorem realNum_ofNat (n : Nat) : realNum.ofNat n = (n : ℝ) := rfl
@[simp] theorem realNum_add (a b : ℝ) : realNum.add a b = a + b := rfl
@[simp] theorem realNum_sub (a b : ℝ) : realNum.sub a b = a - b := rfl
@[simp] theorem realNum_mul (a b : ℝ) : realNum.mul a b = a * b := rfl
@[simp] theorem realNum_div (a b : ℝ) : realNum.div a b = a / b := rfl
@[simp] theorem realNum_neg (a : ℝ) : realNum.neg a = -a := rfl
@[simp] theorem realNum_abs (a : ℝ) : realNum.abs a = |a| := rfl
@[simp] theorem realNum_ln (a : ℝ) : realNum.ln a = Real.log a := rfl

theorem foldl_add (l : List ℝ) (a : ℝ) : l.foldl realNum.add a = a + l.sum := by
  induction l generalizing a with
  | nil => simp
  | cons x xs ih => simp [List.foldl_cons, ih, add_assoc]

/-- The model's left fold `Num.sum` is the ordinary sum of the list. -/
@[simp] theorem realNum_sum (l : List ℝ) : realNum.sum l = l.sum := by
  simp [Num.sum, foldl_add]

/-- `math.log(x, 2.0)` over the reals is the base-2 logarithm. -/
@[simp] theorem realNum_log2 (x : ℝ) : realNum.log2 x = Real.logb 2 x := by
  simp [Num.log2, Real.logb]

end Cpl.Bien
