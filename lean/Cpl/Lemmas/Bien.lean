import Mathlib.Analysis.SpecialFunctions.Log.Base
import Mathlib.Analysis.SpecialFunctions.BinaryEntropy
import Cpl.Model.Measures

/-!
# Lemmas for the BiEntropy family (`bien.py`) and the real-valued instance of the measures model

* `realNum`: the arithmetic record `Num` instantiated with `ℝ` (also used by `Cpl.Lemmas.Apen`).
* exact facts on `binaryDerivative` / `cyclicBinaryDerivative` (length, entries, complement, reverse, rotation);
* Shannon entropy over the reals: closed form, invariance under permutation and injective relabelling,
  bounds for binary strings via `Real.binEntropy`;
* the accumulation loop `bienLoop` in closed form, `bien`/`tbien`/`ktbien` as weighted means (`wmean`),
  range and invariance of weighted means.
-/

namespace Cpl.Bien
open Cpl

/-- The arithmetic record of the model instantiated with the real numbers: exact `+ - * /`, `|·|` and the
    natural logarithm `Real.log` (with Mathlib's conventions `x / 0 = 0`, `Real.log 0 = 0`). -/
noncomputable def realNum : Num ℝ :=
  ⟨fun n => (n : ℝ), (· + ·), (· - ·), (· * ·), (· / ·), (- ·), (|·|), Real.log⟩

@[simp] theorem realNum_ofNat (n : Nat) : realNum.ofNat n = (n : ℝ) := rfl
@[simp] theorem realNum_add (a b : ℝ) : realNum.add a b = a + b := rfl
@[simp] theorem realNum_sub (a b : ℝ) : realNum.sub a b = a - b := rfl
@[simp] theorem realNum_mul (a b : ℝ) : realNum.mul a b = a * b := rfl
@[simp] theorem realNum_div (a b : ℝ) : realNum.div a b = a / b := rfl
@[simp] theorem realNum_neg (a : ℝ) : realNum.neg a = -a := rfl
@[simp] theorem realNum_abs (a : ℝ) : realNum.abs a = |a| := rfl
@[simp] theorem realNum_ln (a : ℝ) : realNum.ln a = Real.log a := rfl

theorem foldl_add (l : List ℝ) (a : ℝ) : l.foldl realNum.add a = a + l.sum := by
  induction l generalizing a with
  | nil => simp
  | cons x xs ih => simp [List.foldl_cons, ih, add_assoc]

/-- The model's left fold `Num.sum` is the ordinary sum of the list. -/
@[simp] theorem realNum_sum (l : List ℝ) : realNum.sum l = l.sum := by
  simp [Num.sum, foldl_add]

/-- `math.log(x, 2.0)` over the reals is the base-2 logarithm. -/
@[simp] theorem realNum_log2 (x : ℝ) : realNum.log2 x = Real.logb 2 x := by
  simp [Num.log2, Real.logb]


/-! ## Exact part: derivatives -/

/-- Binary strings: every cell is `0` or `1`. -/
def Bin (s : List Int) : Prop := ∀ x ∈ s, x = 0 ∨ x = 1

/-- Complement of a binary string. -/
def compl (s : List Int) : List Int := s.map (1 - ·)

theorem bxor_comm (a b : Int) : bxor a b = bxor b a := by
  unfold bxor
  by_cases h : a = b
  · simp [h]
  · have h' : ¬ b = a := fun e => h e.symm
    simp only [h, h', if_false, and_comm]

theorem bxor_self (a : Int) : bxor a a = 0 := by simp [bxor]

theorem bxor_compl (a b : Int) : bxor (1 - a) (1 - b) = bxor a b := by
  unfold bxor
  have e1 : (1 - a = 1 - b) ↔ a = b := by omega
  have e2 : (1 - a = 0 ∨ 1 - a = 1) ↔ (a = 0 ∨ a = 1) := by omega
  have e3 : (1 - b = 0 ∨ 1 - b = 1) ↔ (b = 0 ∨ b = 1) := by omega
  simp only [e1, e2, e3]

theorem bxor_bin {a b : Int} (ha : a = 0 ∨ a = 1) (hb : b = 0 ∨ b = 1) : bxor a b = (a + b) % 2 := by
  rcases ha with rfl | rfl <;> rcases hb with rfl | rfl <;> decide

theorem bxor_mem {a b : Int} (ha : a = 0 ∨ a = 1) (hb : b = 0 ∨ b = 1) : bxor a b = 0 ∨ bxor a b = 1 := by
  rcases ha with rfl | rfl <;> rcases hb with rfl | rfl <;> decide

theorem bd_length (s : List Int) : (binaryDerivative s).length = s.length - 1 := by
  induction s using binaryDerivative.induct with
  | case1 a b rest ih => simp [binaryDerivative, ih]
  | case2 s h =>
    match s, h with
    | [], _ => simp [binaryDerivative]
    | [_], _ => simp [binaryDerivative]
    | a :: b :: rest, h => exact absurd rfl (h a b rest)

theorem bd_getElem? (s : List Int) (i : Nat) (h : i + 1 < s.length) :
    (binaryDerivative s)[i]? = some (bxor s[i] s[i + 1]) := by
  induction s using binaryDerivative.induct generalizing i with
  | case1 a b rest ih =>
    cases i with
    | zero => simp [binaryDerivative]
    | succ j =>
      simp only [binaryDerivative, List.getElem?_cons_succ, List.getElem_cons_succ]
      exact ih j (by simpa using h)
  | case2 s hs =>
    match s, hs with
    | [], _ => simp at h
    | [_], _ => simp at h
    | a :: b :: rest, hs => exact absurd rfl (hs a b rest)

/-- Appending one more digit appends one more XOR. -/
theorem bd_snoc (s : List Int) (a b : Int) :
    binaryDerivative (s ++ [a, b]) = binaryDerivative (s ++ [a]) ++ [bxor a b] := by
  induction s with
  | nil => simp [binaryDerivative]
  | cons x s ih =>
    cases s with
    | nil => simp [binaryDerivative]
    | cons y t =>
      simp only [List.cons_append, binaryDerivative] at ih ⊢
      rw [ih]

theorem bd_bin {s : List Int} (hs : Bin s) : Bin (binaryDerivative s) := by
  induction s using binaryDerivative.induct with
  | case1 a b rest ih =>
    intro x hx
    simp only [binaryDerivative, List.mem_cons] at hx
    rcases hx with rfl | hx
    · exact bxor_mem (hs a (by simp)) (hs b (by simp))
    · exact ih (fun y hy => hs y (List.mem_cons_of_mem _ hy)) x hx
  | case2 s h =>
    match s, h with
    | [], _ => simp [binaryDerivative, Bin]
    | [_], _ => simp [binaryDerivative, Bin]
    | a :: b :: rest, h => exact absurd rfl (h a b rest)

theorem bd_compl (s : List Int) : binaryDerivative (compl s) = binaryDerivative s := by
  induction s using binaryDerivative.induct with
  | case1 a b rest ih =>
    simp only [compl, List.map_cons, binaryDerivative] at ih ⊢
    rw [ih, bxor_compl]
  | case2 s h =>
    match s, h with
    | [], _ => simp [binaryDerivative, compl]
    | [_], _ => simp [binaryDerivative, compl]
    | a :: b :: rest, h => exact absurd rfl (h a b rest)

theorem bd_reverse (s : List Int) : binaryDerivative s.reverse = (binaryDerivative s).reverse := by
  induction s using binaryDerivative.induct with
  | case1 a b rest ih =>
    have e : (a :: b :: rest).reverse = rest.reverse ++ [b, a] := by simp
    rw [e, bd_snoc, binaryDerivative, List.reverse_cons, ← ih, bxor_comm b a]
    simp
  | case2 s h =>
    match s, h with
    | [], _ => simp [binaryDerivative]
    | [_], _ => simp [binaryDerivative]
    | a :: b :: rest, h => exact absurd rfl (h a b rest)

/-! ### cyclic derivative -/

theorem cbd_nil : cyclicBinaryDerivative [] = [] := rfl

theorem cbd_cons (a : Int) (t : List Int) :
    cyclicBinaryDerivative (a :: t) = binaryDerivative (a :: t ++ [a]) := rfl

/-- The cyclic derivative is the plain derivative followed by the XOR of the last and first digits. -/
theorem cbd_eq (s : List Int) (h : s ≠ []) :
    cyclicBinaryDerivative s = binaryDerivative s ++ [bxor (s.getLast h) (s.head h)] := by
  match s, h with
  | a :: t, h =>
    rcases List.eq_nil_or_concat t with rfl | ⟨m, z, rfl⟩
    · simp [cbd_cons, binaryDerivative]
    · simp only [List.concat_eq_append]
      rw [cbd_cons]
      have : a :: (m ++ [z]) ++ [a] = (a :: m) ++ [z, a] := by simp
      rw [this, bd_snoc]
      simp

theorem cbd_length (s : List Int) : (cyclicBinaryDerivative s).length = s.length := by
  cases s with
  | nil => rfl
  | cons a t => rw [cbd_cons, bd_length]; simp

theorem cbd_getElem? (s : List Int) (i : Nat) (h : i < s.length) :
    (cyclicBinaryDerivative s)[i]? =
      some (bxor s[i] (s[(i + 1) % s.length]'(Nat.mod_lt _ (by omega)))) := by
  cases s with
  | nil => simp at h
  | cons a t =>
    rw [cbd_cons, bd_getElem? _ i (by simp at h ⊢; omega)]
    congr 2
    · exact List.getElem_append_left (as := a :: t) (bs := [a]) h
    · by_cases h1 : i + 1 < (a :: t).length
      · simp only [Nat.mod_eq_of_lt h1]
        rw [List.getElem_append_left h1]
      · have e : i + 1 = (a :: t).length := by omega
        simp only [e, Nat.mod_self]
        simp

theorem cbd_bin {s : List Int} (hs : Bin s) : Bin (cyclicBinaryDerivative s) := by
  cases s with
  | nil => simp [cbd_nil, Bin]
  | cons a t =>
    rw [cbd_cons]
    apply bd_bin
    intro x hx
    simp only [List.cons_append, List.mem_cons, List.mem_append, List.not_mem_nil, or_false] at hx
    rcases hx with rfl | hx | rfl
    · exact hs _ (by simp)
    · exact hs _ (by simp [hx])
    · exact hs _ (by simp)

theorem cbd_compl (s : List Int) : cyclicBinaryDerivative (compl s) = cyclicBinaryDerivative s := by
  cases s with
  | nil => rfl
  | cons a t =>
    have := bd_compl (a :: t ++ [a])
    simpa [compl, cbd_cons] using this

theorem cbd_rotate_one (s : List Int) :
    cyclicBinaryDerivative (s.rotate 1) = (cyclicBinaryDerivative s).rotate 1 := by
  match s with
  | [] => rfl
  | [a] => simp [cbd_cons, binaryDerivative]
  | a :: b :: t =>
    have e1 : (a :: b :: t).rotate 1 = b :: t ++ [a] := by simp [List.rotate_cons_succ]
    rw [e1, cbd_cons]
    show cyclicBinaryDerivative (b :: (t ++ [a])) = _
    rw [cbd_cons]
    have e2 : b :: (t ++ [a]) ++ [b] = (b :: t) ++ [a, b] := by simp
    rw [e2, bd_snoc]
    simp only [List.cons_append, binaryDerivative]
    simp [List.rotate_cons_succ]

theorem cbd_rotate (s : List Int) (j : Nat) :
    cyclicBinaryDerivative (s.rotate j) = (cyclicBinaryDerivative s).rotate j := by
  induction j with
  | zero => simp
  | succ j ih => rw [← List.rotate_rotate, cbd_rotate_one, ih, List.rotate_rotate]

theorem cbd_reverse (s : List Int) :
    cyclicBinaryDerivative s.reverse = (cyclicBinaryDerivative s).reverse.rotate 1 := by
  by_cases h : s = []
  · subst h; rfl
  · have h' : s.reverse ≠ [] := by simpa using h
    rw [cbd_eq _ h', cbd_eq _ h, bd_reverse]
    simp only [List.reverse_append, List.reverse_cons, List.reverse_nil, List.nil_append,
      List.singleton_append, List.rotate_cons_succ, List.rotate_zero]
    rw [bxor_comm]
    simp


/-! ## Shannon entropy over the reals -/

theorem mem_distinctSyms {xs : List Int} {y : Int} : y ∈ distinctSyms xs ↔ y ∈ xs := by
  induction xs with
  | nil => simp [distinctSyms]
  | cons x xs ih =>
    simp only [distinctSyms, List.mem_cons, List.mem_filter, ih, bne_iff_ne, ne_eq]
    by_cases h : y = x <;> simp [h]

theorem nodup_distinctSyms (xs : List Int) : (distinctSyms xs).Nodup := by
  induction xs with
  | nil => simp [distinctSyms]
  | cons x xs ih =>
    simp only [distinctSyms, List.nodup_cons, List.mem_filter, bne_iff_ne, ne_eq, not_true_eq_false,
      and_false, not_false_eq_true, true_and]
    exact ih.filter _

theorem toFinset_distinctSyms (xs : List Int) : (distinctSyms xs).toFinset = xs.toFinset := by
  ext y; simp [mem_distinctSyms]

/-- The term `p log2 p` of a symbol occurring `c` times among `n`. -/
noncomputable def plog (c n : ℕ) : ℝ := ((c : ℝ) / (n : ℝ)) * Real.logb 2 ((c : ℝ) / (n : ℝ))

/-- Closed form of the model's entropy: `H = - ∑ p log2 p` over the set of symbols that occur, with
    `p = count / length`. -/
theorem shannon_eq (xs : List Int) :
    shannon realNum xs = -∑ a ∈ xs.toFinset, plog (xs.count a) xs.length := by
  simp only [shannon, symCounts, List.map_map, realNum_add, realNum_neg, realNum_sum, realNum_ofNat,
    Nat.cast_zero, add_zero]
  rw [← toFinset_distinctSyms, List.sum_toFinset _ (nodup_distinctSyms xs)]
  simp [Function.comp_def, plog]

/-- The entropy depends only on the multiset of symbols. -/
theorem shannon_perm {xs ys : List Int} (h : xs.Perm ys) : shannon realNum xs = shannon realNum ys := by
  rw [shannon_eq, shannon_eq, List.toFinset_eq_of_perm _ _ h, h.length_eq]
  congr 1
  exact Finset.sum_congr rfl fun a _ => by rw [h.count_eq]

/-- An injective relabelling of the symbols keeps the entropy. -/
theorem shannon_relabel {f : Int → Int} (hf : Function.Injective f) (xs : List Int) :
    shannon realNum (xs.map f) = shannon realNum xs := by
  have e : (xs.map f).toFinset = xs.toFinset.image f := by ext y; simp
  rw [shannon_eq, shannon_eq, e, Finset.sum_image (fun a _ b _ e => hf e), List.length_map]
  congr 1
  exact Finset.sum_congr rfl fun a _ => by rw [List.count_map_of_injective _ _ hf]

theorem shannon_compl (xs : List Int) : shannon realNum (compl xs) = shannon realNum xs :=
  shannon_relabel (f := fun x => 1 - x) (fun a b (e : 1 - a = 1 - b) => by omega) xs

theorem shannon_reverse (xs : List Int) : shannon realNum xs.reverse = shannon realNum xs :=
  shannon_perm (List.reverse_perm xs)

theorem shannon_rotate (xs : List Int) (j : Nat) : shannon realNum (xs.rotate j) = shannon realNum xs :=
  shannon_perm (List.rotate_perm xs j)

theorem count_add_count_of_bin {s : List Int} (hs : Bin s) : s.count 0 + s.count 1 = s.length := by
  induction s with
  | nil => rfl
  | cons x xs ih =>
    have ih' := ih (fun y hy => hs y (List.mem_cons_of_mem _ hy))
    rcases hs x (by simp) with rfl | rfl <;> simp <;> omega

/-- The entropy of a binary string is the binary entropy (in bits) of the frequency of `0`. -/
theorem shannon_bin_eq {s : List Int} (hs : Bin s) (hne : s ≠ []) :
    shannon realNum s = Real.binEntropy ((s.count 0 : ℝ) / (s.length : ℝ)) / Real.log 2 := by
  rw [shannon_eq]
  have hsub : s.toFinset ⊆ ({0, 1} : Finset Int) := by
    intro x hx
    rcases hs x (List.mem_toFinset.1 hx) with rfl | rfl <;> simp
  rw [Finset.sum_subset hsub (fun x _ hx => by
    have : s.count x = 0 := List.count_eq_zero.2 (fun h => hx (List.mem_toFinset.2 h))
    simp [plog, this])]
  rw [Finset.sum_pair (by decide)]
  have hn : (s.length : ℝ) ≠ 0 := by
    have : s.length ≠ 0 := by simpa using hne
    exact_mod_cast this
  have h1 : (s.count 1 : ℝ) / (s.length : ℝ) = 1 - (s.count 0 : ℝ) / (s.length : ℝ) := by
    have := count_add_count_of_bin hs
    have e : (s.count 0 : ℝ) + (s.count 1 : ℝ) = (s.length : ℝ) := by exact_mod_cast this
    field_simp
    linarith
  simp only [plog]
  rw [h1, Real.binEntropy_eq_negMulLog_add_negMulLog_one_sub, Real.negMulLog, Real.negMulLog,
    Real.logb, Real.logb]
  have hl : Real.log 2 ≠ 0 := (Real.log_pos (by norm_num)).ne'
  field_simp
  ring

/-- The entropy of a binary string is between `0` and `1` bit. -/
theorem shannon_binary_le_one {s : List Int} (hs : Bin s) :
    0 ≤ shannon realNum s ∧ shannon realNum s ≤ 1 := by
  by_cases hne : s = []
  · subst hne
    simp [shannon_eq]
  · rw [shannon_bin_eq hs hne]
    have hl : 0 < Real.log 2 := Real.log_pos (by norm_num)
    have hp0 : 0 ≤ (s.count 0 : ℝ) / (s.length : ℝ) := by positivity
    have hp1 : (s.count 0 : ℝ) / (s.length : ℝ) ≤ 1 := by
      apply div_le_one_of_le₀ _ (Nat.cast_nonneg _)
      exact_mod_cast List.count_le_length
    exact ⟨div_nonneg (Real.binEntropy_nonneg hp0 hp1) hl.le,
      (div_le_one hl).2 Real.binEntropy_le_log_two⟩


/-! ## The BiEntropy loop in closed form -/

open Finset in
/-- The accumulation loop: after `steps` rounds starting at weight index `k` on string `s`, the two accumulators
    have gained `∑ H(D^j s) · w(k+j)` and `∑ w(k+j)`. -/
theorem bienLoop_eq (D : List Int → List Int) (w : ℕ → ℝ) (steps k : ℕ) (s : List Int) (tot totw : ℝ) :
    bienLoop realNum D w steps k s tot totw =
      (tot + ∑ j ∈ range steps, shannon realNum (D^[j] s) * w (k + j), totw + ∑ j ∈ range steps, w (k + j)) := by
  induction steps generalizing k s tot totw with
  | zero => simp [bienLoop]
  | succ n ih =>
    simp only [bienLoop, ih, realNum_add, realNum_mul]
    rw [Finset.sum_range_succ', Finset.sum_range_succ']
    simp only [Function.iterate_succ_apply, Function.iterate_zero, id, add_zero]
    have e : ∀ j, k + 1 + j = k + (j + 1) := by intro j; omega
    simp only [e]
    ext <;> simp only <;> ring

open Finset in
/-- Weighted mean of the entropies of the successive derivatives `D^k s`, `k = 0 .. n-2`, with weights `w k`. -/
noncomputable def wmean (D : List Int → List Int) (w : ℕ → ℝ) (s : List Int) : ℝ :=
  (∑ k ∈ range (s.length - 1), w k * shannon realNum (D^[k] s)) / ∑ k ∈ range (s.length - 1), w k

open Finset in
theorem sum_two_pow (n : ℕ) : ∑ k ∈ range n, (2 : ℝ) ^ k = 2 ^ n - 1 := by
  induction n with
  | zero => simp
  | succ n ih => rw [Finset.sum_range_succ, ih]; ring

theorem bien_eq_wmean (s : List Int) : bien realNum s = wmean binaryDerivative (fun k => (2 : ℝ) ^ k) s := by
  have e : ((2 ^ (s.length - 1) - 1 : ℕ) : ℝ) = 2 ^ (s.length - 1) - 1 := by
    rw [Nat.cast_sub Nat.one_le_two_pow]; simp
  simp only [bien, bienLoop_eq, realNum_mul, realNum_div, realNum_ofNat, e, wmean, sum_two_pow]
  simp only [Nat.cast_zero, Nat.cast_one, zero_add, Nat.cast_pow, Nat.cast_ofNat]
  rw [one_div, mul_comm, ← div_eq_mul_inv]
  congr 1
  exact Finset.sum_congr rfl fun k _ => mul_comm _ _

/-- The `tbien`/`ktbien` weight `log2 (k + 2)`. -/
noncomputable def wlog (k : ℕ) : ℝ := Real.logb 2 ((k : ℝ) + 2)

theorem tloop_eq_wmean (D : List Int → List Int) (s : List Int) :
    (let (tot, totw) := bienLoop realNum D (fun k => realNum.log2 (realNum.ofNat (k + 2))) (s.length - 1) 0 s
        (realNum.ofNat 0) (realNum.ofNat 0)
     realNum.mul (realNum.div (realNum.ofNat 1) totw) tot) = wmean D wlog s := by
  simp only [bienLoop_eq, realNum_mul, realNum_div, realNum_ofNat, realNum_log2, wmean, wlog]
  simp only [Nat.cast_zero, Nat.cast_one, zero_add, Nat.cast_add, Nat.cast_ofNat]
  rw [one_div, mul_comm, ← div_eq_mul_inv]
  congr 1
  exact Finset.sum_congr rfl fun k _ => mul_comm _ _

theorem tbien_eq_wmean (s : List Int) : tbien realNum s = wmean binaryDerivative wlog s :=
  tloop_eq_wmean binaryDerivative s

theorem ktbien_eq_wmean (s : List Int) : ktbien realNum s = wmean cyclicBinaryDerivative wlog s :=
  tloop_eq_wmean cyclicBinaryDerivative s

theorem wlog_pos (k : ℕ) : 0 < wlog k := by
  unfold wlog
  apply Real.logb_pos (by norm_num)
  have : (0 : ℝ) ≤ k := Nat.cast_nonneg k
  linarith

/-! ## Range -/

open Finset in
/-- A weighted mean, with non-negative weights, of entropies in `[0, 1]` is in `[0, 1]`. -/
theorem wmean_range {D : List Int → List Int} {w : ℕ → ℝ} {s : List Int} (hw : ∀ k, 0 ≤ w k)
    (hH : ∀ k, 0 ≤ shannon realNum (D^[k] s) ∧ shannon realNum (D^[k] s) ≤ 1) :
    0 ≤ wmean D w s ∧ wmean D w s ≤ 1 := by
  unfold wmean
  have hden : 0 ≤ ∑ k ∈ range (s.length - 1), w k := Finset.sum_nonneg fun k _ => hw k
  have hnum : 0 ≤ ∑ k ∈ range (s.length - 1), w k * shannon realNum (D^[k] s) :=
    Finset.sum_nonneg fun k _ => mul_nonneg (hw k) (hH k).1
  have hle : ∑ k ∈ range (s.length - 1), w k * shannon realNum (D^[k] s) ≤ ∑ k ∈ range (s.length - 1), w k :=
    Finset.sum_le_sum fun k _ => by
      have := mul_le_mul_of_nonneg_left (hH k).2 (hw k)
      simpa using this
  exact ⟨div_nonneg hnum hden, div_le_one_of_le₀ hle hden⟩

theorem iterate_bin {D : List Int → List Int} (hD : ∀ s, Bin s → Bin (D s)) {s : List Int} (hs : Bin s) (k : ℕ) :
    Bin (D^[k] s) := by
  induction k with
  | zero => exact hs
  | succ k ih => rw [Function.iterate_succ_apply']; exact hD _ ih

/-! ## Invariances -/

theorem wmean_congr {D : List Int → List Int} {w : ℕ → ℝ} {s t : List Int} (hlen : s.length = t.length)
    (h : ∀ k, shannon realNum (D^[k] s) = shannon realNum (D^[k] t)) : wmean D w s = wmean D w t := by
  unfold wmean
  rw [hlen]
  simp only [h]

theorem iterate_compl {D : List Int → List Int} (hD : ∀ s, D (compl s) = D s) (s : List Int) (k : ℕ) :
    shannon realNum (D^[k] (compl s)) = shannon realNum (D^[k] s) := by
  cases k with
  | zero => exact shannon_compl s
  | succ k => rw [Function.iterate_succ_apply, Function.iterate_succ_apply, hD]

theorem wmean_compl {D : List Int → List Int} (hD : ∀ s, D (compl s) = D s) (w : ℕ → ℝ) (s : List Int) :
    wmean D w (compl s) = wmean D w s :=
  wmean_congr (by simp [compl]) (iterate_compl hD s)

theorem bd_iterate_reverse (s : List Int) (k : ℕ) :
    binaryDerivative^[k] s.reverse = (binaryDerivative^[k] s).reverse := by
  induction k generalizing s with
  | zero => rfl
  | succ k ih => rw [Function.iterate_succ_apply, Function.iterate_succ_apply, bd_reverse, ih]

theorem cbd_iterate_rotate (s : List Int) (k j : ℕ) :
    cyclicBinaryDerivative^[k] (s.rotate j) = (cyclicBinaryDerivative^[k] s).rotate j := by
  induction k generalizing s with
  | zero => rfl
  | succ k ih => rw [Function.iterate_succ_apply, Function.iterate_succ_apply, cbd_rotate, ih]

theorem cbd_iterate_reverse (s : List Int) (k : ℕ) :
    cyclicBinaryDerivative^[k] s.reverse = (cyclicBinaryDerivative^[k] s).reverse.rotate k := by
  induction k generalizing s with
  | zero => simp
  | succ k ih =>
    rw [Function.iterate_succ_apply, Function.iterate_succ_apply, cbd_reverse, cbd_iterate_rotate, ih,
      List.rotate_rotate]

end Cpl.Bien
