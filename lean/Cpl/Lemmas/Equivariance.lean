import Cpl.Spec.Ring
import Cpl.Spec.Torus

/-!
# Translation equivariance of the periodic-boundary specifications

The ring / torus specifications address cells modulo `N` / modulo `(R, C)`, so translating the initial
configuration translates the whole evolution, for every pure rule `f`.

* Ring: the translation is core `List.rotateLeft` (`(l.rotateLeft k)[c] = l[(c + k) % N]`; the Mathlib
  name `List.rotate` is not available here, the project builds on core only).
* Torus: `shift2 R C dx dy g` is the grid whose cell `(i, j)` is `g[(i + dx) % R][(j + dy) % C]`, i.e. the
  content moves by `(-dx, -dy)` (up / left) — the same direction as `rotateLeft` on both axes
  (`shift2_eq_rotateLeft`).
-/

namespace Cpl.Equivariance
open Cpl Cpl.Spec

variable {α : Type}

/-! ## Index arithmetic -/

/-- Adding `k` after reducing `c + j + (N - r)` is the same as reducing after shifting `c` first. -/
theorem idx_shift (N c j r k : Nat) (h : r ≤ N) :
    ((c + j + N - r) % N + k) % N = ((c + k) % N + j + N - r) % N := by
  have e1 : c + j + N - r = c + j + (N - r) := by omega
  have e2 : (c + k) % N + j + N - r = (c + k) % N + (j + (N - r)) := by omega
  rw [e1, e2, Nat.mod_add_mod, Nat.mod_add_mod]
  congr 1
  omega

/-- `(c + k) % N` computed from `k % N` without a second division. -/
theorem add_mod_split (N c k : Nat) (hc : c < N) :
    (c + k) % N = if c + k % N < N then c + k % N else c + k % N - N := by
  have hN : 0 < N := by omega
  have hk := Nat.mod_lt k hN
  rw [← Nat.add_mod_mod]
  split
  · rename_i h; exact Nat.mod_eq_of_lt h
  · rename_i h
    rw [Nat.mod_eq_sub_mod (by omega)]
    exact Nat.mod_eq_of_lt (by omega)

/-! ## `List.rotateLeft` by positions -/

theorem length_rotateLeft (l : List α) (k : Nat) : (l.rotateLeft k).length = l.length := by
  unfold List.rotateLeft
  dsimp only
  split
  · rfl
  · rename_i h
    have := Nat.mod_lt k (show 0 < l.length by omega)
    simp only [List.length_append, List.length_drop, List.length_take]
    omega

/-- Left rotation by `k`: position `c` receives the content of position `(c + k) mod N`. -/
theorem getElem?_rotateLeft (l : List α) (k c : Nat) (hc : c < l.length) :
    (l.rotateLeft k)[c]? = l[(c + k) % l.length]? := by
  unfold List.rotateLeft
  dsimp only
  split
  · rename_i h
    have h0 : c = 0 := by omega
    have h1 : l.length = 1 := by omega
    subst h0
    rw [h1, Nat.mod_one]
  · rename_i h
    have hN : 0 < l.length := by omega
    have hi := Nat.mod_lt k hN
    rw [add_mod_split l.length c k hc]
    rw [List.getElem?_append]
    simp only [List.length_drop]
    split
    · rename_i h1
      rw [if_pos (by omega), List.getElem?_drop]
      congr 1
      omega
    · rename_i h1
      rw [if_neg (by omega), List.getElem?_take_of_lt (by omega)]
      congr 1
      omega

theorem getElem!_rotateLeft [Inhabited α] (l : List α) (k c : Nat) (hc : c < l.length) :
    (l.rotateLeft k)[c]! = l[(c + k) % l.length]! := by
  rw [List.getElem!_eq_getElem?_getD, List.getElem!_eq_getElem?_getD, getElem?_rotateLeft l k c hc]

/-- Rotating a tabulated list re-indexes the formula. -/
theorem rotateLeft_eq_map [Inhabited α] (l : List α) (k : Nat) :
    l.rotateLeft k = (List.range l.length).map fun c => l[(c + k) % l.length]! := by
  apply List.ext_getElem?
  intro c
  by_cases hc : c < l.length
  · rw [getElem?_rotateLeft l k c hc, List.getElem?_map, List.getElem?_range hc]
    simp only [Option.map_some]
    have hlt : (c + k) % l.length < l.length := Nat.mod_lt _ (by omega)
    rw [List.getElem?_eq_getElem hlt, getElem!_pos l _ hlt]
  · rw [List.getElem?_eq_none (by rw [length_rotateLeft]; omega),
      List.getElem?_eq_none (by simp; omega)]

/-! ## Ring -/

/-- **The window of a rotated ring** is the window of the original ring at the rotated position.
    (No bound on `c` and no non-emptiness is needed; `r ≤ N` makes the wrap subtraction exact.) -/
theorem window_rotate [Inhabited α] (cells : List α) (r k c : Nat) (hr : r ≤ cells.length) :
    window (cells.rotateLeft k) r c = window cells r ((c + k) % cells.length) := by
  unfold window
  rw [length_rotateLeft]
  by_cases hN : cells.length = 0
  · have : cells = [] := List.eq_nil_of_length_eq_zero hN
    subst this
    simp
  · have hN' : 0 < cells.length := by omega
    apply List.map_congr_left
    intro j _
    rw [getElem!_rotateLeft cells k _ (Nat.mod_lt _ hN'), idx_shift cells.length c j r k hr]

/-- **One pure step commutes with rotation.** -/
theorem pureStep_rotate [Inhabited α] (f : List α → α) (cells : List α) (r k : Nat)
    (hr : r ≤ cells.length) :
    pureStep f r (cells.rotateLeft k) = (pureStep f r cells).rotateLeft k := by
  have hlen : (pureStep f r cells).length = cells.length := by simp [pureStep]
  rw [rotateLeft_eq_map (pureStep f r cells) k, hlen]
  unfold pureStep
  rw [length_rotateLeft]
  apply List.map_congr_left
  intro c hc
  have hc : c < cells.length := by simpa using hc
  have hlt : (c + k) % cells.length < cells.length := Nat.mod_lt _ (by omega)
  rw [window_rotate cells r k c hr, getElem!_pos _ _ (by simpa using hlt)]
  simp

theorem pureStep_length [Inhabited α] (f : List α → α) (cells : List α) (r : Nat) :
    (pureStep f r cells).length = cells.length := by simp [pureStep]

/-- **A pure run commutes with rotation**: every row of the run is rotated. -/
theorem pureRun_rotate [Inhabited α] (f : List α → α) (r k n : Nat) (cells : List α)
    (hr : r ≤ cells.length) :
    pureRun f r n (cells.rotateLeft k) = (pureRun f r n cells).map (·.rotateLeft k) := by
  induction n generalizing cells with
  | zero => rfl
  | succ n ih =>
    simp only [pureRun, List.map_cons]
    rw [pureStep_rotate f cells r k hr, ih (pureStep f r cells) (by rw [pureStep_length]; exact hr)]

/-! ## Torus -/

/-- Translate the torus: cell `(i, j)` of the result is cell `((i + dx) mod R, (j + dy) mod C)` of `g`
    (the content moves up by `dx` rows and left by `dy` columns, as `rotateLeft` does on each axis). -/
def shift2 [Inhabited α] (R C dx dy : Nat) (g : Grid α) : Grid α :=
  (List.range R).map fun i => (List.range C).map fun j => (g[(i + dx) % R]!)[(j + dy) % C]!

/-- The cell `(i, j)` of a grid given by a formula. -/
theorem cell_tabulate [Inhabited α] (R C : Nat) (F : Nat → Nat → α) {i j : Nat} (hi : i < R) (hj : j < C) :
    (((List.range R).map fun i => (List.range C).map fun j => F i j)[i]!)[j]! = F i j := by
  rw [getElem!_pos _ i (by simpa using hi)]
  simp only [List.getElem_map, List.getElem_range]
  rw [getElem!_pos _ j (by simpa using hj)]
  simp

theorem tabulate_rect (R C : Nat) (F : Nat → Nat → α) :
    Rect ((List.range R).map fun i => (List.range C).map fun j => F i j) R C := by
  constructor
  · simp
  · intro row hrow
    simp only [List.mem_map, List.mem_range] at hrow
    obtain ⟨i, _, rfl⟩ := hrow
    simp

theorem shift2_rect [Inhabited α] (R C dx dy : Nat) (g : Grid α) : Rect (shift2 R C dx dy g) R C :=
  tabulate_rect R C _

theorem shift2_cell [Inhabited α] (R C dx dy : Nat) (g : Grid α) {i j : Nat} (hi : i < R) (hj : j < C) :
    ((shift2 R C dx dy g)[i]!)[j]! = (g[(i + dx) % R]!)[(j + dy) % C]! :=
  cell_tabulate R C _ hi hj

theorem pureStep2_rect [Inhabited α] (f : Nbhd2 α → α) (R C r : Nat) (vn : Bool) (g : Grid α) :
    Rect (pureStep2 f R C r vn g) R C :=
  tabulate_rect R C _

/-- **The neighbourhood in a shifted torus** is the neighbourhood of the original torus at the shifted
    cell (masked or not). No bound on `(i, j)` and no shape assumption on `g` is needed. -/
theorem nbhd_shift [Inhabited α] (g : Grid α) (R C r dx dy : Nat) (vn : Bool) (i j : Nat)
    (hR1 : 1 ≤ R) (hC1 : 1 ≤ C) (hR : r ≤ R) (hC : r ≤ C) :
    nbhd (shift2 R C dx dy g) R C r vn i j = nbhd g R C r vn ((i + dx) % R) ((j + dy) % C) := by
  unfold nbhd
  apply List.map_congr_left
  intro a _
  apply List.map_congr_left
  intro b _
  rw [shift2_cell R C dx dy g (Nat.mod_lt _ (by omega)) (Nat.mod_lt _ (by omega)),
    idx_shift R i a r dx hR, idx_shift C j b r dy hC]

/-- The same for the unmasked block. -/
theorem torusWindow_shift [Inhabited α] (g : Grid α) (R C r dx dy : Nat) (i j : Nat)
    (hR1 : 1 ≤ R) (hC1 : 1 ≤ C) (hR : r ≤ R) (hC : r ≤ C) :
    torusWindow (shift2 R C dx dy g) R C r i j = torusWindow g R C r ((i + dx) % R) ((j + dy) % C) := by
  unfold torusWindow
  apply List.map_congr_left
  intro a _
  apply List.map_congr_left
  intro b _
  rw [shift2_cell R C dx dy g (Nat.mod_lt _ (by omega)) (Nat.mod_lt _ (by omega)),
    idx_shift R i a r dx hR, idx_shift C j b r dy hC]

/-- **One pure torus step commutes with translation.** -/
theorem pureStep2_shift [Inhabited α] (f : Nbhd2 α → α) (g : Grid α) (R C r dx dy : Nat) (vn : Bool)
    (hR1 : 1 ≤ R) (hC1 : 1 ≤ C) (hR : r ≤ R) (hC : r ≤ C) :
    pureStep2 f R C r vn (shift2 R C dx dy g) = shift2 R C dx dy (pureStep2 f R C r vn g) := by
  show ((List.range R).map fun i => (List.range C).map fun j => f (nbhd (shift2 R C dx dy g) R C r vn i j))
    = (List.range R).map fun i => (List.range C).map fun j =>
        ((pureStep2 f R C r vn g)[(i + dx) % R]!)[(j + dy) % C]!
  apply List.map_congr_left
  intro i _
  apply List.map_congr_left
  intro j _
  rw [nbhd_shift g R C r dx dy vn i j hR1 hC1 hR hC]
  unfold pureStep2
  rw [cell_tabulate R C _ (Nat.mod_lt _ (by omega)) (Nat.mod_lt _ (by omega))]

/-- **A pure torus run commutes with translation**: every grid of the run is translated. -/
theorem pureRun2_shift [Inhabited α] (f : Nbhd2 α → α) (R C r dx dy : Nat) (vn : Bool) (n : Nat)
    (g : Grid α) (hR1 : 1 ≤ R) (hC1 : 1 ≤ C) (hR : r ≤ R) (hC : r ≤ C) :
    pureRun2 f R C r vn n (shift2 R C dx dy g) = (pureRun2 f R C r vn n g).map (shift2 R C dx dy) := by
  induction n generalizing g with
  | zero => rfl
  | succ n ih =>
    simp only [pureRun2, List.map_cons]
    rw [pureStep2_shift f g R C r dx dy vn hR1 hC1 hR hC, ih (pureStep2 f R C r vn g)]

/-- The translation written with `rotateLeft` on both axes (for a rectangular grid). -/
theorem shift2_eq_rotateLeft [Inhabited α] (R C dx dy : Nat) (g : Grid α) (hg : Rect g R C) :
    shift2 R C dx dy g = (g.map (·.rotateLeft dy)).rotateLeft dx := by
  have hlen : (g.map (·.rotateLeft dy)).length = R := by simp [hg.1]
  rw [rotateLeft_eq_map (g.map (·.rotateLeft dy)) dx, hlen]
  unfold shift2
  apply List.map_congr_left
  intro i hi
  have hi : i < R := by simpa using hi
  have hlt : (i + dx) % R < g.length := by rw [hg.1]; exact Nat.mod_lt _ (by omega)
  rw [getElem!_pos (g.map (·.rotateLeft dy)) _ (by simpa using hlt), getElem!_pos g _ hlt, List.getElem_map]
  have hrow : (g[(i + dx) % R]).length = C := hg.2 _ (List.getElem_mem _)
  rw [rotateLeft_eq_map (g[(i + dx) % R]) dy, hrow]

end Cpl.Equivariance
