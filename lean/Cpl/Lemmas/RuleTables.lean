import Cpl.Model.RuleTables
import Cpl.Lemmas.Digits

/-!
# Helper lemmas for the rule-table model (`Cpl/Model/RuleTables.lean`), used by property C17.
-/

namespace Cpl
open Py

/-! ## Association lists: `get`, `set` -/

theorem RTable.get_nil (u : List Nat) : RTable.get [] u = none := rfl

theorem RTable.get_cons (e : List Nat × Nat) (t : RTable) (u : List Nat) :
    RTable.get (e :: t) u = if u = e.1 then some e.2 else RTable.get t u := by
  obtain ⟨a, b⟩ := e
  unfold RTable.get
  rw [List.lookup_cons]
  by_cases h : u = a
  · subst h; simp
  · have : (u == a) = false := by simpa using h
    simp [this, h]

theorem RTable.get_append (t t' : RTable) (u : List Nat) :
    RTable.get (t ++ t') u = (RTable.get t u).or (RTable.get t' u) := by
  unfold RTable.get; exact List.lookup_append

theorem RTable.get_eq_none_iff (t : RTable) (u : List Nat) :
    t.get u = none ↔ u ∉ t.map (·.1) := by
  induction t with
  | nil => simp [RTable.get_nil]
  | cons e t ih =>
    rw [RTable.get_cons]
    by_cases h : u = e.1
    · simp [h]
    · simp only [h, if_false, ih, List.map_cons, List.mem_cons, false_or]

theorem RTable.get_isSome_iff (t : RTable) (u : List Nat) :
    (∃ v, t.get u = some v) ↔ u ∈ t.map (·.1) := by
  have := RTable.get_eq_none_iff t u
  cases h : t.get u with
  | none => rw [h] at this; simp at this ⊢; simpa using this
  | some v => rw [h] at this; simp at this ⊢; simpa using this

theorem RTable.mem_of_get (t : RTable) (u : List Nat) (v : Nat) (h : t.get u = some v) : (u, v) ∈ t := by
  induction t with
  | nil => simp [RTable.get_nil] at h
  | cons e t ih =>
    rw [RTable.get_cons] at h
    by_cases hu : u = e.1
    · simp only [hu, if_true, Option.some.injEq] at h
      subst h; rw [hu]; exact List.mem_cons_self
    · simp only [hu, if_false] at h
      exact List.mem_cons_of_mem _ (ih h)

/-- With distinct keys, `get` returns exactly the stored pair. -/
theorem RTable.get_of_mem (t : RTable) (hnd : (t.map (·.1)).Nodup) (u : List Nat) (v : Nat)
    (h : (u, v) ∈ t) : t.get u = some v := by
  induction t with
  | nil => simp at h
  | cons e t ih =>
    rw [RTable.get_cons]
    simp only [List.map_cons, List.nodup_cons] at hnd
    rcases List.mem_cons.mp h with rfl | h'
    · simp
    · have hne : u ≠ e.1 := by
        intro heq
        apply hnd.1
        rw [← heq]
        exact List.mem_map.mpr ⟨(u, v), h', rfl⟩
      simp only [hne, if_false]
      exact ih hnd.2 h'

/-- The entry update used by `RTable.set` on an existing key. -/
def upd (key : List Nat) (v : Nat) (e : List Nat × Nat) : List Nat × Nat :=
  if e.1 == key then (e.1, v) else e

theorem upd_fst (key : List Nat) (v : Nat) (e : List Nat × Nat) : (upd key v e).1 = e.1 := by
  unfold upd; split <;> rfl

theorem upd_of_eq (key : List Nat) (v : Nat) (e : List Nat × Nat) (h : e.1 = key) :
    upd key v e = (key, v) := by
  unfold upd; simp [h]

theorem upd_of_ne (key : List Nat) (v : Nat) (e : List Nat × Nat) (h : e.1 ≠ key) :
    upd key v e = e := by
  unfold upd; simp [h]

theorem any_key_iff (t : RTable) (key : List Nat) :
    t.any (fun e => e.1 == key) = true ↔ key ∈ t.map (·.1) := by
  simp only [List.any_eq_true, beq_iff_eq, List.mem_map]

theorem RTable.set_of_mem (t : RTable) (key : List Nat) (v : Nat) (h : key ∈ t.map (·.1)) :
    t.set key v = t.map (upd key v) := by
  unfold RTable.set
  rw [if_pos ((any_key_iff t key).mpr h)]
  rfl

theorem RTable.set_of_not_mem (t : RTable) (key : List Nat) (v : Nat) (h : key ∉ t.map (·.1)) :
    t.set key v = t ++ [(key, v)] := by
  unfold RTable.set
  rw [if_neg (fun hh => h ((any_key_iff t key).mp hh))]

theorem RTable.set_keys_of_mem (t : RTable) (key : List Nat) (v : Nat) (h : key ∈ t.map (·.1)) :
    (t.set key v).map (·.1) = t.map (·.1) := by
  rw [RTable.set_of_mem t key v h, List.map_map]
  apply List.map_congr_left
  intro e _
  exact upd_fst key v e

theorem RTable.get_map_upd (t : RTable) (key u : List Nat) (v : Nat) :
    RTable.get (t.map (upd key v)) u = if u = key then (t.get u).map (fun _ => v) else t.get u := by
  induction t with
  | nil => simp [RTable.get_nil]
  | cons e t ih =>
    rw [List.map_cons, RTable.get_cons, RTable.get_cons, upd_fst, ih]
    by_cases hu : u = e.1
    · by_cases hk : e.1 = key
      · simp [hu, hk, upd_of_eq]
      · simp [hu, hk, upd_of_ne]
    · simp [hu]

/-- Reading a table after an assignment (Python `d[key] = v; d[u]`). -/
theorem RTable.get_set (t : RTable) (key u : List Nat) (v : Nat) :
    (t.set key v).get u = if u = key then some v else t.get u := by
  by_cases h : key ∈ t.map (·.1)
  · rw [RTable.set_of_mem t key v h, RTable.get_map_upd]
    by_cases hu : u = key
    · obtain ⟨w, hw⟩ := (RTable.get_isSome_iff t key).mpr h
      simp [hu, hw]
    · simp [hu]
  · rw [RTable.set_of_not_mem t key v h, RTable.get_append]
    by_cases hu : u = key
    · have : t.get key = none := (RTable.get_eq_none_iff t key).mpr h
      simp [hu, this, RTable.get_cons]
    · simp [hu, RTable.get_cons, RTable.get_nil]

/-- Every entry of `t.set key v` is either an untouched entry of `t` with a different key, or `(key, v)`. -/
theorem RTable.mem_set (t : RTable) (key : List Nat) (v : Nat) (e : List Nat × Nat)
    (he : e ∈ t.set key v) : (e ∈ t ∧ e.1 ≠ key) ∨ e = (key, v) := by
  by_cases h : key ∈ t.map (·.1)
  · rw [RTable.set_of_mem t key v h] at he
    obtain ⟨e', he', rfl⟩ := List.mem_map.mp he
    by_cases hk : e'.1 = key
    · right; exact upd_of_eq key v e' hk
    · left; rw [upd_of_ne key v e' hk]; exact ⟨he', hk⟩
  · rw [RTable.set_of_not_mem t key v h] at he
    rcases List.mem_append.mp he with he | he
    · left
      refine ⟨he, ?_⟩
      intro hk
      exact h (List.mem_map.mpr ⟨e, he, hk⟩)
    · right; simpa using he

/-! ## Counting quiescent entries -/

theorem quiescentCount_nil (q : Nat) : quiescentCount [] q = 0 := rfl

theorem quiescentCount_cons (e : List Nat × Nat) (t : RTable) (q : Nat) :
    quiescentCount (e :: t) q = quiescentCount t q + (if e.2 = q then 1 else 0) := by
  unfold quiescentCount
  rw [List.filter_cons]
  by_cases h : e.2 = q
  · simp [h]
  · simp [h]

theorem quiescentCount_append (t t' : RTable) (q : Nat) :
    quiescentCount (t ++ t') q = quiescentCount t q + quiescentCount t' q := by
  unfold quiescentCount; simp

theorem quiescentCount_le_length (t : RTable) (q : Nat) : quiescentCount t q ≤ t.length := by
  unfold quiescentCount; exact List.length_filter_le _ _

theorem quiescentCount_map_upd_q_ge (t : RTable) (key : List Nat) (q : Nat) :
    quiescentCount t q ≤ quiescentCount (t.map (upd key q)) q := by
  induction t with
  | nil => simp
  | cons e t ih =>
    rw [List.map_cons, quiescentCount_cons, quiescentCount_cons]
    by_cases hk : e.1 = key
    · rw [upd_of_eq key q e hk]; simp only [if_true]; split <;> omega
    · rw [upd_of_ne key q e hk]; omega

theorem quiescentCount_map_upd_q_gt (t : RTable) (key : List Nat) (q : Nat)
    (h : ∃ e ∈ t, e.1 = key ∧ e.2 ≠ q) :
    quiescentCount t q < quiescentCount (t.map (upd key q)) q := by
  induction t with
  | nil => obtain ⟨e, he, _⟩ := h; simp at he
  | cons e t ih =>
    rw [List.map_cons, quiescentCount_cons, quiescentCount_cons]
    have hge := quiescentCount_map_upd_q_ge t key q
    obtain ⟨e', he', hk', hv'⟩ := h
    rcases List.mem_cons.mp he' with rfl | he'
    · rw [upd_of_eq key q e' hk']; simp only [hv', if_false, if_true]; omega
    · have := ih ⟨e', he', hk', hv'⟩
      by_cases hk : e.1 = key
      · rw [upd_of_eq key q e hk]; simp only [if_true]; split <;> omega
      · rw [upd_of_ne key q e hk]; omega

theorem quiescentCount_map_upd_ne_le (t : RTable) (key : List Nat) (q v : Nat) (hv : v ≠ q) :
    quiescentCount (t.map (upd key v)) q ≤ quiescentCount t q := by
  induction t with
  | nil => simp
  | cons e t ih =>
    rw [List.map_cons, quiescentCount_cons, quiescentCount_cons]
    by_cases hk : e.1 = key
    · rw [upd_of_eq key v e hk]; simp only [hv, if_false]; omega
    · rw [upd_of_ne key v e hk]; omega

theorem quiescentCount_map_upd_ne_lt (t : RTable) (key : List Nat) (q v : Nat) (hv : v ≠ q)
    (h : ∃ e ∈ t, e.1 = key ∧ e.2 = q) :
    quiescentCount (t.map (upd key v)) q < quiescentCount t q := by
  induction t with
  | nil => obtain ⟨e, he, _⟩ := h; simp at he
  | cons e t ih =>
    rw [List.map_cons, quiescentCount_cons, quiescentCount_cons]
    have hle := quiescentCount_map_upd_ne_le t key q v hv
    obtain ⟨e', he', hk', hv'⟩ := h
    rcases List.mem_cons.mp he' with rfl | he'
    · rw [upd_of_eq key v e' hk']; simp only [hv, hv', if_false, if_true]; omega
    · have := ih ⟨e', he', hk', hv'⟩
      by_cases hk : e.1 = key
      · rw [upd_of_eq key v e hk]; simp only [hv, if_false]; omega
      · rw [upd_of_ne key v e hk]; omega

/-- Assigning the quiescent state never lowers the quiescent count. -/
theorem quiescentCount_set_q_ge (t : RTable) (key : List Nat) (q : Nat) :
    quiescentCount t q ≤ quiescentCount (t.set key q) q := by
  by_cases h : key ∈ t.map (·.1)
  · rw [RTable.set_of_mem t key q h]; exact quiescentCount_map_upd_q_ge t key q
  · rw [RTable.set_of_not_mem t key q h, quiescentCount_append]; omega

/-- Assigning the quiescent state to a key that held another state raises the quiescent count. -/
theorem quiescentCount_set_q_gt (t : RTable) (key : List Nat) (q : Nat)
    (h : ∃ e ∈ t, e.1 = key ∧ e.2 ≠ q) :
    quiescentCount t q < quiescentCount (t.set key q) q := by
  have hm : key ∈ t.map (·.1) := by
    obtain ⟨e, he, hk, _⟩ := h
    exact List.mem_map.mpr ⟨e, he, hk⟩
  rw [RTable.set_of_mem t key q hm]; exact quiescentCount_map_upd_q_gt t key q h

/-- Assigning a non-quiescent state never raises the quiescent count. -/
theorem quiescentCount_set_ne_le (t : RTable) (key : List Nat) (q v : Nat) (hv : v ≠ q) :
    quiescentCount (t.set key v) q ≤ quiescentCount t q := by
  by_cases h : key ∈ t.map (·.1)
  · rw [RTable.set_of_mem t key v h]; exact quiescentCount_map_upd_ne_le t key q v hv
  · rw [RTable.set_of_not_mem t key v h, quiescentCount_append, quiescentCount_cons, quiescentCount_nil]
    simp [hv]

/-- Assigning a non-quiescent state to a key that held the quiescent state lowers the quiescent count. -/
theorem quiescentCount_set_ne_lt (t : RTable) (key : List Nat) (q v : Nat) (hv : v ≠ q)
    (h : ∃ e ∈ t, e.1 = key ∧ e.2 = q) :
    quiescentCount (t.set key v) q < quiescentCount t q := by
  have hm : key ∈ t.map (·.1) := by
    obtain ⟨e, he, hk, _⟩ := h
    exact List.mem_map.mpr ⟨e, he, hk⟩
  rw [RTable.set_of_mem t key v hm]; exact quiescentCount_map_upd_ne_lt t key q v hv h

/-! ## Uniform neighbourhoods -/

theorem isUniform_iff (s : List Nat) : isUniform s = true ↔ s ≠ [] ∧ ∃ x, ∀ y ∈ s, y = x := by
  cases s with
  | nil => simp [isUniform]
  | cons a xs =>
    simp only [isUniform, List.all_eq_true, beq_iff_eq, ne_eq, reduceCtorEq, not_false_eq_true,
      List.mem_cons, forall_eq_or_imp, true_and]
    constructor
    · intro h; exact ⟨a, rfl, h⟩
    · rintro ⟨x, hx, h⟩ y hy; rw [hx, h y hy]

theorem isUniform_reverse (s : List Nat) : isUniform s.reverse = isUniform s := by
  rw [Bool.eq_iff_iff, isUniform_iff, isUniform_iff]
  simp

theorem reverse_eq_of_isUniform (s : List Nat) (h : isUniform s = true) : s.reverse = s := by
  obtain ⟨_, x, hx⟩ := (isUniform_iff s).mp h
  have : s = List.replicate s.length x := List.eq_replicate_iff.mpr ⟨rfl, hx⟩
  rw [this, List.reverse_replicate]

theorem isUniform_replicate (m x : Nat) : isUniform (List.replicate (m + 1) x) = true := by
  rw [isUniform_iff]
  refine ⟨by simp, x, ?_⟩
  intro y hy
  exact (List.mem_replicate.mp hy).2

/-- A uniform neighbourhood's `state[0]` is its only digit. -/
theorem head?_of_isUniform (s : List Nat) (h : isUniform s = true) : s.head? = some (s.headD 0) := by
  cases s with
  | nil => simp [isUniform] at h
  | cons a xs => rfl

/-! ## `otherStates` -/

theorem mem_otherStates (k q x : Nat) : x ∈ otherStates k q ↔ x < k ∧ x ≠ q := by
  simp [otherStates]

theorem otherStates_ne_nil (k q : Nat) (hk : 2 ≤ k) : otherStates k q ≠ [] := by
  intro h
  by_cases hq : q = 0
  · have : 1 ∈ otherStates k q := (mem_otherStates k q 1).mpr ⟨by omega, by omega⟩
    rw [h] at this; simp at this
  · have : 0 ∈ otherStates k q := (mem_otherStates k q 0).mpr ⟨by omega, by omega⟩
    rw [h] at this; simp at this

theorem getD_mod_mem {α : Type} (l : List α) (i : Nat) (d : α) (h : l ≠ []) :
    l.getD (i % l.length) d ∈ l := by
  have hlen : 0 < l.length := List.length_pos_iff.mpr h
  have hi : i % l.length < l.length := Nat.mod_lt _ hlen
  rw [List.getD_eq_getElem?_getD, List.getElem?_eq_getElem hi]
  exact List.getElem_mem hi

/-- `random.choice(other_states)` is a state `< k` different from the quiescent state (needs `k ≥ 2`). -/
theorem otherStates_choice (k q i : Nat) (hk : 2 ≤ k) :
    (otherStates k q).getD (i % (otherStates k q).length) q < k ∧
    (otherStates k q).getD (i % (otherStates k q).length) q ≠ q :=
  (mem_otherStates k q _).mp (getD_mod_mem _ i q (otherStates_ne_nil k q hk))

/-! ## `allStates` -/

theorem allStates_length (k n : Nat) : (allStates k n).length = k ^ n := by
  simp [allStates]

theorem padLeft_length_of_le {α : Type} (w : Nat) (x : α) (l : List α) (h : l.length ≤ w) :
    (padLeft w x l).length = w := by
  simp [padLeft]; omega

/-- Two digit strings of the same length over the same alphabet with the same value are equal. -/
theorem digits_ext (k : Nat) (hk : 2 ≤ k) (l1 l2 : List Nat) (hl : l1.length = l2.length)
    (h1 : ∀ d ∈ l1, d < k) (h2 : ∀ d ∈ l2, d < k) (hv : ofDigitsBE k l1 = ofDigitsBE k l2) : l1 = l2 := by
  apply List.ext_getElem hl
  intro i hi1 hi2
  rw [ofDigitsBE_getElem k hk l1 h1 i hi1, ofDigitsBE_getElem k hk l2 h2 i hi2, hv, hl]

theorem padLeft_baseDigits_value (k n i : Nat) (hk : 2 ≤ k) :
    ofDigitsBE k (padLeft n 0 (baseDigits k i)) = i := by
  unfold padLeft
  rw [ofDigitsBE_replicate_zero_append, baseDigits_value k hk]

theorem padLeft_baseDigits_lt (k n i : Nat) (hk : 2 ≤ k) :
    ∀ d ∈ padLeft n 0 (baseDigits k i), d < k := by
  intro d hd
  unfold padLeft at hd
  rcases List.mem_append.mp hd with hd | hd
  · have := (List.mem_replicate.mp hd).2; omega
  · exact baseDigits_lt k hk i d hd

/-- The keys are exactly the strings of `n` digits below `k`. -/
theorem mem_allStates_iff (k n : Nat) (hk : 2 ≤ k) (hn : 1 ≤ n) (s : List Nat) :
    s ∈ allStates k n ↔ s.length = n ∧ ∀ d ∈ s, d < k := by
  unfold allStates
  rw [List.mem_map]
  constructor
  · rintro ⟨i, hi, rfl⟩
    have hi' : i < k ^ n := List.mem_range.mp hi
    exact ⟨padLeft_length_of_le n 0 _ ((baseDigits_length_le_iff k i n hk hn).mpr hi'),
      padLeft_baseDigits_lt k n i hk⟩
  · rintro ⟨hlen, hlt⟩
    have hv : ofDigitsBE k s < k ^ n := hlen ▸ ofDigitsBE_lt_pow k s hlt
    refine ⟨ofDigitsBE k s, List.mem_range.mpr hv, ?_⟩
    apply digits_ext k hk _ _ _ (padLeft_baseDigits_lt k n _ hk) hlt (padLeft_baseDigits_value k n _ hk)
    rw [padLeft_length_of_le n 0 _ ((baseDigits_length_le_iff k _ n hk hn).mpr hv), hlen]

theorem allStates_nodup (k n : Nat) (hk : 2 ≤ k) : (allStates k n).Nodup := by
  unfold allStates List.Nodup
  rw [List.pairwise_map]
  refine List.Pairwise.imp_of_mem ?_ (List.pairwise_lt_range (n := k ^ n))
  intro a b _ _ hab heq
  have := congrArg (ofDigitsBE k) heq
  rw [padLeft_baseDigits_value k n a hk, padLeft_baseDigits_value k n b hk] at this
  omega

theorem reverse_mem_allStates (k n : Nat) (hk : 2 ≤ k) (hn : 1 ≤ n) (s : List Nat)
    (h : s ∈ allStates k n) : s.reverse ∈ allStates k n := by
  rw [mem_allStates_iff k n hk hn] at h ⊢
  exact ⟨by simpa using h.1, fun d hd => h.2 d (List.mem_reverse.mp hd)⟩

theorem reverse_mem_allStates_iff (k n : Nat) (hk : 2 ≤ k) (hn : 1 ≤ n) (s : List Nat) :
    s.reverse ∈ allStates k n ↔ s ∈ allStates k n := by
  constructor
  · intro h; simpa using reverse_mem_allStates k n hk hn _ h
  · exact reverse_mem_allStates k n hk hn s

/-! ## `random_rule_table`: the loop invariant -/

/-- What one loop iteration does: it assigns one value `cell` to the key `state`, and `cell` obeys the
    requested constraints. -/
theorem rrtStep_spec (k q : Nat) (sq iso : Bool) (oracle : RrtOracle) (st : RrtSt) (state : List Nat)
    (hk : 2 ≤ k) (hq : q < k) (hst : ∀ d ∈ state, d < k) (hne : state ≠ [])
    (hrange : ∀ e ∈ st.table, e.2 < k) :
    ∃ cell, (rrtStep k q sq iso oracle st state).table = st.table.set state cell ∧
      (rrtStep k q sq iso oracle st state).count = st.count + (if cell = q then 1 else 0) ∧
      cell < k ∧
      (sq = true → isUniform state = true → cell = state.headD 0) ∧
      (iso = true → state.reverse ≠ state → ∀ c, st.table.get state.reverse = some c → cell = c) := by
  unfold rrtStep
  by_cases h1 : sq = true ∧ isUniform state = true
  · rw [if_pos h1]
    refine ⟨state.headD 0, rfl, ?_, ?_, fun _ _ => rfl, ?_⟩
    · show (if state.headD 0 = q then st.count + 1 else st.count) = _
      split <;> rfl
    · cases state with
      | nil => exact absurd rfl hne
      | cons a xs => exact hst a List.mem_cons_self
    · intro _ hrev
      exact absurd (reverse_eq_of_isUniform state h1.2) hrev
  · rw [if_neg h1]
    have hsq : sq = true → isUniform state = true → False := fun a b => h1 ⟨a, b⟩
    cases hg : (if iso = true then st.table.get state.reverse else none) with
    | some cell =>
      have hiso : iso = true ∧ st.table.get state.reverse = some cell := by
        by_cases hi : iso = true
        · rw [if_pos hi] at hg; exact ⟨hi, hg⟩
        · rw [if_neg hi] at hg; exact absurd hg (by simp)
      refine ⟨cell, rfl, ?_, ?_, fun a b => (hsq a b).elim, ?_⟩
      · show (if cell = q then st.count + 1 else st.count) = _
        split <;> rfl
      · exact hrange _ (RTable.mem_of_get _ _ _ hiso.2)
      · intro _ _ c hc
        rw [hiso.2] at hc
        exact Option.some.inj hc
    | none =>
      have hiso : iso = true → st.table.get state.reverse = none := by
        intro hi; rw [if_pos hi] at hg; exact hg
      cases ho : oracle st.used with
      | none =>
        refine ⟨q, rfl, ?_, hq, fun a b => (hsq a b).elim, ?_⟩
        · simp
        · intro hi _ c hc; rw [hiso hi] at hc; exact absurd hc (by simp)
      | some i =>
        obtain ⟨hlt, hneq⟩ := otherStates_choice k q i hk
        refine ⟨_, rfl, ?_, hlt, fun a b => (hsq a b).elim, ?_⟩
        · show st.count = _
          rw [if_neg hneq]; rfl
        · intro hi _ c hc; rw [hiso hi] at hc; exact absurd hc (by simp)

/-- The loop invariant of `random_rule_table` after the keys `keys` have been processed. -/
structure RrtInv (k q : Nat) (sq iso : Bool) (keys : List (List Nat)) (st : RrtSt) : Prop where
  keys_eq : st.table.map (·.1) = keys
  range : ∀ e ∈ st.table, e.2 < k
  count_eq : st.count = quiescentCount st.table q
  sq_ok : sq = true → ∀ e ∈ st.table, isUniform e.1 = true → e.2 = e.1.headD 0
  iso_ok : iso = true → ∀ s c c', st.table.get s = some c → st.table.get s.reverse = some c' → c = c'

theorem RrtInv.init (k q : Nat) (sq iso : Bool) : RrtInv k q sq iso [] {} where
  keys_eq := rfl
  range := by intro e he; simp at he
  count_eq := rfl
  sq_ok := by intro _ e he; simp at he
  iso_ok := by intro _ s c c' h; simp [RTable.get_nil] at h

theorem RrtInv.step (k q : Nat) (sq iso : Bool) (oracle : RrtOracle) (keys : List (List Nat))
    (st : RrtSt) (x : List Nat) (hk : 2 ≤ k) (hq : q < k)
    (hx : ∀ d ∈ x, d < k) (hne : x ≠ []) (hnew : x ∉ keys)
    (inv : RrtInv k q sq iso keys st) :
    RrtInv k q sq iso (keys ++ [x]) (rrtStep k q sq iso oracle st x) := by
  obtain ⟨cell, htab, hcnt, hlt, hsq, hiso⟩ := rrtStep_spec k q sq iso oracle st x hk hq hx hne inv.range
  have hnew' : x ∉ st.table.map (·.1) := by rw [inv.keys_eq]; exact hnew
  have happ : (rrtStep k q sq iso oracle st x).table = st.table ++ [(x, cell)] := by
    rw [htab, RTable.set_of_not_mem _ _ _ hnew']
  refine ⟨?_, ?_, ?_, ?_, ?_⟩
  · rw [happ, List.map_append, inv.keys_eq]; rfl
  · intro e he
    rw [happ] at he
    rcases List.mem_append.mp he with he | he
    · exact inv.range e he
    · have : e = (x, cell) := by simpa using he
      rw [this]; exact hlt
  · rw [hcnt, happ, quiescentCount_append, quiescentCount_cons, quiescentCount_nil, inv.count_eq]
    simp
  · intro hs e he hu
    rw [happ] at he
    rcases List.mem_append.mp he with he | he
    · exact inv.sq_ok hs e he hu
    · have : e = (x, cell) := by simpa using he
      subst this
      exact hsq hs hu
  · intro hi s c c' h1 h2
    rw [htab, RTable.get_set] at h1 h2
    by_cases hs : s = x
    · subst hs
      rw [if_pos rfl] at h1
      have hc : c = cell := (Option.some.inj h1).symm
      by_cases hr : s.reverse = s
      · rw [if_pos hr] at h2
        rw [hc]; exact Option.some.inj h2
      · rw [if_neg hr] at h2
        rw [hc]; exact hiso hi hr c' h2
    · rw [if_neg hs] at h1
      by_cases hr : s.reverse = x
      · rw [if_pos hr] at h2
        have hc' : c' = cell := (Option.some.inj h2).symm
        have hxr : x.reverse = s := by rw [← hr]; simp
        have hxne : x.reverse ≠ x := by rw [hxr]; exact hs
        rw [hc']
        exact (hiso hi hxne c (by rw [hxr]; exact h1)).symm
      · rw [if_neg hr] at h2
        exact inv.iso_ok hi s c c' h1 h2

theorem RrtInv.fold (k q : Nat) (sq iso : Bool) (oracle : RrtOracle) (hk : 2 ≤ k) (hq : q < k) :
    ∀ (l keys : List (List Nat)) (st : RrtSt), (keys ++ l).Nodup →
      (∀ x ∈ l, x ≠ [] ∧ ∀ d ∈ x, d < k) → RrtInv k q sq iso keys st →
      RrtInv k q sq iso (keys ++ l) (l.foldl (rrtStep k q sq iso oracle) st) := by
  intro l
  induction l with
  | nil => intro keys st _ _ inv; simpa using inv
  | cons x l ih =>
    intro keys st hnd hl inv
    have hnd' : ((keys ++ [x]) ++ l).Nodup := by simpa using hnd
    have hnew : x ∉ keys := by
      intro hmem
      have := (List.nodup_append.mp hnd).2.2 x hmem x List.mem_cons_self
      exact this rfl
    have := ih (keys ++ [x]) (rrtStep k q sq iso oracle st x) hnd'
      (fun y hy => hl y (List.mem_cons_of_mem _ hy))
      (RrtInv.step k q sq iso oracle keys st x hk hq (hl x List.mem_cons_self).2
        (hl x List.mem_cons_self).1 hnew inv)
    simpa using this

/-- The invariant holds for the table returned by `random_rule_table`. -/
theorem randomRuleTable_inv (k r q : Nat) (sq iso : Bool) (oracle : RrtOracle) (st : RrtSt)
    (hk : 2 ≤ k) (h : randomRuleTable k r q sq iso oracle = .ok st) :
    q < k ∧ RrtInv k q sq iso (allStates k (2 * r + 1)) st := by
  unfold randomRuleTable at h
  by_cases hq : q > k - 1
  · rw [if_pos hq] at h; exact absurd h (by simp)
  · rw [if_neg hq] at h
    have hq' : q < k := by omega
    have hst : (allStates k (2 * r + 1)).foldl (rrtStep k q sq iso oracle) {} = st := by
      injection h
    refine ⟨hq', ?_⟩
    have := RrtInv.fold k q sq iso oracle hk hq' (allStates k (2 * r + 1)) [] {}
      (by simpa using allStates_nodup k _ hk)
      (by
        intro x hx
        have := (mem_allStates_iff k (2 * r + 1) hk (by omega) x).mp hx
        refine ⟨?_, this.2⟩
        intro h0; rw [h0] at this; simp at this)
      (RrtInv.init k q sq iso)
    rw [hst] at this
    simpa using this

/-! ## `table_walk_through` -/

/-- Candidate keys of the "reduce lambda" loop: keys not mapped to `q` (non-uniform ones under strong quiescence). -/
def downCands (q : Nat) (sq : Bool) (t : RTable) : List (List Nat) :=
  let cands := (t.filter (·.2 != q)).map (·.1)
  if sq then cands.filter (fun s => !isUniform s) else cands

/-- Candidate keys of the "increase lambda" loop: keys mapped to `q` (non-uniform ones under strong quiescence). -/
def upCands (q : Nat) (sq : Bool) (t : RTable) : List (List Nat) :=
  let cands := (t.filter (·.2 == q)).map (·.1)
  if sq then cands.filter (fun s => !isUniform s) else cands

/-- The assignment(s) of one walk iteration: `table[s] = v`, and `table[s[::-1]] = v` when isotropic. -/
def walkSet (iso : Bool) (t : RTable) (s : List Nat) (v : Nat) : RTable :=
  let t1 := t.set s v
  if iso then t1.set s.reverse v else t1

theorem walkDown_succ (k n q : Nat) (sq iso : Bool) (num den : Nat) (oracle : WalkOracle) (fuel : Nat)
    (st : WalkSt) :
    walkDown k n q sq iso num den oracle (fuel + 1) st =
      if lamGt (k ^ n) (quiescentCount st.table q) num den = true then
        if (downCands q sq st.table).isEmpty = true then st
        else walkDown k n q sq iso num den oracle fuel
          { table := walkSet iso st.table
              ((downCands q sq st.table).getD ((oracle st.used).1 % (downCands q sq st.table).length) []) q,
            used := st.used + 1 }
      else st := rfl

theorem walkUp_succ (k n q : Nat) (sq iso : Bool) (num den : Nat) (oracle : WalkOracle) (fuel : Nat)
    (st : WalkSt) :
    walkUp k n q sq iso num den oracle (fuel + 1) st =
      if lamLt (k ^ n) (quiescentCount st.table q) num den = true then
        if (upCands q sq st.table).isEmpty = true then st
        else walkUp k n q sq iso num den oracle fuel
          { table := walkSet iso st.table
              ((upCands q sq st.table).getD ((oracle st.used).1 % (upCands q sq st.table).length) [])
              ((otherStates k q).getD ((oracle st.used).2 % (otherStates k q).length) q),
            used := st.used + 1 }
      else st := rfl

theorem mem_downCands (q : Nat) (sq : Bool) (t : RTable) (s : List Nat) :
    s ∈ downCands q sq t ↔ (∃ e ∈ t, e.1 = s ∧ e.2 ≠ q) ∧ (sq = true → isUniform s = false) := by
  unfold downCands
  cases sq <;> simp [List.mem_filter, List.mem_map]

theorem mem_upCands (q : Nat) (sq : Bool) (t : RTable) (s : List Nat) :
    s ∈ upCands q sq t ↔ (∃ e ∈ t, e.1 = s ∧ e.2 = q) ∧ (sq = true → isUniform s = false) := by
  unfold upCands
  cases sq <;> simp [List.mem_filter, List.mem_map]

/-- Induction over the "reduce lambda" loop: a table property kept by every admissible iteration holds on exit. -/
theorem walkDown_induct (k n q : Nat) (sq iso : Bool) (num den : Nat) (oracle : WalkOracle)
    (P : RTable → Prop)
    (hstep : ∀ t s, P t → s ∈ downCands q sq t → P (walkSet iso t s q)) :
    ∀ fuel st, P st.table → P (walkDown k n q sq iso num den oracle fuel st).table := by
  intro fuel
  induction fuel with
  | zero => intro st h; exact h
  | succ fuel ih =>
    intro st h
    rw [walkDown_succ]
    split
    · split
      · exact h
      · rename_i hne
        apply ih
        apply hstep _ _ h
        apply getD_mod_mem
        intro h0; rw [h0] at hne; simp at hne
    · exact h

/-- Induction over the "increase lambda" loop. -/
theorem walkUp_induct (k n q : Nat) (sq iso : Bool) (num den : Nat) (oracle : WalkOracle) (hk : 2 ≤ k)
    (P : RTable → Prop)
    (hstep : ∀ t s v, P t → s ∈ upCands q sq t → v < k → v ≠ q → P (walkSet iso t s v)) :
    ∀ fuel st, P st.table → P (walkUp k n q sq iso num den oracle fuel st).table := by
  intro fuel
  induction fuel with
  | zero => intro st h; exact h
  | succ fuel ih =>
    intro st h
    rw [walkUp_succ]
    split
    · split
      · exact h
      · rename_i hne
        apply ih
        obtain ⟨hlt, hneq⟩ := otherStates_choice k q (oracle st.used).2 hk
        apply hstep _ _ _ h _ hlt hneq
        apply getD_mod_mem
        intro h0; rw [h0] at hne; simp at hne
    · exact h

/-! ### What one walk iteration preserves -/

theorem RTable.mem_keys_set (t : RTable) (key u : List Nat) (v : Nat)
    (h : u ∈ (t.set key v).map (·.1)) : u ∈ t.map (·.1) ∨ u = key := by
  obtain ⟨e, he, rfl⟩ := List.mem_map.mp h
  rcases RTable.mem_set t key v e he with ⟨he', _⟩ | rfl
  · left; exact List.mem_map.mpr ⟨e, he', rfl⟩
  · right; rfl

theorem walkSet_keys (iso : Bool) (t : RTable) (s : List Nat) (v : Nat)
    (hs : s ∈ t.map (·.1)) (hr : s.reverse ∈ t.map (·.1)) :
    (walkSet iso t s v).map (·.1) = t.map (·.1) := by
  unfold walkSet
  have h1 := RTable.set_keys_of_mem t s v hs
  cases iso
  · simpa using h1
  · simp only [if_true]
    rw [RTable.set_keys_of_mem _ _ _ (by rw [h1]; exact hr), h1]

theorem walkSet_mem_keys (iso : Bool) (t : RTable) (s u : List Nat) (v : Nat)
    (h : u ∈ (walkSet iso t s v).map (·.1)) : u ∈ t.map (·.1) ∨ u = s ∨ u = s.reverse := by
  unfold walkSet at h
  cases iso
  · rcases RTable.mem_keys_set _ _ _ _ (by simpa using h) with h | h
    · exact Or.inl h
    · exact Or.inr (Or.inl h)
  · simp only [if_true] at h
    rcases RTable.mem_keys_set _ _ _ _ h with h | h
    · rcases RTable.mem_keys_set _ _ _ _ h with h | h
      · exact Or.inl h
      · exact Or.inr (Or.inl h)
    · exact Or.inr (Or.inr h)

theorem walkSet_range (iso : Bool) (t : RTable) (s : List Nat) (v k : Nat) (hv : v < k)
    (h : ∀ e ∈ t, e.2 < k) : ∀ e ∈ walkSet iso t s v, e.2 < k := by
  have h1 : ∀ e ∈ t.set s v, e.2 < k := by
    intro e he
    rcases RTable.mem_set t s v e he with ⟨he', _⟩ | rfl
    · exact h e he'
    · exact hv
  unfold walkSet
  cases iso
  · simpa using h1
  · simp only [if_true]
    intro e he
    rcases RTable.mem_set _ _ _ e he with ⟨he', _⟩ | rfl
    · exact h1 e he'
    · exact hv

theorem walkSet_get (iso : Bool) (t : RTable) (s u : List Nat) (v : Nat) :
    (walkSet iso t s v).get u =
      if (iso = true ∧ u = s.reverse) ∨ u = s then some v else t.get u := by
  unfold walkSet
  cases iso
  · simp [RTable.get_set]
  · simp only [if_true, RTable.get_set, true_and]
    by_cases h1 : u = s.reverse
    · simp [h1]
    · simp [h1]

theorem walkSet_get_of_uniform (iso : Bool) (t : RTable) (s u : List Nat) (v : Nat)
    (hs : isUniform s = false) (hu : isUniform u = true) :
    (walkSet iso t s v).get u = t.get u := by
  rw [walkSet_get]
  have h1 : u ≠ s := by intro h; rw [h, hs] at hu; exact absurd hu (by simp)
  have h2 : u ≠ s.reverse := by
    intro h; rw [h, isUniform_reverse, hs] at hu; exact absurd hu (by simp)
  simp [h1, h2]

/-- Isotropy (in `get` form) is kept by an isotropic iteration. -/
theorem walkSet_iso (t : RTable) (s : List Nat) (v : Nat) (h : ∀ u, t.get u.reverse = t.get u) :
    ∀ u, (walkSet true t s v).get u.reverse = (walkSet true t s v).get u := by
  intro u
  rw [walkSet_get, walkSet_get, h u]
  have e1 : u.reverse = s.reverse ↔ u = s := List.reverse_inj
  have e2 : u.reverse = s ↔ u = s.reverse := by
    constructor
    · intro h; rw [← h]; simp
    · intro h; rw [h]; simp
  simp only [true_and, e1, e2]
  by_cases h1 : u = s <;> by_cases h2 : u = s.reverse <;> simp [h1, h2]

theorem walkSet_count_down (iso : Bool) (t : RTable) (s : List Nat) (q : Nat)
    (h : ∃ e ∈ t, e.1 = s ∧ e.2 ≠ q) :
    quiescentCount t q < quiescentCount (walkSet iso t s q) q := by
  have h1 := quiescentCount_set_q_gt t s q h
  unfold walkSet
  cases iso
  · simpa using h1
  · simp only [if_true]
    exact Nat.lt_of_lt_of_le h1 (quiescentCount_set_q_ge _ _ _)

theorem walkSet_count_up (iso : Bool) (t : RTable) (s : List Nat) (q v : Nat) (hv : v ≠ q)
    (h : ∃ e ∈ t, e.1 = s ∧ e.2 = q) :
    quiescentCount (walkSet iso t s v) q < quiescentCount t q := by
  have h1 := quiescentCount_set_ne_lt t s q v hv h
  unfold walkSet
  cases iso
  · simpa using h1
  · simp only [if_true]
    exact Nat.lt_of_le_of_lt (quiescentCount_set_ne_le _ _ _ _ hv) h1

/-- A table whose key list is closed under reversal keeps its key list through a "reduce" iteration. -/
theorem walkSet_keys_down (q : Nat) (sq iso : Bool) (t : RTable) (s : List Nat) (v : Nat)
    (hclosed : ∀ u ∈ t.map (·.1), u.reverse ∈ t.map (·.1)) (hs : s ∈ downCands q sq t) :
    (walkSet iso t s v).map (·.1) = t.map (·.1) := by
  obtain ⟨⟨e, he, hk, _⟩, _⟩ := (mem_downCands q sq t s).mp hs
  have hm : s ∈ t.map (·.1) := List.mem_map.mpr ⟨e, he, hk⟩
  exact walkSet_keys iso t s v hm (hclosed s hm)

theorem walkSet_keys_up (q : Nat) (sq iso : Bool) (t : RTable) (s : List Nat) (v : Nat)
    (hclosed : ∀ u ∈ t.map (·.1), u.reverse ∈ t.map (·.1)) (hs : s ∈ upCands q sq t) :
    (walkSet iso t s v).map (·.1) = t.map (·.1) := by
  obtain ⟨⟨e, he, hk, _⟩, _⟩ := (mem_upCands q sq t s).mp hs
  have hm : s ∈ t.map (·.1) := List.mem_map.mpr ⟨e, he, hk⟩
  exact walkSet_keys iso t s v hm (hclosed s hm)

/-! ### Termination reason: the `attempts < len(table)` bound is never what stops the loops -/

theorem walkDown_stops (k n q : Nat) (sq iso : Bool) (num den : Nat) (oracle : WalkOracle)
    (keys : List (List Nat)) (hclosed : ∀ u ∈ keys, u.reverse ∈ keys) (hlen : keys.length = k ^ n) :
    ∀ fuel st, st.table.map (·.1) = keys → keys.length ≤ fuel + quiescentCount st.table q →
      lamGt (k ^ n) (quiescentCount (walkDown k n q sq iso num den oracle fuel st).table q) num den = false ∨
      downCands q sq (walkDown k n q sq iso num den oracle fuel st).table = [] := by
  intro fuel
  induction fuel with
  | zero =>
    intro st _ hf
    left
    show lamGt (k ^ n) (quiescentCount st.table q) num den = false
    unfold lamGt
    have : k ^ n - quiescentCount st.table q = 0 := by omega
    rw [this]; simp
  | succ fuel ih =>
    intro st hkeys hf
    rw [walkDown_succ]
    by_cases hg : lamGt (k ^ n) (quiescentCount st.table q) num den = true
    · rw [if_pos hg]
      by_cases he : (downCands q sq st.table).isEmpty = true
      · rw [if_pos he]; right; simpa using he
      · rw [if_neg he]
        have hmem := getD_mod_mem (downCands q sq st.table) (oracle st.used).1 []
          (by intro h0; rw [h0] at he; simp at he)
        apply ih
        · show (walkSet iso st.table _ q).map (·.1) = keys
          rw [walkSet_keys_down q sq iso st.table _ q (by rw [hkeys]; exact hclosed) hmem, hkeys]
        · show keys.length ≤ fuel + quiescentCount (walkSet iso st.table _ q) q
          have := walkSet_count_down iso st.table _ q ((mem_downCands q sq st.table _).mp hmem).1
          omega
    · rw [if_neg hg]; left; simpa using hg

theorem walkUp_stops (k n q : Nat) (sq iso : Bool) (num den : Nat) (oracle : WalkOracle) (hk : 2 ≤ k) :
    ∀ fuel st, quiescentCount st.table q ≤ fuel →
      lamLt (k ^ n) (quiescentCount (walkUp k n q sq iso num den oracle fuel st).table q) num den = false ∨
      upCands q sq (walkUp k n q sq iso num den oracle fuel st).table = [] := by
  intro fuel
  induction fuel with
  | zero =>
    intro st hf
    right
    show upCands q sq st.table = []
    have h0 : quiescentCount st.table q = 0 := by omega
    apply List.eq_nil_iff_forall_not_mem.mpr
    intro s hs
    obtain ⟨⟨e, he, _, hv⟩, _⟩ := (mem_upCands q sq st.table s).mp hs
    unfold quiescentCount at h0
    have : e ∈ st.table.filter (·.2 == q) := List.mem_filter.mpr ⟨he, by simpa using hv⟩
    rw [List.length_eq_zero_iff.mp h0] at this
    simp at this
  | succ fuel ih =>
    intro st hf
    rw [walkUp_succ]
    by_cases hg : lamLt (k ^ n) (quiescentCount st.table q) num den = true
    · rw [if_pos hg]
      by_cases he : (upCands q sq st.table).isEmpty = true
      · rw [if_pos he]; right; simpa using he
      · rw [if_neg he]
        have hmem := getD_mod_mem (upCands q sq st.table) (oracle st.used).1 []
          (by intro h0; rw [h0] at he; simp at he)
        apply ih
        show quiescentCount (walkSet iso st.table _ _) q ≤ fuel
        have := walkSet_count_up iso st.table _ q _ (otherStates_choice k q (oracle st.used).2 hk).2
          ((mem_upCands q sq st.table _).mp hmem).1
        omega
    · rw [if_neg hg]; left; simpa using hg

end Cpl
