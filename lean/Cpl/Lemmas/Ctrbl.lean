import Cpl.Model.Ctrbl

/-!
# Helper lemmas for C15 (CTRBL rule tables, Langton's loop, SDSR loop, Evoloop)

Everything here is structural: no lemma depends on the values of the generated tables.
-/

namespace Cpl.Ctrbl
open Cpl Cpl.Gen

/-! ## The quarter turn and its orbits -/

theorem rot4 (k : Key5) : rot (rot (rot (rot k))) = k := by
  obtain ⟨c, t, r, b, l⟩ := k; rfl

theorem rot_inj {a b : Key5} (h : rot a = rot b) : a = b := by
  have := congrArg (fun x => rot (rot (rot x))) h
  simpa [rot4] using this

theorem rot_centre (k : Key5) : (rot k).1 = k.1 := by
  obtain ⟨c, t, r, b, l⟩ := k; rfl

/-- The four orientations of a key. -/
def orbit (k : Key5) : List Key5 := [k, rot k, rot (rot k), rot (rot (rot k))]

theorem mem_orbit_iff {k k' : Key5} :
    k' ∈ orbit k ↔ k' = k ∨ k' = rot k ∨ k' = rot (rot k) ∨ k' = rot (rot (rot k)) := by
  simp [orbit]

theorem mem_orbit_self (k : Key5) : k ∈ orbit k := by simp [orbit]

theorem mem_orbit_rot (e k : Key5) : rot k ∈ orbit e ↔ k ∈ orbit e := by
  simp only [mem_orbit_iff]
  constructor
  · rintro (h | h | h | h)
    · right; right; right; apply rot_inj; rw [rot4]; exact h
    · left; exact rot_inj h
    · right; left; exact rot_inj h
    · right; right; left; exact rot_inj h
  · rintro (h | h | h | h)
    · right; left; rw [h]
    · right; right; left; rw [h]
    · right; right; right; rw [h]
    · left; rw [h, rot4]

theorem mem_orbit_rot_right (e k : Key5) : k ∈ orbit (rot e) ↔ k ∈ orbit e := by
  simp only [mem_orbit_iff, rot4]
  constructor
  · rintro (h | h | h | h)
    · right; left; exact h
    · right; right; left; exact h
    · right; right; right; exact h
    · left; exact h
  · rintro (h | h | h | h)
    · right; right; right; exact h
    · left; exact h
    · right; left; exact h
    · right; right; left; exact h

theorem mem_orbit_symm {e k : Key5} (h : k ∈ orbit e) : e ∈ orbit k := by
  rcases mem_orbit_iff.mp h with h | h | h | h <;> subst h
  · exact mem_orbit_self _
  · exact (mem_orbit_rot_right _ _).mpr (mem_orbit_self _)
  · exact (mem_orbit_rot_right _ _).mpr ((mem_orbit_rot_right _ _).mpr (mem_orbit_self _))
  · exact (mem_orbit_rot_right _ _).mpr
      ((mem_orbit_rot_right _ _).mpr ((mem_orbit_rot_right _ _).mpr (mem_orbit_self _)))

theorem mem_orbit_trans {a b c : Key5} (hab : a ∈ orbit b) (hbc : b ∈ orbit c) : a ∈ orbit c := by
  rcases mem_orbit_iff.mp hab with h | h | h | h <;> subst h
  · exact hbc
  · exact (mem_orbit_rot _ _).mpr hbc
  · exact (mem_orbit_rot _ _).mpr ((mem_orbit_rot _ _).mpr hbc)
  · exact (mem_orbit_rot _ _).mpr ((mem_orbit_rot _ _).mpr ((mem_orbit_rot _ _).mpr hbc))

theorem centre_of_mem_orbit {k k' : Key5} (h : k' ∈ orbit k) : k'.1 = k.1 := by
  rcases mem_orbit_iff.mp h with h | h | h | h <;> subst h <;> simp [rot_centre]

/-! ## Association lists -/

theorem lookup_cons_ite (tbl : Table) (a k : Key5) (v : Int) :
    List.lookup k ((a, v) :: tbl) = if k = a then some v else tbl.lookup k := by
  rw [List.lookup_cons]
  by_cases h : k = a
  · simp [h]
  · have : (k == a) = false := by simpa using h
    simp [this, h]

theorem mem_of_lookup_eq_some {tbl : Table} {k : Key5} {v : Int} (h : tbl.lookup k = some v) :
    (k, v) ∈ tbl := by
  induction tbl with
  | nil => simp at h
  | cons e es ih =>
    obtain ⟨a, w⟩ := e
    rw [lookup_cons_ite] at h
    by_cases hk : k = a
    · simp only [hk, if_true, Option.some.injEq] at h
      subst hk; subst h; exact List.mem_cons_self
    · simp only [hk, if_false] at h
      exact List.mem_cons_of_mem _ (ih h)

theorem lookup_isSome_of_mem {tbl : Table} {k : Key5} {v : Int} (h : (k, v) ∈ tbl) :
    ∃ w, tbl.lookup k = some w := by
  induction tbl with
  | nil => simp at h
  | cons e es ih =>
    obtain ⟨a, w⟩ := e
    rw [lookup_cons_ite]
    by_cases hk : k = a
    · exact ⟨w, by simp [hk]⟩
    · simp only [hk, if_false]
      rcases List.mem_cons.mp h with h | h
      · exact absurd (congrArg Prod.fst h) hk
      · exact ih h

theorem lookup_eq_none_of_not_key {tbl : Table} {k : Key5} (h : ∀ v, (k, v) ∉ tbl) :
    tbl.lookup k = none := by
  cases hl : tbl.lookup k with
  | none => rfl
  | some v => exact absurd (mem_of_lookup_eq_some hl) (h v)

/-- A list with one image per key answers each of its pairs. -/
theorem lookup_of_functional {tbl : Table}
    (hfun : ∀ e ∈ tbl, ∀ e' ∈ tbl, e'.1 = e.1 → e'.2 = e.2) {k : Key5} {v : Int} (h : (k, v) ∈ tbl) :
    tbl.lookup k = some v := by
  obtain ⟨w, hw⟩ := lookup_isSome_of_mem h
  have := hfun (k, v) h (k, w) (mem_of_lookup_eq_some hw) rfl
  simp only at this
  rw [hw, this]

theorem foldl_cons_eq (l : List (Key5 × Int)) (tbl : Table) :
    l.foldl (fun tbl e => e :: tbl) tbl = l.reverse ++ tbl := by
  induction l generalizing tbl with
  | nil => rfl
  | cons e es ih => simp [List.foldl_cons, ih]

/-! ## `initTable` -/

/-- One iteration of `_init_rule_table`'s loop. -/
def step (addRot : Bool) (tbl : Table) (e : Key5 × Int) : Table :=
  if addRot then (rot (rot (rot e.1)), e.2) :: (rot (rot e.1), e.2) :: (rot e.1, e.2) :: (e.1, e.2) :: tbl
  else (e.1, e.2) :: tbl

theorem initTable_eq_foldl (entries : List (Key5 × Int)) (addRot : Bool) :
    initTable entries addRot = entries.foldl (step addRot) [] := by
  rfl

theorem lookup_step_true (tbl : Table) (e : Key5 × Int) (k : Key5) :
    (step true tbl e).lookup k = if k ∈ orbit e.1 then some e.2 else tbl.lookup k := by
  simp only [step, if_true, lookup_cons_ite, mem_orbit_iff]
  by_cases h0 : k = e.1 <;> by_cases h1 : k = rot e.1 <;> by_cases h2 : k = rot (rot e.1) <;>
    by_cases h3 : k = rot (rot (rot e.1)) <;> simp [h0, h1, h2, h3]

/-- With rotations, the answer for `k` is the image of the **last** input entry whose rotation class
    contains `k`. -/
theorem lookup_foldl_step_true (entries : List (Key5 × Int)) (tbl : Table) (k : Key5) :
    (entries.foldl (step true) tbl).lookup k
      = ((entries.reverse.find? fun e => decide (k ∈ orbit e.1)).map (·.2)).or (tbl.lookup k) := by
  induction entries generalizing tbl with
  | nil => simp
  | cons e es ih =>
    rw [List.foldl_cons, ih, List.reverse_cons, List.find?_append, lookup_step_true]
    cases hf : es.reverse.find? fun e => decide (k ∈ orbit e.1) with
    | some x => simp
    | none =>
      by_cases hk : k ∈ orbit e.1 <;> simp [hk]

theorem initTable_lookup (entries : List (Key5 × Int)) (k : Key5) :
    (initTable entries true).lookup k
      = (entries.reverse.find? fun e => decide (k ∈ orbit e.1)).map (·.2) := by
  rw [initTable_eq_foldl, lookup_foldl_step_true]; simp

/-- The last input line owns its rotation class, whatever came before. -/
theorem initTable_getLast (entries : List (Key5 × Int)) (e : Key5 × Int) (h : entries.getLast? = some e)
    (k' : Key5) (hk : k' ∈ orbit e.1) : (initTable entries true).lookup k' = some e.2 := by
  obtain ⟨ys, rfl⟩ := List.getLast?_eq_some_iff.mp h
  rw [initTable_lookup, List.reverse_append]
  simp [hk]

theorem foldl_step_false (entries : List (Key5 × Int)) (tbl : Table) :
    entries.foldl (step false) tbl = entries.reverse ++ tbl := by
  induction entries generalizing tbl with
  | nil => rfl
  | cons e es ih => simp [List.foldl_cons, ih, step]

theorem initTable_false (entries : List (Key5 × Int)) : initTable entries false = entries.reverse := by
  rw [initTable_eq_foldl, foldl_step_false]; simp

theorem mem_step (b : Bool) (tbl : Table) (e : Key5 × Int) (k : Key5) (v : Int) :
    (k, v) ∈ step b tbl e ↔ (v = e.2 ∧ (k = e.1 ∨ (b = true ∧ k ∈ orbit e.1))) ∨ (k, v) ∈ tbl := by
  cases b <;> simp [step, mem_orbit_iff] <;> grind

theorem mem_foldl_step (b : Bool) (entries : List (Key5 × Int)) (tbl : Table) (k : Key5) (v : Int) :
    (k, v) ∈ entries.foldl (step b) tbl
      ↔ (∃ k0, (k0, v) ∈ entries ∧ (k = k0 ∨ (b = true ∧ k ∈ orbit k0))) ∨ (k, v) ∈ tbl := by
  induction entries generalizing tbl with
  | nil => simp
  | cons e es ih =>
    rw [List.foldl_cons, ih, mem_step]
    constructor
    · rintro (⟨k0, hm, hk⟩ | ⟨hv, hk⟩ | h)
      · exact Or.inl ⟨k0, List.mem_cons_of_mem _ hm, hk⟩
      · refine Or.inl ⟨e.1, ?_, hk⟩
        rw [hv]; exact List.mem_cons_self
      · exact Or.inr h
    · rintro (⟨k0, hm, hk⟩ | h)
      · rcases List.mem_cons.mp hm with hm | hm
        · right; left
          have h1 : k0 = e.1 := congrArg Prod.fst hm
          have h2 : v = e.2 := congrArg Prod.snd hm
          exact ⟨h2, h1 ▸ hk⟩
        · exact Or.inl ⟨k0, hm, hk⟩
      · exact Or.inr (Or.inr h)

/-- The pairs of the built table: exactly the input pairs and (when rotating) their rotations. -/
theorem mem_initTable (b : Bool) (entries : List (Key5 × Int)) (k : Key5) (v : Int) :
    (k, v) ∈ initTable entries b ↔ ∃ k0, (k0, v) ∈ entries ∧ (k = k0 ∨ (b = true ∧ k ∈ orbit k0)) := by
  rw [initTable_eq_foldl, mem_foldl_step]; simp

/-! ## Rotation-invariant tables -/

/-- A table answers identically on a key and its quarter turn. -/
def RotInv (tbl : Table) : Prop := ∀ k, tbl.lookup (rot k) = tbl.lookup k

theorem initTable_rotInv (entries : List (Key5 × Int)) : RotInv (initTable entries true) := by
  intro k
  rw [initTable_lookup, initTable_lookup]
  have : (fun e : Key5 × Int => decide (rot k ∈ orbit e.1)) = fun e => decide (k ∈ orbit e.1) := by
    funext e; simp [mem_orbit_rot]
  rw [this]

/-- Later assignments that are closed under the quarter turn and give one image per key keep a
    rotation-invariant table rotation-invariant. -/
theorem rotInv_append (ext : List (Key5 × Int)) (tbl : Table)
    (hclosed : ∀ e ∈ ext, (rot e.1, e.2) ∈ ext)
    (hfun : ∀ e ∈ ext, ∀ e' ∈ ext, e'.1 = e.1 → e'.2 = e.2)
    (h : RotInv tbl) : RotInv (ext.reverse ++ tbl) := by
  have hfun' : ∀ e ∈ ext.reverse, ∀ e' ∈ ext.reverse, e'.1 = e.1 → e'.2 = e.2 := by
    intro e he e' he'
    exact hfun e (List.mem_reverse.mp he) e' (List.mem_reverse.mp he')
  intro k
  rw [List.lookup_append, List.lookup_append, h k]
  cases hk : ext.reverse.lookup k with
  | some v =>
    have hm : (k, v) ∈ ext := List.mem_reverse.mp (mem_of_lookup_eq_some hk)
    have hm' : (rot k, v) ∈ ext.reverse := List.mem_reverse.mpr (hclosed _ hm)
    rw [lookup_of_functional hfun' hm']
  | none =>
    cases hk' : ext.reverse.lookup (rot k) with
    | none => rfl
    | some v =>
      exfalso
      have hm : (rot k, v) ∈ ext := List.mem_reverse.mp (mem_of_lookup_eq_some hk')
      have h4 := hclosed _ (hclosed _ (hclosed _ hm))
      simp only [rot4] at h4
      obtain ⟨w, hw⟩ := lookup_isSome_of_mem (List.mem_reverse.mpr h4)
      rw [hk] at hw; cases hw

/-! ## The default rules only see the multiset of neighbours -/

theorem mem_rot (x t r b l : Int) : mem x [l, t, r, b] = mem x [t, r, b, l] := by
  simp only [mem, List.contains_cons, List.contains_nil, Bool.or_false]
  cases (x == l) <;> cases (x == t) <;> cases (x == r) <;> cases (x == b) <;> rfl

theorem inTube_rot (t r b l : Int) : inTube l t r b = inTube t r b l := by
  simp only [inTube, List.filter_cons, List.filter_nil]
  generalize mem l [1, 2, 4, 6, 7] = pl
  generalize mem t [1, 2, 4, 6, 7] = pt
  generalize mem r [1, 2, 4, 6, 7] = pr
  generalize mem b [1, 2, 4, 6, 7] = pb
  cases pl <;> cases pt <;> cases pr <;> cases pb <;> rfl

theorem eightRules_congr (c : Int) (l1 l2 : List Int) (na : Option Int)
    (h : ∀ x, mem x l1 = mem x l2) : eightRules c l1 na = eightRules c l2 na := by
  have hf : (fun i => mem i l1) = fun i => mem i l2 := funext h
  unfold eightRules
  rw [h 8, hf]

theorem sdsrDefault_rot (k : Key5) : sdsrDefault (rot k) = sdsrDefault k := by
  obtain ⟨c, t, r, b, l⟩ := k
  have h : ∀ x, mem x [l, t, r, b] = mem x [t, r, b, l] := fun x => mem_rot x t r b l
  simp only [rot, sdsrDefault, eightRules_congr c _ _ _ h, h, inTube_rot t r b l]

theorem evoloopDefault_rot (k : Key5) : evoloopDefault (rot k) = evoloopDefault k := by
  obtain ⟨c, t, r, b, l⟩ := k
  have h : ∀ x, mem x [l, t, r, b] = mem x [t, r, b, l] := fun x => mem_rot x t r b l
  simp only [rot, evoloopDefault]
  rw [eightRules_congr c _ _ _ h]
  rfl

/-! ## The default rules as decision tables (all integer centres) -/

theorem mem_eq_decide (x : Int) (l : List Int) : mem x l = decide (x ∈ l) := by
  rw [Bool.eq_iff_iff]; simp [mem]

theorem any27 (trbl : List Int) :
    ([2, 3, 4, 5, 6, 7].any fun i => mem i trbl) = decide (∃ x ∈ trbl, 2 ≤ x ∧ x ≤ 7) := by
  rw [Bool.eq_iff_iff]
  simp only [List.any_eq_true, mem_eq_decide, decide_eq_true_eq]
  constructor
  · rintro ⟨i, hi, hm⟩
    refine ⟨i, hm, ?_⟩
    simp at hi; omega
  · rintro ⟨x, hm, h2, h7⟩
    refine ⟨x, ?_, hm⟩
    have : x = 2 ∨ x = 3 ∨ x = 4 ∨ x = 5 ∨ x = 6 ∨ x = 7 := by omega
    simpa using this

/-- The 8-neighbour rules, for every integer centre. -/
theorem eightRules_eq (c : Int) (trbl : List Int) (na : Option Int) :
    eightRules c trbl na =
      if 8 ∈ trbl then
        if c = 0 ∨ c = 1 then (if ∃ x ∈ trbl, 2 ≤ x ∧ x ≤ 7 then some 8 else some c)
        else if c = 2 ∨ c = 3 ∨ c = 5 then some 0
        else if c = 4 ∨ c = 6 ∨ c = 7 then some 1
        else na
      else na := by
  unfold eightRules
  rw [any27]
  have h1 : mem c [2, 3, 5] = decide (c = 2 ∨ c = 3 ∨ c = 5) := by
    rw [Bool.eq_iff_iff]; simp [mem]
  have h2 : mem c [4, 6, 7] = decide (c = 4 ∨ c = 6 ∨ c = 7) := by
    rw [Bool.eq_iff_iff]; simp [mem]
  rw [h1, h2, mem_eq_decide 8 trbl]
  by_cases p8 : 8 ∈ trbl <;> by_cases p27 : ∃ x ∈ trbl, 2 ≤ x ∧ x ≤ 7 <;> simp [p8, p27] <;> grind

/-- The final clean-up, for every integer centre. -/
theorem cleanup_eq (c : Int) (na : Option Int) :
    cleanup c na = match na with
      | some v => some v
      | none => if c = 0 then some 0 else if 1 ≤ c ∧ c ≤ 7 then some 8 else none := by
  have h : mem c [1, 2, 3, 4, 5, 6, 7] = decide (1 ≤ c ∧ c ≤ 7) := by
    rw [Bool.eq_iff_iff]; simp [mem]; omega
  unfold cleanup
  rw [h]
  cases na with
  | some v => simp
  | none => by_cases h0 : c = 0 <;> simp [h0]

/-! ## A kernel-friendly conflict checker

`decide +kernel` on the plain statement "no two entries of one rotation class carry different images"
is quadratic in the table size with a large constant; this Boolean checker written with recursors does
the same comparison much faster, and is proved sound below. -/

noncomputable def intBeq (a b : Int) : Bool :=
  Int.rec (fun n => Int.rec (fun m => Nat.beq n m) (fun _ => false) b)
    (fun n => Int.rec (fun _ => false) (fun m => Nat.beq n m) b) a

theorem intBeq_iff (a b : Int) : intBeq a b = true ↔ a = b := by
  cases a <;> cases b <;> simp [intBeq] <;> omega

noncomputable def andR (x y : Bool) : Bool := Bool.rec false y x
noncomputable def orR (x y : Bool) : Bool := Bool.rec y true x

theorem andR_iff (x y : Bool) : andR x y = true ↔ x = true ∧ y = true := by
  cases x <;> simp [andR]

theorem orR_iff (x y : Bool) : orR x y = true ↔ x = true ∨ y = true := by
  cases x <;> simp [orR]

noncomputable def keyBeq (a b : Key5) : Bool :=
  andR (intBeq a.1 b.1) (andR (intBeq a.2.1 b.2.1) (andR (intBeq a.2.2.1 b.2.2.1)
    (andR (intBeq a.2.2.2.1 b.2.2.2.1) (intBeq a.2.2.2.2 b.2.2.2.2))))

theorem keyBeq_iff (a b : Key5) : keyBeq a b = true ↔ a = b := by
  obtain ⟨a0, a1, a2, a3, a4⟩ := a
  obtain ⟨b0, b1, b2, b3, b4⟩ := b
  simp [keyBeq, andR_iff, intBeq_iff]

noncomputable def allR {α : Type} (l : List α) (p : α → Bool) : Bool :=
  List.rec true (fun h _ ih => Bool.rec false ih (p h)) l

theorem allR_iff {α : Type} (l : List α) (p : α → Bool) : allR l p = true ↔ ∀ x ∈ l, p x = true := by
  induction l with
  | nil => simp [allR]
  | cons h t ih =>
    have : allR (h :: t) p = Bool.rec false (allR t p) (p h) := rfl
    rw [this]
    cases hp : p h <;> simp [hp, ih]

noncomputable def inOrbitB (k k' : Key5) : Bool :=
  orR (keyBeq k' k) (orR (keyBeq k' (rot k)) (orR (keyBeq k' (rot (rot k))) (keyBeq k' (rot (rot (rot k))))))

theorem inOrbitB_iff (k k' : Key5) : inOrbitB k k' = true ↔ k' ∈ orbit k := by
  simp [inOrbitB, orR_iff, keyBeq_iff, mem_orbit_iff]

/-- For every pair of entries with equal centres and keys in one rotation class, the images agree. -/
noncomputable def noConflictsB (es : List (Key5 × Int)) : Bool :=
  allR es fun e => allR es fun e' =>
    Bool.rec true (Bool.rec true (intBeq e'.2 e.2) (inOrbitB e.1 e'.1)) (intBeq e'.1.1 e.1.1)

theorem noConflictsB_sound (es : List (Key5 × Int)) (h : noConflictsB es = true) :
    ∀ e ∈ es, ∀ e' ∈ es, e'.1 ∈ orbit e.1 → e'.2 = e.2 := by
  intro e he e' he' ho
  have h1 := (allR_iff _ _).mp ((allR_iff _ _).mp h e he) e' he'
  have hc : intBeq e'.1.1 e.1.1 = true := (intBeq_iff _ _).mpr (centre_of_mem_orbit ho)
  have hb : inOrbitB e.1 e'.1 = true := (inOrbitB_iff _ _).mpr ho
  simp only [hc, hb] at h1
  exact (intBeq_iff _ _).mp h1

end Cpl.Ctrbl
