import Cpl.Lemmas.Life

/-!
# The glider on every torus (locality of the Life update)

Four Life steps at a cell depend on the 9×9 block around it only. For the glider placed at the origin of an
`R × C` torus (`R, C ≥ 5`) that block is determined by a *row view* and a *column view* (which of the
glider's three rows / columns each of the nine block rows / columns is); there are 32 possible views
whatever the size of the torus, and the 32 × 32 blocks are evaluated by the kernel. Blocks are encoded as
bit masks so that the kernel evaluates each stage once.
-/

namespace Cpl.Life
open Cpl Cpl.Spec

/-! ## Bit masks -/

/-- Bit `(a, b)` of an `n × n` bit mask. -/
def bit (w n a b : Nat) : Nat := (w / 2 ^ (a * n + b)) % 2

def sumDigits (d : Nat → Nat) (m : Nat) : Nat := (List.range m).foldl (fun acc p => acc + d p * 2 ^ p) 0

/-- The `n × n` bit mask of a 0/1-valued table. -/
def encode (n : Nat) (f : Nat → Nat → Nat) : Nat := sumDigits (fun p => f (p / n) (p % n)) (n * n)

theorem sumDigits_succ (d : Nat → Nat) (m : Nat) : sumDigits d (m + 1) = sumDigits d m + d m * 2 ^ m := by
  simp [sumDigits, List.range_succ, List.foldl_append]

theorem sumDigits_lt (d : Nat → Nat) (hd : ∀ p, d p ≤ 1) : ∀ m, sumDigits d m < 2 ^ m
  | 0 => by simp [sumDigits]
  | m + 1 => by
    rw [sumDigits_succ, Nat.pow_succ]
    have h1 := sumDigits_lt d hd m
    have h2 : d m * 2 ^ m ≤ 1 * 2 ^ m := Nat.mul_le_mul_right _ (hd m)
    omega

theorem sumDigits_digit (d : Nat → Nat) (hd : ∀ p, d p ≤ 1) :
    ∀ m q, q < m → (sumDigits d m / 2 ^ q) % 2 = d q
  | 0, _, h => by omega
  | m + 1, q, h => by
    rw [sumDigits_succ]
    rcases Nat.lt_or_ge q m with hq | hq
    · have e : d m * 2 ^ m = (d m * 2 ^ (m - q - 1) * 2) * 2 ^ q := by
        have hp : 2 ^ m = 2 ^ (m - q - 1) * 2 * 2 ^ q := by
          rw [← Nat.pow_succ, ← Nat.pow_add]; congr 1; omega
        rw [hp]; simp only [Nat.mul_assoc]
      rw [e, Nat.add_mul_div_right _ _ (Nat.pow_pos (by decide)), Nat.add_mod, Nat.mul_mod_left, Nat.add_zero,
        Nat.mod_mod, sumDigits_digit d hd m q hq]
    · have hqm : q = m := by omega
      subst hqm
      rw [Nat.add_mul_div_right _ _ (Nat.pow_pos (by decide)), Nat.div_eq_of_lt (sumDigits_lt d hd q),
        Nat.zero_add]
      have := hd q
      omega

theorem bit_encode (n : Nat) (f : Nat → Nat → Nat) (hf : ∀ a b, f a b ≤ 1) (a b : Nat) (ha : a < n) (hb : b < n) :
    bit (encode n f) n a b = f a b := by
  unfold bit encode
  have hlt : a * n + b < n * n := by
    have : (a + 1) * n ≤ n * n := Nat.mul_le_mul_right n ha
    rw [Nat.succ_mul] at this
    omega
  rw [sumDigits_digit _ (fun p => hf _ _) (n * n) (a * n + b) hlt]
  have h1 : (a * n + b) / n = a := by
    rw [Nat.add_comm, Nat.add_mul_div_right _ _ (by omega : 0 < n), Nat.div_eq_of_lt hb, Nat.zero_add]
  have h2 : (a * n + b) % n = b := by
    rw [Nat.add_comm, Nat.add_mul_mod_self_right, Nat.mod_eq_of_lt hb]
  rw [h1, h2]


/-! ## One Life step on bit masks -/

/-- B3/S23 on naturals, in a form the kernel evaluates quickly. -/
def ruleN (x s : Nat) : Nat :=
  bif Nat.beq x 0 then (bif Nat.beq s 3 then 1 else 0) else (bif Nat.beq s 2 || Nat.beq s 3 then 1 else 0)

theorem ruleN_le (x s : Nat) : ruleN x s ≤ 1 := by
  unfold ruleN
  cases Nat.beq x 0 <;> cases Nat.beq s 3 <;> cases Nat.beq s 2 <;> simp

theorem nbeq_decide (a b : Nat) : Nat.beq a b = decide (a = b) := by
  by_cases h : a = b
  · subst h; simp [Nat.beq_refl]
  · cases hb : Nat.beq a b with
    | false => simp [h]
    | true => exact absurd (Nat.eq_of_beq_eq_true hb) h

theorem b3s23_cast (x s : Nat) : b3s23 (x : Int) (s : Int) = ((ruleN x s : Nat) : Int) := by
  unfold b3s23 ruleN
  have e3 : ((s : Int) = 3) ↔ s = 3 := by omega
  have e2 : ((s : Int) = 2) ↔ s = 2 := by omega
  by_cases hx : x = 0 <;> by_cases h3 : s = 3 <;> by_cases h2 : s = 2 <;>
    simp [nbeq_decide, e3, e2, hx, h3, h2]

/-- Sum of the eight bits around `(a+1, b+1)`. -/
def nbSum (w m a b : Nat) : Nat :=
  bit w m a b + bit w m a (b + 1) + bit w m a (b + 2) + bit w m (a + 1) b + bit w m (a + 1) (b + 2)
    + bit w m (a + 2) b + bit w m (a + 2) (b + 1) + bit w m (a + 2) (b + 2)

/-- One Life step from an `(n+2) × (n+2)` block to its inner `n × n` block. -/
def stepC (n w : Nat) : Nat := encode n fun a b => ruleN (bit w (n + 2) (a + 1) (b + 1)) (nbSum w (n + 2) a b)

/-- The `(2r+1) × (2r+1)` block of the torus grid `g` around `(i, j)` is the bit mask `w`. -/
def Inv (R C : Nat) (g : Grid Int) (i j r w : Nat) : Prop :=
  ∀ a b, a < 2 * r + 1 → b < 2 * r + 1 →
    cell g ((i + a + R - r) % R) ((j + b + C - r) % C) = ((bit w (2 * r + 1) a b : Nat) : Int)

theorem idxA (R i a r : Nat) (hr : r + 1 ≤ R) :
    ((i + a + R - r) % R + R - 1) % R = (i + a + R - (r + 1)) % R := by
  have e : (i + a + R - r) % R + R - 1 = (i + a + R - r) % R + (R - 1) := by omega
  rw [e, Nat.mod_add_mod]
  have e2 : i + a + R - r + (R - 1) = i + a + R - (r + 1) + R := by omega
  rw [e2, Nat.add_mod_right]

theorem idxB (R i a r : Nat) (hr : r + 1 ≤ R) :
    (i + a + R - r) % R = (i + (a + 1) + R - (r + 1)) % R := by
  congr 1; omega

theorem idxC (R i a r : Nat) (hr : r + 1 ≤ R) :
    ((i + a + R - r) % R + 1) % R = (i + (a + 2) + R - (r + 1)) % R := by
  rw [Nat.mod_add_mod]; congr 1; omega

theorem inv_step (R C : Nat) (g : Grid Int) (i j r w : Nat) (hR : r + 1 ≤ R) (hC : r + 1 ≤ C)
    (h : Inv R C g i j (r + 1) w) : Inv R C (lifeGrid R C g) i j r (stepC (2 * r + 1) w) := by
  intro a b ha hb
  have hI : (i + a + R - r) % R < R := Nat.mod_lt _ (by omega)
  have hJ : (j + b + C - r) % C < C := Nat.mod_lt _ (by omega)
  unfold lifeGrid
  rw [cell_tabulate R C _ hI hJ]
  unfold lifeCell
  rw [idxA R i a r hR, idxA C j b r hC, idxC R i a r hR, idxC C j b r hC]
  rw [idxB R i a r hR, idxB C j b r hC]
  rw [h a b (by omega) (by omega), h a (b + 1) (by omega) (by omega), h a (b + 2) (by omega) (by omega),
    h (a + 1) b (by omega) (by omega), h (a + 1) (b + 1) (by omega) (by omega),
    h (a + 1) (b + 2) (by omega) (by omega), h (a + 2) b (by omega) (by omega),
    h (a + 2) (b + 1) (by omega) (by omega), h (a + 2) (b + 2) (by omega) (by omega)]
  unfold stepC
  rw [bit_encode _ _ (fun _ _ => ruleN_le _ _) a b ha hb]
  have e : 2 * (r + 1) + 1 = 2 * r + 1 + 2 := by omega
  rw [e]
  simp only [← Int.natCast_add]
  rw [b3s23_cast]
  rfl


/-! ## The glider's blocks -/

/-- The `R × C` grid whose live cells are `cells`. -/
def placeG (R C : Nat) (cells : List (Nat × Nat)) : Grid Int :=
  (List.range R).map fun i => (List.range C).map fun j => if (i, j) ∈ cells then 1 else 0

def gliderCells : List (Nat × Nat) := [(0, 1), (1, 2), (2, 0), (2, 1), (2, 2)]

/-- Rows / columns `0, 1, 2` carry the glider; every other one is "empty" (label 3). -/
def label (x : Nat) : Nat := if x < 3 then x else 3

/-- Is the cell with row label `x` and column label `y` live? (a 4×4 lookup table: bits 1, 6, 8, 9, 10) -/
def G (x y : Nat) : Nat := bit 1858 4 x y

theorem G_le (x y : Nat) : G x y ≤ 1 := by unfold G bit; omega

theorem G_table : ∀ x ∈ List.range 4, ∀ y ∈ List.range 4, G x y = if (x, y) ∈ gliderCells then 1 else 0 := by
  decide

theorem label_lt (x : Nat) : label x < 4 := by unfold label; split <;> omega

theorem G_label (x y : Nat) :
    ((G (label x) (label y) : Nat) : Int) = if (x, y) ∈ gliderCells then 1 else 0 := by
  have e : ((label x, label y) ∈ gliderCells) ↔ ((x, y) ∈ gliderCells) := by
    unfold label gliderCells
    simp only [List.mem_cons, Prod.mk.injEq, List.mem_nil_iff, or_false]
    split <;> split <;> omega
  rw [G_table _ (by simpa using label_lt x) _ (by simpa using label_lt y)]
  by_cases h : (x, y) ∈ gliderCells
  · rw [if_pos (e.2 h), if_pos h]; rfl
  · rw [if_neg (fun h' => h (e.1 h')), if_neg h]; rfl

/-- The labels of the nine rows of the block around row `i` of a ring of `R` rows. -/
def viewOf (R i : Nat) : List Nat := (List.range 9).map fun a => label ((i + a + R - 4) % R)

theorem viewOf_getD (R i a : Nat) (ha : a < 9) : (viewOf R i).getD a 3 = label ((i + a + R - 4) % R) := by
  unfold viewOf
  rw [List.getD_eq_getElem?_getD, List.getElem?_map, List.getElem?_range ha]
  rfl

/-- The 9×9 block with the given row and column labels, as a bit mask. -/
def windowC (ρ κ : List Nat) : Nat := encode 9 fun a b => G (ρ.getD a 3) (κ.getD b 3)

theorem cell_placeG (R C : Nat) (cells : List (Nat × Nat)) (x y : Nat) (hx : x < R) (hy : y < C) :
    cell (placeG R C cells) x y = if (x, y) ∈ cells then 1 else 0 :=
  cell_tabulate R C _ hx hy

theorem inv_base (R C i j : Nat) (hR : 5 ≤ R) (hC : 5 ≤ C) :
    Inv R C (placeG R C gliderCells) i j 4 (windowC (viewOf R i) (viewOf C j)) := by
  intro a b ha hb
  rw [cell_placeG R C _ _ _ (Nat.mod_lt _ (by omega)) (Nat.mod_lt _ (by omega))]
  unfold windowC
  rw [bit_encode 9 _ (fun _ _ => G_le _ _) a b ha hb, viewOf_getD R i a ha, viewOf_getD C j b hb, G_label]


/-! ## The 32 views -/

def viewsA : List (List Nat) :=
  [[1, 2, 3, 3, 0, 1, 2, 3, 3], [2, 3, 3, 0, 1, 2, 3, 3, 0], [3, 3, 0, 1, 2, 3, 3, 0, 1], [3, 0, 1, 2, 3, 3, 0, 1, 2]]
def viewsB : List (List Nat) :=
  [[0, 1, 2, 3, 3, 0, 1, 2, 3], [2, 3, 3, 3, 0, 1, 2, 3, 3], [3, 3, 3, 0, 1, 2, 3, 3, 3], [3, 3, 0, 1, 2, 3, 3, 3, 0]]
def viewsC : List (List Nat) :=
  [[3, 0, 1, 2, 3, 3, 3, 0, 1], [0, 1, 2, 3, 3, 3, 0, 1, 2], [1, 2, 3, 3, 3, 0, 1, 2, 3], [3, 3, 3, 3, 0, 1, 2, 3, 3]]
def viewsD : List (List Nat) :=
  [[3, 3, 0, 1, 2, 3, 3, 3, 3], [3, 0, 1, 2, 3, 3, 3, 3, 0], [0, 1, 2, 3, 3, 3, 3, 0, 1], [1, 2, 3, 3, 3, 3, 0, 1, 2]]
def viewsE : List (List Nat) :=
  [[2, 3, 3, 3, 3, 0, 1, 2, 3], [3, 0, 1, 2, 3, 3, 3, 3, 3], [0, 1, 2, 3, 3, 3, 3, 3, 0], [1, 2, 3, 3, 3, 3, 3, 0, 1]]
def viewsF : List (List Nat) :=
  [[2, 3, 3, 3, 3, 3, 0, 1, 2], [3, 3, 3, 3, 3, 0, 1, 2, 3], [0, 1, 2, 3, 3, 3, 3, 3, 3], [1, 2, 3, 3, 3, 3, 3, 3, 0]]
def viewsG : List (List Nat) :=
  [[2, 3, 3, 3, 3, 3, 3, 0, 1], [3, 3, 3, 3, 3, 3, 0, 1, 2], [1, 2, 3, 3, 3, 3, 3, 3, 3], [2, 3, 3, 3, 3, 3, 3, 3, 0]]
def viewsH : List (List Nat) :=
  [[3, 3, 3, 3, 3, 3, 3, 0, 1], [2, 3, 3, 3, 3, 3, 3, 3, 3], [3, 3, 3, 3, 3, 3, 3, 3, 0], [3, 3, 3, 3, 3, 3, 3, 3, 3]]

/-- Every view that occurs on a ring of 5 … 12 rows. -/
def views : List (List Nat) := viewsA ++ viewsB ++ viewsC ++ viewsD ++ viewsE ++ viewsF ++ viewsG ++ viewsH

theorem viewOf_mem_small : ∀ R ∈ List.range' 5 8, ∀ i ∈ List.range R, viewOf R i ∈ views := by
  decide +kernel

theorem mod_lo {R x : Nat} (h : x < R) : x % R = x := Nat.mod_eq_of_lt h
theorem mod_mid {R x : Nat} (h : x < R) : (x + R) % R = x := by rw [Nat.add_mod_right, Nat.mod_eq_of_lt h]
theorem mod_hi {R x : Nat} (h : x < R) : (x + R + R) % R = x := by
  rw [Nat.add_mod_right, Nat.add_mod_right, Nat.mod_eq_of_lt h]

theorem label_eq {x y : Nat} (h : (x < 3 ∧ x = y) ∨ (3 ≤ x ∧ 3 ≤ y)) : label x = label y := by
  unfold label
  rcases h with ⟨h1, rfl⟩ | ⟨h1, h2⟩
  · rfl
  · rw [if_neg (by omega), if_neg (by omega)]

/-- On a ring of 13 or more rows the view is one of those of the ring of 12. -/
theorem viewOf_large (R i : Nat) (hR : 13 ≤ R) (hi : i < R) :
    viewOf R i = viewOf 12 (if i ≤ 6 then i else if R ≤ i + 5 then i + 12 - R else 7) := by
  unfold viewOf
  apply List.map_congr_left
  intro a ha
  have ha : a < 9 := by simpa using ha
  apply label_eq
  rcases Nat.lt_or_ge (i + a) 4 with h1 | h1
  · rw [mod_lo (by omega : i + a + R - 4 < R)]
    split
    · omega
    · split <;> omega
  · rcases Nat.lt_or_ge (i + a - 4) R with h2 | h2
    · have e : i + a + R - 4 = (i + a - 4) + R := by omega
      rw [e, mod_mid h2]
      split
      · omega
      · split <;> omega
    · have e : i + a + R - 4 = (i + a - 4 - R) + R + R := by omega
      rw [e, mod_hi (by omega : i + a - 4 - R < R)]
      split
      · omega
      · split <;> omega

theorem viewOf_mem (R i : Nat) (hR : 5 ≤ R) (hi : i < R) : viewOf R i ∈ views := by
  rcases Nat.lt_or_ge R 13 with h | h
  · exact viewOf_mem_small R (List.mem_range'_1.2 ⟨hR, by omega⟩) i (by simpa using hi)
  · rw [viewOf_large R i h hi]
    apply viewOf_mem_small 12 (by decide)
    simp only [List.mem_range]
    split
    · omega
    · split <;> omega


/-! ## Kernel evaluation of the 32 × 32 blocks -/

/-- Four steps on the 9×9 block leave in its centre what was diagonally above-left of the centre. -/
def GliderOK (ρ κ : List Nat) : Prop :=
  bit (stepC 1 (stepC 3 (stepC 5 (stepC 7 (windowC ρ κ))))) 1 0 0 = G (ρ.getD 3 3) (κ.getD 3 3)

instance (ρ κ : List Nat) : Decidable (GliderOK ρ κ) := by unfold GliderOK; infer_instance

/-! ## Grid extensionality by cells -/

theorem cellAt?_eq_cell {g : Grid Int} {R C : Nat} (hg : Rect g R C) {i j : Nat} (hi : i < R) (hj : j < C) :
    cellAt? g i j = some (cell g i j) := by
  have hi' : i < g.length := by rw [hg.1]; exact hi
  have hlen : (g[i]).length = C := hg.2 _ (List.getElem_mem hi')
  unfold cellAt? cell
  rw [List.getElem?_eq_getElem hi', getElem!_pos g i hi']
  simp only [Option.bind_some]
  rw [List.getElem?_eq_getElem (by rw [hlen]; exact hj), getElem!_pos (g[i]) j (by rw [hlen]; exact hj)]

theorem grid_ext_cell {a b : Grid Int} {R C : Nat} (ha : Rect a R C) (hb : Rect b R C)
    (h : ∀ i j, i < R → j < C → cell a i j = cell b i j) : a = b :=
  grid_ext ha hb fun i j hi hj => by rw [cellAt?_eq_cell ha hi hj, cellAt?_eq_cell hb hi hj, h i j hi hj]

end Cpl.Life
