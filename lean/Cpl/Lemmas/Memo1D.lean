import Cpl.Spec.Ring
import Cpl.Lemmas.Evolve1D
import Cpl.Properties.C01

/-!
# Invariants of the two 1D memoisers (`memoLoop`, `updateRec` / `stepRec`), used by C03 and C09.
-/

namespace Cpl
open Py

section Values
variable {σ α : Type}

/-! ## Index arithmetic: `take(mode='wrap')` with a possibly negative start -/

theorem wrapIdx_sub (N lo r i : Nat) (hr : r ≤ N) :
    wrapIdx N ((lo : Int) - r + (i : Int)) = (lo + i + N - r) % N := by
  unfold wrapIdx
  have h : ((lo : Int) - r + (i : Int)) = ((lo + i + N - r : Nat) : Int) - (N : Int) := by omega
  rw [h, Int.sub_emod_right]
  rw [← Int.natCast_emod, Int.toNat_natCast]

/-- The block key in `Nat` arithmetic. -/
theorem wrapTake_eq [Inhabited α] (curr : List α) (lo r len : Nat) (hr : r ≤ curr.length) :
    wrapTake curr ((lo : Int) - r) len
      = (List.range len).map fun i => curr[(lo + i + curr.length - r) % curr.length]! := by
  unfold wrapTake
  apply List.map_congr_left
  intro i _
  rw [wrapIdx_sub _ _ _ _ hr]

theorem wrapTake_length [Inhabited α] (curr : List α) (start : Int) (len : Nat) :
    (wrapTake curr start len).length = len := by
  simp [wrapTake]

/-- The leaf key is the ring window. -/
theorem wrapTake_leaf [Inhabited α] (curr : List α) (lo r : Nat) (hr : r ≤ curr.length) :
    wrapTake curr ((lo : Int) - r) (1 + 2 * r) = Spec.window curr r lo := by
  rw [wrapTake_eq _ _ _ _ hr]
  have : 1 + 2 * r = 2 * r + 1 := by omega
  rw [this]; rfl

/-- The windows contained in a block key. -/
def windowsOf (r : Nat) (key : List α) : List (List α) :=
  (List.range (key.length - 2 * r)).map fun i => (key.drop i).take (2 * r + 1)

theorem windowsOf_key [Inhabited α] (curr : List α) (lo r len : Nat) (hr : r ≤ curr.length) :
    windowsOf r (wrapTake curr ((lo : Int) - r) (len + 2 * r))
      = (List.range len).map fun i => Spec.window curr r (lo + i) := by
  rw [wrapTake_eq _ _ _ _ hr]
  simp only [windowsOf, List.length_map, List.length_range]
  have : len + 2 * r - 2 * r = len := by omega
  rw [this]
  apply List.map_congr_left
  intro i hi
  simp at hi
  apply List.ext_getElem
  · simp [Spec.window]; omega
  · intro n h1 h2
    simp [Spec.window] at h1 h2 ⊢
    have e : lo + i + n + curr.length - r = lo + (i + n) + curr.length - r := by omega
    rw [e]

/-! ## `setMany` -/

theorem setMany_length [Inhabited α] (next : List α) (lo : Nat) (vals : List α) :
    (setMany next lo vals).length = next.length := by
  simp [setMany]

theorem setMany_get [Inhabited α] (next : List α) (lo : Nat) (vals : List α) (i : Nat)
    (hi : i < next.length) :
    (setMany next lo vals)[i]! = if lo ≤ i ∧ i < lo + vals.length then vals[i - lo]! else next[i]! := by
  simp [setMany, hi]

/-! ## Plain loop -/

theorem plainLoop_fst (rule : Rule1 σ α) (f : List α → α) (hp : PureVal rule f) (t : Nat) :
    ∀ (ns : List (List α)) (c : Nat) (s : σ), (plainLoop rule t ns c s).1 = ns.map f := by
  intro ns
  induction ns with
  | nil => intro c s; rfl
  | cons n rest ih =>
    intro c s
    simp only [plainLoop, List.map_cons]
    rw [ih, ← hp s n c t]

/-! ## Memo table -/

def TableOK (f : List α → α) (tbl : MemoTable α) : Prop := ∀ n v, (n, v) ∈ tbl → v = f n

theorem TableOK_nil (f : List α → α) : TableOK f ([] : MemoTable α) := by
  intro n v h; cases h

theorem lookup_mem [DecidableEq α] {β : Type} (tbl : List (List α × β)) (n : List α) (v : β)
    (h : tbl.lookup n = some v) : (n, v) ∈ tbl := by
  obtain ⟨l1, l2, rfl, _⟩ := List.lookup_eq_some_iff.mp h
  simp

theorem getMemoized_ok [DecidableEq α] (rule : Rule1 σ α) (f : List α → α) (hp : PureVal rule f)
    (n : List α) (c t : Nat) (tbl : MemoTable α) (s : σ) (ht : TableOK f tbl) :
    (getMemoized rule n c t tbl s).1 = f n ∧ TableOK f (getMemoized rule n c t tbl s).2.1 := by
  unfold getMemoized
  split
  · rename_i v hv
    exact ⟨ht _ _ (lookup_mem _ _ _ hv), ht⟩
  · refine ⟨hp s n c t, ?_⟩
    intro n' v' hm
    simp only [List.mem_cons, Prod.mk.injEq] at hm
    rcases hm with ⟨rfl, rfl⟩ | hm
    · exact hp s n' c t
    · exact ht _ _ hm

theorem memoLoop_ok [DecidableEq α] (rule : Rule1 σ α) (f : List α → α) (hp : PureVal rule f) (t : Nat) :
    ∀ (ns : List (List α)) (c : Nat) (tbl : MemoTable α) (s : σ), TableOK f tbl →
      (memoLoop rule t ns c tbl s).1 = ns.map f ∧ TableOK f (memoLoop rule t ns c tbl s).2.1 := by
  intro ns
  induction ns with
  | nil => intro c tbl s ht; exact ⟨rfl, ht⟩
  | cons n rest ih =>
    intro c tbl s ht
    obtain ⟨g1, g2⟩ := getMemoized_ok rule f hp n c t tbl s ht
    obtain ⟨i1, i2⟩ := ih (c + 1) _ (getMemoized rule n c t tbl s).2.2 g2
    simp only [memoLoop, List.map_cons]
    exact ⟨by rw [i1, g1], i2⟩

/-! ## Recursive memoiser: values -/

def CacheOK (f : List α → α) (r : Nat) (cache : RecCache α) : Prop :=
  ∀ key vals, (key, vals) ∈ cache → vals = (windowsOf r key).map f

theorem CacheOK_nil (f : List α → α) (r : Nat) : CacheOK f r ([] : RecCache α) := by
  intro k v h; cases h

theorem updateRec_correct [DecidableEq α] [Inhabited α] (rule : Rule1 σ α) (f : List α → α)
    (hp : PureVal rule f) (r : Nat) (curr : List α) (t : Nat) (hr : r ≤ curr.length) :
    ∀ (len lo : Nat) (st : RecSt σ α), 0 < len → lo + len ≤ curr.length →
      st.next.length = curr.length → CacheOK f r st.cache →
      (updateRec rule r curr t len lo st).next.length = curr.length ∧
      CacheOK f r (updateRec rule r curr t len lo st).cache ∧
      (∀ i, lo ≤ i → i < lo + len →
        (updateRec rule r curr t len lo st).next[i]! = f (Spec.window curr r i)) ∧
      (∀ i, i < curr.length → (i < lo ∨ lo + len ≤ i) →
        (updateRec rule r curr t len lo st).next[i]! = st.next[i]!) := by
  intro len
  induction len using Nat.strongRecOn with
  | _ len ih =>
    intro lo st hlen hb hnext hc
    rw [updateRec]
    simp only
    split
    · -- cache hit
      rename_i vals hlk
      have hv := hc _ _ (lookup_mem _ _ _ hlk)
      rw [windowsOf_key _ _ _ _ hr] at hv
      have hvl : vals.length = len := by simp [hv]
      refine ⟨by simp [setMany_length, hnext], hc, ?_, ?_⟩
      · intro i h1 h2
        simp only
        rw [setMany_get _ _ _ _ (by omega)]
        simp only [hvl, h1, h2, and_self, if_true]
        subst hv
        simp only [List.getElem!_eq_getElem?_getD, List.getElem?_map]
        rw [List.getElem?_range (by omega)]
        simp only [Option.map_some, Option.getD_some]
        congr 2; omega
      · intro i h1 h2
        simp only
        rw [setMany_get _ _ _ _ (by omega)]
        rw [hvl, if_neg (by omega)]
    · -- miss
      rename_i hlk
      by_cases h1 : len > 1
      · simp only [h1, dite_true]
        have hm1 : 0 < len / 2 := by omega
        have hm2 : len / 2 < len := by omega
        obtain ⟨a1, a2, a3, a4⟩ := ih (len / 2) hm2 lo st hm1 (by omega) hnext hc
        generalize updateRec rule r curr t (len / 2) lo st = s1 at a1 a2 a3 a4
        obtain ⟨b1, b2, b3, b4⟩ :=
          ih (len - len / 2) (by omega) (lo + len / 2) s1 (by omega) (by omega) a1 a2
        generalize updateRec rule r curr t (len - len / 2) (lo + len / 2) s1 = s2 at b1 b2 b3 b4
        have hall : ∀ i, lo ≤ i → i < lo + len → s2.next[i]! = f (Spec.window curr r i) := by
          intro i h2 h3
          by_cases h4 : i < lo + len / 2
          · rw [b4 i (by omega) (Or.inl h4)]; exact a3 i h2 h4
          · exact b3 i (by omega) (by omega)
        refine ⟨b1, ?_, hall, ?_⟩
        · intro key vals hm
          simp only [List.mem_cons, Prod.mk.injEq] at hm
          rcases hm with ⟨rfl, rfl⟩ | hm
          · rw [windowsOf_key _ _ _ _ hr, List.map_map]
            apply List.map_congr_left
            intro i hi; simp at hi
            exact hall (lo + i) (by omega) (by omega)
          · exact b2 _ _ hm
        · intro i h2 h3
          rw [b4 i h2 (by omega), a4 i h2 (by omega)]
      · have hl : len = 1 := by omega
        subst hl
        simp only [h1, dite_false]
        have hkey : wrapTake curr ((lo : Int) - r) (1 + 2 * r) = Spec.window curr r lo :=
          wrapTake_leaf _ _ _ hr
        have hval : (rule st.s (wrapTake curr ((lo : Int) - r) (1 + 2 * r)) lo t).1
            = f (Spec.window curr r lo) := by rw [hp, hkey]
        have hall : ∀ i, lo ≤ i → i < lo + 1 →
            (setMany st.next lo [(rule st.s (wrapTake curr ((lo : Int) - r) (1 + 2 * r)) lo t).1])[i]!
              = f (Spec.window curr r i) := by
          intro i h2 h3
          have : i = lo := by omega
          subst this
          rw [setMany_get _ _ _ _ (by omega)]
          simp [hval]
        refine ⟨by simp [setMany_length, hnext], ?_, hall, ?_⟩
        · intro key vals hm
          simp only [List.mem_cons, Prod.mk.injEq] at hm
          rcases hm with ⟨rfl, rfl⟩ | hm
          · rw [windowsOf_key _ _ _ _ hr]
            have := hall lo (by omega) (by omega)
            simp only [List.range_one, List.map_cons, List.map_nil, Nat.add_zero]
            rw [this]
          · exact hc _ _ hm
        · intro i h2 h3
          rw [setMany_get _ _ _ _ (by omega)]
          rw [if_neg (by simp only [List.length_singleton]; omega)]

theorem pureStep_length [Inhabited α] (f : List α → α) (r : Nat) (cells : List α) :
    (Spec.pureStep f r cells).length = cells.length := by
  simp [Spec.pureStep]

theorem eq_pureStep [Inhabited α] (f : List α → α) (r : Nat) (cells next : List α)
    (hl : next.length = cells.length)
    (hv : ∀ i, i < cells.length → next[i]! = f (Spec.window cells r i)) :
    next = Spec.pureStep f r cells := by
  apply List.ext_getElem
  · rw [hl, pureStep_length]
  · intro i h1 h2
    have := hv i (by omega)
    simp only [List.getElem!_eq_getElem?_getD, List.getElem?_eq_getElem h1, Option.getD_some] at this
    simp [Spec.pureStep, this]

theorem stepRec_correct [DecidableEq α] [Inhabited α] (rule : Rule1 σ α) (f : List α → α)
    (hp : PureVal rule f) (r : Nat) (curr : List α) (t : Nat) (h1 : 1 ≤ r) (hr : r ≤ curr.length)
    (cache : RecCache α) (s : σ) (hc : CacheOK f r cache) :
    (stepRec rule r curr t cache s).next = Spec.pureStep f r curr ∧
    CacheOK f r (stepRec rule r curr t cache s).cache := by
  unfold stepRec
  simp only
  have hN : 0 < curr.length := by omega
  have h2 : curr.length - curr.length / 2 > 0 := by omega
  rw [if_pos h2]
  by_cases hm : curr.length / 2 > 0
  · rw [if_pos hm]
    obtain ⟨a1, a2, a3, a4⟩ := updateRec_correct rule f hp r curr t hr (curr.length / 2) 0
      ⟨List.replicate curr.length default, cache, s⟩ hm (by omega) (by simp) hc
    generalize updateRec rule r curr t (curr.length / 2) 0
      ⟨List.replicate curr.length default, cache, s⟩ = s1 at a1 a2 a3 a4
    obtain ⟨b1, b2, b3, b4⟩ := updateRec_correct rule f hp r curr t hr
      (curr.length - curr.length / 2) (curr.length / 2) s1 h2 (by omega) a1 a2
    refine ⟨eq_pureStep f r curr _ b1 ?_, b2⟩
    intro i hi
    by_cases h4 : i < curr.length / 2
    · rw [b4 i hi (Or.inl h4)]; exact a3 i (by omega) (by omega)
    · exact b3 i (by omega) (by omega)
  · rw [if_neg hm]
    have h0 : curr.length / 2 = 0 := by omega
    obtain ⟨b1, b2, b3, b4⟩ := updateRec_correct rule f hp r curr t hr
      (curr.length - curr.length / 2) (curr.length / 2)
      ⟨List.replicate curr.length default, cache, s⟩ h2 (by omega) (by simp) hc
    refine ⟨eq_pureStep f r curr _ b1 ?_, b2⟩
    intro i hi
    exact b3 i (by omega) (by omega)

/-! ## One step / many steps in any supported mode -/

def CachesOK (f : List α → α) (r : Nat) (cs : Caches α) : Prop := TableOK f cs.tbl ∧ CacheOK f r cs.rc

theorem CachesOK_empty (f : List α → α) (r : Nat) : CachesOK f r (Caches.empty : Caches α) :=
  ⟨TableOK_nil f, CacheOK_nil f r⟩

theorem neighbourhoods_map [Inhabited α] (f : List α → α) (cells : List α) (r : Nat) (h1 : 1 ≤ r)
    (h2 : r ≤ cells.length) : (neighbourhoods cells r).map f = Spec.pureStep f r cells := by
  rw [C01.neighbourhoods_eq_windows cells r h1 h2, List.map_map]; rfl

theorem step1_pure [DecidableEq α] [Inhabited α] (rule : Rule1 σ α) (f : List α → α)
    (hp : PureVal rule f) (mode : Mode) (hm : mode ≠ .bad) (r : Nat) (cells : List α) (t : Nat)
    (cs : Caches α) (s : σ) (h1 : 1 ≤ r) (h2 : r ≤ cells.length) (hc : CachesOK f r cs) :
    (step1 mode rule r cells t cs s).1 = Spec.pureStep f r cells ∧
    CachesOK f r (step1 mode rule r cells t cs s).2.1 := by
  cases mode with
  | bad => exact absurd rfl hm
  | plain =>
    simp only [step1]
    exact ⟨by rw [plainLoop_fst rule f hp, neighbourhoods_map f cells r h1 h2], hc⟩
  | memo =>
    simp only [step1]
    obtain ⟨m1, m2⟩ := memoLoop_ok rule f hp t (neighbourhoods cells r) 0 cs.tbl s hc.1
    exact ⟨by rw [m1, neighbourhoods_map f cells r h1 h2], m2, hc.2⟩
  | recursive =>
    simp only [step1]
    obtain ⟨m1, m2⟩ := stepRec_correct rule f hp r cells t h1 h2 cs.rc s hc.2
    exact ⟨m1, hc.1, m2⟩

theorem step1_plain_fst [DecidableEq α] [Inhabited α] (rule : Rule1 σ α) (f : List α → α)
    (hp : PureVal rule f) (r : Nat) (cells : List α) (t : Nat)
    (cs : Caches α) (s : σ) (h1 : 1 ≤ r) (h2 : r ≤ cells.length) :
    (step1 .plain rule r cells t cs s).1 = Spec.pureStep f r cells := by
  simp only [step1]
  rw [plainLoop_fst rule f hp, neighbourhoods_map f cells r h1 h2]

theorem fixedLoop_pure [DecidableEq α] [Inhabited α] (rule : Rule1 σ α) (f : List α → α)
    (hp : PureVal rule f) (mode : Mode) (hm : mode ≠ .bad) (r : Nat) (h1 : 1 ≤ r) :
    ∀ (k t : Nat) (cells : List α) (cs : Caches α) (s : σ), r ≤ cells.length → CachesOK f r cs →
      (fixedLoop mode rule r k t cells cs s).1 = Spec.pureRun f r k cells := by
  intro k
  induction k with
  | zero => intro t cells cs s _ _; rfl
  | succ k ih =>
    intro t cells cs s h2 hc
    obtain ⟨e1, e2⟩ := step1_pure rule f hp mode hm r cells t cs s h1 h2 hc
    simp only [fixedLoop, Spec.pureRun]
    rw [ih (t + 1) _ _ _ (by rw [e1, pureStep_length]; exact h2) e2, e1]

theorem evolveFixed_eq [DecidableEq α] [Inhabited α] (rule : Rule1 σ α) (mode : Mode)
    (hm : mode ≠ .bad) (hist : List (List α)) (init : List α) (hlast : hist.getLast? = some init)
    (T : Nat) (hT : 1 ≤ T) (r : Nat) (s : σ) :
    evolveFixed hist T rule r mode s
      = .ok (hist ++ (fixedLoop mode rule r (T - 1) 1 init Caches.empty s).1,
             (fixedLoop mode rule r (T - 1) 1 init Caches.empty s).2.2) := by
  unfold evolveFixed
  rw [hlast]
  simp only
  rw [if_neg (by omega), if_neg (by simp [hm])]

/-- Lock step of the dynamic loop in a memoised mode and in plain mode (rows only). -/
theorem dynLoop_mode_indep [DecidableEq α] [Inhabited α] (rule : Rule1 σ α) (f : List α → α)
    (hp : PureVal rule f) (mode : Mode) (hm : mode ≠ .bad) (r : Nat) (h1 : 1 ≤ r)
    (pred : List (List α) → Nat → Bool) :
    ∀ (fuel t : Nat) (acc : List (List α)) (cells : List α) (cs cs' : Caches α) (s s' : σ),
      r ≤ cells.length → CachesOK f r cs →
      (dynLoop mode rule r pred fuel t acc cells cs s).map (·.map Prod.fst)
        = (dynLoop .plain rule r pred fuel t acc cells cs' s').map (·.map Prod.fst) := by
  intro fuel
  induction fuel with
  | zero => intros; rfl
  | succ fuel ih =>
    intro t acc cells cs cs' s s' h2 hc
    simp only [dynLoop]
    by_cases hpred : pred acc t = true
    · rw [if_pos hpred, if_pos hpred, if_neg hm, if_neg (by decide)]
      obtain ⟨e1, e2⟩ := step1_pure rule f hp mode hm r cells t cs s h1 h2 hc
      have p1 := step1_plain_fst rule f hp r cells t cs' s' h1 h2
      rw [p1]
      have := ih (t + 1) (acc ++ [(step1 mode rule r cells t cs s).fst])
        (step1 mode rule r cells t cs s).fst (step1 mode rule r cells t cs s).2.fst
        (step1 Mode.plain rule r cells t cs' s').2.fst (step1 mode rule r cells t cs s).2.snd
        (step1 Mode.plain rule r cells t cs' s').2.snd (by rw [e1, pureStep_length]; exact h2) e2
      rw [this, e1]
    · rw [if_neg hpred, if_neg hpred]; rfl

end Values
end Cpl
