import Cpl.Spec.Ring
import Cpl.Lemmas.Evolve1D
import Cpl.Properties.C01

/-!
# Invariants of the two 1D memoisers (`memoLoop`, `updateRec` / `stepRec`), used by C03 and C09.
-/

namespace Cpl
open Py

section Values
variable {σ α : Type}

/-! ## Index arithmetic: `take(mode='wrap')` with a possibly negative start -/

theorem wrapIdx_sub (N lo r i : Nat) (hr : r ≤ N) :
    wrapIdx N ((lo : Int) - r + (i : Int)) = (lo + i + N - r) % N := by
  unfold wrapIdx
  have h : ((lo : Int) - r + (i : Int)) = ((lo + i + N - r : Nat) : Int) - (N : Int) := by omega
  rw [h, Int.sub_emod_right]
  rw [← Int.natCast_emod, Int.toNat_natCast]

/-- The block key in `Nat` arithmetic. -/
theorem wrapTake_eq [Inhabited α] (curr : List α) (lo r len : Nat) (hr : r ≤ curr.length) :
    wrapTake curr ((lo : Int) - r) len
      = (List.range len).map fun i => curr[(lo + i + curr.length - r) % curr.length]! := by
  unfold wrapTake
  apply List.map_congr_left
  intro i _
  rw [wrapIdx_sub _ _ _ _ hr]

theorem wrapTake_length [Inhabited α] (curr : List α) (start : Int) (len : Nat) :
    (wrapTake curr start len).length = len := by
  simp [wrapTake]

/-- The leaf key is the ring window. -/
theorem wrapTake_leaf [Inhabited α] (curr : List α) (lo r : Nat) (hr : r ≤ curr.length) :
    wrapTake curr ((lo : Int) - r) (1 + 2 * r) = Spec.window curr r lo := by
  rw [wrapTake_eq _ _ _ _ hr]
  have : 1 + 2 * r = 2 * r + 1 := by omega
  rw [this]; rfl

/-- The windows contained in a block key. -/
def windowsOf (r : Nat) (key : List α) : List (List α) :=
  (List.range (key.length - 2 * r)).map fun i => (key.drop i).take (2 * r + 1)

theorem windowsOf_key [Inhabited α] (curr : List α) (lo r len : Nat) (hr : r ≤ curr.length) :
    windowsOf r (wrapTake curr ((lo : Int) - r) (len + 2 * r))
      = (List.range len).map fun i => Spec.window curr r (lo + i) := by
  rw [wrapTake_eq _ _ _ _ hr]
  simp only [windowsOf, List.length_map, List.length_range]
  have : len + 2 * r - 2 * r = len := by omega
  rw [this]
  apply List.map_congr_left
  intro i hi
  simp at hi
  apply List.ext_getElem
  · simp [Spec.window]; omega
  · intro n h1 h2
    simp [Spec.window] at h1 h2 ⊢
    have e : lo + i + n + curr.length - r = lo + (i + n) + curr.length - r := by omega
    rw [e]

/-! ## `setMany` -/

theorem setMany_length [Inhabited α] (next : List α) (lo : Nat) (vals : List α) :
    (setMany next lo vals).length = next.length := by
  simp [setMany]

theorem setMany_get [Inhabited α] (next : List α) (lo : Nat) (vals : List α) (i : Nat)
    (hi : i < next.length) :
    (setMany next lo vals)[i]! = if lo ≤ i ∧ i < lo + vals.length then vals[i - lo]! else next[i]! := by
  simp [setMany, hi]

/-! ## Plain loop -/

theorem plainLoop_fst (rule : Rule1 σ α) (f : List α → α) (hp : PureVal rule f) (t : Nat) :
    ∀ (ns : List (List α)) (c : Nat) (s : σ), (plainLoop rule t ns c s).1 = ns.map f := by
  intro ns
  induction ns with
  | nil => intro c s; rfl
  | cons n rest ih =>
    intro c s
    simp only [plainLoop, List.map_cons]
    rw [ih, ← hp s n c t]

/-! ## Memo table -/

def TableOK (f : List α → α) (tbl : MemoTable α) : Prop := ∀ n v, (n, v) ∈ tbl → v = f n

theorem TableOK_nil (f : List α → α) : TableOK f ([] : MemoTable α) := by
  intro n v h; cases h

theorem lookup_mem [DecidableEq α] {β : Type} (tbl : List (List α × β)) (n : List α) (v : β)
    (h : tbl.lookup n = some v) : (n, v) ∈ tbl := by
  obtain ⟨l1, l2, rfl, _⟩ := List.lookup_eq_some_iff.mp h
  simp

theorem getMemoized_ok [DecidableEq α] (rule : Rule1 σ α) (f : List α → α) (hp : PureVal rule f)
    (n : List α) (c t : Nat) (tbl : MemoTable α) (s : σ) (ht : TableOK f tbl) :
    (getMemoized rule n c t tbl s).1 = f n ∧ TableOK f (getMemoized rule n c t tbl s).2.1 := by
  unfold getMemoized
  split
  · rename_i v hv
    exact ⟨ht _ _ (lookup_mem _ _ _ hv), ht⟩
  · refine ⟨hp s n c t, ?_⟩
    intro n' v' hm
    simp only [List.mem_cons, Prod.mk.injEq] at hm
    rcases hm with ⟨rfl, rfl⟩ | hm
    · exact hp s n' c t
    · exact ht _ _ hm

theorem memoLoop_ok [DecidableEq α] (rule : Rule1 σ α) (f : List α → α) (hp : PureVal rule f) (t : Nat) :
    ∀ (ns : List (List α)) (c : Nat) (tbl : MemoTable α) (s : σ), TableOK f tbl →
      (memoLoop rule t ns c tbl s).1 = ns.map f ∧ TableOK f (memoLoop rule t ns c tbl s).2.1 := by
  intro ns
  induction ns with
  | nil => intro c tbl s ht; exact ⟨rfl, ht⟩
  | cons n rest ih =>
    intro c tbl s ht
    obtain ⟨g1, g2⟩ := getMemoized_ok rule f hp n c t tbl s ht
    obtain ⟨i1, i2⟩ := ih (c + 1) _ (getMemoized rule n c t tbl s).2.2 g2
    simp only [memoLoop, List.map_cons]
    exact ⟨by rw [i1, g1], i2⟩

/-! ## Recursive memoiser: values -/

def CacheOK (f : List α → α) (r : Nat) (cache : RecCache α) : Prop :=
  ∀ key vals, (key, vals) ∈ cache → vals = (windowsOf r key).map f

theorem CacheOK_nil (f : List α → α) (r : Nat) : CacheOK f r ([] : RecCache α) := by
  intro k v h; cases h

theorem updateRec_correct [DecidableEq α] [Inhabited α] (rule : Rule1 σ α) (f : List α → α)
    (hp : PureVal rule f) (r : Nat) (curr : List α) (t : Nat) (hr : r ≤ curr.length) :
    ∀ (len lo : Nat) (st : RecSt σ α), 0 < len → lo + len ≤ curr.length →
      st.next.length = curr.length → CacheOK f r st.cache →
      (updateRec rule r curr t len lo st).next.length = curr.length ∧
      CacheOK f r (updateRec rule r curr t len lo st).cache ∧
      (∀ i, lo ≤ i → i < lo + len →
        (updateRec rule r curr t len lo st).next[i]! = f (Spec.window curr r i)) ∧
      (∀ i, i < curr.length → (i < lo ∨ lo + len ≤ i) →
        (updateRec rule r curr t len lo st).next[i]! = st.next[i]!) := by
  intro len
  induction len using Nat.strongRecOn with
  | _ len ih =>
    intro lo st hlen hb hnext hc
    rw [updateRec]
    simp only
    split
    · -- cache hit
      rename_i vals hlk
      have hv := hc _ _ (lookup_mem _ _ _ hlk)
      rw [windowsOf_key _ _ _ _ hr] at hv
      have hvl : vals.length = len := by simp [hv]
      refine ⟨by simp [setMany_length, hnext], hc, ?_, ?_⟩
      · intro i h1 h2
        simp only
        rw [setMany_get _ _ _ _ (by omega)]
        simp only [hvl, h1, h2, and_self, if_true]
        subst hv
        simp only [List.getElem!_eq_getElem?_getD, List.getElem?_map]
        rw [List.getElem?_range (by omega)]
        simp only [Option.map_some, Option.getD_some]
        congr 2; omega
      · intro i h1 h2
        simp only
        rw [setMany_get _ _ _ _ (by omega)]
        rw [hvl, if_neg (by omega)]
    · -- miss
      rename_i hlk
      by_cases h1 : len > 1
      · simp only [h1, dite_true]
        have hm1 : 0 < len / 2 := by omega
        have hm2 : len / 2 < len := by omega
        obtain ⟨a1, a2, a3, a4⟩ := ih (len / 2) hm2 lo st hm1 (by omega) hnext hc
        generalize updateRec rule r curr t (len / 2) lo st = s1 at a1 a2 a3 a4
        obtain ⟨b1, b2, b3, b4⟩ :=
          ih (len - len / 2) (by omega) (lo + len / 2) s1 (by omega) (by omega) a1 a2
        generalize updateRec rule r curr t (len - len / 2) (lo + len / 2) s1 = s2 at b1 b2 b3 b4
        have hall : ∀ i, lo ≤ i → i < lo + len → s2.next[i]! = f (Spec.window curr r i) := by
          intro i h2 h3
          by_cases h4 : i < lo + len / 2
          · rw [b4 i (by omega) (Or.inl h4)]; exact a3 i h2 h4
          · exact b3 i (by omega) (by omega)
        refine ⟨b1, ?_, hall, ?_⟩
        · intro key vals hm
          simp only [List.mem_cons, Prod.mk.injEq] at hm
          rcases hm with ⟨rfl, rfl⟩ | hm
          · rw [windowsOf_key _ _ _ _ hr, List.map_map]
            apply List.map_congr_left
            intro i hi; simp at hi
            exact hall (lo + i) (by omega) (by omega)
          · exact b2 _ _ hm
        · intro i h2 h3
          rw [b4 i h2 (by omega), a4 i h2 (by omega)]
      · have hl : len = 1 := by omega
        subst hl
        simp only [h1, dite_false]
        have hkey : wrapTake curr ((lo : Int) - r) (1 + 2 * r) = Spec.window curr r lo :=
          wrapTake_leaf _ _ _ hr
        have hval : (rule st.s (wrapTake curr ((lo : Int) - r) (1 + 2 * r)) lo t).1
            = f (Spec.window curr r lo) := by rw [hp, hkey]
        have hall : ∀ i, lo ≤ i → i < lo + 1 →
            (setMany st.next lo [(rule st.s (wrapTake curr ((lo : Int) - r) (1 + 2 * r)) lo t).1])[i]!
              = f (Spec.window curr r i) := by
          intro i h2 h3
          have : i = lo := by omega
          subst this
          rw [setMany_get _ _ _ _ (by omega)]
          simp [hval]
        refine ⟨by simp [setMany_length, hnext], ?_, hall, ?_⟩
        · intro key vals hm
          simp only [List.mem_cons, Prod.mk.injEq] at hm
          rcases hm with ⟨rfl, rfl⟩ | hm
          · rw [windowsOf_key _ _ _ _ hr]
            have := hall lo (by omega) (by omega)
            simp only [List.range_one, List.map_cons, List.map_nil, Nat.add_zero]
            rw [this]
          · exact hc _ _ hm
        · intro i h2 h3
          rw [setMany_get _ _ _ _ (by omega)]
          rw [if_neg (by simp only [List.length_singleton]; omega)]

theorem pureStep_length [Inhabited α] (f : List α → α) (r : Nat) (cells : List α) :
    (Spec.pureStep f r cells).length = cells.length := by
  simp [Spec.pureStep]

theorem eq_pureStep [Inhabited α] (f : List α → α) (r : Nat) (cells next : List α)
    (hl : next.length = cells.length)
    (hv : ∀ i, i < cells.length → next[i]! = f (Spec.window cells r i)) :
    next = Spec.pureStep f r cells := by
  apply List.ext_getElem
  · rw [hl, pureStep_length]
  · intro i h1 h2
    have := hv i (by omega)
    simp only [List.getElem!_eq_getElem?_getD, List.getElem?_eq_getElem h1, Option.getD_some] at this
    simp [Spec.pureStep, this]

theorem stepRec_correct [DecidableEq α] [Inhabited α] (rule : Rule1 σ α) (f : List α → α)
    (hp : PureVal rule f) (r : Nat) (curr : List α) (t : Nat) (h1 : 1 ≤ r) (hr : r ≤ curr.length)
    (cache : RecCache α) (s : σ) (hc : CacheOK f r cache) :
    (stepRec rule r curr t cache s).next = Spec.pureStep f r curr ∧
    CacheOK f r (stepRec rule r curr t cache s).cache := by
  unfold stepRec
  simp only
  have hN : 0 < curr.length := by omega
  have h2 : curr.length - curr.length / 2 > 0 := by omega
  rw [if_pos h2]
  by_cases hm : curr.length / 2 > 0
  · rw [if_pos hm]
    obtain ⟨a1, a2, a3, a4⟩ := updateRec_correct rule f hp r curr t hr (curr.length / 2) 0
      ⟨List.replicate curr.length default, cache, s⟩ hm (by omega) (by simp) hc
    generalize updateRec rule r curr t (curr.length / 2) 0
      ⟨List.replicate curr.length default, cache, s⟩ = s1 at a1 a2 a3 a4
    obtain ⟨b1, b2, b3, b4⟩ := updateRec_correct rule f hp r curr t hr
      (curr.length - curr.length / 2) (curr.length / 2) s1 h2 (by omega) a1 a2
    refine ⟨eq_pureStep f r curr _ b1 ?_, b2⟩
    intro i hi
    by_cases h4 : i < curr.length / 2
    · rw [b4 i hi (Or.inl h4)]; exact a3 i (by omega) (by omega)
    · exact b3 i (by omega) (by omega)
  · rw [if_neg hm]
    have h0 : curr.length / 2 = 0 := by omega
    obtain ⟨b1, b2, b3, b4⟩ := updateRec_correct rule f hp r curr t hr
      (curr.length - curr.length / 2) (curr.length / 2)
      ⟨List.replicate curr.length default, cache, s⟩ h2 (by omega) (by simp) hc
    refine ⟨eq_pureStep f r curr _ b1 ?_, b2⟩
    intro i hi
    exact b3 i (by omega) (by omega)

/-! ## One step / many steps in any supported mode -/

def CachesOK (f : List α → α) (r : Nat) (cs : Caches α) : Prop := TableOK f cs.tbl ∧ CacheOK f r cs.rc

theorem CachesOK_empty (f : List α → α) (r : Nat) : CachesOK f r (Caches.empty : Caches α) :=
  ⟨TableOK_nil f, CacheOK_nil f r⟩

theorem neighbourhoods_map [Inhabited α] (f : List α → α) (cells : List α) (r : Nat) (h1 : 1 ≤ r)
    (h2 : r ≤ cells.length) : (neighbourhoods cells r).map f = Spec.pureStep f r cells := by
  rw [C01.neighbourhoods_eq_windows cells r h1 h2, List.map_map]; rfl

theorem step1_pure [DecidableEq α] [Inhabited α] (rule : Rule1 σ α) (f : List α → α)
    (hp : PureVal rule f) (mode : Mode) (hm : mode ≠ .bad) (r : Nat) (cells : List α) (t : Nat)
    (cs : Caches α) (s : σ) (h1 : 1 ≤ r) (h2 : r ≤ cells.length) (hc : CachesOK f r cs) :
    (step1 mode rule r cells t cs s).1 = Spec.pureStep f r cells ∧
    CachesOK f r (step1 mode rule r cells t cs s).2.1 := by
  cases mode with
  | bad => exact absurd rfl hm
  | plain =>
    simp only [step1]
    exact ⟨by rw [plainLoop_fst rule f hp, neighbourhoods_map f cells r h1 h2], hc⟩
  | memo =>
    simp only [step1]
    obtain ⟨m1, m2⟩ := memoLoop_ok rule f hp t (neighbourhoods cells r) 0 cs.tbl s hc.1
    exact ⟨by rw [m1, neighbourhoods_map f cells r h1 h2], m2, hc.2⟩
  | recursive =>
    simp only [step1]
    obtain ⟨m1, m2⟩ := stepRec_correct rule f hp r cells t h1 h2 cs.rc s hc.2
    exact ⟨m1, hc.1, m2⟩

theorem step1_plain_fst [DecidableEq α] [Inhabited α] (rule : Rule1 σ α) (f : List α → α)
    (hp : PureVal rule f) (r : Nat) (cells : List α) (t : Nat)
    (cs : Caches α) (s : σ) (h1 : 1 ≤ r) (h2 : r ≤ cells.length) :
    (step1 .plain rule r cells t cs s).1 = Spec.pureStep f r cells := by
  simp only [step1]
  rw [plainLoop_fst rule f hp, neighbourhoods_map f cells r h1 h2]

theorem fixedLoop_pure [DecidableEq α] [Inhabited α] (rule : Rule1 σ α) (f : List α → α)
    (hp : PureVal rule f) (mode : Mode) (hm : mode ≠ .bad) (r : Nat) (h1 : 1 ≤ r) :
    ∀ (k t : Nat) (cells : List α) (cs : Caches α) (s : σ), r ≤ cells.length → CachesOK f r cs →
      (fixedLoop mode rule r k t cells cs s).1 = Spec.pureRun f r k cells := by
  intro k
  induction k with
  | zero => intro t cells cs s _ _; rfl
  | succ k ih =>
    intro t cells cs s h2 hc
    obtain ⟨e1, e2⟩ := step1_pure rule f hp mode hm r cells t cs s h1 h2 hc
    simp only [fixedLoop, Spec.pureRun]
    rw [ih (t + 1) _ _ _ (by rw [e1, pureStep_length]; exact h2) e2, e1]

theorem evolveFixed_eq [DecidableEq α] [Inhabited α] (rule : Rule1 σ α) (mode : Mode)
    (hm : mode ≠ .bad) (hist : List (List α)) (init : List α) (hlast : hist.getLast? = some init)
    (T : Nat) (hT : 1 ≤ T) (r : Nat) (s : σ) :
    evolveFixed hist T rule r mode s
      = .ok (hist ++ (fixedLoop mode rule r (T - 1) 1 init Caches.empty s).1,
             (fixedLoop mode rule r (T - 1) 1 init Caches.empty s).2.2) := by
  unfold evolveFixed
  rw [hlast]
  simp only
  rw [if_neg (by omega), if_neg (by simp [hm])]

/-- Lock step of the dynamic loop in a memoised mode and in plain mode (rows only). -/
theorem dynLoop_mode_indep [DecidableEq α] [Inhabited α] (rule : Rule1 σ α) (f : List α → α)
    (hp : PureVal rule f) (mode : Mode) (hm : mode ≠ .bad) (r : Nat) (h1 : 1 ≤ r)
    (pred : List (List α) → Nat → Bool) :
    ∀ (fuel t : Nat) (acc : List (List α)) (cells : List α) (cs cs' : Caches α) (s s' : σ),
      r ≤ cells.length → CachesOK f r cs →
      (dynLoop mode rule r pred fuel t acc cells cs s).map (·.map Prod.fst)
        = (dynLoop .plain rule r pred fuel t acc cells cs' s').map (·.map Prod.fst) := by
  intro fuel
  induction fuel with
  | zero => intros; rfl
  | succ fuel ih =>
    intro t acc cells cs cs' s s' h2 hc
    simp only [dynLoop]
    by_cases hpred : pred acc t = true
    · rw [if_pos hpred, if_pos hpred, if_neg hm, if_neg (by decide)]
      obtain ⟨e1, e2⟩ := step1_pure rule f hp mode hm r cells t cs s h1 h2 hc
      have p1 := step1_plain_fst rule f hp r cells t cs' s' h1 h2
      rw [p1]
      have := ih (t + 1) (acc ++ [(step1 mode rule r cells t cs s).fst])
        (step1 mode rule r cells t cs s).fst (step1 mode rule r cells t cs s).2.fst
        (step1 Mode.plain rule r cells t cs' s').2.fst (step1 mode rule r cells t cs s).2.snd
        (step1 Mode.plain rule r cells t cs' s').2.snd (by rw [e1, pureStep_length]; exact h2) e2
      rw [this, e1]
    · rw [if_neg hpred, if_neg hpred]; rfl

end Values

/-! # Call traces (C09): the rule is `recorder f`, its state is the log of calls -/

section Calls
variable {α : Type}

abbrev Log (α : Type) := List (List α × Nat × Nat)

/-- All neighbourhood contents that occur when stepping from each of the given rows
    (same as `C09.occurring`). -/
def occ [Inhabited α] (r : Nat) (rows : List (List α)) : List (List α) :=
  rows.flatMap fun row => (List.range row.length).map (Spec.window row r)

theorem occ_nil [Inhabited α] (r : Nat) : occ r ([] : List (List α)) = [] := rfl

theorem occ_cons [Inhabited α] (r : Nat) (row : List α) (rows : List (List α)) :
    occ r (row :: rows) = (List.range row.length).map (Spec.window row r) ++ occ r rows := by
  simp [occ]

theorem stepped_succ [Inhabited α] (f : List α → α) (r k : Nat) (cells : List α) :
    (cells :: Spec.pureRun f r (k + 1) cells).take (k + 1)
      = cells :: (Spec.pureStep f r cells :: Spec.pureRun f r k (Spec.pureStep f r cells)).take k := by
  simp [Spec.pureRun]

theorem recorder_pure (f : List α → α) : PureVal (recorder f) f := fun _ _ _ _ => rfl

theorem lookup_none_not_mem [DecidableEq α] {β : Type} (tbl : List (List α × β)) (n : List α)
    (h : tbl.lookup n = none) : n ∉ tbl.map (·.1) := by
  intro hm
  rw [List.lookup_eq_none_iff] at h
  obtain ⟨p, hp, rfl⟩ := List.mem_map.mp hm
  have := h p hp
  simp at this

theorem lookup_some_mem_keys [DecidableEq α] {β : Type} (tbl : List (List α × β)) (n : List α) (v : β)
    (h : tbl.lookup n = some v) : n ∈ tbl.map (·.1) :=
  List.mem_map.mpr ⟨(n, v), lookup_mem _ _ _ h, rfl⟩

/-! ## memoize=True -/

/-- The logged neighbourhoods are duplicate-free and are exactly the keys of the table. -/
def MemoInv (tbl : MemoTable α) (log : Log α) : Prop :=
  (log.map (·.1)).Nodup ∧ ∀ n, n ∈ log.map (·.1) ↔ n ∈ tbl.map (·.1)

theorem MemoInv_nil : MemoInv ([] : MemoTable α) ([] : Log α) := by
  refine ⟨List.nodup_nil, ?_⟩
  intro n; simp

theorem getMemoized_calls [DecidableEq α] (f : List α → α) (n : List α) (c t : Nat)
    (tbl : MemoTable α) (log : Log α) (hi : MemoInv tbl log) :
    MemoInv (getMemoized (recorder f) n c t tbl log).2.1 (getMemoized (recorder f) n c t tbl log).2.2 ∧
    (∀ m, m ∈ (getMemoized (recorder f) n c t tbl log).2.1.map (·.1) ↔ m ∈ tbl.map (·.1) ∨ m = n) ∧
    (getMemoized (recorder f) n c t tbl log).2.2.length ≤ log.length + 1 := by
  unfold getMemoized
  split
  · rename_i v hv
    have hk := lookup_some_mem_keys _ _ _ hv
    refine ⟨hi, ?_, by simp⟩
    intro m
    constructor
    · intro h; exact Or.inl h
    · rintro (h | rfl)
      · exact h
      · exact hk
  · rename_i hv
    have hk := lookup_none_not_mem _ _ hv
    simp only [recorder]
    refine ⟨⟨?_, ?_⟩, ?_, by simp⟩
    · rw [List.map_append, List.nodup_append]
      refine ⟨hi.1, by simp, ?_⟩
      intro a ha b hb
      simp only [List.map_cons, List.map_nil, List.mem_singleton] at hb
      subst hb
      intro hab; subst hab
      exact hk ((hi.2 a).mp ha)
    · intro m
      simp only [List.map_append, List.mem_append, List.map_cons, List.map_nil,
        List.mem_cons, List.not_mem_nil, or_false]
      rw [hi.2 m]
      exact Or.comm
    · intro m
      simp only [List.map_cons, List.mem_cons]
      constructor
      · rintro (h | h)
        · exact Or.inr h
        · exact Or.inl h
      · rintro (h | h)
        · exact Or.inr h
        · exact Or.inl h

theorem memoLoop_calls [DecidableEq α] (f : List α → α) (t : Nat) :
    ∀ (ns : List (List α)) (c : Nat) (tbl : MemoTable α) (log : Log α), MemoInv tbl log →
      MemoInv (memoLoop (recorder f) t ns c tbl log).2.1 (memoLoop (recorder f) t ns c tbl log).2.2 ∧
      (∀ m, m ∈ (memoLoop (recorder f) t ns c tbl log).2.1.map (·.1) ↔ m ∈ tbl.map (·.1) ∨ m ∈ ns) ∧
      (memoLoop (recorder f) t ns c tbl log).2.2.length ≤ log.length + ns.length := by
  intro ns
  induction ns with
  | nil =>
    intro c tbl log hi
    refine ⟨hi, ?_, by simp [memoLoop]⟩
    intro m; simp [memoLoop]
  | cons n rest ih =>
    intro c tbl log hi
    obtain ⟨g1, g2, g3⟩ := getMemoized_calls f n c t tbl log hi
    obtain ⟨i1, i2, i3⟩ := ih (c + 1) _ _ g1
    simp only [memoLoop]
    refine ⟨i1, ?_, ?_⟩
    · intro m
      rw [i2 m, g2 m, List.mem_cons, or_assoc]
    · simp only [List.length_cons]; exact Nat.le_trans i3 (by omega)

theorem fixedLoop_memo_calls [DecidableEq α] [Inhabited α] (f : List α → α) (r : Nat) (h1 : 1 ≤ r) :
    ∀ (k t : Nat) (cells : List α) (cs : Caches α) (log : Log α), r ≤ cells.length →
      CachesOK f r cs → MemoInv cs.tbl log →
      MemoInv (fixedLoop .memo (recorder f) r k t cells cs log).2.1.tbl
        (fixedLoop .memo (recorder f) r k t cells cs log).2.2 ∧
      (∀ n, n ∈ (fixedLoop .memo (recorder f) r k t cells cs log).2.1.tbl.map (·.1) ↔
        n ∈ cs.tbl.map (·.1) ∨ n ∈ occ r ((cells :: Spec.pureRun f r k cells).take k)) ∧
      (fixedLoop .memo (recorder f) r k t cells cs log).2.2.length ≤ log.length + cells.length * k := by
  intro k
  induction k with
  | zero =>
    intro t cells cs log h2 hc hi
    refine ⟨hi, ?_, by simp [fixedLoop]⟩
    intro n; simp [fixedLoop, occ]
  | succ k ih =>
    intro t cells cs log h2 hc hi
    obtain ⟨e1, e2⟩ := step1_pure (recorder f) f (recorder_pure f) .memo (by decide) r cells t cs log h1 h2 hc
    obtain ⟨m1, m2, m3⟩ := memoLoop_calls f t (neighbourhoods cells r) 0 cs.tbl log hi
    have hs1 : (step1 .memo (recorder f) r cells t cs log).2.1.tbl
        = (memoLoop (recorder f) t (neighbourhoods cells r) 0 cs.tbl log).2.1 := rfl
    have hs2 : (step1 .memo (recorder f) r cells t cs log).2.2
        = (memoLoop (recorder f) t (neighbourhoods cells r) 0 cs.tbl log).2.2 := rfl
    rw [← hs1] at m1 m2
    rw [← hs2] at m1 m3
    have hnb := C01.neighbourhoods_eq_windows cells r h1 h2
    have hlen : (Spec.pureStep f r cells).length = cells.length := pureStep_length f r cells
    obtain ⟨i1, i2, i3⟩ := ih (t + 1) (step1 .memo (recorder f) r cells t cs log).1
      (step1 .memo (recorder f) r cells t cs log).2.1 (step1 .memo (recorder f) r cells t cs log).2.2
      (by rw [e1, hlen]; exact h2) e2 m1
    simp only [fixedLoop]
    refine ⟨i1, ?_, ?_⟩
    · intro n
      rw [i2 n, m2 n, stepped_succ, occ_cons, List.mem_append, hnb, e1, or_assoc]
    · have hl1 : (step1 .memo (recorder f) r cells t cs log).1.length = cells.length := by
        rw [e1, hlen]
      rw [hl1] at i3
      rw [hnb] at m3
      simp only [List.length_map, List.length_range] at m3
      rw [Nat.mul_succ]
      refine Nat.le_trans i3 ?_
      omega

/-! ## memoize='recursive' -/

/-- The logged neighbourhoods are duplicate-free and every one of them is a key of the cache. -/
def RecInv (cache : RecCache α) (log : Log α) : Prop :=
  (log.map (·.1)).Nodup ∧ ∀ e ∈ log, e.1 ∈ cache.map (·.1)

theorem RecInv_nil : RecInv ([] : RecCache α) ([] : Log α) := by
  refine ⟨List.nodup_nil, ?_⟩
  intro e h; cases h

theorem RecInv_cons (cache : RecCache α) (log : Log α) (kv : List α × List α)
    (h : RecInv cache log) : RecInv (kv :: cache) log :=
  ⟨h.1, fun e he => by
    simp only [List.map_cons, List.mem_cons]; exact Or.inr (h.2 e he)⟩

theorem updateRec_calls [DecidableEq α] [Inhabited α] (f : List α → α) (r : Nat) (curr : List α)
    (t : Nat) (hr : r ≤ curr.length) :
    ∀ (len lo : Nat) (st : RecSt (Log α) α), 0 < len → RecInv st.cache st.s →
      ∃ new : Log α, (updateRec (recorder f) r curr t len lo st).s = st.s ++ new ∧
        RecInv (updateRec (recorder f) r curr t len lo st).cache
          (updateRec (recorder f) r curr t len lo st).s ∧
        (∀ e ∈ new, e.1 = Spec.window curr r e.2.1 ∧ lo ≤ e.2.1 ∧ e.2.1 < lo + len ∧ e.2.2 = t) ∧
        (new.map (·.2.1)).Nodup ∧ new.length ≤ len := by
  intro len
  induction len using Nat.strongRecOn with
  | _ len ih =>
    intro lo st hlen hi
    rw [updateRec]
    simp only
    split
    · -- cache hit: no call
      refine ⟨[], by simp, hi, ?_, List.nodup_nil, by simp⟩
      intro e he; cases he
    · rename_i hlk
      have hk := lookup_none_not_mem _ _ hlk
      by_cases h1 : len > 1
      · simp only [h1, dite_true]
        have hm1 : 0 < len / 2 := by omega
        have hm2 : len / 2 < len := by omega
        obtain ⟨new1, a1, a2, a3, a4, a5⟩ := ih (len / 2) hm2 lo st hm1 hi
        generalize updateRec (recorder f) r curr t (len / 2) lo st = s1 at a1 a2
        obtain ⟨new2, b1, b2, b3, b4, b5⟩ :=
          ih (len - len / 2) (by omega) (lo + len / 2) s1 (by omega) a2
        generalize updateRec (recorder f) r curr t (len - len / 2) (lo + len / 2) s1 = s2 at b1 b2
        refine ⟨new1 ++ new2, by rw [b1, a1, List.append_assoc], RecInv_cons _ _ _ b2, ?_, ?_, ?_⟩
        · intro e he
          rcases List.mem_append.mp he with h | h
          · obtain ⟨c1, c2, c3, c4⟩ := a3 e h
            exact ⟨c1, c2, by omega, c4⟩
          · obtain ⟨c1, c2, c3, c4⟩ := b3 e h
            exact ⟨c1, by omega, by omega, c4⟩
        · rw [List.map_append, List.nodup_append]
          refine ⟨a4, b4, ?_⟩
          intro x hx y hy
          obtain ⟨e, he, rfl⟩ := List.mem_map.mp hx
          obtain ⟨e', he', rfl⟩ := List.mem_map.mp hy
          have := (a3 e he).2.2.1
          have := (b3 e' he').2.1
          omega
        · rw [List.length_append]; omega
      · have hl : len = 1 := by omega
        subst hl
        simp only [h1, dite_false, recorder]
        have hkey : wrapTake curr ((lo : Int) - r) (1 + 2 * r) = Spec.window curr r lo :=
          wrapTake_leaf _ _ _ hr
        refine ⟨[(wrapTake curr ((lo : Int) - r) (1 + 2 * r), lo, t)], rfl, ⟨?_, ?_⟩, ?_, by simp, by simp⟩
        · rw [List.map_append, List.nodup_append]
          refine ⟨hi.1, by simp, ?_⟩
          intro a ha b hb
          simp only [List.map_cons, List.map_nil, List.mem_cons, List.not_mem_nil, or_false] at hb
          subst hb
          intro hab; subst hab
          obtain ⟨e, he, hee⟩ := List.mem_map.mp ha
          exact hk (hee ▸ hi.2 e he)
        · intro e he
          simp only [List.map_cons, List.mem_cons]
          rcases List.mem_append.mp he with h | h
          · exact Or.inr (hi.2 e h)
          · simp only [List.mem_cons, List.not_mem_nil, or_false] at h
            subst h; exact Or.inl rfl
        · intro e he
          simp only [List.mem_cons, List.not_mem_nil, or_false] at he
          subst he
          exact ⟨hkey, Nat.le_refl _, Nat.lt_succ_self _, rfl⟩

theorem stepRec_calls [DecidableEq α] [Inhabited α] (f : List α → α) (r : Nat) (curr : List α)
    (t : Nat) (h1 : 1 ≤ r) (hr : r ≤ curr.length) (cache : RecCache α) (log : Log α)
    (hi : RecInv cache log) :
    ∃ new : Log α, (stepRec (recorder f) r curr t cache log).s = log ++ new ∧
      RecInv (stepRec (recorder f) r curr t cache log).cache (stepRec (recorder f) r curr t cache log).s ∧
      (∀ e ∈ new, e.1 = Spec.window curr r e.2.1 ∧ e.2.1 < curr.length ∧ e.2.2 = t) ∧
      (new.map (·.2.1)).Nodup ∧ new.length ≤ curr.length := by
  unfold stepRec
  simp only
  have hN : 0 < curr.length := by omega
  have h2 : curr.length - curr.length / 2 > 0 := by omega
  rw [if_pos h2]
  by_cases hm : curr.length / 2 > 0
  · rw [if_pos hm]
    obtain ⟨new1, a1, a2, a3, a4, a5⟩ := updateRec_calls f r curr t hr (curr.length / 2) 0
      ⟨List.replicate curr.length default, cache, log⟩ hm hi
    generalize updateRec (recorder f) r curr t (curr.length / 2) 0
      ⟨List.replicate curr.length default, cache, log⟩ = s1 at a1 a2
    obtain ⟨new2, b1, b2, b3, b4, b5⟩ := updateRec_calls f r curr t hr
      (curr.length - curr.length / 2) (curr.length / 2) s1 h2 a2
    simp only at a1
    refine ⟨new1 ++ new2, by rw [b1, a1, List.append_assoc], b2, ?_, ?_, ?_⟩
    · intro e he
      rcases List.mem_append.mp he with h | h
      · obtain ⟨c1, c2, c3, c4⟩ := a3 e h
        exact ⟨c1, by omega, c4⟩
      · obtain ⟨c1, c2, c3, c4⟩ := b3 e h
        exact ⟨c1, by omega, c4⟩
    · rw [List.map_append, List.nodup_append]
      refine ⟨a4, b4, ?_⟩
      intro x hx y hy
      obtain ⟨e, he, rfl⟩ := List.mem_map.mp hx
      obtain ⟨e', he', rfl⟩ := List.mem_map.mp hy
      have := (a3 e he).2.2.1
      have := (b3 e' he').2.1
      omega
    · rw [List.length_append]; omega
  · rw [if_neg hm]
    obtain ⟨new2, b1, b2, b3, b4, b5⟩ := updateRec_calls f r curr t hr
      (curr.length - curr.length / 2) (curr.length / 2)
      ⟨List.replicate curr.length default, cache, log⟩ h2 hi
    refine ⟨new2, b1, b2, ?_, b4, by omega⟩
    intro e he
    obtain ⟨c1, c2, c3, c4⟩ := b3 e he
    exact ⟨c1, by omega, c4⟩

theorem fixedLoop_rec_calls [DecidableEq α] [Inhabited α] (f : List α → α) (r : Nat) (h1 : 1 ≤ r) :
    ∀ (k t : Nat) (cells : List α) (cs : Caches α) (log : Log α), r ≤ cells.length →
      CachesOK f r cs → RecInv cs.rc log →
      ∃ new : Log α, (fixedLoop .recursive (recorder f) r k t cells cs log).2.2 = log ++ new ∧
        RecInv (fixedLoop .recursive (recorder f) r k t cells cs log).2.1.rc
          (fixedLoop .recursive (recorder f) r k t cells cs log).2.2 ∧
        (∀ e ∈ new, e.1 ∈ occ r ((cells :: Spec.pureRun f r k cells).take k) ∧
          e.2.1 < cells.length ∧ t ≤ e.2.2 ∧ e.2.2 < t + k) ∧
        (∀ t0, ((new.filter (fun e => e.2.2 = t0)).map (·.2.1)).Nodup) ∧
        new.length ≤ cells.length * k := by
  intro k
  induction k with
  | zero =>
    intro t cells cs log h2 hc hi
    refine ⟨[], by simp [fixedLoop], hi, ?_, ?_, by simp⟩
    · intro e he; cases he
    · intro t0; simp
  | succ k ih =>
    intro t cells cs log h2 hc hi
    obtain ⟨e1, e2⟩ := step1_pure (recorder f) f (recorder_pure f) .recursive (by decide) r cells t cs
      log h1 h2 hc
    obtain ⟨new1, a1, a2, a3, a4, a5⟩ := stepRec_calls f r cells t h1 h2 cs.rc log hi
    have hs1 : (step1 .recursive (recorder f) r cells t cs log).2.1.rc
        = (stepRec (recorder f) r cells t cs.rc log).cache := rfl
    have hs2 : (step1 .recursive (recorder f) r cells t cs log).2.2
        = (stepRec (recorder f) r cells t cs.rc log).s := rfl
    rw [← hs1, ← hs2] at a2
    rw [← hs2] at a1
    have hlen : (Spec.pureStep f r cells).length = cells.length := pureStep_length f r cells
    have hl1 : (step1 .recursive (recorder f) r cells t cs log).1.length = cells.length := by
      rw [e1, hlen]
    obtain ⟨new2, b1, b2, b3, b4, b5⟩ := ih (t + 1) (step1 .recursive (recorder f) r cells t cs log).1
      (step1 .recursive (recorder f) r cells t cs log).2.1
      (step1 .recursive (recorder f) r cells t cs log).2.2
      (by rw [hl1]; exact h2) e2 a2
    simp only [fixedLoop]
    refine ⟨new1 ++ new2, by rw [b1, a1, List.append_assoc], b2, ?_, ?_, ?_⟩
    · intro e he
      rw [stepped_succ, occ_cons, List.mem_append]
      rcases List.mem_append.mp he with h | h
      · obtain ⟨c1, c2, c3⟩ := a3 e h
        refine ⟨Or.inl ?_, c2, by omega, by omega⟩
        rw [c1]
        exact List.mem_map.mpr ⟨e.2.1, List.mem_range.mpr c2, rfl⟩
      · obtain ⟨c1, c2, c3, c4⟩ := b3 e h
        rw [e1] at c1
        rw [hl1] at c2
        exact ⟨Or.inr c1, c2, by omega, by omega⟩
    · intro t0
      rw [List.filter_append]
      by_cases ht : t0 = t
      · have hn2 : new2.filter (fun e => e.2.2 = t0) = [] := by
          rw [List.filter_eq_nil_iff]
          intro e he
          have := (b3 e he).2.2.1
          simp only [decide_eq_true_eq]; omega
        have hn1 : new1.filter (fun e => e.2.2 = t0) = new1 := by
          rw [List.filter_eq_self]
          intro e he
          have := (a3 e he).2.2
          simp only [decide_eq_true_eq]; omega
        rw [hn1, hn2, List.append_nil]; exact a4
      · have hn1 : new1.filter (fun e => e.2.2 = t0) = [] := by
          rw [List.filter_eq_nil_iff]
          intro e he
          have := (a3 e he).2.2
          simp only [decide_eq_true_eq]; omega
        rw [hn1, List.nil_append]; exact b4 t0
    · rw [List.length_append, Nat.mul_succ]
      rw [hl1] at b5
      omega

end Calls

end Cpl
