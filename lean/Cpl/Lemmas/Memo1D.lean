import Cpl.Spec.Ring
import Cpl.Lemmas.Evolve1D

/-!
# Invariants of the two 1D memoisers (`memoLoop`, `updateRec` / `stepRec`), used by C03 and C09.
-/

namespace Cpl
open Py

end Cpl
