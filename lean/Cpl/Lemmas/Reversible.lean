import Cpl.Model.Rules
import Cpl.Spec.Ring
import Cpl.Lemmas.Evolve1D
import Cpl.Properties.C07

/-!
# Helper lemmas for C13 (`ReversibleRule`): Python's integer `^`, one call of the rule on a ring
window, one synchronous step, and the abstract second-order recurrence with its time reversal.
-/

namespace Cpl.Reversible
open Py Cpl Cpl.Spec

/-! ## `ixor` (Python `^` on integers) -/

theorem ixor_nn {a b : Int} (ha : 0 ≤ a) (hb : 0 ≤ b) :
    ixor a b = ((a.toNat ^^^ b.toNat : Nat) : Int) := by
  have h1 : ¬ a < 0 := by omega
  have h2 : ¬ b < 0 := by omega
  simp [ixor, h1, h2]

theorem ixor_pn {a b : Int} (ha : a < 0) (hb : 0 ≤ b) :
    ixor a b = -(((-a - 1).toNat ^^^ b.toNat : Nat) : Int) - 1 := by
  have h2 : ¬ b < 0 := by omega
  simp [ixor, ha, h2]

theorem ixor_np {a b : Int} (ha : 0 ≤ a) (hb : b < 0) :
    ixor a b = -((a.toNat ^^^ (-b - 1).toNat : Nat) : Int) - 1 := by
  have h1 : ¬ a < 0 := by omega
  simp [ixor, h1, hb]

theorem ixor_pp {a b : Int} (ha : a < 0) (hb : b < 0) :
    ixor a b = (((-a - 1).toNat ^^^ (-b - 1).toNat : Nat) : Int) := by
  simp [ixor, ha, hb]

theorem nat_xor_cancel (m n : Nat) : (m ^^^ n) ^^^ n = m := by
  rw [Nat.xor_assoc, Nat.xor_self, Nat.xor_zero]

theorem ixor_comm (a b : Int) : ixor a b = ixor b a := by
  by_cases ha : a < 0 <;> by_cases hb : b < 0
  · rw [ixor_pp ha hb, ixor_pp hb ha, Nat.xor_comm]
  · rw [ixor_pn ha (by omega), ixor_np (by omega) ha, Nat.xor_comm]
  · rw [ixor_np (by omega) hb, ixor_pn hb (by omega), Nat.xor_comm]
  · rw [ixor_nn (by omega) (by omega), ixor_nn (by omega) (by omega), Nat.xor_comm]

/-- XOR-ing twice with the same integer gives back the original, for all integers. -/
theorem ixor_cancel_right (a b : Int) : ixor (ixor a b) b = a := by
  by_cases ha : a < 0 <;> by_cases hb : b < 0
  · rw [ixor_pp ha hb, ixor_np (Int.natCast_nonneg _) hb, Int.toNat_natCast, nat_xor_cancel]
    omega
  · have hb' : 0 ≤ b := by omega
    rw [ixor_pn ha hb']
    generalize hx : (-a - 1).toNat ^^^ b.toNat = x
    have hneg : -(x : Int) - 1 < 0 := by omega
    rw [ixor_pn hneg hb']
    have e : (-(-(x : Int) - 1) - 1).toNat = x := by omega
    rw [e, ← hx, nat_xor_cancel]; omega
  · have ha' : 0 ≤ a := by omega
    rw [ixor_np ha' hb]
    generalize hx : a.toNat ^^^ (-b - 1).toNat = x
    have hneg : -(x : Int) - 1 < 0 := by omega
    rw [ixor_pp hneg hb]
    have e : (-(-(x : Int) - 1) - 1).toNat = x := by omega
    rw [e, ← hx, nat_xor_cancel]; omega
  · have ha' : 0 ≤ a := by omega
    have hb' : 0 ≤ b := by omega
    rw [ixor_nn ha' hb', ixor_nn (Int.natCast_nonneg _) hb', Int.toNat_natCast, nat_xor_cancel]
    omega

theorem ixor_cancel_left (a b : Int) : ixor a (ixor a b) = b := by
  rw [ixor_comm a b, ixor_comm a, ixor_cancel_right]

theorem ixor_binary {a b : Int} (ha : a = 0 ∨ a = 1) (hb : b = 0 ∨ b = 1) :
    ixor a b = 0 ∨ ixor a b = 1 := by
  rcases ha with rfl | rfl <;> rcases hb with rfl | rfl <;> decide

/-! ## rows -/

theorem zipWith_ixor_cancel_left : ∀ (a b : List Int), a.length = b.length →
    List.zipWith ixor a (List.zipWith ixor a b) = b
  | [], [], _ => rfl
  | [], _ :: _, h => by simp at h
  | _ :: _, [], h => by simp at h
  | x :: xs, y :: ys, h => by
    simp only [List.zipWith_cons_cons, ixor_cancel_left]
    rw [zipWith_ixor_cancel_left xs ys (by simpa using h)]

theorem zipWith_ixor_cancel_right : ∀ (a b : List Int), a.length = b.length →
    List.zipWith ixor (List.zipWith ixor a b) b = a
  | [], [], _ => rfl
  | [], _ :: _, h => by simp at h
  | _ :: _, [], h => by simp at h
  | x :: xs, y :: ys, h => by
    simp only [List.zipWith_cons_cons, ixor_cancel_right]
    rw [zipWith_ixor_cancel_right xs ys (by simpa using h)]

theorem zipWith_ixor_binary (a b : List Int) (ha : ∀ x ∈ a, x = 0 ∨ x = 1)
    (hb : ∀ x ∈ b, x = 0 ∨ x = 1) : ∀ x ∈ List.zipWith ixor a b, x = 0 ∨ x = 1 := by
  intro x hx
  obtain ⟨i, hi, rfl⟩ := List.getElem_of_mem hx
  rw [List.getElem_zipWith]
  exact ixor_binary (ha _ (List.getElem_mem _)) (hb _ (List.getElem_mem _))

/-! ## one call of `ReversibleRule` on a ring window -/

/-- The NKS output bit of elementary rule `R` on a neighbourhood. -/
def nksBit (R : Nat) (w : List Int) : Int := if R.testBit (bitsToInt w) then 1 else 0

theorem getIdx_nat {α} (l : List α) (i : Nat) (hi : i < l.length) :
    getIdx l (i : Int) = .ok l[i] := by
  unfold getIdx
  have h0 : ¬ ((i : Int) < 0) := by omega
  simp only [h0, if_false]
  simp [hi]

/-- The centre of a radius-1 ring window is the cell's own state. -/
theorem window_one_centre (cells : List Int) (c : Nat) (hc : c < cells.length) :
    (window cells 1 c)[1]'(by rw [window_length']; omega) = cells[c] := by
  unfold window
  simp only [List.getElem_map, List.getElem_range]
  have : (c + 1 + cells.length - 1) % cells.length = c := by
    have : c + 1 + cells.length - 1 = c + cells.length := by omega
    rw [this, Nat.add_mod_right, Nat.mod_eq_of_lt hc]
  rw [this, getElem!_pos cells c hc]

/-- One call inside the contract: the NKS bit of the window XOR the stored previous state of the cell;
    afterwards the stored state of that cell is the window centre (its current state). -/
theorem reversibleRule_window (R : Nat) (hR : R < 256) (prev cells : List Int) (c t : Nat)
    (hc : c < cells.length) (hp : c < prev.length) :
    reversibleRule R prev (window cells 1 c) c t
      = (ixor (nksBit R (window cells 1 c)) prev[c], prev.set c cells[c]) := by
  have hwl : (window cells 1 c).length = 3 := by rw [window_length']
  have hnks : nksRule (window cells 1 c) R = .ok (nksBit R (window cells 1 c)) := by
    apply Cpl.C07.nksRule_spec
    rw [hwl]; exact hR
  have hcentre : getIdx (window cells 1 c) (((window cells 1 c).length / 2 : Nat) : Int)
      = .ok cells[c] := by
    rw [hwl, show (3 / 2 : Nat) = 1 from rfl, getIdx_nat _ 1 (by rw [hwl]; omega),
      window_one_centre cells c hc]
  unfold reversibleRule reversibleCall
  simp only [bind, Except.bind, pure, Except.pure, hnks, getIdx_nat prev c hp, hcentre]

/-! ## one synchronous step -/

theorem set_take_drop (cells prev : List Int) (a : Nat) (hlen : prev.length = cells.length)
    (ha : a < cells.length) :
    (cells.take a ++ prev.drop a).set a cells[a] = cells.take (a + 1) ++ prev.drop (a + 1) := by
  apply List.ext_getElem
  · simp; omega
  · intro i h1 h2
    rw [List.getElem_set]
    by_cases hia : a = i
    · subst hia
      rw [if_pos rfl, List.getElem_append_left (by simp; omega), List.getElem_take]
    · rw [if_neg hia]
      by_cases hlt : i < a
      · rw [List.getElem_append_left (by simp; omega), List.getElem_append_left (by simp; omega),
          List.getElem_take, List.getElem_take]
      · have h3 : (cells.take a).length = a := by simp; omega
        have h4 : (cells.take (a + 1)).length = a + 1 := by simp; omega
        rw [List.getElem_append_right (by omega), List.getElem_append_right (by omega),
          List.getElem_drop, List.getElem_drop]
        congr 1
        omega

/-- The cells `a, a+1, …, a+m-1` updated in order, starting from the rule state in which cells below `a`
    already hold their current state. -/
theorem stepCells_reversible (R : Nat) (hR : R < 256) (cells prev : List Int) (t : Nat)
    (hlen : prev.length = cells.length) :
    ∀ (m a : Nat), a + m ≤ cells.length →
      stepCells (reversibleRule R) cells 1 t (List.range' a m) (cells.take a ++ prev.drop a)
        = ((List.range' a m).map (fun c => ixor (nksBit R (window cells 1 c)) prev[c]!),
           cells.take (a + m) ++ prev.drop (a + m)) := by
  intro m
  induction m with
  | zero => intro a _; simp [stepCells]
  | succ m ih =>
    intro a ham
    have ha : a < cells.length := by omega
    have hpa : a < (cells.take a ++ prev.drop a).length := by simp; omega
    have htl : (cells.take a).length = a := by simp; omega
    have hget : (cells.take a ++ prev.drop a)[a] = prev[a]'(by omega) := by
      rw [List.getElem_append_right (by omega), List.getElem_drop]
      congr 1; omega
    rw [List.range'_succ, stepCells, reversibleRule_window R hR _ cells a t ha hpa]
    simp only []
    rw [set_take_drop cells prev a hlen ha, ih (a + 1) (by omega), hget]
    simp only [List.map_cons]
    rw [getElem!_pos prev a (by omega)]
    rw [show a + 1 + m = a + (m + 1) by omega]

/-- **One step of the ring under `ReversibleRule`**: cell `c` of the new row is the rule-`R` bit of its
    window XOR its stored previous state; the stored state afterwards is the current row. -/
theorem step_reversible (R : Nat) (hR : R < 256) (cells prev : List Int) (t : Nat)
    (hlen : prev.length = cells.length) :
    step (reversibleRule R) cells 1 t prev
      = (List.zipWith ixor ((List.range cells.length).map fun c => nksBit R (window cells 1 c)) prev,
         cells) := by
  unfold step
  have h := stepCells_reversible R hR cells prev t hlen cells.length 0 (by omega)
  simp only [List.take_zero, List.drop_zero, List.nil_append, Nat.zero_add] at h
  rw [List.range_eq_range', h]
  congr 1
  · apply List.ext_getElem
    · simp; omega
    · intro i h1 h2
      simp only [List.length_map, List.length_range'] at h1
      simp only [List.getElem_map, List.getElem_range', List.getElem_zipWith, Nat.zero_add,
        Nat.one_mul]
      rw [getElem!_pos prev i (by omega)]
  · rw [List.take_length, ← hlen, List.drop_length, List.append_nil]

/-! ## the abstract second-order recurrence `s(t+1) = f(s(t)) XOR s(t-1)` -/

section recurrence
variable (f : List Int → List Int)

/-- One step on the pair (previous, current). -/
def next (p c : List Int) : List Int := List.zipWith ixor (f c) p

/-- The `k` rows that follow `(p, c)`. -/
def rows : Nat → List Int → List Int → List (List Int)
  | 0, _, _ => []
  | k + 1, p, c => next f p c :: rows k c (next f p c)

/-- The pair (previous, current) after `k` steps. -/
def endPair : Nat → List Int → List Int → List Int × List Int
  | 0, p, c => (p, c)
  | k + 1, p, c => endPair k c (next f p c)

variable {f}

theorem next_length (hf : ∀ l, (f l).length = l.length) (p c : List Int) (h : p.length = c.length) :
    (next f p c).length = c.length := by
  unfold next; rw [List.length_zipWith, hf, h, Nat.min_self]

/-- Stepping, swapping the roles, and stepping again undoes the step. -/
theorem next_next (hf : ∀ l, (f l).length = l.length) (p c : List Int) (h : p.length = c.length) :
    next f (next f p c) c = p := by
  unfold next
  exact zipWith_ixor_cancel_left (f c) p (by rw [hf, h])

theorem endPair_length (hf : ∀ l, (f l).length = l.length) :
    ∀ (k : Nat) (p c : List Int), p.length = c.length →
      (endPair f k p c).1.length = c.length ∧ (endPair f k p c).2.length = c.length := by
  intro k
  induction k with
  | zero => intro p c h; exact ⟨h, rfl⟩
  | succ k ih =>
    intro p c h
    have hn := next_length hf p c h
    have := ih c (next f p c) hn.symm
    simp only [endPair]
    rw [hn] at this; exact this

theorem endPair_succ' : ∀ (k : Nat) (p c : List Int),
    endPair f (k + 1) p c = ((endPair f k p c).2, next f (endPair f k p c).1 (endPair f k p c).2) := by
  intro k
  induction k with
  | zero => intro p c; rfl
  | succ k ih => intro p c; rw [endPair, ih c (next f p c)]; rfl

theorem rows_succ' : ∀ (k : Nat) (p c : List Int),
    rows f (k + 1) p c = rows f k p c ++ [(endPair f (k + 1) p c).2] := by
  intro k
  induction k with
  | zero => intro p c; rfl
  | succ k ih =>
    intro p c
    rw [rows, ih c (next f p c)]
    rfl

theorem rows_length : ∀ (k : Nat) (p c : List Int), (rows f k p c).length = k := by
  intro k
  induction k with
  | zero => intro p c; rfl
  | succ k ih => intro p c; simp [rows, ih]

/-- Running `k` steps, swapping the last two states, and running `k` steps again arrives at the
    starting pair with its roles swapped. -/
theorem endPair_retrace (hf : ∀ l, (f l).length = l.length) :
    ∀ (k : Nat) (p c : List Int), p.length = c.length →
      endPair f k (endPair f k p c).2 (endPair f k p c).1 = (c, p) := by
  intro k
  induction k with
  | zero => intro p c _; rfl
  | succ k ih =>
    intro p c h
    have hn := next_length hf p c h
    have ih' := ih c (next f p c) hn.symm
    rw [endPair_succ']
    simp only [endPair]
    rw [ih']
    simp only []
    rw [next_next hf p c h]

/-- The whole trajectory `p, c, s1, …, sk`. -/
def traj (k : Nat) (p c : List Int) : List (List Int) := p :: c :: rows f k p c

theorem traj_succ (k : Nat) (p c : List Int) :
    traj (f := f) (k + 1) p c = p :: traj (f := f) k c (next f p c) := rfl

theorem traj_succ' (k : Nat) (p c : List Int) :
    traj (f := f) (k + 1) p c = traj (f := f) k p c ++ [(endPair f (k + 1) p c).2] := by
  unfold traj; rw [rows_succ']; simp

/-- **Time reversal**: the trajectory started from the last two states with their roles swapped is the
    original trajectory read backwards. -/
theorem traj_retrace (hf : ∀ l, (f l).length = l.length) :
    ∀ (k : Nat) (p c : List Int), p.length = c.length →
      traj (f := f) k (endPair f k p c).2 (endPair f k p c).1 = (traj (f := f) k p c).reverse := by
  intro k
  induction k with
  | zero => intro p c _; rfl
  | succ k ih =>
    intro p c h
    have hn := next_length hf p c h
    have ih' := ih c (next f p c) hn.symm
    have hret := endPair_retrace hf (k + 1) p c h
    rw [traj_succ', hret, traj_succ, List.reverse_cons]
    simp only [endPair]
    rw [ih']

/-- Binary rows stay binary. -/
theorem rows_binary (hfb : ∀ l, ∀ x ∈ f l, x = 0 ∨ x = 1) :
    ∀ (k : Nat) (p c : List Int), (∀ x ∈ p, x = 0 ∨ x = 1) → (∀ x ∈ c, x = 0 ∨ x = 1) →
      ∀ row ∈ rows f k p c, ∀ x ∈ row, x = 0 ∨ x = 1 := by
  intro k
  induction k with
  | zero => intro p c _ _ row hrow; simp [rows] at hrow
  | succ k ih =>
    intro p c hp hc row hrow
    have hn : ∀ x ∈ next f p c, x = 0 ∨ x = 1 := zipWith_ixor_binary _ _ (hfb c) hp
    simp only [rows, List.mem_cons] at hrow
    rcases hrow with rfl | hrow
    · exact hn
    · exact ih c (next f p c) hc hn row hrow

end recurrence

end Cpl.Reversible
