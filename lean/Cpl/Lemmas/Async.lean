import Cpl.Model.Rules
import Cpl.Spec.Ring
import Cpl.Spec.Torus
import Cpl.Lemmas.Evolve1D
import Cpl.Lemmas.Evolve2D
import Cpl.Properties.C01
import Cpl.Properties.C02

/-!
# Helper lemmas for C12 (AsynchronousRule): one pass over all cells updates exactly the scheduled cell.

The bookkeeping of `AsyncSt.call` is analysed once, for an arbitrary cell type `κ` and an arbitrary
list of visited cells; the 1D (`Spec.stepCells`) and 2D (`Spec.cellVals`) passes are instances.
-/

namespace Cpl
set_option linter.unusedSectionVars false

section generic
variable {κ : Type} [DecidableEq κ]

/-- The bookkeeping state after a completed cycle (what `_check_for_end_of_cycle` leaves behind):
    position advanced modulo the length, counter reset, and, when `randomize` is set, the next order
    produced by the shuffle oracle. -/
def AsyncSt.next (a : AsyncSt κ) : AsyncSt κ :=
  { order := if a.randomize then a.shuffles.head?.getD a.order else a.order
    curr := (a.curr + 1) % a.order.length
    numApplied := 0
    randomize := a.randomize
    shuffles := if a.randomize then a.shuffles.tail else a.shuffles }

/-- Number of cells of `cells` that are listed in `order`. -/
def listedCount (order cells : List κ) : Nat := (cells.filter (· ∈ order)).length

theorem listedCount_cons (order : List κ) (c : κ) (cs : List κ) :
    listedCount order (c :: cs) = (if c ∈ order then 1 else 0) + listedCount order cs := by
  simp only [listedCount, List.filter_cons]
  by_cases hc : c ∈ order <;> simp [hc]; omega

theorem listedCount_pos_of_mem {order cells : List κ} {c : κ} (h1 : c ∈ cells) (h2 : c ∈ order) :
    0 < listedCount order cells := by
  unfold listedCount
  apply List.length_pos_of_mem (a := c)
  simp [h1, h2]

/-- Every listed cell is visited exactly once: the count of listed cells is the length of the order. -/
theorem listedCount_eq_length {order cells : List κ} (hnd : order.Nodup) (hcn : cells.Nodup)
    (hsub : ∀ x ∈ order, x ∈ cells) : listedCount order cells = order.length := by
  unfold listedCount
  apply List.Perm.length_eq
  apply (List.perm_ext_iff_of_nodup (hcn.filter _) hnd).mpr
  intro a
  simp only [List.mem_filter, decide_eq_true_eq]
  exact ⟨fun h => h.2, fun h => ⟨hsub a h, h⟩⟩

theorem AsyncSt.ext' {a b : AsyncSt κ} (h1 : a.order = b.order) (h2 : a.curr = b.curr)
    (h3 : a.numApplied = b.numApplied) (h4 : a.randomize = b.randomize) (h5 : a.shuffles = b.shuffles) :
    a = b := by
  cases a; cases b; simp_all

/-- `checkEnd` when the counter has not reached the length: nothing happens. -/
theorem checkEnd_of_ne (a : AsyncSt κ) (h : a.numApplied ≠ a.order.length) : a.checkEnd = a := by
  simp [AsyncSt.checkEnd, h]

/-- `checkEnd` when the counter has reached the length. -/
theorem checkEnd_of_eq (a : AsyncSt κ) (h : a.numApplied = a.order.length) : a.checkEnd = a.next := by
  unfold AsyncSt.checkEnd AsyncSt.next
  simp only [h, if_true]
  cases hr : a.randomize
  · simp
  · cases hs : a.shuffles <;> simp

theorem next_of_numApplied (a : AsyncSt κ) (k : Nat) : ({ a with numApplied := k } : AsyncSt κ).next = a.next := rfl

/-- A cell that is not in the order, while the cycle is still open: no effect, not applied. -/
theorem call_unlisted_open (a : AsyncSt κ) (c : κ) (hc : c ∉ a.order) (hopen : a.numApplied ≠ a.order.length) :
    a.call c = (false, a) := by
  unfold AsyncSt.call
  simp only [hc, if_false]
  rw [checkEnd_of_ne a hopen]
  have : ¬ (a.order[a.curr]? = some c) := by
    intro h; exact hc (List.mem_of_getElem? h)
  simp [this]

/-- A listed cell: the counter goes up; applied iff it is the scheduled one; the cycle closes when the
    counter reaches the length. -/
theorem call_listed (a : AsyncSt κ) (c : κ) (hc : c ∈ a.order) :
    a.call c = (decide (a.order[a.curr]? = some c),
      if a.numApplied + 1 = a.order.length then a.next else { a with numApplied := a.numApplied + 1 }) := by
  unfold AsyncSt.call
  simp only [hc, if_true]
  congr 1
  by_cases h : a.numApplied + 1 = a.order.length
  · rw [if_pos h, checkEnd_of_eq _ h, next_of_numApplied]
  · rw [if_neg h, checkEnd_of_ne _ h]

/-- The generic pass: `call` for every visited cell; `f` is the wrapped rule (state threaded),
    `old` the value a non-applied cell keeps. -/
def asyncSweep {σ α : Type} (f : σ → κ → α × σ) (old : κ → α) :
    List κ → AsyncSt κ × σ → List α × (AsyncSt κ × σ)
  | [], st => ([], st)
  | c :: cs, (a, s) =>
    let ap := a.call c
    let vs := if ap.1 then f s c else (old c, s)
    let rest := asyncSweep f old cs (ap.2, vs.2)
    (vs.1 :: rest.1, rest.2)

variable {σ α : Type}

theorem asyncSweep_cons_false (f : σ → κ → α × σ) (old : κ → α) (a a' : AsyncSt κ) (s : σ) (c : κ)
    (cs : List κ) (h : a.call c = (false, a')) :
    asyncSweep f old (c :: cs) (a, s)
      = (old c :: (asyncSweep f old cs (a', s)).1, (asyncSweep f old cs (a', s)).2) := by
  simp [asyncSweep, h]

theorem asyncSweep_cons_true (f : σ → κ → α × σ) (old : κ → α) (a a' : AsyncSt κ) (s : σ) (c : κ)
    (cs : List κ) (h : a.call c = (true, a')) :
    asyncSweep f old (c :: cs) (a, s)
      = ((f s c).1 :: (asyncSweep f old cs (a', (f s c).2)).1, (asyncSweep f old cs (a', (f s c).2)).2) := by
  simp [asyncSweep, h]

/-- After the scheduled cell has been passed: every remaining cell keeps its value, and the pass ends
    in the `next` bookkeeping state. `a` is either still counting (`numApplied + remaining = length`)
    or already closed (`a = a0.next`, nothing listed remains). -/
theorem asyncSweep_after (f : σ → κ → α × σ) (old : κ → α) (a0 : AsyncSt κ) (cstar : κ)
    (h0 : a0.order[a0.curr]? = some cstar) (hperm : a0.next.order.Perm a0.order) :
    ∀ (cells : List κ) (a : AsyncSt κ) (s : σ), cstar ∉ cells →
      ((∃ k, a = { a0 with numApplied := k } ∧ 0 < listedCount a0.order cells ∧
          k + listedCount a0.order cells = a0.order.length) ∨
       (a = a0.next ∧ listedCount a0.order cells = 0)) →
      asyncSweep f old cells (a, s) = (cells.map old, (a0.next, s)) := by
  have hlen : 0 < a0.order.length := by
    have := (List.getElem?_eq_some_iff.1 h0).1; omega
  intro cells
  induction cells with
  | nil =>
    intro a s _ hinv
    rcases hinv with ⟨k, _, h, _⟩ | ⟨h, _⟩
    · simp [listedCount] at h
    · simp [asyncSweep, h]
  | cons c cs ih =>
    intro a s hns hinv
    have hne : cstar ≠ c := fun h => hns (h ▸ List.mem_cons_self ..)
    have hns' : cstar ∉ cs := fun h => hns (List.mem_cons_of_mem _ h)
    rw [listedCount_cons] at hinv
    rcases hinv with ⟨k, rfl, h1, h2⟩ | ⟨rfl, h1⟩
    · by_cases hc : c ∈ a0.order
      · simp only [hc, if_true] at h1 h2
        have hsh : decide (a0.order[a0.curr]? = some c) = false := by
          rw [h0]; simp [hne]
        have hcall := call_listed ({ a0 with numApplied := k }) c hc
        simp only [hsh] at hcall
        rw [asyncSweep_cons_false f old _ _ s c cs hcall]
        by_cases hlast : listedCount a0.order cs = 0
        · have : k + 1 = a0.order.length := by omega
          simp only [this, if_true]
          rw [next_of_numApplied, ih a0.next s hns' (Or.inr ⟨rfl, hlast⟩)]
          rfl
        · have : ¬ (k + 1 = a0.order.length) := by omega
          simp only [this, if_false]
          rw [ih _ s hns' (Or.inl ⟨k + 1, rfl, by omega, by omega⟩)]
          rfl
      · simp only [hc, if_false, Nat.zero_add] at h1 h2
        have hcall := call_unlisted_open ({ a0 with numApplied := k }) c hc (by simp only; omega)
        rw [asyncSweep_cons_false f old _ _ s c cs hcall, ih _ s hns' (Or.inl ⟨k, rfl, h1, h2⟩)]
        rfl
    · have hc : c ∉ a0.order := by
        intro hc; simp [hc] at h1
      simp only [hc, if_false, Nat.zero_add] at h1
      have hc' : c ∉ a0.next.order := fun h => hc (hperm.mem_iff.1 h)
      have hcall := call_unlisted_open a0.next c hc' (by
        have : a0.next.order.length = a0.order.length := hperm.length_eq
        rw [this]; simp only [AsyncSt.next]; omega)
      rw [asyncSweep_cons_false f old _ _ s c cs hcall, ih _ s hns' (Or.inr ⟨rfl, h1⟩)]
      rfl

/-- Before the scheduled cell has been reached. -/
theorem asyncSweep_before (f : σ → κ → α × σ) (old : κ → α) (a0 : AsyncSt κ) (cstar : κ)
    (h0 : a0.order[a0.curr]? = some cstar) (hperm : a0.next.order.Perm a0.order) :
    ∀ (cells : List κ) (k : Nat) (s : σ), cells.Nodup → cstar ∈ cells →
      k + listedCount a0.order cells = a0.order.length →
      asyncSweep f old cells ({ a0 with numApplied := k }, s)
        = (cells.map (fun c => if c = cstar then (f s cstar).1 else old c), (a0.next, (f s cstar).2)) := by
  have hmem : cstar ∈ a0.order := List.mem_of_getElem? h0
  intro cells
  induction cells with
  | nil => intro k s _ h; simp at h
  | cons c cs ih =>
    intro k s hnd hin hk
    rw [listedCount_cons] at hk
    have hnd' := (List.nodup_cons.1 hnd)
    by_cases hcc : c = cstar
    · subst hcc
      simp only [hmem, if_true] at hk
      have hsh : decide (a0.order[a0.curr]? = some c) = true := by simp [h0]
      have hcall := call_listed ({ a0 with numApplied := k }) c hmem
      simp only [hsh] at hcall
      rw [asyncSweep_cons_true f old _ _ s c cs hcall]
      have hmap : cs.map (fun x => if x = c then (f s c).1 else old x) = cs.map old := by
        apply List.map_congr_left
        intro x hx
        have : x ≠ c := fun h => hnd'.1 (h ▸ hx)
        simp [this]
      simp only [List.map_cons, if_true, hmap]
      by_cases hlast : listedCount a0.order cs = 0
      · have : k + 1 = a0.order.length := by omega
        simp only [this, if_true]
        rw [next_of_numApplied, asyncSweep_after f old a0 c h0 hperm cs a0.next _ hnd'.1 (Or.inr ⟨rfl, hlast⟩)]
      · have : ¬ (k + 1 = a0.order.length) := by omega
        simp only [this, if_false]
        rw [asyncSweep_after f old a0 c h0 hperm cs _ _ hnd'.1 (Or.inl ⟨k + 1, rfl, by omega, by omega⟩)]
    · have hin' : cstar ∈ cs := by
        rcases List.mem_cons.1 hin with h | h
        · exact absurd h.symm hcc
        · exact h
      have hpos : 0 < listedCount a0.order cs := listedCount_pos_of_mem hin' hmem
      simp only [List.map_cons, hcc, if_false]
      by_cases hc : c ∈ a0.order
      · simp only [hc, if_true] at hk
        have hsh : decide (a0.order[a0.curr]? = some c) = false := by
          rw [h0]; simp [Ne.symm hcc]
        have hcall := call_listed ({ a0 with numApplied := k }) c hc
        have : ¬ (k + 1 = a0.order.length) := by omega
        simp only [hsh, this, if_false] at hcall
        rw [asyncSweep_cons_false f old _ _ s c cs hcall, ih (k + 1) s hnd'.2 hin' (by omega)]
      · simp only [hc, if_false, Nat.zero_add] at hk
        have hcall := call_unlisted_open ({ a0 with numApplied := k }) c hc (by simp only; omega)
        rw [asyncSweep_cons_false f old _ _ s c cs hcall, ih k s hnd'.2 hin' hk]

/-- **One pass over all cells** (each once, every listed cell among them), starting with a fresh counter:
    the wrapped rule is consulted exactly once, for the scheduled cell; all other cells keep their value;
    the bookkeeping ends in `next`. -/
theorem asyncSweep_pass (f : σ → κ → α × σ) (old : κ → α) (a : AsyncSt κ) (cstar : κ) (s : σ)
    (cells : List κ) (hcn : cells.Nodup) (hnd : a.order.Nodup) (hsub : ∀ x ∈ a.order, x ∈ cells)
    (h0 : a.order[a.curr]? = some cstar) (hna : a.numApplied = 0)
    (hperm : a.next.order.Perm a.order) :
    asyncSweep f old cells (a, s)
      = (cells.map (fun c => if c = cstar then (f s cstar).1 else old c), (a.next, (f s cstar).2)) := by
  have hmem : cstar ∈ a.order := List.mem_of_getElem? h0
  have ha : a = { a with numApplied := 0 } := by cases a; simp_all
  rw [ha]
  exact asyncSweep_before f old a cstar h0 hperm cells 0 s hcn (hsub _ hmem)
    (by rw [listedCount_eq_length hnd hcn hsub]; omega)

theorem next_order_perm (a : AsyncSt κ) (orig : List κ) (ho : a.order.Perm orig)
    (hsh : a.randomize = true → ∀ o ∈ a.shuffles, o.Perm orig) : a.next.order.Perm orig := by
  unfold AsyncSt.next
  cases hr : a.randomize
  · simpa using ho
  · simp only [if_true]
    cases hs : a.shuffles with
    | nil => simpa using ho
    | cons o rest => simpa using hsh hr o (by rw [hs]; exact List.mem_cons_self ..)

/-- The order in force `i` steps later: with `randomize`, the `i`-th outcome of the shuffle oracle
    (the last one once the oracle is exhausted); without, the order itself. -/
def AsyncSt.orderAt (a : AsyncSt κ) (i : Nat) : List κ :=
  if a.randomize then (a.order :: a.shuffles)[min i a.shuffles.length]! else a.order

/-- The cell scheduled `i` steps later. -/
def AsyncSt.cellAt [Inhabited κ] (a : AsyncSt κ) (i : Nat) : κ :=
  (a.orderAt i)[(a.curr + i) % a.order.length]!

/-- The bookkeeping state `k` completed steps later. -/
def AsyncSt.after (a : AsyncSt κ) (k : Nat) : AsyncSt κ :=
  { order := a.orderAt k
    curr := (a.curr + k) % a.order.length
    numApplied := 0
    randomize := a.randomize
    shuffles := if a.randomize then a.shuffles.drop k else a.shuffles }

theorem orderAt_zero (a : AsyncSt κ) : a.orderAt 0 = a.order := by
  unfold AsyncSt.orderAt; cases a.randomize <;> simp

theorem orderAt_succ (a : AsyncSt κ) (i : Nat) : a.orderAt (i + 1) = a.next.orderAt i := by
  unfold AsyncSt.orderAt AsyncSt.next
  cases a.randomize
  · simp
  · simp only [if_true]
    cases a.shuffles with
    | nil => simp
    | cons o rest =>
      simp only [List.length_cons, List.head?_cons, Option.getD_some, List.tail_cons]
      rw [Nat.succ_min_succ]
      simp

theorem after_zero (a : AsyncSt κ) (hna : a.numApplied = 0) (hc : a.curr < a.order.length) :
    a.after 0 = a := by
  apply AsyncSt.ext'
  · exact orderAt_zero a
  · simp [AsyncSt.after, Nat.mod_eq_of_lt hc]
  · simp [AsyncSt.after, hna]
  · rfl
  · simp [AsyncSt.after]

theorem after_succ (a : AsyncSt κ) (k : Nat) (hl : a.next.order.length = a.order.length) :
    a.after (k + 1) = a.next.after k := by
  apply AsyncSt.ext'
  · exact orderAt_succ a k
  · simp only [AsyncSt.after, hl]
    simp only [AsyncSt.next]
    rw [Nat.mod_add_mod]; congr 1; omega
  · rfl
  · rfl
  · simp only [AsyncSt.after, AsyncSt.next]
    by_cases hr : a.randomize = true
    · simp [hr]
    · simp [hr]

theorem cellAt_zero [Inhabited κ] (a : AsyncSt κ) (c : κ) (h : a.order[a.curr]? = some c) :
    a.cellAt 0 = c := by
  have hc := (List.getElem?_eq_some_iff.1 h)
  unfold AsyncSt.cellAt
  rw [orderAt_zero, Nat.add_zero, Nat.mod_eq_of_lt hc.1, getElem!_pos a.order a.curr hc.1]
  exact hc.2

theorem cellAt_succ [Inhabited κ] (a : AsyncSt κ) (i : Nat) (hl : a.next.order.length = a.order.length) :
    a.cellAt (i + 1) = a.next.cellAt i := by
  unfold AsyncSt.cellAt
  rw [orderAt_succ, hl]
  simp only [AsyncSt.next]
  rw [Nat.mod_add_mod]
  congr 2; omega

theorem next_shuffles_mem (a : AsyncSt κ) (o : List κ) (h : o ∈ a.next.shuffles) : o ∈ a.shuffles := by
  unfold AsyncSt.next at h
  cases hr : a.randomize
  · simpa [hr] using h
  · simp only [hr, if_true] at h
    exact List.mem_of_mem_tail h

theorem orderAt_perm (a : AsyncSt κ) (orig : List κ) (ho : a.order.Perm orig)
    (hsh : a.randomize = true → ∀ o ∈ a.shuffles, o.Perm orig) : ∀ i, (a.orderAt i).Perm orig := by
  intro i
  unfold AsyncSt.orderAt
  cases hr : a.randomize
  · simpa using ho
  · simp only [if_true]
    have hlt : min i a.shuffles.length < (a.order :: a.shuffles).length := by
      simp only [List.length_cons]; omega
    rw [getElem!_pos (a.order :: a.shuffles) (min i a.shuffles.length) hlt]
    have := List.getElem_mem hlt
    rcases List.mem_cons.1 this with h | h
    · rw [h]; exact ho
    · exact hsh hr _ h

theorem cellAt_mem [Inhabited κ] (a : AsyncSt κ) (orig : List κ) (ho : a.order.Perm orig)
    (hsh : a.randomize = true → ∀ o ∈ a.shuffles, o.Perm orig) (hne : a.order ≠ []) (i : Nat) :
    a.cellAt i ∈ orig := by
  have hp := orderAt_perm a orig ho hsh i
  have hpos : 0 < a.order.length := List.length_pos_iff.2 hne
  have hlt : (a.curr + i) % a.order.length < (a.orderAt i).length := by
    rw [hp.length_eq, ← ho.length_eq]; exact Nat.mod_lt _ hpos
  unfold AsyncSt.cellAt
  rw [getElem!_pos (a.orderAt i) _ hlt]
  exact hp.mem_iff.1 (List.getElem_mem hlt)

end generic

/-! ## 1D: the pass of `Spec.step` over `asyncRule1` -/

section oneD
variable {σ α : Type}

namespace Spec

/-- Sequential evolution: at step number `t` only the cell `sched t` is replaced, by the value the rule
    returns for its current ring window; the rule's state is threaded. New rows, oldest first. -/
def seqRun [Inhabited α] (inner : Rule1 σ α) (r : Nat) (sched : Nat → Nat) :
    (k t : Nat) → List α → σ → List (List α) × σ
  | 0, _, _, s => ([], s)
  | k + 1, t, cells, s =>
    let res := inner s (window cells r (sched t)) (sched t) t
    let rest := seqRun inner r sched k (t + 1) (cells.set (sched t) res.1) res.2
    (cells.set (sched t) res.1 :: rest.1, rest.2)

end Spec

theorem stepCells_async [Inhabited α] (inner : Rule1 σ α) (cells : List α) (r t : Nat) :
    ∀ (cs : List Nat) (a : AsyncSt Nat) (s : σ),
      Spec.stepCells (asyncRule1 inner) cells r t cs (a, s)
        = asyncSweep (fun s c => inner s (Spec.window cells r c) c t)
            (fun c => (Spec.window cells r c)[r]!) cs (a, s)
  | [], _, _ => rfl
  | c :: cs, a, s => by
    simp only [Spec.stepCells, asyncSweep, asyncRule1, window_length']
    have hr : (2 * r + 1) / 2 = r := by omega
    rw [hr]
    cases h : (a.call c).1
    · simp only [Bool.false_eq_true, if_false]
      rw [stepCells_async inner cells r t cs]
    · simp only [if_true]
      rw [stepCells_async inner cells r t cs]

theorem window_centre! [Inhabited α] (cells : List α) (r c : Nat) (h2 : r ≤ cells.length)
    (hc : c < cells.length) : (Spec.window cells r c)[r]! = cells[c]! := by
  have := C01.window_centre cells r c h2 hc
  rw [List.getElem!_eq_getElem?_getD, this]; rfl

theorem map_range_set [Inhabited α] (cells : List α) (c : Nat) (v : α) :
    (List.range cells.length).map (fun x => if x = c then v else cells[x]!) = cells.set c v := by
  apply List.ext_getElem (by simp)
  intro i h1 h2
  simp only [List.length_map, List.length_range] at h1
  rw [List.getElem_map, List.getElem_range, List.getElem_set]
  by_cases h : i = c
  · simp [h]
  · have : ¬ c = i := fun h' => h h'.symm
    simp only [h, this, if_false]
    exact getElem!_pos cells i h1

/-- One step of the wrapped rule in terms of `AsyncSt.next` (both `randomize` settings). -/
theorem step_async [Inhabited α] (inner : Rule1 σ α) (cells : List α) (r t : Nat) (a : AsyncSt Nat) (s : σ)
    (c : Nat) (hr : r ≤ cells.length) (hnd : a.order.Nodup) (hlt : ∀ x ∈ a.order, x < cells.length)
    (hc : a.order[a.curr]? = some c) (hna : a.numApplied = 0) (hperm : a.next.order.Perm a.order) :
    Spec.step (asyncRule1 inner) cells r t (a, s)
      = (cells.set c (inner s (Spec.window cells r c) c t).1,
         (a.next, (inner s (Spec.window cells r c) c t).2)) := by
  unfold Spec.step
  rw [stepCells_async,
    asyncSweep_pass _ _ a c s (List.range cells.length) List.nodup_range hnd
      (fun x hx => List.mem_range.2 (hlt x hx)) hc hna hperm]
  congr 1
  rw [← map_range_set]
  apply List.map_congr_left
  intro x hx
  have hx' : x < cells.length := List.mem_range.1 hx
  by_cases h : x = c
  · simp [h]
  · simp only [h, if_false]
    exact window_centre! cells r x hr hx'

theorem seqRun_congr [Inhabited α] (inner : Rule1 σ α) (r : Nat) (f g : Nat → Nat) :
    ∀ (k t : Nat) (cells : List α) (s : σ), (∀ t', t ≤ t' → t' < t + k → f t' = g t') →
      Spec.seqRun inner r f k t cells s = Spec.seqRun inner r g k t cells s
  | 0, _, _, _, _ => rfl
  | k + 1, t, cells, s, h => by
    simp only [Spec.seqRun]
    rw [h t (Nat.le_refl _) (by omega)]
    rw [seqRun_congr inner r f g k (t + 1) _ _ (fun t' h1 h2 => h t' (by omega) (by omega))]

/-- **The whole run** of a wrapped rule is the sequential evolution along the schedule
    `t' ↦ a.cellAt (t' - t)`; the bookkeeping ends in `a.after k`. Every order met on the way is a
    permutation of `orig`. -/
theorem run_async [Inhabited α] (inner : Rule1 σ α) (r N : Nat) (orig : List Nat) (hnd : orig.Nodup)
    (hlt : ∀ x ∈ orig, x < N) (hr : r ≤ N) :
    ∀ (k t : Nat) (cells : List α) (a : AsyncSt Nat) (s : σ), cells.length = N → a.order.Perm orig →
      (a.randomize = true → ∀ o ∈ a.shuffles, o.Perm orig) → a.numApplied = 0 → a.curr < a.order.length →
      Spec.run (asyncRule1 inner) r k t cells (a, s)
        = ((Spec.seqRun inner r (fun t' => a.cellAt (t' - t)) k t cells s).1,
           (a.after k, (Spec.seqRun inner r (fun t' => a.cellAt (t' - t)) k t cells s).2))
  | 0, t, cells, a, s, _, _, _, hna, hc => by
    simp only [Spec.run, Spec.seqRun]
    rw [after_zero a hna hc]
  | k + 1, t, cells, a, s, hN, ho, hsh, hna, hc => by
    have hnp : a.next.order.Perm orig := next_order_perm a orig ho hsh
    have hl : a.next.order.length = a.order.length := by rw [hnp.length_eq, ho.length_eq]
    have hcs : a.order[a.curr]? = some a.order[a.curr] := List.getElem?_eq_getElem hc
    have hstep := step_async inner cells r t a s a.order[a.curr] (by omega) (ho.nodup_iff.2 hnd)
      (fun x hx => by rw [hN]; exact hlt x (ho.mem_iff.1 hx)) hcs hna (hnp.trans ho.symm)
    have h0 : a.cellAt (t - t) = a.order[a.curr] := by
      rw [Nat.sub_self]; exact cellAt_zero a _ hcs
    simp only [Spec.run, Spec.seqRun]
    rw [hstep, h0]
    simp only
    have hnc : a.next.curr < a.next.order.length := by
      rw [hl]; simp only [AsyncSt.next]; exact Nat.mod_lt _ (by omega)
    rw [run_async inner r N orig hnd hlt hr k (t + 1) _ a.next _ (by simp [hN]) hnp
      (fun hr' o ho' => hsh hr' o (next_shuffles_mem a o ho')) rfl hnc]
    rw [after_succ a k hl]
    rw [seqRun_congr inner r (fun t' => a.next.cellAt (t' - (t + 1))) (fun t' => a.cellAt (t' - t)) k (t + 1)
      _ _ (fun t' h1 _ => by
        have : t' - t = (t' - (t + 1)) + 1 := by omega
        simp only [this]
        exact (cellAt_succ a _ hl).symm)]

theorem seqRun_length [Inhabited α] (inner : Rule1 σ α) (r : Nat) (f : Nat → Nat) :
    ∀ (k t : Nat) (cells : List α) (s : σ), (Spec.seqRun inner r f k t cells s).1.length = k
  | 0, _, _, _ => rfl
  | k + 1, t, cells, s => by
    simp only [Spec.seqRun, List.length_cons]
    rw [seqRun_length inner r f k]

/-- Row `i` of a sequential run differs from row `i - 1` exactly as described: it is row `i - 1`
    with cell `sched (t + i)` overwritten by a value of the rule on that row (`rows` includes the start). -/
theorem seqRun_rows [Inhabited α] (inner : Rule1 σ α) (r : Nat) (f : Nat → Nat) :
    ∀ (k t : Nat) (cells : List α) (s : σ) (i : Nat), i < k →
      ∃ s', (cells :: (Spec.seqRun inner r f k t cells s).1)[i + 1]!
        = ((cells :: (Spec.seqRun inner r f k t cells s).1)[i]!).set (f (t + i))
            (inner s' (Spec.window ((cells :: (Spec.seqRun inner r f k t cells s).1)[i]!) r (f (t + i)))
              (f (t + i)) (t + i)).1
  | 0, _, _, _, _, h => by omega
  | k + 1, t, cells, s, 0, _ => by
    refine ⟨s, ?_⟩
    simp [Spec.seqRun]
  | k + 1, t, cells, s, i + 1, h => by
    obtain ⟨s', hs'⟩ := seqRun_rows inner r f k (t + 1) (cells.set (f t) (inner s (Spec.window cells r (f t)) (f t) t).1)
      (inner s (Spec.window cells r (f t)) (f t) t).2 i (by omega)
    refine ⟨s', ?_⟩
    have e : t + (i + 1) = t + 1 + i := by omega
    simp only [Spec.seqRun, e]
    simpa using hs'

/-- A cell that is never scheduled keeps its initial value in every row. -/
theorem seqRun_unscheduled [Inhabited α] (inner : Rule1 σ α) (r : Nat) (f : Nat → Nat) (x : Nat) :
    ∀ (k t : Nat) (cells : List α) (s : σ), (∀ t', t ≤ t' → t' < t + k → f t' ≠ x) →
      ∀ row ∈ (Spec.seqRun inner r f k t cells s).1, row[x]? = cells[x]?
  | 0, _, _, _, _ => by simp [Spec.seqRun]
  | k + 1, t, cells, s, h => by
    intro row hrow
    simp only [Spec.seqRun, List.mem_cons] at hrow
    have hset : (cells.set (f t) (inner s (Spec.window cells r (f t)) (f t) t).1)[x]? = cells[x]? := by
      rw [List.getElem?_set]
      simp [h t (Nat.le_refl _) (by omega)]
    rcases hrow with rfl | hrow
    · exact hset
    · rw [seqRun_unscheduled inner r f x k (t + 1) _ _ (fun t' h1 h2 => h t' (by omega) (by omega)) row hrow]
      exact hset

theorem seqRun_row_length [Inhabited α] (inner : Rule1 σ α) (r : Nat) (f : Nat → Nat) :
    ∀ (k t : Nat) (cells : List α) (s : σ), ∀ row ∈ (Spec.seqRun inner r f k t cells s).1,
      row.length = cells.length
  | 0, _, _, _ => by simp [Spec.seqRun]
  | k + 1, t, cells, s => by
    intro row hrow
    simp only [Spec.seqRun, List.mem_cons] at hrow
    rcases hrow with rfl | hrow
    · simp
    · rw [seqRun_row_length inner r f k (t + 1) _ _ row hrow]; simp

end oneD

/-! ## 2D: the pass of `Spec.step2` over `asyncRule2` -/

section twoD
variable {σ α : Type}

theorem nbhd_length [Inhabited α] (g : Grid α) (R C r : Nat) (vn : Bool) (row col : Nat) :
    (Spec.nbhd g R C r vn row col).length = 2 * r + 1 := by
  simp [Spec.nbhd]

/-- What `asyncRule2` reads as the cell's current value. -/
def centreVal [Inhabited α] (n : Nbhd2 α) : α :=
  ((n[n.length / 2]!)[(n[n.length / 2]!).length / 2]!).getD default

theorem centreVal_nbhd [Inhabited α] (g : Grid α) (R C r : Nat) (vn : Bool) (row col : Nat)
    (hR : r ≤ R) (hC : r ≤ C) (hrow : row < R) (hcol : col < C) :
    centreVal (Spec.nbhd g R C r vn row col) = (g[row]!)[col]! := by
  have h := C02.nbhd_centre g R C r vn row col hR hC hrow hcol
  unfold centreVal
  rw [nbhd_length]
  have hr : (2 * r + 1) / 2 = r := by omega
  rw [hr]
  have hlt : r < (Spec.nbhd g R C r vn row col).length := by rw [nbhd_length]; omega
  rw [List.getElem?_eq_getElem hlt] at h
  simp only [Option.bind_some] at h
  rw [getElem!_pos _ r hlt]
  have hlen : ((Spec.nbhd g R C r vn row col)[r]).length = 2 * r + 1 := by
    simp [Spec.nbhd]
  rw [hlen, hr, List.getElem!_eq_getElem?_getD, h]
  rfl

theorem cellVals_async [Inhabited α] (inner : Rule2 σ α) (g : Grid α) (R C r : Nat) (vn : Bool) (t : Nat) :
    ∀ (cs : List (Nat × Nat)) (a : AsyncSt (Nat × Nat)) (s : σ),
      Spec.cellVals (asyncRule2 inner) g R C r vn t cs (a, s)
        = asyncSweep (fun s c => inner s (Spec.nbhd g R C r vn c.1 c.2) c t)
            (fun c => centreVal (Spec.nbhd g R C r vn c.1 c.2)) cs (a, s)
  | [], _, _ => rfl
  | (i, j) :: cs, a, s => by
    simp only [Spec.cellVals, asyncSweep, asyncRule2]
    cases h : (a.call (i, j)).1
    · simp only [Bool.false_eq_true, if_false]
      rw [cellVals_async inner g R C r vn t cs]
      rfl
    · simp only [if_true]
      rw [cellVals_async inner g R C r vn t cs]

/-- One step of the wrapped 2D rule in terms of `AsyncSt.next` (both `randomize` settings). -/
theorem step2_async [Inhabited α] (inner : Rule2 σ α) (g : Grid α) (R C r : Nat) (vn : Bool) (t : Nat)
    (a : AsyncSt (Nat × Nat)) (s : σ) (c : Nat × Nat) (hR : r ≤ R) (hC : r ≤ C) (hnd : a.order.Nodup)
    (hin : ∀ x ∈ a.order, x ∈ cellsRowMajor R C) (hc : a.order[a.curr]? = some c) (hna : a.numApplied = 0)
    (hperm : a.next.order.Perm a.order) :
    Spec.step2 (asyncRule2 inner) g R C r vn t (a, s)
      = ((List.range R).map (fun i => (List.range C).map fun j =>
            if (i, j) = c then (inner s (Spec.nbhd g R C r vn c.1 c.2) c t).1 else (g[i]!)[j]!),
         (a.next, (inner s (Spec.nbhd g R C r vn c.1 c.2) c t).2)) := by
  unfold Spec.step2
  rw [cellVals_async,
    asyncSweep_pass _ _ a c s (cellsRowMajor R C) (cellsRowMajor_nodup R C) hnd hin hc hna hperm]
  simp only
  congr 1
  apply List.map_congr_left
  intro i hi
  apply List.map_congr_left
  intro j hj
  have hi' : i < R := List.mem_range.1 hi
  have hj' : j < C := List.mem_range.1 hj
  rw [List.getElem!_eq_getElem?_getD, List.getElem?_map, cellsRowMajor_getElem? R C i j hi' hj']
  simp only [Option.map_some, Option.getD_some]
  by_cases h : (i, j) = c
  · simp [h]
  · simp only [h, if_false]
    exact centreVal_nbhd g R C r vn i j hR hC hi' hj'

namespace Spec

/-- Sequential 2D evolution: at step number `t` only the cell `sched t` is replaced, by the value the
    rule returns for its current torus neighbourhood; every other cell is copied. -/
def seqRun2 [Inhabited α] (inner : Rule2 σ α) (R C r : Nat) (vn : Bool) (sched : Nat → Nat × Nat) :
    (k t : Nat) → Grid α → σ → List (Grid α) × σ
  | 0, _, _, s => ([], s)
  | k + 1, t, g, s =>
    let res := inner s (nbhd g R C r vn (sched t).1 (sched t).2) (sched t) t
    let g' : Grid α := (List.range R).map fun i => (List.range C).map fun j =>
      if (i, j) = sched t then res.1 else (g[i]!)[j]!
    let rest := seqRun2 inner R C r vn sched k (t + 1) g' res.2
    (g' :: rest.1, rest.2)

end Spec

theorem seqRun2_congr [Inhabited α] (inner : Rule2 σ α) (R C r : Nat) (vn : Bool) (f g : Nat → Nat × Nat) :
    ∀ (k t : Nat) (gr : Grid α) (s : σ), (∀ t', t ≤ t' → t' < t + k → f t' = g t') →
      Spec.seqRun2 inner R C r vn f k t gr s = Spec.seqRun2 inner R C r vn g k t gr s
  | 0, _, _, _, _ => rfl
  | k + 1, t, gr, s, h => by
    simp only [Spec.seqRun2]
    rw [h t (Nat.le_refl _) (by omega)]
    rw [seqRun2_congr inner R C r vn f g k (t + 1) _ _ (fun t' h1 h2 => h t' (by omega) (by omega))]

/-- **The whole 2D run** of a wrapped rule is the sequential evolution along the schedule
    `t' ↦ a.cellAt (t' - t)`; the bookkeeping ends in `a.after k`. -/
theorem run2_async [Inhabited α] (inner : Rule2 σ α) (R C r : Nat) (vn : Bool) (orig : List (Nat × Nat))
    (hnd : orig.Nodup) (hin : ∀ x ∈ orig, x ∈ cellsRowMajor R C) (hR : r ≤ R) (hC : r ≤ C) :
    ∀ (k t : Nat) (g : Grid α) (a : AsyncSt (Nat × Nat)) (s : σ), a.order.Perm orig →
      (a.randomize = true → ∀ o ∈ a.shuffles, o.Perm orig) → a.numApplied = 0 → a.curr < a.order.length →
      Spec.run2 (asyncRule2 inner) R C r vn k t g (a, s)
        = ((Spec.seqRun2 inner R C r vn (fun t' => a.cellAt (t' - t)) k t g s).1,
           (a.after k, (Spec.seqRun2 inner R C r vn (fun t' => a.cellAt (t' - t)) k t g s).2))
  | 0, t, g, a, s, _, _, hna, hc => by
    simp only [Spec.run2, Spec.seqRun2]
    rw [after_zero a hna hc]
  | k + 1, t, g, a, s, ho, hsh, hna, hc => by
    have hnp : a.next.order.Perm orig := next_order_perm a orig ho hsh
    have hl : a.next.order.length = a.order.length := by rw [hnp.length_eq, ho.length_eq]
    have hcs : a.order[a.curr]? = some a.order[a.curr] := List.getElem?_eq_getElem hc
    have hstep := step2_async inner g R C r vn t a s a.order[a.curr] hR hC (ho.nodup_iff.2 hnd)
      (fun x hx => hin x (ho.mem_iff.1 hx)) hcs hna (hnp.trans ho.symm)
    have h0 : a.cellAt (t - t) = a.order[a.curr] := by
      rw [Nat.sub_self]; exact cellAt_zero a _ hcs
    simp only [Spec.run2, Spec.seqRun2]
    rw [hstep, h0]
    simp only
    have hnc : a.next.curr < a.next.order.length := by
      rw [hl]; simp only [AsyncSt.next]; exact Nat.mod_lt _ (by omega)
    rw [run2_async inner R C r vn orig hnd hin hR hC k (t + 1) _ a.next _ hnp
      (fun hr' o ho' => hsh hr' o (next_shuffles_mem a o ho')) rfl hnc]
    rw [after_succ a k hl]
    rw [seqRun2_congr inner R C r vn (fun t' => a.next.cellAt (t' - (t + 1))) (fun t' => a.cellAt (t' - t))
      k (t + 1) _ _ (fun t' h1 _ => by
        have : t' - t = (t' - (t + 1)) + 1 := by omega
        simp only [this]
        exact (cellAt_succ a _ hl).symm)]

end twoD

/-! ## Test rules for the concrete instances in `C12` -/

/-- A stateful test rule: value = sum of the window + step number; the state counts the invocations. -/
def probe : Rule1 Nat Nat := fun s n _ t => (n.foldl (· + ·) 0 + t, s + 1)
/-- 2D analogue (masked cells are skipped). -/
def probe2 : Rule2 Nat Nat := fun s n _ t => ((n.flatten.filterMap id).foldl (· + ·) 0 + t, s + 1)

end Cpl
