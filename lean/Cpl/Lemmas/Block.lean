import Cpl.Model.Block

/-! # Helper lemmas about the block evolvers (C10, C05).
Core Lean only (no Mathlib import). Everything lives in `Cpl.Block` to avoid clashes with the other lemma files. -/

namespace Cpl.Block
open Py

section chunks
variable {α : Type}

/-- Number of chunks when the block size divides the length. -/
theorem chunk_count (b q : Nat) (hb : 1 ≤ b) : (q * b + b - 1) / b = q := by
  have h : q * b + b - 1 = b * q + (b - 1) := by rw [Nat.mul_comm]; omega
  rw [h, Nat.mul_add_div (by omega), Nat.div_eq_of_lt (by omega)]; rfl

/-- The chunks of a list of length `q * b` whose `i`-th element is `f i`. -/
theorem chunks_eq (b q : Nat) (hb : 1 ≤ b) (l : List α) (f : Nat → α) (hl : l.length = q * b)
    (hf : ∀ i (h : i < l.length), l[i] = f i) :
    chunks b l = (List.range q).map fun k => (List.range b).map fun j => f (k * b + j) := by
  unfold chunks
  rw [hl, chunk_count b q hb]
  apply List.map_congr_left
  intro k hk
  have hk' : k < q := List.mem_range.mp hk
  have hle : k * b + b ≤ q * b := by
    have : (k + 1) * b ≤ q * b := Nat.mul_le_mul_right b hk'
    rw [Nat.add_mul] at this; omega
  apply List.ext_getElem
  · simp; omega
  · intro j h1 h2
    simp at h1 h2
    simp [hf]

/-- Blocks `[g (k*b + j) | j < b]`, `k < q`, concatenate to `[g i | i < q*b]`. -/
theorem flatten_blocks (g : Nat → α) (q b : Nat) :
    ((List.range q).map fun k => (List.range b).map fun j => g (k * b + j)).flatten
      = (List.range (q * b)).map g := by
  induction q with
  | zero => simp
  | succ q ih =>
    rw [List.range_succ, List.map_append, List.flatten_append, ih, Nat.add_mul, Nat.one_mul,
      List.range_add]
    simp [List.map_map, Function.comp_def]

end chunks

theorem blockIndicesOdd_eq (N b : Nat) (hb : 1 ≤ b) (hdiv : N % b = 0) :
    blockIndicesOdd N b = (List.range (N / b)).map fun k => (List.range b).map fun j => k * b + j := by
  unfold blockIndicesOdd
  have hN : N = N / b * b := by
    have := Nat.div_add_mod N b; rw [hdiv, Nat.mul_comm] at this; omega
  exact chunks_eq b (N / b) hb (List.range N) (fun i => i) (by simpa using hN) (by simp)

theorem rotated_cons (n : Nat) :
    ((List.range (n + 1)).getLast?.toList ++ (List.range (n + 1)).dropLast) = n :: List.range n := by
  rw [List.range_succ]
  simp only [List.getLast?_append, List.getLast?_singleton, Option.some_or, Option.toList_some,
    List.dropLast_concat]
  rfl

/-- The rotated index list `[N-1, 0, 1, …, N-2]`. -/
theorem rotated_eq (N : Nat) :
    ((List.range N).getLast?.toList ++ (List.range N).dropLast)
      = (List.range N).map fun i => (i + N - 1) % N := by
  cases N with
  | zero => simp
  | succ n =>
    rw [rotated_cons]
    apply List.ext_getElem
    · simp
    · intro i h1 h2
      simp at h1
      cases i with
      | zero => simp
      | succ i =>
        simp
        have : i + 1 + n = i + (n + 1) := by omega
        rw [this, Nat.add_mod_right, Nat.mod_eq_of_lt (by omega)]

theorem blockIndicesEven_eq (N b : Nat) (hb : 1 ≤ b) (hdiv : N % b = 0) :
    blockIndicesEven N b
      = (List.range (N / b)).map fun k => (List.range b).map fun j => (k * b + j + N - 1) % N := by
  unfold blockIndicesEven
  have hN : N = N / b * b := by
    have := Nat.div_add_mod N b; rw [hdiv, Nat.mul_comm] at this; omega
  simp only [rotated_eq]
  exact chunks_eq b (N / b) hb _ (fun i => (i + N - 1) % N) (by simpa using hN) (by simp)

theorem rotated_perm (N : Nat) : ((List.range N).map fun i => (i + N - 1) % N).Perm (List.range N) := by
  rw [← rotated_eq]
  cases N with
  | zero => simp
  | succ n =>
    rw [rotated_cons, List.range_succ]
    exact List.perm_append_comm (l₁ := [n])

theorem blockIndicesOdd_flatten (N b : Nat) (hb : 1 ≤ b) (hdiv : N % b = 0) :
    (blockIndicesOdd N b).flatten = List.range N := by
  have hN : N / b * b = N := by
    have := Nat.div_add_mod N b; rw [hdiv, Nat.mul_comm] at this; omega
  rw [blockIndicesOdd_eq N b hb hdiv, flatten_blocks (fun i => i), hN]; simp

theorem blockIndicesEven_flatten (N b : Nat) (hb : 1 ≤ b) (hdiv : N % b = 0) :
    (blockIndicesEven N b).flatten = (List.range N).map fun i => (i + N - 1) % N := by
  have hN : N / b * b = N := by
    have := Nat.div_add_mod N b; rw [hdiv, Nat.mul_comm] at this; omega
  rw [blockIndicesEven_eq N b hb hdiv, flatten_blocks (fun i => (i + N - 1) % N), hN]

section writes
variable {σ α : Type}

@[simp] theorem length_writeZip (arr : List α) (idx : List Nat) (vals : List α) :
    (writeZip arr idx vals).length = arr.length := by
  induction idx generalizing arr vals with
  | nil => simp [writeZip]
  | cons i is ih =>
    cases vals with
    | nil => simp [writeZip]
    | cons v vs => simp [writeZip, ih]

theorem writeZip_append (arr : List α) (is1 is2 : List Nat) (vs1 vs2 : List α)
    (h : vs1.length = is1.length) :
    writeZip arr (is1 ++ is2) (vs1 ++ vs2) = writeZip (writeZip arr is1 vs1) is2 vs2 := by
  induction is1 generalizing arr vs1 with
  | nil =>
    have : vs1 = [] := List.length_eq_zero_iff.mp (by simpa using h)
    subst this
    cases is2 <;> cases vs2 <;> simp [writeZip]
  | cons i is ih =>
    cases vs1 with
    | nil => simp at h
    | cons v vs =>
      simp only [List.cons_append, writeZip]
      exact ih _ _ (by simpa using h)

/-- Writes along `idx` never touch an index outside `idx`. -/
theorem writeZip_getElem?_of_not_mem (arr : List α) (idx : List Nat) (vals : List α) (i : Nat)
    (hi : i ∉ idx) : (writeZip arr idx vals)[i]? = arr[i]? := by
  induction idx generalizing arr vals with
  | nil => simp [writeZip]
  | cons j js ih =>
    cases vals with
    | nil => simp [writeZip]
    | cons v vs =>
      simp only [writeZip]
      rw [ih _ _ (fun h => hi (List.mem_cons_of_mem _ h))]
      exact List.getElem?_set_ne (fun h => hi (by subst h; exact List.mem_cons_self))

/-- Sequential `arr[i] = v` along a duplicate-free index list: reading back along the index list
    returns the written values. -/
theorem map_writeZip [Inhabited α] (idx : List Nat) (hnd : idx.Nodup) (arr vals : List α)
    (hl : vals.length = idx.length) (hlt : ∀ i ∈ idx, i < arr.length) :
    idx.map (fun i => (writeZip arr idx vals)[i]!) = vals := by
  induction idx generalizing arr vals with
  | nil =>
    have : vals = [] := List.length_eq_zero_iff.mp (by simpa using hl)
    simp [this]
  | cons i is ih =>
    cases vals with
    | nil => simp at hl
    | cons v vs =>
      have hnd' := List.nodup_cons.mp hnd
      simp only [writeZip, List.map_cons]
      congr 1
      · rw [List.getElem!_eq_getElem?_getD, writeZip_getElem?_of_not_mem _ _ _ _ hnd'.1,
          List.getElem?_set_self (hlt i (by simp))]
        rfl
      · exact ih hnd'.2 _ _ (by simpa using hl)
          (fun j hj => by simpa using hlt j (List.mem_cons_of_mem _ hj))

/-- Scatter along a permutation of `0 .. N-1`: length, read-back, and `Perm` with the values. -/
theorem scatter_spec [Inhabited α] (N : Nat) (p : List Nat) (hp : p.Perm (List.range N))
    (arr vals : List α) (harr : arr.length = N) (hv : vals.length = p.length) :
    (writeZip arr p vals).length = N ∧
    p.map (fun i => (writeZip arr p vals)[i]!) = vals ∧
    (writeZip arr p vals).Perm vals := by
  have hnd : p.Nodup := hp.nodup_iff.mpr List.nodup_range
  have hlt : ∀ i ∈ p, i < arr.length := fun i hi => by
    rw [harr]; exact List.mem_range.mp (hp.mem_iff.mp hi)
  have hmap := map_writeZip p hnd arr vals hv hlt
  refine ⟨by simp [harr], hmap, ?_⟩
  have hout : (List.range N).map (fun i => (writeZip arr p vals)[i]!) = writeZip arr p vals := by
    apply List.ext_getElem
    · simp [harr]
    · intro i h1 h2
      simp at h1 h2
      simp [h2]
  rw [← hout]
  conv => rhs; rw [← hmap]
  exact (hp.map _).symm

/-- Gathering along a permutation of `0 .. N-1` is a permutation of the list. -/
theorem gather_perm [Inhabited α] (p : List Nat) (cells : List α) (hp : p.Perm (List.range cells.length)) :
    (p.map fun i => cells[i]!).Perm cells := by
  have hout : (List.range cells.length).map (fun i => cells[i]!) = cells := by
    apply List.ext_getElem
    · simp
    · intro i h1 h2
      simp at h1
      simp [h1]
  conv => rhs; rw [← hout]
  exact hp.map _

/-- Two lists agreeing at all indices of a permutation of `0 .. N-1` are equal. -/
theorem eq_of_gather_eq [Inhabited α] (N : Nat) (p : List Nat) (hp : p.Perm (List.range N)) (l1 l2 : List α)
    (h1 : l1.length = N) (h2 : l2.length = N)
    (h : p.map (fun i => l1[i]!) = p.map (fun i => l2[i]!)) : l1 = l2 := by
  apply List.ext_getElem (by omega)
  intro i hi1 hi2
  have hmem : i ∈ p := hp.mem_iff.mpr (List.mem_range.mpr (by omega))
  have := List.map_inj_left.mp h i hmem
  simpa [hi1, hi2] using this

/-- Lists of lists with the same block lengths and the same concatenation are equal. -/
theorem eq_of_flatten_eq {β : Type} : ∀ (L1 L2 : List (List β)),
    L1.map List.length = L2.map List.length → L1.flatten = L2.flatten → L1 = L2
  | [], [], _, _ => rfl
  | [], _ :: _, h, _ => by simp at h
  | _ :: _, [], h, _ => by simp at h
  | a :: L1, c :: L2, h, hf => by
    simp only [List.map_cons, List.cons.injEq] at h
    simp only [List.flatten_cons] at hf
    have := List.append_inj hf h.1
    rw [this.1, eq_of_flatten_eq L1 L2 h.2 this.2]

end writes

section sweep
variable {σ α : Type}

/-- The rule consulted once per block, in block order (state threaded); results in block order.
    (Twin of `C10.blockResults`.) -/
def sweepResults [Inhabited α] (rule : BlockRule1 σ α) (cells : List α) (t : Nat) :
    List (List Nat) → σ → List (List α) × σ
  | [], s => ([], s)
  | stride :: rest, s =>
    let (res, s1) := rule s (stride.map fun i => cells[i]!) t
    let (rs, s2) := sweepResults rule cells t rest s1
    (res :: rs, s2)

/-- The partition used at step `t`. (Twin of `C10.stridesAt`.) -/
def stepStrides (N b t : Nat) : List (List Nat) :=
  if t % 2 = 0 then blockIndicesEven N b else blockIndicesOdd N b

theorem sweepResults_lengths [Inhabited α] (rule : BlockRule1 σ α) (cells : List α) (t : Nat)
    (strides : List (List Nat)) (s : σ)
    (hres : ∀ s', ∀ stride ∈ strides, (rule s' (stride.map fun i => cells[i]!) t).1.length = stride.length) :
    (sweepResults rule cells t strides s).1.map List.length = strides.map List.length := by
  induction strides generalizing s with
  | nil => simp [sweepResults]
  | cons st rest ih =>
    simp only [sweepResults, List.map_cons]
    rw [ih _ (fun s' x hx => hres s' x (List.mem_cons_of_mem _ hx)), hres s st List.mem_cons_self]

/-- The sweep is a single scatter of the concatenated results along the concatenated partition. -/
theorem blockSweep1_eq [Inhabited α] (rule : BlockRule1 σ α) (cells : List α) (t : Nat)
    (strides : List (List Nat)) (arr : List α) (s : σ)
    (hres : ∀ s', ∀ stride ∈ strides, (rule s' (stride.map fun i => cells[i]!) t).1.length = stride.length) :
    blockSweep1 rule cells t strides arr s
      = (writeZip arr strides.flatten (sweepResults rule cells t strides s).1.flatten,
         (sweepResults rule cells t strides s).2) := by
  induction strides generalizing arr s with
  | nil => simp [blockSweep1, sweepResults, writeZip]
  | cons st rest ih =>
    simp only [blockSweep1, sweepResults, List.flatten_cons]
    rw [ih _ _ (fun s' x hx => hres s' x (List.mem_cons_of_mem _ hx)),
      writeZip_append _ _ _ _ _ (hres s st List.mem_cons_self)]

/-- Blockwise permutation lifts to the concatenation. -/
theorem sweepResults_perm [Inhabited α] (rule : BlockRule1 σ α) (cells : List α) (t : Nat)
    (strides : List (List Nat)) (s : σ)
    (hperm : ∀ s' blk t', (rule s' blk t').1.Perm blk) :
    (sweepResults rule cells t strides s).1.flatten.Perm (strides.flatten.map fun i => cells[i]!) := by
  induction strides generalizing s with
  | nil => simp [sweepResults]
  | cons st rest ih =>
    simp only [sweepResults, List.flatten_cons, List.map_append]
    exact (hperm _ _ _).append (ih _)

theorem stepStrides_perm (N b t : Nat) (hb : 1 ≤ b) (hdiv : N % b = 0) :
    (stepStrides N b t).flatten.Perm (List.range N) := by
  unfold stepStrides
  split
  · rw [blockIndicesEven_flatten N b hb hdiv]; exact rotated_perm N
  · rw [blockIndicesOdd_flatten N b hb hdiv]

theorem stepStrides_length (N b t : Nat) (hb : 1 ≤ b) (hdiv : N % b = 0) :
    ∀ st ∈ stepStrides N b t, st.length = b := by
  unfold stepStrides
  split
  · rw [blockIndicesEven_eq N b hb hdiv]; intro st hst; simp at hst; obtain ⟨k, _, rfl⟩ := hst; simp
  · rw [blockIndicesOdd_eq N b hb hdiv]; intro st hst; simp at hst; obtain ⟨k, _, rfl⟩ := hst; simp

/-- One block step, as a scatter: final state, length, blockwise read-back and `Perm` with the results
    (result lengths only required on the blocks actually met). -/
theorem blockStep1_eq' [Inhabited α] (rule : BlockRule1 σ α) (b : Nat) (cells : List α) (t : Nat) (s : σ)
    (hb : 1 ≤ b) (hdiv : cells.length % b = 0)
    (hres' : ∀ s', ∀ stride ∈ stepStrides cells.length b t,
      (rule s' (stride.map fun i => cells[i]!) t).1.length = stride.length) :
    (blockStep1 rule b cells t s).2 = (sweepResults rule cells t (stepStrides cells.length b t) s).2 ∧
    (blockStep1 rule b cells t s).1.length = cells.length ∧
    (stepStrides cells.length b t).map (fun st => st.map fun i => (blockStep1 rule b cells t s).1[i]!)
      = (sweepResults rule cells t (stepStrides cells.length b t) s).1 ∧
    (blockStep1 rule b cells t s).1.Perm (sweepResults rule cells t (stepStrides cells.length b t) s).1.flatten := by
  have hstep : blockStep1 rule b cells t s
      = blockSweep1 rule cells t (stepStrides cells.length b t) (List.replicate cells.length default) s := rfl
  rw [hstep, blockSweep1_eq _ _ _ _ _ _ hres']
  have hls := sweepResults_lengths rule cells t _ s hres'
  have hv : (sweepResults rule cells t (stepStrides cells.length b t) s).1.flatten.length
      = (stepStrides cells.length b t).flatten.length := by
    simp only [List.length_flatten, hls]
  obtain ⟨h1, h2, h3⟩ := scatter_spec cells.length _ (stepStrides_perm cells.length b t hb hdiv)
    (List.replicate cells.length (default : α)) _ (by simp) hv
  refine ⟨rfl, h1, ?_, h3⟩
  apply eq_of_flatten_eq
  · rw [hls]; simp [List.map_map, Function.comp_def]
  · exact List.map_flatten.symm.trans h2

theorem blockStep1_eq [Inhabited α] (rule : BlockRule1 σ α) (b : Nat) (cells : List α) (t : Nat) (s : σ)
    (hb : 1 ≤ b) (hdiv : cells.length % b = 0)
    (hres : ∀ s' blk, blk.length = b → (rule s' blk t).1.length = b) :
    (blockStep1 rule b cells t s).2 = (sweepResults rule cells t (stepStrides cells.length b t) s).2 ∧
    (blockStep1 rule b cells t s).1.length = cells.length ∧
    (stepStrides cells.length b t).map (fun st => st.map fun i => (blockStep1 rule b cells t s).1[i]!)
      = (sweepResults rule cells t (stepStrides cells.length b t) s).1 ∧
    (blockStep1 rule b cells t s).1.Perm (sweepResults rule cells t (stepStrides cells.length b t) s).1.flatten := by
  have hlen := stepStrides_length cells.length b t hb hdiv
  apply blockStep1_eq' rule b cells t s hb hdiv
  intro s' st hst
  rw [hres s' _ (by simp [hlen st hst]), hlen st hst]

end sweep

section laws
variable {σ α : Type}

/-- Conservation: a rule that permutes inside blocks conserves the multiset of states. -/
theorem blockStep1_perm [Inhabited α] (rule : BlockRule1 σ α) (b : Nat) (cells : List α) (t : Nat) (s : σ)
    (hb : 1 ≤ b) (hdiv : cells.length % b = 0)
    (hperm : ∀ s' blk t', (rule s' blk t').1.Perm blk) :
    (blockStep1 rule b cells t s).1.Perm cells := by
  obtain ⟨_, _, _, h⟩ := blockStep1_eq rule b cells t s hb hdiv
    (fun s' blk hl => by rw [(hperm s' blk t).length_eq, hl])
  exact h.trans ((sweepResults_perm rule cells t _ s hperm).trans
    (gather_perm _ cells (stepStrides_perm cells.length b t hb hdiv)))

theorem sweepResults_unit [Inhabited α] (h : List α → Nat → List α) (cells : List α) (t : Nat)
    (strides : List (List Nat)) :
    sweepResults (fun (u : Unit) blk t' => (h blk t', u)) cells t strides ()
      = (strides.map fun st => h (st.map fun i => cells[i]!) t, ()) := by
  induction strides with
  | nil => rfl
  | cons st rest ih => simp only [sweepResults, ih, List.map_cons]

/-- Reversibility of one block step. -/
theorem blockStep1_reversible [Inhabited α] (f g : List α → Nat → List α) (b : Nat) (cells : List α) (t : Nat)
    (hb : 1 ≤ b) (hdiv : cells.length % b = 0)
    (hf : ∀ blk t', blk.length = b → (f blk t').length = b)
    (hgf : ∀ blk t', blk.length = b → g (f blk t') t' = blk) :
    (blockStep1 (fun (u : Unit) blk t' => (g blk t', u)) b
        (blockStep1 (fun (u : Unit) blk t' => (f blk t', u)) b cells t ()).1 t ()).1 = cells := by
  have hlenS := stepStrides_length cells.length b t hb hdiv
  obtain ⟨_, hl1, hr1, _⟩ := blockStep1_eq (fun (u : Unit) blk t' => (f blk t', u)) b cells t () hb hdiv
    (fun _ blk hl => hf blk t hl)
  generalize (blockStep1 (fun (u : Unit) blk t' => (f blk t', u)) b cells t ()).1 = out1 at *
  rw [sweepResults_unit] at hr1
  have hr1' := List.map_inj_left.mp hr1
  have hdiv1 : out1.length % b = 0 := by rw [hl1]; exact hdiv
  have hblk : ∀ st ∈ stepStrides cells.length b t,
      g (st.map fun i => out1[i]!) t = st.map fun i => cells[i]! := by
    intro st hst
    rw [hr1' st hst]
    exact hgf _ t (by simp [hlenS st hst])
  obtain ⟨_, hl2, hr2, _⟩ := blockStep1_eq' (fun (u : Unit) blk t' => (g blk t', u)) b out1 t () hb hdiv1
    (by
      intro _ st hst
      rw [hl1] at hst
      simp only [hblk st hst, List.length_map])
  generalize (blockStep1 (fun (u : Unit) blk t' => (g blk t', u)) b out1 t ()).1 = out2 at *
  rw [sweepResults_unit, hl1] at hr2
  have hr2' : (stepStrides cells.length b t).map (fun st => st.map fun i => out2[i]!)
      = (stepStrides cells.length b t).map (fun st => st.map fun i => cells[i]!) := by
    rw [hr2]
    exact List.map_congr_left hblk
  have hflat := congrArg List.flatten hr2'
  rw [← List.map_flatten, ← List.map_flatten] at hflat
  exact eq_of_gather_eq cells.length _ (stepStrides_perm cells.length b t hb hdiv) out2 cells
    (by omega) rfl hflat

end laws

section loop
variable {σ α : Type}

theorem blockSweep1_length [Inhabited α] (rule : BlockRule1 σ α) (cells : List α) (t : Nat)
    (strides : List (List Nat)) (arr : List α) (s : σ) :
    (blockSweep1 rule cells t strides arr s).1.length = arr.length := by
  induction strides generalizing arr s with
  | nil => rfl
  | cons st rest ih => simp only [blockSweep1, ih, length_writeZip]

theorem blockStep1_length [Inhabited α] (rule : BlockRule1 σ α) (b : Nat) (cells : List α) (t : Nat) (s : σ) :
    (blockStep1 rule b cells t s).1.length = cells.length := by
  simp [blockStep1, blockSweep1_length]

theorem blockLoop1_length [Inhabited α] (rule : BlockRule1 σ α) (b k t : Nat) (cells : List α) (s : σ) :
    (blockLoop1 rule b k t cells s).1.length = k := by
  induction k generalizing t cells s with
  | zero => rfl
  | succ k ih => simp only [blockLoop1, List.length_cons, ih]

theorem blockLoop1_row_length [Inhabited α] (rule : BlockRule1 σ α) (b k t : Nat) (cells : List α) (s : σ) :
    ∀ row ∈ (blockLoop1 rule b k t cells s).1, row.length = cells.length := by
  induction k generalizing t cells s with
  | zero => intro row h; simp [blockLoop1] at h
  | succ k ih =>
    intro row h
    simp only [blockLoop1, List.mem_cons] at h
    rcases h with h | h
    · rw [h, blockStep1_length]
    · rw [ih _ _ _ row h, blockStep1_length]

/-- The loop composes. -/
theorem blockLoop1_add [Inhabited α] (rule : BlockRule1 σ α) (b k1 k2 t : Nat) (cells : List α) (s : σ) :
    blockLoop1 rule b (k1 + k2) t cells s
      = ((blockLoop1 rule b k1 t cells s).1
          ++ (blockLoop1 rule b k2 (t + k1) ((blockLoop1 rule b k1 t cells s).1.getLast?.getD cells)
              (blockLoop1 rule b k1 t cells s).2).1,
         (blockLoop1 rule b k2 (t + k1) ((blockLoop1 rule b k1 t cells s).1.getLast?.getD cells)
              (blockLoop1 rule b k1 t cells s).2).2) := by
  induction k1 generalizing t cells s with
  | zero => simp [blockLoop1]
  | succ k ih =>
    have h : k + 1 + k2 = (k + k2) + 1 := by omega
    rw [h]
    simp only [blockLoop1]
    rw [ih]
    have ht : t + 1 + k = t + (k + 1) := by omega
    rw [ht]
    simp only [List.cons_append, List.getLast?_cons, Option.getD_some]

theorem blockSweep1_timefree [Inhabited α] (rule : BlockRule1 σ α)
    (htf : ∀ s blk t t', rule s blk t = rule s blk t') (cells : List α) (t t' : Nat)
    (strides : List (List Nat)) (arr : List α) (s : σ) :
    blockSweep1 rule cells t strides arr s = blockSweep1 rule cells t' strides arr s := by
  induction strides generalizing arr s with
  | nil => rfl
  | cons st rest ih => simp only [blockSweep1]; rw [htf _ _ t t', ih]

/-- For a time-free rule a step depends on `t` through its parity only. -/
theorem blockStep1_parity [Inhabited α] (rule : BlockRule1 σ α)
    (htf : ∀ s blk t t', rule s blk t = rule s blk t') (b : Nat) (cells : List α) (t t' : Nat)
    (hpar : t % 2 = t' % 2) (s : σ) :
    blockStep1 rule b cells t s = blockStep1 rule b cells t' s := by
  simp only [blockStep1, hpar]
  exact blockSweep1_timefree rule htf _ _ _ _ _ _

theorem blockLoop1_parity [Inhabited α] (rule : BlockRule1 σ α)
    (htf : ∀ s blk t t', rule s blk t = rule s blk t') (b k : Nat) (cells : List α) (t t' : Nat)
    (hpar : t % 2 = t' % 2) (s : σ) :
    blockLoop1 rule b k t cells s = blockLoop1 rule b k t' cells s := by
  induction k generalizing t t' cells s with
  | zero => rfl
  | succ k ih =>
    simp only [blockLoop1]
    rw [blockStep1_parity rule htf b cells t t' hpar, ih _ (t + 1) (t' + 1) (by omega)]

end loop

section evolve
variable {σ α : Type}

theorem evolveBlock_ok [Inhabited α] (hist : List (List α)) (init : List α) (hlast : hist.getLast? = some init)
    (b T : Nat) (hb : 1 ≤ b) (hT : 1 ≤ T) (hdiv : init.length % b = 0) (rule : BlockRule1 σ α) (s : σ) :
    evolveBlock hist b T rule s
      = .ok (hist ++ (blockLoop1 rule b (T - 1) 1 init s).1, (blockLoop1 rule b (T - 1) 1 init s).2) := by
  unfold evolveBlock
  rw [hlast]
  simp only
  rw [if_neg (by omega), if_neg (by simp [hdiv]), if_neg (by omega)]

theorem evolveBlock_reject [Inhabited α] (hist : List (List α)) (init : List α) (hlast : hist.getLast? = some init)
    (b T : Nat) (hb : 1 ≤ b) (hdiv : init.length % b ≠ 0) (rule : BlockRule1 σ α) (s : σ) :
    evolveBlock hist b T rule s = .error .Exception := by
  unfold evolveBlock
  rw [hlast]
  simp only
  rw [if_neg (by omega), if_pos hdiv]

/-- Split law for odd `T1`. -/
theorem evolveBlock_split_odd' [Inhabited α] (rule : BlockRule1 σ α)
    (htf : ∀ s blk t t', rule s blk t = rule s blk t')
    (hist : List (List α)) (init : List α) (hlast : hist.getLast? = some init) (b T1 T2 : Nat) (hb : 1 ≤ b)
    (hdiv : init.length % b = 0) (hodd : T1 % 2 = 1) (hT2 : 1 ≤ T2)
    (s s1 : σ) (mid : List (List α)) (hmid : evolveBlock hist b T1 rule s = .ok (mid, s1)) :
    evolveBlock mid b T2 rule s1 = evolveBlock hist b (T1 + T2 - 1) rule s := by
  have hT1 : 1 ≤ T1 := by omega
  rw [evolveBlock_ok hist init hlast b T1 hb hT1 hdiv] at hmid
  injection hmid with hmid
  injection hmid with hm hs
  subst hm hs
  have hlastm : (hist ++ (blockLoop1 rule b (T1 - 1) 1 init s).1).getLast?
      = some ((blockLoop1 rule b (T1 - 1) 1 init s).1.getLast?.getD init) := by
    rw [List.getLast?_append, hlast]
    cases (blockLoop1 rule b (T1 - 1) 1 init s).1.getLast? <;> rfl
  have hlen : ((blockLoop1 rule b (T1 - 1) 1 init s).1.getLast?.getD init).length = init.length := by
    cases h : (blockLoop1 rule b (T1 - 1) 1 init s).1.getLast? with
    | none => rfl
    | some r => exact blockLoop1_row_length rule b _ _ init s r (List.mem_of_getLast? h)
  rw [evolveBlock_ok _ _ hlastm b T2 hb hT2 (by rw [hlen]; exact hdiv),
    evolveBlock_ok hist init hlast b (T1 + T2 - 1) hb (by omega) hdiv]
  have hk : T1 + T2 - 1 - 1 = (T1 - 1) + (T2 - 1) := by omega
  rw [hk, blockLoop1_add]
  have h1 : 1 + (T1 - 1) = T1 := by omega
  rw [h1, blockLoop1_parity rule htf b (T2 - 1) _ T1 1 (by omega), List.append_assoc]

end evolve

section twoD

theorem div_mul_of_mod (N b : Nat) (hdiv : N % b = 0) : N / b * b = N := by
  have := Nat.div_add_mod N b; rw [hdiv, Nat.mul_comm] at this; omega

theorem chunk_count' (N b : Nat) (hb : 1 ≤ b) (hdiv : N % b = 0) : (N + b - 1) / b = N / b := by
  have := chunk_count b (N / b) hb
  rwa [div_mul_of_mod N b hdiv] at this

theorem blockIndices2Odd_eq (R C b0 b1 : Nat) (h0 : 1 ≤ b0) (h1 : 1 ≤ b1) (hR : R % b0 = 0) (hC : C % b1 = 0) :
    blockIndices2Odd R C b0 b1
      = (List.range (R / b0)).flatMap (fun i => (List.range (C / b1)).map fun j =>
          ((List.range b0).map (i * b0 + ·), (List.range b1).map (j * b1 + ·))) := by
  unfold blockIndices2Odd
  rw [chunk_count' R b0 h0 hR, chunk_count' C b1 h1 hC]

theorem blockIndices2Even_eq (R C b0 b1 : Nat) (h0 : 1 ≤ b0) (h1 : 1 ≤ b1) (hR : R % b0 = 0) (hC : C % b1 = 0) :
    blockIndices2Even R C b0 b1
      = (List.range (R / b0)).flatMap (fun i => (List.range (C / b1)).map fun j =>
          ((List.range b0).map (fun a => (i * b0 + a + 1) % R), (List.range b1).map (fun a => (j * b1 + a + 1) % C))) := by
  unfold blockIndices2Even
  rw [blockIndices2Odd_eq R C b0 b1 h0 h1 hR hC]
  simp [List.map_flatMap, List.map_map, Function.comp_def]

/-- Cartesian product in row-major order. -/
def prodList (l1 l2 : List Nat) : List (Nat × Nat) := l1.flatMap fun i => l2.map fun j => (i, j)

theorem cellsRowMajor_eq (R C : Nat) : cellsRowMajor R C = prodList (List.range R) (List.range C) := rfl

theorem perm_flatMap_left {β γ : Type} (l : List β) (f g : β → List γ) (h : ∀ a ∈ l, (f a).Perm (g a)) :
    (l.flatMap f).Perm (l.flatMap g) := by
  induction l with
  | nil => simp
  | cons a l ih =>
    simp only [List.flatMap_cons]
    exact (h a List.mem_cons_self).append (ih fun x hx => h x (List.mem_cons_of_mem _ hx))

theorem prodList_perm {l1 l1' l2 l2' : List Nat} (h1 : l1.Perm l1') (h2 : l2.Perm l2') :
    (prodList l1 l2).Perm (prodList l1' l2') := by
  unfold prodList
  exact (perm_flatMap_left l1 _ _ fun a _ => h2.map _).trans (h1.flatMap_right _)

theorem prodList_append_right (l c1 c2 : List Nat) :
    (prodList l (c1 ++ c2)).Perm (prodList l c1 ++ prodList l c2) := by
  induction l with
  | nil => simp [prodList]
  | cons i l ih =>
    simp only [prodList, List.flatMap_cons, List.map_append] at ih ⊢
    rw [List.append_assoc, List.append_assoc]
    refine (List.perm_append_left_iff _).mpr ?_
    refine ((List.perm_append_left_iff _).mpr ih).trans ?_
    rw [← List.append_assoc, ← List.append_assoc]
    exact List.perm_append_comm.append_right _

theorem prodList_flatten_right (l : List Nat) (cb : List (List Nat)) :
    (cb.flatMap (prodList l)).Perm (prodList l cb.flatten) := by
  induction cb with
  | nil => simp [prodList]
  | cons c cb ih =>
    simp only [List.flatMap_cons, List.flatten_cons]
    exact ((List.perm_append_left_iff _).mpr ih).trans (prodList_append_right l c cb.flatten).symm

theorem prodList_flatten_left (rb : List (List Nat)) (c : List Nat) :
    rb.flatMap (fun ri => prodList ri c) = prodList rb.flatten c := by
  induction rb with
  | nil => simp [prodList]
  | cons r rb ih =>
    simp only [List.flatMap_cons, List.flatten_cons, ih]
    simp [prodList, List.flatMap_append]

/-- Tiles whose row blocks partition `0 .. R-1` and column blocks partition `0 .. C-1` cover the grid once. -/
theorem tiles_perm (rb cb : List (List Nat)) (R C : Nat)
    (hr : rb.flatten.Perm (List.range R)) (hc : cb.flatten.Perm (List.range C)) :
    (rb.flatMap fun ri => cb.flatMap fun ci => prodList ri ci).Perm (cellsRowMajor R C) := by
  rw [cellsRowMajor_eq]
  refine (perm_flatMap_left rb _ _ fun ri _ => prodList_flatten_right ri cb).trans ?_
  rw [prodList_flatten_left]
  exact prodList_perm hr hc

theorem tiles_flatMap (A B : Nat → List Nat) (qR qC : Nat) :
    ((List.range qR).flatMap fun i => (List.range qC).map fun j => (A i, B j)).flatMap
        (fun p => prodList p.1 p.2)
      = ((List.range qR).map A).flatMap fun ri => ((List.range qC).map B).flatMap fun ci => prodList ri ci := by
  simp [List.flatMap_assoc, List.flatMap_map]

/-- The cyclic shift by `+1` is a permutation of `0 .. R-1`. -/
theorem shift_perm (R : Nat) : ((List.range R).map fun x => (x + 1) % R).Perm (List.range R) := by
  cases R with
  | zero => simp
  | succ n =>
    have h : (List.range (n + 1)).map (fun x => (x + 1) % (n + 1)) = (List.range n).map Nat.succ ++ [0] := by
      rw [List.range_succ, List.map_append]
      congr 1
      · apply List.map_congr_left
        intro x hx
        have := List.mem_range.mp hx
        exact Nat.mod_eq_of_lt (by omega)
      · simp
    rw [h, List.range_succ_eq_map]
    exact List.perm_append_comm (l₂ := [0])

theorem blocks2_partition' (R C b0 b1 : Nat) (h0 : 1 ≤ b0) (h1 : 1 ≤ b1) (hR : R % b0 = 0) (hC : C % b1 = 0) :
    ((blockIndices2Odd R C b0 b1).flatMap fun p => prodList p.1 p.2).Perm (cellsRowMajor R C) ∧
    ((blockIndices2Even R C b0 b1).flatMap fun p => prodList p.1 p.2).Perm (cellsRowMajor R C) := by
  constructor
  · rw [blockIndices2Odd_eq R C b0 b1 h0 h1 hR hC,
      tiles_flatMap (fun i => (List.range b0).map (i * b0 + ·)) (fun j => (List.range b1).map (j * b1 + ·))]
    apply tiles_perm
    · rw [flatten_blocks (fun x => x), div_mul_of_mod R b0 hR]; simp
    · rw [flatten_blocks (fun x => x), div_mul_of_mod C b1 hC]; simp
  · rw [blockIndices2Even_eq R C b0 b1 h0 h1 hR hC,
      tiles_flatMap (fun i => (List.range b0).map (fun a => (i * b0 + a + 1) % R))
        (fun j => (List.range b1).map (fun a => (j * b1 + a + 1) % C))]
    apply tiles_perm
    · rw [flatten_blocks (fun x => (x + 1) % R), div_mul_of_mod R b0 hR]; exact shift_perm R
    · rw [flatten_blocks (fun x => (x + 1) % C), div_mul_of_mod C b1 hC]; exact shift_perm C

variable {σ α : Type}

theorem evolve2dBlock_reject' [Inhabited α] (hist : List (Grid α)) (init : Grid α) (hlast : hist.getLast? = some init)
    (b0 b1 T : Nat) (h0 : 1 ≤ b0) (h1 : 1 ≤ b1) (hT : 1 ≤ T) (rule : BlockRule2 σ α) (s : σ)
    (hnd : init.length % b0 ≠ 0 ∨ gridCols init % b1 ≠ 0) :
    evolve2dBlock hist b0 b1 T rule s = .error .Exception := by
  unfold evolve2dBlock
  rw [hlast]
  simp only
  rw [if_neg (by omega), if_neg (by omega), if_pos hnd]

end twoD

end Cpl.Block
