import Cpl.Model.Block

/-! # Helper lemmas about the block evolvers (C10, C05). -/

namespace Cpl
open Py

end Cpl
