import Cpl.Py
import Mathlib.Data.List.Induction

/-!
# Lemmas about `Py.baseDigits` (the digit model of `bin(n)[2:]` and `np.base_repr(n, k)`).
-/

namespace Py

theorem digitsAux_acc (k : Nat) : ∀ (fuel n : Nat) (acc : List Nat),
    digitsAux k fuel n acc = digitsAux k fuel n [] ++ acc := by
  intro fuel
  induction fuel with
  | zero => intro n acc; simp [digitsAux]
  | succ f ih =>
    intro n acc
    simp only [digitsAux]
    split
    · simp
    · rw [ih (n / k) (n % k :: acc), ih (n / k) [n % k]]; simp

theorem digitsAux_succ (k f n : Nat) :
    digitsAux k (f + 1) n [] =
      if n < k ∨ k < 2 then [n] else digitsAux k f (n / k) [] ++ [n % k] := by
  show (if n < k ∨ k < 2 then n :: [] else digitsAux k f (n / k) (n % k :: [])) = _
  split
  · rfl
  · rw [digitsAux_acc]

/-- With enough fuel the result does not depend on the fuel. -/
theorem digitsAux_indep (k : Nat) (hk : 2 ≤ k) : ∀ (f1 f2 m : Nat), m < f1 → m < f2 →
    digitsAux k f1 m [] = digitsAux k f2 m [] := by
  intro f1
  induction f1 with
  | zero => intro f2 m h; omega
  | succ f1 ih1 =>
    intro f2 m h1 h2'
    cases f2 with
    | zero => omega
    | succ f2 =>
      rw [digitsAux_succ, digitsAux_succ]
      by_cases hm : m < k ∨ k < 2
      · simp [hm]
      · simp only [hm, if_false]
        congr 1
        have : m / k < m := Nat.div_lt_self (by omega) (by omega)
        exact ih1 f2 (m / k) (by omega) (by omega)

/-- The defining recursion of `baseDigits`. -/
theorem baseDigits_rec (k n : Nat) (hk : 2 ≤ k) :
    baseDigits k n = if n < k then [n] else baseDigits k (n / k) ++ [n % k] := by
  unfold baseDigits
  rw [digitsAux_succ]
  by_cases hlt : n < k
  · simp [hlt]
  · have h2 : ¬ (n < k ∨ k < 2) := by omega
    rw [if_neg h2, if_neg hlt]
    congr 1
    have hdiv : n / k < n := Nat.div_lt_self (by omega) (by omega)
    exact digitsAux_indep k hk n (n / k + 1) (n / k) hdiv (by omega)

/-- Big-endian value of a digit list in base `k`. -/
def ofDigitsBE (k : Nat) (ds : List Nat) : Nat := ds.foldl (fun a d => k * a + d) 0

theorem ofDigitsBE_append_single (k : Nat) (ds : List Nat) (d : Nat) :
    ofDigitsBE k (ds ++ [d]) = k * ofDigitsBE k ds + d := by
  simp [ofDigitsBE, List.foldl_append]

theorem baseDigits_value (k : Nat) (hk : 2 ≤ k) : ∀ n, ofDigitsBE k (baseDigits k n) = n := by
  intro n
  induction n using Nat.strongRecOn with
  | _ n ih =>
    rw [baseDigits_rec k n hk]
    by_cases h : n < k
    · simp [h, ofDigitsBE]
    · simp only [h, if_false]
      rw [ofDigitsBE_append_single, ih (n / k) (Nat.div_lt_self (by omega) (by omega))]
      exact Nat.div_add_mod n k

theorem baseDigits_lt (k : Nat) (hk : 2 ≤ k) : ∀ n, ∀ d ∈ baseDigits k n, d < k := by
  intro n
  induction n using Nat.strongRecOn with
  | _ n ih =>
    rw [baseDigits_rec k n hk]
    by_cases h : n < k
    · simp [h]
    · simp only [h, if_false, List.mem_append, List.mem_singleton]
      rintro d (hd | rfl)
      · exact ih (n / k) (Nat.div_lt_self (by omega) (by omega)) d hd
      · exact Nat.mod_lt _ (by omega)

theorem baseDigits_length_pos (k n : Nat) (hk : 2 ≤ k) : 1 ≤ (baseDigits k n).length := by
  rw [baseDigits_rec k n hk]; split <;> simp

/-- `n < k^(number of digits)`. -/
theorem lt_pow_baseDigits_length (k : Nat) (hk : 2 ≤ k) : ∀ n, n < k ^ (baseDigits k n).length := by
  intro n
  induction n using Nat.strongRecOn with
  | _ n ih =>
    rw [baseDigits_rec k n hk]
    by_cases h : n < k
    · simp [h]
    · simp only [h, if_false, List.length_append, List.length_singleton]
      have := ih (n / k) (Nat.div_lt_self (by omega) (by omega))
      rw [Nat.pow_succ]
      calc n = k * (n / k) + n % k := (Nat.div_add_mod n k).symm
        _ < k * (n / k) + k := by have := Nat.mod_lt n (show 0 < k by omega); omega
        _ = k * (n / k + 1) := by rw [Nat.mul_add, Nat.mul_one]
        _ ≤ k * k ^ (baseDigits k (n / k)).length := Nat.mul_le_mul_left k this
        _ = k ^ (baseDigits k (n / k)).length * k := Nat.mul_comm _ _

/-- No leading zero: a number with more than one digit is at least `k^(digits-1)`. -/
theorem pow_le_of_baseDigits (k : Nat) (hk : 2 ≤ k) :
    ∀ n, 0 < n → k ^ ((baseDigits k n).length - 1) ≤ n := by
  intro n
  induction n using Nat.strongRecOn with
  | _ n ih =>
    intro hpos
    rw [baseDigits_rec k n hk]
    by_cases h : n < k
    · simp [h]; omega
    · simp only [h, if_false, List.length_append, List.length_singleton, Nat.add_sub_cancel]
      have hq : 0 < n / k := Nat.div_pos (by omega) (by omega)
      have := ih (n / k) (Nat.div_lt_self (by omega) (by omega)) hq
      have hl := baseDigits_length_pos k (n / k) hk
      have e : (baseDigits k (n / k)).length = ((baseDigits k (n / k)).length - 1) + 1 := by omega
      rw [e, Nat.pow_succ]
      calc k ^ ((baseDigits k (n / k)).length - 1) * k ≤ (n / k) * k := Nat.mul_le_mul_right k this
        _ ≤ n := Nat.div_mul_le_self n k

/-- The digit count is at most `d` exactly when the number is below `k^d` (for `d ≥ 1`). -/
theorem baseDigits_length_le_iff (k n d : Nat) (hk : 2 ≤ k) (hd : 1 ≤ d) :
    (baseDigits k n).length ≤ d ↔ n < k ^ d := by
  constructor
  · intro h
    exact Nat.lt_of_lt_of_le (lt_pow_baseDigits_length k hk n) (Nat.pow_le_pow_right (by omega) h)
  · intro h
    by_cases hn : n = 0
    · subst hn; rw [baseDigits_rec k 0 hk]; simp [show 0 < k by omega]; exact hd
    · have h1 := pow_le_of_baseDigits k hk n (by omega)
      have : k ^ ((baseDigits k n).length - 1) < k ^ d := Nat.lt_of_le_of_lt h1 h
      have := (Nat.pow_lt_pow_iff_right (by omega : 1 < k)).mp this
      omega

end Py

namespace Py

theorem ofDigitsBE_nil (k : Nat) : ofDigitsBE k [] = 0 := rfl

/-- Digit `i` (from the left) of a big-endian digit list is `value / k^(len-1-i) % k`. -/
theorem ofDigitsBE_getElem (k : Nat) (hk : 2 ≤ k) (ds : List Nat) :
    (∀ d ∈ ds, d < k) → ∀ i (hi : i < ds.length),
      ds[i] = ofDigitsBE k ds / k ^ (ds.length - 1 - i) % k := by
  induction ds using List.reverseRecOn with
  | nil => intro _ i hi; simp at hi
  | append_singleton ds d ih =>
    intro hlt i hi
    have hd : d < k := hlt d (by simp)
    have hds : ∀ x ∈ ds, x < k := fun x hx => hlt x (by simp [hx])
    rw [ofDigitsBE_append_single]
    simp only [List.length_append, List.length_singleton] at hi ⊢
    by_cases hlast : i = ds.length
    · subst hlast
      simp only [List.getElem_concat_length, Nat.add_sub_cancel, Nat.sub_self, Nat.pow_zero, Nat.div_one]
      rw [Nat.mul_add_mod]; exact (Nat.mod_eq_of_lt hd).symm
    · have hi' : i < ds.length := by omega
      rw [List.getElem_append_left hi', ih hds i hi']
      have e : ds.length + 1 - 1 - i = (ds.length - 1 - i) + 1 := by omega
      rw [e, Nat.pow_succ, Nat.mul_comm (k ^ _) k, ← Nat.div_div_eq_div_mul]
      congr 2
      rw [Nat.mul_add_div (by omega), Nat.div_eq_of_lt hd]; simp

theorem ofDigitsBE_replicate_zero_append (k n : Nat) (ds : List Nat) :
    ofDigitsBE k (List.replicate n 0 ++ ds) = ofDigitsBE k ds := by
  induction n with
  | zero => simp
  | succ n ih =>
    rw [List.replicate_succ, List.cons_append]
    unfold ofDigitsBE at ih ⊢
    simpa using ih

theorem ofDigitsBE_lt_pow (k : Nat) (ds : List Nat) (h : ∀ d ∈ ds, d < k) :
    ofDigitsBE k ds < k ^ ds.length := by
  induction ds using List.reverseRecOn with
  | nil => simp [ofDigitsBE]
  | append_singleton ds d ih =>
    have hd : d < k := h d (by simp)
    have := ih (fun x hx => h x (by simp [hx]))
    rw [ofDigitsBE_append_single, List.length_append, List.length_singleton, Nat.pow_succ]
    calc k * ofDigitsBE k ds + d < k * ofDigitsBE k ds + k := by omega
      _ = k * (ofDigitsBE k ds + 1) := by rw [Nat.mul_add, Nat.mul_one]
      _ ≤ k * k ^ ds.length := Nat.mul_le_mul_left k this
      _ = k ^ ds.length * k := Nat.mul_comm _ _

end Py
