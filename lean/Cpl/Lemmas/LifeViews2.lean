import Cpl.Lemmas.LifeLocal

/-! # Kernel evaluation of the glider's 9×9 blocks, part 2 of 4 (8 of the 32 row views × all 32 column views). -/

namespace Cpl.Life

theorem glider_viewsC : ∀ ρ ∈ viewsC, ∀ κ ∈ views, GliderOK ρ κ := by decide +kernel

theorem glider_viewsD : ∀ ρ ∈ viewsD, ∀ κ ∈ views, GliderOK ρ κ := by decide +kernel

end Cpl.Life
