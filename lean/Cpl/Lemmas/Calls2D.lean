import Cpl.Spec.Torus
import Cpl.Lemmas.Evolve2D
import Cpl.Lemmas.Memo2D
import Cpl.Lemmas.Dyn2D
import Cpl.Properties.C02

/-!
# Call traces of the two 2D memoisers (C09, 2D part): the rule is `recorder2 f`, its state is the log
of calls `(masked neighbourhood, (row, col), t)`.

Everything lives in `Cpl.Calls2D` to stay clear of the other lemma files.
-/

namespace Cpl.Calls2D
open Cpl Py Spec Memo2D

section
variable {α : Type}

abbrev Log2 (α : Type) := List (Nbhd2 α × (Nat × Nat) × Nat)

/-- All (masked) neighbourhoods that occur when stepping from each of the given `R × C` grids
    (same as `C09.occurring2`). -/
def occ2 [Inhabited α] (R C r : Nat) (vn : Bool) (grids : List (Grid α)) : List (Nbhd2 α) :=
  grids.flatMap fun g => (cellsRowMajor R C).map fun c => nbhd g R C r vn c.1 c.2

theorem occ2_cons [Inhabited α] (R C r : Nat) (vn : Bool) (g : Grid α) (grids : List (Grid α)) :
    occ2 R C r vn (g :: grids)
      = (cellsRowMajor R C).map (fun c => nbhd g R C r vn c.1 c.2) ++ occ2 R C r vn grids := by
  simp [occ2]

theorem stepped2_succ [Inhabited α] (f : Nbhd2 α → α) (R C r : Nat) (vn : Bool) (k : Nat) (g : Grid α) :
    (g :: pureRun2 f R C r vn (k + 1) g).take (k + 1)
      = g :: (pureStep2 f R C r vn g :: pureRun2 f R C r vn k (pureStep2 f R C r vn g)).take k := by
  simp [pureRun2]

theorem recorder2_pure (f : Nbhd2 α → α) : PureVal2 (recorder2 f) f := fun _ _ _ _ => rfl

/-! ## Generic list facts -/

theorem lookup_none_not_mem {κ β : Type} [BEq κ] [LawfulBEq κ] (tbl : List (κ × β)) (n : κ)
    (h : tbl.lookup n = none) : n ∉ tbl.map (·.1) := by
  intro hm
  rw [List.lookup_eq_none_iff] at h
  obtain ⟨p, hp, rfl⟩ := List.mem_map.mp hm
  have := h p hp
  simp at this

theorem lookup_some_mem_keys {κ β : Type} [BEq κ] [LawfulBEq κ] (tbl : List (κ × β)) (n : κ) (v : β)
    (h : tbl.lookup n = some v) : n ∈ tbl.map (·.1) :=
  List.mem_map.mpr ⟨(n, v), Memo2D.lookup_mem _ _ _ h, rfl⟩

/-- A duplicate-free list whose elements all lie in `m` is at most as long as `m`. -/
theorem nodup_length_le {β : Type} [DecidableEq β] :
    ∀ (l m : List β), l.Nodup → (∀ x ∈ l, x ∈ m) → l.length ≤ m.length
  | [], _, _, _ => by simp
  | x :: l, m, hnd, hsub => by
    have hx : x ∈ m := hsub x (by simp)
    have hnd' := List.nodup_cons.mp hnd
    have hsub' : ∀ y ∈ l, y ∈ m.erase x := by
      intro y hy
      have hne : y ≠ x := fun h => hnd'.1 (h ▸ hy)
      exact (List.mem_erase_of_ne hne).mpr (hsub y (List.mem_cons_of_mem _ hy))
    have := nodup_length_le l (m.erase x) hnd'.2 hsub'
    rw [List.length_erase_of_mem hx] at this
    have hpos : 0 < m.length := List.length_pos_of_mem hx
    simp only [List.length_cons]
    omega

theorem getElem!_cons_succ' {β : Type} [Inhabited β] (a : β) (l : List β) (n : Nat) :
    (a :: l)[n + 1]! = l[n]! := by
  simp [List.getElem!_eq_getElem?_getD]

theorem getElem!_cons_zero' {β : Type} [Inhabited β] (a : β) (l : List β) : (a :: l)[0]! = a := by
  simp

theorem getElem!_mem_take {β : Type} [Inhabited β] (l : List β) (i k : Nat) (hi : i < k) (hl : i < l.length) :
    l[i]! ∈ l.take k := by
  rw [getElem!_pos l i hl]
  have h2 : i < (l.take k).length := by rw [List.length_take]; omega
  have : (l.take k)[i] = l[i] := by simp
  rw [← this]
  exact List.getElem_mem h2

/-! ## memoize=True -/

/-- The logged neighbourhoods are duplicate-free and are exactly the keys of the table. -/
def MemoInv2 (tbl : MemoTable2 α) (log : Log2 α) : Prop :=
  (log.map (·.1)).Nodup ∧ ∀ n, n ∈ log.map (·.1) ↔ n ∈ tbl.map (·.1)

theorem MemoInv2_nil : MemoInv2 ([] : MemoTable2 α) ([] : Log2 α) := by
  refine ⟨List.nodup_nil, ?_⟩
  intro n; simp

theorem memoSweep_calls [DecidableEq α] [Inhabited α] (f : Nbhd2 α → α) (g : Grid α) (r : Nat) (vn : Bool)
    (t : Nat) :
    ∀ (cells : List (Nat × Nat)) (next : Grid α) (tbl : MemoTable2 α) (log : Log2 α), MemoInv2 tbl log →
      MemoInv2 (memoSweep (recorder2 f) g r vn t cells next tbl log).2.1
        (memoSweep (recorder2 f) g r vn t cells next tbl log).2.2 ∧
      (∀ m, m ∈ (memoSweep (recorder2 f) g r vn t cells next tbl log).2.1.map (·.1) ↔
        m ∈ tbl.map (·.1) ∨ m ∈ cells.map (fun c => getNeighbourhood g r vn c.1 c.2)) ∧
      (memoSweep (recorder2 f) g r vn t cells next tbl log).2.2.length ≤ log.length + cells.length := by
  intro cells
  induction cells with
  | nil =>
    intro next tbl log hi
    refine ⟨hi, ?_, by simp [memoSweep]⟩
    intro m; simp [memoSweep]
  | cons c rest ih =>
    intro next tbl log hi
    obtain ⟨ci, cj⟩ := c
    rw [memoSweep]
    simp only
    split
    · rename_i v hv
      have hk := lookup_some_mem_keys _ _ _ hv
      obtain ⟨i1, i2, i3⟩ := ih (setCell next ci cj v) tbl log hi
      refine ⟨i1, ?_, ?_⟩
      · intro m
        rw [i2 m, List.map_cons, List.mem_cons]
        constructor
        · rintro (h | h)
          · exact Or.inl h
          · exact Or.inr (Or.inr h)
        · rintro (h | h | h)
          · exact Or.inl h
          · exact Or.inl (h ▸ hk)
          · exact Or.inr h
      · simp only [List.length_cons]; omega
    · rename_i hv
      have hk := lookup_none_not_mem _ _ hv
      simp only [recorder2]
      have hi' : MemoInv2 ((getNeighbourhood g r vn ci cj, f (getNeighbourhood g r vn ci cj)) :: tbl)
          (log ++ [(getNeighbourhood g r vn ci cj, (ci, cj), t)]) := by
        refine ⟨?_, ?_⟩
        · rw [List.map_append, List.nodup_append]
          refine ⟨hi.1, by simp, ?_⟩
          intro a ha b hb
          simp only [List.map_cons, List.map_nil, List.mem_singleton] at hb
          intro hab
          rw [hb] at hab
          rw [hab] at ha
          exact hk ((hi.2 _).mp ha)
        · intro m
          simp only [List.map_append, List.mem_append, List.map_cons, List.map_nil,
            List.mem_cons, List.not_mem_nil, or_false]
          rw [hi.2 m]
          exact Or.comm
      obtain ⟨i1, i2, i3⟩ := ih (setCell next ci cj (f (getNeighbourhood g r vn ci cj)))
        ((getNeighbourhood g r vn ci cj, f (getNeighbourhood g r vn ci cj)) :: tbl)
        (log ++ [(getNeighbourhood g r vn ci cj, (ci, cj), t)]) hi'
      refine ⟨i1, ?_, ?_⟩
      · intro m
        rw [i2 m]
        simp only [List.map_cons, List.mem_cons]
        constructor
        · rintro ((h | h) | h)
          · exact Or.inr (Or.inl h)
          · exact Or.inl h
          · exact Or.inr (Or.inr h)
        · rintro (h | h | h)
          · exact Or.inl (Or.inr h)
          · exact Or.inl (Or.inl h)
          · exact Or.inr h
      · simp only [List.length_append, List.length_cons, List.length_nil] at i3 ⊢; omega

theorem cells_map_getNeighbourhood [Inhabited α] (g : Grid α) (R C r : Nat) (vn : Bool) (hg : Rect g R C)
    (hR : r ≤ R) (hC : r ≤ C) :
    (cellsRowMajor R C).map (fun c => getNeighbourhood g r vn c.1 c.2)
      = (cellsRowMajor R C).map (fun c => nbhd g R C r vn c.1 c.2) := by
  apply List.map_congr_left
  intro c hc
  obtain ⟨h1, h2⟩ := (Memo2D.mem_cellsRowMajor R C c).mp hc
  exact C02.getNeighbourhood_spec g R C r vn c.1 c.2 hg hR hC h1 h2

theorem fixedLoop2_memo_calls [DecidableEq α] [Inhabited α] (f : Nbhd2 α → α) (R C r : Nat) (vn : Bool)
    (hR1 : 1 ≤ R) (hR : r ≤ R) (hC : r ≤ C) :
    ∀ (k t : Nat) (g : Grid α) (cs : Caches2 α) (log : Log2 α), Rect g R C →
      CachesOK2 f r vn cs → MemoInv2 cs.tbl log →
      MemoInv2 (fixedLoop2 .memo (recorder2 f) r vn k t g cs log).2.1.tbl
        (fixedLoop2 .memo (recorder2 f) r vn k t g cs log).2.2 ∧
      (∀ n, n ∈ (fixedLoop2 .memo (recorder2 f) r vn k t g cs log).2.1.tbl.map (·.1) ↔
        n ∈ cs.tbl.map (·.1) ∨ n ∈ occ2 R C r vn ((g :: pureRun2 f R C r vn k g).take k)) ∧
      (fixedLoop2 .memo (recorder2 f) r vn k t g cs log).2.2.length ≤ log.length + R * C * k := by
  intro k
  induction k with
  | zero =>
    intro t g cs log hg hc hi
    refine ⟨hi, ?_, by simp [fixedLoop2]⟩
    intro n; simp [fixedLoop2, occ2]
  | succ k ih =>
    intro t g cs log hg hc hi
    obtain ⟨e1, e2⟩ := step2_pure (recorder2 f) f (recorder2_pure f) .memo (by decide) g R C r vn t cs
      log hg hR1 hR hC hc
    obtain ⟨m1, m2, m3⟩ := memoSweep_calls f g r vn t (cellsRowMajor R C) (zeroGrid R C) cs.tbl log hi
    have hs1 : (Cpl.step2 .memo (recorder2 f) r vn g t cs log).2.1.tbl
        = (memoSweep (recorder2 f) g r vn t (cellsRowMajor R C) (zeroGrid R C) cs.tbl log).2.1 := by
      simp only [Cpl.step2]
      rw [hg.1, Memo2D.rect_gridCols hg hR1]
    have hs2 : (Cpl.step2 .memo (recorder2 f) r vn g t cs log).2.2
        = (memoSweep (recorder2 f) g r vn t (cellsRowMajor R C) (zeroGrid R C) cs.tbl log).2.2 := by
      simp only [Cpl.step2]
      rw [hg.1, Memo2D.rect_gridCols hg hR1]
    rw [← hs1] at m1 m2
    rw [← hs2] at m1 m3
    rw [cells_map_getNeighbourhood g R C r vn hg hR hC] at m2
    obtain ⟨i1, i2, i3⟩ := ih (t + 1) (Cpl.step2 .memo (recorder2 f) r vn g t cs log).1
      (Cpl.step2 .memo (recorder2 f) r vn g t cs log).2.1 (Cpl.step2 .memo (recorder2 f) r vn g t cs log).2.2
      (by rw [e1]; exact Memo2D.rect_pureStep2 f R C r vn g) e2 m1
    rw [Dyn2D.fixedLoop2_succ]
    refine ⟨i1, ?_, ?_⟩
    · intro n
      rw [i2 n, m2 n, stepped2_succ, occ2_cons, List.mem_append, e1, or_assoc]
    · rw [cellsRowMajor_length] at m3
      rw [Nat.mul_succ]
      exact Nat.le_trans i3 (by omega)

/-! ## memoize='recursive' -/

/-- The unmasked `(2r+1)²` block of states around the cell of a log entry (in grid `g`). -/
def winOf [Inhabited α] (g : Grid α) (R C r : Nat) (e : Nbhd2 α × (Nat × Nat) × Nat) : Grid α :=
  torusWindow g R C r e.2.1.1 e.2.1.2

/-- `keys`: the unmasked blocks the rule has been called on so far. They are pairwise different and
    every one of them is a key of the cache. -/
def RecInv2 (cache : RecCache2 α) (keys : List (Grid α)) : Prop :=
  keys.Nodup ∧ ∀ k ∈ keys, k ∈ cache.map (·.1)

theorem RecInv2_nil : RecInv2 ([] : RecCache2 α) ([] : List (Grid α)) :=
  ⟨List.nodup_nil, fun _ h => by cases h⟩

theorem RecInv2_cons (cache : RecCache2 α) (keys : List (Grid α)) (kv : Grid α × Grid α)
    (h : RecInv2 cache keys) : RecInv2 (kv :: cache) keys :=
  ⟨h.1, fun k hk => by
    simp only [List.map_cons, List.mem_cons]; exact Or.inr (h.2 k hk)⟩

theorem quadrants_disjoint (b : Blk) :
    (quadrants b).Pairwise (fun q q' => ∀ i j, InBlk q i j → ¬ InBlk q' i j) := by
  simp only [quadrants, InBlk, List.pairwise_cons, List.mem_cons, List.not_mem_nil, or_false,
    forall_eq_or_imp, forall_eq, List.Pairwise.nil, and_true, false_imp_iff, implies_true]
  refine ⟨⟨?_, ?_, ?_⟩, ⟨?_, ?_⟩, ?_⟩ <;> intro i j <;> omega

/-- What one block update contributes to the log. -/
def CallsOK [Inhabited α] (g : Grid α) (R C r : Nat) (vn : Bool) (t : Nat) (inb : Nat → Nat → Prop)
    (st st' : RecSt2 (Log2 α) α) (keys : List (Grid α)) (new : Log2 α) : Prop :=
  st'.s = st.s ++ new ∧
  RecInv2 st'.cache (keys ++ new.map (winOf g R C r)) ∧
  (∀ e ∈ new, e.1 = nbhd g R C r vn e.2.1.1 e.2.1.2 ∧ e.2.2 = t ∧ inb e.2.1.1 e.2.1.2) ∧
  (new.map (·.2.1)).Nodup

theorem foldl_calls [Inhabited α] (g : Grid α) (R C r : Nat) (vn : Bool) (t : Nat)
    (F : Blk → RecSt2 (Log2 α) α → RecSt2 (Log2 α) α) :
    ∀ (qs : List Blk),
      (∀ q ∈ qs, ∀ (st : RecSt2 (Log2 α) α) (keys : List (Grid α)), RecInv2 st.cache keys →
        ∃ new, CallsOK g R C r vn t (InBlk q) st (F q st) keys new) →
      qs.Pairwise (fun q q' => ∀ i j, InBlk q i j → ¬ InBlk q' i j) →
      ∀ (st : RecSt2 (Log2 α) α) (keys : List (Grid α)), RecInv2 st.cache keys →
        ∃ new, CallsOK g R C r vn t (fun i j => ∃ q ∈ qs, InBlk q i j) st
          (qs.foldl (fun acc q => F q acc) st) keys new := by
  intro qs
  induction qs with
  | nil =>
    intro _ _ st keys hi
    refine ⟨[], by simp, by simpa using hi, ?_, by simp⟩
    intro e he; cases he
  | cons q rest ih =>
    intro H hdis st keys hi
    obtain ⟨new1, a1, a2, a3, a4⟩ := H q (by simp) st keys hi
    obtain ⟨hd1, hd2⟩ := List.pairwise_cons.mp hdis
    obtain ⟨new2, b1, b2, b3, b4⟩ := ih (fun q' hq' => H q' (List.mem_cons_of_mem _ hq')) hd2 (F q st)
      (keys ++ new1.map (winOf g R C r)) a2
    rw [List.foldl_cons]
    refine ⟨new1 ++ new2, by rw [b1, a1, List.append_assoc], ?_, ?_, ?_⟩
    · rw [List.map_append, ← List.append_assoc]; exact b2
    · intro e he
      rcases List.mem_append.mp he with h | h
      · obtain ⟨c1, c2, c3⟩ := a3 e h
        exact ⟨c1, c2, q, by simp, c3⟩
      · obtain ⟨c1, c2, q', hq', c3⟩ := b3 e h
        exact ⟨c1, c2, q', List.mem_cons_of_mem _ hq', c3⟩
    · rw [List.map_append, List.nodup_append]
      refine ⟨a4, b4, ?_⟩
      intro x hx y hy
      obtain ⟨e, he, rfl⟩ := List.mem_map.mp hx
      obtain ⟨e', he', rfl⟩ := List.mem_map.mp hy
      intro hxy
      obtain ⟨_, _, c3⟩ := a3 e he
      obtain ⟨_, _, q', hq', c3'⟩ := b3 e' he'
      rw [← hxy] at c3'
      exact hd1 q' hq' _ _ c3 c3'

theorem CallsOK_congr [Inhabited α] (g : Grid α) (R C r : Nat) (vn : Bool) (t : Nat)
    (p q : Nat → Nat → Prop) (hpq : ∀ i j, p i j → q i j) (st st' : RecSt2 (Log2 α) α)
    (keys : List (Grid α)) (new : Log2 α) (h : CallsOK g R C r vn t p st st' keys new) :
    CallsOK g R C r vn t q st st' keys new := by
  obtain ⟨a1, a2, a3, a4⟩ := h
  exact ⟨a1, a2, fun e he => ⟨(a3 e he).1, (a3 e he).2.1, hpq _ _ (a3 e he).2.2⟩, a4⟩

theorem updateRec2_calls [DecidableEq α] [Inhabited α] (f : Nbhd2 α → α) (g : Grid α) (R C r : Nat)
    (vn : Bool) (t : Nat) (hg : Rect g R C) (hR : r ≤ R) (hC : r ≤ C) :
    ∀ (fuel : Nat) (b : Blk) (st : RecSt2 (Log2 α) α) (keys : List (Grid α)),
      b.r0 + b.h ≤ R → b.c0 + b.w ≤ C → RecInv2 st.cache keys →
      ∃ new, CallsOK g R C r vn t (InBlk b) st (updateRec2 (recorder2 f) r vn g t fuel b st) keys new := by
  intro fuel
  induction fuel with
  | zero =>
    intro b st keys _ _ hi
    refine ⟨[], by simp [updateRec2], by simpa [updateRec2] using hi, ?_, by simp⟩
    intro e he; cases he
  | succ fuel ih =>
    intro b st keys hb1 hb2 hi
    rw [updateRec2]
    by_cases hempty : b.h = 0 ∨ b.w = 0
    · rw [if_pos hempty]
      refine ⟨[], by simp, by simpa using hi, ?_, by simp⟩
      intro e he; cases he
    · rw [if_neg hempty]
      have hh : 0 < b.h := by omega
      have hw : 0 < b.w := by omega
      simp only
      split
      · -- cache hit: no call
        refine ⟨[], by simp, by simpa using hi, ?_, by simp⟩
        intro e he; cases he
      · rename_i hlk
        have hk := lookup_none_not_mem _ _ hlk
        by_cases hbig : b.h > 1 ∨ b.w > 1
        · simp only [hbig, if_true]
          obtain ⟨new, a1, a2, a3, a4⟩ := foldl_calls g R C r vn t
            (fun q acc => updateRec2 (recorder2 f) r vn g t fuel q acc) (quadrants b)
            (by
              intro q hq st' keys' hi'
              obtain ⟨hi1, hi2⟩ := quadrants_inside b R C hb1 hb2 q hq
              exact ih q st' keys' hi1 hi2 hi')
            (quadrants_disjoint b) st keys hi
          refine ⟨new, a1, RecInv2_cons _ _ _ a2, ?_, a4⟩
          intro e he
          obtain ⟨c1, c2, c3⟩ := a3 e he
          exact ⟨c1, c2, (quadrants_inBlk b _ _).mpr c3⟩
        · simp only [hbig, if_false]
          obtain ⟨r0, h, c0, w⟩ := b
          simp only at hh hw hbig hb1 hb2 hk
          have e1 : h = 1 := by omega
          have e2 : w = 1 := by omega
          subst e1 e2
          have hnb := C02.getNeighbourhood_spec g R C r vn r0 c0 hg hR hC (by omega) (by omega)
          have hkey : blockKey g r ⟨r0, 1, c0, 1⟩ = torusWindow g R C r r0 c0 :=
            blockAt_eq_torusWindow g R C r r0 c0 hg hR hC (by omega) (by omega)
          have hnb' : applyMask (blockKey g r ⟨r0, 1, c0, 1⟩) (if vn then some (vonNeumannMask r) else none)
              = nbhd g R C r vn r0 c0 := hnb
          simp only [recorder2]
          rw [hnb']
          refine ⟨[(nbhd g R C r vn r0 c0, (r0, c0), t)], rfl, ⟨?_, ?_⟩, ?_, by simp⟩
          · simp only [List.map_cons, List.map_nil, winOf]
            rw [List.nodup_append]
            refine ⟨hi.1, by simp, ?_⟩
            intro a ha b' hb'
            simp only [List.mem_singleton] at hb'
            intro hab
            rw [hb', ← hkey] at hab
            rw [hab] at ha
            exact hk (hi.2 _ ha)
          · intro k hk'
            simp only [List.map_cons, List.map_nil, winOf] at hk'
            simp only [List.map_cons, List.mem_cons]
            rcases List.mem_append.mp hk' with h | h
            · exact Or.inr (hi.2 k h)
            · simp only [List.mem_singleton] at h
              exact Or.inl (by rw [h, hkey])
          · intro e he
            simp only [List.mem_singleton] at he
            subst he
            refine ⟨rfl, rfl, ?_⟩
            unfold InBlk; simp only; omega

theorem stepRec2_calls [DecidableEq α] [Inhabited α] (f : Nbhd2 α → α) (g : Grid α) (R C r : Nat)
    (vn : Bool) (t : Nat) (hg : Rect g R C) (hR1 : 1 ≤ R) (hR : r ≤ R) (hC : r ≤ C)
    (cache : RecCache2 α) (log : Log2 α) (keys : List (Grid α)) (hi : RecInv2 cache keys) :
    ∃ new : Log2 α, (stepRec2 (recorder2 f) r vn g t cache log).s = log ++ new ∧
      RecInv2 (stepRec2 (recorder2 f) r vn g t cache log).cache (keys ++ new.map (winOf g R C r)) ∧
      (∀ e ∈ new, e.1 = nbhd g R C r vn e.2.1.1 e.2.1.2 ∧ e.2.2 = t ∧ e.2.1.1 < R ∧ e.2.1.2 < C) ∧
      (new.map (·.2.1)).Nodup ∧ new.length ≤ R * C := by
  unfold stepRec2
  simp only
  rw [hg.1, Memo2D.rect_gridCols hg hR1]
  obtain ⟨new, a1, a2, a3, a4⟩ := foldl_calls g R C r vn t
    (fun q acc => updateRec2 (recorder2 f) r vn g t (R + C + 1) q acc) (quadrants ⟨0, R, 0, C⟩)
    (by
      intro q hq st' keys' hi'
      obtain ⟨hi1, hi2⟩ := quadrants_inside ⟨0, R, 0, C⟩ R C (by simp) (by simp) q hq
      exact updateRec2_calls f g R C r vn t hg hR hC (R + C + 1) q st' keys' hi1 hi2 hi')
    (quadrants_disjoint _) ⟨zeroGrid R C, cache, log⟩ keys hi
  have hin : ∀ e ∈ new, e.2.1.1 < R ∧ e.2.1.2 < C := by
    intro e he
    obtain ⟨_, _, c3⟩ := a3 e he
    have := (quadrants_inBlk ⟨0, R, 0, C⟩ _ _).mpr c3
    unfold InBlk at this; simp only at this; omega
  refine ⟨new, a1, a2, ?_, a4, ?_⟩
  · intro e he
    exact ⟨(a3 e he).1, (a3 e he).2.1, hin e he⟩
  · have := nodup_length_le (new.map (·.2.1)) (cellsRowMajor R C) a4 (by
      intro c hc
      obtain ⟨e, he, rfl⟩ := List.mem_map.mp hc
      exact (Memo2D.mem_cellsRowMajor R C _).mpr (hin e he))
    rwa [List.length_map, cellsRowMajor_length] at this

theorem fixedLoop2_rec_calls [DecidableEq α] [Inhabited α] (f : Nbhd2 α → α) (R C r : Nat) (vn : Bool)
    (hR1 : 1 ≤ R) (hR : r ≤ R) (hC : r ≤ C) :
    ∀ (k t : Nat) (g : Grid α) (cs : Caches2 α) (log : Log2 α) (keys : List (Grid α)), Rect g R C →
      CachesOK2 f r vn cs → RecInv2 cs.rc keys →
      ∃ new : Log2 α, (fixedLoop2 .recursive (recorder2 f) r vn k t g cs log).2.2 = log ++ new ∧
        RecInv2 (fixedLoop2 .recursive (recorder2 f) r vn k t g cs log).2.1.rc
          (keys ++ new.map (fun e => winOf ((g :: pureRun2 f R C r vn k g)[e.2.2 - t]!) R C r e)) ∧
        (∀ e ∈ new, e.1 = nbhd ((g :: pureRun2 f R C r vn k g)[e.2.2 - t]!) R C r vn e.2.1.1 e.2.1.2 ∧
          e.2.1.1 < R ∧ e.2.1.2 < C ∧ t ≤ e.2.2 ∧ e.2.2 < t + k) ∧
        (∀ t0, ((new.filter (fun e => e.2.2 = t0)).map (·.2.1)).Nodup) ∧
        new.length ≤ R * C * k := by
  intro k
  induction k with
  | zero =>
    intro t g cs log keys hg hc hi
    refine ⟨[], by simp [fixedLoop2], by simpa [fixedLoop2] using hi, ?_, ?_, by simp⟩
    · intro e he; cases he
    · intro t0; simp
  | succ k ih =>
    intro t g cs log keys hg hc hi
    obtain ⟨e1, e2⟩ := step2_pure (recorder2 f) f (recorder2_pure f) .recursive (by decide) g R C r vn t cs
      log hg hR1 hR hC hc
    obtain ⟨new1, a1, a2, a3, a4, a5⟩ := stepRec2_calls f g R C r vn t hg hR1 hR hC cs.rc log keys hi
    have hs1 : (Cpl.step2 .recursive (recorder2 f) r vn g t cs log).2.1.rc
        = (stepRec2 (recorder2 f) r vn g t cs.rc log).cache := rfl
    have hs2 : (Cpl.step2 .recursive (recorder2 f) r vn g t cs log).2.2
        = (stepRec2 (recorder2 f) r vn g t cs.rc log).s := rfl
    rw [← hs1] at a2
    rw [← hs2] at a1
    obtain ⟨new2, b1, b2, b3, b4, b5⟩ := ih (t + 1) (Cpl.step2 .recursive (recorder2 f) r vn g t cs log).1
      (Cpl.step2 .recursive (recorder2 f) r vn g t cs log).2.1
      (Cpl.step2 .recursive (recorder2 f) r vn g t cs log).2.2 (keys ++ new1.map (winOf g R C r))
      (by rw [e1]; exact Memo2D.rect_pureStep2 f R C r vn g) e2 a2
    rw [e1] at b1 b2 b3
    -- the grid an entry was stepped from
    have hidx1 : ∀ e ∈ new1, (g :: pureRun2 f R C r vn (k + 1) g)[e.2.2 - t]! = g := by
      intro e he
      rw [(a3 e he).2.1, Nat.sub_self, getElem!_cons_zero']
    have hidx2 : ∀ e ∈ new2, (g :: pureRun2 f R C r vn (k + 1) g)[e.2.2 - t]!
        = (pureStep2 f R C r vn g :: pureRun2 f R C r vn k (pureStep2 f R C r vn g))[e.2.2 - (t + 1)]! := by
      intro e he
      have := (b3 e he).2.2.2.1
      have e' : e.2.2 - t = (e.2.2 - (t + 1)) + 1 := by omega
      rw [e', getElem!_cons_succ']
      rfl
    rw [Dyn2D.fixedLoop2_succ, e1]
    refine ⟨new1 ++ new2, by rw [b1, a1, List.append_assoc], ?_, ?_, ?_, ?_⟩
    · have hm1 : new1.map (fun e => winOf ((g :: pureRun2 f R C r vn (k + 1) g)[e.2.2 - t]!) R C r e)
          = new1.map (winOf g R C r) :=
        List.map_congr_left (fun e he => by rw [hidx1 e he])
      have hm2 : new2.map (fun e => winOf ((g :: pureRun2 f R C r vn (k + 1) g)[e.2.2 - t]!) R C r e)
          = new2.map (fun e => winOf ((pureStep2 f R C r vn g ::
              pureRun2 f R C r vn k (pureStep2 f R C r vn g))[e.2.2 - (t + 1)]!) R C r e) :=
        List.map_congr_left (fun e he => by rw [hidx2 e he])
      rw [List.map_append, hm1, hm2, ← List.append_assoc]
      exact b2
    · intro e he
      rcases List.mem_append.mp he with h | h
      · obtain ⟨c1, c2, c3, c4⟩ := a3 e h
        rw [hidx1 e h]
        exact ⟨c1, c3, c4, by omega, by omega⟩
      · obtain ⟨c1, c2, c3, c4, c5⟩ := b3 e h
        rw [hidx2 e h]
        exact ⟨c1, c2, c3, by omega, by omega⟩
    · intro t0
      rw [List.filter_append]
      by_cases ht : t0 = t
      · have hn2 : new2.filter (fun e => e.2.2 = t0) = [] := by
          rw [List.filter_eq_nil_iff]
          intro e he
          have := (b3 e he).2.2.2.1
          simp only [decide_eq_true_eq]; omega
        have hn1 : new1.filter (fun e => e.2.2 = t0) = new1 := by
          rw [List.filter_eq_self]
          intro e he
          have := (a3 e he).2.1
          simp only [decide_eq_true_eq]; omega
        rw [hn1, hn2, List.append_nil]; exact a4
      · have hn1 : new1.filter (fun e => e.2.2 = t0) = [] := by
          rw [List.filter_eq_nil_iff]
          intro e he
          have := (a3 e he).2.1
          simp only [decide_eq_true_eq]; omega
        rw [hn1, List.nil_append]; exact b4 t0
    · rw [List.length_append, Nat.mul_succ]
      omega

end
end Cpl.Calls2D
