import Cpl.Spec.Torus

/-! # Helper lemmas about the 2D evolution model (C02, and reused by C04/C05/C06/C09/C11/C14). -/

namespace Cpl
open Py

end Cpl
