import Cpl.Spec.Torus

/-! # Helper lemmas about the 2D evolution model (C02, and reused by C04/C05/C06/C09/C11/C14). -/

namespace Cpl
open Py Spec

/-! ## The per-axis index list (`np.ix_` is a product: the wrap lemma is used once per axis) -/

theorem axisIdx_length' (n start len r : Nat) : (axisIdx n start len r).length = len + 2 * r := by
  simp [axisIdx]

/-- The entry the code computes for position `k` of an axis, resolved the NumPy way. -/
theorem resolve_wrap (n start r k : Nat) (hr : r ≤ n) (hs : start + k < n + 2 * r) :
    resolve n (if (start : Int) - (r : Int) + (k : Int) > (n : Int) - 1
        then (start : Int) - (r : Int) + (k : Int) - n else (start : Int) - (r : Int) + (k : Int))
      = (start + k + n - r) % n := by
  unfold resolve
  rcases Nat.lt_or_ge (start + k) r with h | h
  · have h1 : ¬ ((start : Int) - (r : Int) + (k : Int) > (n : Int) - 1) := by omega
    have h2 : (start : Int) - (r : Int) + (k : Int) < 0 := by omega
    simp only [h1, if_false, h2, if_true]
    rw [Nat.mod_eq_of_lt (by omega)]; omega
  · rcases Nat.lt_or_ge (start + k) (r + n) with h' | h'
    · have h1 : ¬ ((start : Int) - (r : Int) + (k : Int) > (n : Int) - 1) := by omega
      have h2 : ¬ (start : Int) - (r : Int) + (k : Int) < 0 := by omega
      simp only [h1, if_false, h2]
      have : start + k + n - r = (start + k - r) + n := by omega
      rw [this, Nat.add_mod_right, Nat.mod_eq_of_lt (by omega)]; omega
    · have h1 : ((start : Int) - (r : Int) + (k : Int) > (n : Int) - 1) := by omega
      have h2 : ¬ (start : Int) - (r : Int) + (k : Int) - n < 0 := by omega
      simp only [h1, if_true, h2, if_false]
      have : start + k + n - r = (start + k - r - n) + n + n := by omega
      rw [this, Nat.add_mod_right, Nat.add_mod_right, Nat.mod_eq_of_lt (by omega)]; omega

theorem axisIdx_map_resolve (n start len r : Nat) (hr : r ≤ n) (hb : start + len ≤ n) :
    (axisIdx n start len r).map (resolve n)
      = (List.range (len + 2 * r)).map fun k => (start + k + n - r) % n := by
  unfold axisIdx
  rw [List.map_map]
  apply List.map_congr_left
  intro k hk
  have hk : k < len + 2 * r := by simpa using hk
  exact resolve_wrap n start r k hr (by omega)

theorem axisIdx_getElem?_resolve (n start len r k : Nat) (hr : r ≤ n) (hb : start + len ≤ n)
    (hk : k < len + 2 * r) :
    ((axisIdx n start len r)[k]?).map (resolve n) = some ((start + k + n - r) % n) := by
  rw [← List.getElem?_map, axisIdx_map_resolve n start len r hr hb, List.getElem?_map,
    List.getElem?_range hk]
  rfl

/-! ## The von Neumann mask -/

theorem vnMask_entry (r i j : Nat) (hi : i < 2 * r + 1) (hj : j < 2 * r + 1) :
    (decide (j < (if i ≤ r then r - i else i - r))
      || (decide ((if i ≤ r then r - i else i - r) ≠ 0)
          && decide (2 * r + 1 - (if i ≤ r then r - i else i - r) ≤ j)))
      = decide (dist i r + dist j r > r) := by
  unfold dist
  rw [Bool.eq_iff_iff]
  simp only [Bool.or_eq_true, Bool.and_eq_true, decide_eq_true_eq]
  by_cases h1 : i ≤ r <;> by_cases h2 : j ≤ r <;> simp only [h1, h2, if_true, if_false] <;> omega

theorem vnMaskRow_eq (r i : Nat) (hi : i < 2 * r + 1) :
    vnMaskRow r i = (List.range (2 * r + 1)).map fun j => decide (dist i r + dist j r > r) := by
  unfold vnMaskRow
  apply List.map_congr_left
  intro j hj
  have hj : j < 2 * r + 1 := by simpa using hj
  exact vnMask_entry r i j hi hj

theorem vonNeumannMask_eq (r : Nat) :
    vonNeumannMask r = (List.range (2 * r + 1)).map fun i =>
      (List.range (2 * r + 1)).map fun j => decide (dist i r + dist j r > r) := by
  unfold vonNeumannMask
  apply List.map_congr_left
  intro i hi
  exact vnMaskRow_eq r i (by simpa using hi)

/-! ## Rectangular grids, `blockAt`, `getNeighbourhood` -/

section
variable {σ α : Type}

theorem Rect_getElem!_length [Inhabited α] {g : Grid α} {R C : Nat} (hg : Rect g R C) {i : Nat}
    (hi : i < R) : (g[i]!).length = C := by
  have hi' : i < g.length := by rw [hg.1]; exact hi
  rw [getElem!_pos g i hi']
  exact hg.2 _ (List.getElem_mem hi')

theorem Rect_gridCols {g : Grid α} {R C : Nat} (hg : Rect g R C) (hR : 1 ≤ R) : gridCols g = C := by
  obtain ⟨h1, h2⟩ := hg
  cases g with
  | nil => simp at h1; omega
  | cons row rest => simp [Cpl.gridCols, h2 row (by simp)]

theorem ix2_axis_eq [Inhabited α] (g : Grid α) (R C r r0 h c0 w : Nat) (hg : Rect g R C)
    (hR : r ≤ R) (hC : r ≤ C) (hr : r0 + h ≤ R) (hc : c0 + w ≤ C) (hR1 : 1 ≤ R) :
    ix2 g (axisIdx R r0 h r) (axisIdx C c0 w r)
      = (List.range (h + 2 * r)).map fun a =>
          (List.range (w + 2 * r)).map fun b => (g[(r0 + a + R - r) % R]!)[(c0 + b + C - r) % C]! := by
  show List.map (fun i => List.map (fun j => (g[resolve g.length i]!)[resolve (g[resolve g.length i]!).length j]!)
    (axisIdx C c0 w r)) (axisIdx R r0 h r) = _
  rw [hg.1]
  have e1 := axisIdx_map_resolve R r0 h r hR hr
  have e2 := axisIdx_map_resolve C c0 w r hC hc
  have step1 : List.map (fun i => List.map (fun j => (g[resolve R i]!)[resolve (g[resolve R i]!).length j]!)
      (axisIdx C c0 w r)) (axisIdx R r0 h r)
      = List.map (fun i => List.map (fun j => (g[i]!)[resolve (g[i]!).length j]!) (axisIdx C c0 w r))
          (List.map (resolve R) (axisIdx R r0 h r)) := by
    rw [List.map_map]; rfl
  rw [step1, e1, List.map_map]
  apply List.map_congr_left
  intro a _
  simp only [Function.comp]
  have hlen : (g[(r0 + a + R - r) % R]!).length = C := Rect_getElem!_length hg (Nat.mod_lt _ (by omega))
  rw [hlen]
  have step2 : List.map (fun j => (g[(r0 + a + R - r) % R]!)[resolve C j]!) (axisIdx C c0 w r)
      = List.map (fun j => (g[(r0 + a + R - r) % R]!)[j]!) (List.map (resolve C) (axisIdx C c0 w r)) := by
    rw [List.map_map]; rfl
  rw [step2, e2, List.map_map]
  rfl

theorem blockAt_eq_torusWindow [Inhabited α] (g : Grid α) (R C r row col : Nat) (hg : Rect g R C)
    (hR : r ≤ R) (hC : r ≤ C) (hrow : row < R) (hcol : col < C) :
    blockAt g r row col = torusWindow g R C r row col := by
  unfold blockAt
  rw [Rect_gridCols hg (by omega), hg.1, ix2_axis_eq g R C r row 1 col 1 hg hR hC (by omega) (by omega) (by omega)]
  rw [Nat.add_comm 1 (2 * r)]
  rfl

theorem applyMask_torusWindow [Inhabited α] (g : Grid α) (R C r : Nat) (vn : Bool) (row col : Nat) :
    applyMask (torusWindow g R C r row col) (if vn then some (vonNeumannMask r) else none)
      = nbhd g R C r vn row col := by
  cases vn with
  | false =>
    simp [applyMask, torusWindow, nbhd, List.map_map, Function.comp_def]
  | true =>
    simp only [if_true, applyMask, torusWindow, nbhd, vonNeumannMask_eq, List.zip_map', List.map_map]
    apply List.map_congr_left
    intro a _
    simp only [Function.comp, List.zip_map', List.map_map]
    apply List.map_congr_left
    intro b _
    simp

theorem getNeighbourhood_eq_nbhd [Inhabited α] (g : Grid α) (R C r : Nat) (vn : Bool) (row col : Nat)
    (hg : Rect g R C) (hR : r ≤ R) (hC : r ≤ C) (hrow : row < R) (hcol : col < C) :
    getNeighbourhood g r vn row col = nbhd g R C r vn row col := by
  unfold getNeighbourhood
  rw [blockAt_eq_torusWindow g R C r row col hg hR hC hrow hcol, applyMask_torusWindow]

/-! ## Cell access, `setCell`, writing a list of cells -/

/-- `g[i][j]` as an option. -/
def cellAt? (g : Grid α) (i j : Nat) : Option α := g[i]?.bind (·[j]?)

theorem setCell_length (g : Grid α) (i j : Nat) (v : α) : (setCell g i j v).length = g.length := by
  simp [setCell]

theorem setCell_rect {g : Grid α} {R C : Nat} (hg : Rect g R C) (i j : Nat) (v : α) :
    Rect (setCell g i j v) R C := by
  refine ⟨by rw [setCell_length]; exact hg.1, ?_⟩
  intro row hrow
  obtain ⟨k, hk⟩ := List.mem_iff_getElem?.1 hrow
  unfold setCell at hk
  rw [List.getElem?_modify] at hk
  cases hgk : g[k]? with
  | none => rw [hgk] at hk; simp at hk
  | some a =>
    rw [hgk] at hk
    have ha : a.length = C := hg.2 a (List.mem_of_getElem? hgk)
    simp only [Option.map_eq_map, Option.map_some, Option.some.injEq] at hk
    rw [← hk]
    split <;> simp [ha]

theorem cellAt?_setCell_ne (g : Grid α) (i j i' j' : Nat) (v : α) (h : ¬ (i' = i ∧ j' = j)) :
    cellAt? (setCell g i j v) i' j' = cellAt? g i' j' := by
  unfold cellAt? setCell
  rw [List.getElem?_modify]
  cases g[i']? with
  | none => rfl
  | some a =>
    simp only [Option.map_eq_map, Option.map_some, Option.bind_some]
    by_cases hi : i = i'
    · simp only [hi, if_true]
      rw [List.getElem?_set]
      have : ¬ j = j' := by intro hj; exact h ⟨hi.symm, hj.symm⟩
      simp [this]
    · simp [hi]

theorem cellAt?_setCell_self {g : Grid α} {R C : Nat} (hg : Rect g R C) (i j : Nat) (v : α)
    (hi : i < R) (hj : j < C) : cellAt? (setCell g i j v) i j = some v := by
  unfold cellAt? setCell
  rw [List.getElem?_modify]
  have hi' : i < g.length := by rw [hg.1]; exact hi
  rw [List.getElem?_eq_getElem hi']
  have hlen : (g[i]).length = C := hg.2 _ (List.getElem_mem hi')
  simp only [Option.map_eq_map, Option.map_some, Option.bind_some, if_true]
  rw [List.getElem?_set]
  simp [hlen, hj]

/-- `next[i][j] = v` for the cells of `cs` paired with the values `vs`, in order. -/
def writeCells (next : Grid α) : List (Nat × Nat) → List α → Grid α
  | (i, j) :: cs, v :: vs => writeCells (setCell next i j v) cs vs
  | [], _ => next
  | _ :: _, [] => next

theorem writeCells_rect {R C : Nat} :
    ∀ (cs : List (Nat × Nat)) (vs : List α) (next : Grid α), Rect next R C → Rect (writeCells next cs vs) R C
  | [], _, _, h => by simpa [writeCells] using h
  | _ :: _, [], _, h => by simpa [writeCells] using h
  | (i, j) :: cs, v :: vs, next, h => by
    simp only [writeCells]
    exact writeCells_rect cs vs _ (setCell_rect h i j v)

theorem cellAt?_writeCells_notin (i j : Nat) :
    ∀ (cs : List (Nat × Nat)) (vs : List α) (next : Grid α), (i, j) ∉ cs →
      cellAt? (writeCells next cs vs) i j = cellAt? next i j
  | [], _, _, _ => by simp [writeCells]
  | _ :: _, [], _, _ => by simp [writeCells]
  | (i', j') :: cs, v :: vs, next, h => by
    simp only [writeCells]
    have h1 : (i, j) ∉ cs := fun hm => h (List.mem_cons_of_mem _ hm)
    have h2 : ¬ (i = i' ∧ j = j') := by
      rintro ⟨rfl, rfl⟩; exact h (List.mem_cons_self ..)
    rw [cellAt?_writeCells_notin i j cs vs _ h1, cellAt?_setCell_ne _ _ _ _ _ _ h2]

theorem cellAt?_writeCells {R C : Nat} (i j : Nat) :
    ∀ (cs : List (Nat × Nat)) (vs : List α) (next : Grid α) (k : Nat), Rect next R C → cs.Nodup →
      cs.length = vs.length → (∀ c ∈ cs, c.1 < R ∧ c.2 < C) → cs[k]? = some (i, j) →
      cellAt? (writeCells next cs vs) i j = vs[k]?
  | [], _, _, _, _, _, _, _, hk => by simp at hk
  | _ :: _, [], _, _, _, _, hl, _, _ => by simp at hl
  | (i', j') :: cs, v :: vs, next, 0, hn, hnd, _, hb, hk => by
    simp only [List.getElem?_cons_zero, Option.some.injEq, Prod.mk.injEq] at hk
    obtain ⟨rfl, rfl⟩ := hk
    simp only [writeCells, List.getElem?_cons_zero]
    rw [cellAt?_writeCells_notin _ _ cs vs _ (List.nodup_cons.1 hnd).1]
    have := hb (i', j') (List.mem_cons_self ..)
    exact cellAt?_setCell_self hn _ _ v this.1 this.2
  | (i', j') :: cs, v :: vs, next, k + 1, hn, hnd, hl, hb, hk => by
    simp only [writeCells, List.getElem?_cons_succ] at hk ⊢
    exact cellAt?_writeCells i j cs vs _ k (setCell_rect hn _ _ v) (List.nodup_cons.1 hnd).2
      (by simpa using hl) (fun c hc => hb c (List.mem_cons_of_mem _ hc)) hk

theorem grid_ext {a b : Grid α} {R C : Nat} (ha : Rect a R C) (hb : Rect b R C)
    (h : ∀ i j, i < R → j < C → cellAt? a i j = cellAt? b i j) : a = b := by
  apply List.ext_getElem (by rw [ha.1, hb.1])
  intro i h1 h2
  have hla : (a[i]).length = C := ha.2 _ (List.getElem_mem h1)
  have hlb : (b[i]).length = C := hb.2 _ (List.getElem_mem h2)
  apply List.ext_getElem (by rw [hla, hlb])
  intro j h3 h4
  have := h i j (by rw [← ha.1]; exact h1) (by rw [← hla]; exact h3)
  unfold cellAt? at this
  rw [List.getElem?_eq_getElem h1, List.getElem?_eq_getElem h2] at this
  simp only [Option.bind_some] at this
  rw [List.getElem?_eq_getElem h3, List.getElem?_eq_getElem h4] at this
  exact Option.some.inj this

/-! ## `cellsRowMajor` -/

theorem cellsRowMajor_succ (R C : Nat) :
    cellsRowMajor (R + 1) C = cellsRowMajor R C ++ (List.range C).map fun j => (R, j) := by
  simp [cellsRowMajor, List.range_succ, List.flatMap_append]

theorem cellsRowMajor_length (R C : Nat) : (cellsRowMajor R C).length = R * C := by
  induction R with
  | zero => simp [cellsRowMajor]
  | succ R ih => rw [cellsRowMajor_succ, List.length_append, ih, Nat.succ_mul]; simp

theorem cellsRowMajor_getElem? (R C : Nat) :
    ∀ i j, i < R → j < C → (cellsRowMajor R C)[i * C + j]? = some (i, j) := by
  induction R with
  | zero => intro i j hi; omega
  | succ R ih =>
    intro i j hi hj
    rw [cellsRowMajor_succ]
    rcases Nat.lt_or_ge i R with h | h
    · have hlt : i * C + j < R * C := by
        have : (i + 1) * C ≤ R * C := Nat.mul_le_mul_right C h
        rw [Nat.succ_mul] at this; omega
      rw [List.getElem?_append_left (by rw [cellsRowMajor_length]; exact hlt)]
      exact ih i j h hj
    · have hi' : i = R := by omega
      subst hi'
      rw [List.getElem?_append_right (by rw [cellsRowMajor_length]; omega), cellsRowMajor_length]
      have : i * C + j - i * C = j := by omega
      rw [this, List.getElem?_map, List.getElem?_range hj]
      rfl

theorem mem_cellsRowMajor (R C : Nat) (c : Nat × Nat) : c ∈ cellsRowMajor R C ↔ c.1 < R ∧ c.2 < C := by
  obtain ⟨i, j⟩ := c
  simp only [cellsRowMajor, List.mem_flatMap, List.mem_range, List.mem_map, Prod.mk.injEq]
  constructor
  · rintro ⟨a, ha, b, hb, rfl, rfl⟩; exact ⟨ha, hb⟩
  · rintro ⟨h1, h2⟩; exact ⟨i, h1, j, h2, rfl, rfl⟩

theorem cellsRowMajor_nodup (R C : Nat) : (cellsRowMajor R C).Nodup := by
  unfold cellsRowMajor
  rw [List.nodup_iff_pairwise_ne, List.pairwise_flatMap]
  constructor
  · intro a _
    rw [List.pairwise_map]
    exact (List.nodup_range (n := C)).imp (fun h he => h (by simpa using he))
  · refine (List.nodup_range (n := R)).imp ?_
    intro a b hab x hx y hy hxy
    simp only [List.mem_map, List.mem_range] at hx hy
    obtain ⟨_, _, rfl⟩ := hx
    obtain ⟨_, _, rfl⟩ := hy
    exact hab (by simpa using congrArg Prod.fst hxy)

/-! ## The plain sweep is the specification step -/

theorem cellVals_length [Inhabited α] (rule : Rule2 σ α) (g : Grid α) (R C r : Nat) (vn : Bool) (t : Nat) :
    ∀ (cs : List (Nat × Nat)) (s : σ), (cellVals rule g R C r vn t cs s).1.length = cs.length
  | [], _ => rfl
  | (i, j) :: cs, s => by
    simp only [cellVals, List.length_cons]
    rw [cellVals_length rule g R C r vn t cs]

theorem plainSweep_eq_writeCells [Inhabited α] (rule : Rule2 σ α) (g : Grid α) (R C r : Nat) (vn : Bool)
    (t : Nat) (hg : Rect g R C) (hR : r ≤ R) (hC : r ≤ C) :
    ∀ (cs : List (Nat × Nat)) (next : Grid α) (s : σ), (∀ c ∈ cs, c.1 < R ∧ c.2 < C) →
      plainSweep rule g r vn t cs next s
        = (writeCells next cs (cellVals rule g R C r vn t cs s).1, (cellVals rule g R C r vn t cs s).2)
  | [], _, _, _ => rfl
  | (i, j) :: cs, next, s, hb => by
    have hij := hb (i, j) (List.mem_cons_self ..)
    simp only [plainSweep, cellVals, writeCells]
    rw [getNeighbourhood_eq_nbhd g R C r vn i j hg hR hC hij.1 hij.2]
    rw [plainSweep_eq_writeCells rule g R C r vn t hg hR hC cs _ _
      (fun c hc => hb c (List.mem_cons_of_mem _ hc))]

theorem zeroGrid_rect [Inhabited α] (R C : Nat) : Rect (zeroGrid R C : Grid α) R C := by
  constructor
  · simp [zeroGrid]
  · intro row hrow
    simp only [zeroGrid, List.mem_replicate] at hrow
    rw [hrow.2]; simp

theorem reshape_rect [Inhabited α] (vals : List α) (R C : Nat) :
    Rect ((List.range R).map fun i => (List.range C).map fun j => vals[i * C + j]!) R C := by
  constructor
  · simp
  · intro row hrow
    simp only [List.mem_map, List.mem_range] at hrow
    obtain ⟨i, _, rfl⟩ := hrow
    simp

theorem writeCells_rowMajor [Inhabited α] (vals : List α) (R C : Nat) (hl : vals.length = R * C) :
    writeCells (zeroGrid R C) (cellsRowMajor R C) vals
      = (List.range R).map fun i => (List.range C).map fun j => vals[i * C + j]! := by
  apply grid_ext (writeCells_rect _ _ _ (zeroGrid_rect R C)) (reshape_rect vals R C)
  intro i j hi hj
  have hk := cellsRowMajor_getElem? R C i j hi hj
  rw [cellAt?_writeCells i j _ vals _ (i * C + j) (zeroGrid_rect R C) (cellsRowMajor_nodup R C)
    (by rw [cellsRowMajor_length, hl]) (fun c hc => (mem_cellsRowMajor R C c).1 hc) hk]
  have hlt : i * C + j < vals.length := by
    have h' := (List.getElem?_eq_some_iff.1 hk).1
    rw [cellsRowMajor_length] at h'
    rw [hl]; exact h'
  unfold cellAt?
  rw [List.getElem?_map, List.getElem?_range hi]
  simp only [Option.map_some, Option.bind_some]
  rw [List.getElem?_map, List.getElem?_range hj]
  simp only [Option.map_some]
  rw [List.getElem?_eq_getElem hlt, getElem!_pos vals _ hlt]

theorem step2_plain [DecidableEq α] [Inhabited α] (rule : Rule2 σ α) (g : Grid α) (R C r : Nat)
    (vn : Bool) (t : Nat) (cs : Caches2 α) (s : σ) (hg : Rect g R C) (hR1 : 1 ≤ R)
    (hR : r ≤ R) (hC : r ≤ C) :
    Cpl.step2 .plain rule r vn g t cs s
      = ((Spec.step2 rule g R C r vn t s).1, cs, (Spec.step2 rule g R C r vn t s).2) := by
  simp only [Cpl.step2, Spec.step2]
  rw [hg.1, Rect_gridCols hg hR1,
    plainSweep_eq_writeCells rule g R C r vn t hg hR hC _ _ _ (fun c hc => (mem_cellsRowMajor R C c).1 hc)]
  simp only
  rw [writeCells_rowMajor _ R C (by rw [cellVals_length, cellsRowMajor_length])]

theorem spec_step2_rect [Inhabited α] (rule : Rule2 σ α) (g : Grid α) (R C r : Nat) (vn : Bool) (t : Nat)
    (s : σ) : Rect (Spec.step2 rule g R C r vn t s).1 R C := by
  simp only [Spec.step2]
  exact reshape_rect _ R C

theorem fixedLoop2_plain [DecidableEq α] [Inhabited α] (rule : Rule2 σ α) (R C r : Nat) (vn : Bool)
    (hR1 : 1 ≤ R) (hR : r ≤ R) (hC : r ≤ C) :
    ∀ (k t : Nat) (g : Grid α) (cs : Caches2 α) (s : σ), Rect g R C →
      fixedLoop2 .plain rule r vn k t g cs s
        = ((run2 rule R C r vn k t g s).1, cs, (run2 rule R C r vn k t g s).2)
  | 0, _, _, _, _, _ => rfl
  | k + 1, t, g, cs, s, hg => by
    simp only [fixedLoop2, run2]
    rw [step2_plain rule g R C r vn t cs s hg hR1 hR hC]
    simp only
    rw [fixedLoop2_plain rule R C r vn hR1 hR hC k (t + 1) _ cs _ (spec_step2_rect rule g R C r vn t s)]

/-! ## Call trace -/

theorem cellVals_logged [Inhabited α] (rule : Rule2 σ α) (g : Grid α) (R C r : Nat) (vn : Bool) (t : Nat) :
    ∀ (cs : List (Nat × Nat)) (s : σ) (log : List (Nbhd2 α × (Nat × Nat) × Nat)),
      cellVals (logged2 rule) g R C r vn t cs (s, log)
        = ((cellVals rule g R C r vn t cs s).1,
           ((cellVals rule g R C r vn t cs s).2,
            log ++ cs.map fun c => (nbhd g R C r vn c.1 c.2, c, t)))
  | [], _, _ => by simp [cellVals]
  | (i, j) :: cs, s, log => by
    simp only [cellVals, logged2]
    rw [cellVals_logged rule g R C r vn t cs]
    simp [List.append_assoc]

end

end Cpl
