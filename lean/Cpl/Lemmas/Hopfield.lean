import Cpl.Model.Rules
import Cpl.Spec.Ring
import Cpl.Lemmas.Async
import Mathlib.Algebra.BigOperators.Group.List.Basic
import Mathlib.Algebra.BigOperators.Ring.Finset
import Mathlib.Algebra.Order.BigOperators.Group.Finset
import Mathlib.Tactic.Ring
import Mathlib.Tactic.Linarith

/-!
# Helper lemmas for C20 (Hopfield network): Hebbian weights, the local field, energy descent.
-/

namespace Cpl
open Py

/-! ## Specification-level notions -/

/-- All entries are `+1` or `-1`. -/
def Bipolar (s : List Int) : Prop := ∀ x ∈ s, x = 1 ∨ x = -1

instance (s : List Int) : Decidable (Bipolar s) := by unfold Bipolar; infer_instance

/-- The weighted input of cell `c` from all *other* cells: `Σ_{i ≠ c} W[i][c] · s[i]`. -/
def localField (W : List (List Int)) (s : List Int) (c : Nat) : Int :=
  (((List.range s.length).filter (· ≠ c)).map fun i => (W[i]!)[c]! * s[i]!).sum

/-- `s'Ws = Σ_i Σ_j W[i][j] · s[i] · s[j]` (the energy is `-1/2` of it). -/
def quadForm (W : List (List Int)) (s : List Int) : Int :=
  ((List.range s.length).map fun i =>
    ((List.range s.length).map fun j => (W[i]!)[j]! * s[i]! * s[j]!).sum).sum

/-! ## `train` -/

theorem foldl_add_eq_sum {β : Type} (g : β → Int) :
    ∀ (l : List β) (z : Int), l.foldl (fun acc p => acc + g p) z = z + (l.map g).sum
  | [], z => by simp
  | p :: l, z => by
    simp only [List.foldl_cons, List.map_cons, List.sum_cons]
    rw [foldl_add_eq_sum g l]; omega

theorem getD_zero_eq (p : List Int) (i : Nat) : p.getD i 0 = p[i]! := by
  rw [List.getElem!_eq_getElem?_getD, List.getD_eq_getElem?_getD]; rfl

theorem getD_nil_eq (W : List (List Int)) (i : Nat) : W.getD i [] = W[i]! := by
  rw [List.getElem!_eq_getElem?_getD, List.getD_eq_getElem?_getD]; rfl

theorem hopfieldTrain_eq (P : List (List Int)) (N : Nat) (hN : P.head?.map List.length = some N) :
    hopfieldTrain P = (List.range N).map fun i => (List.range N).map fun j =>
      if i = j then (0 : Int) else (P.map fun p => p[i]! * p[j]!).sum := by
  unfold hopfieldTrain
  simp only [hN, Option.getD_some]
  apply List.map_congr_left; intro i _
  apply List.map_congr_left; intro j _
  by_cases h : i = j
  · simp [h]
  · simp only [h, if_false]
    rw [foldl_add_eq_sum (fun (p : List Int) => p.getD i 0 * p.getD j 0)]
    simp only [getD_zero_eq, Int.zero_add]

theorem hopfieldTrain_entry (P : List (List Int)) (N : Nat) (hN : P.head?.map List.length = some N)
    (i j : Nat) (hi : i < N) (hj : j < N) :
    ((hopfieldTrain P)[i]!)[j]! = if i = j then (0 : Int) else (P.map fun p => p[i]! * p[j]!).sum := by
  rw [hopfieldTrain_eq P N hN]
  rw [getElem!_pos _ i (by simp [hi])]
  simp only [List.getElem_map, List.getElem_range]
  rw [getElem!_pos _ j (by simp [hj])]
  simp only [List.getElem_map, List.getElem_range]

/-! ## The rule's index arithmetic -/

theorem foldl_zipIdx (h : Nat → Int) :
    ∀ (l : List Int) (k : Nat) (z : Int),
      (l.zipIdx k).foldl (fun acc (p : Int × Nat) => acc + h p.2 * p.1) z
        = z + ((List.range l.length).map fun i => h (k + i) * l[i]!).sum
  | [], _, z => by simp
  | x :: l, k, z => by
    rw [List.zipIdx_cons, List.foldl_cons, foldl_zipIdx h l (k + 1)]
    simp only [List.length_cons, List.range_succ_eq_map, List.map_cons, List.sum_cons, List.map_map]
    have : ((List.range l.length).map ((fun i => h (k + i) * (x :: l)[i]!) ∘ Nat.succ))
        = (List.range l.length).map fun i => h (k + 1 + i) * l[i]! := by
      apply List.map_congr_left
      intro i _
      simp only [Function.comp, Nat.succ_eq_add_one]
      have e : k + (i + 1) = k + 1 + i := by omega
      rw [e]
      congr 1
    rw [this]
    simp only [Nat.add_zero]
    have : (x :: l)[0]! = x := rfl
    rw [this]; omega

theorem foldl_zipIdx_map_range (h : Nat → Int) (g : Nat → Int) (r : Nat) :
    (((List.range r).map g).zipIdx).foldl (fun acc (p : Int × Nat) => acc + h p.2 * p.1) 0
      = ((List.range r).map fun j => h j * g j).sum := by
  rw [foldl_zipIdx h _ 0 0]
  simp only [List.length_map, List.length_range, Int.zero_add, Nat.zero_add]
  congr 1
  apply List.map_congr_left
  intro i hi
  have hi' : i < r := List.mem_range.1 hi
  rw [getElem!_pos _ i (by simp [hi'])]
  simp

theorem mod_lt_two (x N : Nat) (h : x < 2 * N) : x % N = if x < N then x else x - N := by
  by_cases hx : x < N
  · rw [if_pos hx, Nat.mod_eq_of_lt hx]
  · rw [if_neg hx, Nat.mod_eq_sub_mod (by omega), Nat.mod_eq_of_lt (by omega)]

/-- Left half: `c - r + j` after NumPy resolution of a negative index. -/
def idxL (r c j : Nat) : Nat := if r ≤ c + j then c + j - r else c + j + (2 * r + 1) - r
/-- Right half: `(c + j + 1) % N`. -/
def idxR (r c j : Nat) : Nat := if c + j + 1 < 2 * r + 1 then c + j + 1 else c + j + 1 - (2 * r + 1)

theorem resolve_left (r c j : Nat) (_hc : c < 2 * r + 1) (hj : j < r) :
    resolve (2 * r + 1) ((c : Int) - (r : Int) + (j : Int)) = idxL r c j := by
  unfold resolve idxL
  by_cases h : r ≤ c + j
  · have : ¬ ((c : Int) - (r : Int) + (j : Int) < 0) := by omega
    rw [if_neg this, if_pos h]; omega
  · have : ((c : Int) - (r : Int) + (j : Int) < 0) := by omega
    rw [if_pos this, if_neg h]; omega

theorem window_idx_left (r c j : Nat) (_hc : c < 2 * r + 1) (hj : j < r) :
    (c + j + (2 * r + 1) - r) % (2 * r + 1) = idxL r c j := by
  rw [mod_lt_two _ _ (by omega)]
  unfold idxL
  by_cases h : r ≤ c + j
  · rw [if_neg (by omega), if_pos h]; omega
  · rw [if_pos (by omega), if_neg h]

theorem window_idx_right (r c j : Nat) (hc : c < 2 * r + 1) (hj : j < r) :
    (c + (r + 1 + j) + (2 * r + 1) - r) % (2 * r + 1) = idxR r c j := by
  have e : c + (r + 1 + j) + (2 * r + 1) - r = (c + j + 1) + (2 * r + 1) := by omega
  rw [e, Nat.add_mod_right, mod_lt_two _ _ (by omega)]
  rfl

theorem rule_idx_right (r c j : Nat) (hc : c < 2 * r + 1) (hj : j < r) :
    (c + j + 1) % (2 * r + 1) = idxR r c j := by
  rw [mod_lt_two _ _ (by omega)]; rfl

/-- The two halves together enumerate every cell other than `c` exactly once. -/
theorem halves_perm (r c : Nat) (hc : c < 2 * r + 1) :
    ((List.range r).map (idxL r c) ++ (List.range r).map (idxR r c)).Perm
      ((List.range (2 * r + 1)).filter (· ≠ c)) := by
  apply (List.perm_ext_iff_of_nodup ?_ (List.nodup_range.filter _)).2
  · intro x
    simp only [List.mem_append, List.mem_map, List.mem_range, List.mem_filter, decide_eq_true_eq]
    constructor
    · rintro (⟨j, hj, rfl⟩ | ⟨j, hj, rfl⟩)
      · unfold idxL; split <;> omega
      · unfold idxR; split <;> omega
    · rintro ⟨hx, hne⟩
      by_cases h1 : x < c
      · by_cases h2 : c - x ≤ r
        · left; refine ⟨r - (c - x), by omega, ?_⟩
          unfold idxL; split <;> omega
        · right; refine ⟨x + (2 * r + 1) - c - 1, by omega, ?_⟩
          unfold idxR; split <;> omega
      · by_cases h2 : x - c ≤ r
        · right; refine ⟨x - c - 1, by omega, ?_⟩
          unfold idxR; split <;> omega
        · left; refine ⟨x - c - r - 1, by omega, ?_⟩
          unfold idxL; split <;> omega
  · rw [List.nodup_append]
    refine ⟨?_, ?_, ?_⟩
    · apply List.Nodup.map_on _ List.nodup_range
      intro a ha b hb
      simp only [List.mem_range] at ha hb
      unfold idxL; split <;> split <;> omega
    · apply List.Nodup.map_on _ List.nodup_range
      intro a ha b hb
      simp only [List.mem_range] at ha hb
      unfold idxR; split <;> split <;> omega
    · intro a ha b hb
      simp only [List.mem_map, List.mem_range] at ha hb
      obtain ⟨j, hj, rfl⟩ := ha
      obtain ⟨j', hj', rfl⟩ := hb
      unfold idxL idxR; split <;> split <;> omega

theorem window_take (s : List Int) (r c : Nat) (hN : s.length = 2 * r + 1) (hc : c < 2 * r + 1) :
    (Spec.window s r c).take r = (List.range r).map fun j => s[idxL r c j]! := by
  unfold Spec.window
  rw [← List.map_take, List.take_range]
  have : min r (2 * r + 1) = r := by omega
  rw [this]
  apply List.map_congr_left
  intro j hj
  rw [hN, window_idx_left r c j hc (List.mem_range.1 hj)]

theorem window_drop (s : List Int) (r c : Nat) (hN : s.length = 2 * r + 1) (hc : c < 2 * r + 1) :
    (Spec.window s r c).drop (r + 1) = (List.range r).map fun j => s[idxR r c j]! := by
  unfold Spec.window
  apply List.ext_getElem?
  intro j
  rw [List.getElem?_drop, List.getElem?_map, List.getElem?_map]
  by_cases hj : j < r
  · rw [List.getElem?_range (by omega), List.getElem?_range hj]
    simp only [Option.map_some]
    rw [hN, window_idx_right r c j hc hj]
  · rw [List.getElem?_eq_none (by simp; omega), List.getElem?_eq_none (by simp; omega)]
    rfl

/-- **The rule computes the sign of the local field.** -/
theorem hopfieldRule_eq (W : List (List Int)) (s : List Int) (r c : Nat) (hN : s.length = 2 * r + 1)
    (hW : W.length = 2 * r + 1) (hc : c < 2 * r + 1) :
    hopfieldRule W r (Spec.window s r c) c = if 0 ≤ localField W s c then 1 else -1 := by
  unfold hopfieldRule
  simp only [window_length']
  have hr : (2 * r + 1) / 2 = r := by omega
  rw [hr, window_take s r c hN hc, window_drop s r c hN hc, hW]
  have hL := foldl_zipIdx_map_range
    (fun (j : Nat) => (W.getD (resolve (2 * r + 1) ((c : Int) - (r : Int) + (j : Int))) []).getD c 0)
    (fun (j : Nat) => s[idxL r c j]!) r
  have hR := foldl_zipIdx_map_range
    (fun (j : Nat) => (W.getD ((c + j + 1) % (2 * r + 1)) []).getD c 0)
    (fun (j : Nat) => s[idxR r c j]!) r
  have hL' : ((List.range r).map fun (j : Nat) =>
      (W.getD (resolve (2 * r + 1) ((c : Int) - (r : Int) + (j : Int))) []).getD c 0 * s[idxL r c j]!)
      = ((List.range r).map (idxL r c)).map fun i => (W[i]!)[c]! * s[i]! := by
    rw [List.map_map]
    apply List.map_congr_left
    intro j hj
    simp only [Function.comp]
    rw [resolve_left r c j hc (List.mem_range.1 hj), getD_nil_eq, getD_zero_eq]
  have hR' : ((List.range r).map fun (j : Nat) =>
      (W.getD ((c + j + 1) % (2 * r + 1)) []).getD c 0 * s[idxR r c j]!)
      = ((List.range r).map (idxR r c)).map fun i => (W[i]!)[c]! * s[i]! := by
    rw [List.map_map]
    apply List.map_congr_left
    intro j hj
    simp only [Function.comp]
    rw [rule_idx_right r c j hc (List.mem_range.1 hj), getD_nil_eq, getD_zero_eq]
  rw [hL'] at hL
  rw [hR'] at hR
  have hsum : localField W s c
      = (((List.range r).map (idxL r c)).map fun i => (W[i]!)[c]! * s[i]!).sum
        + (((List.range r).map (idxR r c)).map fun i => (W[i]!)[c]! * s[i]!).sum := by
    unfold localField
    rw [hN, ← List.sum_append, ← List.map_append]
    exact ((halves_perm r c hc).map _).sum_eq.symm
  rw [hsum, ← hL, ← hR]

/-! ## Energy: list sums as finite sums, the update formula, descent -/

section energy
open Finset

theorem list_sum_range (f : Nat → Int) (n : Nat) :
    ((List.range n).map f).sum = ∑ i ∈ Finset.range n, f i := by
  induction n with
  | zero => simp
  | succ n ih =>
    rw [List.range_succ, List.map_append, List.sum_append, ih, Finset.sum_range_succ]; simp

theorem list_sum_filter_ne (f : Nat → Int) (n c : Nat) :
    (((List.range n).filter (· ≠ c)).map f).sum = ∑ i ∈ Finset.range n, if i = c then 0 else f i := by
  induction n with
  | zero => simp
  | succ n ih =>
    rw [List.range_succ, List.filter_append, List.map_append, List.sum_append, ih, Finset.sum_range_succ]
    congr 1
    by_cases h : n = c <;> simp [h]

/-- `s'Ws` and the full field for functions on `0 .. N-1`. -/
def Qf (N : Nat) (W : Nat → Nat → Int) (s : Nat → Int) : Int :=
  ∑ i ∈ range N, ∑ j ∈ range N, W i j * s i * s j
def Ff (N : Nat) (W : Nat → Nat → Int) (s : Nat → Int) (c : Nat) : Int := ∑ i ∈ range N, W i c * s i

theorem Qf_update (N : Nat) (W : Nat → Nat → Int) (hsym : ∀ i j, i < N → j < N → W i j = W j i)
    (hdiag : ∀ i, i < N → W i i = 0) (s : Nat → Int) (c : Nat) (hc : c < N) (v : Int) :
    Qf N W (Function.update s c v) = Qf N W s + 2 * (v - s c) * Ff N W s c := by
  have hcm : c ∈ range N := mem_range.2 hc
  have hs : ∀ i, Function.update s c v i = s i + (v - s c) * (if i = c then 1 else 0) := by
    intro i; by_cases h : i = c
    · subst h; simp
    · simp [h]
  simp only [Qf, Ff, hs]
  have expand : ∀ i j, W i j * (s i + (v - s c) * (if i = c then 1 else 0)) * (s j + (v - s c) * (if j = c then 1 else 0))
      = W i j * s i * s j + (v - s c) * (W i j * s i * (if j = c then 1 else 0))
        + (v - s c) * (W i j * s j * (if i = c then 1 else 0))
        + (v - s c) * (v - s c) * (W i j * ((if i = c then 1 else 0) * (if j = c then 1 else 0))) := by
    intro i j; ring
  simp only [expand, sum_add_distrib, ← mul_sum]
  have t1 : ∑ i ∈ range N, ∑ j ∈ range N, W i j * s i * (if j = c then (1:ℤ) else 0)
      = ∑ i ∈ range N, W i c * s i := by
    apply sum_congr rfl; intro i _; simp [mul_ite, hcm]
  have t2 : ∑ i ∈ range N, ∑ j ∈ range N, W i j * s j * (if i = c then (1:ℤ) else 0)
      = ∑ j ∈ range N, W j c * s j := by
    rw [sum_comm]; apply sum_congr rfl; intro j hj
    simp [mul_ite, hcm, hsym c j hc (mem_range.1 hj)]
  have t3 : ∑ i ∈ range N, ∑ j ∈ range N,
      W i j * ((if i = c then (1:ℤ) else 0) * (if j = c then (1:ℤ) else 0)) = 0 := by
    have : ∀ i j, W i j * ((if i = c then (1:ℤ) else 0) * (if j = c then (1:ℤ) else 0))
        = if i = c then (if j = c then W i j else 0) else 0 := by
      intro i j; by_cases h1 : i = c <;> by_cases h2 : j = c <;> simp [h1, h2]
    simp only [this]
    simp [hcm, hdiag c hc]
  rw [t1, t2, t3]; ring

theorem Qf_descent (N : Nat) (W : Nat → Nat → Int) (hsym : ∀ i j, i < N → j < N → W i j = W j i)
    (hdiag : ∀ i, i < N → W i i = 0) (s : Nat → Int) (c : Nat) (hc : c < N) (hs : s c = 1 ∨ s c = -1) :
    Qf N W s ≤ Qf N W (Function.update s c (if 0 ≤ Ff N W s c then 1 else -1)) := by
  rw [Qf_update N W hsym hdiag s c hc]
  by_cases h : 0 ≤ Ff N W s c
  · simp only [h, if_true]
    rcases hs with h1 | h1 <;> rw [h1] <;> nlinarith
  · simp only [h, if_false]
    rcases hs with h1 | h1 <;> rw [h1] <;> nlinarith

theorem quadForm_eq_Qf (W : List (List Int)) (s : List Int) :
    quadForm W s = Qf s.length (fun i j => (W[i]!)[j]!) (fun i => s[i]!) := by
  unfold quadForm Qf
  rw [list_sum_range]
  apply sum_congr rfl; intro i _
  rw [list_sum_range]

theorem localField_eq_Ff (W : List (List Int)) (s : List Int) (c : Nat) (hc : c < s.length)
    (hdiag : (W[c]!)[c]! = 0) :
    localField W s c = Ff s.length (fun i j => (W[i]!)[j]!) (fun i => s[i]!) c := by
  unfold localField Ff
  rw [list_sum_filter_ne]
  apply sum_congr rfl; intro i _
  by_cases h : i = c
  · subst h; rw [if_pos rfl]; show 0 = (W[i]!)[i]! * s[i]!; rw [hdiag, Int.zero_mul]
  · simp [h]

theorem set_getElem!_eq_update (s : List Int) (c : Nat) (hc : c < s.length) (v : Int) :
    (fun i => (s.set c v)[i]!) = Function.update (fun i => s[i]!) c v := by
  funext i
  by_cases h : i = c
  · subst h
    rw [getElem!_pos (s.set i v) i (by simpa using hc)]
    simp
  · rw [Function.update_of_ne h]
    simp only [List.getElem!_eq_getElem?_getD]
    rw [List.getElem?_set]
    have : ¬ c = i := fun h' => h h'.symm
    simp [this]

/-- **Energy descent for one update** (lists): updating the single bipolar cell `c` to the sign of its
    local field does not decrease `s'Ws`. -/
theorem quadForm_descent (W : List (List Int)) (s : List Int) (c : Nat) (hc : c < s.length)
    (hsym : ∀ i j, i < s.length → j < s.length → (W[i]!)[j]! = (W[j]!)[i]!)
    (hdiag : ∀ i, i < s.length → (W[i]!)[i]! = 0) (hs : s[c]! = 1 ∨ s[c]! = -1) :
    quadForm W s ≤ quadForm W (s.set c (if 0 ≤ localField W s c then 1 else -1)) := by
  rw [quadForm_eq_Qf, quadForm_eq_Qf, List.length_set, set_getElem!_eq_update s c hc,
    localField_eq_Ff W s c hc (hdiag c hc)]
  exact Qf_descent s.length _ hsym hdiag _ c hc hs

end energy

/-! ## Along a sequential evolution -/

section evolution
open Finset

theorem hopfieldRule_pm (W : List (List Int)) (r : Nat) (n : List Int) (c : Nat) :
    hopfieldRule W r n c = 1 ∨ hopfieldRule W r n c = -1 := by
  unfold hopfieldRule
  simp only
  split
  · exact Or.inl rfl
  · exact Or.inr rfl

theorem Bipolar.set {s : List Int} (h : Bipolar s) (c : Nat) (v : Int) (hv : v = 1 ∨ v = -1) :
    Bipolar (s.set c v) := by
  intro x hx
  rcases List.mem_or_eq_of_mem_set hx with h' | h'
  · exact h x h'
  · rw [h']; exact hv

theorem Bipolar.getElem! {s : List Int} (h : Bipolar s) (c : Nat) (hc : c < s.length) :
    s[c]! = 1 ∨ s[c]! = -1 := by
  rw [getElem!_pos s c hc]; exact h _ (List.getElem_mem hc)

/-- Along any sequential evolution with the net's rule (one scheduled cell per step, any schedule of
    valid cells) `s'Ws` never decreases: every earlier row has a value `≤` that of every later row.
    All rows stay bipolar. -/
theorem seqRun_hopfield_energy (W : List (List Int)) (r N : Nat) (hN : N = 2 * r + 1) (hW : W.length = N)
    (hsym : ∀ i j, i < N → j < N → (W[i]!)[j]! = (W[j]!)[i]!) (hdiag : ∀ i, i < N → (W[i]!)[i]! = 0)
    (sched : Nat → Nat) (hsched : ∀ t, sched t < N) :
    ∀ (k t : Nat) (cells : List Int) (u : Unit), cells.length = N → Bipolar cells →
      List.Pairwise (fun x y => quadForm W x ≤ quadForm W y)
        (cells :: (Spec.seqRun (hopfieldRule1 W r) r sched k t cells u).1) ∧
      ∀ row ∈ (Spec.seqRun (hopfieldRule1 W r) r sched k t cells u).1, Bipolar row ∧ row.length = N
  | 0, _, _, _, _, _ => by simp [Spec.seqRun]
  | k + 1, t, cells, u, hl, hb => by
    have hc : sched t < cells.length := by rw [hl]; exact hsched t
    have hval : (hopfieldRule1 W r u (Spec.window cells r (sched t)) (sched t) t).1
        = if 0 ≤ localField W cells (sched t) then 1 else -1 := by
      show hopfieldRule W r (Spec.window cells r (sched t)) (sched t) = _
      exact hopfieldRule_eq W cells r (sched t) (by omega) (by omega) (by omega)
    have hdesc := quadForm_descent W cells (sched t) hc (by rw [hl]; exact hsym) (by rw [hl]; exact hdiag)
      (hb.getElem! _ hc)
    have hb' : Bipolar (cells.set (sched t) (if 0 ≤ localField W cells (sched t) then 1 else -1)) :=
      hb.set _ _ (by split <;> simp)
    obtain ⟨ih1, ih2⟩ := seqRun_hopfield_energy W r N hN hW hsym hdiag sched hsched k (t + 1)
      (cells.set (sched t) (if 0 ≤ localField W cells (sched t) then 1 else -1))
      (hopfieldRule1 W r u (Spec.window cells r (sched t)) (sched t) t).2 (by simpa using hl) hb'
    simp only [Spec.seqRun, hval]
    refine ⟨?_, ?_⟩
    · rw [List.pairwise_cons]
      refine ⟨?_, ih1⟩
      intro y hy
      rcases List.mem_cons.1 hy with rfl | hy
      · exact hdesc
      · exact le_trans hdesc ((List.pairwise_cons.1 ih1).1 y hy)
    · intro row hrow
      rcases List.mem_cons.1 hrow with rfl | hrow
      · exact ⟨hb', by simpa using hl⟩
      · exact ih2 row hrow

/-- If every other cell contributes exactly `s[c]`, the field is `(N - 1) · s[c]`. -/
theorem localField_aligned (W : List (List Int)) (s : List Int) (r c : Nat)
    (hN : s.length = 2 * r + 1) (hc : c < 2 * r + 1)
    (hal : ∀ i, i < s.length → i ≠ c → (W[i]!)[c]! * s[i]! = s[c]!) :
    localField W s c = (2 * (r : Int)) * s[c]! := by
  unfold localField
  rw [list_sum_filter_ne]
  have : ∀ i ∈ range s.length, (if i = c then (0 : Int) else (W[i]!)[c]! * s[i]!)
      = s[c]! - (if i = c then s[c]! else 0) := by
    intro i hi
    by_cases h : i = c
    · simp [h]
    · simp only [h, if_false]; rw [hal i (mem_range.1 hi) h]; simp
  rw [sum_congr rfl this, sum_sub_distrib, sum_const, card_range, sum_ite_eq']
  have hcm : c ∈ range s.length := mem_range.2 (by omega)
  rw [if_pos hcm]
  simp only [hN, nsmul_eq_mul]
  push_cast; ring

/-- If every other cell pushes `c` towards its present value, the rule keeps it (`N = 2r+1 ≥ 3`). -/
theorem hopfieldRule_aligned (W : List (List Int)) (s : List Int) (r c : Nat) (hr : 1 ≤ r)
    (hN : s.length = 2 * r + 1) (hW : W.length = 2 * r + 1) (hc : c < 2 * r + 1)
    (hs : s[c]! = 1 ∨ s[c]! = -1)
    (hal : ∀ i, i < s.length → i ≠ c → (W[i]!)[c]! * s[i]! = s[c]!) :
    hopfieldRule W r (Spec.window s r c) c = s[c]! := by
  rw [hopfieldRule_eq W s r c hN hW hc, localField_aligned W s r c hN hc hal]
  rcases hs with h | h <;> rw [h]
  · have : (0 : Int) ≤ 2 * (r : Int) * 1 := by omega
    rw [if_pos this]
  · have : ¬ (0 : Int) ≤ 2 * (r : Int) * -1 := by omega
    rw [if_neg this]

theorem hebb_single_entry (p : List Int) (N : Nat) (hp : p.length = N) (i c : Nat) (hi : i < N) (hc : c < N)
    (hne : i ≠ c) : ((hopfieldTrain [p])[i]!)[c]! = p[i]! * p[c]! := by
  rw [hopfieldTrain_entry [p] N (by simp [hp]) i c hi hc]
  simp [hne]

theorem bipolar_sq {x : Int} (h : x = 1 ∨ x = -1) : x * x = 1 := by
  rcases h with h | h <;> rw [h] <;> rfl

theorem neg_getElem! (p : List Int) (i : Nat) : (p.map (fun x => -x))[i]! = -(p[i]!) := by
  simp only [List.getElem!_eq_getElem?_getD, List.getElem?_map]
  cases p[i]? <;> simp

theorem Bipolar.neg {p : List Int} (h : Bipolar p) : Bipolar (p.map (fun x => -x)) := by
  intro x hx
  obtain ⟨y, hy, rfl⟩ := List.mem_map.1 hx
  rcases h y hy with h' | h' <;> rw [h'] <;> simp

theorem single_aligned (p : List Int) (r c : Nat) (hN : p.length = 2 * r + 1) (hb : Bipolar p)
    (hc : c < 2 * r + 1) :
    ∀ i, i < p.length → i ≠ c → ((hopfieldTrain [p])[i]!)[c]! * p[i]! = p[c]! := by
  intro i hi hne
  rw [hebb_single_entry p (2 * r + 1) hN i c (by omega) hc hne]
  have := bipolar_sq (hb.getElem! i hi)
  calc p[i]! * p[c]! * p[i]! = (p[i]! * p[i]!) * p[c]! := by ring
    _ = p[c]! := by rw [this]; ring

theorem single_aligned_neg (p : List Int) (r c : Nat) (hN : p.length = 2 * r + 1) (hb : Bipolar p)
    (hc : c < 2 * r + 1) :
    ∀ i, i < (p.map (fun x => -x)).length → i ≠ c →
      ((hopfieldTrain [p])[i]!)[c]! * (p.map (fun x => -x))[i]! = (p.map (fun x => -x))[c]! := by
  intro i hi hne
  have hi' : i < p.length := by simpa using hi
  rw [hebb_single_entry p (2 * r + 1) hN i c (by omega) hc hne, neg_getElem!, neg_getElem!]
  have := bipolar_sq (hb.getElem! i hi')
  calc p[i]! * p[c]! * -(p[i]!) = -((p[i]! * p[i]!) * p[c]!) := by ring
    _ = -(p[c]!) := by rw [this]; ring

theorem hopfieldTrain_single_length (p : List Int) (N : Nat) (hN : p.length = N) :
    (hopfieldTrain [p]).length = N := by
  rw [hopfieldTrain_eq [p] N (by simp [hN])]; simp

/-- With the weights of a single stored pattern `p`, the rule reproduces `p` at every cell … -/
theorem single_pattern_cell (p : List Int) (r c : Nat) (hr : 1 ≤ r) (hN : p.length = 2 * r + 1)
    (hb : Bipolar p) (hc : c < 2 * r + 1) :
    hopfieldRule (hopfieldTrain [p]) r (Spec.window p r c) c = p[c]! :=
  hopfieldRule_aligned _ p r c hr hN (hopfieldTrain_single_length p _ hN) hc (hb.getElem! c (by omega))
    (single_aligned p r c hN hb hc)

/-- … and the negated pattern at every cell. -/
theorem single_pattern_cell_neg (p : List Int) (r c : Nat) (hr : 1 ≤ r) (hN : p.length = 2 * r + 1)
    (hb : Bipolar p) (hc : c < 2 * r + 1) :
    hopfieldRule (hopfieldTrain [p]) r (Spec.window (p.map (fun x => -x)) r c) c
      = (p.map (fun x => -x))[c]! := by
  have hNl : (p.map (fun x => -x)).length = 2 * r + 1 := by simpa using hN
  exact hopfieldRule_aligned _ _ r c hr hNl (hopfieldTrain_single_length p _ hN) hc
    (hb.neg.getElem! c (by omega)) (single_aligned_neg p r c hN hb hc)

/-- A state that the rule reproduces at every cell is a fixed point of every sequential evolution. -/
theorem seqRun_fixed (inner : Rule1 Unit Int) (r : Nat) (sched : Nat → Nat) (s0 : List Int)
    (hsched : ∀ t, sched t < s0.length)
    (hfix : ∀ c t u, c < s0.length → (inner u (Spec.window s0 r c) c t).1 = s0[c]!) :
    ∀ (k t : Nat) (u : Unit), (Spec.seqRun inner r sched k t s0 u).1 = List.replicate k s0
  | 0, _, _ => rfl
  | k + 1, t, u => by
    have hset : s0.set (sched t) (inner u (Spec.window s0 r (sched t)) (sched t) t).1 = s0 := by
      rw [hfix _ t u (hsched t), getElem!_pos s0 _ (hsched t)]
      exact List.set_getElem_self _
    simp only [Spec.seqRun, hset, List.replicate_succ]
    rw [seqRun_fixed inner r sched s0 hsched hfix k (t + 1)]

end evolution

end Cpl
